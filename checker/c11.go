package main

import (
	"fmt"
	"go/ast"
	"go/token"
	"go/types"
	"strings"

	"golang.org/x/tools/go/ssa"
)

func init() { register("C11", true, false, checkC11) }

const c11Explanation = `Decided statically on every path: (R1) tsigVerify returns success only after stripTsig found and removed a TSIG, tsigBuffer built the digest input, the provider's Verify succeeded on exactly that input and that TSIG, and then the 64-bit time distance |now - TimeSigned| did not exceed Fudge (the MAC is checked before the time, as RFC 8945 s.5.2 / CVE-2017-3142 require); (R2) the built-in HMAC provider accepts only on hmac.Equal (constant time) between the recomputed MAC and the decoded TSIG MAC, its algorithm table maps the five RFC 8945 names to the right hash constructors with ErrKeyAlg otherwise, and the secret provider looks the key up by the TSIG owner name and fails with ErrSecret on a miss; (R3) tsigWireFmt, macWireFmt and timerWireFmt have the RFC 8945 s.4.3 layouts, are packed in order with uncompressed names, and tsigBuffer fills every field from the same-named TSIG field (names lower-cased, class ANY, request MAC with its length); (R4) tsigBuffer restores the original ID into the message, chooses timers-only variables exactly on the timersOnly flag, and returns requestMAC|message|variables exactly when a request MAC was given (whatever the timers-only setting) and message|variables otherwise; (R5) TsigGenerateWithProvider removes the TSIG before packing, signs unless the TSIG error is BADKEY/BADSIG, appends the TSIG record last and patches ARCOUNT to len(Extra)+1; (R6) stripTsig reports ErrNoSig for ARCOUNT 0, returns the message cut at the offset where the TSIG record starts, and decrements the wire ARCOUNT by one on the found edge. Observation (not armed): stripTsig's 'rr == nil' test after new(TSIG) is dead, so a message without TSIG reaches the provider with an empty TSIG; both built-in providers reject it. NOT decided: equality with the RFC 8945 HMAC for all inputs, bit-alteration facts, envelope-chain histories.`

func checkC11(c *Ctx, r *Report) {
	r.Explanation = c11Explanation
	r.Trusted = []string{"go/ssa translation", "crypto/hmac", "RFC 8945 layouts in checker/e1.go"}
	r.Assumptions = []string{"user-supplied TsigProvider implementations are outside the module"}
	r.note("observation (not armed): stripTsig's `if rr == nil` after `rr := new(TSIG)` is dead code; a message whose additional section has no TSIG reaches provider.Verify with an empty TSIG, which both built-in providers reject (ErrSecret / ErrKeyAlg)")
	c11R1(c, r)
	c11R2(c, r)
	c11R3(c, r)
	c11R4(c, r)
	c11R5(c, r)
	c11R6(c, r)
	c11CanonicalNames(c, r, "C11.R1.canonical-names")
	borrow(c, r, c15Out, "C15.R4.sender", "C11.R5.server-chain", 1, "the server's writer keeps the MAC of the envelope it just signed as the prior MAC of the next one", func(k string) bool { return strings.Contains(k, "mac-chain") }, "envelopes 2..n of a signed multi-message reply are then digested over the request MAC instead of the previous envelope's MAC")
	c11CopyAfterDefaults(c, r, "C11.R4.copy-after-defaults")
	sideStructOffsets(c, r, "C11.R4.digest-offsets", "the digest input ends before that field: the field is not covered by the MAC (a fudge or time that can be altered without invalidating the signature), and the MAC is not the RFC 8945 one")
	borrow(c, r, c12R4, "C12.R4.pool-release", "C11.R3.verify-before-release", 2, "the request buffer is not returned to the pool before the TSIG on it has been verified", nil, "another datagram can be read into the octets while they are being verified: valid requests are refused and altered ones accepted")
	r.rule("C11.R3.empty-keyring", 1, "the server selects TSIG verification on TsigSecret != nil, not on its size")
	emptyKeyring(c, r, "C11.R3.empty-keyring")
	borrow(c, r, func(c *Ctx, r *Report) { c15FreshTime(c, r, "C15.R4.fresh-time") }, "C15.R4.fresh-time", "C11.R5.fresh-time", 1, "each envelope's TSIG carries the time it is sent at", nil, "envelopes sent more than fudge seconds after the transfer began fail the receiver's time check although the MAC chain is intact")
	tsigIsLast(c, r, "C11.R1.tsig-last")
	tsigStubKept(c, r, "C11.R1.stub-kept", "a message that was signed once goes out unsigned when it is sent again (the retry over TCP after a truncated answer): the peer's verification fails although nothing was altered")
	decodeCountUsed(c, r, "C11.R2.decode-count", "a TSIG secret whose base64 is padded is used with one or two zero octets appended; for secrets longer than the HMAC block the MAC is then not the RFC 2104 HMAC of the secret, and a correct MAC from another implementation is refused")
	secretFromProvider(c, r, "C11.R2.secret-from-provider", "a MAC is accepted (or made) under the secret another provider in the process holds for the same key name, not under the secret of the key named")
	stubUntouched(c, r, "C11.R4.stub-untouched")
	providerPrecedence(c, r, "C11.R2.provider-precedence")
	borrow(c, r, c15ReadMsg, "C15.R3.verify-every-message", "C11.R5.transfer-verify", 1, "Transfer.ReadMsg verifies the octets as received (the TSIG still in them) and keeps the verified MAC as the previous MAC", nil, "the MAC chain of a multi-envelope answer breaks: the second envelope of a correctly signed transfer fails with a bad signature")
	borrow(c, r, func(c *Ctx, r *Report) { c15Loop(c, r, "Transfer.inAxfr"); c15Loop(c, r, "Transfer.inIxfr") }, "C15.R3.timers-only", "C11.R5.timers-only", 2, "timers-only is only switched on (before the second envelope), never reset while a transfer runs", nil, "the query of the second transfer made with one Transfer is signed timers-only and does not verify as a first message")
	macKeptOnFailure(c, r, "C11.R5.mac-kept-on-failure")
	r.rule("C11.R4.canonical-fold", 1, "CanonicalName, which lower-cases the key and algorithm names into the digest, folds exactly A-Z")
	foldRangeRule(c, r, "C11.R4.canonical-fold", "CanonicalName", "a key name containing the letter left out goes into the digest with an upper-case octet: the MAC is not the RFC 8945 MAC, and the genuine one is refused")
	secretByCanonicalName(c, r, "C11.R2.secret-by-canonical-name")
	decodedUnderNilError(c, r, "C11.R2.secret-decode-checked", []string{"tsig.go"}, 2, "a TSIG secret that is not valid base64 is used as far as it decoded: keys that share a decodable prefix (padding lost, text behind the key) make and accept each other's MACs, and a MAC field that is not hex is compared as far as it decoded")
	round12(c, r, "C11")
}

func isUint64(v ssa.Value) bool {
	b, ok := v.Type().Underlying().(*types.Basic)
	return ok && b.Kind() == types.Uint64
}

func c11R1(c *Ctx, r *Report) {
	r.rule("C11.R1.verify-guards", 4, "tsigVerify succeeds only after strip, buffer, provider.Verify and the time window, in that order")
	fn := c.ssaFunc("tsigVerify")
	if fn == nil {
		r.cerr("C11.R1.verify-guards", "tsigVerify", "function not found")
		return
	}
	r.fn("tsigVerify")
	now := paramOf(fn, "now")
	var stripCall, bufCall, verifyCall *ssa.Call
	allInstrs(fn, func(in ssa.Instruction) {
		call, ok := in.(*ssa.Call)
		if !ok {
			return
		}
		switch n := calleeNameSSA(&call.Call); {
		case n == "stripTsig":
			stripCall = call
		case n == "tsigBuffer":
			bufCall = call
		case call.Call.IsInvoke() && call.Call.Method.Name() == "Verify":
			verifyCall = call
		}
	})
	if stripCall == nil || bufCall == nil || verifyCall == nil {
		r.fail("C11.R1.verify-guards", "tsigVerify:anchors", c.pos(fn.Pos()), "stripTsig / tsigBuffer / provider.Verify not all called")
		return
	}
	extractOf := func(call *ssa.Call, idx int) vpred {
		return func(v ssa.Value) bool {
			e, ok := v.(*ssa.Extract)
			return ok && e.Tuple == call && e.Index == idx
		}
	}
	isTsig := extractOf(stripCall, 1)
	pts, und := successPoints(c, fn, 0, nil)
	for _, u := range und {
		r.undecided("C11.R1.verify-guards", "tsigVerify:returns", c.pos(fn.Pos()), "%s", u)
	}
	isDistance := func(v ssa.Value) bool {
		if !isUint64(v) {
			return false
		}
		s := sliceOf(v)
		hasA, hasB := false, false
		for x := range s {
			if b, ok := x.(*ssa.BinOp); ok && b.Op == token.SUB {
				if b.X == now && anyIn(sliceOf(b.Y), fieldPathOf(isTsig, "TimeSigned")) {
					hasA = true
				}
				if b.Y == now && anyIn(sliceOf(b.X), fieldPathOf(isTsig, "TimeSigned")) {
					hasB = true
				}
			}
		}
		return hasA && hasB
	}
	isFudge64 := func(v ssa.Value) bool {
		return isUint64(v) && anyIn(sliceOf(v), fieldPathOf(isTsig, "Fudge")) && !anyIn(sliceOf(v), isValue(now))
	}
	guards := []Guard{
		{Name: "stripTsig err == nil", Op: "eq", A: extractOf(stripCall, 2), B: isNilConst, Holds: true},
		{Name: "tsigBuffer err == nil", Op: "eq", A: extractOf(bufCall, 1), B: isNilConst, Holds: true},
		{Name: "provider.Verify(buf, tsig) == nil", Op: "eq", A: isValue(verifyCall), B: isNilConst, Holds: true},
		{Name: "uint64(Fudge) >= |now - TimeSigned| (64-bit)", Op: "lt", A: isFudge64, B: isDistance, Holds: false},
	}
	for _, g := range guards {
		var problems []string
		for _, p := range pts {
			if miss := guardsMissing(fn, p.Block, []Guard{g}); len(miss) > 0 {
				problems = append(problems, fmt.Sprintf("success at %s is reachable without it", c.pos(p.Pos)))
			}
		}
		r.check(len(problems) == 0 && len(pts) > 0, "C11.R1.verify-guards", "tsigVerify:"+g.Name, c.pos(fn.Pos()), "dominates success", "check %s: %s", g.Name, strings.Join(problems, "; "))
	}
	// wiring and order
	var problems []string
	if !extractOf(bufCall, 0)(verifyCall.Call.Args[0]) || !isTsig(verifyCall.Call.Args[1]) {
		problems = append(problems, "provider.Verify is not given tsigBuffer's output and the stripped TSIG")
	}
	ba := bufCall.Call.Args
	if !extractOf(stripCall, 0)(ba[0]) || !isTsig(ba[1]) || ba[2] != paramOf(fn, "requestMAC") || ba[3] != paramOf(fn, "timersOnly") {
		problems = append(problems, "tsigBuffer is not given the stripped message, the TSIG, requestMAC and timersOnly")
	}
	if stripCall.Call.Args[0] != paramOf(fn, "msg") {
		problems = append(problems, "stripTsig is not applied to the message")
	}
	// the time comparison happens after the MAC was verified
	allInstrs(fn, func(in ssa.Instruction) {
		ifi, ok := in.(*ssa.If)
		if !ok {
			return
		}
		atom, _ := condAtom(ifi.Cond)
		b, ok := atom.(*ssa.BinOp)
		if !ok {
			return
		}
		if anyIn(sliceOf(b), fieldPathOf(isTsig, "Fudge")) {
			if miss := guardsMissing(fn, ifi.Block(), []Guard{guards[2]}); len(miss) > 0 {
				problems = append(problems, fmt.Sprintf("%s: the time window is tested before the MAC was verified (RFC 8945 s.5.2.3)", c.pos(ifi.Pos())))
			}
		}
	})
	r.check(len(problems) == 0, "C11.R1.verify-guards", "tsigVerify:wiring", c.pos(fn.Pos()), "strip -> buffer -> Verify -> time", "%s", strings.Join(problems, "; "))
	// public wrappers pass the current time
	for _, w := range []string{"TsigVerify", "TsigVerifyWithProvider"} {
		wf := c.ssaFunc(w)
		if wf == nil {
			continue
		}
		r.fn(w)
		calls := callsIn(wf, "tsigVerify")
		ok := len(calls) == 1 && anyIn(sliceOf(calls[0].Common().Args[4]), callsFunc("time.Now"))
		if ok {
			a := calls[0].Common().Args
			ok = a[0] == wf.Params[0] && a[2] == wf.Params[2] && a[3] == wf.Params[3]
		}
		r.check(ok, "C11.R1.verify-guards", w, c.pos(wf.Pos()), "delegates with time.Now()", "%s does not delegate to tsigVerify(msg, provider, requestMAC, timersOnly, now)", w)
	}
}

func c11R2(c *Ctx, r *Report) {
	r.rule("C11.R2.hmac-equal", 1, "the HMAC provider accepts only on hmac.Equal of the recomputed MAC and the TSIG's MAC")
	r.rule("C11.R2.alg-table", 5, "algorithm name -> hash constructor table")
	r.rule("C11.R2.secret-lookup", 2, "the secret provider indexes by the TSIG owner name and fails with ErrSecret on a miss")
	if fn := c.ssaFunc("tsigHMACProvider.Verify"); fn == nil {
		r.cerr("C11.R2.hmac-equal", "tsigHMACProvider.Verify", "function not found")
	} else {
		r.fn("tsigHMACProvider.Verify")
		var problems []string
		isGenIn := func(v ssa.Value) bool {
			call, ok := v.(*ssa.Call)
			return ok && calleeNameSSA(&call.Call) == "(tsigHMACProvider).Generate" && call.Call.Args[1] == fn.Params[1] && call.Call.Args[2] == fn.Params[2]
		}
		// the comparison may live in a helper Verify hands the recomputed MAC and the TSIG to: then the helper is
		// examined, with its parameters standing for what Verify passes
		target, genPred, tsig := fn, func(v ssa.Value) bool { return isGenIn(v) }, ssa.Value(fn.Params[2])
		verdicts := []string{}
		if len(callsIn(fn, "hmac.Equal")) == 0 {
			for _, ci := range callsIn(fn) {
				_ = ci
			}
			allInstrs(fn, func(in ssa.Instruction) {
				call, ok := in.(*ssa.Call)
				if !ok {
					return
				}
				g := call.Call.StaticCallee()
				if g == nil || g.Pkg != fn.Pkg || len(g.Blocks) == 0 || len(callsIn(g, "hmac.Equal")) == 0 {
					return
				}
				var pGen, pT ssa.Value
				for i, a := range call.Call.Args {
					if i >= len(g.Params) {
						continue
					}
					if anyIn(sliceOf(a), isGenIn) {
						pGen = g.Params[i]
					}
					if a == ssa.Value(fn.Params[2]) {
						pT = g.Params[i]
					}
				}
				if pGen == nil || pT == nil {
					problems = append(problems, fmt.Sprintf("%s: %s is not handed Generate(msg, t) and t", c.pos(call.Pos()), fnDisplay(g)))
					return
				}
				target, tsig = g, pT
				genPred = func(v ssa.Value) bool { return v == pGen }
				verdicts = append(verdicts, calleeNameSSA(&call.Call))
				r.fn(fnDisplay(g))
			})
		}
		// Verify itself: success only by nil (examined below when it holds the comparison) or by the helper's verdict
		pts, und := successPoints(c, fn, 0, verdicts)
		problems = append(problems, und...)
		if target != fn {
			for _, p := range pts {
				if p.Kind == "nil" {
					problems = append(problems, fmt.Sprintf("success at %s without the comparison helper having been asked", c.pos(p.Pos)))
				}
			}
			var und2 []string
			pts, und2 = successPoints(c, target, 0, nil)
			problems = append(problems, und2...)
		}
		eqs := callsIn(target, "hmac.Equal")
		if len(eqs) != 1 {
			problems = append(problems, fmt.Sprintf("%d hmac.Equal calls (a constant-time comparison is required)", len(eqs)))
		} else {
			eq := eqs[0].(*ssa.Call)
			for _, p := range pts {
				if miss := guardsMissing(target, p.Block, []Guard{{Name: "hmac.Equal", Op: "call", A: isValue(eq), Holds: true}}); len(miss) > 0 {
					problems = append(problems, fmt.Sprintf("success at %s without hmac.Equal having returned true", c.pos(p.Pos)))
				}
			}
			s0, s1 := sliceOf(eq.Call.Args[0]), sliceOf(eq.Call.Args[1])
			mac := fieldPathOf(isValue(tsig), "MAC")
			if !((anyIn(s0, genPred) && anyIn(s1, mac)) || (anyIn(s1, genPred) && anyIn(s0, mac))) {
				problems = append(problems, "hmac.Equal does not compare Generate(msg, t) with the decoded t.MAC")
			}
			for i, a := range eq.Call.Args {
				// through phis: `if n < len(b) { b = b[:n] }` re-slices on one edge only
				for _, leaf := range phiLeaves(a) {
					if sl, ok := leaf.(*ssa.Slice); ok && leaf != a && (sl.High != nil || sl.Low != nil) {
						problems = append(problems, fmt.Sprintf("%s: operand %d of hmac.Equal is, on some path, a sub-slice of the MAC: a truncated MAC is accepted (RFC 8945 s.5.2.2.1 allows truncation only down to max(10, half the hash), which this comparison does not enforce)", c.pos(sl.Pos()), i))
					}
				}
				if sl, ok := a.(*ssa.Slice); ok && (sl.High != nil || sl.Low != nil) {
					problems = append(problems, fmt.Sprintf("%s: operand %d of hmac.Equal is a sub-slice of the MAC: only part of the MAC is compared (a shorter - even empty - MAC would verify)", c.pos(sl.Pos()), i))
				}
			}
		}
		if len(pts) == 0 {
			problems = append(problems, "no success return")
		}
		r.check(len(problems) == 0, "C11.R2.hmac-equal", "tsigHMACProvider.Verify", c.pos(fn.Pos()), "hmac.Equal(Generate(msg,t), t.MAC)", "%s", strings.Join(problems, "; "))
	}
	// algorithm table (AST)
	want := map[string]string{"HmacSHA1": "sha1.New", "HmacSHA224": "sha256.New224", "HmacSHA256": "sha256.New", "HmacSHA384": "sha512.New384", "HmacSHA512": "sha512.New"}
	if fd := c.decl("tsigHMACProvider.Generate"); fd == nil {
		r.cerr("C11.R2.alg-table", "tsigHMACProvider.Generate", "function not found")
	} else {
		r.fn("tsigHMACProvider.Generate")
		seen := map[string]bool{}
		tagOK := false
		ast.Inspect(fd.Body, func(n ast.Node) bool {
			sw, ok := n.(*ast.SwitchStmt)
			if !ok {
				return true
			}
			if call, ok := ast.Unparen(sw.Tag).(*ast.CallExpr); ok && c.calleeName(call) == "CanonicalName" {
				if f := c.fieldOf(call.Args[0]); f != nil && f.Name() == "Algorithm" {
					tagOK = true
				}
			}
			for _, cl := range sw.Body.List {
				cc := cl.(*ast.CaseClause)
				var ctor string
				ast.Inspect(cc, func(n ast.Node) bool {
					if call, ok := n.(*ast.CallExpr); ok && c.calleeName(call) == "hmac.New" && len(call.Args) == 2 {
						ctor = types.ExprString(call.Args[0])
					}
					return true
				})
				if ctor == "" {
					// the arm only picks the constructor (newHash = sha1.New) and one hmac.New(newHash, secret) follows
					// the switch
					for _, st := range cc.Body {
						as, ok := st.(*ast.AssignStmt)
						if !ok || len(as.Lhs) != 1 || len(as.Rhs) != 1 {
							continue
						}
						id, isId := as.Lhs[0].(*ast.Ident)
						if !isId {
							continue
						}
						obj := c.Info.Uses[id]
						if obj == nil {
							obj = c.Info.Defs[id]
						}
						fed := false
						ast.Inspect(fd.Body, func(n ast.Node) bool {
							if call, ok := n.(*ast.CallExpr); ok && c.calleeName(call) == "hmac.New" && len(call.Args) == 2 && c.isIdentOf(call.Args[0], obj) {
								fed = true
							}
							return true
						})
						if fed && obj != nil {
							ctor = types.ExprString(as.Rhs[0])
						}
					}
				}
				if cc.List == nil {
					okDef := false
					ast.Inspect(cc, func(n ast.Node) bool {
						if ret, ok := n.(*ast.ReturnStmt); ok && len(ret.Results) == 2 && types.ExprString(ret.Results[1]) == "ErrKeyAlg" {
							okDef = true
						}
						return true
					})
					r.check(okDef, "C11.R2.alg-table", "Generate:default", c.pos(cc.Pos()), "ErrKeyAlg", "unknown algorithms must yield ErrKeyAlg")
					continue
				}
				for _, e := range cc.List {
					name := types.ExprString(e)
					seen[name] = true
					w, known := want[name]
					if !known {
						r.fail("C11.R2.alg-table", "Generate:"+name, c.pos(e.Pos()), "algorithm %s is not in the RFC 8945 table on file", name)
						continue
					}
					r.check(ctor == w, "C11.R2.alg-table", "Generate:"+name, c.pos(e.Pos()), w, "%s is computed with %s, RFC 8945 assigns %s", name, ctor, w)
				}
			}
			return false
		})
		if len(seen) == 0 {
			// the table as a package-level map literal (name -> constructor), looked up by the canonical name, the
			// constructor handed to hmac.New, a miss answered with ErrKeyAlg
			ast.Inspect(fd.Body, func(n ast.Node) bool {
				as, ok := n.(*ast.AssignStmt)
				if !ok || len(as.Lhs) != 2 || len(as.Rhs) != 1 {
					return true
				}
				ix, ok := ast.Unparen(as.Rhs[0]).(*ast.IndexExpr)
				if !ok {
					return true
				}
				tid, ok := ast.Unparen(ix.X).(*ast.Ident)
				if !ok {
					return true
				}
				tbl, isVar := c.Info.Uses[tid].(*types.Var)
				if !isVar || tbl.Parent() != c.Types.Scope() {
					return true
				}
				lit := c.pkgVarLiteral(tbl)
				if lit == nil || c.pkgVarWritten(tbl) {
					return true
				}
				if call, ok := ast.Unparen(ix.Index).(*ast.CallExpr); ok && c.calleeName(call) == "CanonicalName" && len(call.Args) == 1 {
					if f := c.fieldOf(call.Args[0]); f != nil && f.Name() == "Algorithm" {
						tagOK = true
					}
				}
				ctorObj := c.objOfIdent(as.Lhs[0].(*ast.Ident))
				okObj := c.objOfIdent(as.Lhs[1].(*ast.Ident))
				fed := false
				okDef := false
				ast.Inspect(fd.Body, func(n ast.Node) bool {
					if call, ok := n.(*ast.CallExpr); ok && c.calleeName(call) == "hmac.New" && len(call.Args) == 2 && c.isIdentOf(call.Args[0], ctorObj) {
						fed = true
					}
					if ifs, ok := n.(*ast.IfStmt); ok {
						if u, isNot := ast.Unparen(ifs.Cond).(*ast.UnaryExpr); isNot && u.Op == token.NOT && c.isIdentOf(u.X, okObj) {
							for _, st := range ifs.Body.List {
								if ret, isRet := st.(*ast.ReturnStmt); isRet && len(ret.Results) == 2 && types.ExprString(ret.Results[1]) == "ErrKeyAlg" {
									okDef = true
								}
							}
						}
					}
					return true
				})
				if !fed {
					return true
				}
				r.check(okDef, "C11.R2.alg-table", "Generate:default", c.pos(as.Pos()), "ErrKeyAlg", "unknown algorithms must yield ErrKeyAlg")
				for _, el := range lit.Elts {
					kv, isKV := el.(*ast.KeyValueExpr)
					if !isKV {
						continue
					}
					name := types.ExprString(kv.Key)
					seen[name] = true
					w, known := want[name]
					if !known {
						r.fail("C11.R2.alg-table", "Generate:"+name, c.pos(kv.Pos()), "algorithm %s is not in the RFC 8945 table on file", name)
						continue
					}
					ctor := types.ExprString(kv.Value)
					r.check(ctor == w, "C11.R2.alg-table", "Generate:"+name, c.pos(kv.Pos()), w, "%s is computed with %s, RFC 8945 assigns %s", name, ctor, w)
				}
				return true
			})
		}
		for n := range want {
			if !seen[n] {
				r.fail("C11.R2.alg-table", "Generate:"+n, c.pos(fd.Pos()), "algorithm %s is not supported", n)
			}
		}
		if !tagOK {
			r.fail("C11.R2.alg-table", "Generate:tag", c.pos(fd.Pos()), "the algorithm is not selected on CanonicalName(t.Algorithm)")
		}
		// algorithm name constants are canonical (lower case, fully qualified)
		for n := range want {
			if o, ok := c.lookup(n).(*types.Const); ok {
				s := strings.Trim(o.Val().ExactString(), "\"")
				if s != strings.ToLower(s) || !strings.HasSuffix(s, ".") {
					r.fail("C11.R2.alg-table", "const:"+n, c.pos(o.Pos()), "%s = %q is not in canonical form, so CanonicalName(t.Algorithm) can never match it", n, s)
				}
			}
		}
	}
	for _, name := range []string{"tsigSecretProvider.Generate", "tsigSecretProvider.Verify"} {
		fn := c.ssaFunc(name)
		if fn == nil {
			r.cerr("C11.R2.secret-lookup", name, "function not found")
			continue
		}
		r.fn(name)
		var problems []string
		var lk ssa.Value
		allInstrs(fn, func(in ssa.Instruction) {
			if l, ok := in.(*ssa.Lookup); ok && l.X == ssa.Value(fn.Params[0]) && anyIn(sliceOf(l.Index), fieldPathOf(isValue(fn.Params[2]), "Hdr.Name")) {
				lk = l
			}
			// or through a helper of the provider that does nothing but look its argument up in the receiver
			if call, ok := in.(*ssa.Call); ok && len(call.Call.Args) == 2 && call.Call.Args[0] == ssa.Value(fn.Params[0]) &&
				anyIn(sliceOf(call.Call.Args[1]), fieldPathOf(isValue(fn.Params[2]), "Hdr.Name")) && isSecretLookupHelper(call.Call.StaticCallee()) {
				lk = call
				r.fn(fnDisplay(call.Call.StaticCallee()))
			}
		})
		if lk == nil {
			problems = append(problems, "the secret is not looked up under t.Hdr.Name")
		} else {
			okV := func(v ssa.Value) bool {
				e, ok := v.(*ssa.Extract)
				return ok && e.Tuple == lk && e.Index == 1
			}
			keyV := func(v ssa.Value) bool {
				e, ok := v.(*ssa.Extract)
				return ok && e.Tuple == lk && e.Index == 0
			}
			errIdx := fn.Signature.Results().Len() - 1
			for _, rp := range returnPoints(fn, errIdx) {
				v := rp.Results[errIdx]
				facts := factsAt(fn, rp.Block)
				found := false
				for _, f := range facts {
					if matchGuard(f, Guard{Op: "val", A: okV, Holds: true}) {
						found = true
					}
				}
				if found {
					// delegated to the HMAC provider built from the looked-up key
					call, ok := v.(*ssa.Call)
					if !ok {
						if e, isE := v.(*ssa.Extract); isE {
							call, ok = e.Tuple.(*ssa.Call)
						}
					}
					if !ok || !strings.HasPrefix(calleeNameSSA(&call.Call), "(tsigHMACProvider).") || !anyIn(sliceOf(call.Call.Args[0]), keyV) {
						problems = append(problems, fmt.Sprintf("%s: the verdict is not the HMAC provider's under the looked-up secret", c.pos(rp.Pos)))
					}
				} else {
					u, ok := v.(*ssa.UnOp)
					if g, isG := func() (*ssa.Global, bool) {
						if !ok {
							return nil, false
						}
						g, isG := u.X.(*ssa.Global)
						return g, isG
					}(); !isG || g.Name() != "ErrSecret" {
						problems = append(problems, fmt.Sprintf("%s: an unknown key name does not yield ErrSecret", c.pos(rp.Pos)))
					}
				}
			}
		}
		r.check(len(problems) == 0, "C11.R2.secret-lookup", name, c.pos(fn.Pos()), "ts[t.Hdr.Name] else ErrSecret", "%s", strings.Join(problems, "; "))
	}
}

func c11R3(c *Ctx, r *Report) {
	r.rule("C11.R3.wire-structs", 3, "tsigWireFmt / macWireFmt / timerWireFmt layouts and packers")
	r.rule("C11.R3.fill", 3, "tsigBuffer fills every field of the three side structs from the TSIG / request MAC")
	c.checkSideStruct(r, "C11.R3.wire-structs", "tsigWireFmt", "", "packTsigWire")
	c.checkSideStruct(r, "C11.R3.wire-structs", "macWireFmt", "", "packMacWire")
	c.checkSideStruct(r, "C11.R3.wire-structs", "timerWireFmt", "", "packTimerWire")
	classAny, _ := c.constInt("ClassANY")
	c.checkSideFillX(r, "C11.R3.fill", "tsigBuffer", "tsigWireFmt", map[string][]string{
		"Name": {"CanonicalName"}, "Algorithm": {"CanonicalName"}, "Class": {fmt.Sprintf("const %d", classAny)},
	}, "tsigBuffer:tsigWireFmt")
	c.checkSideFillX(r, "C11.R3.fill", "tsigBuffer", "timerWireFmt", nil, "tsigBuffer:timerWireFmt")
	// macWireFmt: MAC = requestMAC, MACSize = uint16(len(requestMAC)/2)
	fn := c.ssaFunc("tsigBuffer")
	if fn == nil {
		r.cerr("C11.R3.fill", "tsigBuffer", "function not found")
		return
	}
	reqMAC := paramOf(fn, "requestMAC")
	var problems []string
	okMAC, okSize := false, false
	allInstrs(fn, func(in ssa.Instruction) {
		st, ok := in.(*ssa.Store)
		if !ok {
			return
		}
		if readsField("macWireFmt", "MAC")(st.Addr) && st.Val == reqMAC {
			okMAC = true
		}
		if readsField("macWireFmt", "MACSize")(st.Addr) {
			v := st.Val
			if cv, ok := v.(*ssa.Convert); ok {
				v = cv.X
			}
			if b, ok := v.(*ssa.BinOp); ok && b.Op == token.QUO {
				if k, isK := constIntOf(b.Y); isK && k == 2 {
					if call, ok := b.X.(*ssa.Call); ok && calleeNameSSA(&call.Call) == "builtin.len" && call.Call.Args[0] == reqMAC {
						okSize = true
					}
				}
			}
		}
	})
	if !okMAC {
		problems = append(problems, "macWireFmt.MAC is not the request MAC")
	}
	if !okSize {
		problems = append(problems, "macWireFmt.MACSize is not len(requestMAC)/2 (hex digits -> octets)")
	}
	r.check(len(problems) == 0, "C11.R3.fill", "tsigBuffer:macWireFmt", c.pos(fn.Pos()), "MAC, MACSize", "%s", strings.Join(problems, "; "))
}

// checkSideFillX is checkSideFill with an explicit construct name.
func (c *Ctx) checkSideFillX(r *Report, rule, fnName, side string, xform map[string][]string, construct string) {
	sub := newReport("tmp", r.Tier)
	c.checkSideFill(sub, rule, fnName, side, "", xform)
	for _, o := range sub.obls {
		r.add(rule, construct, o.Status, o.Pos, o.Detail)
	}
	r.fn(fnName)
}

func c11R4(c *Ctx, r *Report) {
	r.rule("C11.R4.digest-input", 4, "tsigBuffer: original ID restored; variables chosen by timersOnly; request MAC prepended exactly when given")
	fn := c.ssaFunc("tsigBuffer")
	if fn == nil {
		r.cerr("C11.R4.digest-input", "tsigBuffer", "function not found")
		return
	}
	r.fn("tsigBuffer")
	msgbuf, rr, reqMAC, timers := paramOf(fn, "msgbuf"), paramOf(fn, "rr"), paramOf(fn, "requestMAC"), paramOf(fn, "timersOnly")
	// original ID
	var problems []string
	var idPut ssa.Instruction
	for _, a := range byteAccesses(fn) {
		if a.Write && a.Buf == msgbuf && a.Base == nil && a.K == 0 && a.N == 2 && anyIn(sliceOf(a.Val), fieldPathOf(isValue(rr), "OrigId")) {
			idPut = a.Instr
		}
	}
	if idPut == nil {
		problems = append(problems, "the TSIG's original ID is not written into octets 0..1 of the message")
	} else {
		for _, rp := range returnPoints(fn, 1) {
			if isNilConst(rp.Results[1]) && !(idPut.Block() == rp.Block || idPut.Block().Dominates(rp.Block)) {
				problems = append(problems, fmt.Sprintf("%s: success return without restoring the original ID", c.pos(rp.Pos)))
			}
		}
	}
	for _, st := range storesToField(fn, "TSIG", "OrigId") {
		problems = append(problems, fmt.Sprintf("%s: tsigBuffer rewrites the TSIG's original ID before using it: the digest no longer covers the ID the signer recorded (an original ID of 0 relayed under another ID fails, a MAC over the transmitted ID is accepted)", c.pos(st.Pos())))
	}
	// tsigBuffer serves the verifier too: it builds the digest input from the TSIG it is given and stores nothing into it
	// (a default filled in here would be digested in place of the value that was received)
	{
		var ps []string
		allInstrs(fn, func(in ssa.Instruction) {
			st, ok := in.(*ssa.Store)
			if !ok {
				return
			}
			fa, ok := st.Addr.(*ssa.FieldAddr)
			if !ok || fa.X != rr {
				return
			}
			if name := fieldNameOf(fa); name != "OrigId" {
				ps = append(ps, fmt.Sprintf("%s: tsigBuffer stores into rr.%s: on the verifying side the digest then covers the stored value, not the %s that was received (an altered field that the store happens to restore goes unnoticed)", c.pos(st.Pos()), name, name))
			}
		})
		r.check(len(ps) == 0, "C11.R4.digest-input", "tsigBuffer:no-defaults", c.pos(fn.Pos()), "the TSIG is digested as given", "%s", strings.Join(ps, "; "))
	}
	r.check(len(problems) == 0, "C11.R4.digest-input", "tsigBuffer:orig-id", c.pos(fn.Pos()), "msgbuf[0:2] = rr.OrigId", "%s", strings.Join(problems, "; "))
	// variables selection
	problems = nil
	for _, sel := range []struct {
		callee string
		holds  bool
	}{{"packTimerWire", true}, {"packTsigWire", false}} {
		calls := callsIn(fn, sel.callee)
		if len(calls) != 1 {
			problems = append(problems, fmt.Sprintf("%d calls of %s", len(calls), sel.callee))
			continue
		}
		facts := factsAt(fn, calls[0].Block())
		ok := false
		for _, f := range facts {
			if matchGuard(f, Guard{Op: "val", A: isValue(timers), Holds: sel.holds}) {
				ok = true
			}
			// no dependence on the request MAC
			if anyIn(sliceOf(f.Atom), isValue(reqMAC)) {
				problems = append(problems, fmt.Sprintf("%s is made conditional on the request MAC", sel.callee))
			}
		}
		if !ok {
			problems = append(problems, fmt.Sprintf("%s is not selected by timersOnly == %v", sel.callee, sel.holds))
		}
	}
	r.check(len(problems) == 0, "C11.R4.digest-input", "tsigBuffer:variables", c.pos(fn.Pos()), "timers iff timersOnly", "%s", strings.Join(problems, "; "))
	// final composition
	problems = nil
	nMac, nPlain := 0, 0
	for _, rp := range returnPoints(fn, 0) {
		if !isNilConst(rp.Results[1]) {
			continue
		}
		v := rp.Results[0]
		parts := appendParts(fn, v)
		facts := factsAt(fn, rp.Block)
		macGiven, macEmpty, dependsTimers := false, false, false
		for _, f := range facts {
			if matchGuard(f, Guard{Op: "eq", A: isValue(reqMAC), B: func(x ssa.Value) bool {
				cst, ok := x.(*ssa.Const)
				return ok && cst.Value != nil && cst.Value.ExactString() == `""`
			}, Holds: false}) {
				macGiven = true
			}
			if matchGuard(f, Guard{Op: "eq", A: isValue(reqMAC), B: func(x ssa.Value) bool {
				cst, ok := x.(*ssa.Const)
				return ok && cst.Value != nil && cst.Value.ExactString() == `""`
			}, Holds: true}) {
				macEmpty = true
			}
			// facts established after the variables were built that mention timersOnly restrict the MAC wrongly
			if anyIn(sliceOf(f.Atom), isValue(timers)) {
				dependsTimers = true
			}
		}
		got := strings.Join(parts, " ")
		switch {
		case macGiven && !dependsTimers:
			nMac++
			if got != "macwire param:msgbuf timerwire|tsigwire" {
				problems = append(problems, fmt.Sprintf("%s: with a request MAC the digest input is [%s], RFC 8945 s.4.3 wants request MAC | message | variables", c.pos(rp.Pos), got))
			}
		case macEmpty && !dependsTimers:
			nPlain++
			if got != "param:msgbuf timerwire|tsigwire" {
				problems = append(problems, fmt.Sprintf("%s: without a request MAC the digest input is [%s], want message | variables", c.pos(rp.Pos), got))
			}
		default:
			problems = append(problems, fmt.Sprintf("%s: digest input [%s] is chosen on a condition other than `requestMAC != \"\"` alone (a given request MAC must always be covered, also in timers-only mode)", c.pos(rp.Pos), got))
		}
	}
	if nMac != 1 || nPlain != 1 {
		problems = append(problems, fmt.Sprintf("%d with-MAC and %d without-MAC compositions found", nMac, nPlain))
	}
	r.check(len(problems) == 0, "C11.R4.digest-input", "tsigBuffer:composition", c.pos(fn.Pos()), "MAC|msg|vars or msg|vars", "%s", strings.Join(uniqStrings(problems), "; "))
	// macwire built only when a MAC is given
	problems = nil
	for _, ci := range callsIn(fn, "packMacWire") {
		if miss := guardsMissing(fn, ci.Block(), []Guard{{Name: `requestMAC != ""`, Op: "eq", A: isValue(reqMAC), B: func(x ssa.Value) bool {
			cst, ok := x.(*ssa.Const)
			return ok && cst.Value != nil && cst.Value.ExactString() == `""`
		}, Holds: false}}); len(miss) > 0 {
			problems = append(problems, "packMacWire not guarded by "+miss[0])
		}
	}
	r.check(len(problems) == 0, "C11.R4.digest-input", "tsigBuffer:mac-guard", c.pos(fn.Pos()), "guarded", "%s", strings.Join(problems, "; "))
}

// appendParts flattens nested append(a, b...) into the classes of the concatenated buffers.
func appendParts(fn *ssa.Function, v ssa.Value) []string {
	if call, ok := v.(*ssa.Call); ok && calleeNameSSA(&call.Call) == "builtin.append" {
		return append(appendParts(fn, call.Call.Args[0]), appendParts(fn, call.Call.Args[1])...)
	}
	if p, ok := v.(*ssa.Parameter); ok {
		return []string{"param:" + p.Name()}
	}
	if phi, ok := v.(*ssa.Phi); ok {
		set := map[string]bool{}
		for _, e := range phi.Edges {
			for _, p := range appendParts(fn, e) {
				if p != "" {
					set[p] = true
				}
			}
		}
		return []string{strings.Join(keysOf(set), "|")}
	}
	cl := bufferClassSet(fn, v)
	return []string{strings.Join(keysOf(cl), "|")}
}

// bufferClassSet: all packers the backing buffer of v is handed to.
func bufferClassSet(fn *ssa.Function, v ssa.Value) map[string]bool {
	root := v
	for {
		if sl, ok := root.(*ssa.Slice); ok {
			root = sl.X
			continue
		}
		break
	}
	out := map[string]bool{}
	if phi, ok := root.(*ssa.Phi); ok {
		for _, e := range phi.Edges {
			for k := range bufferClassSet(fn, e) {
				out[k] = true
			}
		}
		return out
	}
	if p, ok := root.(*ssa.Parameter); ok {
		out["param:"+p.Name()] = true
		return out
	}
	if isNilConst(root) {
		return out // the empty buffer contributes nothing
	}
	allInstrs(fn, func(in ssa.Instruction) {
		call, ok := in.(*ssa.Call)
		if !ok {
			return
		}
		n := calleeNameSSA(&call.Call)
		for i, a := range call.Call.Args {
			ar := a
			for {
				if sl, ok := ar.(*ssa.Slice); ok {
					ar = sl.X
					continue
				}
				break
			}
			if ar == root && i == 1 {
				switch n {
				case "packTsigWire":
					out["tsigwire"] = true
				case "packMacWire":
					out["macwire"] = true
				case "packTimerWire":
					out["timerwire"] = true
				case "packSigWire":
					out["sigwire"] = true
				}
			}
		}
	})
	if len(out) == 0 {
		out["?"] = true
	}
	return out
}

func c11R5(c *Ctx, r *Report) {
	r.rule("C11.R5.generate", 4, "TsigGenerateWithProvider: TSIG removed before packing, signing skipped only for BADKEY/BADSIG, TSIG appended last, ARCOUNT = len(Extra)+1")
	fn := c.ssaFunc("TsigGenerateWithProvider")
	if fn == nil {
		r.cerr("C11.R5.generate", "TsigGenerateWithProvider", "function not found")
		return
	}
	r.fn("TsigGenerateWithProvider")
	m := paramOf(fn, "m")
	packs := callsIn(fn, "(Msg).Pack")
	var problems []string
	if len(packs) != 1 {
		problems = append(problems, "m.Pack() not called exactly once")
	} else {
		ok := false
		for _, st := range storesToField(fn, "Msg", "Extra") {
			sl, isSl := st.Val.(*ssa.Slice)
			if !isSl || sl.High == nil {
				continue
			}
			if b, isB := sl.High.(*ssa.BinOp); isB && b.Op == token.SUB {
				if k, isK := constIntOf(b.Y); isK && k == 1 && precedes(st, packs[0].(ssa.Instruction)) {
					ok = true
				}
			}
		}
		if !ok {
			problems = append(problems, "the TSIG is not cut off m.Extra before the message is packed (it would be covered by its own MAC)")
		}
	}
	r.check(len(problems) == 0, "C11.R5.generate", "generate:strip-before-pack", c.pos(fn.Pos()), "Extra[:len-1] then Pack", "%s", strings.Join(problems, "; "))
	// the server signs the reply to a new request in full form, chained to that request
	if _, chain, pos, ok := serverTsigState(c); !ok {
		r.cerr("C11.R5.generate", "Server.serveDNS:chain-reset", "function not found")
	} else {
		r.check(len(chain) == 0, "C11.R5.generate", "Server.serveDNS:chain-reset", pos, "timers-only off, request MAC set", "%s", strings.Join(chain, "; "))
	}
	// signing edge
	problems = nil
	badKey, _ := c.constInt("RcodeBadKey")
	badSig, _ := c.constInt("RcodeBadSig")
	var gen *ssa.Call
	allInstrs(fn, func(in ssa.Instruction) {
		if call, ok := in.(*ssa.Call); ok && call.Call.IsInvoke() && call.Call.Method.Name() == "Generate" {
			gen = call
		}
	})
	if gen == nil {
		problems = append(problems, "provider.Generate is not called")
	} else {
		isErrField := func(v ssa.Value) bool { return readsField("TSIG", "Error")(v) }
		for _, k := range []int64{badKey, badSig} {
			if miss := guardsMissing(fn, gen.Block(), []Guard{{Name: fmt.Sprintf("rr.Error != %d", k), Op: "eq", A: isErrField, B: isConstInt(k), Holds: false}}); len(miss) > 0 {
				problems = append(problems, "a MAC is generated although "+miss[0]+" does not hold (RFC 8945 s.5.3.2)")
			}
		}
		// the only conditions on the signing edge are these two
		for _, f := range factsAt(fn, gen.Block()) {
			if anyIn(sliceOf(f.Atom), isErrField) {
				continue
			}
			if anyIn(sliceOf(f.Atom), func(v ssa.Value) bool { _, isE := v.(*ssa.Extract); return isE }) {
				continue // err == nil checks of Pack / tsigBuffer
			}
			if call, ok := f.Atom.(*ssa.BinOp); ok && anyIn(sliceOf(call), callsFunc("(Msg).IsTsig")) {
				continue
			}
			problems = append(problems, fmt.Sprintf("signing is additionally conditional on %v", f.Atom))
		}
		if !anyIn(sliceOf(gen.Call.Args[0]), callsExtract("tsigBuffer")) {
			problems = append(problems, "provider.Generate is not given tsigBuffer's output")
		}
	}
	r.check(len(problems) == 0, "C11.R5.generate", "generate:sign-edge", c.pos(fn.Pos()), "unless BADKEY/BADSIG", "%s", strings.Join(problems, "; "))
	// result framing
	problems = nil
	for _, rp := range returnPoints(fn, 2) {
		if !isNilConst(rp.Results[2]) {
			continue
		}
		call, ok := rp.Results[0].(*ssa.Call)
		if !ok || calleeNameSSA(&call.Call) != "builtin.append" {
			problems = append(problems, fmt.Sprintf("%s: result is not append(packed message, TSIG record)", c.pos(rp.Pos)))
			continue
		}
		if !callsExtract("(Msg).Pack")(call.Call.Args[0]) {
			problems = append(problems, "the TSIG is not appended to the packed message")
		}
		if !anyIn(sliceOf(call.Call.Args[1]), func(v ssa.Value) bool {
			cl, ok := v.(*ssa.Call)
			return ok && calleeNameSSA(&cl.Call) == "PackRR"
		}) {
			// tbuf[:off] with off from PackRR: check the slice's high bound
			if sl, ok := call.Call.Args[1].(*ssa.Slice); !ok || sl.High == nil || !anyIn(sliceOf(sl.High), callsExtract("PackRR")) {
				problems = append(problems, "what is appended is not the packed TSIG record tbuf[:off]")
			}
		}
		// ARCOUNT patch on the appended buffer at 10 with len(m.Extra)+1
		okPatch := false
		for _, a := range byteAccesses(fn) {
			if a.Write && a.N == 2 && a.Base == nil && a.K == 10 && a.Buf == call {
				base, k := offsetOf(func() ssa.Value {
					v := a.Val
					if cv, ok := v.(*ssa.Convert); ok {
						v = cv.X
					}
					return v
				}())
				if base != nil {
					if lc, ok := base.(*ssa.Call); ok && calleeNameSSA(&lc.Call) == "builtin.len" && anyIn(sliceOf(lc.Call.Args[0]), fieldPathOf(isValue(m), "Extra")) {
						// the count is that of the records packed plus the TSIG: len(m.Extra) as it was when the
						// message was packed, plus one. Stores into m.Extra between the Pack and this read (the
						// stub TSIG being put back) are accounted for.
						want := int64(1)
						var packCall ssa.Instruction
						for _, pc := range callsIn(fn, "(Msg).Pack") {
							packCall = pc.(ssa.Instruction)
						}
						decided := packCall != nil
						if ld, isLd := lc.Call.Args[0].(*ssa.UnOp); isLd && packCall != nil {
							allInstrs(fn, func(in ssa.Instruction) {
								st, ok := in.(*ssa.Store)
								if !ok || !fieldPathOf(isValue(m), "Extra")(st.Addr) || !precedes(packCall, st) || !precedes(st, ld) {
									return
								}
								ap, isAp := st.Val.(*ssa.Call)
								if isAp && calleeNameSSA(&ap.Call) == "builtin.append" && len(ap.Call.Args) == 2 {
									if sl, isSl := ap.Call.Args[1].(*ssa.Slice); isSl {
										if al, isAl := sl.X.(*ssa.Alloc); isAl {
											if at, isArr := al.Type().(*types.Pointer).Elem().Underlying().(*types.Array); isArr && at.Len() == 1 {
												want-- // one record put back
												return
											}
										}
									}
								}
								// ... or by re-slicing one element further
								if sl, isSl := st.Val.(*ssa.Slice); isSl && sl.Low == nil {
									if hb, isB := sl.High.(*ssa.BinOp); isB && hb.Op == token.ADD {
										if k1, isK := constIntOf(hb.Y); isK && k1 == 1 && anyIn(sliceOf(hb.X), fieldPathOf(isValue(m), "Extra")) {
											want--
											return
										}
									}
								}
								decided = false
							})
						}
						if decided && k == want {
							if a.Instr.Block() == rp.Block || a.Instr.Block().Dominates(rp.Block) {
								okPatch = true
							}
						}
					}
				}
			}
		}
		if !okPatch {
			problems = append(problems, fmt.Sprintf("%s: ARCOUNT (octets 10..11 of the result) is not set to the number of additional records packed plus one (the TSIG)", c.pos(rp.Pos)))
		}
	}
	r.check(len(problems) == 0, "C11.R5.generate", "generate:framing", c.pos(fn.Pos()), "append(mbuf, tsig...), ARCOUNT+1", "%s", strings.Join(problems, "; "))
	// the TSIG that is packed is the fresh copy with MAC filled from the provider's result
	problems = nil
	prr := callsIn(fn, "PackRR")
	if len(prr) != 1 {
		problems = append(problems, "PackRR not called once")
	} else if _, isAlloc := prr[0].Common().Args[0].(*ssa.MakeInterface); !isAlloc {
		problems = append(problems, "the packed TSIG is not the locally built record")
	}
	if gen != nil {
		okMac := false
		for _, st := range storesToField(fn, "TSIG", "MAC") {
			if anyIn(sliceOf(st.Val), func(v ssa.Value) bool {
				e, ok := v.(*ssa.Extract)
				return ok && e.Tuple == gen && e.Index == 0
			}) {
				okMac = true
			}
		}
		if !okMac {
			problems = append(problems, "the TSIG's MAC is not the provider's output")
		}
	}
	r.check(len(problems) == 0, "C11.R5.generate", "generate:mac", c.pos(fn.Pos()), "MAC = hex(provider.Generate(...))", "%s", strings.Join(problems, "; "))
}

func c11R6(c *Ctx, r *Report) {
	r.rule("C11.R6.strip", 3, "stripTsig: ErrNoSig for ARCOUNT 0; result cut at the TSIG's start offset; wire ARCOUNT decremented by one on the found edge")
	fn := c.ssaFunc("stripTsig")
	if fn == nil {
		r.cerr("C11.R6.strip", "stripTsig", "function not found")
		return
	}
	r.fn("stripTsig")
	msg := fn.Params[0]
	var problems []string
	// ErrNoSig on Arcount == 0
	ok := false
	isArcount := func(v ssa.Value) bool {
		if f, isF := v.(*ssa.Field); isF {
			return f.X.Type().Underlying().(*types.Struct).Field(f.Field).Name() == "Arcount"
		}
		return readsField("Header", "Arcount")(v)
	}
	for _, rp := range returnPoints(fn, 2) {
		u, isU := rp.Results[2].(*ssa.UnOp)
		if !isU {
			continue
		}
		if g, isG := u.X.(*ssa.Global); isG && g.Name() == "ErrNoSig" {
			if len(guardsMissing(fn, rp.Block, []Guard{{Op: "eq", A: isArcount, B: isConstInt(0), Holds: true}})) == 0 {
				ok = true
			}
		}
	}
	if !ok {
		problems = append(problems, "no ErrNoSig return on the ARCOUNT == 0 edge")
	}
	// all success returns are unreachable when Arcount == 0
	for _, rp := range returnPoints(fn, 2) {
		if isNilConst(rp.Results[2]) {
			if len(guardsMissing(fn, rp.Block, []Guard{{Op: "eq", A: isArcount, B: isConstInt(0), Holds: false}})) > 0 {
				problems = append(problems, fmt.Sprintf("%s: success possible with ARCOUNT 0", c.pos(rp.Pos)))
			}
		}
	}
	r.check(len(problems) == 0, "C11.R6.strip", "stripTsig:nosig", c.pos(fn.Pos()), "ErrNoSig", "%s", strings.Join(problems, "; "))
	// cut
	problems = nil
	unpacks := callsIn(fn, "UnpackRR")
	for _, rp := range returnPoints(fn, 2) {
		if !isNilConst(rp.Results[2]) {
			continue
		}
		sl, isSl := rp.Results[0].(*ssa.Slice)
		if !isSl || sl.X != msg || sl.Low != nil || sl.High == nil {
			problems = append(problems, fmt.Sprintf("%s: the stripped message is not msg[:tsigoff]", c.pos(rp.Pos)))
			continue
		}
		// tsigoff: a value that equals the offset argument of the UnpackRR that decodes the additional record
		if len(unpacks) != 1 {
			problems = append(problems, "UnpackRR is not called exactly once for the additional section")
			continue
		}
		offArg := unpacks[0].Common().Args[1]
		if !sliceOf(sl.High)[offArg] && sl.High != offArg {
			problems = append(problems, fmt.Sprintf("%s: the cut offset is not the offset at which the TSIG record was decoded", c.pos(rp.Pos)))
		}
	}
	r.check(len(problems) == 0, "C11.R6.strip", "stripTsig:cut", c.pos(fn.Pos()), "msg[:tsigoff]", "%s", strings.Join(problems, "; "))
	// ARCOUNT decrement
	problems = nil
	typeTSIG, _ := c.constInt("TypeTSIG")
	n := 0
	for _, a := range byteAccesses(fn) {
		if !a.Write || a.Buf != msg || a.K != 10 || a.Base != nil || a.N != 2 {
			continue
		}
		n++
		v := a.Val
		b, isB := v.(*ssa.BinOp)
		good := false
		if isB && b.Op == token.SUB {
			if k, isK := constIntOf(b.Y); isK && k == 1 {
				// minuend is the 16-bit big-endian read of octets 10..11 of msg
				for _, rd := range byteAccesses(fn) {
					if !rd.Write && rd.Buf == msg && rd.K == 10 && rd.Base == nil && rd.N == 2 && rd.Val == b.X {
						good = true
					}
				}
			}
		}
		if !good {
			problems = append(problems, fmt.Sprintf("%s: ARCOUNT is rewritten to %v, not to (wire ARCOUNT) - 1", c.pos(a.Pos), v))
		}
		if miss := guardsMissing(fn, a.Instr.Block(), []Guard{{Name: "Rrtype == TypeTSIG", Op: "eq", A: readsField("RR_Header", "Rrtype"), B: isConstInt(typeTSIG), Holds: true}}); len(miss) > 0 {
			problems = append(problems, fmt.Sprintf("%s: ARCOUNT adjusted outside the TSIG-found edge", c.pos(a.Pos)))
		}
	}
	if n != 1 {
		problems = append(problems, fmt.Sprintf("%d ARCOUNT rewrites", n))
	}
	r.check(len(problems) == 0, "C11.R6.strip", "stripTsig:arcount", c.pos(fn.Pos()), "wire ARCOUNT - 1 on the found edge", "%s", strings.Join(problems, "; "))
}

// isSecretLookupHelper: f(recv map, name) (secret, ok) returns nothing but the outcome of looking name (as given or
// case-folded) up in recv: every lookup is in the receiver under a key derived from the name, the secret
// returned is a looked-up value and ok is a lookup's second result (or true where one is known to have hit).
func isSecretLookupHelper(f *ssa.Function) bool {
	if f == nil || len(f.Blocks) == 0 || len(f.Params) != 2 || f.Signature.Results().Len() != 2 {
		return false
	}
	lookups := map[ssa.Value]bool{}
	ok := true
	allInstrs(f, func(in ssa.Instruction) {
		l, isL := in.(*ssa.Lookup)
		if !isL {
			return
		}
		if l.X != ssa.Value(f.Params[0]) || !sliceOf(l.Index)[f.Params[1]] {
			ok = false
		}
		lookups[l] = true
	})
	if !ok || len(lookups) == 0 {
		return false
	}
	for _, b := range f.Blocks {
		ret, isR := b.Instrs[len(b.Instrs)-1].(*ssa.Return)
		if !isR {
			continue
		}
		for _, l := range phiLeaves(ret.Results[0]) {
			e, isE := l.(*ssa.Extract)
			if !isE || !lookups[e.Tuple] || e.Index != 0 {
				return false
			}
		}
		for _, l := range phiLeaves(ret.Results[1]) {
			if e, isE := l.(*ssa.Extract); isE && lookups[e.Tuple] && e.Index == 1 {
				continue
			}
			k, isK := l.(*ssa.Const)
			if !isK || k.Value == nil || k.Value.ExactString() != "true" {
				return false
			}
			hit := false
			for _, fct := range factsAt(f, b) {
				if e, isE := fct.Atom.(*ssa.Extract); isE && lookups[e.Tuple] && e.Index == 1 && fct.Holds {
					hit = true
				}
			}
			if !hit {
				return false
			}
		}
	}
	return true
}
