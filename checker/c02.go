package main

import (
	"fmt"
	"go/token"
	"go/types"
	"sort"
	"strings"

	"golang.org/x/tools/go/ssa"
)

func init() { register("C02", true, false, checkC02) }

const c02Explanation = `Decided statically for every function reachable (resolved call graph) from the message, record, header, domain-name, EDNS0-option and SVCB decoders: (R1) following compression pointers terminates: every back edge of UnpackDomainName's loop either increments the hop counter under the limit test (maxCompressionPointers <= 126) or strictly decreases the 255-octet budget under its positivity test, the other quantity unchanged - a lexicographic ranking; (R2) no allocation is sized by an integer read from the message: every make / Grow in scope is sized by constants, lengths of existing data, or 8-bit quantities; (R3) lying counts: loops bounded by a count taken from the message leave as soon as the offset stops advancing (the comparison is between the offset at the start of this very iteration and the offset after the decode), or on error; loops bounded by the remaining input redefine the offset on every way round; (R4) explicit panics reachable from the decoders are listed; the only one (RR_Header.unpack) is unreachable because no constructor of the type registry returns an *RR_Header and UnpackRRWithHeader invokes unpack only on constructor results or a fresh RFC3597; (R5) bounds: for every index, slice and fixed-width access on a byte buffer in scope, 'upper end <= len(buffer)' is entailed by the dominating comparisons, read as linear inequalities and combined with success postconditions of the decoding helpers (returned offset <= len(buffer)), preconditions established by every caller of unexported helpers, and stride/modulus facts. NOT decided: lower bounds (negative offsets handed in by the caller), nil dereferences, integer conversions, the 'fixed multiple of the input length' bound as a number, and that whatever is accepted can be printed/packed without panicking: these need relational value reasoning beyond the guards.`

func checkC02(c *Ctx, r *Report) {
	r.Explanation = c02Explanation
	r.Trusted = []string{"go/ssa translation", "resolved call graph (static callees, module implementations of interfaces, address-taken functions by signature)", "len/copy/append semantics; cloneSlice preserves length"}
	r.Assumptions = []string{"offsets handed to the exported decoders by the caller are non-negative (UnpackRRWithHeader checks it itself)", "user-supplied PrivateRdata.Unpack is outside the module"}
	e := newAliasEngine(c)
	entries := decodeEntryPoints(c)
	scope := e.reachable(entries)
	var fns []*ssa.Function
	for f := range scope {
		fns = append(fns, f)
	}
	sort.Slice(fns, func(i, j int) bool { return fnDisplay(fns[i]) < fnDisplay(fns[j]) })
	r.extra["functions_in_scope"] = len(fns)
	r.extra["entry_points"] = len(entries)
	for _, f := range fns {
		r.fn(fnDisplay(f))
	}
	c02R1(c, r)
	c02R2(c, r, fns)
	c02R3(c, r, fns)
	c02R4(c, r, e, fns)
	c02R5(c, r, e, scope, fns)
	borrow(c, r, c01Sections, "C01.R2.sections-reset", "C02.R2.sections-reset", 1, "every success return of Msg.unpack has assigned all four sections: nothing in the returned message is left over from an earlier input", nil, "the returned message then holds records that do not lie inside the input")
	c02NilResults(c, r, "C02.R4.nil-results", fns)
	c02PrintFormatted(c, r, "C02.R5.print-formatted")
	c02PrintBounds(c, r, "C02.R5.print-bounds")
	headerWritten(c, r, "C02.R5.header-written", "PackRR of a record without RDATA (accepted from the wire with RDLENGTH 0) at the end of a buffer reports success, overwrites the last two octets of the previous record, and panics with a slice bound of -2 on a buffer shorter than two octets")
	r.rule("C02.R5.repack-bounds", 80, "every index / slice on the buffer and on text in the packers (Msg.PackBuffer, PackRR and what they reach) is entailed in bounds; the name packer's compaction arithmetic and the constructs listed in the notes are not decided")
	boundsRuleFor(c, r, "C02.R5.repack-bounds", []string{"Msg.PackBuffer", "PackRR"}, true, repackSkip, "re-packing a record the decoder accepted, into a caller's buffer of any size, can panic instead of returning an error", nil, repackExempt)
	pointerRoom(c, r, "C02.R5.pointer-room", "re-packing decoded records with PackRR into a buffer that ends right behind a pointer position panics (index out of range) instead of returning ErrBuf")
	noPrefixCopy(c, r, "C02.R2.no-prefix-copy", fns)
	base32Agreement(c, r, "C02.R5.base32-encoding", "the decode buffer is sized for another text length than is decoded into it: re-packing an NSEC3 the decoder accepted panics inside encoding/base32")
	noQuadraticScan(c, r, "C02.R3.no-quadratic-scan", fns)
	round12(c, r, "C02")
}

func c02R1(c *Ctx, r *Report) {
	r.rule("C02.R1.pointer-loop", 2, "each back edge of UnpackDomainName's loop decreases the ranking (hops bounded, budget strictly decreasing)")
	fn := c.ssaFunc("UnpackDomainName")
	if fn == nil {
		r.cerr("C02.R1.pointer-loop", "UnpackDomainName", "function not found")
		return
	}
	maxPtr, ok := c.constInt("maxCompressionPointers")
	r.check(ok && maxPtr >= 1 && maxPtr <= 255, "C02.R1.pointer-loop", "maxCompressionPointers", "", fmt.Sprint(maxPtr), "maxCompressionPointers = %d: the hop limit must be a small constant (a 255-octet name cannot need more than 127 pointers)", maxPtr)
	// the main loop header: the block with the phis named ptr and budget
	var head *ssa.BasicBlock
	var ptr, budget *ssa.Phi
	for _, b := range fn.Blocks {
		var p, bu *ssa.Phi
		for _, in := range b.Instrs {
			if phi, ok := in.(*ssa.Phi); ok {
				// recognised by what they are, not by their names: the hop counter starts at 0 and is incremented on a
				// way round; the octet budget starts at the 255-octet limit
				if isHopCounter(phi) {
					p = phi
				}
				if isOctetBudget(phi) {
					bu = phi
				}
			}
		}
		if p != nil && bu != nil && backTarget(fn, b) {
			head, ptr, budget = b, p, bu
		}
	}
	if head == nil {
		r.undecided("C02.R1.pointer-loop", "UnpackDomainName:loop", c.pos(fn.Pos()), "cannot find the loop carrying the hop counter and the octet budget")
		return
	}
	back := backEdges(fn)
	n := 0
	for i, p := range head.Preds {
		if !back[edge{p, head}] {
			// entry: ptr starts at 0, budget at maxDomainNameWireOctets
			if k, ok := constIntOf(ptr.Edges[i]); !ok || k != 0 {
				r.fail("C02.R1.pointer-loop", "UnpackDomainName:init", c.pos(head.Instrs[0].Pos()), "the hop counter does not start at 0")
			}
			if k, ok := constIntOf(budget.Edges[i]); !ok || k != 255 {
				r.fail("C02.R1.pointer-loop", "UnpackDomainName:init", c.pos(head.Instrs[0].Pos()), "the octet budget does not start at 255")
			}
			continue
		}
		n++
		pe, be := ptr.Edges[i], budget.Edges[i]
		construct := fmt.Sprintf("UnpackDomainName:back-edge#%d", n)
		pos := c.pos(p.Instrs[len(p.Instrs)-1].Pos())
		var edgeFacts []Fact
		if ef, ok := edgeFact(p, head); ok {
			edgeFacts = append(edgeFacts, ef)
		}
		facts := append(factsAt(fn, p), edgeFacts...)
		switch {
		case pe != ptr && be == budget:
			// pointer edge: ptr' = ptr + k, k >= 1, and ptr' <= maxPtr established
			b, ok := pe.(*ssa.BinOp)
			okInc := false
			if ok && b.Op == token.ADD && b.X == ptr {
				if k, isK := constIntOf(b.Y); isK && k >= 1 {
					okInc = true
				}
			}
			bounded := false
			for _, f := range facts {
				_, hi, _, hasHi := intervalFromFact(f, isValue(pe))
				if hasHi && hi <= 255 {
					bounded = true
				}
			}
			r.check(okInc && bounded, "C02.R1.pointer-loop", construct, pos, "hop counter incremented under the limit", "a way round the loop that follows a pointer does not pass `ptr++; ptr > maxCompressionPointers -> error` (incremented=%v, bounded=%v): a pointer cycle would loop for ever", okInc, bounded)
		case pe == ptr && be != budget:
			// literal edge: budget' = budget - (c + 1), c >= 0, and budget' > 0 established
			env := newLinEnv()
			d := env.lin(be).add(env.lin(budget), -1) // be - budget
			// strictly decreasing: be - budget <= -1 given non-negativity
			dec := newLin().add(d, 1)
			dec.c += 1
			okDec := env.entailsLin(nil, dec)
			positive := false
			for _, f := range facts {
				lo, _, hasLo, _ := intervalFromFact(f, isValue(be))
				if hasLo && lo >= 1 {
					positive = true
				}
			}
			r.check(okDec && positive, "C02.R1.pointer-loop", construct, pos, "budget strictly decreasing and positive", "a way round the loop that reads a label does not strictly decrease the octet budget under a positivity test (decreasing=%v, test=%v): a crafted name could exceed 255 octets or loop", okDec, positive)
		default:
			r.fail("C02.R1.pointer-loop", construct, pos, "a way round the loop changes neither the hop counter nor the octet budget alone (ptr: %v, budget: %v): no ranking function decreases", pe, be)
		}
	}
	if n < 2 {
		r.fail("C02.R1.pointer-loop", "UnpackDomainName:loop", c.pos(fn.Pos()), "%d back edges found, expected the label edge and the pointer edge", n)
	}
}

func c02R2(c *Ctx, r *Report, fns []*ssa.Function) {
	r.rule("C02.R2.alloc-sizes", 6, "allocations in the decoders are sized by constants, lengths of existing data or 8-bit quantities")
	counter := map[string]int{}
	for _, f := range fns {
		allInstrs(f, func(in ssa.Instruction) {
			var sizes []ssa.Value
			kind := ""
			switch t := in.(type) {
			case *ssa.MakeSlice:
				sizes, kind = []ssa.Value{t.Len, t.Cap}, "make"
			case *ssa.MakeMap:
				if t.Reserve != nil {
					sizes, kind = []ssa.Value{t.Reserve}, "make(map)"
				}
			case *ssa.Call:
				if calleeNameSSA(&t.Call) == "(strings.Builder).Grow" || calleeNameSSA(&t.Call) == "(bytes.Buffer).Grow" {
					sizes, kind = []ssa.Value{t.Call.Args[1]}, "Grow"
				}
			}
			if kind == "" {
				return
			}
			name := fnDisplay(f)
			counter[name]++
			construct := fmt.Sprintf("%s:%s#%d", name, kind, counter[name])
			var bad []string
			for _, sz := range sizes {
				if sz == nil {
					continue
				}
				env := newLinEnv()
				lf := env.lin(sz)
				// the length of the message buffer itself is not the length of a field: in a per-record decoder the
				// buffer is everything up to the end of this RDATA, and an allocation proportional to it, made once
				// per record, is quadratic in the input. Accepted only with an offset taken off (len(msg)-off).
				for nm, coef := range lf.t {
					if coef <= 0 || !(nm == "len(msg)" || strings.HasPrefix(nm, "len(msg~")) {
						continue
					}
					neg := false
					for _, cf := range lf.t {
						if cf < 0 {
							neg = true
						}
					}
					if !neg || coef > 1 {
						bad = append(bad, fmt.Sprintf("%d*len(msg) with no offset taken off (the whole message up to the end of this RDATA, once per record: quadratic)", coef))
					}
				}
				for a := range lf.t {
					if strings.HasPrefix(a, "len(") {
						continue
					}
					// which value is this atom?
					var v ssa.Value
					for val, nm := range env.names {
						if nm == a {
							v = val
						}
					}
					if v == nil {
						continue
					}
					if isSmall(v) {
						continue
					}
					// one of a few constants, chosen by a test (a width by address family): bounded by the largest
					allConst := true
					for _, l := range phiLeaves(v) {
						if _, isK := constIntOf(l); !isK {
							allConst = false
						}
					}
					if allConst {
						continue
					}
					if q, ok := v.(*ssa.BinOp); ok && (q.Op == token.QUO || q.Op == token.REM || q.Op == token.SHR) {
						// len(x)/k style
						e2 := newLinEnv()
						l2 := e2.lin(q.X)
						onlyLen := true
						for a2 := range l2.t {
							if !strings.HasPrefix(a2, "len(") {
								onlyLen = false
							}
						}
						if onlyLen {
							continue
						}
					}
					bad = append(bad, exprKeyPretty(v))
				}
			}
			r.check(len(bad) == 0, "C02.R2.alloc-sizes", construct, c.pos(in.Pos()), "constant / length / 8-bit", "allocation sized by %v, which is not a length of existing data: a count or length field claimed by the message could make the decoder allocate far more than the input", bad)
		})
	}
}

// isSmall: the value is at most 16 bits wide by type (an 8- or 16-bit quantity cannot over-allocate beyond 64 KiB).
func isSmall(v ssa.Value) bool {
	for {
		if cv, ok := v.(*ssa.Convert); ok {
			v = cv.X
			continue
		}
		break
	}
	if b, ok := v.Type().Underlying().(*types.Basic); ok {
		switch b.Kind() {
		case types.Uint8, types.Int8:
			return true
		}
	}
	return false
}

func c02R3(c *Ctx, r *Report, fns []*ssa.Function) {
	r.rule("C02.R3.lying-counts", 2, "count-bounded decode loops stop when the offset stops advancing")
	r.rule("C02.R3.progress", 6, "input-bounded decode loops redefine the offset on every way round")
	for _, name := range []string{"unpackRRslice", "Msg.unpack"} {
		fn := c.ssaFunc(name)
		if fn == nil {
			r.cerr("C02.R3.lying-counts", name, "function not found")
			continue
		}
		back := backEdges(fn)
		var problems []string
		nLoops := 0
		for _, head := range fn.Blocks {
			if !backTarget(fn, head) {
				continue
			}
			// the decode call inside the loop
			var dec *ssa.Call
			inLoop := map[*ssa.BasicBlock]bool{}
			for e := range back {
				if e.to == head {
					for b := range reach(head, nil, nil) {
						if reach(b, nil, nil)[e.from] {
							inLoop[b] = true
						}
					}
				}
			}
			for b := range inLoop {
				for _, in := range b.Instrs {
					if call, ok := in.(*ssa.Call); ok {
						if n := calleeNameSSA(&call.Call); n == "UnpackRR" || n == "unpackQuestion" {
							dec = call
						}
					}
				}
			}
			if dec == nil {
				continue
			}
			nLoops++
			// offset phi of this header that feeds the decode call
			offArg := dec.Call.Args[1]
			offPhi, isPhi := offArg.(*ssa.Phi)
			if !isPhi || offPhi.Block() != head {
				problems = append(problems, fmt.Sprintf("%s: the decode call's offset is not the loop-carried offset", c.pos(dec.Pos())))
				continue
			}
			// new offset = extract of the call
			var newOff ssa.Value
			for _, ref := range *dec.Referrers() {
				if ex, ok := ref.(*ssa.Extract); ok && ex.Type().Underlying() == types.Typ[types.Int] {
					newOff = ex
				}
			}
			// an If in the loop comparing offPhi == newOff whose true edge leaves the loop
			okStop := false
			for b := range inLoop {
				ifi, ok := b.Instrs[len(b.Instrs)-1].(*ssa.If)
				if !ok {
					continue
				}
				atom, pol := condAtom(ifi.Cond)
				cmp, ok := atom.(*ssa.BinOp)
				if !ok || (cmp.Op != token.EQL && cmp.Op != token.NEQ) {
					continue
				}
				if !((cmp.X == offPhi && cmp.Y == newOff) || (cmp.Y == offPhi && cmp.X == newOff)) {
					continue
				}
				eqIdx := 0
				if (cmp.Op == token.EQL) != pol {
					eqIdx = 1
				}
				if !inLoop[b.Succs[eqIdx]] || !reach(b.Succs[eqIdx], nil, map[*ssa.BasicBlock]bool{head: true})[dec.Block()] {
					okStop = true
				}
			}
			if !okStop {
				problems = append(problems, fmt.Sprintf("%s: the loop does not leave when the offset after decoding equals the offset at the start of the same iteration: a count of 65535 over a few octets of input decodes (and allocates) 65535 records", c.pos(dec.Pos())))
			}
		}
		if nLoops == 0 {
			problems = append(problems, "no count-bounded decode loop found")
		}
		r.check(len(problems) == 0, "C02.R3.lying-counts", name, c.pos(fn.Pos()), fmt.Sprintf("%d loop(s)", nLoops), "%s", strings.Join(problems, "; "))
	}
	// progress
	counter := map[string]int{}
	for _, f := range fns {
		back := backEdges(f)
		for _, head := range f.Blocks {
			if !backTarget(f, head) {
				continue
			}
			ifi, ok := head.Instrs[len(head.Instrs)-1].(*ssa.If)
			if !ok {
				continue
			}
			atom, _ := condAtom(ifi.Cond)
			cmp, ok := atom.(*ssa.BinOp)
			if !ok || cmp.Op != token.LSS {
				continue
			}
			phi, ok := cmp.X.(*ssa.Phi)
			if !ok || phi.Block() != head || strings.HasPrefix(phi.Comment, "rangeindex") {
				continue
			}
			// bound is len(buf) or an int parameter (end)
			isBound := false
			if call, ok := cmp.Y.(*ssa.Call); ok && calleeNameSSA(&call.Call) == "builtin.len" {
				if _, isSl := call.Call.Args[0].Type().Underlying().(*types.Slice); isSl {
					isBound = true
				}
			}
			if p, ok := cmp.Y.(*ssa.Parameter); ok && p.Name() == "end" {
				isBound = true
			}
			if !isBound || bytesParamIndex(f) < 0 {
				continue
			}
			name := fnDisplay(f)
			counter[name]++
			construct := fmt.Sprintf("%s:loop#%d", name, counter[name])
			var problems []string
			for i, p := range head.Preds {
				if !back[edge{p, head}] {
					continue
				}
				ev := phi.Edges[i]
				if ev == phi {
					problems = append(problems, fmt.Sprintf("a way round the loop (from %s) leaves the offset unchanged: the decoder would spin on hostile input", c.pos(p.Instrs[len(p.Instrs)-1].Pos())))
					continue
				}
				if b, ok := ev.(*ssa.BinOp); ok && b.Op == token.ADD && b.X == phi {
					if k, isK := constIntOf(b.Y); isK && k < 1 {
						problems = append(problems, "the offset is advanced by a non-positive constant")
					}
				}
			}
			r.check(len(problems) == 0, "C02.R3.progress", construct, c.pos(ifi.Pos()), "offset redefined on every back edge", "%s", strings.Join(problems, "; "))
		}
	}
}

func c02R4(c *Ctx, r *Report, e *aliasEngine, fns []*ssa.Function) {
	r.rule("C02.R4.explicit-panics", 1, "explicit panics reachable from the decoders are discharged by a checked impossibility argument")
	e.solve()
	n := 0
	for _, f := range fns {
		allInstrs(f, func(in ssa.Instruction) {
			if _, ok := in.(*ssa.Panic); !ok {
				return
			}
			n++
			name := fnDisplay(f)
			construct := "panic in " + name
			if name != "RR_Header.unpack" {
				r.fail("C02.R4.explicit-panics", construct, c.pos(in.Pos()), "an explicit panic is reachable from the decoders in %s", name)
				return
			}
			// impossibility: no invoke of RR.unpack in scope can have an *RR_Header receiver
			var problems []string
			for _, g := range fns {
				allInstrs(g, func(in2 ssa.Instruction) {
					call, ok := in2.(*ssa.Call)
					if !ok || !call.Call.IsInvoke() || call.Call.Method.Name() != "unpack" {
						return
					}
					if !strings.HasSuffix(typeStr(call.Call.Value.Type()), "RR") {
						return
					}
					roots := e.deep(g, e.rootsOf(call.Call.Value))
					if len(roots) == 0 {
						problems = append(problems, fmt.Sprintf("%s: cannot tell what record unpack is invoked on", c.pos(call.Pos())))
					}
					for rt := range roots {
						switch rt.Kind {
						case rkAlloc:
							if n := derefNamed(rt.Site.Type()); n != nil && n.Obj().Name() == "RR_Header" {
								// a header allocation flowing into the receiver?
								if mi, ok := call.Call.Value.(*ssa.MakeInterface); ok {
									if nn := derefNamed(mi.X.Type()); nn != nil && nn.Obj().Name() == "RR_Header" {
										problems = append(problems, fmt.Sprintf("%s: unpack is invoked on an *RR_Header", c.pos(call.Pos())))
									}
								}
							}
						case rkParam:
							if rt.Fn == g {
								// the record comes from the caller of an exported function: only embedding delegations (SIG -> RRSIG ...) do this
								continue
							}
						case rkUnknown:
							problems = append(problems, fmt.Sprintf("%s: unpack may be invoked on an unknown record", c.pos(call.Pos())))
						}
					}
					// direct check: the dynamic types that can reach this receiver
					for v := range sliceOf(call.Call.Value) {
						if mi, ok := v.(*ssa.MakeInterface); ok {
							if nn := derefNamed(mi.X.Type()); nn != nil && nn.Obj().Name() == "RR_Header" {
								problems = append(problems, fmt.Sprintf("%s: an *RR_Header is converted to RR on the way to unpack", c.pos(mi.Pos())))
							}
						}
					}
				})
			}
			// no registry constructor returns a header
			for _, g := range e.bySig["func() github.com/miekg/dns.RR"] {
				for _, rp := range returnPoints(g, 0) {
					if mi, ok := rp.Results[0].(*ssa.MakeInterface); ok {
						if nn := derefNamed(mi.X.Type()); nn != nil && nn.Obj().Name() == "RR_Header" {
							problems = append(problems, fmt.Sprintf("%s: a record constructor returns an *RR_Header", c.pos(rp.Pos)))
						}
					}
				}
			}
			if len(e.bySig["func() github.com/miekg/dns.RR"]) < 70 {
				problems = append(problems, fmt.Sprintf("only %d record constructors resolved", len(e.bySig["func() github.com/miekg/dns.RR"])))
			}
			r.check(len(problems) == 0, "C02.R4.explicit-panics", construct, c.pos(in.Pos()), "unreachable: no decoder path puts an *RR_Header behind the RR interface", "%s", strings.Join(uniqStrings(problems), "; "))
		})
	}
	if n == 0 {
		r.ok("C02.R4.explicit-panics", "none", "", "no explicit panic reachable from the decoders")
	}
}

func c02R5(c *Ctx, r *Report, e *aliasEngine, scope map[*ssa.Function]bool, fns []*ssa.Function) {
	r.rule("C02.R5.bounds", 80, "every index / slice / fixed-width access on a byte buffer in the decoders has its upper end entailed <= len(buffer), and every b[lo:hi] has lo <= hi entailed")
	withAllSlices = true // index and slice expressions on slices of every element type
	bp := newBoundsProver(c, e, scope)
	np := 0
	for _, m := range bp.post {
		np += len(m)
	}
	r.extra["helper_postconditions_proven"] = np
	counter := map[string]int{}
	why := map[string]int{}
	for _, f := range fns {
		for _, s := range boundSites(f) {
			bp.prove(s)
			base := fmt.Sprintf("%s:%s", fnDisplay(f), s.describe())
			counter[base]++
			construct := base
			if counter[base] > 1 {
				construct = fmt.Sprintf("%s#%d", base, counter[base])
			}
			if s.Proven {
				why[s.Why]++
			}
			r.check(s.Proven, "C02.R5.bounds", construct, c.pos(s.Instr.Pos()), s.Why, "the access %s is not covered by a dominating length test (%s): hostile input can make the decoder panic", s.describe(), s.Why)
		}
	}
	r.extra["bounds_proof_kinds"] = why
	withAllSlices = false

	// "whatever is accepted can be re-packed without panicking", for the text packers: character-strings and octet
	// strings keep the octets the decoder accepted as escaped text; packing walks that text with index arithmetic of
	// its own (backslash, \DDD). Same prover, with index and slice expressions on strings included.
	r.rule("C02.R5.repack-text", 20, "every index / slice on the text and on the buffer in the character-string packers is entailed in bounds")
	var entries []*ssa.Function
	for _, n := range []string{"packString", "packStringTxt", "packStringOctet", "packTxtString", "packOctetString", "packTxt"} {
		if f := c.ssaFunc(n); f != nil {
			entries = append(entries, f)
		}
	}
	scope2 := e.reachable(entries)
	var fns2 []*ssa.Function
	for f := range scope2 {
		fns2 = append(fns2, f)
	}
	sort.Slice(fns2, func(i, j int) bool { return fnDisplay(fns2[i]) < fnDisplay(fns2[j]) })
	withStrings = true
	defer func() { withStrings = false }()
	bp2 := newBoundsProver(c, e, scope2)
	counter2 := map[string]int{}
	for _, f := range fns2 {
		r.fn(fnDisplay(f))
		for _, s := range boundSites(f) {
			bp2.prove(s)
			base := fmt.Sprintf("%s:%s", fnDisplay(f), s.describe())
			counter2[base]++
			construct := base
			if counter2[base] > 1 {
				construct = fmt.Sprintf("%s#%d", base, counter2[base])
			}
			r.check(s.Proven, "C02.R5.repack-text", construct, c.pos(s.Instr.Pos()), s.Why, "the access %s is not covered by a dominating length test (%s): a string the decoder accepted (one ending in a backslash, say) makes the packer panic", s.describe(), s.Why)
		}
	}
}

// c02BoundsRun runs C02.R5.bounds by itself (for properties that borrow it).
func c02BoundsRun(c *Ctx, r *Report) {
	e := newAliasEngine(c)
	scope := e.reachable(decodeEntryPoints(c))
	var fns []*ssa.Function
	for f := range scope {
		fns = append(fns, f)
	}
	sort.Slice(fns, func(i, j int) bool { return fnDisplay(fns[i]) < fnDisplay(fns[j]) })
	c02R5(c, r, e, scope, fns)
}

// decodeScope: the functions reachable from the decoding entry points, sorted.
func decodeScope(c *Ctx) []*ssa.Function {
	e := newAliasEngine(c)
	scope := e.reachable(decodeEntryPoints(c))
	var fns []*ssa.Function
	for f := range scope {
		fns = append(fns, f)
	}
	sort.Slice(fns, func(i, j int) bool { return fnDisplay(fns[i]) < fnDisplay(fns[j]) })
	return fns
}

// isHopCounter: an int phi that starts at constant 0 and receives itself plus a positive constant on some way round.
func isHopCounter(phi *ssa.Phi) bool {
	zero, inc := false, false
	for _, e := range phi.Edges {
		if k, ok := constIntOf(e); ok && k == 0 {
			zero = true
		}
		for _, l := range phiLeaves(e) {
			if b, ok := l.(*ssa.BinOp); ok && b.Op == token.ADD && b.X == ssa.Value(phi) {
				if k, isK := constIntOf(b.Y); isK && k >= 1 {
					inc = true
				}
			}
		}
	}
	return zero && inc
}

// isOctetBudget: an int phi that starts at the constant 255.
func isOctetBudget(phi *ssa.Phi) bool {
	for _, e := range phi.Edges {
		if k, ok := constIntOf(e); ok && k == 255 {
			return true
		}
	}
	return false
}
