package main

import (
	"encoding/json"
	"fmt"
	"os"
	"runtime/debug"
	"sort"
	"strconv"
	"strings"
	"time"
)

type propDef struct {
	id      string
	needSSA bool
	run     func(c *Ctx, r *Report)
	// configs beyond linux/amd64 analysed in the thorough tier
	multiConfig bool
}

var props = map[string]*propDef{}

func register(id string, needSSA, multiConfig bool, run func(c *Ctx, r *Report)) {
	props[id] = &propDef{id: id, needSSA: needSSA, run: run, multiConfig: multiConfig}
}

func usage() {
	fmt.Fprintln(os.Stderr, "usage: dnsverif check <Cxx> [--tier quick|thorough] [--repo DIR] [--verif DIR]\n       dnsverif replay <violation.json> [--repo DIR] [--verif DIR]\n       dnsverif list")
	os.Exit(2)
}

func main() {
	if len(os.Args) < 2 {
		usage()
	}
	repo, verif, tier := "/repo", "/verif", os.Getenv("VERIF_TIER")
	var pos []string
	args := os.Args[2:]
	for i := 0; i < len(args); i++ {
		switch args[i] {
		case "--tier":
			i++
			tier = args[i]
		case "--repo":
			i++
			repo = args[i]
		case "--verif":
			i++
			verif = args[i]
		default:
			pos = append(pos, args[i])
		}
	}
	if tier == "" {
		tier = "quick"
	}
	if tier != "quick" && tier != "thorough" {
		usage()
	}
	seed, _ := strconv.Atoi(os.Getenv("VERIF_SEED"))
	switch os.Args[1] {
	case "list":
		var ids []string
		for id := range props {
			ids = append(ids, id)
		}
		sort.Strings(ids)
		fmt.Println(strings.Join(ids, " "))
	case "explore-bounds":
		exploreBounds(repo)
	case "checkall":
		// triage only (tools/try_wt.sh): one load, every property evaluated on it, one verdict line each. The
		// registered checks always run one property per process.
		os.Exit(runAll(tier, repo, verif, pos))
	case "check":
		if len(pos) != 1 {
			usage()
		}
		os.Exit(runCheck(pos[0], tier, repo, verif, seed, nil))
	case "replay":
		if len(pos) != 1 {
			usage()
		}
		b, err := os.ReadFile(pos[0])
		if err != nil {
			fmt.Fprintln(os.Stderr, err)
			os.Exit(2)
		}
		var vf violationFile
		if err := json.Unmarshal(b, &vf); err != nil || vf.Obligation == nil {
			fmt.Fprintln(os.Stderr, "not a violation file:", err)
			os.Exit(2)
		}
		os.Exit(runCheck(vf.Property, vf.Tier, repo, verif, seed, vf.Obligation))
	default:
		usage()
	}
}

// runCheck evaluates one property. With only != nil it is a replay: the verdict concerns that obligation alone.
func runCheck(id, tier, repo, verif string, seed int, only *Obligation) int {
	t0 := time.Now()
	pd := props[id]
	if pd == nil {
		fmt.Fprintf(os.Stderr, "no check for property %s\n", id)
		return 2
	}
	r := newReport(id, tier)
	configs := []loadOpts{{}}
	if tier == "thorough" && pd.multiConfig {
		configs = append(configs, loadOpts{goos: "darwin", goarch: "amd64"}, loadOpts{goos: "windows", goarch: "amd64"}, loadOpts{goarch: "386", goos: "linux"}, loadOpts{tags: "fuzz"})
	}
	var cfgNames []string
	for _, lo := range configs {
		lo.needSSA = pd.needSSA
		c, err := load(repo, lo)
		if err != nil {
			r.cerr(id+".load", "load", "%v", err)
			continue
		}
		c.Tier = tier
		cfgNames = append(cfgNames, c.Config)
		func() {
			defer func() {
				if p := recover(); p != nil {
					r.cerr(id+".panic", c.Config, "analysis panicked: %v\n%s", p, debug.Stack())
				}
			}()
			pd.run(c, r)
		}()
	}
	if only != nil {
		for _, o := range r.obls {
			if o.Rule == only.Rule && o.Construct == only.Construct {
				fmt.Printf("replay %s | %s: %s %s %s\n", o.Rule, o.Construct, o.Status, o.Pos, o.Detail)
				if o.Status == stOK {
					return 0
				}
				fmt.Printf("VIOLATION property=%s replay=%s\n", id, "(replayed)")
				return 1
			}
		}
		fmt.Printf("replay: obligation %s | %s no longer exists on this tree\n", only.Rule, only.Construct)
		return 1
	}
	if tier == "thorough" {
		selfTestSeeded(id, verif, repo, r)
		selfTestBenign(id, verif, repo, r)
	}
	return r.finish(verif, t0, seed, strings.Join(os.Args, " "), cfgNames)
}

// runAll loads the tree once and evaluates the named properties (all of them by default) on it.
func runAll(tier, repo, verif string, ids []string) int {
	if len(ids) == 0 {
		for id := range props {
			ids = append(ids, id)
		}
	}
	sort.Strings(ids)
	c, err := load(repo, loadOpts{needSSA: true})
	if err != nil {
		fmt.Printf("ALL load error: %v\n", err)
		return 2
	}
	c.Tier = tier
	rc := 0
	for _, id := range ids {
		pd := props[id]
		if pd == nil {
			continue
		}
		t0 := time.Now()
		r := newReport(id, tier)
		func() {
			defer func() {
				if p := recover(); p != nil {
					r.cerr(id+".panic", c.Config, "analysis panicked: %v\n%s", p, debug.Stack())
				}
			}()
			pd.run(c, r)
		}()
		code := r.finish(verif, t0, 0, "checkall", []string{c.Config})
		fmt.Printf("=== %s rc=%d\n", id, code)
		if code != 0 {
			rc = 1
		}
	}
	return rc
}
