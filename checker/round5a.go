package main

import (
	"fmt"
	"go/token"
	"sort"
	"strings"

	"golang.org/x/tools/go/ssa"
)

// Rules added after the fifth round of independent breaking changes.

// unpackExits: a generated (*T).unpack decodes its fields with the codec of each field's kind and refuses input only
// where a codec refuses it: every error exit is on the `err != nil` edge of a codec call. An extra refusal (say, of a
// name that arrived compressed) makes the reader stricter than the wire format of the type.
func unpackExits(c *Ctx, r *Report, rule, consequence string) {
	r.rule(rule, 75, "every error exit of a generated (*T).unpack is the error of one of its field codecs")
	for _, T := range c.rrTypes() {
		fn := c.ssaFunc(T.Name + ".unpack")
		if fn == nil {
			continue
		}
		if !strings.HasSuffix(c.Fset.Position(fn.Pos()).Filename, "zmsg.go") {
			continue
		}
		r.fn(T.Name + ".unpack")
		var bad []string
		for _, b := range fn.Blocks {
			ret, ok := b.Instrs[len(b.Instrs)-1].(*ssa.Return)
			if !ok || len(ret.Results) != 2 {
				continue
			}
			if k, isK := ret.Results[1].(*ssa.Const); isK && k.Value == nil {
				continue
			}
			fromCodec := false
			for _, f := range factsAt(fn, b) {
				bin, ok := f.Atom.(*ssa.BinOp)
				if !ok || (bin.Op != token.NEQ && bin.Op != token.EQL) {
					continue
				}
				k, isK := bin.Y.(*ssa.Const)
				if !isK || k.Value != nil {
					continue
				}
				nonNil := (bin.Op == token.NEQ && f.Holds) || (bin.Op == token.EQL && !f.Holds)
				if !nonNil {
					continue
				}
				for _, l := range phiLeaves(bin.X) {
					if ex, ok := l.(*ssa.Extract); ok {
						if _, isCall := ex.Tuple.(*ssa.Call); isCall {
							fromCodec = true
						}
					}
				}
			}
			if !fromCodec {
				bad = append(bad, c.pos(ret.Pos()))
			}
		}
		sort.Strings(bad)
		r.check(len(bad) == 0, rule, T.Name+".unpack", c.pos(fn.Pos()), "codec errors only", "the error exit at %s is not the error of a field codec: %s", strings.Join(bad, ", "), consequence)
	}
}

var _ = fmt.Sprintf

// repackSkip: functions of the pack scope whose sites are not decided (reason in DESIGN.md, Appendix D).
var repackSkip = map[string]bool{
	"packDomainName":       true, // indexes a compacted copy of the name while compacting it (bs, ls, compOff): the invariants relating i, ls and len(bs) across the in-place copy are not derived
	"isRootLabel":          true, // called with positions of packDomainName's compacted copy
	"compressionLenSearch": true, // walks the presentation string by label positions handed in by domainNameLen
	"domainNameLen":        true, // slices by the offset compressionLenSearch returns
}

// repackExempt: single constructs of the pack scope that are not decided, one line of reason each.
var repackExempt = map[string]string{
	"EDNS0_SUBNET.pack:slice-high (((*e.f2+8)-1)/8)+0 <= len((net.IP).Mask())":                                               "needs len((net.IP).Mask(m)) == len(ip) for a mask of matching length and (prefix+7)/8 <= that length; net.IP.Mask is outside the module",
	"EDNS0_SUBNET.pack:slice-high (((*e.f2+8)-1)/8)+0 <= len((net.IP).Mask())#2":                                             "needs len((net.IP).Mask(m)) == len(ip) for a mask of matching length and (prefix+7)/8 <= that length; net.IP.Mask is outside the module",
	"SVCBMandatory.pack:bigendian (2*(rangeindex+1))+2 <= len(t11)":                                                          "the key list is captured by the sort closure, so its loads are separate heap cells; needs 2*i+2 <= 2*len(codes)",
	"SVCBMandatory.pack$1:index i+1 <= len(*codes)":                                                                          "indices handed to a sort.Slice less function are within the slice that was sorted (contract of package sort)",
	"SVCBMandatory.pack$1:index j+1 <= len(*codes)":                                                                          "indices handed to a sort.Slice less function are within the slice that was sorted (contract of package sort)",
	"APLPrefix.wireAddress:slice-high (((net.IPMask).Size()#0+7)/8)+0 <= len((net.IP).Mask())":                               "length of a net.IPMask / net.IP.Mask result; trailing-zero trimming loop counts down over it",
	"APLPrefix.wireAddress:index-low 0 <= i+1 in (net.IP).Mask()[:(((net.IPMask).Size()#0+7)/8)]":                            "length of a net.IPMask / net.IP.Mask result; trailing-zero trimming loop counts down over it",
	"packDataNsec:index-low 0 <= ((off+1)+(((*bitmap[(rangeindex+1)]-((*bitmap[(rangeindex+1)]/256)*256))/8)+1))+0 in msg":   "0 <= off + 1 + bit/8 + 1: lower bound of a sum of non-negative terms behind a modulo written as x - (x/256)*256",
	"packDataNsec:index-low 0 <= ((off+1)+(((*bitmap[(rangeindex+1)]-((*bitmap[(rangeindex+1)]/256)*256))/8)+1))+0 in msg#2": "0 <= off + 1 + bit/8 + 1: lower bound of a sum of non-negative terms behind a modulo written as x - (x/256)*256",
	"packDataSVCB$1:index i+1 <= len(*pairs)":                                                                                "indices handed to a sort.Slice less function are within the slice that was sorted (contract of package sort)",
	"packDataSVCB$1:index j+1 <= len(*pairs)":                                                                                "indices handed to a sort.Slice less function are within the slice that was sorted (contract of package sort)",
}
