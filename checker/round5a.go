package main

import (
	"fmt"
	"go/token"
	"sort"
	"strings"

	"golang.org/x/tools/go/ssa"
)

// Rules added after the fifth round of independent breaking changes.

// unpackExits: a generated (*T).unpack decodes its fields with the codec of each field's kind and refuses input only
// where a codec refuses it: every error exit is on the `err != nil` edge of a codec call. An extra refusal (say, of a
// name that arrived compressed) makes the reader stricter than the wire format of the type.
func unpackExits(c *Ctx, r *Report, rule, consequence string) {
	r.rule(rule, 75, "every error exit of a generated (*T).unpack is the error of one of its field codecs")
	for _, T := range c.rrTypes() {
		fn := c.ssaFunc(T.Name + ".unpack")
		if fn == nil {
			continue
		}
		if !strings.HasSuffix(c.Fset.Position(fn.Pos()).Filename, "zmsg.go") {
			continue
		}
		r.fn(T.Name + ".unpack")
		var bad []string
		for _, b := range fn.Blocks {
			ret, ok := b.Instrs[len(b.Instrs)-1].(*ssa.Return)
			if !ok || len(ret.Results) != 2 {
				continue
			}
			if k, isK := ret.Results[1].(*ssa.Const); isK && k.Value == nil {
				continue
			}
			fromCodec := false
			for _, f := range factsAt(fn, b) {
				bin, ok := f.Atom.(*ssa.BinOp)
				if !ok || (bin.Op != token.NEQ && bin.Op != token.EQL) {
					continue
				}
				k, isK := bin.Y.(*ssa.Const)
				if !isK || k.Value != nil {
					continue
				}
				nonNil := (bin.Op == token.NEQ && f.Holds) || (bin.Op == token.EQL && !f.Holds)
				if !nonNil {
					continue
				}
				for _, l := range phiLeaves(bin.X) {
					if ex, ok := l.(*ssa.Extract); ok {
						if _, isCall := ex.Tuple.(*ssa.Call); isCall {
							fromCodec = true
						}
					}
				}
			}
			if !fromCodec {
				bad = append(bad, c.pos(ret.Pos()))
			}
		}
		sort.Strings(bad)
		r.check(len(bad) == 0, rule, T.Name+".unpack", c.pos(fn.Pos()), "codec errors only", "the error exit at %s is not the error of a field codec: %s", strings.Join(bad, ", "), consequence)
	}
}

var _ = fmt.Sprintf
