package main

import (
	"fmt"
	"go/token"
	"go/types"
	"sort"
	"strings"

	"golang.org/x/tools/go/ssa"
)

// Rules added after the sixth round of independent breaking changes (part 1).

// normExpr prints an integer expression tree in a normal form in which x - (x/k)*k is written x%k, so that two
// spellings of "the low part of x" compare equal. Leaves are named by role through the names map.
func normExpr(v ssa.Value, names map[ssa.Value]string, d int) string {
	if n, ok := names[v]; ok {
		return n
	}
	if d > 10 {
		return "?"
	}
	switch t := v.(type) {
	case *ssa.Const:
		if k, ok := constIntOf(t); ok {
			return fmt.Sprint(k)
		}
	case *ssa.Convert:
		return normExpr(t.X, names, d+1)
	case *ssa.BinOp:
		// x - (x/k)*k
		if t.Op == token.SUB {
			if m, ok := t.Y.(*ssa.BinOp); ok && m.Op == token.MUL {
				if q, ok := m.X.(*ssa.BinOp); ok && q.Op == token.QUO {
					k1, ok1 := constIntOf(q.Y)
					k2, ok2 := constIntOf(m.Y)
					if ok1 && ok2 && k1 == k2 && normExpr(q.X, names, d+1) == normExpr(t.X, names, d+1) {
						return "(" + normExpr(t.X, names, d+1) + "%" + fmt.Sprint(k1) + ")"
					}
				}
			}
		}
		return "(" + normExpr(t.X, names, d+1) + t.Op.String() + normExpr(t.Y, names, d+1) + ")"
	}
	return "?"
}

// bitmapLengthAgreement: the length walk and the packer of type bitmaps compute the length of a window's bit field
// from the highest type in it by the same formula.
func bitmapLengthAgreement(c *Ctx, r *Report, rule, consequence string) {
	r.rule(rule, 1, "typeBitMapLen and packDataNsec compute a window's bit-field length by the same expression of the type code")
	forms := map[string]string{}
	pos := map[string]string{}
	for _, name := range []string{"typeBitMapLen", "packDataNsec"} {
		fn := c.ssaFunc(name)
		if fn == nil {
			r.cerr(rule, name, "function not found")
			return
		}
		r.fn(name)
		// the range element t: the value whose /256 is the window
		var tval ssa.Value
		allInstrs(fn, func(in ssa.Instruction) {
			if q, ok := in.(*ssa.BinOp); ok && q.Op == token.QUO {
				if k, isK := constIntOf(q.Y); isK && k == 256 && tval == nil {
					tval = q.X
				}
			}
		})
		if tval == nil {
			r.undecided(rule, name, c.pos(fn.Pos()), "the window computation t/256 was not found")
			return
		}
		// the length: an expression over t that is compared with / stored as the running window length: the first
		// expression containing a division by 8
		var length ssa.Value
		allInstrs(fn, func(in ssa.Instruction) {
			b, ok := in.(*ssa.BinOp)
			if !ok || length != nil {
				return
			}
			hasDiv8 := false
			for o := range sliceOf(b) {
				if q, ok := o.(*ssa.BinOp); ok && q.Op == token.QUO {
					if k, isK := constIntOf(q.Y); isK && k == 8 {
						hasDiv8 = true
					}
				}
			}
			if !hasDiv8 || !anyIn(sliceOf(b), isValue(tval)) {
				return
			}
			// the outermost arithmetic expression: not an operand of further + - * /
			outer := true
			for _, ref := range *b.Referrers() {
				if p, ok := ref.(*ssa.BinOp); ok {
					switch p.Op {
					case token.ADD, token.SUB, token.MUL, token.QUO, token.REM:
						// part of a larger expression unless that one involves the offset (off+1+length)
						if !anyIn(sliceOf(p), func(v ssa.Value) bool { _, isP := v.(*ssa.Parameter); return isP }) {
							outer = false
						}
					}
				}
			}
			switch b.Op {
			case token.ADD, token.SUB, token.MUL, token.QUO, token.REM:
				if outer {
					length = b
				}
			}
		})
		if length == nil {
			r.undecided(rule, name, c.pos(fn.Pos()), "the window length expression was not found")
			return
		}
		forms[name] = normExpr(length, map[ssa.Value]string{tval: "t"}, 0)
		pos[name] = c.pos(length.Pos())
	}
	r.check(forms["typeBitMapLen"] == forms["packDataNsec"], rule, "typeBitMapLen/packDataNsec", pos["typeBitMapLen"], forms["packDataNsec"], "typeBitMapLen computes the window length as %s, packDataNsec as %s: %s", forms["typeBitMapLen"], forms["packDataNsec"], consequence)
}

// resetOnConvert: a conversion into a caller-supplied value assigns every field of the destination: ToRFC3597 on a
// reused *RFC3597 leaves nothing of the previous record behind.
func resetOnConvert(c *Ctx, r *Report, rule, consequence string) {
	r.rule(rule, 1, "every success return of RFC3597.ToRFC3597 has assigned Hdr and Rdata of the destination (or the whole struct)")
	fn := c.ssaFunc("RFC3597.ToRFC3597")
	if fn == nil {
		r.cerr(rule, "RFC3597.ToRFC3597", "function not found")
		return
	}
	r.fn("RFC3597.ToRFC3597")
	recv := fn.Params[0]
	var ps []string
	for _, field := range []string{"Hdr", "Rdata"} {
		covered := map[*ssa.BasicBlock]bool{}
		allInstrs(fn, func(in ssa.Instruction) {
			st, ok := in.(*ssa.Store)
			if !ok {
				return
			}
			if st.Addr == ssa.Value(recv) {
				covered[st.Block()] = true // whole struct
			}
			if fa, ok := st.Addr.(*ssa.FieldAddr); ok && fa.X == ssa.Value(recv) && fieldNameOf(fa) == field {
				covered[st.Block()] = true
			}
		})
		if covered[fn.Blocks[0]] {
			continue
		}
		for b := range reach(fn.Blocks[0], nil, covered) {
			ret, ok := b.Instrs[len(b.Instrs)-1].(*ssa.Return)
			if !ok || len(ret.Results) != 1 {
				continue
			}
			if k, isK := ret.Results[0].(*ssa.Const); isK && k.Value == nil {
				ps = append(ps, fmt.Sprintf("the success return at %s is reached without %s having been assigned", c.pos(ret.Pos()), field))
			}
		}
	}
	sort.Strings(ps)
	r.check(len(ps) == 0, rule, "RFC3597.ToRFC3597", c.pos(fn.Pos()), "Hdr and Rdata on every success path", "%s: %s", strings.Join(uniqStrings(ps), "; "), consequence)
}

// consumedOffset: UnpackDomainName reports how many octets the name occupies where it stands: the offset behind the
// first compression pointer, or behind the terminating zero when no pointer was followed. Every success return hands
// out that one value (the variable fixed up by `if ptr == 0 { off1 = off }`), never the read position itself.
func consumedOffset(c *Ctx, r *Report, rule string) {
	r.rule(rule, 2, "every success return of UnpackDomainName returns the same offset value: the one fixed up on the no-pointer edge")
	fn := c.ssaFunc("UnpackDomainName")
	if fn == nil {
		r.cerr(rule, "UnpackDomainName", "function not found")
		return
	}
	r.fn("UnpackDomainName")
	vals := map[ssa.Value][]string{}
	for _, b := range fn.Blocks {
		ret, ok := b.Instrs[len(b.Instrs)-1].(*ssa.Return)
		if !ok || len(ret.Results) != 3 {
			continue
		}
		if k, isK := ret.Results[2].(*ssa.Const); !isK || k.Value != nil {
			continue
		}
		vals[ret.Results[1]] = append(vals[ret.Results[1]], c.pos(ret.Pos()))
	}
	n := 0
	for v, where := range vals {
		n++
		// the fixed-up value: a phi one of whose edges is taken on `ptr == 0`
		okV := false
		if phi, isPhi := v.(*ssa.Phi); isPhi {
			for i, p := range phi.Block().Preds {
				_ = i
				if ef, ok := edgeFact(p, phi.Block()); ok {
					if bin, ok := ef.Atom.(*ssa.BinOp); ok && (bin.Op == token.EQL || bin.Op == token.NEQ) {
						if k, isK := constIntOf(bin.Y); isK && k == 0 {
							okV = true
						}
					}
				}
				// or the fix-up block itself is the predecessor (a one-instruction then-branch)
				if len(p.Preds) == 1 {
					if ef, ok := edgeFact(p.Preds[0], p); ok {
						if bin, ok := ef.Atom.(*ssa.BinOp); ok && (bin.Op == token.EQL || bin.Op == token.NEQ) {
							if k, isK := constIntOf(bin.Y); isK && k == 0 {
								okV = true
							}
						}
					}
				}
			}
		}
		sort.Strings(where)
		r.check(okV, rule, fmt.Sprintf("UnpackDomainName:offset#%d", n), where[0], "the fixed-up offset", "the success return at %s returns %s, not the offset fixed up on the no-pointer edge: for a name that ends behind a compression pointer (a root written as a pointer to a zero octet) the caller resumes behind the pointer's target instead of behind the pointer, and the rest of the message is misread", strings.Join(where, ", "), describeValue(v))
	}
	r.check(n == 1, rule, "UnpackDomainName:one-offset", c.pos(fn.Pos()), "one value", "the success returns hand out %d different offset values", n)
}

// ownerCompleted: every line that states an owner completes it with the origin in force on that line.
func ownerCompleted(c *Ctx, r *Report, rule string) {
	r.rule(rule, 1, "on every line with an owner token ZoneParser.Next stores toAbsoluteName(token, zp.origin) as the owner before it moves on")
	fn := c.ssaFunc("ZoneParser.Next")
	zo, okK := c.constInt("zOwner")
	if fn == nil || !okK {
		r.cerr(rule, "ZoneParser.Next", "function or zOwner not found")
		return
	}
	r.fn("ZoneParser.Next")
	// the entry of `case zOwner:` in the line-start state: a block on the edge l.value == zOwner
	n := 0
	for _, b := range fn.Blocks {
		iff, ok := b.Instrs[len(b.Instrs)-1].(*ssa.If)
		if !ok {
			continue
		}
		bin, ok := iff.Cond.(*ssa.BinOp)
		if !ok || bin.Op != token.EQL {
			continue
		}
		if k, isK := constIntOf(bin.Y); !isK || k != zo {
			continue
		}
		if !anyIn(sliceOf(bin.X), readsField("lex", "value")) {
			continue
		}
		entry := b.Succs[0]
		n++
		isOwnerStore := func(in ssa.Instruction) bool {
			st, ok := in.(*ssa.Store)
			if !ok {
				return false
			}
			fa, ok := st.Addr.(*ssa.FieldAddr)
			if !ok || fieldNameOf(fa) != "Name" {
				return false
			}
			ex, ok := st.Val.(*ssa.Extract)
			if !ok || ex.Index != 0 {
				return false
			}
			call, ok := ex.Tuple.(*ssa.Call)
			if !ok || calleeNameSSA(&call.Call) != "toAbsoluteName" {
				return false
			}
			return anyIn(sliceOf(call.Call.Args[1]), readsField("ZoneParser", "origin"))
		}
		// from the case entry: the store is passed before the next token is read (returns inside the case are error exits)
		okAll := true
		seen := map[*ssa.BasicBlock]bool{}
		stack := []*ssa.BasicBlock{entry}
		for len(stack) > 0 && okAll {
			blk := stack[len(stack)-1]
			stack = stack[:len(stack)-1]
			if seen[blk] {
				continue
			}
			seen[blk] = true
			hit := false
			for _, in := range blk.Instrs {
				if isOwnerStore(in) {
					hit = true
					break
				}
				if call, ok := in.(*ssa.Call); ok && calleeNameSSA(&call.Call) == "(zlexer).Next" {
					okAll = false
					break
				}
			}
			if !hit {
				stack = append(stack, blk.Succs...)
			}
		}
		r.check(okAll, rule, fmt.Sprintf("ZoneParser.Next:owner#%d", n), c.pos(iff.Pos()), "completed on every line", "a line with an owner token can be processed without its owner being completed with the current origin (the stored owner of an earlier line is kept): after a $ORIGIN change the same relative owner, or @, still denotes the name under the old origin")
	}
	if n == 0 {
		r.undecided(rule, "ZoneParser.Next", c.pos(fn.Pos()), "no test of the token class against zOwner found")
	}
}

// generateBase: both shapes of a $GENERATE modifier's printf format end in the base the modifier states.
func generateBase(c *Ctx, r *Report, rule string) {
	r.rule(rule, 2, "every format modToPrintf returns ends in the stated base")
	fn := c.ssaFunc("modToPrintf")
	if fn == nil {
		r.cerr(rule, "modToPrintf", "function not found")
		return
	}
	r.fn("modToPrintf")
	// the base: the string that is compared against the allowed bases (a Lookup/Index result or a switch operand)
	n := 0
	for _, b := range fn.Blocks {
		ret, ok := b.Instrs[len(b.Instrs)-1].(*ssa.Return)
		if !ok || len(ret.Results) != 3 {
			continue
		}
		if k, isK := ret.Results[2].(*ssa.Const); !isK || k.Value == nil || k.Value.ExactString() != `""` {
			continue // an error message: not a success return
		}
		n++
		add, ok := ret.Results[0].(*ssa.BinOp)
		endsInVar := false
		if ok && add.Op == token.ADD {
			if _, isK := add.Y.(*ssa.Const); !isK {
				endsInVar = true
			}
		}
		r.check(endsInVar, rule, fmt.Sprintf("modToPrintf:format#%d", n), c.pos(ret.Pos()), "… + base", "the format returned here ends in the constant %s instead of the base the modifier states: ${offset,width,x} prints decimal", describeValue(ret.Results[0]))
	}
	if n == 0 {
		r.undecided(rule, "modToPrintf", c.pos(fn.Pos()), "no success return found")
	}
}

// keywordCase: type and class mnemonics are keywords and case-insensitive: every lookup of a token in StringToType /
// StringToClass in the parsers uses the upper-cased token.
func keywordCase(c *Ctx, r *Report, rule string) {
	r.rule(rule, 6, "every lookup of a zone-file token in StringToType / StringToClass is made with strings.ToUpper of the token")
	n := 0
	for _, f := range c.allFuncs() {
		file := c.Fset.Position(f.Pos()).Filename
		if !strings.HasSuffix(file, "scan.go") && !strings.HasSuffix(file, "scan_rr.go") {
			continue
		}
		for _, sub := range withAnon(f) {
			allInstrs(sub, func(in ssa.Instruction) {
				lk, ok := in.(*ssa.Lookup)
				if !ok {
					return
				}
				ld, ok := lk.X.(*ssa.UnOp)
				if !ok {
					return
				}
				g, ok := ld.X.(*ssa.Global)
				if !ok || (g.Name() != "StringToType" && g.Name() != "StringToClass") {
					return
				}
				n++
				upper := anyIn(sliceOf(lk.Index), callsFunc("strings.ToUpper"))
				r.fn(fnDisplay(sub))
				r.check(upper, rule, fmt.Sprintf("%s:%s#%d", fnDisplay(sub), g.Name(), n), c.pos(lk.Pos()), "upper-cased", "the token is looked up in %s as written: a mnemonic in lower or mixed case (`a ns aaaa` in a CSYNC bitmap) is refused although keyword case must not change the result", g.Name())
			})
		}
	}
	if n == 0 {
		r.undecided(rule, "parsers", "", "no lookup in StringToType / StringToClass found")
	}
}

var _ = types.Typ
