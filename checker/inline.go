package main

// Normalisation before the analysis: helpers that did not exist in the pinned tree are written back into their
// callers.
//
// Most rules are anchored in named functions of the pinned tree ("in packDomainName, every ...", "in serveDNS, on
// every path ..."). The commonest behaviour-preserving edit is to move a block of such a function into a new
// unexported helper; the rule then no longer finds its anchor although nothing has changed. Rather than teach every
// rule to follow calls, the tree is normalised first: a function whose name the pinned tree does not have
// (baselineFuncs), that is unexported, not recursive, has no defer / go / labels / type parameters / variadic
// parameter, is substituted at its call sites in statement position
//
//	h(args)                       x, err := h(args)          x = h(args)
//	return h(args)                if h(args) { ... }         if x, err := h(args); cond { ... }
//
// by its body: arguments are evaluated into fresh temporaries, the parameters are declared from them in a block of
// their own, and each `return v...` of the body becomes `results = v...; break L` out of a labelled one-armed switch
// that wraps the body. This is a source-to-source rewriting of the analysed copy only (packages.Config.Overlay); the
// rewritten program has the same behaviour, and the rules then see the code where they expect it. When the rewritten
// package does not type-check (an import the caller's file lacks, say) the normalisation is dropped and the tree is
// analysed as it stands. Nothing is rewritten on the pinned tree: it has no new functions.

import (
	"bytes"
	"fmt"
	"go/ast"
	"go/format"
	"go/parser"
	"go/token"
	"go/types"
	"sort"
	"strings"

	"golang.org/x/tools/go/ast/astutil"
)

type inlineCandidate struct {
	fd   *ast.FuncDecl // for a local closure: a declaration made up of the literal's type and body
	obj  types.Object  // *types.Func, or the *types.Var a local closure is bound to
	sig  *types.Signature
	file *ast.File
	body string // printed body, re-parsed for every call site
	// a local closure `name := func(...) {...}`: the statement that defines it, the function it is local to, and the
	// literal (for the test that the names it captures mean the same at the call site)
	def   *ast.AssignStmt
	owner *ast.FuncDecl
	lit   *ast.FuncLit
}

// closureDef: `name := func(...) ... {...}` directly in the statements of a declared function (not inside another
// literal), where name is afterwards only ever called.
type closureDef struct {
	name string
	obj  *types.Var
	def  *ast.AssignStmt
	lit  *ast.FuncLit
}

func localClosures(c *Ctx, fd *ast.FuncDecl) []closureDef {
	var out []closureDef
	if fd.Body == nil {
		return nil
	}
	ast.Inspect(fd.Body, func(n ast.Node) bool {
		switch t := n.(type) {
		case *ast.FuncLit:
			return false
		case *ast.AssignStmt:
			if t.Tok == token.DEFINE && len(t.Lhs) == 1 && len(t.Rhs) == 1 {
				id, isId := t.Lhs[0].(*ast.Ident)
				lit, isLit := t.Rhs[0].(*ast.FuncLit)
				if isId && isLit && id.Name != "_" {
					if v, ok := c.Info.Defs[id].(*types.Var); ok {
						out = append(out, closureDef{id.Name, v, t, lit})
					}
				}
			}
		}
		return true
	})
	return out
}

// onlyCalled: every use of the variable is the function of a call expression.
func onlyCalled(c *Ctx, fd *ast.FuncDecl, v *types.Var) bool {
	called := map[*ast.Ident]bool{}
	ok := true
	ast.Inspect(fd.Body, func(n ast.Node) bool {
		if call, isCall := n.(*ast.CallExpr); isCall {
			if id, isId := ast.Unparen(call.Fun).(*ast.Ident); isId && c.Info.Uses[id] == types.Object(v) {
				called[id] = true
			}
		}
		return true
	})
	ast.Inspect(fd.Body, func(n ast.Node) bool {
		if id, isId := n.(*ast.Ident); isId && c.Info.Uses[id] == types.Object(v) && !called[id] {
			ok = false
		}
		return true
	})
	return ok
}

// inlineNewHelpers returns the overlay (file name -> new source) and the names of the helpers written back, or nil.
func inlineNewHelpers(c *Ctx) (map[string][]byte, []string) {
	cands := map[types.Object]*inlineCandidate{}
	for key, fd := range c.decls {
		if baselineFuncs[key] || fd.Body == nil || fd.Name.IsExported() || strings.HasPrefix(fd.Name.Name, "_") {
			continue
		}
		obj := c.declObj[fd]
		if obj == nil || !inlinable(c, fd, obj) {
			continue
		}
		if _, conv := funcAlias[obj]; conv {
			continue // a function of the pinned tree, method turned plain function or the reverse
		}
		var buf bytes.Buffer
		if err := format.Node(&buf, c.Fset, fd.Body); err != nil {
			continue
		}
		cands[obj] = &inlineCandidate{fd: fd, obj: obj, sig: obj.Type().(*types.Signature), file: c.fileOf[fd], body: buf.String()}
	}
	// local closures the pinned tree does not have
	for key, fd := range c.decls {
		for _, cd := range localClosures(c, fd) {
			if baselineClosures[key+"/"+cd.name] {
				continue
			}
			sig, isSig := cd.obj.Type().(*types.Signature)
			if !isSig || !onlyCalled(c, fd, cd.obj) {
				continue
			}
			synth := &ast.FuncDecl{Name: ast.NewIdent(cd.name), Type: cd.lit.Type, Body: cd.lit.Body}
			if !inlinable(c, synth, cd.obj) {
				continue
			}
			var buf bytes.Buffer
			if err := format.Node(&buf, c.Fset, cd.lit.Body); err != nil {
				continue
			}
			cands[cd.obj] = &inlineCandidate{fd: synth, obj: cd.obj, sig: sig, file: c.fileOf[fd], body: buf.String(), def: cd.def, owner: fd, lit: cd.lit}
		}
	}
	if len(cands) == 0 {
		return nil, nil
	}
	counter := 0
	changed := map[*ast.File]bool{}
	used := map[string]bool{}
	for key, fd := range c.decls {
		if fd.Body == nil {
			continue
		}
		if obj := c.declObj[fd]; obj != nil && cands[types.Object(obj)] != nil {
			continue // a new helper itself: its calls are dealt with once it has been written into a caller
		}
		_ = key
		file := c.fileOf[fd]
		astutil.Apply(fd.Body, func(cur *astutil.Cursor) bool {
			if _, isLit := cur.Node().(*ast.FuncLit); isLit {
				return false
			}
			st, ok := cur.Node().(ast.Stmt)
			if !ok || cur.Index() < 0 {
				return true
			}
			site := findCallSite(c, st, cands)
			if site == nil {
				return true
			}
			cand := cands[site.callee]
			if !importsCover(c, cand, file) {
				return true
			}
			if cand.lit != nil && !sameCaptures(c, cand, site.call) {
				return true
			}
			counter++
			pre, repl, okB := buildInline(c, cand, site, counter)
			if !okB {
				return true
			}
			for _, p := range pre {
				cur.InsertBefore(p)
			}
			cur.Replace(repl)
			changed[file] = true
			used[cand.fd.Name.Name] = true
			return false
		}, nil)
	}
	if len(changed) == 0 {
		return nil, nil
	}
	// a helper none of whose uses is left is dropped from the analysed copy (who-may-call rules would otherwise see
	// its body twice: in the caller and in the now dead declaration)
	for _, cand := range cands {
		name := cand.fd.Name.Name
		if !used[name] {
			continue
		}
		if cand.lit != nil {
			// a closure none of whose calls is left: its definition goes (an unused variable does not compile)
			refs := 0
			ast.Inspect(cand.owner.Body, func(n ast.Node) bool {
				if id, ok := n.(*ast.Ident); ok && id.Name == name && id != cand.def.Lhs[0].(*ast.Ident) {
					refs++
				}
				return true
			})
			if refs == 0 {
				astutil.Apply(cand.owner.Body, func(cur *astutil.Cursor) bool {
					if cur.Node() == ast.Node(cand.def) && cur.Index() >= 0 {
						cur.Delete()
						return false
					}
					return true
				}, nil)
			}
			continue
		}
		refs := 0
		for _, f := range c.Dns.Syntax {
			ast.Inspect(f, func(n ast.Node) bool {
				if id, ok := n.(*ast.Ident); ok && id.Name == name && id != cand.fd.Name {
					refs++
				}
				return true
			})
		}
		if refs > 0 {
			continue
		}
		var keep []ast.Decl
		for _, d := range cand.file.Decls {
			if d != ast.Decl(cand.fd) {
				keep = append(keep, d)
			}
		}
		cand.file.Decls = keep
		changed[cand.file] = true
	}
	overlay := map[string][]byte{}
	for f := range changed {
		f.Comments = nil // positions of the spliced nodes are foreign: comments would land anywhere
		var buf bytes.Buffer
		if err := format.Node(&buf, token.NewFileSet(), stripPos(f)); err != nil {
			return nil, nil
		}
		overlay[c.Fset.Position(f.Package).Filename] = buf.Bytes()
	}
	var names []string
	for n := range used {
		names = append(names, n)
	}
	sort.Strings(names)
	return overlay, names
}

// stripPos prints and re-parses nothing: format.Node needs consistent positions only for comments, which are gone;
// the file is returned as it is.
func stripPos(f *ast.File) *ast.File { return f }

func inlinable(c *Ctx, fd *ast.FuncDecl, obj types.Object) bool {
	sig := obj.Type().(*types.Signature)
	if sig.Variadic() || sig.TypeParams() != nil || sig.RecvTypeParams() != nil {
		return false
	}
	if fd.Recv != nil && (len(fd.Recv.List) != 1 || len(fd.Recv.List[0].Names) != 1) {
		return false
	}
	for _, f := range fd.Type.Params.List {
		if len(f.Names) == 0 {
			return false // unnamed parameters
		}
	}
	ok := true
	ast.Inspect(fd.Body, func(n ast.Node) bool {
		switch t := n.(type) {
		case *ast.DeferStmt, *ast.GoStmt, *ast.LabeledStmt:
			ok = false
		case *ast.BranchStmt:
			if t.Tok == token.GOTO {
				ok = false
			}
		case *ast.CallExpr:
			if id, isId := ast.Unparen(t.Fun).(*ast.Ident); isId {
				if c.Info.Uses[id] == obj {
					ok = false // recursive
				}
				if id.Name == "recover" {
					ok = false
				}
			}
			if sel, isSel := ast.Unparen(t.Fun).(*ast.SelectorExpr); isSel && c.Info.Uses[sel.Sel] == obj {
				ok = false
			}
		case *ast.FuncLit:
			return false
		}
		return true
	})
	return ok
}

type inlineSite struct {
	callee types.Object
	call   *ast.CallExpr
	stmt   ast.Stmt
	kind   string // "expr", "assign", "return", "ifcond", "ifinit", "defer"
}

func calleeOf(c *Ctx, call *ast.CallExpr, cands map[types.Object]*inlineCandidate) types.Object {
	var id *ast.Ident
	switch f := ast.Unparen(call.Fun).(type) {
	case *ast.Ident:
		id = f
	case *ast.SelectorExpr:
		id = f.Sel
	}
	if id == nil {
		return nil
	}
	fn := c.Info.Uses[id]
	if fn == nil || cands[fn] == nil {
		return nil
	}
	return fn
}

// sameCaptures: every name the closure's body takes from around it means the same thing where the call stands (no
// declaration between the closure and the call hides it), so the body can stand there as it is.
func sameCaptures(c *Ctx, cand *inlineCandidate, call *ast.CallExpr) bool {
	inner := c.Types.Scope().Innermost(call.Pos())
	if inner == nil {
		return false
	}
	ok := true
	ast.Inspect(cand.lit.Body, func(n ast.Node) bool {
		id, isId := n.(*ast.Ident)
		if !isId {
			return true
		}
		o := c.Info.Uses[id]
		if o == nil || o.Pkg() == nil || o.Parent() == c.Types.Scope() || o.Parent() == nil {
			return true // universe, package level, fields and methods
		}
		if _, isPkg := o.(*types.PkgName); isPkg {
			return true
		}
		if o.Pos() >= cand.lit.Pos() && o.Pos() <= cand.lit.End() {
			return true // declared inside the literal
		}
		if _, at := inner.LookupParent(id.Name, call.Pos()); at != o {
			ok = false
		}
		return true
	})
	return ok
}

func findCallSite(c *Ctx, st ast.Stmt, cands map[types.Object]*inlineCandidate) *inlineSite {
	asCall := func(e ast.Expr) (*ast.CallExpr, types.Object) {
		call, ok := ast.Unparen(e).(*ast.CallExpr)
		if !ok {
			return nil, nil
		}
		fn := calleeOf(c, call, cands)
		if fn == nil {
			return nil, nil
		}
		return call, fn
	}
	switch t := st.(type) {
	case *ast.ExprStmt:
		if call, fn := asCall(t.X); fn != nil {
			return &inlineSite{fn, call, st, "expr"}
		}
	case *ast.AssignStmt:
		if len(t.Rhs) == 1 && (t.Tok == token.ASSIGN || t.Tok == token.DEFINE) {
			if call, fn := asCall(t.Rhs[0]); fn != nil {
				return &inlineSite{fn, call, st, "assign"}
			}
		}
	case *ast.ReturnStmt:
		if len(t.Results) == 1 {
			if call, fn := asCall(t.Results[0]); fn != nil {
				return &inlineSite{fn, call, st, "return"}
			}
		}
	case *ast.DeferStmt:
		// `defer h(args)`: the arguments are evaluated here, the body runs when the caller returns — a deferred
		// closure over the temporaries (only for helpers without results)
		if call, fn := asCall(t.Call); fn != nil {
			return &inlineSite{fn, call, st, "defer"}
		}
	case *ast.IfStmt:
		if t.Init == nil {
			cond := ast.Unparen(t.Cond)
			if u, ok := cond.(*ast.UnaryExpr); ok && u.Op == token.NOT {
				cond = ast.Unparen(u.X)
			}
			if call, fn := asCall(cond); fn != nil {
				return &inlineSite{fn, call, st, "ifcond"}
			}
		} else if as, ok := t.Init.(*ast.AssignStmt); ok && len(as.Rhs) == 1 && as.Tok == token.DEFINE {
			if call, fn := asCall(as.Rhs[0]); fn != nil {
				return &inlineSite{fn, call, st, "ifinit"}
			}
		}
	}
	return nil
}

// importsCover: every package name the callee's signature and body mention is imported under that name in the file
// of the caller.
func importsCover(c *Ctx, cand *inlineCandidate, callerFile *ast.File) bool {
	if cand.file == callerFile {
		return true
	}
	have := map[string]bool{}
	for _, im := range callerFile.Imports {
		path := strings.Trim(im.Path.Value, "\"")
		name := path[strings.LastIndex(path, "/")+1:]
		if im.Name != nil {
			name = im.Name.Name
		}
		have[name+"="+path] = true
	}
	ok := true
	ast.Inspect(cand.fd, func(n ast.Node) bool {
		id, isId := n.(*ast.Ident)
		if !isId {
			return true
		}
		if pn, isPkg := c.Info.Uses[id].(*types.PkgName); isPkg {
			if !have[id.Name+"="+pn.Imported().Path()] {
				ok = false
			}
		}
		return true
	})
	return ok
}

func typeExprString(c *Ctx, e ast.Expr) string {
	var buf bytes.Buffer
	format.Node(&buf, c.Fset, e)
	return buf.String()
}

func parseStmts(src string) ([]ast.Stmt, bool) {
	f, err := parser.ParseFile(token.NewFileSet(), "inl.go", "package p\nfunc _() {\n"+src+"\n}\n", 0)
	if err != nil {
		return nil, false
	}
	return f.Decls[0].(*ast.FuncDecl).Body.List, true
}

func parseExpr(src string) ast.Expr {
	e, err := parser.ParseExpr(src)
	if err != nil {
		return ast.NewIdent("_")
	}
	return e
}

// buildInline returns the statements to put in front of the call's statement and the statement that replaces it.
func buildInline(c *Ctx, cand *inlineCandidate, site *inlineSite, n int) (pre []ast.Stmt, repl ast.Stmt, ok bool) {
	sig := cand.sig
	pfx := fmt.Sprintf("_inl%d_", n)
	var src strings.Builder
	// argument temporaries (evaluated in the caller's scope, in order: receiver first)
	type pv struct{ name, typ, tmp string }
	var params []pv
	if cand.fd.Recv != nil {
		sel, isSel := ast.Unparen(site.call.Fun).(*ast.SelectorExpr)
		if !isSel {
			return nil, nil, false
		}
		rt := typeExprString(c, cand.fd.Recv.List[0].Type)
		recvExpr := typeExprString(c, sel.X)
		// a value receiver called through a pointer (or the reverse) is adjusted the way the compiler does
		if tv, has := c.Info.Types[sel.X]; has {
			_, wantPtr := sig.Recv().Type().(*types.Pointer)
			_, havePtr := tv.Type.(*types.Pointer)
			if wantPtr && !havePtr {
				recvExpr = "&(" + recvExpr + ")"
			} else if !wantPtr && havePtr {
				recvExpr = "*(" + recvExpr + ")"
			}
		}
		tmp := pfx + "recv"
		fmt.Fprintf(&src, "var %s %s = %s\n_ = %s\n", tmp, rt, recvExpr, tmp)
		params = append(params, pv{cand.fd.Recv.List[0].Names[0].Name, rt, tmp})
	}
	ai := 0
	for _, f := range cand.fd.Type.Params.List {
		ts := typeExprString(c, f.Type)
		for _, nm := range f.Names {
			if ai >= len(site.call.Args) {
				return nil, nil, false
			}
			tmp := fmt.Sprintf("%sa%d", pfx, ai)
			fmt.Fprintf(&src, "var %s %s = %s\n_ = %s\n", tmp, ts, typeExprString(c, site.call.Args[ai]), tmp)
			params = append(params, pv{nm.Name, ts, tmp})
			ai++
		}
	}
	if ai != len(site.call.Args) {
		return nil, nil, false
	}
	// result variables
	var results []string
	var named []pv
	ri := 0
	if cand.fd.Type.Results != nil {
		for _, f := range cand.fd.Type.Results.List {
			ts := typeExprString(c, f.Type)
			k := len(f.Names)
			if k == 0 {
				k = 1
			}
			for j := 0; j < k; j++ {
				rv := fmt.Sprintf("%sr%d", pfx, ri)
				fmt.Fprintf(&src, "var %s %s\n_ = %s\n", rv, ts, rv)
				results = append(results, rv)
				if len(f.Names) > 0 {
					named = append(named, pv{f.Names[j].Name, ts, rv})
				}
				ri++
			}
		}
	}
	preStmts, okP := parseStmts(src.String())
	if !okP {
		return nil, nil, false
	}
	// the block: parameters, named results, the body inside a labelled switch
	label := pfx + "L"
	var blk strings.Builder
	blk.WriteString("{\n")
	for _, p := range params {
		if p.name == "_" {
			continue
		}
		fmt.Fprintf(&blk, "var %s %s = %s\n_ = %s\n", p.name, p.typ, p.tmp, p.name)
	}
	for _, p := range named {
		if p.name == "_" {
			continue
		}
		fmt.Fprintf(&blk, "var %s %s\n_ = %s\n", p.name, p.typ, p.name)
	}
	body := strings.TrimSpace(cand.body)
	body = strings.TrimSuffix(strings.TrimPrefix(body, "{"), "}")
	fmt.Fprintf(&blk, "%s:\nswitch {\ndefault:\n%s\nbreak %s\n}\n", label, body, label)
	if len(named) > 0 {
		// falling off the end is impossible for a function with results; nothing to add
	}
	blk.WriteString("}\n")
	blockStmts, okB := parseStmts(blk.String())
	if !okB || len(blockStmts) != 1 {
		return nil, nil, false
	}
	block := blockStmts[0].(*ast.BlockStmt)
	// rewrite the returns of the body (not those of function literals inside it)
	okRet := true
	astutil.Apply(block, func(cur *astutil.Cursor) bool {
		switch t := cur.Node().(type) {
		case *ast.FuncLit:
			return false
		case *ast.ReturnStmt:
			var stmts []ast.Stmt
			switch {
			case len(t.Results) == len(results) && len(results) > 0:
				lhs := make([]ast.Expr, len(results))
				for i, rv := range results {
					lhs[i] = ast.NewIdent(rv)
				}
				stmts = append(stmts, &ast.AssignStmt{Lhs: lhs, Tok: token.ASSIGN, Rhs: t.Results})
			case len(t.Results) == 0 && len(named) == len(results) && len(results) > 0:
				lhs := make([]ast.Expr, len(results))
				rhs := make([]ast.Expr, len(results))
				for i, p := range named {
					lhs[i] = ast.NewIdent(p.tmp)
					rhs[i] = ast.NewIdent(p.name)
				}
				stmts = append(stmts, &ast.AssignStmt{Lhs: lhs, Tok: token.ASSIGN, Rhs: rhs})
			case len(t.Results) == 0 && len(results) == 0:
			case len(t.Results) == 1 && len(results) > 1:
				// return g(): a call with several results
				lhs := make([]ast.Expr, len(results))
				for i, rv := range results {
					lhs[i] = ast.NewIdent(rv)
				}
				stmts = append(stmts, &ast.AssignStmt{Lhs: lhs, Tok: token.ASSIGN, Rhs: t.Results})
			default:
				okRet = false
				return false
			}
			stmts = append(stmts, &ast.BranchStmt{Tok: token.BREAK, Label: ast.NewIdent(label)})
			cur.Replace(&ast.BlockStmt{List: stmts})
			return false
		}
		return true
	}, nil)
	if !okRet {
		return nil, nil, false
	}
	pre = append(preStmts, block)
	resExprs := func() []ast.Expr {
		out := make([]ast.Expr, len(results))
		for i, rv := range results {
			out[i] = ast.NewIdent(rv)
		}
		return out
	}
	switch site.kind {
	case "expr":
		pre, repl = preStmts, block
	case "defer":
		if len(results) != 0 {
			return nil, nil, false
		}
		pre = preStmts
		repl = &ast.DeferStmt{Call: &ast.CallExpr{Fun: &ast.FuncLit{Type: &ast.FuncType{Params: &ast.FieldList{}}, Body: block}}}
	case "assign":
		as := site.stmt.(*ast.AssignStmt)
		if len(as.Lhs) != len(results) {
			return nil, nil, false
		}
		repl = &ast.AssignStmt{Lhs: as.Lhs, Tok: as.Tok, Rhs: resExprs()}
	case "return":
		if len(results) == 0 {
			return nil, nil, false
		}
		repl = &ast.ReturnStmt{Results: resExprs()}
	case "ifcond":
		if len(results) != 1 {
			return nil, nil, false
		}
		ifs := site.stmt.(*ast.IfStmt)
		cond := ast.Expr(ast.NewIdent(results[0]))
		if u, isNot := ast.Unparen(ifs.Cond).(*ast.UnaryExpr); isNot && u.Op == token.NOT {
			cond = &ast.UnaryExpr{Op: token.NOT, X: cond}
		}
		repl = &ast.IfStmt{Cond: cond, Body: ifs.Body, Else: ifs.Else}
	case "ifinit":
		ifs := site.stmt.(*ast.IfStmt)
		as := ifs.Init.(*ast.AssignStmt)
		if len(as.Lhs) != len(results) {
			return nil, nil, false
		}
		// the definitions of the init statement stay local to the if: everything goes into one block
		inner := &ast.IfStmt{Init: &ast.AssignStmt{Lhs: as.Lhs, Tok: as.Tok, Rhs: resExprs()}, Cond: ifs.Cond, Body: ifs.Body, Else: ifs.Else}
		repl = &ast.BlockStmt{List: append(pre, inner)}
		pre = nil
	default:
		return nil, nil, false
	}
	return pre, repl, true
}
