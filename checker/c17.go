package main

import (
	"fmt"
	"go/ast"
	"go/constant"
	"go/token"
	"go/types"
	"sort"
	"strings"

	"golang.org/x/tools/go/ssa"
)

func init() { register("C17", true, false, checkC17) }

const c17Explanation = `Decided statically: (R1) NSEC3.Cover and NSEC3.Match as functions of the relative order of (hash of the name, owner hash, next hash): the SSA control-flow graph is evaluated under each of the 13 total preorders of the three operands (an abstract interpretation over a finite domain of orderings - no hash is computed): Match <=> name hash = owner hash; Cover <=> the name hash lies strictly inside the circular interval (owner, next) (normal, wrapping and empty interval); every path that can return true has passed IsSubDomain(zone part of the owner, upper-cased name) and the two-label test; (R2) HashName and ToDS lower-case the name before packing it (case independence) and feed the digest name-then-salt / owner-then-RDATA in that order; (R3) ToDS's digest-type table is {1:SHA-1, 2:SHA-256, 4:SHA-384, 5:SHA-512} with nil for anything else; (R4) dnskeyWireFmt is field-for-field DNSKEY's RDATA, packed in RFC order, and both fill sites (KeyTag, ToDS) copy every field from the same-named field of the key; (R5) the BIND private-key writer emits every field the reader consumes, under the same (case-folded) spelling, with a format version the reader accepts. NOT decided: numeric equality of key tags, digests and hashes with the RFC definitions, key generation, validity-period serial arithmetic: values / cryptography.`

func checkC17(c *Ctx, r *Report) {
	r.Explanation = c17Explanation
	r.Trusted = []string{"go/ssa translation", "ordering specification of RFC 5155 s.7.2.1/8.3 in checker/c17.go", "digest-type table from RFC 4034/4509/6605"}
	c17R1(c, r)
	rsaVerifyUnconditional(c, r, "C17.R1.rsa-verify-unconditional")
	ecdsaKeyReaderRefusals(c, r, "C17.R5.ecdsa-key-reader-refusals")
	c17R2(c, r)
	borrow(c, r, func(c *Ctx, r *Report) { intToBytesRule(c, r, "C10.R2.int-to-bytes") }, "C10.R2.int-to-bytes", "C17.R5.int-to-bytes", 1, "intToBytes left-pads a short integer to exactly the requested width", nil, "a generated ECDSA key with a coordinate that has two leading zero octets gets a 63- or 95-octet public key field: its own exported text does not read back and its signatures do not verify")
	c17R3(c, r)
	c17R4(c, r)
	c17R5(c, r)
	c17R6(c, r)
	c17Validity(c, r)
	c17HashCase(c, r)
	c17IterLoop(c, r)
	c17KeyTag(c, r)
	r.rule("C17.R1.canonical-fold", 1, "CanonicalName / asciiLower fold exactly 'A'..'Z', and the fast path that looks for the first capital skips no capital")
	foldRangeRule(c, r, "C17.R1.canonical-fold", "CanonicalName", "names containing the letter left out keep their case: ToDS digests, HashName and NSEC3 Match/Cover are no longer case independent")
	r.rule("C17.R5.ecdsa-widths", 1, "ECDSA keys are written and read with RFC 6605's coordinate widths per algorithm")
	ecdsaWidths(c, r, "C17.R5.ecdsa-widths")
	r.rule("C17.R5.alg-coverage", 2, "every algorithm Generate makes keys for can be re-read by ReadPrivateKey and has a hash")
	algorithmCoverage(c, r, "C17.R5.alg-coverage", []string{"DNSKEY.ReadPrivateKey", "AlgorithmToHash"})
	r.rule("C17.R6.keyfile-last-line", 1, "the key-file lexer refuses to flush its pending token only for a real read error, not for io.EOF")
	lexerTailGuard(c, r, "C17.R6.keyfile-last-line", "klexer.Next", "the last line of a private-key file without a final newline (the PrivateKey line of the library's own ECDSA / Ed25519 export) is dropped and ReadPrivateKey returns a zero key without an error")
	c17Unhashable(c, r, "C17.R1.unhashable")
	borrow(c, r, c10R1, "C10.R1.verify-guards", "C17.R4.verify-guards", 5, "RRSIG.Verify's pre-checks on the key: owner name ignoring case, the ZONE flag bit alone, protocol 3", func(k string) bool {
		return strings.Contains(k, "equal(") || strings.Contains(k, "Flags") || strings.Contains(k, "Protocol") || strings.Contains(k, "HasSuffix")
	}, "a valid key is refused (owner name in another case, flag bits other than ZONE set) or an invalid one accepted")
	borrow(c, r, c10R1, "C10.R1.verdict", "C17.R4.verdict", 3, "RRSIG.Verify's verdict comes from the verifier fed the key decoded from the DNSKEY it was given", nil, "signatures are checked against another key than the DNSKEY passed in (a cached key of the same name, algorithm and tag)")
	r.rule("C17.R5.fresh-hash", 1, "hashFromAlgorithm returns a hash state of its own for every call")
	freshHash(c, r, "C17.R5.fresh-hash")
	hashFoldASCII(c, r, "C17.R1.hash-fold")
	bigEndian16(c, r, "C17.R6.be16", []string{"DNSKEY.publicKeyRSA"}, "a key whose exponent length is written in the three-octet form of RFC 3110 is decoded with the wrong exponent length and refused")
	nowOnlyForZero(c, r, "C17.R7.now-only-for-zero")
	r.rule("C17.R1.name-eq", 1, "equal(), behind IsSubDomain and so the zone test of NSEC3.Match / Cover, folds exactly A-Z on both sides")
	foldRule(c, r, "C17.R1.name-eq")
	borrow(c, r, c10R2, "C10.R2.sigwire-fill", "C17.R4.signer-canonical", 2, "Sign and Verify both put the canonical (lower-cased) signer name into the signed data", nil, "a key whose signer name has a capital letter signs data that Verify, which lower-cases, does not reproduce: generated and re-read keys do not verify their own signatures")
	dsForEveryKey(c, r, "C17.R3.ds-for-every-key")
	dsNoValueRefusal(c, r, "C17.R3.ds-no-value-refusal")
	keyScratchSize(c, r, "C17.R8.key-scratch")
	wildcardBelowRoot(c, r, "C17.R4.wildcard-below-root")
	round12(c, r, "C17")
}

// c17R6: the RSA public-key decoder accepts every modulus size the generator can produce.
func c17R6(c *Ctx, r *Report) {
	r.rule("C17.R6.rsa-limits", 1, "publicKeyRSA accepts modulus lengths covering [smallest, largest] RSA size Generate produces (bits/8)")
	gen := c.decl("DNSKEY.Generate")
	fn := c.ssaFunc("DNSKEY.publicKeyRSA")
	if gen == nil || fn == nil {
		r.cerr("C17.R6.rsa-limits", "DNSKEY.publicKeyRSA", "anchors not found")
		return
	}
	r.fn("DNSKEY.Generate")
	r.fn("DNSKEY.publicKeyRSA")
	bitsP := c.paramObj(gen, 0)
	var genMax, genMin int64 = 0, 1 << 40
	// RSA clauses: those whose case list mentions an RSA* algorithm constant
	ast.Inspect(gen.Body, func(n ast.Node) bool {
		cc, ok := n.(*ast.CaseClause)
		if !ok {
			return true
		}
		isRSA := false
		for _, e := range cc.List {
			if strings.HasPrefix(types.ExprString(e), "RSA") {
				isRSA = true
			}
		}
		if !isRSA {
			return true
		}
		ast.Inspect(cc, func(n ast.Node) bool {
			be, ok := n.(*ast.BinaryExpr)
			if !ok || !c.isIdentOf(be.X, bitsP) {
				return true
			}
			k, isK := c.exprConst(be.Y)
			if !isK {
				return true
			}
			switch be.Op {
			case token.GTR:
				if k > genMax {
					genMax = k
				}
			case token.GEQ:
				if k-1 > genMax {
					genMax = k - 1
				}
			case token.LSS:
				if k < genMin {
					genMin = k
				}
			case token.LEQ:
				if k+1 < genMin {
					genMin = k + 1
				}
			}
			return true
		})
		return false
	})
	if genMax == 0 || genMin == 1<<40 {
		// the limits in a table built once: size, ok := table[k.Algorithm]; bits < size.min || bits > size.max
		if lo, hi, ok := c.rsaLimitsFromTable(gen, bitsP); ok {
			genMin, genMax = lo, hi
		}
	}
	if genMax == 0 || genMin == 1<<40 {
		r.undecided("C17.R6.rsa-limits", "DNSKEY.publicKeyRSA", c.pos(gen.Pos()), "cannot read the RSA size limits of Generate")
		return
	}
	// modlen = len(keybuf) - modoff
	isModlen := func(v ssa.Value) bool {
		b, ok := v.(*ssa.BinOp)
		if !ok || b.Op != token.SUB {
			return false
		}
		call, ok := b.X.(*ssa.Call)
		return ok && calleeNameSSA(&call.Call) == "builtin.len"
	}
	var problems []string
	n := 0
	for _, rp := range returnPoints(fn, 0) {
		if isNilConst(rp.Results[0]) {
			continue
		}
		n++
		lo, hi, hasLo, hasHi := intervalAt(fn, rp.Block, isModlen)
		if hasHi && hi < genMax/8 {
			problems = append(problems, fmt.Sprintf("%s: decoder accepts a modulus of at most %d octets, Generate produces up to %d bits = %d octets", c.pos(rp.Pos), hi, genMax, genMax/8))
		}
		if hasLo && lo > genMin/8 {
			problems = append(problems, fmt.Sprintf("%s: decoder needs a modulus of at least %d octets, Generate produces down to %d bits = %d octets", c.pos(rp.Pos), lo, genMin, genMin/8))
		}
	}
	if n == 0 {
		problems = append(problems, "no successful return found")
	}
	r.check(len(problems) == 0, "C17.R6.rsa-limits", "DNSKEY.publicKeyRSA", c.pos(fn.Pos()), fmt.Sprintf("covers %d..%d bits", genMin, genMax), "%s", strings.Join(problems, "; "))
}

// ---- E6: ordering abstract interpretation ----

type ordEval struct {
	fn    *ssa.Function
	role  map[ssa.Value]int // value -> operand index
	rank  []int
	paths []ordPath
}

type ordPath struct {
	result   int // 0 false, 1 true, -1 unknown
	compared bool
	blocks   []*ssa.BasicBlock
	pos      token.Pos
}

func (e *ordEval) evalBool(v ssa.Value, path []*ssa.BasicBlock) (val bool, known bool, usedCmp bool) {
	switch t := v.(type) {
	case *ssa.Const:
		b, ok := constBool(t)
		return b, ok, false
	case *ssa.UnOp:
		if t.Op == token.NOT {
			b, k, u := e.evalBool(t.X, path)
			return !b, k, u
		}
	case *ssa.BinOp:
		// a hash compared with "": the three values ranked here are hashes, i.e. non-empty (the unhashable-name exit
		// is a guard, decided by C17.R1.unhashable)
		if isEmptyStringConst(t.Y) || isEmptyStringConst(t.X) {
			other := t.X
			if isEmptyStringConst(t.X) {
				other = t.Y
			}
			if _, isRole := e.role[other]; isRole {
				switch t.Op {
				case token.EQL:
					return false, true, false
				case token.NEQ:
					return true, true, false
				}
			}
		}
		ri, iok := e.role[t.X]
		rj, jok := e.role[t.Y]
		if iok && jok {
			a, b := e.rank[ri], e.rank[rj]
			switch t.Op {
			case token.EQL:
				return a == b, true, true
			case token.NEQ:
				return a != b, true, true
			case token.LSS:
				return a < b, true, true
			case token.LEQ:
				return a <= b, true, true
			case token.GTR:
				return a > b, true, true
			case token.GEQ:
				return a >= b, true, true
			}
		}
	case *ssa.Phi:
		// value from the predecessor on this path
		blk := t.Block()
		for i := len(path) - 1; i > 0; i-- {
			if path[i] == blk {
				pred := path[i-1]
				for j, p := range blk.Preds {
					if p == pred {
						return e.evalBool(t.Edges[j], path[:i])
					}
				}
			}
		}
	}
	return false, false, false
}

func (e *ordEval) run(b *ssa.BasicBlock, path []*ssa.BasicBlock, compared bool, depth int) {
	if depth > 200 {
		e.paths = append(e.paths, ordPath{result: -1, compared: compared, blocks: path})
		return
	}
	path = append(path, b)
	last := b.Instrs[len(b.Instrs)-1]
	switch t := last.(type) {
	case *ssa.Return:
		val, known, used := e.evalBool(t.Results[0], path)
		p := ordPath{result: -1, compared: compared || used, blocks: append([]*ssa.BasicBlock(nil), path...), pos: t.Pos()}
		if known {
			if val {
				p.result = 1
			} else {
				p.result = 0
			}
		}
		e.paths = append(e.paths, p)
	case *ssa.If:
		val, known, used := e.evalBool(t.Cond, path)
		if known {
			idx := 1
			if val {
				idx = 0
			}
			e.run(b.Succs[idx], path, compared || used, depth+1)
		} else {
			e.run(b.Succs[0], path, compared, depth+1)
			e.run(b.Succs[1], path, compared, depth+1)
		}
	case *ssa.Jump:
		e.run(b.Succs[0], path, compared, depth+1)
	default:
		// panic etc.
	}
}

// preorders enumerates the 13 weak orderings of three operands as rank vectors.
func preorders3() [][]int {
	seen := map[string]bool{}
	var out [][]int
	for a := 0; a < 3; a++ {
		for b := 0; b < 3; b++ {
			for cc := 0; cc < 3; cc++ {
				v := []int{a, b, cc}
				// normalise ranks to dense
				vals := map[int]bool{a: true, b: true, cc: true}
				var ks []int
				for k := range vals {
					ks = append(ks, k)
				}
				sort.Ints(ks)
				m := map[int]int{}
				for i, k := range ks {
					m[k] = i
				}
				n := []int{m[v[0]], m[v[1]], m[v[2]]}
				key := fmt.Sprint(n)
				if !seen[key] {
					seen[key] = true
					out = append(out, n)
				}
			}
		}
	}
	return out
}

func c17R1(c *Ctx, r *Report) {
	r.rule("C17.R1.cover-order", 13, "NSEC3.Cover returns true exactly for the orderings in which the name hash lies strictly inside the circular interval (owner, next)")
	r.rule("C17.R1.match-order", 13, "NSEC3.Match returns true exactly when the name hash equals the owner hash")
	r.rule("C17.R1.zone-guard", 2, "every true result is preceded by IsSubDomain(owner zone, name), on names that were not mapped rune-wise, and by the two-label test")
	for _, spec := range []struct {
		fn, rule string
		want     func(n, o, x int) bool
	}{
		{"NSEC3.Cover", "C17.R1.cover-order", func(n, o, x int) bool {
			return (o < x && o < n && n < x) || (o > x && (n > o || n < x)) || (o == x && n != o)
		}},
		{"NSEC3.Match", "C17.R1.match-order", func(n, o, x int) bool { return n == o }},
	} {
		fn := c.ssaFunc(spec.fn)
		if fn == nil {
			r.cerr(spec.rule, spec.fn, "function not found")
			continue
		}
		r.fn(spec.fn)
		// identify operands
		role := map[ssa.Value]int{}
		var nameHash, ownerHash, nextHash, ownerZone ssa.Value
		allInstrs(fn, func(in ssa.Instruction) {
			switch t := in.(type) {
			case *ssa.Call:
				if calleeNameSSA(&t.Call) == "HashName" {
					nameHash = t
				}
			case *ssa.Slice:
				if _, isStr := t.X.Type().Underlying().(*types.Basic); isStr && anyIn(sliceOf(t.X), readsField("RR_Header", "Name")) {
					if t.Low == nil && t.High != nil {
						ownerHash = t
					}
					if t.Low != nil && t.High == nil {
						ownerZone = t
					}
				}
			case *ssa.UnOp:
				if t.Op == token.MUL && readsField("NSEC3", "NextDomain")(t.X) {
					nextHash = t
					role[t] = 2
				}
			}
		})
		// the next hash may be case-normalised first: strings.ToUpper(rr.NextDomain) plays the same role
		if nextHash != nil {
			for _, ref := range *nextHash.Referrers() {
				if call, ok := ref.(*ssa.Call); ok && isCaseFold(&call.Call) && call.Call.Args[0] == nextHash {
					role[call] = 2
					nextHash = call
				}
			}
		}
		// likewise the owner hash: a case-normalised copy of the first label
		if ownerHash != nil {
			for _, ref := range *ownerHash.Referrers() {
				if call, ok := ref.(*ssa.Call); ok && isCaseFold(&call.Call) && call.Call.Args[0] == ownerHash {
					ownerHash = call
				}
			}
		}
		if nameHash == nil || ownerHash == nil || (nextHash == nil && spec.fn == "NSEC3.Cover") {
			r.undecided(spec.rule, spec.fn, c.pos(fn.Pos()), "cannot identify the hash operands (name=%v owner=%v next=%v)", nameHash != nil, ownerHash != nil, nextHash != nil)
			continue
		}
		role[nameHash] = 0
		role[ownerHash] = 1
		// the name hash must be of the method's argument under the record's own parameters
		if call := nameHash.(*ssa.Call); len(call.Call.Args) == 4 {
			okArgs := call.Call.Args[0] == fn.Params[1] &&
				anyIn(sliceOf(call.Call.Args[1]), readsField("NSEC3", "Hash")) &&
				anyIn(sliceOf(call.Call.Args[2]), readsField("NSEC3", "Iterations")) &&
				anyIn(sliceOf(call.Call.Args[3]), readsField("NSEC3", "Salt"))
			if !okArgs {
				r.fail(spec.rule, spec.fn+":hash-args", c.pos(call.Pos()), "the name is not hashed with the record's own Hash, Iterations and Salt")
			}
		}
		// any string comparison with an operand outside the three roles makes the analysis undecided
		foreign := false
		allInstrs(fn, func(in ssa.Instruction) {
			if b, ok := in.(*ssa.BinOp); ok {
				if bt, ok := b.X.Type().Underlying().(*types.Basic); ok && bt.Info()&types.IsString != 0 {
					_, a := role[b.X]
					_, bb := role[b.Y]
					if (a && isEmptyStringConst(b.Y)) || (bb && isEmptyStringConst(b.X)) {
						return
					}
					if !a || !bb {
						foreign = true
					}
				}
			}
		})
		if foreign {
			r.undecided(spec.rule, spec.fn, c.pos(fn.Pos()), "a string comparison involves an operand other than name hash, owner hash, next hash")
			continue
		}
		names := []string{"name", "owner", "next"}
		for _, rk := range preorders3() {
			e := &ordEval{fn: fn, role: role, rank: rk}
			e.run(fn.Blocks[0], nil, false, 0)
			want := spec.want(rk[0], rk[1], rk[2])
			construct := fmt.Sprintf("%s[%s]", spec.fn, describeOrder(names, rk))
			var problems []string
			decided := 0
			for _, p := range e.paths {
				if !p.compared && p.result == 0 {
					continue // guard exit (outside zone / malformed owner)
				}
				if p.result == -1 {
					problems = append(problems, fmt.Sprintf("%s: result not determined by the ordering", c.pos(p.pos)))
					continue
				}
				decided++
				if (p.result == 1) != want {
					problems = append(problems, fmt.Sprintf("%s: returns %v, RFC 5155 requires %v", c.pos(p.pos), p.result == 1, want))
				}
			}
			if decided == 0 && len(problems) == 0 {
				problems = append(problems, "no path decides this ordering")
			}
			if len(problems) == 0 {
				r.ok(spec.rule, construct, c.pos(fn.Pos()), fmt.Sprintf("returns %v", want))
			} else if len(problems) > 0 && strings.Contains(problems[0], "not determined") {
				r.undecided(spec.rule, construct, c.pos(fn.Pos()), "%s", strings.Join(problems, "; "))
			} else {
				r.fail(spec.rule, construct, c.pos(fn.Pos()), "%s", strings.Join(problems, "; "))
			}
		}
		// zone guard
		var problems []string
		gs := []Guard{
			{Name: "IsSubDomain(ownerZone, name) on the names as octets (no rune-wise case mapping)", Op: "call", A: func(v ssa.Value) bool {
				call, ok := v.(*ssa.Call)
				if !ok || calleeNameSSA(&call.Call) != "IsSubDomain" || len(call.Call.Args) != 2 {
					return false
				}
				runeWise := callsFunc("strings.ToUpper", "strings.ToLower", "strings.Map", "strings.Title", "strings.ToTitle")
				if anyIn(sliceOf(call.Call.Args[0]), runeWise) || anyIn(sliceOf(call.Call.Args[1]), runeWise) {
					// names are strings of octets: a rune-wise mapping turns invalid UTF-8 into U+FFFD and folds
					// non-ASCII letters, so another zone's names pass the membership test
					return false
				}
				return call.Call.Args[0] == ownerZone && anyIn(sliceOf(call.Call.Args[1]), func(x ssa.Value) bool { return x == fn.Params[1] })
			}, Holds: true},
			{Name: "len(Split(owner)) >= 2", Op: "lt", A: callsFunc("Split"), B: isConstInt(2), Holds: false},
		}
		for _, rp := range returnPoints(fn, 0) {
			if b, ok := constBool(rp.Results[0]); ok && !b {
				continue
			}
			if miss := guardsMissing(fn, rp.Block, gs); len(miss) > 0 {
				problems = append(problems, fmt.Sprintf("%s: a possibly-true result is not guarded by %s", c.pos(rp.Pos), strings.Join(miss, ", ")))
			}
		}
		r.check(len(problems) == 0, "C17.R1.zone-guard", spec.fn, c.pos(fn.Pos()), "guarded", "%s", strings.Join(problems, "; "))
	}
}

func describeOrder(names []string, rk []int) string {
	idx := []int{0, 1, 2}
	sort.SliceStable(idx, func(i, j int) bool { return rk[idx[i]] < rk[idx[j]] })
	s := names[idx[0]]
	for i := 1; i < 3; i++ {
		if rk[idx[i]] == rk[idx[i-1]] {
			s += "=" + names[idx[i]]
		} else {
			s += "<" + names[idx[i]]
		}
	}
	return s
}

// ---- R2: case independence and digest input order ----

// bufferClass classifies a []byte value by the call that filled its backing buffer.
var bufferClassDepth int

func bufferClass(fn *ssa.Function, v ssa.Value) string {
	bufferClassDepth++
	defer func() { bufferClassDepth-- }()
	if bufferClassDepth > 12 {
		return "?"
	}
	// find the root allocation/make of v through Slice
	root := v
	for {
		if sl, ok := root.(*ssa.Slice); ok {
			root = sl.X
			continue
		}
		break
	}
	if ex, ok := root.(*ssa.Extract); ok {
		root = ex.Tuple
	}
	if call, ok := root.(*ssa.Call); ok {
		n := calleeNameSSA(&call.Call)
		if strings.HasSuffix(n, ".Sum") {
			return "digest"
		}
		// a helper of the package that returns the buffer it had one of the wire packers fill
		if g := call.Call.StaticCallee(); g != nil && g.Pkg == fn.Pkg && len(g.Blocks) > 0 {
			classes := map[string]bool{}
			for _, b := range g.Blocks {
				if ret, isRet := b.Instrs[len(b.Instrs)-1].(*ssa.Return); isRet && len(ret.Results) > 0 && !isNilConst(ret.Results[0]) {
					if _, isSl := ret.Results[0].Type().Underlying().(*types.Slice); isSl {
						classes[bufferClass(g, ret.Results[0])] = true
					}
				}
			}
			if len(classes) == 1 {
				for k := range classes {
					switch k {
					case "name", "salt", "keywire", "sigwire", "tsigwire", "macwire", "timerwire":
						return k
					}
				}
			}
		}
		return "call:" + n
	}
	if phi, ok := root.(*ssa.Phi); ok {
		cls := map[string]bool{}
		for _, e := range phi.Edges {
			if isNilConst(e) || e == ssa.Value(phi) {
				continue // the zero value of a result variable on the way to an error return
			}
			cls[bufferClass(fn, e)] = true
		}
		if len(cls) == 1 {
			for k := range cls {
				return k
			}
		}
		return "mixed"
	}
	class := "?"
	allInstrs(fn, func(in ssa.Instruction) {
		call, ok := in.(*ssa.Call)
		if !ok {
			return
		}
		n := calleeNameSSA(&call.Call)
		for i, a := range call.Call.Args {
			ar := a
			for {
				if sl, ok := ar.(*ssa.Slice); ok {
					ar = sl.X
					continue
				}
				break
			}
			if ar == root {
				switch {
				case n == "PackDomainName" && i == 1:
					class = "name"
				case n == "packStringHex" && i == 1:
					class = "salt"
				case n == "packKeyWire" && i == 1:
					class = "keywire"
				case n == "packSigWire" && i == 1:
					class = "sigwire"
				case n == "packTsigWire" && i == 1:
					class = "tsigwire"
				case n == "packMacWire" && i == 1:
					class = "macwire"
				case n == "packTimerWire" && i == 1:
					class = "timerwire"
				}
			}
		}
	})
	return class
}

func c17R2(c *Ctx, r *Report) {
	r.rule("C17.R2.lowercase", 2, "HashName and ToDS lower-case the name before packing it")
	r.rule("C17.R2.digest-order", 2, "digest input order: name,salt then (digest,salt)* in HashName; owner,RDATA in ToDS")
	for _, spec := range []struct {
		fn    string
		src   vpred
		lower []string
		order [][]string
	}{
		{"HashName", isParamNamed("label"), []string{"asciiLower", "CanonicalName"}, [][]string{{"name", "salt"}, {"digest", "salt"}}},
		{"DNSKEY.ToDS", readsField("RR_Header", "Name"), []string{"CanonicalName", "asciiLower"}, [][]string{{"name", "keywire"}}},
	} {
		fn := c.ssaFunc(spec.fn)
		if fn == nil {
			r.cerr("C17.R2.lowercase", spec.fn, "function not found")
			continue
		}
		r.fn(spec.fn)
		packs := callsIn(fn, "PackDomainName")
		if len(packs) != 1 {
			r.fail("C17.R2.lowercase", spec.fn, c.pos(fn.Pos()), "%d PackDomainName calls", len(packs))
		} else {
			arg := packs[0].Common().Args[0]
			call, ok := arg.(*ssa.Call)
			good := false
			runeWise := ""
			if ok {
				n := calleeNameSSA(&call.Call)
				for _, l := range spec.lower {
					if n == l && anyIn(sliceOf(call.Call.Args[0]), spec.src) {
						good = true
					}
				}
				if n == "strings.ToLower" || n == "strings.ToUpper" || n == "strings.Map" {
					runeWise = n
				}
			}
			if runeWise != "" {
				r.fail("C17.R2.lowercase", spec.fn, c.pos(packs[0].Pos()), "the name is case-folded with %s, which works on runes: an octet above 0x7f that is not valid UTF-8 is replaced by U+FFFD and non-ASCII letters are lower-cased too, so the digest is that of another name (RFC 4343 folds A-Z only, octet by octet)", runeWise)
			} else {
				r.check(good, "C17.R2.lowercase", spec.fn, c.pos(packs[0].Pos()), "lower-cased (octet-wise) before packing", "the name packed for hashing is %v, not the lower-cased input: the result would depend on letter case", arg)
			}
		}
		// Write sequences per block
		var seqs [][]string
		for _, b := range fn.Blocks {
			var seq []string
			for _, in := range b.Instrs {
				call, ok := in.(*ssa.Call)
				if !ok || !call.Call.IsInvoke() || call.Call.Method.Name() != "Write" {
					continue
				}
				seq = append(seq, bufferClass(fn, call.Call.Args[0]))
			}
			if len(seq) > 0 {
				seqs = append(seqs, seq)
			}
		}
		got := fmt.Sprint(seqs)
		want := fmt.Sprint(spec.order)
		r.check(got == want, "C17.R2.digest-order", spec.fn, c.pos(fn.Pos()), got, "digest is fed %s, the RFC order is %s", got, want)
	}
}

// ---- R3 ----

func c17R3(c *Ctx, r *Report) {
	r.rule("C17.R3.digest-table", 5, "ToDS digest type -> hash: 1 SHA-1, 2 SHA-256, 4 SHA-384, 5 SHA-512 (library extension), otherwise nil")
	fd := c.decl("DNSKEY.ToDS")
	if fd == nil {
		r.cerr("C17.R3.digest-table", "DNSKEY.ToDS", "function not found")
		return
	}
	want := map[int64]string{1: "crypto.SHA1", 2: "crypto.SHA256", 4: "crypto.SHA384", 5: "crypto.SHA512"}
	var sw *ast.SwitchStmt
	hP := c.paramObj(fd, 0)
	ast.Inspect(fd.Body, func(n ast.Node) bool {
		if s, ok := n.(*ast.SwitchStmt); ok && s.Tag != nil && c.isIdentOf(s.Tag, hP) {
			sw = s
		}
		return true
	})
	if sw == nil {
		// a table lookup instead of a switch: presence must be tested (comma-ok) or unsupported types reach hash 0
		if fn := c.ssaFunc("DNSKEY.ToDS"); fn != nil {
			unchecked := ""
			allInstrs(fn, func(in ssa.Instruction) {
				lk, ok := in.(*ssa.Lookup)
				if !ok {
					return
				}
				if _, isMap := lk.X.Type().Underlying().(*types.Map); isMap && !lk.CommaOk {
					unchecked = c.pos(lk.Pos())
				}
			})
			if unchecked != "" {
				r.fail("C17.R3.digest-table", "DNSKEY.ToDS", unchecked, "the digest type is looked up in a table without testing that it is there: an unsupported digest type (0, 3, 6 ...) yields hash 0 and ToDS panics (crypto: requested hash function #0 is unavailable) instead of returning nil")
				return
			}
		}
		r.undecided("C17.R3.digest-table", "DNSKEY.ToDS", c.pos(fd.Pos()), "no switch over the digest type parameter")
		return
	}
	seen := map[int64]bool{}
	hasDefault := false
	for _, cl := range sw.Body.List {
		cc := cl.(*ast.CaseClause)
		if cc.List == nil {
			hasDefault = true
			okNil := false
			for _, s := range cc.Body {
				if ret, ok := s.(*ast.ReturnStmt); ok && len(ret.Results) == 1 {
					if tv, ok := c.Info.Types[ret.Results[0]]; ok && tv.IsNil() {
						okNil = true
					}
				}
			}
			r.check(okNil, "C17.R3.digest-table", "ToDS:default", c.pos(cc.Pos()), "nil", "unsupported digest types must yield nil")
			continue
		}
		var assigned string
		for _, s := range cc.Body {
			if as, ok := s.(*ast.AssignStmt); ok && len(as.Rhs) == 1 {
				assigned = types.ExprString(as.Rhs[0])
			}
		}
		for _, e := range cc.List {
			k, ok := c.exprConst(e)
			if !ok {
				continue
			}
			seen[k] = true
			w, known := want[k]
			construct := fmt.Sprintf("ToDS:digest-type-%d", k)
			if !known {
				r.fail("C17.R3.digest-table", construct, c.pos(e.Pos()), "digest type %d has no RFC-assigned hash in the table on file", k)
				continue
			}
			r.check(assigned == w, "C17.R3.digest-table", construct, c.pos(e.Pos()), w, "digest type %d uses %s, the RFC assigns %s", k, assigned, w)
		}
	}
	for k, w := range want {
		if !seen[k] && k != 5 {
			r.fail("C17.R3.digest-table", fmt.Sprintf("ToDS:digest-type-%d", k), c.pos(sw.Pos()), "digest type %d (%s) is not supported", k, w)
		}
	}
	if !hasDefault {
		r.fail("C17.R3.digest-table", "ToDS:default", c.pos(sw.Pos()), "no default branch returning nil")
	}
	// constants
	for name, v := range map[string]int64{"SHA1": 1, "SHA256": 2, "GOST94": 3, "SHA384": 4, "SHA512": 5} {
		if got, ok := c.constInt(name); ok && got != v {
			r.fail("C17.R3.digest-table", "const:"+name, "", "%s = %d, IANA assigns %d", name, got, v)
		}
	}
}

// ---- R4: side struct ----

func c17R4(c *Ctx, r *Report) {
	r.rule("C17.R4.keywire-struct", 1, "dnskeyWireFmt equals DNSKEY's RDATA fields and is packed in order")
	r.rule("C17.R4.keywire-fill", 2, "KeyTag and ToDS fill every dnskeyWireFmt field from the same-named key field")
	c.checkSideStruct(r, "C17.R4.keywire-struct", "dnskeyWireFmt", "DNSKEY", "packKeyWire")
	for _, fn := range []string{"DNSKEY.KeyTag", "DNSKEY.ToDS"} {
		c.checkSideFill(r, "C17.R4.keywire-fill", fn, "dnskeyWireFmt", "DNSKEY", nil)
	}
}

// checkSideStruct: side struct fields == prefix of the RR's wire fields (name, type, tag) and packer packs them in order.
func (c *Ctx) checkSideStruct(r *Report, rule, side, rrName, packer string) {
	st := c.structOf(side)
	if st == nil {
		r.cerr(rule, side, "struct not found")
		return
	}
	var fields []wireField
	for i := 0; i < st.NumFields(); i++ {
		f := st.Field(i)
		fields = append(fields, wireField{Name: f.Name(), Var: f, Type: f.Type(), Tag: dnsTag(st.Tag(i)), Index: i})
	}
	var problems []string
	kinds, wf, err := wireKinds(fields)
	if err != nil {
		r.fail(rule, side, c.pos(c.lookup(side).Pos()), "%v", err)
		return
	}
	if want, ok := rfcLayout[side]; ok && strings.Join(kinds, " ") != want {
		problems = append(problems, fmt.Sprintf("layout [%s], the RFC layout is [%s]", strings.Join(kinds, " "), want))
	}
	if rrName != "" {
		for _, t := range c.rrTypes() {
			if t.Name != rrName {
				continue
			}
			for i, f := range fields {
				if i >= len(t.Fields) || t.Fields[i].Name != f.Name || !types.Identical(t.Fields[i].Type, f.Type) || t.Fields[i].Tag != f.Tag {
					problems = append(problems, fmt.Sprintf("field #%d %s differs from %s's field", i+1, f.Name, rrName))
				}
			}
		}
	}
	// packer: func(sw *side, msg []byte) (int, error): calls in order
	fd := c.decl(packer)
	if fd == nil {
		r.cerr(rule, packer, "function not found")
		return
	}
	r.fn(packer)
	root := c.paramObj(fd, 0)
	msgP := c.paramObj(fd, 1)
	var calls []string
	var callFields []string
	ast.Inspect(fd.Body, func(n ast.Node) bool {
		call, ok := n.(*ast.CallExpr)
		if !ok {
			return true
		}
		name := c.calleeName(call)
		if name == "PackDomainName" {
			name = "packDomainName"
		}
		if !allPackHelpers[name] {
			return true
		}
		calls = append(calls, name)
		p, ok := c.fieldPath(call.Args[0], root)
		if !ok {
			p = "?"
		}
		callFields = append(callFields, p)
		if len(call.Args) < 2 || !c.isIdentOf(call.Args[1], msgP) {
			problems = append(problems, fmt.Sprintf("%s: does not pack into the msg parameter", c.pos(call.Pos())))
		}
		if name == "packDomainName" {
			last := call.Args[len(call.Args)-1]
			if tv, ok := c.Info.Types[last]; !ok || tv.Value == nil || tv.Value.String() != "false" {
				problems = append(problems, fmt.Sprintf("%s: name in signed data must be packed uncompressed", c.pos(call.Pos())))
			}
		}
		return true
	})
	if len(calls) != len(kinds) {
		problems = append(problems, fmt.Sprintf("%d pack calls for %d fields", len(calls), len(kinds)))
	} else {
		for i, k := range kinds {
			if helperTable[baseKind(k)].pack != calls[i] || callFields[i] != wf[i].Name {
				problems = append(problems, fmt.Sprintf("field #%d %s (%s) is packed by %s(%s)", i+1, wf[i].Name, k, calls[i], callFields[i]))
			}
		}
	}
	r.check(len(problems) == 0, rule, side, c.pos(fd.Pos()), strings.Join(kinds, " "), "%s", strings.Join(problems, "; "))
}

// checkSideFill: inside fnName every field of the side struct allocated there is assigned from the same-named
// field of a value of type srcType (or through an accepted transformation listed in xform: field -> callee).
func (c *Ctx) checkSideFill(r *Report, rule, fnName, side, srcType string, xform map[string][]string) {
	fn := c.ssaFunc(fnName)
	if fn == nil {
		r.cerr(rule, fnName, "function not found")
		return
	}
	r.fn(fnName)
	// the filling may have been moved into a helper the function calls
	if g := calleeWith(fn, func(f *ssa.Function) bool {
		found := false
		allInstrs(f, func(in ssa.Instruction) {
			if sto, ok := in.(*ssa.Store); ok {
				if fa, ok := sto.Addr.(*ssa.FieldAddr); ok {
					if n := derefNamed(fa.X.Type()); n != nil && n.Obj().Name() == side {
						found = true
					}
				}
			}
		})
		return found
	}); g != nil && g != fn {
		fn = g
		r.fn(fnDisplay(g))
	}
	st := c.structOf(side)
	assigned := map[string]string{}
	allInstrs(fn, func(in ssa.Instruction) {
		sto, ok := in.(*ssa.Store)
		if !ok {
			return
		}
		fa, ok := sto.Addr.(*ssa.FieldAddr)
		if !ok {
			return
		}
		n := derefNamed(fa.X.Type())
		if n == nil || n.Obj().Name() != side {
			return
		}
		fname := st.Field(fa.Field).Name()
		// value: load of src.F, possibly through accepted calls
		v := sto.Val
		desc := "?"
		for depth := 0; depth < 4; depth++ {
			if call, ok := v.(*ssa.Call); ok {
				cn := calleeNameSSA(&call.Call)
				okX := false
				for _, x := range xform[fname] {
					if x == cn {
						okX = true
					}
				}
				if !okX || len(call.Call.Args) == 0 {
					desc = "call " + cn
					break
				}
				v = call.Call.Args[len(call.Call.Args)-1]
				if len(call.Call.Args) >= 1 {
					v = call.Call.Args[0]
				}
				continue
			}
			if u, ok := v.(*ssa.UnOp); ok && u.Op == token.MUL {
				if fa2, ok := u.X.(*ssa.FieldAddr); ok {
					n2 := derefNamed(fa2.X.Type())
					if n2 != nil {
						s2 := n2.Underlying().(*types.Struct)
						desc = n2.Obj().Name() + "." + s2.Field(fa2.Field).Name()
					}
				}
			}
			if cst, ok := v.(*ssa.Const); ok {
				desc = "const " + cst.Value.String()
			}
			break
		}
		assigned[fname] = desc
	})
	var problems []string
	for i := 0; i < st.NumFields(); i++ {
		f := st.Field(i).Name()
		got, ok := assigned[f]
		if !ok {
			problems = append(problems, fmt.Sprintf("field %s is never filled", f))
			continue
		}
		wantSuffix := "." + f
		if strings.HasPrefix(got, "const ") {
			if xf, ok := xform[f]; ok {
				accepted := false
				for _, x := range xf {
					if x == got {
						accepted = true
					}
				}
				if accepted {
					continue
				}
			}
		}
		if !strings.HasSuffix(got, wantSuffix) {
			problems = append(problems, fmt.Sprintf("field %s is filled from %s", f, got))
		}
	}
	r.check(len(problems) == 0, rule, fnName, c.pos(fn.Pos()), fmt.Sprintf("%d fields", st.NumFields()), "%s", strings.Join(problems, "; "))
}

// ---- R5: private key writer/reader tables ----

func c17R5(c *Ctx, r *Report) {
	r.rule("C17.R5.privkey-fields", 7, "every field name the BIND private-key reader consumes is emitted by the writer for that key kind")
	fd := c.decl("DNSKEY.PrivateKeyString")
	if fd == nil {
		r.cerr("C17.R5.privkey-fields", "DNSKEY.PrivateKeyString", "function not found")
		return
	}
	r.fn("DNSKEY.PrivateKeyString")
	collect := func(n ast.Node, into map[string]bool) {
		ast.Inspect(n, func(n ast.Node) bool {
			if bl, ok := n.(*ast.BasicLit); ok && bl.Kind == token.STRING {
				if s, ok := c.exprConstString(bl); ok {
					for _, line := range strings.Split(s, "\n") {
						if i := strings.Index(line, ": "); i > 0 {
							into[strings.ToLower(strings.TrimSpace(line[:i]))] = true
						}
					}
				}
			}
			return true
		})
	}
	common := map[string]bool{}
	if o, ok := c.lookup("format").(*types.Const); ok {
		s := strings.Trim(o.Val().ExactString(), "\"")
		for _, line := range strings.Split(strings.ReplaceAll(s, "\\n", "\n"), "\n") {
			if i := strings.Index(line, ": "); i > 0 {
				common[strings.ToLower(strings.TrimSpace(line[:i]))] = true
			}
		}
	}
	// per key kind: the clauses of the writer's type switch
	perKind := map[string]map[string]bool{}
	ast.Inspect(fd.Body, func(n ast.Node) bool {
		ts, ok := n.(*ast.TypeSwitchStmt)
		if !ok {
			return true
		}
		for _, cl := range ts.Body.List {
			cc := cl.(*ast.CaseClause)
			for _, e := range cc.List {
				tstr := strings.ToLower(types.ExprString(e))
				for _, kind := range []string{"rsa", "ecdsa", "ed25519"} {
					if strings.Contains(tstr, kind+".") {
						m := map[string]bool{}
						collect(cc, m)
						perKind[kind] = m
					}
				}
			}
		}
		return false
	})
	for _, rd := range []struct{ fn, kind string }{{"readPrivateKeyRSA", "rsa"}, {"readPrivateKeyECDSA", "ecdsa"}, {"readPrivateKeyED25519", "ed25519"}} {
		rfd := c.decl(rd.fn)
		if rfd == nil {
			r.cerr("C17.R5.privkey-fields", rd.fn, "function not found")
			continue
		}
		r.fn(rd.fn)
		emitted := perKind[rd.kind]
		if emitted == nil {
			r.fail("C17.R5.privkey-fields", rd.fn, c.pos(fd.Pos()), "PrivateKeyString has no branch for %s keys", rd.kind)
			continue
		}
		ast.Inspect(rfd.Body, func(n ast.Node) bool {
			cc, ok := n.(*ast.CaseClause)
			if !ok || len(cc.Body) == 0 {
				return true
			}
			// only innermost clauses that actually set key material
			for _, e := range cc.List {
				if s, ok := c.exprConstString(e); ok {
					r.check(emitted[s], "C17.R5.privkey-fields", rd.fn+":"+s, c.pos(e.Pos()), "emitted by PrivateKeyString", "reader %s needs field %q, which PrivateKeyString does not emit for %s keys (emitted: %v)", rd.fn, s, rd.kind, keysOf(emitted))
				}
			}
			return true
		})
	}
	// the two fields ReadPrivateKey itself requires
	if rfd := c.decl("DNSKEY.ReadPrivateKey"); rfd != nil {
		r.fn("DNSKEY.ReadPrivateKey")
		ast.Inspect(rfd.Body, func(n ast.Node) bool {
			ix, ok := n.(*ast.IndexExpr)
			if !ok {
				return true
			}
			if s, ok := c.exprConstString(ix.Index); ok {
				r.check(common[s] || allHave(perKind, s), "C17.R5.privkey-fields", "ReadPrivateKey:"+s, c.pos(ix.Pos()), "emitted", "ReadPrivateKey requires %q, which the writer does not emit for every key kind", s)
			}
			return true
		})
	}
}

func allHave(m map[string]map[string]bool, k string) bool {
	if len(m) == 0 {
		return false
	}
	for _, s := range m {
		if !s[k] {
			return false
		}
	}
	return true
}

func keysOf(m map[string]bool) []string {
	var out []string
	for k := range m {
		out = append(out, k)
	}
	sort.Strings(out)
	return out
}

func isEmptyStringConst(v ssa.Value) bool {
	k, ok := v.(*ssa.Const)
	return ok && k.Value != nil && k.Value.Kind() == constant.String && constant.StringVal(k.Value) == ""
}

// c17Unhashable: HashName returns "" for an unknown hash algorithm, a malformed salt or a name that cannot be packed.
// "" sorts before every hash, so Cover and Match have to leave before they compare it: every ordering or equality
// comparison of the name hash with another hash is behind `nameHash != ""`.
func c17Unhashable(c *Ctx, r *Report, rule string) {
	r.rule(rule, 2, "NSEC3.Cover / Match compare the name hash with the owner and next hash only after it was tested non-empty")
	for _, name := range []string{"NSEC3.Cover", "NSEC3.Match"} {
		fn := c.ssaFunc(name)
		if fn == nil {
			r.cerr(rule, name, "function not found")
			continue
		}
		r.fn(name)
		var h *ssa.Call
		for _, ci := range callsIn(fn, "HashName") {
			if call, ok := ci.(*ssa.Call); ok {
				h = call
			}
		}
		if h == nil {
			r.undecided(rule, name, c.pos(fn.Pos()), "no call of HashName found")
			continue
		}
		var bad []string
		for _, ref := range *h.Referrers() {
			bin, ok := ref.(*ssa.BinOp)
			if !ok || isEmptyStringConst(bin.X) || isEmptyStringConst(bin.Y) {
				continue
			}
			guarded := false
			for _, f := range factsAt(fn, bin.Block()) {
				b2, ok := f.Atom.(*ssa.BinOp)
				if !ok {
					continue
				}
				isTest := (b2.X == ssa.Value(h) && isEmptyStringConst(b2.Y)) || (b2.Y == ssa.Value(h) && isEmptyStringConst(b2.X))
				if isTest && ((b2.Op == token.NEQ && f.Holds) || (b2.Op == token.EQL && !f.Holds)) {
					guarded = true
				}
			}
			if !guarded {
				bad = append(bad, c.pos(bin.Pos()))
			}
		}
		sort.Strings(bad)
		r.check(len(bad) == 0, rule, name, c.pos(h.Pos()), "behind nameHash != \"\"", "the name hash is compared at %s without having been tested non-empty: for a record with an unknown hash algorithm (which RFC 5155 s.8.1 says must be ignored), a malformed salt or an unpackable name HashName returns \"\", which sorts before every hash, so a wrapping or empty interval 'covers' every name of the zone", strings.Join(bad, ", "))
	}
}

// isCaseFold: a call that maps a string to one case (the ordering engine treats the result as the operand; which
// octets the mapping changes is C17.R1.hash-fold's business).
func isCaseFold(cc *ssa.CallCommon) bool {
	switch calleeNameSSA(cc) {
	case "strings.ToUpper", "strings.ToLower", "asciiUpper", "asciiLower":
		return len(cc.Args) == 1
	}
	return false
}

// hashFoldASCII: the hash labels NSEC3.Cover and Match compare are brought to one case octet by octet: the hash of
// the name is base32hex text, and a rune-wise mapping (strings.ToUpper) turns other octets into base32hex letters
// (U+017F -> S, U+0131 -> I), so an owner label that is not the text of any hash matches.
func hashFoldASCII(c *Ctx, r *Report, rule string) {
	r.rule(rule, 3, "NSEC3.Cover and Match fold the owner and next hash labels with an octet-wise ASCII fold, whose range is exactly a-z")
	n := 0
	folds := map[string]bool{}
	for _, name := range []string{"NSEC3.Cover", "NSEC3.Match"} {
		fn := c.ssaFunc(name)
		if fn == nil {
			r.cerr(rule, name, "function not found")
			continue
		}
		r.fn(name)
		k := 0
		allInstrs(fn, func(in ssa.Instruction) {
			call, ok := in.(*ssa.Call)
			if !ok || len(call.Call.Args) != 1 {
				return
			}
			bt, isB := call.Call.Args[0].Type().Underlying().(*types.Basic)
			if !isB || bt.Info()&types.IsString == 0 || call.Type() != call.Call.Args[0].Type() {
				return
			}
			fromRecord := anyIn(sliceOf(call.Call.Args[0]), func(v ssa.Value) bool {
				return readsField("RR_Header", "Name")(v) || readsField("NSEC3", "NextDomain")(v)
			})
			if !fromRecord {
				return
			}
			callee := calleeNameSSA(&call.Call)
			n++
			k++
			construct := fmt.Sprintf("%s:fold#%d", name, k)
			runeWise := strings.HasPrefix(callee, "strings.") || strings.HasPrefix(callee, "unicode.") || strings.HasPrefix(callee, "bytes.")
			if !runeWise {
				folds[callee] = true
			}
			r.check(!runeWise, rule, construct, c.pos(call.Pos()), callee, "%s maps the hash label with %s, which works on runes: octets that are not ASCII letters become base32hex letters (C5 BF -> S, C4 B1 -> I), and an owner that is not the base32hex text of any hash matches (covers) a name", name, callee)
		})
	}
	var fl []string
	for f := range folds {
		fl = append(fl, f)
	}
	sort.Strings(fl)
	for _, f := range fl {
		n++
		switch f {
		case "asciiLower":
			foldRangeRuleDir(c, r, rule, f, "hash labels that differ only in those octets are told apart, or labels with other octets are identified", false)
		default:
			foldRangeRuleDir(c, r, rule, f, "hash labels written in lower case are not matched, or labels with other octets are identified", true)
		}
	}
	if n == 0 {
		r.undecided(rule, "NSEC3.Cover/Match", "", "no case mapping of a hash label found")
	}
}

// rsaLimitsFromTable: Generate tests bits against the two fields of an entry of a package-level map literal keyed by
// algorithm; the smallest lower limit and the largest upper limit among the entries whose key is an RSA* constant.
func (c *Ctx) rsaLimitsFromTable(gen *ast.FuncDecl, bitsP types.Object) (lo, hi int64, ok bool) {
	// size, ok := table[...]
	var tbl types.Object
	var entry types.Object
	ast.Inspect(gen.Body, func(n ast.Node) bool {
		as, isAs := n.(*ast.AssignStmt)
		if !isAs || as.Tok != token.DEFINE || len(as.Rhs) != 1 || len(as.Lhs) == 0 {
			return true
		}
		ix, isIx := ast.Unparen(as.Rhs[0]).(*ast.IndexExpr)
		if !isIx {
			return true
		}
		id, isId := ast.Unparen(ix.X).(*ast.Ident)
		lid, isL := as.Lhs[0].(*ast.Ident)
		if !isId || !isL {
			return true
		}
		if v, isVar := c.Info.Uses[id].(*types.Var); isVar && v.Parent() == c.Types.Scope() {
			if _, isMap := v.Type().Underlying().(*types.Map); isMap {
				tbl, entry = v, c.Info.Defs[lid]
			}
		}
		return true
	})
	if tbl == nil || entry == nil {
		return 0, 0, false
	}
	// which field is the lower limit, which the upper
	var loField, hiField string
	ast.Inspect(gen.Body, func(n ast.Node) bool {
		be, isBe := n.(*ast.BinaryExpr)
		if !isBe || !c.isIdentOf(be.X, bitsP) {
			return true
		}
		sel, isSel := ast.Unparen(be.Y).(*ast.SelectorExpr)
		if !isSel || !c.isIdentOf(sel.X, entry) {
			return true
		}
		switch be.Op {
		case token.LSS:
			loField = sel.Sel.Name
		case token.GTR:
			hiField = sel.Sel.Name
		}
		return true
	})
	if loField == "" || hiField == "" {
		return 0, 0, false
	}
	// the literal
	var lit *ast.CompositeLit
	for _, f := range c.Dns.Syntax {
		for _, d := range f.Decls {
			gd, isGd := d.(*ast.GenDecl)
			if !isGd {
				continue
			}
			for _, sp := range gd.Specs {
				vs, isVs := sp.(*ast.ValueSpec)
				if !isVs {
					continue
				}
				for i, nm := range vs.Names {
					if c.Info.Defs[nm] == tbl && i < len(vs.Values) {
						lit, _ = ast.Unparen(vs.Values[i]).(*ast.CompositeLit)
					}
				}
			}
		}
	}
	if lit == nil {
		return 0, 0, false
	}
	// nothing else writes the table
	written := false
	for _, f := range c.Dns.Syntax {
		ast.Inspect(f, func(n ast.Node) bool {
			switch t := n.(type) {
			case *ast.AssignStmt:
				for _, l := range t.Lhs {
					x := ast.Unparen(l)
					if ix, isIx := x.(*ast.IndexExpr); isIx {
						x = ast.Unparen(ix.X)
					}
					if c.isIdentOf(x, tbl) {
						written = true
					}
				}
			case *ast.CallExpr:
				if id, isId := ast.Unparen(t.Fun).(*ast.Ident); isId && (id.Name == "delete" || id.Name == "clear") && len(t.Args) > 0 && c.isIdentOf(t.Args[0], tbl) {
					written = true
				}
			case *ast.UnaryExpr:
				if t.Op == token.AND && c.isIdentOf(t.X, tbl) {
					written = true
				}
			}
			return true
		})
	}
	if written {
		return 0, 0, false
	}
	mt := tbl.Type().Underlying().(*types.Map)
	st, isStruct := mt.Elem().Underlying().(*types.Struct)
	if !isStruct {
		return 0, 0, false
	}
	lo, hi = 1<<40, 0
	for _, el := range lit.Elts {
		kv, isKV := el.(*ast.KeyValueExpr)
		if !isKV || !strings.HasPrefix(types.ExprString(kv.Key), "RSA") {
			continue
		}
		cl, isCL := ast.Unparen(kv.Value).(*ast.CompositeLit)
		if !isCL {
			return 0, 0, false
		}
		vals := map[string]int64{}
		for i, fe := range cl.Elts {
			name, val := "", fe
			if fkv, isF := fe.(*ast.KeyValueExpr); isF {
				name, val = identName(fkv.Key), fkv.Value
			} else if i < st.NumFields() {
				name = st.Field(i).Name()
			}
			if k, isK := c.exprConst(val); isK {
				vals[name] = k
			}
		}
		l, okL := vals[loField]
		h, okH := vals[hiField]
		if !okL || !okH {
			return 0, 0, false
		}
		if l < lo {
			lo = l
		}
		if h > hi {
			hi = h
		}
	}
	if hi == 0 || lo == 1<<40 {
		return 0, 0, false
	}
	// the rule reads limits as "bits < lo refused, bits > hi refused": the same convention as the switch form
	return lo, hi, true
}

// pkgVarLiteral: the composite literal a package-level variable is initialised with, nil when it has none.
func (c *Ctx) pkgVarLiteral(v types.Object) *ast.CompositeLit {
	for _, f := range c.Dns.Syntax {
		for _, d := range f.Decls {
			gd, isGd := d.(*ast.GenDecl)
			if !isGd {
				continue
			}
			for _, sp := range gd.Specs {
				vs, isVs := sp.(*ast.ValueSpec)
				if !isVs {
					continue
				}
				for i, nm := range vs.Names {
					if c.Info.Defs[nm] == v && i < len(vs.Values) {
						lit, _ := ast.Unparen(vs.Values[i]).(*ast.CompositeLit)
						return lit
					}
				}
			}
		}
	}
	return nil
}

// pkgVarWritten: something in the package assigns the variable or an element of it, deletes from / clears it, or takes
// its address.
func (c *Ctx) pkgVarWritten(v types.Object) bool {
	written := false
	for _, f := range c.Dns.Syntax {
		ast.Inspect(f, func(n ast.Node) bool {
			switch t := n.(type) {
			case *ast.AssignStmt:
				for _, l := range t.Lhs {
					x := ast.Unparen(l)
					if ix, isIx := x.(*ast.IndexExpr); isIx {
						x = ast.Unparen(ix.X)
					}
					if id, isId := x.(*ast.Ident); isId && c.Info.Uses[id] == v {
						written = true
					}
				}
			case *ast.IncDecStmt:
				x := ast.Unparen(t.X)
				if ix, isIx := x.(*ast.IndexExpr); isIx {
					x = ast.Unparen(ix.X)
				}
				if id, isId := x.(*ast.Ident); isId && c.Info.Uses[id] == v {
					written = true
				}
			case *ast.CallExpr:
				if id, isId := ast.Unparen(t.Fun).(*ast.Ident); isId && (id.Name == "delete" || id.Name == "clear") && len(t.Args) > 0 {
					if a, isA := ast.Unparen(t.Args[0]).(*ast.Ident); isA && c.Info.Uses[a] == v {
						written = true
					}
				}
			case *ast.UnaryExpr:
				if t.Op == token.AND {
					if a, isA := ast.Unparen(t.X).(*ast.Ident); isA && c.Info.Uses[a] == v {
						written = true
					}
				}
			}
			return true
		})
	}
	return written
}
