package main

import (
	"fmt"
	"go/token"
	"go/types"
	"strings"

	"golang.org/x/tools/go/ssa"
)

func init() { register("C18", true, false, checkC18) }

const c18Explanation = `Decided statically on every path of sig0.go: (R1) SIG.Verify returns success only from the cryptographic verifier's verdict and only after the time-window tests (now >= inception and now <= expiration, the two 32-bit fields read from the SIG RDATA in RRSIG order) and the signer-name test against the key's owner name; the digest is fed SIG RDATA, the first 10 header octets, ARCOUNT-1 as two big-endian octets (bit provenance), then the message body, in that order; (R2) SIG.Sign patches RDLENGTH (at the SIG's RDLENGTH offset, old value + signature length) and ARCOUNT (octets 10..11, old value + 1 as a 16-bit quantity) only after the 65535 size test, digests SIG RDATA then the packed message, and returns the patched buffer; (R3) buffer contract: since Sign requires PackBuffer to write into the buffer it supplies (it compares &buf[0] with the result), the buffer length must be derived from the uncompressed message length - the size PackBuffer itself tests - not from the compression-aware Len(); (R4) every big-endian read of Verify at a variable offset is dominated by a comparison with len(buf) that, after affine normalisation, covers all octets read; (R5) the RSA key decoder accepts every size the generator produces. NOT decided: that any altered octet makes verification fail, success for every message: cryptography / values.`

func checkC18(c *Ctx, r *Report) {
	r.Explanation = c18Explanation
	r.Trusted = []string{"go/ssa translation", "crypto verifiers", "UnpackDomainName returns an offset <= len(msg) on success"}
	r.Assumptions = []string{"Verify's input has at least header size (12 octets), as the property states; constant offsets below 12 are not checked"}
	c18R1(c, r)
	c18R2(c, r)
	signerNotNarrowed(c, r, "C18.R2.signer-not-narrowed")
	c18R3(c, r)
	c18R4(c, r)
	c17R6as(c, r, "C18.R5.rsa-limits")
	r.rule("C18.R5.alg-coverage", 2, "every algorithm Generate makes keys for (and Sign signs with) is handled by SIG.Verify")
	algorithmCoverage(c, r, "C18.R5.alg-coverage", []string{"sign", "SIG.Verify"})
	r.rule("C18.R2.int-to-bytes", 1, "ECDSA r and s are left-padded to exactly the curve width")
	intToBytesRule(c, r, "C18.R2.int-to-bytes")
	r.rule("C18.R1.name-eq", 1, "the signer-name test compares through equal(), which folds exactly A-Z on both sides")
	foldRule(c, r, "C18.R1.name-eq")
	r.rule("C18.R3.verify-bounds", 28, "every index / slice on the message in SIG.Verify and the name and header walkers it uses is entailed in bounds, for messages of at least header size (the property's hypothesis)")
	boundsRuleFor(c, r, "C18.R3.verify-bounds", []string{"SIG.Verify"}, false, nil, "a truncated or malformed message makes Verify panic instead of returning an error", map[string]int64{"SIG.Verify.buf": 12}, map[string]string{
		"SIG.Verify:slice-order UnpackDomainName()#1+10 <= UnpackDomainName()#1+0 in buf": "buf[sigstart:sigend] needs 'UnpackDomainName returns an offset beyond the one it was given', which holds only on the paths without a compression pointer taken first (a path-sensitive invariant over ptr and off) and is not derived",
		"SIG.Verify:slice-order +12 <= offset+0 in buf":                                   "buf[12:bodyend] needs 'offset never decreases below the header size' through the same monotonicity of UnpackDomainName",
	})
	r.rule("C18.R1.ecdsa-sig-length", 1, "SIG.Verify compares the ECDSA signature length with twice the curve size before splitting it into r and s")
	ecdsaSigLength(c, r, "C18.R1.ecdsa-sig-length", "SIG.Verify", "a zero octet put in front of r and of s (66 instead of 64 octets) gives different SIG RDATA that still verifies: an octet of the signed message was altered without Verify noticing")
	c18NoSizeRefusal(c, r, "C18.R3.no-size-refusal")
	c18KeyIdentity(c, r, "C18.R1.key-identity")
	r.rule("C18.R2.owner-root", 1, "SIG.Sign sets the SIG's owner to the root on every path before packing")
	sigOwnerRoot(c, r, "C18.R2.owner-root")
	r.rule("C18.R1.ed25519-key-length", 1, "publicKeyED25519 returns a key only when it is exactly 32 octets long")
	ed25519KeyLength(c, r, "C18.R1.ed25519-key-length")
	r.rule("C18.R3.label-room", 1, "packDomainName's room tests against len(msg) are strict")
	labelRoomExact(c, r, "C18.R3.label-room", "Sign, whose buffer has no slack, fails with 'buffer size too small' for a root-zone signer on a message compression does not shrink")
	r.rule("C18.R2.fresh-hash", 1, "hashFromAlgorithm returns a hash state of its own for every call")
	freshHash(c, r, "C18.R2.fresh-hash")
	keyScratchSize(c, r, "C18.R3.key-scratch")
	noPackageState(c, r, "C18.R1.key-from-record", []string{"DNSKEY.publicKeyRSA", "DNSKEY.publicKeyECDSA", "DNSKEY.publicKeyED25519"}, "the public key a KEY is verified against is one decoded earlier from another record with the same name, algorithm and tag: a message signed with that other key verifies, and one signed with this key is refused")
	borrow(c, r, c08LenForm, "C08.R1.len-form", "C18.R3.opt-len", 1, "OPT.len adds the packed length of every option", func(k string) bool { return strings.HasPrefix(k, "OPT") }, "Sign's exactly sized buffer overflows for a message with such an option when compression saves nothing: 'buffer size too small'")
	round12(c, r, "C18")
}

func c18R1(c *Ctx, r *Report) {
	r.rule("C18.R1.verify-guards", 3, "SIG.Verify succeeds only inside the validity window and with the key's owner as signer")
	r.rule("C18.R1.verdict", 3, "success only from the verifier's verdict on the hashed data and the trailing signature")
	r.rule("C18.R1.digest-input", 2, "digest = SIG RDATA | header[0:10] | ARCOUNT-1 (big-endian) | body")
	fn := c.ssaFunc("SIG.Verify")
	if fn == nil {
		r.cerr("C18.R1.verify-guards", "SIG.Verify", "function not found")
		return
	}
	r.fn("SIG.Verify")
	k, buf := paramOf(fn, "k"), paramOf(fn, "buf")
	// the two 32-bit reads
	var reads32 []byteAccess
	for _, a := range byteAccesses(fn) {
		if !a.Write && a.Buf == buf && a.N == 4 {
			reads32 = append(reads32, a)
		}
	}
	var expire, incept ssa.Value
	if len(reads32) == 2 && reads32[0].Base == reads32[1].Base {
		a, b := reads32[0], reads32[1]
		if a.K > b.K {
			a, b = b, a
		}
		if b.K-a.K == 4 {
			expire, incept = a.Val, b.Val // RRSIG RDATA: ... OrigTTL, Expiration, Inception
		}
	}
	isNow := func(v ssa.Value) bool {
		return anyIn(sliceOf(v), callsFunc("time.Now")) && !anyIn(sliceOf(v), func(x ssa.Value) bool { return x == expire || x == incept })
	}
	pts, und := successPoints(c, fn, 0, []string{"rsa.VerifyPKCS1v15"})
	for _, u := range und {
		r.undecided("C18.R1.verdict", "SIG.Verify:returns", c.pos(fn.Pos()), "%s", u)
	}
	if expire == nil {
		r.fail("C18.R1.verify-guards", "SIG.Verify:time-fields", c.pos(fn.Pos()), "cannot identify the expiration and inception reads (two consecutive 32-bit big-endian reads expected)")
	}
	isSigner := func(v ssa.Value) bool {
		call, ok := v.(*ssa.Call)
		if !ok || calleeNameSSA(&call.Call) != "equal" {
			return false
		}
		s0, s1 := sliceOf(call.Call.Args[0]), sliceOf(call.Call.Args[1])
		nameFromBuf := func(s map[ssa.Value]bool) bool {
			return anyIn(s, func(x ssa.Value) bool {
				e, ok := x.(*ssa.Extract)
				if !ok || e.Index != 0 {
					return false
				}
				cl, ok := e.Tuple.(*ssa.Call)
				return ok && calleeNameSSA(&cl.Call) == "UnpackDomainName"
			})
		}
		keyName := func(s map[ssa.Value]bool) bool {
			return anyIn(s, readsField("RR_Header", "Name")) && anyIn(s, isValue(k))
		}
		return (nameFromBuf(s0) && keyName(s1)) || (nameFromBuf(s1) && keyName(s0))
	}
	guards := []Guard{
		{Name: "now >= inception", Op: "lt", A: isNow, B: isValue(incept), Holds: false},
		{Name: "now <= expiration", Op: "lt", A: isValue(expire), B: isNow, Holds: false},
		{Name: "equal(signer name, k.Header().Name)", Op: "call", A: isSigner, Holds: true},
	}
	for _, g := range guards {
		var ps []string
		for _, p := range pts {
			if miss := guardsMissing(fn, p.Block, []Guard{g}); len(miss) > 0 {
				ps = append(ps, fmt.Sprintf("success at %s is reachable without it", c.pos(p.Pos)))
			}
		}
		r.check(len(ps) == 0 && len(pts) > 0, "C18.R1.verify-guards", "SIG.Verify:"+g.Name, c.pos(fn.Pos()), "dominates success", "%s: %s", g.Name, strings.Join(ps, "; "))
	}
	// verdicts
	var sums []*ssa.Call
	allInstrs(fn, func(in ssa.Instruction) {
		if call, ok := in.(*ssa.Call); ok && call.Call.IsInvoke() && call.Call.Method.Name() == "Sum" {
			sums = append(sums, call)
		}
	})
	for i, p := range pts {
		var problems []string
		var verifier *ssa.Call
		if p.Kind == "nil" {
			for _, f := range factsAt(fn, p.Block) {
				if call, ok := f.Atom.(*ssa.Call); ok && f.Holds {
					if n := calleeNameSSA(&call.Call); n == "ecdsa.Verify" || n == "ed25519.Verify" {
						verifier = call
					}
				}
			}
			if verifier == nil {
				problems = append(problems, "nil is returned without a verifier having said yes")
			}
		} else {
			for _, in := range p.Block.Instrs {
				if call, ok := in.(*ssa.Call); ok && calleeNameSSA(&call.Call) == "rsa.VerifyPKCS1v15" {
					verifier = call
				}
			}
		}
		if verifier != nil {
			all := map[ssa.Value]bool{}
			for _, a := range verifier.Call.Args {
				for v := range sliceOf(a) {
					all[v] = true
				}
			}
			if len(sums) != 1 || !all[sums[0]] {
				problems = append(problems, "the verifier is not given the computed digest")
			}
			if !anyIn(all, func(v ssa.Value) bool {
				call, ok := v.(*ssa.Call)
				return ok && strings.Contains(calleeNameSSA(&call.Call), ".publicKey")
			}) {
				problems = append(problems, "the verifier is not given the key's public key")
			}
			if !anyIn(all, func(v ssa.Value) bool {
				sl, ok := v.(*ssa.Slice)
				return ok && sl.X == buf && sl.Low != nil && sl.High == nil
			}) {
				problems = append(problems, "the verifier is not given the trailing signature buf[sigend:]")
			}
		}
		r.check(len(problems) == 0, "C18.R1.verdict", fmt.Sprintf("SIG.Verify:success#%d", i+1), c.pos(p.Pos), p.Kind, "%s", strings.Join(problems, "; "))
	}
	// the public-key decoder is chosen by the KEY's algorithm: each k.publicKeyX() call is made on an edge where
	// k.Algorithm was compared, or where rr.Algorithm == k.Algorithm was established. The SIG's own algorithm octet
	// comes off the wire; a decoder that does not fit the key returns nil or a key without a curve
	{
		k := paramOf(fn, "k")
		var problems []string
		n := 0
		keyAlg := func(v ssa.Value) bool {
			fa, ok := v.(*ssa.FieldAddr)
			if !ok || fieldNameOf(fa) != "Algorithm" {
				return false
			}
			return sliceOf(fa.X)[k] && !anyIn(sliceOf(fa.X), func(x ssa.Value) bool { return x == fn.Params[0] })
		}
		for _, ci := range callsIn(fn, "(DNSKEY).publicKeyRSA", "(DNSKEY).publicKeyECDSA", "(DNSKEY).publicKeyED25519") {
			n++
			var reached func(b *ssa.BasicBlock, depth int) bool
			reached = func(b *ssa.BasicBlock, depth int) bool {
				for _, fc := range factsAt(fn, b) {
					if anyIn(sliceOf(fc.Atom), keyAlg) {
						return true
					}
				}
				if depth > 6 || len(b.Preds) == 0 {
					return false
				}
				// a case clause with several constants: every incoming edge is the outcome of a comparison of the key's algorithm
				for _, p := range b.Preds {
					if ef, ok := edgeFact(p, b); ok && anyIn(sliceOf(ef.Atom), keyAlg) {
						continue
					}
					if !reached(p, depth+1) {
						return false
					}
				}
				return true
			}
			ok := reached(ci.(ssa.Instruction).Block(), 0)
			if !ok {
				problems = append(problems, fmt.Sprintf("%s: %s is reached without a test of the key's own Algorithm: the decoder is chosen by the algorithm octet of the SIG (attacker-chosen), so a SIG naming ECDSA checked against an RSA or Ed25519 key dereferences a key without a curve", c.pos(ci.Pos()), calleeNameSSA(ci.Common())))
			}
		}
		if n < 3 {
			problems = append(problems, fmt.Sprintf("%d public-key decoder calls, want 3", n))
		}
		r.check(len(problems) == 0, "C18.R1.verdict", "SIG.Verify:dispatch-on-key", c.pos(fn.Pos()), "switch k.Algorithm", "%s", strings.Join(problems, "; "))
	}
	r.check(len(pts) >= 3, "C18.R1.verdict", "SIG.Verify:success-points", c.pos(fn.Pos()), fmt.Sprint(len(pts)), "only %d success points (RSA, ECDSA, Ed25519 expected)", len(pts))
	// digest order
	var writes []*ssa.Call
	allInstrs(fn, func(in ssa.Instruction) {
		if call, ok := in.(*ssa.Call); ok && call.Call.IsInvoke() && call.Call.Method.Name() == "Write" {
			writes = append(writes, call)
		}
	})
	var problems []string
	var adcBytes *ssa.Call
	if len(writes) != 4 {
		problems = append(problems, fmt.Sprintf("%d digest writes, expected 4 (SIG RDATA, header, ARCOUNT-1, body)", len(writes)))
	} else {
		for i := 1; i < 4; i++ {
			if !precedes(writes[i-1], writes[i]) {
				problems = append(problems, "digest writes are not in a fixed order")
			}
		}
		desc := func(v ssa.Value) string {
			sl, ok := v.(*ssa.Slice)
			if !ok {
				return "?"
			}
			if sl.X != buf {
				return "local"
			}
			lo, hi := "", ""
			if sl.Low != nil {
				if k, ok := constIntOf(sl.Low); ok {
					lo = fmt.Sprint(k)
				} else {
					lo = "var"
				}
			}
			if sl.High != nil {
				if k, ok := constIntOf(sl.High); ok {
					hi = fmt.Sprint(k)
				} else {
					hi = "var"
				}
			}
			return "buf[" + lo + ":" + hi + "]"
		}
		got := []string{desc(writes[0].Call.Args[0]), desc(writes[1].Call.Args[0]), desc(writes[2].Call.Args[0]), desc(writes[3].Call.Args[0])}
		want := []string{"buf[var:var]", "buf[:10]", "local", "buf[12:var]"}
		if strings.Join(got, " ") != strings.Join(want, " ") {
			problems = append(problems, fmt.Sprintf("digest is fed %v, want %v (SIG RDATA, header without ARCOUNT, ARCOUNT-1, body)", got, want))
		}
		adcBytes = writes[2]
	}
	r.check(len(problems) == 0, "C18.R1.digest-input", "SIG.Verify:order", c.pos(fn.Pos()), "RDATA | hdr[:10] | adc-1 | body", "%s", strings.Join(problems, "; "))
	// ARCOUNT-1 big endian
	problems = nil
	if adcBytes != nil {
		sl, ok := adcBytes.Call.Args[0].(*ssa.Slice)
		var arr *ssa.Alloc
		if ok {
			arr, _ = sl.X.(*ssa.Alloc)
		}
		if arr == nil {
			problems = append(problems, "the ARCOUNT octets are not a local literal")
		} else {
			// leaf: (adc - 1) where adc is the 16-bit read at offset 10
			isAdcMinus1 := func(v ssa.Value) bool {
				b, ok := v.(*ssa.BinOp)
				if !ok || b.Op != token.SUB {
					return false
				}
				if k, isK := constIntOf(b.Y); !isK || k != 1 {
					return false
				}
				for _, a := range byteAccesses(fn) {
					if !a.Write && a.Buf == buf && a.Base == nil && a.K == 10 && a.N == 2 && a.Val == b.X {
						return true
					}
				}
				return false
			}
			env := &bitEnv{leafOf: func(v ssa.Value) (int, int, bool) {
				if isAdcMinus1(v) {
					return 0, 16, true
				}
				return 0, 0, false
			}}
			bytes := map[int64]bitVec{}
			for _, ref := range *arr.Referrers() {
				ia, ok := ref.(*ssa.IndexAddr)
				if !ok {
					continue
				}
				idx, isK := constIntOf(ia.Index)
				if !isK {
					continue
				}
				for _, r2 := range *ia.Referrers() {
					if st, ok := r2.(*ssa.Store); ok {
						bytes[idx] = env.eval(st.Val)
					}
				}
			}
			// or written in one go: binary.BigEndian.PutUint16(octets[:], adc-1)
			putBE := false
			for _, a := range byteAccesses(fn) {
				if !a.Write || a.N != 2 || a.K != 0 || a.Base != nil {
					continue
				}
				v := a.Val
				if cv, ok := v.(*ssa.Convert); ok {
					v = cv.X
				}
				if isAdcMinus1(v) && (a.Buf == ssa.Value(arr) || sliceOf(a.Buf)[arr]) {
					putBE = true
				}
			}
			if putBE && len(bytes) == 0 {
				// big-endian by construction
			} else if len(bytes) != 2 {
				problems = append(problems, fmt.Sprintf("%d octets written for ARCOUNT-1, want 2", len(bytes)))
			} else {
				for oct, lo := range map[int64]int{0: 8, 1: 0} {
					v := bytes[oct]
					for t := 0; t < 8; t++ {
						if v[t] != (bitSrc{Kind: bLeaf, Leaf: 0, Bit: lo + t}) {
							problems = append(problems, fmt.Sprintf("octet %d of the digested ARCOUNT-1 is %s, big-endian needs (adc-1)[%d..%d]: with 256 or more additional records the digest differs from what Sign hashed", oct, v.describe(8, []string{"adc-1"}), lo, lo+7))
							break
						}
					}
				}
			}
		}
	}
	r.check(len(problems) == 0, "C18.R1.digest-input", "SIG.Verify:arcount-minus-one", c.pos(fn.Pos()), "big-endian", "%s", strings.Join(problems, "; "))
}

func c18R2(c *Ctx, r *Report) {
	r.rule("C18.R2.sign-framing", 3, "SIG.Sign: size test, RDLENGTH += len(signature), ARCOUNT += 1 (16-bit), digest RDATA then message")
	fn := c.ssaFunc("SIG.Sign")
	if fn == nil {
		r.cerr("C18.R2.sign-framing", "SIG.Sign", "function not found")
		return
	}
	r.fn("SIG.Sign")
	var problems []string
	// success returns
	var succ []retPoint
	for _, rp := range returnPoints(fn, 1) {
		if isNilConst(rp.Results[1]) {
			succ = append(succ, rp)
		}
	}
	if len(succ) != 1 {
		problems = append(problems, fmt.Sprintf("%d success returns", len(succ)))
	}
	// 16-bit read-modify-write pairs
	type rmw struct {
		w   byteAccess
		add ssa.Value
	}
	var patches []rmw
	acc := byteAccesses(fn)
	for _, w := range acc {
		if !w.Write || w.N != 2 {
			continue
		}
		b, ok := w.Val.(*ssa.BinOp)
		if !ok || b.Op != token.ADD {
			continue
		}
		for _, rd := range acc {
			if rd.Write || rd.N != 2 || rd.Base != w.Base || rd.K != w.K {
				continue
			}
			if b.X == rd.Val {
				patches = append(patches, rmw{w, b.Y})
			} else if b.Y == rd.Val {
				patches = append(patches, rmw{w, b.X})
			}
		}
	}
	var arc, rdl *rmw
	for i := range patches {
		p := &patches[i]
		if p.w.Base == nil && p.w.K == 10 {
			arc = p
		} else if p.w.Base != nil {
			rdl = p
		}
	}
	if arc == nil {
		problems = append(problems, "ARCOUNT (octets 10..11) is not incremented as a 16-bit big-endian quantity (a carry into octet 10 would be lost)")
	} else if k, ok := constIntOf(arc.add); !ok || k != 1 {
		problems = append(problems, "ARCOUNT is not incremented by exactly one")
	}
	if rdl == nil {
		problems = append(problems, "the SIG's RDLENGTH is not patched with old value + len(signature)")
	} else {
		// offset = len(mbuf) + 9 (root owner 1 + type 2 + class 2 + ttl 4)
		lenCall, okL := rdl.w.Base.(*ssa.Call)
		if !okL || calleeNameSSA(&lenCall.Call) != "builtin.len" || !callsExtract("(Msg).PackBuffer")(lenCall.Call.Args[0]) || rdl.w.K != 9 {
			problems = append(problems, fmt.Sprintf("RDLENGTH is patched at %v%+d, the SIG record's RDLENGTH is at len(packed message)+9", rdl.w.Base, rdl.w.K))
		}
		if !anyIn(sliceOf(rdl.add), func(v ssa.Value) bool {
			cl, ok := v.(*ssa.Call)
			return ok && calleeNameSSA(&cl.Call) == "builtin.len" && anyIn(sliceOf(cl.Call.Args[0]), callsExtract("sign"))
		}) {
			problems = append(problems, "RDLENGTH is not increased by len(signature)")
		}
	}
	// size test guards both patches
	for _, p := range []*rmw{arc, rdl} {
		if p == nil {
			continue
		}
		lo, hi, _, hasHi := intervalAt(fn, p.w.Instr.Block(), func(v ssa.Value) bool {
			cl, ok := v.(*ssa.Call)
			return ok && calleeNameSSA(&cl.Call) == "builtin.len"
		})
		_ = lo
		if !hasHi || hi != 65535 {
			problems = append(problems, fmt.Sprintf("%s: header patch not guarded by len(buf) <= 65535 (found bound %d, present=%v)", c.pos(p.w.Pos), hi, hasHi))
		}
		for _, s := range succ {
			if !(p.w.Instr.Block() == s.Block || p.w.Instr.Block().Dominates(s.Block)) {
				problems = append(problems, "a success return does not pass the header patches")
			}
		}
	}
	r.check(len(problems) == 0, "C18.R2.sign-framing", "SIG.Sign:patches", c.pos(fn.Pos()), "RDLENGTH+=len(sig), ARCOUNT+=1 after the size test", "%s", strings.Join(problems, "; "))
	// digest: RDATA (buf[len(mbuf)+11:]) then message (buf[:len(mbuf)])
	problems = nil
	var writes []*ssa.Call
	allInstrs(fn, func(in ssa.Instruction) {
		if call, ok := in.(*ssa.Call); ok && call.Call.IsInvoke() && call.Call.Method.Name() == "Write" {
			writes = append(writes, call)
		}
	})
	if len(writes) != 2 {
		problems = append(problems, fmt.Sprintf("%d digest writes", len(writes)))
	} else {
		s0, ok0 := writes[0].Call.Args[0].(*ssa.Slice)
		s1, ok1 := writes[1].Call.Args[0].(*ssa.Slice)
		if !ok0 || !ok1 || !precedes(writes[0], writes[1]) {
			problems = append(problems, "digest operands are not slices of the buffer in a fixed order")
		} else {
			base, k := offsetOf(s0.Low)
			lc, isLen := base.(*ssa.Call)
			if s0.Low == nil || s0.High != nil || !isLen || calleeNameSSA(&lc.Call) != "builtin.len" || k != 11 {
				problems = append(problems, fmt.Sprintf("first digest operand starts at %v%+d, the SIG RDATA starts at len(packed message)+11", base, k))
			}
			// the RDATA operand ends where PackRR stopped writing, not at the end of the (larger) buffer
			isPackOff := func(v ssa.Value) bool {
				e, ok := v.(*ssa.Extract)
				if !ok || e.Index != 0 {
					return false
				}
				call, ok := e.Tuple.(*ssa.Call)
				return ok && calleeNameSSA(&call.Call) == "PackRR"
			}
			bounded := s0.High != nil && isPackOff(s0.High)
			if inner, ok := s0.X.(*ssa.Slice); ok && inner.High != nil && isPackOff(inner.High) {
				bounded = true
			}
			if !bounded {
				problems = append(problems, "the SIG RDATA operand runs to the end of the buffer instead of the offset PackRR returned: whenever the buffer is longer than the packed message plus SIG (a compressed message), padding octets are signed and the signature never verifies")
			}
			if s1.Low != nil || s1.High == nil {
				problems = append(problems, "second digest operand is not buf[:len(packed message)]")
			} else if hc, ok := s1.High.(*ssa.Call); !ok || calleeNameSSA(&hc.Call) != "builtin.len" {
				problems = append(problems, "second digest operand is not buf[:len(packed message)]")
			}
		}
	}
	r.check(len(problems) == 0, "C18.R2.sign-framing", "SIG.Sign:digest", c.pos(fn.Pos()), "RDATA | message", "%s", strings.Join(problems, "; "))
	// SIG header fields
	problems = nil
	typeSIG, _ := c.constInt("TypeSIG")
	classANY, _ := c.constInt("ClassANY")
	okHdr := false
	allInstrs(fn, func(in ssa.Instruction) {
		st, ok := in.(*ssa.Store)
		if !ok {
			return
		}
		if readsField("RR_Header", "Rrtype")(st.Addr) {
			if k, isK := constIntOf(st.Val); isK && k == typeSIG {
				okHdr = true
			}
		}
		if readsField("RR_Header", "Class")(st.Addr) {
			if k, isK := constIntOf(st.Val); !isK || k != classANY {
				problems = append(problems, "SIG(0) class is not ANY")
			}
		}
	})
	if !okHdr {
		problems = append(problems, "the record's type is not set to SIG")
	}
	// the SIG that is packed (hashed and sent) carries no signature yet: Signature = "" is stored before PackRR,
	// whatever an earlier use of the same SIG value left in the field
	{
		cleared := false
		packs := callsIn(fn, "PackRR")
		for _, st := range storesToField(fn, "RRSIG", "Signature") {
			if k, ok := st.Val.(*ssa.Const); ok && k.Value != nil && k.Value.ExactString() == `""` {
				for _, pk := range packs {
					if precedes(st, pk.(ssa.Instruction)) {
						cleared = true
					}
				}
			}
		}
		if !cleared {
			problems = append(problems, "rr.Signature is not cleared before the SIG is packed: a SIG value that signed before is packed with its old signature, and the new message never verifies")
		}
	}
	r.check(len(problems) == 0, "C18.R2.sign-framing", "SIG.Sign:header", c.pos(fn.Pos()), "root owner, SIG, ANY, TTL 0", "%s", strings.Join(problems, "; "))
}

// c18R3: stated-belief rule on the buffer contract.
func c18R3(c *Ctx, r *Report) {
	r.rule("C18.R3.buffer-contract", 1, "a buffer that must be reused by PackBuffer is sized from the uncompressed length")
	fn := c.ssaFunc("SIG.Sign")
	if fn == nil {
		r.cerr("C18.R3.buffer-contract", "SIG.Sign", "function not found")
		return
	}
	// is there a comparison of &buf[0] with &mbuf[0] leading to an error?
	requires := false
	allInstrs(fn, func(in ssa.Instruction) {
		b, ok := in.(*ssa.BinOp)
		if !ok || (b.Op != token.NEQ && b.Op != token.EQL) {
			return
		}
		_, x := b.X.(*ssa.IndexAddr)
		_, y := b.Y.(*ssa.IndexAddr)
		if x && y {
			requires = true
		}
	})
	if !requires {
		r.ok("C18.R3.buffer-contract", "SIG.Sign", c.pos(fn.Pos()), "Sign no longer requires in-place packing")
		return
	}
	packs := callsIn(fn, "(Msg).PackBuffer")
	if len(packs) != 1 {
		r.fail("C18.R3.buffer-contract", "SIG.Sign", c.pos(fn.Pos()), "PackBuffer is not called exactly once")
		return
	}
	bufArg := packs[0].Common().Args[1]
	mk, ok := bufArg.(*ssa.MakeSlice)
	if !ok {
		r.undecided("C18.R3.buffer-contract", "SIG.Sign", c.pos(fn.Pos()), "the buffer handed to PackBuffer is not a fresh make")
		return
	}
	s := sliceOf(mk.Len)
	uncompressed := anyIn(s, func(v ssa.Value) bool {
		cl, ok := v.(*ssa.Call)
		return ok && calleeNameSSA(&cl.Call) == "msgLenWithCompressionMap" && isNilConst(cl.Call.Args[1])
	})
	compressedAware := anyIn(s, callsFunc("(Msg).Len"))
	if compressedAware && !uncompressed {
		// acceptable only when compression is known to be off on this path
		if len(guardsMissing(fn, mk.Block(), []Guard{{Op: "val", A: readsField("Msg", "Compress"), Holds: false}})) == 0 {
			uncompressed = true
		}
	}
	r.check(uncompressed, "C18.R3.buffer-contract", "SIG.Sign", c.pos(mk.Pos()), "sized from the uncompressed length",
		"Sign fails with ErrBuf unless PackBuffer packs into the supplied buffer, which it does only when len(buf) exceeds the UNCOMPRESSED length; the buffer is sized from the compression-aware m.Len(), so a message whose compression saving exceeds the SIG's own length cannot be signed")
}

// c18R4: affine guard presence for variable-offset big-endian reads.
func c18R4(c *Ctx, r *Report) {
	r.rule("C18.R4.read-bounds", 3, "variable-offset reads of Verify are dominated by a length comparison covering the octets read")
	fn := c.ssaFunc("SIG.Verify")
	if fn == nil {
		return
	}
	buf := paramOf(fn, "buf")
	isLen := func(v ssa.Value) bool {
		cl, ok := v.(*ssa.Call)
		return ok && calleeNameSSA(&cl.Call) == "builtin.len" && cl.Call.Args[0] == buf
	}
	n := 0
	for _, a := range byteAccesses(fn) {
		if a.Write || a.Buf != buf || a.Base == nil {
			continue
		}
		n++
		construct := fmt.Sprintf("SIG.Verify:read#%d(%d octets at base%+d)", n, a.N, a.K)
		// facts: (base + k1) cmp len
		covered := false
		var seen []string
		for _, f := range factsAt(fn, a.Instr.Block()) {
			b, ok := f.Atom.(*ssa.BinOp)
			if !ok {
				continue
			}
			x, y, op, holds := b.X, b.Y, b.Op, f.Holds
			if isLen(x) {
				x, y = y, x
				switch op {
				case token.LSS:
					op = token.GTR
				case token.GTR:
					op = token.LSS
				case token.LEQ:
					op = token.GEQ
				case token.GEQ:
					op = token.LEQ
				}
			}
			if !isLen(y) {
				continue
			}
			base, k1 := offsetOf(x)
			if base != a.Base {
				continue
			}
			// derive base + k1 + slack <= len
			slack := int64(-1 << 62)
			switch {
			case op == token.LSS && holds, op == token.GEQ && !holds:
				slack = 1 // base+k1 < len
			case op == token.LEQ && holds, op == token.GTR && !holds:
				slack = 0 // base+k1 <= len
			}
			if slack < 0 {
				continue
			}
			seen = append(seen, fmt.Sprintf("base%+d+%d<=len", k1, slack))
			if a.K+int64(a.N) <= k1+slack {
				covered = true
			}
		}
		r.check(covered, "C18.R4.read-bounds", construct, c.pos(a.Pos), "covered", "the %d octets read at base%+d are not covered by a dominating length test (tests found: %v): a truncated message would make Verify panic instead of returning an error", a.N, a.K, seen)
	}
	_ = types.Typ
}
