package main

import (
	"fmt"
	"go/token"
	"go/types"
	"strings"

	"golang.org/x/tools/go/ssa"
)

// Rules added after the second round of independent breaking changes.

// c17Validity: RRSIG.ValidityPeriod is true exactly on inception <= t <= expiration (both ends inclusive, as the
// property states). Decided: the true result requires "not (t < inception')" and "not (expiration' < t)", where
// inception' / expiration' derive from the Inception / Expiration fields; a strict comparison on either side is a
// violation. The serial-number arithmetic producing inception' and expiration' is not decided.
func c17Validity(c *Ctx, r *Report) {
	r.rule("C17.R7.validity-inclusive", 1, "ValidityPeriod is true only when inception' <= t and t <= expiration', both bounds inclusive")
	fn := c.ssaFunc("RRSIG.ValidityPeriod")
	if fn == nil {
		r.cerr("C17.R7.validity-inclusive", "RRSIG.ValidityPeriod", "function not found")
		return
	}
	r.fn("RRSIG.ValidityPeriod")
	rdI, rdE := readsField("RRSIG", "Inception"), readsField("RRSIG", "Expiration")
	side := func(v ssa.Value) string {
		s := sliceOf(v)
		i, e := anyIn(s, rdI), anyIn(s, rdE)
		switch {
		case i && !e:
			return "inc"
		case e && !i:
			return "exp"
		case !i && !e:
			return "t"
		}
		return "?"
	}
	// a fact as "x < y is <holds>" over sides
	type rel struct {
		lo, hi string // lo < hi
		holds  bool
	}
	norm := func(f Fact) (rel, bool) {
		b, ok := f.Atom.(*ssa.BinOp)
		if !ok {
			return rel{}, false
		}
		x, y, holds := b.X, b.Y, f.Holds
		switch b.Op {
		case token.LSS:
		case token.GTR:
			x, y = y, x
		case token.GEQ:
			holds = !holds
		case token.LEQ:
			x, y = y, x
			holds = !holds
		default:
			return rel{}, false
		}
		return rel{side(x), side(y), holds}, true
	}
	var problems []string
	n := 0
	for _, rp := range returnPoints(fn, 0) {
		facts := rp.factsOf(fn)
		v := rp.Results[0]
		if b, ok := constBool(v); ok {
			if !b {
				continue
			}
		} else {
			atom, pol := condAtom(v)
			facts = append(facts, Fact{Atom: atom, Holds: pol})
		}
		n++
		lower, upper := "", ""
		for _, f := range facts {
			rl, ok := norm(f)
			if !ok {
				continue
			}
			switch {
			case rl.lo == "t" && rl.hi == "inc" && !rl.holds:
				lower = "inclusive" // not (t < inc)
			case rl.lo == "inc" && rl.hi == "t" && rl.holds && lower == "":
				lower = "strict" // inc < t
			case rl.lo == "exp" && rl.hi == "t" && !rl.holds:
				upper = "inclusive" // not (exp < t)
			case rl.lo == "t" && rl.hi == "exp" && rl.holds && upper == "":
				upper = "strict" // t < exp
			}
		}
		if lower != "inclusive" {
			problems = append(problems, fmt.Sprintf("%s: the lower bound is %s: a time equal to the inception must be inside the validity period", c.pos(rp.Pos), orNone(lower)))
		}
		if upper != "inclusive" {
			problems = append(problems, fmt.Sprintf("%s: the upper bound is %s: a time equal to the expiration must be inside the validity period (and a signature with inception == expiration is valid at that instant)", c.pos(rp.Pos), orNone(upper)))
		}
	}
	if n == 0 {
		problems = append(problems, "ValidityPeriod never returns true")
	}
	r.check(len(problems) == 0, "C17.R7.validity-inclusive", "RRSIG.ValidityPeriod", c.pos(fn.Pos()), "inception' <= t <= expiration'", "%s", strings.Join(problems, "; "))
}

func orNone(s string) string {
	if s == "" {
		return "not tested"
	}
	return s
}

// c17IterLoop: RFC 5155 s.5: IH(salt, x, k) applies the hash k more times after the first. The iteration loop of
// HashName must run exactly iter times for every 16-bit iter: a counter compared with `<` from 0, or with `<=`
// from 1 in a type wider than the 16-bit bound (a 16-bit counter can never exceed 65535, so `k <= iter` never
// ends for iter = 65535).
func c17IterLoop(c *Ctx, r *Report) {
	r.rule("C17.R2.iterations", 1, "HashName's loop applies the hash exactly iter more times and terminates for every 16-bit iter")
	fn := c.ssaFunc("HashName")
	if fn == nil {
		r.cerr("C17.R2.iterations", "HashName", "function not found")
		return
	}
	iter := paramOf(fn, "iter")
	var problems []string
	found := 0
	allInstrs(fn, func(in ssa.Instruction) {
		ifi, ok := in.(*ssa.If)
		if !ok {
			return
		}
		cmp, ok := ifi.Cond.(*ssa.BinOp)
		if !ok {
			return
		}
		x, y, op := cmp.X, cmp.Y, cmp.Op
		if sliceOf(x)[iter] && !sliceOf(y)[iter] {
			x, y = y, x
			switch op {
			case token.LSS:
				op = token.GTR
			case token.GTR:
				op = token.LSS
			case token.LEQ:
				op = token.GEQ
			case token.GEQ:
				op = token.LEQ
			}
		}
		if !sliceOf(y)[iter] {
			return
		}
		phi, ok := x.(*ssa.Phi)
		if !ok {
			return
		}
		// counter: phi(init, phi+1)
		var init int64 = -1
		stepOK := false
		for _, e := range phi.Edges {
			if k, isK := constIntOf(e); isK {
				init = k
				continue
			}
			if b, ok := e.(*ssa.BinOp); ok && b.Op == token.ADD && b.X == ssa.Value(phi) {
				if k, isK := constIntOf(b.Y); isK && k == 1 {
					stepOK = true
				}
			}
		}
		if !stepOK || init < 0 {
			return
		}
		found++
		bits := func(t types.Type) int64 {
			if b, ok := t.Underlying().(*types.Basic); ok {
				return types.SizesFor("gc", "amd64").Sizeof(b) * 8
			}
			return 0
		}
		switch {
		case op == token.LSS && init == 0:
			// k < iter from 0: iter rounds, ends for every iter
		case op == token.LEQ && init == 1:
			if bits(phi.Type()) <= 16 {
				problems = append(problems, fmt.Sprintf("%s: the counter is a %d-bit value compared with `<= iter`: for iter = 65535 it wraps to 0 and the loop never ends (HashName, and Match/Cover with it, hang on such an NSEC3)", c.pos(ifi.Pos()), bits(phi.Type())))
			}
		default:
			problems = append(problems, fmt.Sprintf("%s: the loop runs from %d while counter %s iter: not exactly iter additional rounds", c.pos(ifi.Pos()), init, op))
		}
	})
	if found != 1 {
		problems = append(problems, fmt.Sprintf("%d counting loops bounded by iter found, want 1", found))
	}
	r.check(len(problems) == 0, "C17.R2.iterations", "HashName", c.pos(fn.Pos()), "iter rounds", "%s", strings.Join(problems, "; "))
}

// c17KeyTag: RFC 4034 Appendix B in closed form: ac = sum over octets (even index: octet << 8, odd index: octet);
// ac += (ac >> 16) & 0xFFFF; tag = ac & 0xFFFF. Decided: the shape of the final fold (exactly one add of the
// high half, then truncation to 16 bits) and the two per-octet addends. An equivalent formulation the recogniser
// does not know is reported as undecided, not as a violation.
func c17KeyTag(c *Ctx, r *Report) {
	r.rule("C17.R8.keytag-formula", 1, "KeyTag folds the 32-bit sum once (ac += ac>>16 & 0xFFFF) and truncates to 16 bits; even octets weigh 256, odd octets 1")
	fn := c.ssaFunc("DNSKEY.KeyTag")
	if fn == nil {
		r.cerr("C17.R8.keytag-formula", "DNSKEY.KeyTag", "function not found")
		return
	}
	strip16 := func(v ssa.Value) (ssa.Value, bool) {
		trunc := false
		for i := 0; i < 4; i++ {
			switch t := v.(type) {
			case *ssa.Convert:
				if b, ok := t.Type().Underlying().(*types.Basic); ok && b.Kind() == types.Uint16 {
					trunc = true
				}
				v = t.X
				continue
			case *ssa.BinOp:
				if t.Op == token.AND {
					if k, isK := constIntOf(t.Y); isK && k == 0xFFFF {
						trunc = true
						v = t.X
						continue
					}
				}
			}
			break
		}
		return v, trunc
	}
	var verdict, detail string
	n := 0
	for _, rp := range returnPoints(fn, 0) {
		v := rp.Results[0]
		if k, isK := constIntOf(v); isK && k == 0 {
			continue // nil key / packing error
		}
		n++
		inner, trunc := strip16(v)
		add, ok := inner.(*ssa.BinOp)
		if !trunc || !ok || add.Op != token.ADD {
			verdict, detail = "undecided", fmt.Sprintf("%s: the returned tag is not recognisably (ac + (ac >> 16 & 0xFFFF)) & 0xFFFF", c.pos(rp.Pos))
			continue
		}
		acc, hi := add.X, add.Y
		if _, isPhi := acc.(*ssa.Phi); !isPhi {
			acc, hi = hi, acc
		}
		phi, isPhi := acc.(*ssa.Phi)
		hiInner := hi
		if b, ok := hi.(*ssa.BinOp); ok && b.Op == token.AND {
			if k, isK := constIntOf(b.Y); isK && k == 0xFFFF {
				hiInner = b.X
			}
		}
		shr, okShr := hiInner.(*ssa.BinOp)
		if !isPhi || !okShr || shr.Op != token.SHR || shr.X != acc {
			verdict, detail = "undecided", fmt.Sprintf("%s: the fold of the high half is not recognisably ac + (ac >> 16)", c.pos(rp.Pos))
			continue
		}
		if k, isK := constIntOf(shr.Y); !isK || k != 16 {
			verdict, detail = "violation", fmt.Sprintf("%s: the high half is taken by a shift of %d, RFC 4034 Appendix B shifts by 16", c.pos(rp.Pos), k)
			continue
		}
		// per-octet addends
		w1, w256 := false, false
		for _, e := range phiLeavesWithin(phi) {
			b, ok := e.(*ssa.BinOp)
			if !ok || b.Op != token.ADD {
				continue
			}
			other := b.Y
			if b.Y == ssa.Value(phi) {
				other = b.X
			}
			if sh, ok := other.(*ssa.BinOp); ok && sh.Op == token.SHL {
				if k, isK := constIntOf(sh.Y); isK && k == 8 {
					w256 = true
				}
			} else if _, ok := other.(*ssa.Convert); ok {
				w1 = true
			}
		}
		if !w1 || !w256 {
			verdict, detail = "violation", fmt.Sprintf("%s: the sum does not add even-indexed octets shifted by 8 and odd-indexed octets as they are", c.pos(rp.Pos))
		}
	}
	switch {
	case n == 0:
		r.fail("C17.R8.keytag-formula", "DNSKEY.KeyTag", c.pos(fn.Pos()), "no computed key tag is returned")
	case verdict == "violation":
		r.fail("C17.R8.keytag-formula", "DNSKEY.KeyTag", c.pos(fn.Pos()), "%s", detail)
	case verdict == "undecided":
		r.undecided("C17.R8.keytag-formula", "DNSKEY.KeyTag", c.pos(fn.Pos()), "%s (RFC 4034 Appendix B adds the carry once and discards a second carry; a fold that is repeated until no carry is left gives tag+1 for keys whose halves sum past 0xFFFF)", detail)
	default:
		r.ok("C17.R8.keytag-formula", "DNSKEY.KeyTag", c.pos(fn.Pos()), "(ac + (ac>>16 & 0xFFFF)) & 0xFFFF")
	}
}

// c17HashCase: the three strings NSEC3.Cover / Match order are compared as text, so they must be in one case:
// each operand of an ordering or equality between hashes derives from strings.ToUpper or from HashName (which
// returns upper-case base32hex). A hash taken from the record as stored (NextDomain as parsed from zone text) is not.
func c17HashCase(c *Ctx, r *Report) {
	r.rule("C17.R1.hash-case", 2, "every hash NSEC3.Cover / Match compares is case-normalised (ToUpper) or comes from HashName")
	for _, name := range []string{"NSEC3.Cover", "NSEC3.Match"} {
		fn := c.ssaFunc(name)
		if fn == nil {
			r.cerr("C17.R1.hash-case", name, "function not found")
			continue
		}
		var problems []string
		n := 0
		normalised := func(v ssa.Value) bool {
			return anyIn(sliceOf(v), callsFunc("strings.ToUpper", "asciiUpper", "HashName"))
		}
		allInstrs(fn, func(in ssa.Instruction) {
			b, ok := in.(*ssa.BinOp)
			if !ok {
				return
			}
			switch b.Op {
			case token.EQL, token.NEQ, token.LSS, token.LEQ, token.GTR, token.GEQ:
			default:
				return
			}
			if bt, ok := b.X.Type().Underlying().(*types.Basic); !ok || bt.Info()&types.IsString == 0 {
				return
			}
			n++
			for _, op := range []ssa.Value{b.X, b.Y} {
				if _, isConst := op.(*ssa.Const); isConst {
					continue
				}
				if !normalised(op) {
					problems = append(problems, fmt.Sprintf("%s: a hash is compared as stored (%s), the others upper-cased: a record parsed from lower-case zone text orders its next hashed owner name after every upper-case hash, and names outside the interval are reported covered", c.pos(b.Pos()), describeValue(op)))
				}
			}
		})
		if n == 0 {
			problems = append(problems, "no string comparison found")
		}
		r.check(len(uniqStrings(problems)) == 0, "C17.R1.hash-case", name, c.pos(fn.Pos()), "one case", "%s", strings.Join(uniqStrings(problems), "; "))
	}
}
