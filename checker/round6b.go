package main

import (
	"fmt"
	"go/token"
	"go/types"
	"sort"
	"strings"

	"golang.org/x/tools/go/ssa"
)

// Rules added after the sixth round of independent breaking changes (part 2).

// codecExitsOnly: like unpackExits, for a hand-written decoder: every error exit is the error of a callee.
func codecExitsOnly(c *Ctx, r *Report, rule, fname string, nres int, consequence string) {
	fn := c.ssaFunc(fname)
	if fn == nil {
		r.cerr(rule, fname, "function not found")
		return
	}
	r.fn(fname)
	var bad []string
	for _, b := range fn.Blocks {
		ret, ok := b.Instrs[len(b.Instrs)-1].(*ssa.Return)
		if !ok || len(ret.Results) != nres {
			continue
		}
		if k, isK := ret.Results[nres-1].(*ssa.Const); isK && k.Value == nil {
			continue
		}
		fromCodec := false
		for _, f := range factsAt(fn, b) {
			bin, ok := f.Atom.(*ssa.BinOp)
			if !ok || (bin.Op != token.NEQ && bin.Op != token.EQL) {
				continue
			}
			k, isK := bin.Y.(*ssa.Const)
			if !isK || k.Value != nil {
				continue
			}
			if !((bin.Op == token.NEQ && f.Holds) || (bin.Op == token.EQL && !f.Holds)) {
				continue
			}
			for _, l := range phiLeaves(bin.X) {
				if ex, ok := l.(*ssa.Extract); ok {
					if _, isCall := ex.Tuple.(*ssa.Call); isCall {
						fromCodec = true
					}
				}
			}
		}
		if !fromCodec {
			bad = append(bad, c.pos(ret.Pos()))
		}
	}
	sort.Strings(bad)
	r.check(len(bad) == 0, rule, fname, c.pos(fn.Pos()), "codec errors only", "the error exit at %s is not the error of a field codec: %s", strings.Join(bad, ", "), consequence)
}

// subErrorSurfaces: a sub-parser that ended with an error stays attached (ZoneParser.Err reads its error through
// zp.sub): subNext detaches it only where its error is known to be nil.
func subErrorSurfaces(c *Ctx, r *Report, rule string) {
	fn := c.ssaFunc("ZoneParser.subNext")
	if fn == nil {
		r.cerr(rule, "ZoneParser.subNext", "function not found")
		return
	}
	r.fn("ZoneParser.subNext")
	n := 0
	for _, st := range storesToField(fn, "ZoneParser", "sub") {
		if k, isK := st.Val.(*ssa.Const); !isK || k.Value != nil {
			continue
		}
		n++
		okNil := false
		for _, f := range factsAt(fn, st.Block()) {
			bin, ok := f.Atom.(*ssa.BinOp)
			if !ok || (bin.Op != token.EQL && bin.Op != token.NEQ) {
				continue
			}
			if k, isK := bin.Y.(*ssa.Const); !isK || k.Value != nil {
				continue
			}
			isErr := anyIn(sliceOf(bin.X), func(v ssa.Value) bool {
				call, ok := v.(*ssa.Call)
				return ok && strings.HasSuffix(calleeNameSSA(&call.Call), "ZoneParser).Err")
			})
			if isErr && ((bin.Op == token.EQL && f.Holds) || (bin.Op == token.NEQ && !f.Holds)) {
				okNil = true
			}
		}
		r.check(okNil, rule, fmt.Sprintf("subNext:detach#%d", n), c.pos(st.Pos()), "only when sub.Err() == nil", "the sub-parser is detached without its error being known to be nil: an error of an included file that is not a syntax error (a read error: a directory, an I/O failure) is lost - Err() reports nothing, the zone looks complete and the records after the $INCLUDE are returned")
	}
	if n == 0 {
		r.undecided(rule, "ZoneParser.subNext", c.pos(fn.Pos()), "the sub-parser is never detached")
	}
}

// unterminatedQuote: endingToTxtSlice returns strings only when every quote was closed.
func unterminatedQuote(c *Ctx, r *Report, rule string) {
	fn := c.ssaFunc("endingToTxtSlice")
	if fn == nil {
		r.cerr(rule, "endingToTxtSlice", "function not found")
		return
	}
	r.fn("endingToTxtSlice")
	// the quote flag: a loop-carried bool that is toggled on a zQuote token
	var quote *ssa.Phi
	allInstrs(fn, func(in ssa.Instruction) {
		phi, ok := in.(*ssa.Phi)
		if !ok {
			return
		}
		if bt, ok := phi.Type().Underlying().(*types.Basic); !ok || bt.Kind() != types.Bool {
			return
		}
		for _, l := range phiLeaves(phi) {
			if u, ok := l.(*ssa.UnOp); ok && u.Op == token.NOT {
				for o := range sliceOf(u.X) {
					if o == ssa.Value(phi) {
						quote = phi
					}
				}
				if p2, ok := u.X.(*ssa.Phi); ok {
					_ = p2
					quote = phi
				}
			}
		}
	})
	if quote == nil {
		r.undecided(rule, "endingToTxtSlice", c.pos(fn.Pos()), "no toggled quote flag found")
		return
	}
	// the flag's phi family (header phi, merge phis in the loop body)
	family := map[ssa.Value]bool{quote: true}
	for changed := true; changed; {
		changed = false
		allInstrs(fn, func(in ssa.Instruction) {
			phi, ok := in.(*ssa.Phi)
			if !ok || family[phi] {
				return
			}
			if bt, ok := phi.Type().Underlying().(*types.Basic); !ok || bt.Kind() != types.Bool {
				return
			}
			for _, e := range phi.Edges {
				if family[e] {
					family[phi] = true
					changed = true
				}
			}
			for m := range family {
				if mp, ok := m.(*ssa.Phi); ok {
					for _, e := range mp.Edges {
						if e == ssa.Value(phi) {
							family[phi] = true
							changed = true
						}
					}
				}
			}
		})
	}
	n := 0
	var bad []string
	for _, b := range fn.Blocks {
		ret, ok := b.Instrs[len(b.Instrs)-1].(*ssa.Return)
		if !ok || len(ret.Results) != 2 {
			continue
		}
		if k, isK := ret.Results[1].(*ssa.Const); !isK || k.Value != nil {
			continue
		}
		// only the return of the collected strings (not the early `return nil, nil`)
		if k, isK := ret.Results[0].(*ssa.Const); isK && k.Value == nil {
			continue
		}
		n++
		closed := false
		for _, f := range factsAt(fn, b) {
			if family[f.Atom] && !f.Holds {
				closed = true
			}
		}
		if !closed {
			bad = append(bad, c.pos(ret.Pos()))
		}
	}
	if n == 0 {
		r.undecided(rule, "endingToTxtSlice", c.pos(fn.Pos()), "no success return after the token loop found")
		return
	}
	r.check(len(bad) == 0, rule, "endingToTxtSlice:unterminated-quote", c.pos(fn.Pos()), "quote closed", "the strings are returned at %s without the quote flag being known false: an unterminated quote swallows the rest of the zone into one character-string, no error is reported and every later record is lost", strings.Join(bad, ", "))
}

// walkThroughNextLabel: the function visits the labels of a name by feeding NextLabel's result back into NextLabel
// from offset 0 (escaped dots do not start labels).
func walkThroughNextLabel(c *Ctx, r *Report, rule, fname, consequence string) {
	fn := c.ssaFunc(fname)
	next := c.ssaFunc("NextLabel")
	if fn == nil || next == nil {
		r.cerr(rule, fname, "function not found")
		return
	}
	r.fn(fname)
	var ps []string
	calls := callsInFn(fn, next)
	if len(calls) != 1 {
		ps = append(ps, fmt.Sprintf("%d calls of NextLabel in the label walk, want one", len(calls)))
	}
	for _, ci := range calls {
		call, ok := ci.(*ssa.Call)
		if !ok {
			continue
		}
		phi, ok := call.Call.Args[1].(*ssa.Phi)
		if !ok {
			ps = append(ps, "the offset handed to NextLabel is not the loop-carried offset")
			continue
		}
		zero, fed := false, false
		for _, e := range phi.Edges {
			if k, isK := constIntOf(e); isK && k == 0 {
				zero = true
			}
			if ex, ok := e.(*ssa.Extract); ok && ex.Tuple == ssa.Value(call) && ex.Index == 0 {
				fed = true
			}
		}
		if !zero || !fed {
			ps = append(ps, "the walk does not start at 0 and continue from NextLabel's result")
		}
		// every suffix s[off:] is taken at that offset
		allInstrs(fn, func(in ssa.Instruction) {
			sl, ok := in.(*ssa.Slice)
			if !ok || sl.High != nil || sl.Low == nil {
				return
			}
			if bt, ok := sl.X.Type().Underlying().(*types.Basic); !ok || bt.Info()&types.IsString == 0 {
				return
			}
			if sl.Low != ssa.Value(phi) {
				ps = append(ps, fmt.Sprintf("%s: a suffix is taken at %s, not at the label start NextLabel found", c.pos(sl.Pos()), describeValue(sl.Low)))
			}
		})
	}
	r.check(len(ps) == 0, rule, fname, c.pos(fn.Pos()), "NextLabel from 0, fed back", "%s: %s", strings.Join(uniqStrings(ps), "; "), consequence)
}

// stopOnlyOnOverflow: Truncate's size walk leaves its loop early only where the record just measured does not fit
// (or fills the message exactly): every return inside the loop is behind a comparison of the running length with size.
func stopOnlyOnOverflow(c *Ctx, r *Report, rule string) {
	fn := c.ssaFunc("truncateLoop")
	if fn == nil {
		r.cerr(rule, "truncateLoop", "function not found")
		return
	}
	r.fn("truncateLoop")
	size := paramOf(fn, "size")
	var bad []string
	n := 0
	for _, b := range fn.Blocks {
		ret, ok := b.Instrs[len(b.Instrs)-1].(*ssa.Return)
		if !ok {
			continue
		}
		// in the loop: some block reachable from here... simpler: the return is in the loop when the loop header (the
		// block with the range's Next) dominates it and the return does not return len(rrs)
		inLoop := false
		for _, f := range factsAt(fn, b) {
			if f.If != nil {
				inLoop = true
			}
		}
		if !inLoop {
			continue
		}
		// skip the normal exit (range exhausted)
		exhausted := false
		for _, f := range factsAt(fn, b) {
			if ex, ok := f.Atom.(*ssa.Extract); ok && ex.Index == 0 && !f.Holds {
				if _, isNext := ex.Tuple.(*ssa.Next); isNext {
					exhausted = true
				}
			}
		}
		if call, ok := ret.Results[len(ret.Results)-1].(*ssa.Call); ok && calleeNameSSA(&call.Call) == "builtin.len" {
			exhausted = true // `return l, len(rrs)`: every record was measured
		}
		if exhausted {
			continue
		}
		n++
		// the deciding comparison: the last fact on the path must compare the new running length (l + r.len(...)) with size
		okCmp := false
		for _, f := range factsAt(fn, b) {
			bin, ok := f.Atom.(*ssa.BinOp)
			if !ok {
				continue
			}
			involvesLen := anyIn(sliceOf(bin.X), func(v ssa.Value) bool {
				call, ok := v.(*ssa.Call)
				return ok && call.Call.IsInvoke() && call.Call.Method.Name() == "len"
			})
			if involvesLen && bin.Y == size && f.Holds && (bin.Op == token.GTR || bin.Op == token.EQL || bin.Op == token.GEQ) {
				okCmp = true
			}
		}
		if !okCmp {
			bad = append(bad, c.pos(ret.Pos()))
		}
	}
	if n == 0 {
		r.undecided(rule, "truncateLoop", c.pos(fn.Pos()), "no early return found in the loop")
		return
	}
	sort.Strings(bad)
	r.check(len(bad) == 0, rule, "truncateLoop:early-stop", c.pos(fn.Pos()), "only when the record measured does not fit", "the walk stops at %s without the record just measured having been found not to fit (l + r.len(…) compared with size): records that would fit are dropped and TC is set on a reply that fits", strings.Join(bad, ", "))
}

// emptyKeyring: a server whose TsigSecret map is set - even emptied at run time - verifies TSIGs (and refuses every
// key); only a nil map means "no TSIG".
func emptyKeyring(c *Ctx, r *Report, rule string) {
	fn := c.ssaFunc("Server.tsigProvider")
	if fn == nil {
		r.cerr(rule, "Server.tsigProvider", "function not found")
		return
	}
	r.fn("Server.tsigProvider")
	var bad []string
	n := 0
	allInstrs(fn, func(in ssa.Instruction) {
		bin, ok := in.(*ssa.BinOp)
		if !ok {
			return
		}
		if anyIn(sliceOf(bin.X), readsField("Server", "TsigSecret")) || anyIn(sliceOf(bin.Y), readsField("Server", "TsigSecret")) {
			n++
			isNilCmp := false
			if k, isK := bin.Y.(*ssa.Const); isK && k.Value == nil {
				isNilCmp = true
			}
			if !isNilCmp {
				bad = append(bad, fmt.Sprintf("%s: %v", c.pos(bin.Pos()), bin))
			}
		}
	})
	if n == 0 {
		r.undecided(rule, "Server.tsigProvider", c.pos(fn.Pos()), "no test of TsigSecret found")
		return
	}
	r.check(len(bad) == 0, rule, "Server.tsigProvider:TsigSecret", c.pos(fn.Pos()), "compared with nil", "the key map is tested by something other than a nil comparison (%s): with a map that is set but empty (every key revoked) the server skips verification, and a request under any key, with any MAC, reaches the handler with TsigStatus() == nil", strings.Join(bad, "; "))
}

// acceptedConnNotDropped: a connection serveTCP has accepted is either handed to a connection goroutine or closed:
// no path from the successful Accept back to the loop or out of the function does neither.
func acceptedConnNotDropped(c *Ctx, r *Report, rule string) {
	fn := c.ssaFunc("Server.serveTCP")
	if fn == nil {
		r.cerr(rule, "Server.serveTCP", "function not found")
		return
	}
	r.fn("Server.serveTCP")
	var acc *ssa.Call
	allInstrs(fn, func(in ssa.Instruction) {
		if call, ok := in.(*ssa.Call); ok && call.Call.IsInvoke() && call.Call.Method.Name() == "Accept" {
			acc = call
		}
	})
	if acc == nil {
		r.undecided(rule, "Server.serveTCP", c.pos(fn.Pos()), "no Accept call found")
		return
	}
	var rw ssa.Value
	for _, ref := range *acc.Referrers() {
		if ex, ok := ref.(*ssa.Extract); ok && ex.Index == 0 {
			rw = ex
		}
	}
	// the success edge of Accept: err == nil
	var start *ssa.BasicBlock
	for _, b := range fn.Blocks {
		iff, ok := b.Instrs[len(b.Instrs)-1].(*ssa.If)
		if !ok {
			continue
		}
		bin, ok := iff.Cond.(*ssa.BinOp)
		if !ok {
			continue
		}
		ex, ok := bin.X.(*ssa.Extract)
		if !ok || ex.Tuple != ssa.Value(acc) || ex.Index != 1 {
			continue
		}
		if bin.Op == token.NEQ {
			start = b.Succs[1]
		} else if bin.Op == token.EQL {
			start = b.Succs[0]
		}
	}
	if rw == nil || start == nil {
		r.undecided(rule, "Server.serveTCP", c.pos(acc.Pos()), "the connection value or the success edge of Accept was not found")
		return
	}
	takes := func(in ssa.Instruction) bool {
		switch t := in.(type) {
		case *ssa.Go:
			for _, a := range t.Call.Args {
				if a == rw {
					return true
				}
			}
		case *ssa.Call:
			if t.Call.IsInvoke() && t.Call.Method.Name() == "Close" && t.Call.Value == rw {
				return true
			}
		}
		return false
	}
	var bad []string
	seen := map[*ssa.BasicBlock]bool{}
	stack := []*ssa.BasicBlock{start}
	for len(stack) > 0 {
		b := stack[len(stack)-1]
		stack = stack[:len(stack)-1]
		if seen[b] {
			continue
		}
		seen[b] = true
		hit := false
		for _, in := range b.Instrs {
			if takes(in) {
				hit = true
				break
			}
			if ret, ok := in.(*ssa.Return); ok {
				bad = append(bad, "return at "+c.pos(ret.Pos()))
			}
			if in == ssa.Instruction(acc) {
				bad = append(bad, "back to Accept")
			}
		}
		if !hit {
			stack = append(stack, b.Succs...)
		}
	}
	sort.Strings(bad)
	r.check(len(bad) == 0, rule, "Server.serveTCP:accepted", c.pos(acc.Pos()), "served or closed", "an accepted connection can be left without being served or closed (%s): when Shutdown wins the race the serve call and Shutdown return while that connection stays open and its client hangs", strings.Join(uniqStrings(bad), ", "))
}
