package main

// E1: isDuplicate pairs and copy positions.

import (
	"fmt"
	"go/ast"
	"go/token"
	"go/types"
	"strings"
)

type dupPair struct {
	F1, F2   *types.Var
	Root1    string // "r1" | "r2" | "?"
	Root2    string
	Cmp      string // "!=", "isDuplicateName", "(net.IP).Equal", ...
	LenOnly  bool   // len(a) != len(b)
	Indexed  bool   // a[i] vs b[i]
	InSwitch bool
	RetFalse bool // the failing outcome leads to `return false`
	Pos      token.Pos
}

// stripIndexLen reduces len(x), x[i], &x[i] to x and reports what was stripped.
func stripIndexLen(c *Ctx, e ast.Expr) (inner ast.Expr, isLen, indexed bool) {
	e = ast.Unparen(e)
	if u, ok := e.(*ast.UnaryExpr); ok && u.Op == token.AND {
		e = ast.Unparen(u.X)
	}
	if call, ok := e.(*ast.CallExpr); ok && len(call.Args) == 1 && c.calleeName(call) == "builtin.len" {
		return ast.Unparen(call.Args[0]), true, false
	}
	if ix, ok := e.(*ast.IndexExpr); ok {
		return ast.Unparen(ix.X), false, true
	}
	return e, false, false
}

// dupPairs extracts the comparisons of an isDuplicate body.
func (c *Ctx) dupPairs(fd *ast.FuncDecl) (pairs []dupPair, r2ok bool, finalTrue bool, problems []string) {
	r1 := c.recvObj(fd)
	var r2 types.Object
	param := c.paramObj(fd, 0)
	// r2, ok := _r2.(*T)
	ast.Inspect(fd.Body, func(n ast.Node) bool {
		as, ok := n.(*ast.AssignStmt)
		if !ok || as.Tok != token.DEFINE || len(as.Lhs) != 2 || len(as.Rhs) != 1 {
			return true
		}
		ta, ok := ast.Unparen(as.Rhs[0]).(*ast.TypeAssertExpr)
		if !ok || !c.isIdentOf(ta.X, param) {
			return true
		}
		if id, ok := as.Lhs[0].(*ast.Ident); ok {
			r2 = c.Info.Defs[id]
			// asserted type must be the receiver's type
			if types.Identical(c.Info.TypeOf(ta.Type), r1.Type()) {
				r2ok = true
			}
		}
		return true
	})
	rootOf := func(e ast.Expr) (string, *types.Var) {
		if p, ok := c.fieldPath(e, r1); ok && p != "" {
			return "r1", c.fieldOf(e)
		}
		if r2 != nil {
			if p, ok := c.fieldPath(e, r2); ok && p != "" {
				return "r2", c.fieldOf(e)
			}
		}
		return "?", nil
	}
	// for i, v := range r1.F: v stands for r1.F[i]
	rangeVals := map[types.Object]ast.Expr{}
	ast.Inspect(fd.Body, func(n ast.Node) bool {
		if rs, ok := n.(*ast.RangeStmt); ok && rs.Tok == token.DEFINE {
			if id, isId := rs.Value.(*ast.Ident); isId && id.Name != "_" {
				rangeVals[c.Info.Defs[id]] = rs.X
			}
		}
		return true
	})
	strip := func(e ast.Expr) (ast.Expr, bool, bool) {
		if id, ok := ast.Unparen(e).(*ast.Ident); ok {
			if x, isRV := rangeVals[c.Info.Uses[id]]; isRV {
				return ast.Unparen(x), false, true
			}
		}
		return stripIndexLen(c, e)
	}
	mk := func(a, b ast.Expr, cmp string, pos token.Pos, inSwitch, retFalse bool) {
		if cmp == "slices.Equal" {
			// equal lengths and equal elements, compared with ==
			ra, fa := rootOf(ast.Unparen(a))
			rb, fb := rootOf(ast.Unparen(b))
			if fa != nil || fb != nil {
				pairs = append(pairs,
					dupPair{F1: fa, F2: fb, Root1: ra, Root2: rb, Cmp: "!=", LenOnly: true, InSwitch: inSwitch, RetFalse: retFalse, Pos: pos},
					dupPair{F1: fa, F2: fb, Root1: ra, Root2: rb, Cmp: "!=", Indexed: true, InSwitch: inSwitch, RetFalse: retFalse, Pos: pos})
			}
			return
		}
		ia, la, xa := strip(a)
		ib, lb, xb := strip(b)
		ra, fa := rootOf(ia)
		rb, fb := rootOf(ib)
		if fa == nil && fb == nil {
			return
		}
		pairs = append(pairs, dupPair{F1: fa, F2: fb, Root1: ra, Root2: rb, Cmp: cmp, LenOnly: la && lb, Indexed: xa && xb, InSwitch: inSwitch, RetFalse: retFalse, Pos: pos})
		if la != lb || xa != xb {
			problems = append(problems, fmt.Sprintf("%s: compares %s with %s (different shapes)", c.pos(pos), types.ExprString(a), types.ExprString(b)))
		}
	}
	returnsFalse := func(b *ast.BlockStmt) bool {
		if len(b.List) != 1 {
			return false
		}
		ret, ok := b.List[0].(*ast.ReturnStmt)
		if !ok || len(ret.Results) != 1 {
			return false
		}
		tv, ok := c.Info.Types[ret.Results[0]]
		return ok && tv.Value != nil && tv.Value.String() == "false"
	}
	var walk func(list []ast.Stmt, inSwitch bool)
	handleCond := func(ifs *ast.IfStmt, inSwitch bool) {
		rf := returnsFalse(ifs.Body) && ifs.Else == nil
		var conds []ast.Expr
		var split func(e ast.Expr)
		split = func(e ast.Expr) {
			e = ast.Unparen(e)
			if b, ok := e.(*ast.BinaryExpr); ok && b.Op == token.LOR {
				split(b.X)
				split(b.Y)
				return
			}
			conds = append(conds, e)
		}
		split(ifs.Cond)
		for _, e := range conds {
			switch t := e.(type) {
			case *ast.BinaryExpr:
				if t.Op == token.NEQ {
					mk(t.X, t.Y, "!=", t.Pos(), inSwitch, rf)
				} else if t.Op == token.EQL || t.Op == token.LSS || t.Op == token.GTR || t.Op == token.LAND {
					mk(t.X, t.Y, t.Op.String(), t.Pos(), inSwitch, false)
				}
			case *ast.UnaryExpr:
				if t.Op == token.NOT {
					if call, ok := ast.Unparen(t.X).(*ast.CallExpr); ok {
						name := c.calleeName(call)
						if sel, ok := call.Fun.(*ast.SelectorExpr); ok && len(call.Args) == 1 {
							if _, isM := c.Info.Selections[sel]; isM {
								mk(sel.X, call.Args[0], name, t.Pos(), inSwitch, rf)
								continue
							}
						}
						if len(call.Args) == 2 {
							mk(call.Args[0], call.Args[1], name, t.Pos(), inSwitch, rf)
						}
					}
				}
			case *ast.CallExpr:
				// positive call as a condition: wrong polarity for `return false`
				if len(t.Args) == 2 {
					mk(t.Args[0], t.Args[1], c.calleeName(t), t.Pos(), inSwitch, false)
				}
			}
		}
	}
	walk = func(list []ast.Stmt, inSwitch bool) {
		for _, s := range list {
			switch st := s.(type) {
			case *ast.IfStmt:
				handleCond(st, inSwitch)
				if !returnsFalse(st.Body) {
					walk(st.Body.List, inSwitch)
				}
			case *ast.ForStmt:
				walk(st.Body.List, inSwitch)
			case *ast.RangeStmt:
				walk(st.Body.List, inSwitch)
			case *ast.SwitchStmt:
				for _, cl := range st.Body.List {
					walk(cl.(*ast.CaseClause).Body, true)
				}
			case *ast.BlockStmt:
				walk(st.List, inSwitch)
			}
		}
	}
	walk(fd.Body.List, false)
	if n := len(fd.Body.List); n > 0 {
		if ret, ok := fd.Body.List[n-1].(*ast.ReturnStmt); ok && len(ret.Results) == 1 {
			if tv, ok := c.Info.Types[ret.Results[0]]; ok && tv.Value != nil && tv.Value.String() == "true" {
				finalTrue = true
			} else {
				// `return a == b && cmp(c, d) && ...`: each conjunct is the positive form of `if <negation> { return false }`
				var conj []ast.Expr
				var split func(e ast.Expr)
				split = func(e ast.Expr) {
					e = ast.Unparen(e)
					if b, ok := e.(*ast.BinaryExpr); ok && b.Op == token.LAND {
						split(b.X)
						split(b.Y)
						return
					}
					conj = append(conj, e)
				}
				split(ret.Results[0])
				all := len(conj) > 0
				for _, e := range conj {
					switch t := e.(type) {
					case *ast.BinaryExpr:
						if t.Op == token.EQL {
							mk(t.X, t.Y, "!=", t.Pos(), false, true)
						} else {
							all = false
						}
					case *ast.CallExpr:
						name := c.calleeName(t)
						if sel, ok := t.Fun.(*ast.SelectorExpr); ok && len(t.Args) == 1 {
							if _, isM := c.Info.Selections[sel]; isM {
								mk(sel.X, t.Args[0], name, t.Pos(), false, true)
								continue
							}
						}
						if len(t.Args) == 2 {
							mk(t.Args[0], t.Args[1], name, t.Pos(), false, true)
						} else {
							all = false
						}
					default:
						all = false
					}
				}
				finalTrue = all
			}
		}
	}
	return
}

// dupComparator is the accepted comparator of a wire kind (DESIGN.md Appendix A).
func dupComparator(bk string) (cmp string, needLen bool) {
	switch bk {
	case "C", "N":
		return "isDuplicateName", false
	case "N*":
		return "isDuplicateName", true
	case "cs+", "bm":
		return "!=", true
	case "v4", "v6":
		return "(net.IP).Equal", false
	case "svc":
		return "areSVCBPairArraysEqual", false
	case "apl":
		return "(APLPrefix).equals", true
	default:
		return "!=", false
	}
}

// checkDupPairs is rule dup-pairs for one type.
func (c *Ctx) checkDupPairs(r *Report, rule string, t *rrType) {
	fname := t.Name + ".isDuplicate"
	fd := c.decl(fname)
	if fd == nil || fd.Body == nil {
		r.fail(rule, t.Name, "", "no method %s", fname)
		return
	}
	r.fn(fname)
	pos := c.pos(fd.Pos())
	if t.Embeds != "" && c.dupDelegates(fd, t.Embeds) {
		// the RDATA is the embedded record's: its own isDuplicate (an obligation of its own) compares the fields
		r.ok(rule, t.Name, pos, "delegates to ("+t.Embeds+").isDuplicate on the embedded records of both sides")
		return
	}
	pairs, r2ok, finalTrue, problems := c.dupPairs(fd)
	if !r2ok {
		problems = append(problems, "the argument is not type-asserted to the receiver's own type")
	}
	if !finalTrue {
		problems = append(problems, "the last statement is not `return true`")
	}
	kinds := map[*types.Var]string{}
	for _, f := range t.Fields {
		k, err := kindOf(f)
		if err != nil {
			r.fail(rule, t.Name, pos, "%v", err)
			return
		}
		kinds[f.Var] = k
	}
	covered := map[*types.Var]bool{}
	lenSeen := map[*types.Var]bool{}
	for _, p := range pairs {
		where := c.pos(p.Pos)
		if p.F1 == nil || p.F2 == nil || p.F1 != p.F2 {
			problems = append(problems, fmt.Sprintf("%s: compares field %s with field %s", where, vname(p.F1), vname(p.F2)))
			continue
		}
		if !((p.Root1 == "r1" && p.Root2 == "r2") || (p.Root1 == "r2" && p.Root2 == "r1")) {
			problems = append(problems, fmt.Sprintf("%s: field %s is compared with itself on the same record (%s vs %s)", where, p.F1.Name(), p.Root1, p.Root2))
			continue
		}
		k, isWire := kinds[p.F1]
		if !isWire {
			problems = append(problems, fmt.Sprintf("%s: compares %s, which is not an RDATA field (TTL/RDLENGTH must not take part)", where, p.F1.Name()))
			continue
		}
		if !p.RetFalse {
			problems = append(problems, fmt.Sprintf("%s: comparison of %s does not lead to `return false` on inequality", where, p.F1.Name()))
			continue
		}
		if p.LenOnly {
			lenSeen[p.F1] = true
			continue
		}
		bk := baseKind(k)
		want, needLen := dupComparator(bk)
		if bk == "-" || bk == "gw" {
			// gateway union: address through net.IP.Equal, host through isDuplicateName, inside the selector switch
			if p.F1.Name() == "GatewayAddr" {
				want = "(net.IP).Equal"
			} else {
				want = "isDuplicateName"
			}
			if !p.InSwitch {
				problems = append(problems, fmt.Sprintf("%s: gateway field %s compared outside the selector switch", where, p.F1.Name()))
			}
		}
		if p.Cmp != want {
			problems = append(problems, fmt.Sprintf("%s: field %s (%s) compared with %s, the comparator of its kind is %s", where, p.F1.Name(), k, p.Cmp, want))
			continue
		}
		if needLen && bk != "svc" && !p.Indexed {
			problems = append(problems, fmt.Sprintf("%s: slice field %s compared without element indexing", where, p.F1.Name()))
			continue
		}
		covered[p.F1] = true
	}
	for _, f := range t.Fields {
		k := baseKind(kinds[f.Var])
		if !covered[f.Var] {
			problems = append(problems, fmt.Sprintf("field %s (%s) takes no part in the comparison", f.Name, kinds[f.Var]))
			continue
		}
		if _, needLen := dupComparator(k); needLen && !lenSeen[f.Var] {
			problems = append(problems, fmt.Sprintf("slice field %s is compared element-wise without a length test", f.Name))
		}
	}
	if len(problems) == 0 {
		r.ok(rule, t.Name, pos, fmt.Sprintf("%d fields, %d comparisons", len(t.Fields), len(pairs)))
	} else {
		r.fail(rule, t.Name, pos, "%s", strings.Join(problems, "; "))
	}
}

func vname(v *types.Var) string {
	if v == nil {
		return "<none>"
	}
	return v.Name()
}

// ---- copy positions ----

// checkCopyPos: in (*T).copy, position i of the returned composite is initialised from field i of the receiver.
func (c *Ctx) checkCopyPos(r *Report, rule string, t *rrType) {
	fname := t.Name + ".copy"
	fd := c.decl(fname)
	if fd == nil || fd.Body == nil {
		r.fail(rule, t.Name, "", "no method %s", fname)
		return
	}
	r.fn(fname)
	pos := c.pos(fd.Pos())
	recv := c.recvObj(fd)
	// locals: name -> set of receiver fields mentioned in statements that define/assign them
	localFields := map[types.Object]map[*types.Var]bool{}
	mentions := func(e ast.Node, into map[*types.Var]bool) {
		ast.Inspect(e, func(n ast.Node) bool {
			if se, ok := n.(*ast.SelectorExpr); ok {
				if p, ok := c.fieldPath(se, recv); ok && p != "" && !strings.Contains(p, ".") {
					into[c.fieldOf(se)] = true
					return false
				}
				if p, ok := c.fieldPath(se, recv); ok && strings.Contains(p, ".") {
					// rr.SVCB.F style or rr.Hdr.X
					into[c.fieldOf(se)] = true
				}
			}
			return true
		})
	}
	var ret *ast.ReturnStmt
	for _, s := range fd.Body.List {
		switch st := s.(type) {
		case *ast.AssignStmt:
			for i, l := range st.Lhs {
				base := ast.Unparen(l)
				if ix, ok := base.(*ast.IndexExpr); ok {
					base = ast.Unparen(ix.X)
				}
				id, ok := base.(*ast.Ident)
				if !ok {
					continue
				}
				o := c.Info.Defs[id]
				if o == nil {
					o = c.Info.Uses[id]
				}
				if o == nil {
					continue
				}
				if localFields[o] == nil {
					localFields[o] = map[*types.Var]bool{}
				}
				if i < len(st.Rhs) {
					mentions(st.Rhs[i], localFields[o])
				} else if len(st.Rhs) == 1 {
					mentions(st.Rhs[0], localFields[o])
				}
			}
		case *ast.RangeStmt:
			// for i, e := range rr.F { Local[i] = e.copy() }: attribute rr.F to every local assigned in the body
			set := map[*types.Var]bool{}
			mentions(st.X, set)
			ast.Inspect(st.Body, func(n ast.Node) bool {
				if as, ok := n.(*ast.AssignStmt); ok {
					for _, l := range as.Lhs {
						base := ast.Unparen(l)
						if ix, ok := base.(*ast.IndexExpr); ok {
							base = ast.Unparen(ix.X)
						}
						if id, ok := base.(*ast.Ident); ok {
							if o := c.Info.Uses[id]; o != nil {
								if localFields[o] == nil {
									localFields[o] = map[*types.Var]bool{}
								}
								for f := range set {
									localFields[o][f] = true
								}
							}
						}
					}
				}
				return true
			})
		case *ast.ReturnStmt:
			ret = st
		}
	}
	if ret == nil || len(ret.Results) != 1 {
		r.undecided(rule, t.Name, pos, "no single return statement at the top level of copy")
		return
	}
	e := ast.Unparen(ret.Results[0])
	var crossFill []string
	if id, isId := e.(*ast.Ident); isId {
		// c := &T{...}; for i, e := range rr.F { c.F[i] = e.copy() }; return c — the literal the variable is made
		// from, once, at the top level; what is filled in afterwards goes into the field it is ranged from
		o := c.Info.Uses[id]
		var def ast.Expr
		nDef := 0
		for _, s := range fd.Body.List {
			switch st := s.(type) {
			case *ast.AssignStmt:
				for i, l := range st.Lhs {
					if lid, ok := l.(*ast.Ident); ok && (c.Info.Defs[lid] == o || c.Info.Uses[lid] == o) && o != nil {
						nDef++
						if len(st.Lhs) == len(st.Rhs) {
							def = st.Rhs[i]
						}
					}
				}
			case *ast.RangeStmt:
				from := map[*types.Var]bool{}
				mentions(st.X, from)
				ast.Inspect(st.Body, func(n ast.Node) bool {
					as, ok := n.(*ast.AssignStmt)
					if !ok {
						return true
					}
					for _, l := range as.Lhs {
						base := ast.Unparen(l)
						if ix, ok := base.(*ast.IndexExpr); ok {
							base = ast.Unparen(ix.X)
						}
						if sel, ok := base.(*ast.SelectorExpr); ok && c.isIdentOf(sel.X, o) {
							if f := c.fieldOf(sel); f != nil && (len(from) != 1 || !from[f]) {
								var names []string
								for k := range from {
									names = append(names, k.Name())
								}
								crossFill = append(crossFill, fmt.Sprintf("field %s of the copy is filled from a loop over [%s]", f.Name(), strings.Join(names, ",")))
							}
						}
					}
					return true
				})
			}
		}
		if nDef == 1 && def != nil {
			e = ast.Unparen(def)
		}
	}
	if u, ok := e.(*ast.UnaryExpr); ok && u.Op == token.AND {
		e = ast.Unparen(u.X)
	}
	lit, ok := e.(*ast.CompositeLit)
	if !ok {
		r.undecided(rule, t.Name, pos, "copy does not return a composite literal")
		return
	}
	if tn, ok := c.Info.TypeOf(lit).(*types.Named); !ok || tn.Obj().Name() != t.Name {
		r.fail(rule, t.Name, pos, "copy returns a %s", typeStr(c.Info.TypeOf(lit)))
		return
	}
	problems := crossFill
	if t.Embeds != "" {
		// &HTTPS{*rr.SVCB.copy().(*SVCB)}
		if len(lit.Elts) != 1 {
			problems = append(problems, "embedded record literal must have exactly one element")
		} else {
			okForm := false
			ast.Inspect(lit.Elts[0], func(n ast.Node) bool {
				if call, ok := n.(*ast.CallExpr); ok {
					if c.calleeName(call) == "("+t.Embeds+").copy" {
						if sel, ok := call.Fun.(*ast.SelectorExpr); ok {
							if p, ok := c.fieldPath(sel.X, recv); ok && p == t.Embeds {
								okForm = true
							}
						}
					}
				}
				return true
			})
			if !okForm {
				problems = append(problems, fmt.Sprintf("embedded %s is not initialised from rr.%s.copy()", t.Embeds, t.Embeds))
			}
		}
	} else {
		st := t.Named.Underlying().(*types.Struct)
		elemFor := make([]ast.Expr, st.NumFields())
		keyed := false
		for i, el := range lit.Elts {
			if kv, ok := el.(*ast.KeyValueExpr); ok {
				keyed = true
				if id, ok := kv.Key.(*ast.Ident); ok {
					for j := 0; j < st.NumFields(); j++ {
						if st.Field(j).Name() == id.Name {
							elemFor[j] = kv.Value
						}
					}
				}
			} else if i < len(elemFor) {
				elemFor[i] = el
			}
		}
		_ = keyed
		for j := 0; j < st.NumFields(); j++ {
			f := st.Field(j)
			el := elemFor[j]
			if el == nil {
				problems = append(problems, fmt.Sprintf("field %s is not initialised in the copy", f.Name()))
				continue
			}
			set := map[*types.Var]bool{}
			mentions(el, set)
			ast.Inspect(el, func(n ast.Node) bool {
				if id, ok := n.(*ast.Ident); ok {
					if lf := localFields[c.Info.Uses[id]]; lf != nil {
						for k := range lf {
							set[k] = true
						}
					}
				}
				return true
			})
			if len(set) != 1 || !set[f] {
				var names []string
				for k := range set {
					names = append(names, k.Name())
				}
				problems = append(problems, fmt.Sprintf("position %d (field %s) is initialised from [%s]", j, f.Name(), strings.Join(names, ",")))
			}
		}
	}
	if len(problems) == 0 {
		r.ok(rule, t.Name, pos, "every field copied from itself")
	} else {
		r.fail(rule, t.Name, pos, "%s", strings.Join(problems, "; "))
	}
}

// dupDelegates: the body is `r2, ok := _r2.(*T); if !ok { return false }; return r1.E.isDuplicate(&r2.E)` — nothing
// else is compared, and the embedded records handed to E's isDuplicate are the receiver's and the asserted argument's.
func (c *Ctx) dupDelegates(fd *ast.FuncDecl, embeds string) bool {
	r1 := c.recvObj(fd)
	param := c.paramObj(fd, 0)
	var r2 types.Object
	nRet := 0
	var last *ast.ReturnStmt
	okShape := true
	for _, st := range fd.Body.List {
		switch t := st.(type) {
		case *ast.AssignStmt:
			if t.Tok == token.DEFINE && len(t.Lhs) == 2 && len(t.Rhs) == 1 {
				if ta, ok := ast.Unparen(t.Rhs[0]).(*ast.TypeAssertExpr); ok && c.isIdentOf(ta.X, param) && types.Identical(c.Info.TypeOf(ta.Type), r1.Type()) {
					if id, ok := t.Lhs[0].(*ast.Ident); ok {
						r2 = c.Info.Defs[id]
						continue
					}
				}
			}
			if len(t.Lhs) == 1 && identName(t.Lhs[0]) == "_" {
				continue
			}
			okShape = false
		case *ast.IfStmt:
			// if !ok { return false }
			if len(t.Body.List) != 1 || t.Else != nil {
				okShape = false
				continue
			}
			ret, ok := t.Body.List[0].(*ast.ReturnStmt)
			if !ok || len(ret.Results) != 1 {
				okShape = false
				continue
			}
			if tv, has := c.Info.Types[ret.Results[0]]; !has || tv.Value == nil || tv.Value.String() != "false" {
				okShape = false
			}
		case *ast.ReturnStmt:
			nRet++
			last = t
		default:
			okShape = false
		}
	}
	if !okShape || nRet != 1 || last == nil || r2 == nil || len(last.Results) != 1 {
		return false
	}
	call, ok := ast.Unparen(last.Results[0]).(*ast.CallExpr)
	if !ok || c.calleeName(call) != "("+embeds+").isDuplicate" || len(call.Args) != 1 {
		return false
	}
	sel, ok := ast.Unparen(call.Fun).(*ast.SelectorExpr)
	if !ok {
		return false
	}
	if p, ok := c.fieldPath(sel.X, r1); !ok || p != embeds {
		return false
	}
	arg := ast.Unparen(call.Args[0])
	if u, ok := arg.(*ast.UnaryExpr); ok && u.Op == token.AND {
		arg = ast.Unparen(u.X)
	}
	p, ok := c.fieldPath(arg, r2)
	return ok && p == embeds
}
