package main

// Rules added after the twelfth round of independent breaking changes (first part).

import (
	"fmt"
	"go/token"
	"go/types"
	"strings"

	"golang.org/x/tools/go/ssa"
)

// localCallees lists fn, its closures and the package-local functions they call statically, to the given depth.
func localCallees(c *Ctx, fn *ssa.Function, depth int) []*ssa.Function {
	seen := map[*ssa.Function]bool{}
	var out []*ssa.Function
	var walk func(f *ssa.Function, d int)
	walk = func(f *ssa.Function, d int) {
		if f == nil || seen[f] || len(f.Blocks) == 0 {
			return
		}
		seen[f] = true
		out = append(out, f)
		for _, a := range f.AnonFuncs {
			walk(a, d)
		}
		if d == 0 {
			return
		}
		allInstrs(f, func(in ssa.Instruction) {
			ci, ok := in.(ssa.CallInstruction)
			if !ok {
				return
			}
			if cal := ci.Common().StaticCallee(); cal != nil && cal.Pkg != nil && fn.Pkg != nil && cal.Pkg == fn.Pkg {
				walk(cal, d-1)
			}
		})
	}
	walk(fn, depth)
	return out
}

// readRRReportsErr: every return of ReadRR hands out what ZoneParser.Err says after the read. Next can hand out a
// record and have an error to report at the same time (a reader that fails in mid-record, a bad $GENERATE modifier
// late in the template): a nil error chosen because a record came back hides it.
func readRRReportsErr(c *Ctx, r *Report, rule string) {
	r.rule(rule, 1, "every return of ReadRR carries the result of ZoneParser.Err, asked after Next")
	fn := c.ssaFunc("ReadRR")
	if fn == nil {
		r.cerr(rule, "ReadRR", "function not found")
		return
	}
	r.fn("ReadRR")
	var bad []string
	n := 0
	for _, rp := range returnPoints(fn, 1) {
		n++
		ok := false
		if call, isCall := rp.Results[1].(*ssa.Call); isCall && calleeNameSSA(&call.Call) == "(ZoneParser).Err" {
			for _, nx := range callsIn(fn, "(ZoneParser).Next") {
				if nx.Block() == call.Block() && precedes(nx, call) || nx.Block().Dominates(call.Block()) && nx.Block() != call.Block() {
					ok = true
				}
			}
		}
		if !ok && isNilConst(rp.Results[1]) {
			// `if err := zp.Err(); err != nil { return rr, err }; return rr, nil`: nil where Err() is known to be nil
			for _, f := range rp.factsOf(fn) {
				b, isB := f.Atom.(*ssa.BinOp)
				if !isB || (b.Op != token.EQL && b.Op != token.NEQ) {
					continue
				}
				x, y := b.X, b.Y
				if isNilConst(x) {
					x, y = y, x
				}
				call, isCall := x.(*ssa.Call)
				if !isNilConst(y) || !isCall || calleeNameSSA(&call.Call) != "(ZoneParser).Err" {
					continue
				}
				if (b.Op == token.EQL) == f.Holds {
					for _, nx := range callsIn(fn, "(ZoneParser).Next") {
						if nx.Block() == call.Block() && precedes(nx, call) || nx.Block().Dominates(call.Block()) && nx.Block() != call.Block() {
							ok = true
						}
					}
				}
			}
		}
		if !ok {
			bad = append(bad, fmt.Sprintf("%s returns %s as its error", c.pos(rp.Pos), describeValue(rp.Results[1])))
		}
	}
	r.check(n > 0 && len(bad) == 0, rule, "ReadRR", c.pos(fn.Pos()), "zp.Err() after zp.Next()", "%s: a record cut off by a read error or by a syntax error met behind its first fields comes back from ReadRR / NewRR with a nil error", strings.Join(bad, "; "))
}

// iterationsOnlyHashed: the NSEC3 methods of nsecx.go hand the iteration count to HashName and do nothing else with
// it: RFC 5155 matching and covering are defined for every count the field can hold.
func iterationsOnlyHashed(c *Ctx, r *Report, rule string) {
	r.rule(rule, 2, "NSEC3.Cover and NSEC3.Match use the Iterations field only as an argument of HashName")
	for _, name := range []string{"NSEC3.Cover", "NSEC3.Match"} {
		fn := c.ssaFunc(name)
		if fn == nil {
			r.cerr(rule, name, "function not found")
			continue
		}
		r.fn(name)
		var bad []string
		n := 0
		isIter := readsField("NSEC3", "Iterations")
		for _, f := range localCallees(c, fn, 2) {
			allInstrs(f, func(in ssa.Instruction) {
				v, ok := in.(ssa.Value)
				if !ok || !isIter(v) {
					return
				}
				var uses func(v ssa.Value, depth int)
				uses = func(v ssa.Value, depth int) {
					if v.Referrers() == nil || depth > 4 {
						return
					}
					for _, ref := range *v.Referrers() {
						switch t := ref.(type) {
						case *ssa.DebugRef:
						case *ssa.UnOp:
							if t.Op == token.MUL {
								uses(t, depth+1)
							} else {
								bad = append(bad, fmt.Sprintf("%s: %s", c.pos(t.Pos()), t.String()))
							}
						case *ssa.Call:
							n++
							if calleeNameSSA(&t.Call) != "HashName" {
								bad = append(bad, fmt.Sprintf("%s: passed to %s", c.pos(t.Pos()), calleeNameSSA(&t.Call)))
							}
						case *ssa.Convert:
							uses(t, depth+1)
						case *ssa.ChangeType:
							uses(t, depth+1)
						default:
							bad = append(bad, fmt.Sprintf("%s: used by %s", c.pos(ref.Pos()), ref.String()))
						}
					}
				}
				uses(v, 0)
			})
		}
		r.check(n > 0 && len(bad) == 0, rule, name, c.pos(fn.Pos()), "Iterations -> HashName only", "the iteration count is %s: a record is treated differently by its count, so for some counts a name whose hash is the owner hash does not match, or a hash inside the interval is not covered", strings.Join(uniqStrings(bad), "; "))
	}
}

// formatsInUTC: a time that is formatted into presentation text in package dns is a UTC time: the receiver of
// Format / AppendFormat went through (time.Time).UTC (or In(time.UTC)). StringToTime reads the text with time.Parse
// and a layout without a zone, which is UTC.
func formatsInUTC(c *Ctx, r *Report, rule string) {
	r.rule(rule, 1, "every time.Time formatted by TimeToString is a UTC time")
	fn := c.ssaFunc("TimeToString")
	if fn == nil {
		r.cerr(rule, "TimeToString", "function not found")
		return
	}
	r.fn("TimeToString")
	n := 0
	var bad []string
	for _, f := range localCallees(c, fn, 2) {
		allInstrs(f, func(in ssa.Instruction) {
			call, ok := in.(*ssa.Call)
			if !ok {
				return
			}
			name := calleeNameSSA(&call.Call)
			if name != "(time.Time).Format" && name != "(time.Time).AppendFormat" {
				return
			}
			n++
			utc := false
			for v := range sliceOf(call.Call.Args[0]) {
				if cl, isCall := v.(*ssa.Call); isCall {
					switch calleeNameSSA(&cl.Call) {
					case "(time.Time).UTC":
						utc = true
					case "(time.Time).In":
						if len(cl.Call.Args) == 2 && anyIn(sliceOf(cl.Call.Args[1]), isGlobal("UTC")) {
							utc = true
						}
					}
				}
			}
			if !utc {
				bad = append(bad, c.pos(call.Pos()))
			}
		})
	}
	r.check(n > 0 && len(bad) == 0, rule, "TimeToString", c.pos(fn.Pos()), fmt.Sprintf("%d formatting call(s) on a UTC time", n), "the time formatted at %s did not pass through UTC(): time.Unix returns a local time, so inception and expiration are printed in the zone of the host and read back (as UTC) shifted by its offset", strings.Join(bad, ", "))
}

// tsigVerifiedWhenPresent: in Conn.ReadMsg every message that decoded and carries a TSIG record is verified before it
// is returned: from the edge on which IsTsig's result is known non-nil every path passes TsigVerifyWithProvider.
func tsigVerifiedWhenPresent(c *Ctx, r *Report, rule string) {
	r.rule(rule, 1, "Conn.ReadMsg verifies every decoded message that carries a TSIG")
	fn := c.ssaFunc("Conn.ReadMsg")
	if fn == nil {
		r.cerr(rule, "Conn.ReadMsg", "function not found")
		return
	}
	r.fn("Conn.ReadMsg")
	isVerify := func(in ssa.Instruction) bool {
		cl, isCall := in.(*ssa.Call)
		if !isCall {
			return false
		}
		nm := calleeNameSSA(&cl.Call)
		return nm == "TsigVerifyWithProvider" || nm == "TsigVerify" || nm == "tsigVerify"
	}
	// tsigTests: the tests of IsTsig()'s result against nil in f, with the edge on which it is non-nil
	type tsigTest struct {
		iff    *ssa.If
		nonNil *ssa.BasicBlock
	}
	testsIn := func(f *ssa.Function) []tsigTest {
		var out []tsigTest
		for _, b := range f.Blocks {
			iff, ok := b.Instrs[len(b.Instrs)-1].(*ssa.If)
			if !ok {
				continue
			}
			bin, ok := iff.Cond.(*ssa.BinOp)
			if !ok || (bin.Op != token.NEQ && bin.Op != token.EQL) {
				continue
			}
			x, y := bin.X, bin.Y
			if isNilConst(x) {
				x, y = y, x
			}
			if !isNilConst(y) {
				continue
			}
			fromTsig := false
			for v := range sliceOf(x) {
				if cl, isCall := v.(*ssa.Call); isCall && calleeNameSSA(&cl.Call) == "(Msg).IsTsig" {
					fromTsig = true
				}
			}
			if !fromTsig {
				continue
			}
			nonNil := b.Succs[0]
			if bin.Op == token.EQL {
				nonNil = b.Succs[1]
			}
			out = append(out, tsigTest{iff, nonNil})
		}
		return out
	}
	n := 0
	var bad []string
	verifies := map[*ssa.Function]bool{} // helpers that test IsTsig and verify on the non-nil edge, on every path
	for _, f := range localCallees(c, fn, 2) {
		ts := testsIn(f)
		good := len(ts) > 0
		for _, t := range ts {
			n++
			okPass, at := mustPass(f, t.nonNil, -1, isVerify)
			if !okPass {
				good = false
				where := ""
				if at != nil && len(at.Instrs) > 0 {
					where = c.pos(at.Instrs[len(at.Instrs)-1].Pos())
				}
				bad = append(bad, fmt.Sprintf("from the test at %s a return (%s) is reached without the verification", c.pos(t.iff.Cond.Pos()), where))
			}
		}
		if good && f != fn {
			// the helper looks at the TSIG on every path?
			if okAll, _ := mustPass(f, f.Blocks[0], -1, func(in ssa.Instruction) bool {
				for _, t := range ts {
					if in == ssa.Instruction(t.iff) {
						return true
					}
				}
				return false
			}); okAll {
				verifies[f] = true
			}
		}
	}
	// where the test lives in a helper, ReadMsg reaches the helper on every path behind a successful Unpack
	if len(testsIn(fn)) == 0 {
		reached := false
		for _, b := range fn.Blocks {
			iff, ok := b.Instrs[len(b.Instrs)-1].(*ssa.If)
			if !ok {
				continue
			}
			bin, ok := iff.Cond.(*ssa.BinOp)
			if !ok || (bin.Op != token.NEQ && bin.Op != token.EQL) {
				continue
			}
			x, y := bin.X, bin.Y
			if isNilConst(x) {
				x, y = y, x
			}
			call, isCall := x.(*ssa.Call)
			if !isNilConst(y) || !isCall || calleeNameSSA(&call.Call) != "(Msg).Unpack" {
				continue
			}
			okEdge := b.Succs[1]
			if bin.Op == token.EQL {
				okEdge = b.Succs[0]
			}
			reached = true
			if okPass, _ := mustPass(fn, okEdge, -1, func(in ssa.Instruction) bool {
				if ci, isCI := in.(ssa.CallInstruction); isCI {
					if g := ci.Common().StaticCallee(); g != nil && verifies[g] {
						return true
					}
				}
				return false
			}); !okPass {
				bad = append(bad, fmt.Sprintf("behind the successful Unpack at %s a return is reached without the function that looks at the TSIG", c.pos(call.Pos())))
			}
		}
		if !reached {
			bad = append(bad, "no test of Unpack's error found in front of the TSIG step")
		}
	}
	r.check(n > 0 && len(bad) == 0, rule, "Conn.ReadMsg", c.pos(fn.Pos()), "IsTsig() != nil => TsigVerifyWithProvider", "%s: a reply that carries a TSIG is handed to the caller with a nil error although its MAC was never looked at (any forged reply of that shape is accepted)", strings.Join(bad, "; "))
}

// ixfrReadByIxfr: Transfer.In starts inIxfr for every IXFR question and inAxfr for every AXFR question: on the edge
// where the question type is known, every path reaches the matching reader and none the other.
func ixfrReadByIxfr(c *Ctx, r *Report, rule string) {
	r.rule(rule, 2, "Transfer.In reads the answer to an IXFR question with inIxfr and to an AXFR question with inAxfr, whatever the message says otherwise")
	fn := c.ssaFunc("Transfer.In")
	if fn == nil {
		r.cerr(rule, "Transfer.In", "function not found")
		return
	}
	r.fn("Transfer.In")
	goCalls := func(name string) []ssa.CallInstruction {
		var out []ssa.CallInstruction
		for _, ci := range callsIn(fn, name) {
			if _, isGo := ci.(*ssa.Go); isGo {
				out = append(out, ci)
			}
		}
		return out
	}
	for _, k := range []struct{ typ, want, other string }{{"TypeIXFR", "(Transfer).inIxfr", "(Transfer).inAxfr"}, {"TypeAXFR", "(Transfer).inAxfr", "(Transfer).inIxfr"}} {
		tv, okc := c.constInt(k.typ)
		if !okc {
			r.cerr(rule, k.typ, "constant not found")
			continue
		}
		want, other := goCalls(k.want), goCalls(k.other)
		_ = other
		var bad []string
		n := 0
		isType := Guard{Name: "Qtype == " + k.typ, Op: "eq", A: readsField("Question", "Qtype"), B: isConstInt(tv), Holds: true}
		for _, w := range want {
			if miss := guardsMissing(fn, w.Block(), []Guard{isType}); len(miss) > 0 {
				bad = append(bad, fmt.Sprintf("`go %s` at %s is not confined to questions of type %s", k.want, c.pos(w.Pos()), k.typ))
			}
		}
		for _, b := range fn.Blocks {
			iff, ok := b.Instrs[len(b.Instrs)-1].(*ssa.If)
			if !ok {
				continue
			}
			bin, ok := iff.Cond.(*ssa.BinOp)
			if !ok || bin.Op != token.EQL {
				continue
			}
			kv, isK := constIntOf(bin.Y)
			xv := bin.X
			if !isK {
				kv, isK = constIntOf(bin.X)
				xv = bin.Y
			}
			if !isK || kv != tv || !anyIn(sliceOf(xv), readsField("Question", "Qtype")) {
				continue
			}
			edge := b.Succs[0]
			leads := false
			if len(edge.Preds) != 1 {
				continue // the edge is not a place of its own: what follows is reached on other ways too
			}
			for _, w := range want {
				if edge == w.Block() || edge.Dominates(w.Block()) {
					leads = true
				}
			}
			if !leads {
				continue
			}
			n++
			okPass, _ := mustPass(fn, edge, -1, func(in ssa.Instruction) bool {
				for _, w := range want {
					if in == ssa.Instruction(w) {
						return true
					}
				}
				return false
			})
			if !okPass {
				bad = append(bad, fmt.Sprintf("from the %s edge at %s a return is reached without `go %s`", k.typ, c.pos(iff.Cond.Pos()), k.want))
			}
		}
		r.check(n > 0 && len(bad) == 0, rule, "Transfer.In:"+k.typ, c.pos(fn.Pos()), "go "+k.want, "%s: the two answer formats differ (RFC 1995: a single SOA means 'up to date', difference sequences are bracketed by SOAs), so an answer read by the other state machine is cut off at its first inner SOA or never ends", strings.Join(bad, "; "))
	}
}

// startedNotClearedByLoops: the serve loops do not clear Server.started once they may have started a handler: the flag
// belongs to the generation started last, and a loop of an earlier generation (Shutdown gave up on its context, the
// server was started again) that clears it on its way out stops the running server.
func startedNotClearedByLoops(c *Ctx, r *Report, rule string) {
	r.rule(rule, 2, "serveTCP / serveUDP store into Server.started only on a way out that has started nothing")
	for _, name := range []string{"Server.serveTCP", "Server.serveUDP", "Server.serveTCPConn", "Server.serveUDPPacket"} {
		fn := c.ssaFunc(name)
		if fn == nil {
			r.cerr(rule, name, "function not found")
			continue
		}
		r.fn(name)
		storesIn := func(f *ssa.Function) []*ssa.Store { return storesToField(f, "Server", "started") }
		// functions (other than fn itself) reachable from fn that store into started
		writers := map[*ssa.Function]bool{}
		for _, f := range localCallees(c, fn, 3) {
			if f != fn && len(storesIn(f)) > 0 {
				writers[f] = true
			}
		}
		var bad []string
		// in fn itself: a store or a call of a writer must not be reachable from a point that has started something
		started := map[*ssa.BasicBlock]bool{}
		for _, b := range fn.Blocks {
			for _, in := range b.Instrs {
				switch t := in.(type) {
				case *ssa.Go:
					started[b] = true
				case *ssa.Call:
					nm := calleeNameSSA(&t.Call)
					if nm == "(Server).isStarted" || strings.HasSuffix(nm, ".Accept") || strings.HasPrefix(nm, "(Server).read") {
						started[b] = true
					}
				}
			}
		}
		after := map[*ssa.BasicBlock]bool{}
		for b := range started {
			for x := range reach(b, nil, nil) {
				after[x] = true
			}
		}
		callsWriter := func(f *ssa.Function, visit func(in ssa.Instruction, callee *ssa.Function)) {
			allInstrs(f, func(in ssa.Instruction) {
				if ci, ok := in.(ssa.CallInstruction); ok {
					if cal := ci.Common().StaticCallee(); cal != nil && writers[cal] {
						visit(in, cal)
					}
				}
			})
		}
		for _, st := range storesIn(fn) {
			if after[st.Block()] {
				bad = append(bad, fmt.Sprintf("%s stores into started where the loop may have run", c.pos(st.Pos())))
			}
		}
		callsWriter(fn, func(in ssa.Instruction, cal *ssa.Function) {
			if _, isDefer := in.(*ssa.Defer); isDefer || after[in.Block()] {
				bad = append(bad, fmt.Sprintf("%s calls %s, which stores into started, where the loop may have run", c.pos(in.Pos()), cal.Name()))
			}
		})
		// closures (deferred drains, goroutines) never write the flag
		for _, sub := range withAnon(fn)[1:] {
			for _, st := range storesIn(sub) {
				bad = append(bad, fmt.Sprintf("%s: a closure of %s stores into started", c.pos(st.Pos()), name))
			}
			callsWriter(sub, func(in ssa.Instruction, cal *ssa.Function) {
				bad = append(bad, fmt.Sprintf("%s: a closure of %s calls %s, which stores into started", c.pos(in.Pos()), name, cal.Name()))
			})
		}
		r.check(len(bad) == 0, rule, name, c.pos(fn.Pos()), "no store into started behind the loop", "%s: the flag is the one of the generation started last; a loop of an earlier generation that ends after a restart marks the running server as stopped (its Shutdown answers 'server not started' and waits for nothing, its read loops end)", strings.Join(uniqStrings(bad), "; "))
	}
}

// matchFromRegistry: what ServeMux.match returns was looked up in the pattern map during this call (or is nil): no
// remembered result of an earlier call, which a later Handle would have changed.
func matchFromRegistry(c *Ctx, r *Report, rule string) {
	r.rule(rule, 1, "every handler ServeMux.match returns comes from a lookup in mux.z made in the same call")
	fn := c.ssaFunc("ServeMux.match")
	if fn == nil {
		r.cerr(rule, "ServeMux.match", "function not found")
		return
	}
	r.fn("ServeMux.match")
	isZ := readsField("ServeMux", "z")
	var bad []string
	n := 0
	var checkVal func(v ssa.Value, f *ssa.Function, depth int, seen map[ssa.Value]bool)
	checkVal = func(v ssa.Value, f *ssa.Function, depth int, seen map[ssa.Value]bool) {
		if seen[v] {
			return
		}
		seen[v] = true
		switch t := v.(type) {
		case *ssa.Const:
			if !t.IsNil() {
				bad = append(bad, fmt.Sprintf("constant %s", t))
			}
		case *ssa.Phi:
			for _, e := range t.Edges {
				checkVal(e, f, depth, seen)
			}
		case *ssa.Extract:
			checkVal(t.Tuple, f, depth, seen)
		case *ssa.Lookup:
			n++
			if !anyIn(sliceOf(t.X), isZ) {
				bad = append(bad, fmt.Sprintf("%s: lookup in %s, not in mux.z", c.pos(t.Pos()), describeValue(t.X)))
			}
		case *ssa.UnOp:
			if t.Op == token.MUL {
				if a := rootAlloc(t.X); a != nil && a == t.X {
					for _, ref := range *a.Referrers() {
						if st, ok := ref.(*ssa.Store); ok && st.Addr == ssa.Value(a) {
							checkVal(st.Val, f, depth, seen)
						}
					}
					return
				}
			}
			bad = append(bad, fmt.Sprintf("%s: %s", c.pos(t.Pos()), describeValue(t)))
		case *ssa.Call:
			cal := t.Call.StaticCallee()
			if cal != nil && cal.Pkg == fn.Pkg && depth < 3 && len(cal.Blocks) > 0 {
				for _, rp := range returnPoints(cal, 0) {
					checkVal(rp.Results[0], cal, depth+1, seen)
				}
				return
			}
			bad = append(bad, fmt.Sprintf("%s: result of %s", c.pos(t.Pos()), calleeNameSSA(&t.Call)))
		case *ssa.MakeInterface:
			checkVal(t.X, f, depth, seen)
		case *ssa.ChangeInterface:
			checkVal(t.X, f, depth, seen)
		default:
			bad = append(bad, fmt.Sprintf("%s: %s", c.pos(v.Pos()), describeValue(v)))
		}
	}
	for _, rp := range returnPoints(fn, 0) {
		checkVal(rp.Results[0], fn, 0, map[ssa.Value]bool{})
	}
	r.check(n > 0 && len(bad) == 0, rule, "ServeMux.match", c.pos(fn.Pos()), fmt.Sprintf("%d lookups in mux.z", n), "match can return %s: a handler found by an earlier call and kept outside the pattern map goes on being used after Handle registered a more specific zone (or any zone beside the root pattern), so requests for that zone reach the wrong handler", strings.Join(uniqStrings(bad), "; "))
}

// insertAlwaysStores: compressionMap.insert enters the name on every path, except where the offset is tested against
// the 14-bit limit: Len's simulation of the map (compressionLenSearch / the map handed to msgLenWithCompressionMap)
// enters every suffix, and a name Pack did not remember is written in full where Len counted a pointer.
func insertAlwaysStores(c *Ctx, r *Report, rule string) {
	r.rule(rule, 1, "compressionMap.insert stores the name on every path that is not cut off by the pointer-offset limit")
	fn := c.ssaFunc("compressionMap.insert")
	if fn == nil {
		r.cerr(rule, "compressionMap.insert", "function not found")
		return
	}
	r.fn("compressionMap.insert")
	var bad []string
	paths := 0
	complete := enumPaths(fn, 200, func(path []pathStep, ret *ssa.Return) {
		paths++
		if countOnPath(path, func(in ssa.Instruction) bool { _, ok := in.(*ssa.MapUpdate); return ok }) > 0 {
			return
		}
		// allowed only when a test of the offset parameter is on the path
		posTested := false
		for _, f := range pathFacts(path) {
			if bin, ok := f.Atom.(*ssa.BinOp); ok {
				if len(fn.Params) >= 3 && (anyIn(sliceOf(bin.X), isValue(fn.Params[2])) || anyIn(sliceOf(bin.Y), isValue(fn.Params[2]))) {
					posTested = true
				}
			}
		}
		if !posTested {
			bad = append(bad, c.pos(ret.Pos()))
		}
	})
	if !complete {
		r.undecided(rule, "compressionMap.insert", c.pos(fn.Pos()), "too many paths")
		return
	}
	r.check(paths > 0 && len(bad) == 0, rule, "compressionMap.insert", c.pos(fn.Pos()), fmt.Sprintf("%d paths, each with a map update", paths), "insert returns at %s without having entered the name and without a test of the offset: Pack forgets names that Len's simulation remembers, writes them in full where Len counted a two-octet pointer, and Len under-estimates the packed size", strings.Join(uniqStrings(bad), ", "))
}

var _ = types.Typ

// noNestedAcquire: no function calls, while it holds Server.lock, a function that acquires Server.lock: sync.RWMutex
// is not reentrant, and a read lock taken again while a writer (ShutdownContext) waits between the two blocks for ever.
func noNestedAcquire(c *Ctx, r *Report, rule string) {
	r.rule(rule, 1, "no function that holds Server.lock calls a function that acquires it")
	var all []*ssa.Function
	for _, f := range c.allFuncs() {
		all = append(all, withAnon(f)...)
	}
	acquires := map[*ssa.Function]bool{}
	for _, f := range all {
		allInstrs(f, func(in ssa.Instruction) {
			if call, ok := in.(*ssa.Call); ok {
				if op, isOp := lockOp(call, "Server", "lock", nil); isOp && op > 0 {
					acquires[f] = true
				}
			}
		})
	}
	for changed := true; changed; {
		changed = false
		for _, f := range all {
			if acquires[f] {
				continue
			}
			allInstrs(f, func(in ssa.Instruction) {
				if call, ok := in.(*ssa.Call); ok {
					if g := call.Call.StaticCallee(); g != nil && acquires[g] {
						acquires[f] = true
						changed = true
					}
				}
			})
		}
	}
	n := 0
	var bad []string
	for _, f := range all {
		li := computeLocks(f, "Server", "lock", lkNone)
		if !li.touches {
			continue
		}
		n++
		allInstrs(f, func(in ssa.Instruction) {
			call, ok := in.(*ssa.Call)
			if !ok {
				return
			}
			g := call.Call.StaticCallee()
			if g == nil || !acquires[g] || li.at[in] == lkNone {
				return
			}
			bad = append(bad, fmt.Sprintf("%s: %s calls %s, which acquires Server.lock, while holding the %s", c.pos(call.Pos()), fnDisplay(f), fnDisplay(g), lkName(li.at[in])))
		})
	}
	r.check(n > 0 && len(bad) == 0, rule, "Server.lock", "", fmt.Sprintf("%d functions that take the lock call no function that takes it again", n), "%s: the lock is not reentrant; with a Shutdown that asks for the write lock between the two acquisitions the reader waits for the writer and the writer for the reader - the read loop and Shutdown hang", strings.Join(uniqStrings(bad), "; "))
}
