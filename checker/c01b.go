package main

import (
	"fmt"
	"go/ast"
	"go/token"
	"go/types"
	"sort"
	"strings"

	"golang.org/x/tools/go/ssa"
)

// RFC 1035 s.4.1.1 / RFC 4035 s.3.1.6 / RFC 2535: bit positions in the second header word.
var rfcHeaderBits = map[string]int64{
	"Response": 1 << 15, "Authoritative": 1 << 10, "Truncated": 1 << 9, "RecursionDesired": 1 << 8,
	"RecursionAvailable": 1 << 7, "Zero": 1 << 6, "AuthenticatedData": 1 << 5, "CheckingDisabled": 1 << 4,
}

func c01R2(c *Ctx, r *Report) {
	r.rule("C01.R2.flag-pack", 8, "packing ORs each MsgHdr flag in under its RFC bit")
	r.rule("C01.R2.flag-unpack", 8, "setHdr reads each MsgHdr flag from its RFC bit")
	r.rule("C01.R2.opcode-rcode", 4, "opcode occupies bits 11..14 and the RCODE low nibble bits 0..3, both ways")
	r.rule("C01.R2.header-order", 2, "the six header words are packed and unpacked in the order Id Bits Qdcount Ancount Nscount Arcount")
	r.rule("C01.R2.counts", 4, "each section count is the length of its own section")

	packFd := c.decl("Msg.packBufferWithCompressionMap")
	setFd := c.decl("Msg.setHdr")
	if packFd == nil || setFd == nil {
		r.cerr("C01.R2.flag-pack", "anchors", "packBufferWithCompressionMap/setHdr not found")
		return
	}
	r.fn("Msg.packBufferWithCompressionMap")
	r.fn("Msg.setHdr")
	// pack: a single header bit ORed into a 16-bit word in a block that is entered only when the flag field F was read
	// true (`if dns.F { dh.Bits |= K }`, in the packer itself or in a helper it calls, whatever the word is kept in)
	packBits := map[string]int64{}
	packPos := map[string]token.Pos{}
	if pf := c.ssaFunc("Msg.packBufferWithCompressionMap"); pf != nil {
		seenF := map[*ssa.Function]bool{}
		var visit func(f *ssa.Function, depth int)
		visit = func(f *ssa.Function, depth int) {
			if f == nil || seenF[f] || depth > 2 || len(f.Blocks) == 0 {
				return
			}
			seenF[f] = true
			allInstrs(f, func(in ssa.Instruction) {
				if ci, ok := in.(ssa.CallInstruction); ok {
					if g := ci.Common().StaticCallee(); g != nil && g.Pkg == f.Pkg && g.Signature.Recv() != nil && strings.Contains(g.Signature.Recv().Type().String(), "Msg") {
						visit(g, depth+1)
					}
					return
				}
				bo, ok := in.(*ssa.BinOp)
				if !ok || bo.Op != token.OR {
					return
				}
				if b, isB := bo.Type().Underlying().(*types.Basic); !isB || b.Kind() != types.Uint16 {
					return
				}
				k, isK := constIntOf(bo.Y)
				if !isK {
					k, isK = constIntOf(bo.X)
				}
				if !isK || k == 0 || k&(k-1) != 0 {
					return
				}
				for _, ft := range factsAt(f, bo.Block()) {
					if !ft.Holds {
						continue
					}
					ld, isLd := ft.Atom.(*ssa.UnOp)
					if !isLd || ld.Op != token.MUL {
						continue
					}
					fa, isFa := ld.X.(*ssa.FieldAddr)
					if !isFa {
						continue
					}
					if b, isB := ld.Type().Underlying().(*types.Basic); !isB || b.Kind() != types.Bool {
						continue
					}
					if nm := derefNamed(fa.X.Type()); nm == nil || (nm.Obj().Name() != "MsgHdr" && nm.Obj().Name() != "Msg") {
						continue
					}
					name := fieldNameOf(fa)
					// the innermost flag test decides: a bit ORed under two nested flag tests is attributed to both
					packBits[name] |= k
					packPos[name] = bo.Pos()
				}
			})
		}
		visit(pf, 0)
	}
	// setHdr: dns.F = dh.Bits&K != 0
	setBits := map[string]int64{}
	setPos := map[string]token.Pos{}
	ast.Inspect(setFd.Body, func(n ast.Node) bool {
		as, ok := n.(*ast.AssignStmt)
		if !ok || len(as.Lhs) != 1 || len(as.Rhs) != 1 {
			return true
		}
		f := c.fieldOf(as.Lhs[0])
		if f == nil {
			return true
		}
		be, ok := ast.Unparen(as.Rhs[0]).(*ast.BinaryExpr)
		if !ok || be.Op != token.NEQ {
			return true
		}
		if k, ok := c.exprConst(be.Y); !ok || k != 0 {
			return true
		}
		and, ok := ast.Unparen(be.X).(*ast.BinaryExpr)
		if !ok || and.Op != token.AND {
			return true
		}
		x, y := and.X, and.Y
		if bf := c.fieldOf(x); bf == nil || bf.Name() != "Bits" {
			x, y = y, x
		}
		if bf := c.fieldOf(x); bf == nil || bf.Name() != "Bits" {
			return true
		}
		if k, ok := c.exprConst(y); ok {
			setBits[f.Name()] = k
			setPos[f.Name()] = as.Pos()
		}
		return true
	})
	var names []string
	for n := range rfcHeaderBits {
		names = append(names, n)
	}
	sort.Strings(names)
	for _, n := range names {
		want := rfcHeaderBits[n]
		if got, ok := packBits[n]; !ok {
			r.fail("C01.R2.flag-pack", "MsgHdr."+n, c.pos(packFd.Pos()), "flag %s is not packed (no `if dns.%s { dh.Bits |= … }`)", n, n)
		} else {
			r.check(got == want, "C01.R2.flag-pack", "MsgHdr."+n, c.pos(packPos[n]), fmt.Sprintf("bit %#x", got), "flag %s is packed under mask %#x, the RFC position is %#x", n, got, want)
		}
		if got, ok := setBits[n]; !ok {
			r.fail("C01.R2.flag-unpack", "MsgHdr."+n, c.pos(setFd.Pos()), "flag %s is not read back in setHdr", n)
		} else {
			r.check(got == want, "C01.R2.flag-unpack", "MsgHdr."+n, c.pos(setPos[n]), fmt.Sprintf("bit %#x", got), "flag %s is read from mask %#x, the RFC position is %#x", n, got, want)
		}
	}
	for n := range packBits {
		if _, ok := rfcHeaderBits[n]; !ok {
			r.fail("C01.R2.flag-pack", "MsgHdr."+n, c.pos(packPos[n]), "unexpected header flag field %s", n)
		}
	}

	// opcode / rcode through bit provenance
	packFn := c.ssaFunc("Msg.packBufferWithCompressionMap")
	setFn := c.ssaFunc("Msg.setHdr")
	if packFn == nil || setFn == nil {
		r.cerr("C01.R2.opcode-rcode", "anchors", "SSA functions not found")
		return
	}
	isLoadOf := func(typ, field string) vpred {
		p := readsField(typ, field)
		return func(v ssa.Value) bool {
			if u, ok := v.(*ssa.UnOp); ok && u.Op == token.MUL {
				return p(u.X)
			}
			return p(v) && func() bool { _, isF := v.(*ssa.Field); return isF }()
		}
	}
	{
		env := &bitEnv{leafOf: func(v ssa.Value) (int, int, bool) {
			if isLoadOf("MsgHdr", "Opcode")(v) || isLoadOf("Msg", "Opcode")(v) {
				return 0, 64, true
			}
			if isLoadOf("MsgHdr", "Rcode")(v) || isLoadOf("Msg", "Rcode")(v) {
				return 1, 64, true
			}
			return 0, 0, false
		}}
		// the value the header word starts from: the expression that combines opcode and rcode (in the packer or in a
		// helper of Msg it calls), before any flag is ORed in
		var base ssa.Instruction
		var baseVal ssa.Value
		{
			seenF := map[*ssa.Function]bool{}
			var visit func(f *ssa.Function, depth int)
			visit = func(f *ssa.Function, depth int) {
				if f == nil || seenF[f] || depth > 2 || len(f.Blocks) == 0 {
					return
				}
				seenF[f] = true
				allInstrs(f, func(in ssa.Instruction) {
					if ci, ok := in.(ssa.CallInstruction); ok {
						if g := ci.Common().StaticCallee(); g != nil && g.Pkg == f.Pkg && g.Signature.Recv() != nil && strings.Contains(g.Signature.Recv().Type().String(), "Msg") {
							visit(g, depth+1)
						}
						return
					}
					bo, ok := in.(*ssa.BinOp)
					if !ok || base != nil {
						return
					}
					if b, isB := bo.Type().Underlying().(*types.Basic); !isB || b.Kind() != types.Uint16 {
						return
					}
					sl := sliceOf(bo)
					hasOp, hasRc, hasPhi := false, false, false
					for o := range sl {
						if isLoadOf("MsgHdr", "Opcode")(o) || isLoadOf("Msg", "Opcode")(o) {
							hasOp = true
						}
						if isLoadOf("MsgHdr", "Rcode")(o) || isLoadOf("Msg", "Rcode")(o) {
							hasRc = true
						}
						if _, isPhi := o.(*ssa.Phi); isPhi {
							hasPhi = true
						}
					}
					if hasOp && hasRc && !hasPhi {
						base, baseVal = bo, bo
					}
				})
			}
			visit(packFn, 0)
		}
		if base == nil {
			r.fail("C01.R2.opcode-rcode", "pack:Bits", c.pos(packFn.Pos()), "no initial store of opcode/rcode into the header word")
		} else {
			v := env.eval(baseVal)
			names := []string{"Opcode", "Rcode"}
			okOp, okRc, okZero := true, true, true
			for i := 0; i < 4; i++ {
				if v[11+i] != (bitSrc{Kind: bLeaf, Leaf: 0, Bit: i}) {
					okOp = false
				}
				if v[i] != (bitSrc{Kind: bLeaf, Leaf: 1, Bit: i}) {
					okRc = false
				}
			}
			for i := 4; i <= 10; i++ {
				if v[i].Kind != bZero {
					okZero = false
				}
			}
			d := v.describe(16, names)
			r.check(okOp && okZero, "C01.R2.opcode-rcode", "pack:Opcode", c.pos(base.Pos()), d, "header word is %s; opcode must occupy bits 11..14 and bits 4..10 must start clear", d)
			r.check(okRc, "C01.R2.opcode-rcode", "pack:Rcode", c.pos(base.Pos()), d, "header word is %s; the low RCODE nibble must occupy bits 0..3", d)
		}
	}
	{
		env := &bitEnv{leafOf: func(v ssa.Value) (int, int, bool) {
			if isLoadOf("Header", "Bits")(v) {
				return 0, 16, true
			}
			return 0, 0, false
		}}
		for _, spec := range []struct {
			field string
			lo    int
		}{{"Opcode", 11}, {"Rcode", 0}} {
			sts := append(storesToField(setFn, "MsgHdr", spec.field), storesToField(setFn, "Msg", spec.field)...)
			if len(sts) != 1 {
				r.fail("C01.R2.opcode-rcode", "setHdr:"+spec.field, c.pos(setFn.Pos()), "%d stores to %s in setHdr", len(sts), spec.field)
				continue
			}
			v := env.eval(sts[0].Val)
			good := true
			for i := 0; i < 64; i++ {
				if i < 4 {
					if v[i] != (bitSrc{Kind: bLeaf, Leaf: 0, Bit: spec.lo + i}) {
						good = false
					}
				} else if v[i].Kind != bZero {
					good = false
				}
			}
			d := v.describe(16, []string{"Bits"})
			r.check(good, "C01.R2.opcode-rcode", "setHdr:"+spec.field, c.pos(sts[0].Pos()), d, "%s is decoded as %s, want bits 0..3 = Bits[%d..%d] and nothing else", spec.field, d, spec.lo, spec.lo+3)
		}
	}

	// header word order
	wantOrder := "Id Bits Qdcount Ancount Nscount Arcount"
	for _, h := range []struct{ fn, helper string }{{"Header.pack", "packUint16"}, {"unpackMsgHdr", "unpackUint16"}} {
		fd := c.decl(h.fn)
		if fd == nil {
			r.cerr("C01.R2.header-order", h.fn, "function not found")
			continue
		}
		r.fn(h.fn)
		var order []string
		// `for _, w := range [...]uint16{dh.Id, dh.Bits, ...}`: the loop variable stands for the listed fields in turn
		ranged := map[types.Object][]string{}
		tables := map[types.Object]*ast.CompositeLit{}
		ast.Inspect(fd.Body, func(n ast.Node) bool {
			if as, ok := n.(*ast.AssignStmt); ok && as.Tok == token.DEFINE && len(as.Lhs) == 1 && len(as.Rhs) == 1 {
				if id, isId := as.Lhs[0].(*ast.Ident); isId {
					if cl, isCl := ast.Unparen(as.Rhs[0]).(*ast.CompositeLit); isCl {
						tables[c.Info.Defs[id]] = cl
					}
				}
			}
			return true
		})
		ast.Inspect(fd.Body, func(n ast.Node) bool {
			rs, ok := n.(*ast.RangeStmt)
			if !ok {
				return true
			}
			v, isId := rs.Value.(*ast.Ident)
			cl, isCl := ast.Unparen(rs.X).(*ast.CompositeLit)
			if xid, isX := ast.Unparen(rs.X).(*ast.Ident); isX && !isCl {
				// a table kept in a local: words := [...]uint16{...}; for _, w := range words
				cl, isCl = tables[c.Info.Uses[xid]], tables[c.Info.Uses[xid]] != nil
			}
			if !isId || !isCl {
				return true
			}
			// an element is the field, its address, or a struct literal one of whose members is that
			var fieldIn func(e ast.Expr, depth int) string
			fieldIn = func(e ast.Expr, depth int) string {
				e = ast.Unparen(e)
				if u, ok := e.(*ast.UnaryExpr); ok && u.Op == token.AND {
					e = ast.Unparen(u.X)
				}
				if kv, ok := e.(*ast.KeyValueExpr); ok {
					return fieldIn(kv.Value, depth)
				}
				if f := c.fieldOf(e); f != nil {
					return f.Name()
				}
				if sub, ok := e.(*ast.CompositeLit); ok && depth < 2 {
					for _, m := range sub.Elts {
						if n := fieldIn(m, depth+1); n != "" {
							return n
						}
					}
				}
				return ""
			}
			var names []string
			for _, el := range cl.Elts {
				if n := fieldIn(el, 0); n != "" {
					names = append(names, n)
				} else {
					names = append(names, "?")
				}
			}
			ranged[c.Info.Defs[v]] = names
			return true
		})
		ast.Inspect(fd.Body, func(n ast.Node) bool {
			as, ok := n.(*ast.AssignStmt)
			if !ok || len(as.Rhs) != 1 {
				return true
			}
			call, ok := ast.Unparen(as.Rhs[0]).(*ast.CallExpr)
			if !ok || c.calleeName(call) != h.helper {
				return true
			}
			var fe ast.Expr
			if h.helper == "packUint16" {
				fe = call.Args[0]
			} else {
				fe = as.Lhs[0]
			}
			// the loop variable itself, or a member of it (*f.dst)
			root := ast.Unparen(fe)
			for {
				switch t := root.(type) {
				case *ast.StarExpr:
					root = ast.Unparen(t.X)
					continue
				case *ast.SelectorExpr:
					if c.fieldOf(t) == nil || ranged[c.Info.Uses[rootIdent(t)]] != nil {
						root = ast.Unparen(t.X)
						continue
					}
				}
				break
			}
			if id, isId := root.(*ast.Ident); isId && ranged[c.Info.Uses[id]] != nil {
				order = append(order, ranged[c.Info.Uses[id]]...)
			} else if f := c.fieldOf(fe); f != nil {
				order = append(order, f.Name())
			} else {
				order = append(order, "?")
			}
			return true
		})
		got := strings.Join(order, " ")
		r.check(got == wantOrder, "C01.R2.header-order", h.fn, c.pos(fd.Pos()), got, "header words handled in order [%s], the wire order is [%s]", got, wantOrder)
	}
	// counts
	for _, p := range [][2]string{{"Qdcount", "Question"}, {"Ancount", "Answer"}, {"Nscount", "Ns"}, {"Arcount", "Extra"}} {
		sts := storesToField(packFn, "Header", p[0])
		good := len(sts) == 1
		if good {
			s := sliceOf(sts[0].Val)
			good = anyIn(s, readsField("Msg", p[1]))
			for _, o := range []string{"Question", "Answer", "Ns", "Extra"} {
				if o != p[1] && anyIn(s, readsField("Msg", o)) {
					good = false
				}
			}
		}
		pos := c.pos(packFn.Pos())
		if len(sts) > 0 {
			pos = c.pos(sts[0].Pos())
		}
		r.check(good, "C01.R2.counts", "Header."+p[0], pos, "len(dns."+p[1]+")", "%s is not set from len(dns.%s) alone", p[0], p[1])
	}
}

func c01R3(c *Ctx, r *Report) {
	r.rule("C01.R3.ext-bits", 2, "ExtendedRcode/SetExtendedRcode move RCODE bits 4..11 to/from TTL bits 24..31 and nothing else")
	r.rule("C01.R3.pack-split", 2, "packing sets the extended RCODE whenever an OPT is present and refuses RCODE>15 without one")
	r.rule("C01.R3.unpack-join", 1, "unpacking ORs the OPT's extended RCODE into Rcode whenever an OPT is present")
	isLoad := func(p vpred) vpred {
		return func(v ssa.Value) bool {
			u, ok := v.(*ssa.UnOp)
			return ok && u.Op == token.MUL && p(u.X)
		}
	}
	if fn := c.ssaFunc("OPT.ExtendedRcode"); fn == nil {
		r.cerr("C01.R3.ext-bits", "OPT.ExtendedRcode", "function not found")
	} else {
		r.fn("OPT.ExtendedRcode")
		env := &bitEnv{leafOf: func(v ssa.Value) (int, int, bool) {
			if isLoad(readsField("RR_Header", "Ttl"))(v) {
				return 0, 32, true
			}
			return 0, 0, false
		}}
		for _, rp := range returnPoints(fn, 0) {
			v := env.eval(rp.Results[0])
			good := true
			for i := 0; i < 64; i++ {
				if i >= 4 && i <= 11 {
					if v[i] != (bitSrc{Kind: bLeaf, Leaf: 0, Bit: 24 + i - 4}) {
						good = false
					}
				} else if v[i].Kind != bZero {
					good = false
				}
			}
			d := v.describe(16, []string{"Ttl"})
			r.check(good, "C01.R3.ext-bits", "OPT.ExtendedRcode", c.pos(rp.Pos), d, "ExtendedRcode yields %s, want bits 4..11 = Ttl[24..31]", d)
		}
	}
	if fn := c.ssaFunc("OPT.SetExtendedRcode"); fn == nil {
		r.cerr("C01.R3.ext-bits", "OPT.SetExtendedRcode", "function not found")
	} else {
		r.fn("OPT.SetExtendedRcode")
		env := &bitEnv{leafOf: func(v ssa.Value) (int, int, bool) {
			if isLoad(readsField("RR_Header", "Ttl"))(v) {
				return 0, 32, true
			}
			if p, ok := v.(*ssa.Parameter); ok && p.Name() == "v" {
				return 1, 16, true
			}
			return 0, 0, false
		}}
		sts := storesToField(fn, "RR_Header", "Ttl")
		if len(sts) != 1 {
			r.fail("C01.R3.ext-bits", "OPT.SetExtendedRcode", c.pos(fn.Pos()), "%d stores to Ttl", len(sts))
		} else {
			v := env.eval(sts[0].Val)
			good := true
			for i := 0; i < 32; i++ {
				if i < 24 {
					if v[i] != (bitSrc{Kind: bLeaf, Leaf: 0, Bit: i}) {
						good = false
					}
				} else if v[i] != (bitSrc{Kind: bLeaf, Leaf: 1, Bit: 4 + i - 24}) {
					good = false
				}
			}
			d := v.describe(32, []string{"Ttl", "v"})
			r.check(good, "C01.R3.ext-bits", "OPT.SetExtendedRcode", c.pos(sts[0].Pos()), d, "SetExtendedRcode stores %s, want Ttl[0..23] kept and Ttl[24..31] = v[4..11]", d)
		}
	}
	// pack side
	if fn := c.ssaFunc("Msg.packBufferWithCompressionMap"); fn != nil {
		setCalls := callsIn(fn, "(OPT).SetExtendedRcode")
		ok := false
		var pos token.Pos = fn.Pos()
		detail := "no call of SetExtendedRcode"
		// find the If testing IsEdns0() != nil
		allInstrs(fn, func(in ssa.Instruction) {
			ifi, isIf := in.(*ssa.If)
			if !isIf {
				return
			}
			atom, pol := condAtom(ifi.Cond)
			b, isB := atom.(*ssa.BinOp)
			if !isB || (b.Op != token.NEQ && b.Op != token.EQL) {
				return
			}
			if !(anyIn(sliceOf(b.X), callsFunc("(Msg).IsEdns0")) && isNilConst(b.Y)) {
				return
			}
			// successor on which opt != nil
			nonNilIdx := 0
			if (b.Op == token.NEQ) != pol {
				nonNilIdx = 1
			}
			blk := ifi.Block().Succs[nonNilIdx]
			pos = ifi.Pos()
			passed, _ := mustPass(fn, blk, -1, func(x ssa.Instruction) bool {
				for _, sc := range setCalls {
					if sc == x {
						return true
					}
				}
				return false
			})
			if passed {
				ok = true
			} else {
				detail = "a path with an OPT present reaches a return without calling SetExtendedRcode (stale upper RCODE bits would survive)"
			}
		})
		// argument is derived from dns.Rcode
		for _, sc := range setCalls {
			if !anyIn(sliceOf(sc.Common().Args[1]), readsField("MsgHdr", "Rcode")) && !anyIn(sliceOf(sc.Common().Args[1]), readsField("Msg", "Rcode")) {
				ok = false
				detail = "SetExtendedRcode is not given dns.Rcode"
			}
		}
		r.check(ok, "C01.R3.pack-split", "pack:SetExtendedRcode", c.pos(pos), "must-pass on the OPT-present edge", "%s", detail)
		// RCODE > 15 without OPT: the test is made on every OPT-less path and its true edge reaches no success return
		var problems []string
		isRcode := func(v ssa.Value) bool { return readsField("MsgHdr", "Rcode")(v) || readsField("Msg", "Rcode")(v) }
		found := false
		allInstrs(fn, func(in ssa.Instruction) {
			ifi, isIf := in.(*ssa.If)
			if !isIf {
				return
			}
			for succ := 0; succ < 2; succ++ {
				atom, pol := condAtom(ifi.Cond)
				f := Fact{ifi, atom, pol == (succ == 0)}
				if !matchGuard(f, Guard{Op: "lt", A: isConstInt(15), B: isRcode, Holds: true}) {
					continue
				}
				// this successor is taken when Rcode > 15
				if miss := guardsMissing(fn, ifi.Block(), []Guard{{Name: "opt == nil", Op: "eq", A: callsFunc("(Msg).IsEdns0"), B: isNilConst, Holds: true}}); len(miss) > 0 {
					continue
				}
				found = true
				reachable := reach(ifi.Block().Succs[succ], nil, nil)
				for _, rp := range returnPoints(fn, 1) {
					if isNilConst(rp.Results[1]) && reachable[rp.Block] {
						problems = append(problems, fmt.Sprintf("%s: a success return is reachable with RCODE > 15 and no OPT", c.pos(rp.Pos)))
					}
				}
				// every OPT-less path makes the test
				allInstrs(fn, func(in2 ssa.Instruction) {
					if2, ok := in2.(*ssa.If)
					if !ok {
						return
					}
					a2, p2 := condAtom(if2.Cond)
					for s2 := 0; s2 < 2; s2++ {
						if matchGuard(Fact{if2, a2, p2 == (s2 == 0)}, Guard{Op: "eq", A: callsFunc("(Msg).IsEdns0"), B: isNilConst, Holds: true}) {
							if passed, _ := mustPass(fn, if2.Block().Succs[s2], -1, func(x ssa.Instruction) bool { return x == ifi }); !passed && !passesOnNilEdges(fn, if2.Block().Succs[s2], ifi) {
								problems = append(problems, "an OPT-less path reaches a return without the RCODE > 15 test")
							}
						}
					}
				})
			}
		})
		if !found {
			problems = append(problems, "no `Rcode > 0xF` test on the OPT-less edge")
		}
		r.check(len(problems) == 0, "C01.R3.pack-split", "pack:ErrExtendedRcode", c.pos(fn.Pos()), "RCODE>15 without OPT never succeeds", "%s", strings.Join(problems, "; "))
	}
	if fn := c.ssaFunc("Msg.unpack"); fn == nil {
		r.cerr("C01.R3.unpack-join", "Msg.unpack", "function not found")
	} else {
		r.fn("Msg.unpack")
		ok := false
		detail := "no test of IsEdns0() != nil"
		var pos token.Pos = fn.Pos()
		isJoin := func(x ssa.Instruction) bool {
			st, isSt := x.(*ssa.Store)
			if !isSt || !(readsField("MsgHdr", "Rcode")(st.Addr) || readsField("Msg", "Rcode")(st.Addr)) {
				return false
			}
			b, isB := st.Val.(*ssa.BinOp)
			if !isB || (b.Op != token.OR && b.Op != token.ADD) {
				return false
			}
			s := sliceOf(st.Val)
			return anyIn(s, callsFunc("(OPT).ExtendedRcode")) && anyIn(s, func(v ssa.Value) bool {
				u, ok := v.(*ssa.UnOp)
				return ok && u.Op == token.MUL && (readsField("MsgHdr", "Rcode")(u.X) || readsField("Msg", "Rcode")(u.X))
			})
		}
		allInstrs(fn, func(in ssa.Instruction) {
			ifi, isIf := in.(*ssa.If)
			if !isIf {
				return
			}
			atom, pol := condAtom(ifi.Cond)
			b, isB := atom.(*ssa.BinOp)
			if !isB || (b.Op != token.NEQ && b.Op != token.EQL) || !(anyIn(sliceOf(b.X), callsFunc("(Msg).IsEdns0")) && isNilConst(b.Y)) {
				return
			}
			nonNilIdx := 0
			if (b.Op == token.NEQ) != pol {
				nonNilIdx = 1
			}
			pos = ifi.Pos()
			passed, _ := mustPass(fn, ifi.Block().Succs[nonNilIdx], -1, isJoin)
			ok = passed
			if !passed {
				detail = "a path with an OPT present returns without dns.Rcode |= opt.ExtendedRcode()"
			}
		})
		// the test must itself be reached on every path that unpacked the additional section: it post-dominates the Extra store
		r.check(ok, "C01.R3.unpack-join", "unpack:ExtendedRcode", c.pos(pos), "must-pass on the OPT-present edge", "%s", detail)
	}
}

// ---- R4 registries ----

type registrySpec struct {
	rulePrefix string
	iface      string // interface implemented by the element types
	ctor       string // constructor switch function
	codeMethod string // method returning the code
	localType  string // the catch-all type of the default branch
	localField string
	constPref  string
	nilCodes   []string // constants mapped to nil
}

func c01R4(c *Ctx, r *Report) {
	r.rule("C01.R4.ctor-code", 24, "the constructor switch maps each code to a type whose code method returns that same code")
	r.rule("C01.R4.complete", 26, "every implementer of the option/parameter interface is constructible under its own code")
	r.rule("C01.R4.frame", 4, "options/parameters are framed as code(u16) length(u16) value, length taken from the packed value, decoded into the constructor's type")
	for _, sp := range []registrySpec{
		{"EDNS0", "EDNS0", "makeDataOpt", "Option", "EDNS0_LOCAL", "Code", "EDNS0", nil},
		{"SVCB", "SVCBKeyValue", "makeSVCBKeyValue", "Key", "SVCBLocal", "KeyCode", "SVCB_", []string{"svcb_RESERVED"}},
	} {
		c.checkRegistry(r, sp)
	}
	c01Frame(c, r)
}

// constReturn: the constant returned by a method whose body is a single `return CONST`, else the field name returned.
func (c *Ctx) methodReturn(typ, method string) (k int64, isConst bool, field string, pos token.Pos) {
	fd := c.decl(typ + "." + method)
	if fd == nil || fd.Body == nil || len(fd.Body.List) != 1 {
		return 0, false, "", token.NoPos
	}
	ret, ok := fd.Body.List[0].(*ast.ReturnStmt)
	if !ok || len(ret.Results) != 1 {
		return 0, false, "", fd.Pos()
	}
	if v, ok := c.exprConst(ret.Results[0]); ok {
		return v, true, "", fd.Pos()
	}
	if f := c.fieldOf(ret.Results[0]); f != nil {
		return 0, false, f.Name(), fd.Pos()
	}
	return 0, false, "", fd.Pos()
}

func (c *Ctx) checkRegistry(r *Report, sp registrySpec) {
	fd := c.decl(sp.ctor)
	if fd == nil {
		r.cerr("C01.R4.ctor-code", sp.ctor, "function not found")
		return
	}
	r.fn(sp.ctor)
	var sw *ast.SwitchStmt
	ast.Inspect(fd.Body, func(n ast.Node) bool {
		if s, ok := n.(*ast.SwitchStmt); ok && sw == nil {
			sw = s
		}
		return true
	})
	if sw == nil || !c.isIdentOf(sw.Tag, c.paramObj(fd, 0)) {
		r.undecided("C01.R4.ctor-code", sp.ctor, c.pos(fd.Pos()), "constructor is not a switch over its code parameter")
		return
	}
	constructed := map[string]int64{} // type -> code
	seenCodes := map[int64]string{}
	hasDefault := false
	for _, cl := range sw.Body.List {
		cc := cl.(*ast.CaseClause)
		// type constructed in this clause
		var tname string
		var returnsNil bool
		ast.Inspect(cc, func(n ast.Node) bool {
			if call, ok := n.(*ast.CallExpr); ok && c.calleeName(call) == "builtin.new" {
				if tn, ok := c.Info.TypeOf(call.Args[0]).(*types.Named); ok {
					tname = tn.Obj().Name()
				}
			}
			if cl, ok := n.(*ast.CompositeLit); ok {
				if tn, ok := c.Info.TypeOf(cl).(*types.Named); ok {
					tname = tn.Obj().Name()
				}
			}
			if ret, ok := n.(*ast.ReturnStmt); ok && len(ret.Results) == 1 {
				if tv, ok := c.Info.Types[ret.Results[0]]; ok && tv.IsNil() {
					returnsNil = true
				}
			}
			return true
		})
		if cc.List == nil {
			hasDefault = true
			// default: local type carrying the code
			good := tname == sp.localType
			assigns := false
			ast.Inspect(cc, func(n ast.Node) bool {
				if as, ok := n.(*ast.AssignStmt); ok && len(as.Lhs) == 1 && len(as.Rhs) == 1 {
					if f := c.fieldOf(as.Lhs[0]); f != nil && f.Name() == sp.localField && c.isIdentOf(as.Rhs[0], c.paramObj(fd, 0)) {
						assigns = true
					}
				}
				return true
			})
			_, isConst, field, _ := c.methodReturn(sp.localType, sp.codeMethod)
			r.check(good && assigns && !isConst && field == sp.localField, "C01.R4.ctor-code", sp.ctor+":default", c.pos(cc.Pos()), sp.localType+" carrying the code",
				"unknown codes must be decoded into %s with %s set to the code, and %s.%s() must return it (type=%s assigns=%v returns field %q)", sp.localType, sp.localField, sp.localType, sp.codeMethod, tname, assigns, field)
			continue
		}
		for _, e := range cc.List {
			k, ok := c.exprConst(e)
			cname := types.ExprString(e)
			if !ok {
				r.undecided("C01.R4.ctor-code", sp.ctor+":"+cname, c.pos(e.Pos()), "non-constant case")
				continue
			}
			if prev, dup := seenCodes[k]; dup {
				r.fail("C01.R4.ctor-code", sp.ctor+":"+cname, c.pos(e.Pos()), "code %d appears twice (%s and %s)", k, prev, cname)
				continue
			}
			seenCodes[k] = cname
			if returnsNil {
				isListed := false
				for _, n := range sp.nilCodes {
					if n == cname {
						isListed = true
					}
				}
				r.check(isListed, "C01.R4.ctor-code", sp.ctor+":"+cname, c.pos(e.Pos()), "reserved code -> nil (rejected by the decoder)", "code %s constructs nil", cname)
				continue
			}
			if tname == "" {
				r.undecided("C01.R4.ctor-code", sp.ctor+":"+cname, c.pos(e.Pos()), "cannot see which type the case constructs")
				continue
			}
			mk, isConst, _, _ := c.methodReturn(tname, sp.codeMethod)
			if !isConst {
				r.fail("C01.R4.ctor-code", sp.ctor+":"+cname, c.pos(e.Pos()), "%s.%s() does not return a constant", tname, sp.codeMethod)
				continue
			}
			constructed[tname] = k
			r.check(mk == k, "C01.R4.ctor-code", sp.ctor+":"+cname, c.pos(e.Pos()), fmt.Sprintf("%s <-> %d", tname, k),
				"code %s (%d) is decoded into %s, which encodes itself under code %d", cname, k, tname, mk)
		}
	}
	if !hasDefault {
		r.fail("C01.R4.ctor-code", sp.ctor+":default", c.pos(sw.Pos()), "no default branch for unknown codes")
	}
	for _, n := range c.implementers(sp.iface) {
		name := n.Obj().Name()
		if name == sp.localType {
			r.ok("C01.R4.complete", sp.iface+":"+name, c.pos(n.Obj().Pos()), "catch-all type")
			continue
		}
		_, ok := constructed[name]
		r.check(ok, "C01.R4.complete", sp.iface+":"+name, c.pos(n.Obj().Pos()), "constructible", "%s implements %s but %s never constructs it: its wire form would be decoded into %s", name, sp.iface, sp.ctor, sp.localType)
	}
	// every named code constant has a case
	sc := c.Types.Scope()
	for _, name := range sc.Names() {
		cn, ok := sc.Lookup(name).(*types.Const)
		if !ok || !strings.HasPrefix(name, sp.constPref) || strings.HasPrefix(name, "EDNS0LOCAL") || name == "EDNS0"+"_DO" {
			continue
		}
		// same declared type as the constructor parameter
		if !types.Identical(cn.Type(), c.paramObj(fd, 0).Type()) && !(sp.iface == "EDNS0" && types.Identical(cn.Type().Underlying(), types.Typ[types.Uint16])) && cn.Type() != types.Typ[types.UntypedInt] {
			continue
		}
		if sp.iface == "EDNS0" {
			// EDNS0 option codes live in one const block of untyped ints: restrict to that block by prefix and case
			if strings.ToUpper(name) != name {
				continue
			}
		}
		v, _ := c.constInt(name)
		_, has := seenCodes[v]
		r.check(has, "C01.R4.complete", "const:"+name, c.pos(cn.Pos()), "has a case", "code constant %s (%d) has no case in %s", name, v, sp.ctor)
	}
}

func c01Frame(c *Ctx, r *Report) {
	// unpack side: the element is constructed from the code read and unpacked from exactly [off, off+length)
	for _, u := range []struct{ fn, ctor, unpack string }{{"unpackDataOpt", "makeDataOpt", "(EDNS0).unpack"}, {"unpackDataSVCB", "makeSVCBKeyValue", "(SVCBKeyValue).unpack"}} {
		fn := c.ssaFunc(u.fn)
		if fn == nil {
			r.cerr("C01.R4.frame", u.fn, "function not found")
			continue
		}
		r.fn(u.fn)
		var problems []string
		ctors := callsIn(fn, u.ctor)
		ups := callsIn(fn, u.unpack)
		if len(ctors) != 1 || len(ups) != 1 {
			problems = append(problems, fmt.Sprintf("%d constructor calls, %d unpack calls", len(ctors), len(ups)))
		} else {
			up := ups[0].Common()
			if !sliceOf(up.Value)[ctors[0].Value()] {
				problems = append(problems, "the value unpacked into is not the constructor's result")
			}
			// argument: msg[off : off+int(length)] where code and length are two consecutive u16 reads, code first
			sl, ok := up.Args[0].(*ssa.Slice)
			if !ok || sl.Low == nil || sl.High == nil {
				problems = append(problems, "value is not unpacked from a bounded sub-slice msg[off:off+length]")
			} else {
				hb, ok := sl.High.(*ssa.BinOp)
				if !ok || hb.Op != token.ADD || (hb.X != sl.Low && hb.Y != sl.Low) {
					problems = append(problems, "slice bound is not off+length over the same off")
				}
				// the code passed to the constructor and the length must come from different reads, code read first
				codeReads := u16Reads(shallowOrigins(ctors[0].Common().Args[0]))
				lenReads := u16Reads(shallowOrigins(sl.High))
				for k := range codeReads {
					delete(lenReads, k)
				}
				if len(codeReads) != 1 || len(lenReads) != 1 {
					problems = append(problems, fmt.Sprintf("cannot identify the code read and the length read (code:%d length:%d)", len(codeReads), len(lenReads)))
				} else {
					var cr, lr ssa.Instruction
					for k := range codeReads {
						cr = k
					}
					for k := range lenReads {
						lr = k
					}
					if !precedes(cr, lr) {
						problems = append(problems, "length is read before the code")
					}
				}
			}
		}
		r.check(len(problems) == 0, "C01.R4.frame", u.fn, c.pos(fn.Pos()), "code,length,value", "%s", strings.Join(problems, "; "))
	}
	for _, p := range []struct{ fn, pack, code string }{{"packDataOpt", "(EDNS0).pack", "(EDNS0).Option"}, {"packDataSVCB", "(SVCBKeyValue).pack", "(SVCBKeyValue).Key"}} {
		fn := c.ssaFunc(p.fn)
		if fn == nil {
			r.cerr("C01.R4.frame", p.fn, "function not found")
			continue
		}
		r.fn(p.fn)
		var problems []string
		packs := callsIn(fn, p.pack)
		if len(packs) != 1 {
			problems = append(problems, fmt.Sprintf("%d element pack calls", len(packs)))
		} else {
			// two u16 writes: first the code (from the same element), then len(packed); then copy(msg[off:..], packed)
			var writes []ssa.CallInstruction
			writes = append(writes, callsIn(fn, "(binary.bigEndian).PutUint16")...)
			writes = append(writes, callsIn(fn, "packUint16")...)
			sort.Slice(writes, func(i, j int) bool { return writes[i].Pos() < writes[j].Pos() })
			if len(writes) != 2 {
				problems = append(problems, fmt.Sprintf("%d 16-bit writes per element, want code and length", len(writes)))
			} else {
				valOf := func(ci ssa.CallInstruction) ssa.Value {
					if calleeNameSSA(ci.Common()) == "packUint16" {
						return ci.Common().Args[0]
					}
					return ci.Common().Args[2]
				}
				s0, s1 := sliceOf(valOf(writes[0])), sliceOf(valOf(writes[1]))
				if !anyIn(s0, callsFunc(p.code)) {
					problems = append(problems, "first 16-bit word is not the element's code")
				}
				isLenOfPacked := func(v ssa.Value) bool {
					call, ok := v.(*ssa.Call)
					if !ok || calleeNameSSA(&call.Call) != "builtin.len" {
						return false
					}
					return sliceOf(call.Call.Args[0])[packs[0].Value()]
				}
				if !anyIn(s1, isLenOfPacked) {
					problems = append(problems, "second 16-bit word is not len(packed value)")
				}
				if !precedes(writes[0].(ssa.Instruction), writes[1].(ssa.Instruction)) {
					problems = append(problems, "length written before code")
				}
			}
			copies := callsIn(fn, "builtin.copy")
			okCopy := false
			for _, cp := range copies {
				if sliceOf(cp.Common().Args[1])[packs[0].Value()] {
					okCopy = true
				}
			}
			if !okCopy {
				problems = append(problems, "packed value is not copied into the message")
			}
		}
		r.check(len(problems) == 0, "C01.R4.frame", p.fn, c.pos(fn.Pos()), "code,length,value", "%s", strings.Join(problems, "; "))
	}
}

func u16Reads(s map[ssa.Value]bool) map[ssa.Instruction]bool {
	out := map[ssa.Instruction]bool{}
	for v := range s {
		if call, ok := v.(*ssa.Call); ok {
			n := calleeNameSSA(&call.Call)
			if n == "(binary.bigEndian).Uint16" || n == "unpackUint16" {
				out[call] = true
			}
		}
	}
	return out
}

// ---- R5: RDLENGTH ----

func c01R5(c *Ctx, r *Report) {
	r.rule("C01.R5.rdlength-patch", 1, "packRR patches RDLENGTH = off1-headerEnd at headerEnd-2 only after the 16-bit overflow test, before the success return")
	r.rule("C01.R5.exact-consumption", 1, "UnpackRRWithHeader succeeds with RDATA only when the type's unpack consumed exactly RDLENGTH octets")
	if fn := c.ssaFunc("packRR"); fn == nil {
		r.cerr("C01.R5.rdlength-patch", "packRR", "function not found")
	} else {
		r.fn("packRR")
		var problems []string
		puts := callsIn(fn, "(binary.bigEndian).PutUint16")
		if len(puts) != 1 {
			problems = append(problems, fmt.Sprintf("%d PutUint16 calls", len(puts)))
		} else {
			put := puts[0]
			args := put.Common().Args
			// value: uint16(off1 - headerEnd)
			var rdl ssa.Value = args[2]
			if cv, ok := rdl.(*ssa.Convert); ok {
				rdl = cv.X
			}
			sub, ok := rdl.(*ssa.BinOp)
			var hdrEnd ssa.Value
			if !ok || sub.Op != token.SUB {
				problems = append(problems, "patched value is not off1 - headerEnd")
			} else {
				hdrEnd = sub.Y
				if !anyIn(sliceOf(sub.X), callsFunc("(RR).pack")) || !anyIn(sliceOf(sub.Y), callsFunc("(RR_Header).packHeader")) {
					problems = append(problems, "RDLENGTH is not (end of RDATA) - (end of header)")
				}
			}
			// position: msg[headerEnd-2:]
			_, base, k, ok2 := sliceBase(args[1])
			if !ok2 || base == nil || base != hdrEnd || k != -2 {
				problems = append(problems, "RDLENGTH is not written at headerEnd-2")
			}
			// guard: int(uint16(rdlength)) == rdlength
			g := Guard{Name: "int(uint16(rdlength)) == rdlength", Op: "eq", A: func(v ssa.Value) bool {
				cv, ok := v.(*ssa.Convert)
				if !ok {
					return false
				}
				w, _ := intWidth(cv.Type())
				return w == 16 && cv.X == rdl
			}, B: func(v ssa.Value) bool { return v == rdl }, Holds: true}
			if miss := guardsMissing(fn, put.Block(), []Guard{g}); len(miss) > 0 {
				problems = append(problems, "patch not guarded by the overflow test "+miss[0])
			}
			// every success return passes the patch
			for _, rp := range returnPoints(fn, 2) {
				if isNilConst(rp.Results[2]) && !(put.Block() == rp.Block || put.Block().Dominates(rp.Block)) {
					problems = append(problems, fmt.Sprintf("%s: success return without the RDLENGTH patch", c.pos(rp.Pos)))
				}
			}
		}
		r.check(len(problems) == 0, "C01.R5.rdlength-patch", "packRR", c.pos(fn.Pos()), "guarded patch at headerEnd-2", "%s", strings.Join(problems, "; "))
	}
	if fn := c.ssaFunc("UnpackRRWithHeader"); fn == nil {
		r.cerr("C01.R5.exact-consumption", "UnpackRRWithHeader", "function not found")
	} else {
		r.fn("UnpackRRWithHeader")
		var problems []string
		n := 0
		for _, rp := range returnPoints(fn, 2) {
			if !isNilConst(rp.Results[2]) {
				continue
			}
			n++
			facts := factsAt(fn, rp.Block)
			noRdata, exact := false, false
			for _, f := range facts {
				if matchGuard(f, Guard{Op: "call", A: callsFunc("noRdata"), Holds: true}) {
					noRdata = true
				}
				if matchGuard(f, Guard{Op: "eq", A: callsFunc("(RR).unpack"), B: readsField("RR_Header", "Rdlength"), Holds: true}) {
					exact = true
				}
			}
			if !noRdata && !exact {
				problems = append(problems, fmt.Sprintf("%s: success return not guarded by off == end (end = off+RDLENGTH) nor by the RDATA-less case", c.pos(rp.Pos)))
			}
		}
		if n == 0 {
			problems = append(problems, "no success return found")
		}
		r.check(len(problems) == 0, "C01.R5.exact-consumption", "UnpackRRWithHeader", c.pos(fn.Pos()), "off == end", "%s", strings.Join(problems, "; "))
	}
}

// ---- R6: selector-mask agreement ----

// c01R6: a struct field used as a union selector must be masked identically by every consumer that selects on it.
func c01R6(c *Ctx, r *Report) {
	r.rule("C01.R6.selector-mask", 2, "every consumer selecting on a union selector field applies the same mask")
	selectorMaskRule(c, r, "C01.R6.selector-mask")
}

func selectorMaskRule(c *Ctx, r *Report, rule string) {
	// selector fields: fields of RR structs passed as the selector argument of the gateway codecs or used as a switch tag
	type use struct {
		fn   string
		mask int64 // -1 = unmasked
		pos  token.Pos
	}
	uses := map[*types.Var][]use{}
	selectorParams := map[string]int{"packIPSECGateway": 4, "unpackIPSECGateway": 2, "parseAddrHostUnion": -1}
	maskOf := func(e ast.Expr) (*types.Var, int64) {
		e = ast.Unparen(e)
		if be, ok := e.(*ast.BinaryExpr); ok && be.Op == token.AND {
			if f := c.fieldOf(be.X); f != nil {
				if k, ok := c.exprConst(be.Y); ok {
					return f, k
				}
			}
			if f := c.fieldOf(be.Y); f != nil {
				if k, ok := c.exprConst(be.X); ok {
					return f, k
				}
			}
		}
		if f := c.fieldOf(e); f != nil {
			return f, -1
		}
		return nil, 0
	}
	var names []string
	for n := range c.decls {
		names = append(names, n)
	}
	sort.Strings(names)
	for _, name := range names {
		fd := c.decls[name]
		if fd.Body == nil {
			continue
		}
		recv := c.recvObj(fd)
		// locals assigned from a (masked) selector field: gatewayType := rr.GatewayType & 0x7f
		localSel := map[types.Object]struct {
			f *types.Var
			m int64
		}{}
		ast.Inspect(fd.Body, func(n ast.Node) bool {
			as, ok := n.(*ast.AssignStmt)
			if !ok || len(as.Lhs) != len(as.Rhs) {
				return true
			}
			for i := range as.Lhs {
				id, ok := as.Lhs[i].(*ast.Ident)
				if !ok {
					continue
				}
				if f, m := maskOf(as.Rhs[i]); f != nil && f.Name() == "GatewayType" {
					o := c.Info.Defs[id]
					if o == nil {
						o = c.Info.Uses[id]
					}
					localSel[o] = struct {
						f *types.Var
						m int64
					}{f, m}
				}
			}
			return true
		})
		resolve := func(e ast.Expr) (*types.Var, int64) {
			if f, m := maskOf(e); f != nil {
				return f, m
			}
			if id, ok := ast.Unparen(e).(*ast.Ident); ok {
				if ls, ok := localSel[c.Info.Uses[id]]; ok {
					return ls.f, ls.m
				}
			}
			return nil, 0
		}
		_ = recv
		ast.Inspect(fd.Body, func(n ast.Node) bool {
			switch t := n.(type) {
			case *ast.SwitchStmt:
				if t.Tag != nil {
					if f, m := resolve(t.Tag); f != nil && f.Name() == "GatewayType" {
						uses[f] = append(uses[f], use{name, m, t.Pos()})
					}
				}
			case *ast.CallExpr:
				cn := c.calleeName(t)
				if idx, ok := selectorParams[cn]; ok {
					for i, a := range t.Args {
						if idx >= 0 && i != idx {
							continue
						}
						if f, m := resolve(a); f != nil && f.Name() == "GatewayType" {
							uses[f] = append(uses[f], use{name + "->" + cn, m, a.Pos()})
						}
					}
				}
			}
			return true
		})
	}
	// group by declaring struct of the field
	for f, us := range uses {
		owner := "?"
		for _, t := range c.rrTypes() {
			for _, wf := range t.Fields {
				if wf.Var == f && t.Embeds == "" {
					owner = t.Name
				}
			}
		}
		masks := map[int64][]string{}
		for _, u := range us {
			masks[u.mask] = append(masks[u.mask], fmt.Sprintf("%s (%s)", u.fn, c.pos(u.pos)))
			r.fn(strings.Split(u.fn, "->")[0])
		}
		construct := owner + "." + f.Name()
		if len(masks) == 1 {
			r.ok(rule, construct, c.pos(f.Pos()), fmt.Sprintf("%d consumers agree", len(us)))
			continue
		}
		var parts []string
		var ks []int64
		for k := range masks {
			ks = append(ks, k)
		}
		sort.Slice(ks, func(i, j int) bool { return ks[i] < ks[j] })
		for _, k := range ks {
			sort.Strings(masks[k])
			m := "unmasked"
			if k >= 0 {
				m = fmt.Sprintf("&%#x", k)
			}
			parts = append(parts, m+": "+strings.Join(masks[k], ", "))
		}
		r.fail(rule, construct, c.pos(f.Pos()), "consumers select on this union selector under different masks: %s", strings.Join(parts, " | "))
	}
}

// ---- R7: integer helper fingerprints ----

func c01R7(c *Ctx, r *Report) {
	r.rule("C01.R7.uint-pack", 5, "packUintN stores the value big-endian in exactly N/8 octets at off and returns off+N/8")
	r.rule("C01.R7.uint-unpack", 5, "unpackUintN reads the same N/8 octets big-endian and returns off+N/8")
	for _, n := range []int{8, 16, 32, 48, 64} {
		nb := n / 8
		pname := fmt.Sprintf("packUint%d", n)
		uname := fmt.Sprintf("unpackUint%d", n)
		if fn := c.ssaFunc(pname); fn == nil {
			r.cerr("C01.R7.uint-pack", pname, "function not found")
		} else {
			r.fn(pname)
			var iParam, offParam, msgParam ssa.Value
			for _, p := range fn.Params {
				switch p.Name() {
				case "i":
					iParam = p
				case "off":
					offParam = p
				case "msg":
					msgParam = p
				}
			}
			env := &bitEnv{leafOf: func(v ssa.Value) (int, int, bool) {
				if v == iParam {
					w, _ := intWidth(v.Type())
					return 0, w, true
				}
				return 0, 0, false
			}}
			bytes := map[int64][8]bitSrc{}
			var problems []string
			for _, a := range byteAccesses(fn) {
				if !a.Write || a.Buf != msgParam {
					continue
				}
				if a.Base != offParam {
					problems = append(problems, fmt.Sprintf("%s: write at an offset not of the form off+k", c.pos(a.Pos)))
					continue
				}
				v := env.eval(a.Val)
				for j := 0; j < a.N; j++ {
					var b [8]bitSrc
					for t := 0; t < 8; t++ {
						if a.N == 1 {
							b[t] = v[t]
						} else {
							b[t] = v[(a.N-1-j)*8+t]
						}
					}
					bytes[a.K+int64(j)] = b
				}
			}
			for k := int64(0); k < int64(nb); k++ {
				b, ok := bytes[k]
				if !ok {
					problems = append(problems, fmt.Sprintf("octet %d is not written", k))
					continue
				}
				for t := 0; t < 8; t++ {
					want := bitSrc{Kind: bLeaf, Leaf: 0, Bit: (nb-1-int(k))*8 + t}
					if b[t] != want {
						problems = append(problems, fmt.Sprintf("octet %d bit %d holds %v, big-endian order needs i[%d]", k, t, b[t], want.Bit))
						break
					}
				}
			}
			for k := range bytes {
				if k < 0 || k >= int64(nb) {
					problems = append(problems, fmt.Sprintf("octet at off%+d written outside the %d-octet field", k, nb))
				}
			}
			problems = append(problems, checkAdvance(c, fn, offParam, len(fn.Signature.Results().At(0).Name())*0, int64(nb), 0)...)
			r.check(len(problems) == 0, "C01.R7.uint-pack", pname, c.pos(fn.Pos()), fmt.Sprintf("%d octets big-endian", nb), "%s", strings.Join(problems, "; "))
		}
		if fn := c.ssaFunc(uname); fn == nil {
			r.cerr("C01.R7.uint-unpack", uname, "function not found")
		} else {
			r.fn(uname)
			var offParam, msgParam ssa.Value
			for _, p := range fn.Params {
				switch p.Name() {
				case "off":
					offParam = p
				case "msg":
					msgParam = p
				}
			}
			var problems []string
			env := readEnv(fn, msgParam, offParam, nil)
			evalRead := env.eval
			nSucc := 0
			for _, rp := range returnPoints(fn, 2) {
				if !isNilConst(rp.Results[2]) {
					continue
				}
				nSucc++
				v := evalRead(rp.Results[0])
				for b := 0; b < 64; b++ {
					if b < n {
						want := bitSrc{Kind: bLeaf, Leaf: byteLeafBase + (nb - 1 - b/8), Bit: b % 8}
						if v[b] != want {
							problems = append(problems, fmt.Sprintf("result bit %d is %v, big-endian order needs octet %d bit %d", b, v[b], nb-1-b/8, b%8))
							break
						}
					} else if v[b].Kind != bZero {
						problems = append(problems, fmt.Sprintf("result bit %d is not zero", b))
						break
					}
				}
			}
			if nSucc == 0 {
				problems = append(problems, "no success return")
			}
			problems = append(problems, checkAdvance(c, fn, offParam, 1, int64(nb), 2)...)
			r.check(len(problems) == 0, "C01.R7.uint-unpack", uname, c.pos(fn.Pos()), fmt.Sprintf("%d octets big-endian", nb), "%s", strings.Join(problems, "; "))
		}
	}
}

// checkAdvance: on success returns (error result errIdx nil) result offIdx equals off + n.
func checkAdvance(c *Ctx, fn *ssa.Function, offParam ssa.Value, offIdx int, n int64, errIdx int) []string {
	var problems []string
	if errIdx == 0 {
		errIdx = fn.Signature.Results().Len() - 1
	}
	for _, rp := range returnPoints(fn, errIdx) {
		if !isNilConst(rp.Results[errIdx]) {
			continue
		}
		base, k := offsetOf(rp.Results[offIdx])
		if base != offParam || k != n {
			problems = append(problems, fmt.Sprintf("%s: success return advances the offset by %v, want off+%d", c.pos(rp.Pos), rp.Results[offIdx], n))
		}
	}
	return problems
}

// rootIdent: the identifier a selector chain starts from (nil when it starts from something else).
func rootIdent(e ast.Expr) *ast.Ident {
	for {
		switch t := ast.Unparen(e).(type) {
		case *ast.Ident:
			return t
		case *ast.SelectorExpr:
			e = t.X
		case *ast.StarExpr:
			e = t.X
		default:
			return nil
		}
	}
}

// passesOnNilEdges: every path from start to a return passes the instruction target, when later tests of IsEdns0()'s
// result against nil are taken on their nil side only (start lies on an edge where the result is known nil: a second
// test of the same value cannot come out the other way).
func passesOnNilEdges(fn *ssa.Function, start *ssa.BasicBlock, target ssa.Instruction) bool {
	seen := map[*ssa.BasicBlock]bool{}
	ok := true
	var walk func(b *ssa.BasicBlock)
	walk = func(b *ssa.BasicBlock) {
		if seen[b] || !ok {
			return
		}
		seen[b] = true
		for _, in := range b.Instrs {
			if in == target {
				return
			}
			if _, isRet := in.(*ssa.Return); isRet {
				ok = false
				return
			}
		}
		if ifi, isIf := b.Instrs[len(b.Instrs)-1].(*ssa.If); isIf {
			atom, pol := condAtom(ifi.Cond)
			for s := 0; s < 2; s++ {
				if matchGuard(Fact{ifi, atom, pol == (s == 0)}, Guard{Op: "eq", A: callsFunc("(Msg).IsEdns0"), B: isNilConst, Holds: true}) {
					walk(b.Succs[s]) // the nil side only
					return
				}
			}
		}
		for _, sx := range b.Succs {
			walk(sx)
		}
	}
	walk(start)
	return ok
}
