package main

import (
	"fmt"
	"go/token"
	"go/types"
	"sort"
	"strings"

	"golang.org/x/tools/go/ssa"
)

// Rules added after the fourth round of independent breaking changes (part 2).

// descendingScanCoversZero: a loop `for i := len(x)-1; <cond>; i--` that looks for an element visits index 0: on the
// edge into the body the induction variable may be 0.
func descendingScanCoversZero(c *Ctx, r *Report, rule, fname, consequence string) {
	fn := c.ssaFunc(fname)
	if fn == nil {
		r.cerr(rule, fname, "function not found")
		return
	}
	r.fn(fname)
	n := 0
	allInstrs(fn, func(in ssa.Instruction) {
		phi, ok := in.(*ssa.Phi)
		if !ok || len(phi.Edges) != 2 {
			return
		}
		// one edge len(..)-1, the other phi-1
		isInit := func(v ssa.Value) bool {
			b, ok := v.(*ssa.BinOp)
			if !ok || b.Op != token.SUB {
				return false
			}
			k, isK := constIntOf(b.Y)
			call, isCall := b.X.(*ssa.Call)
			return isK && k == 1 && isCall && calleeNameSSA(&call.Call) == "builtin.len"
		}
		isStep := func(v ssa.Value) bool {
			b, ok := v.(*ssa.BinOp)
			if !ok || b.X != ssa.Value(phi) {
				return false
			}
			k, isK := constIntOf(b.Y)
			return isK && ((b.Op == token.SUB && k == 1) || (b.Op == token.ADD && k == -1))
		}
		if !(isInit(phi.Edges[0]) && isStep(phi.Edges[1])) && !(isInit(phi.Edges[1]) && isStep(phi.Edges[0])) {
			return
		}
		n++
		construct := fmt.Sprintf("%s:loop#%d", fname, n)
		// the guard in the header
		blk := phi.Block()
		iff, ok := blk.Instrs[len(blk.Instrs)-1].(*ssa.If)
		if !ok {
			r.undecided(rule, construct, c.pos(phi.Pos()), "the loop header does not end in a comparison of the index")
			return
		}
		lo, _, hasLo, _ := intervalFromFact(Fact{If: iff, Atom: iff.Cond, Holds: true}, isValue(phi))
		r.check(hasLo && lo == 0, rule, construct, c.pos(iff.Pos()), "body entered for i >= 0", "the scan from the last element down stops before index 0 (the body is entered for i >= %d): %s", lo, consequence)
	})
	if n == 0 {
		r.undecided(rule, fname, c.pos(fn.Pos()), "no loop of the form for i := len(x)-1; ...; i-- found")
	}
}

// txtEmptyList: the length side counts sum(len(s)+1) over the strings of a TXT-like record, i.e. nothing for an
// empty list; the pack side must then consume nothing either: packTxt returns the offset it was given.
func txtEmptyList(c *Ctx, r *Report, rule, consequence string) {
	r.rule(rule, 1, "packTxt consumes no octet for an empty string list (the length methods count sum(len+1), zero for an empty list)")
	fn := c.ssaFunc("packTxt")
	if fn == nil {
		r.cerr(rule, "packTxt", "function not found")
		return
	}
	r.fn("packTxt")
	txt, offset := paramOf(fn, "txt"), paramOf(fn, "offset")
	if txt == nil || offset == nil {
		if len(fn.Params) >= 3 {
			txt, offset = fn.Params[0], fn.Params[2]
		} else {
			r.cerr(rule, "packTxt", "parameters not found")
			return
		}
	}
	n := 0
	for _, b := range fn.Blocks {
		ret, ok := b.Instrs[len(b.Instrs)-1].(*ssa.Return)
		if !ok || len(ret.Results) != 2 {
			continue
		}
		if k, isK := ret.Results[1].(*ssa.Const); !isK || k.Value != nil {
			continue // an error return
		}
		empty := false
		for _, f := range factsAt(fn, b) {
			bin, ok := f.Atom.(*ssa.BinOp)
			if !ok {
				continue
			}
			call, isCall := bin.X.(*ssa.Call)
			k, isK := constIntOf(bin.Y)
			if isCall && calleeNameSSA(&call.Call) == "builtin.len" && call.Call.Args[0] == txt && isK && k == 0 && ((bin.Op == token.EQL && f.Holds) || (bin.Op == token.NEQ && !f.Holds)) {
				empty = true
			}
		}
		if !empty {
			continue
		}
		n++
		r.check(ret.Results[0] == offset, rule, fmt.Sprintf("packTxt:empty-list-return#%d", n), c.pos(ret.Pos()), "returns offset", "for an empty string list packTxt returns %s instead of the offset it was given: %s", describeValue(ret.Results[0]), consequence)
	}
	// ... and needs no room: no refusal and no write on that path (Len() promises the record fits a buffer of exactly
	// that size)
	for _, b := range fn.Blocks {
		empty := false
		for _, f := range factsAt(fn, b) {
			bin, ok := f.Atom.(*ssa.BinOp)
			if !ok {
				continue
			}
			call, isCall := bin.X.(*ssa.Call)
			k, isK := constIntOf(bin.Y)
			if isCall && calleeNameSSA(&call.Call) == "builtin.len" && call.Call.Args[0] == txt && isK && k == 0 && ((bin.Op == token.EQL && f.Holds) || (bin.Op == token.NEQ && !f.Holds)) {
				empty = true
			}
		}
		if !empty {
			continue
		}
		for _, in := range b.Instrs {
			switch t := in.(type) {
			case *ssa.Store:
				if _, isIdx := t.Addr.(*ssa.IndexAddr); isIdx {
					r.fail(rule, "packTxt:empty-list-write", c.pos(t.Pos()), "an octet is written for an empty string list although the returned offset does not include it: the record needs one octet of room more than Len() says, so PackRR into a buffer of exactly Len(rr) octets (and ToRFC3597, which allocates that) fails for an RDATA-less TXT-like record")
				}
			case *ssa.Return:
				if len(t.Results) == 2 {
					if kk, isK := t.Results[1].(*ssa.Const); !isK || kk.Value != nil {
						r.fail(rule, "packTxt:empty-list-refusal", c.pos(t.Pos()), "packing an empty string list can fail for lack of room although nothing is to be written: PackRR into a buffer of exactly Len(rr) octets fails for an RDATA-less TXT-like record")
					}
				}
			}
		}
	}
	if n == 0 {
		r.undecided(rule, "packTxt", c.pos(fn.Pos()), "no success return on a len(txt) == 0 path found")
	}
}

// c10DedupAfterSort: RFC 4034 s.6.3: duplicates are removed from the canonically ordered RRset; the comparison of
// neighbours only finds every duplicate after the sort.
func c10DedupAfterSort(c *Ctx, r *Report, rule string) {
	r.rule(rule, 1, "rawSignatureData compares neighbouring wire forms for equality only after sort.Sort")
	fn := c.ssaFunc("rawSignatureData")
	if fn == nil {
		r.cerr(rule, "rawSignatureData", "function not found")
		return
	}
	r.fn("rawSignatureData")
	var sorts, equals []ssa.CallInstruction
	allInstrs(fn, func(in ssa.Instruction) {
		ci, ok := in.(ssa.CallInstruction)
		if !ok {
			return
		}
		switch calleeNameSSA(ci.Common()) {
		case "sort.Sort", "sort.Stable", "sort.Slice", "sort.SliceStable", "slices.SortFunc", "slices.SortStableFunc":
			sorts = append(sorts, ci)
		case "bytes.Equal", "bytes.Compare":
			equals = append(equals, ci)
		}
	})
	if compact := compactByBytesEqual(fn); compact != nil {
		equals = append(equals, compact)
	}
	if len(sorts) == 0 || len(equals) == 0 {
		r.fail(rule, "rawSignatureData", c.pos(fn.Pos()), "rawSignatureData has %d sort and %d equality calls: repeated records are not removed from the sorted RRset (RFC 4034 s.6.3)", len(sorts), len(equals))
		return
	}
	for i, eq := range equals {
		after := false
		for _, s := range sorts {
			sb, eb := s.Block(), eq.Block()
			if sb == eb && instrIndex(s) < instrIndex(eq) {
				after = true
			}
			if sb != eb && sb.Dominates(eb) {
				// and not inside a loop that also contains the sort (then the order within an iteration is what counts)
				after = true
			}
		}
		r.check(after, rule, fmt.Sprintf("rawSignatureData:equal#%d", i+1), c.pos(eq.Pos()), "after the sort", "wire forms are compared for equality before the set is sorted: only repeats that happen to be neighbours in the caller's slice are dropped, so an RRset containing a record twice with another record in between is signed and verified over the duplicate as well")
	}
}

// c11CanonicalNames: RFC 8945 s.4.3.3: the key name and the algorithm name enter the digest in canonical wire
// format, i.e. lower-cased.
func c11CanonicalNames(c *Ctx, r *Report, rule string) {
	r.rule(rule, 2, "tsigBuffer lower-cases (CanonicalName) the key name and the algorithm name that enter the digest")
	fn := c.ssaFunc("tsigBuffer")
	if fn == nil {
		r.cerr(rule, "tsigBuffer", "function not found")
		return
	}
	r.fn("tsigBuffer")
	for _, field := range []string{"Name", "Algorithm"} {
		sts := storesToField(fn, "tsigWireFmt", field)
		if len(sts) == 0 {
			r.fail(rule, "tsigBuffer:"+field, c.pos(fn.Pos()), "the TSIG variables' %s is never set", field)
			continue
		}
		for i, st := range sts {
			call, ok := st.Val.(*ssa.Call)
			okCanon := ok && (calleeNameSSA(&call.Call) == "CanonicalName" || calleeNameSSA(&call.Call) == "asciiLower")
			construct := "tsigBuffer:" + field
			if i > 0 {
				construct = fmt.Sprintf("%s#%d", construct, i+1)
			}
			r.check(okCanon, rule, construct, c.pos(st.Pos()), "CanonicalName(...)", "the %s that enters the digest is %s, not its canonical (lower-case) form: for a name with a capital letter the MAC differs from the RFC 8945 MAC, so correct peers reject our messages and we reject theirs", field, describeValue(st.Val))
		}
	}
}

// c12UDPSizePrecedence: the datagram receive buffer is sized by what the query advertises (its OPT record); the
// client's configured size applies only to queries without one.
func c12UDPSizePrecedence(c *Ctx, r *Report, rule string) {
	r.rule(rule, 1, "Client.UDPSize sizes the receive buffer only when the query carries no OPT record")
	fn := c.ssaFunc("Client.ExchangeWithConnContext")
	if fn == nil {
		r.cerr(rule, "Client.ExchangeWithConnContext", "function not found")
		return
	}
	r.fn("Client.ExchangeWithConnContext")
	n := 0
	for _, st := range storesToField(fn, "Conn", "UDPSize") {
		ld, ok := st.Val.(*ssa.UnOp)
		if !ok || !readsField("Client", "UDPSize")(ld.X) {
			continue
		}
		n++
		guarded := false
		for _, f := range factsAt(fn, st.Block()) {
			bin, ok := f.Atom.(*ssa.BinOp)
			if !ok {
				continue
			}
			k, isK := bin.Y.(*ssa.Const)
			if !isK || k.Value != nil {
				continue
			}
			isOpt := false
			for o := range sliceOf(bin.X) {
				if call, ok := o.(*ssa.Call); ok && strings.HasSuffix(calleeNameSSA(&call.Call), "IsEdns0") {
					isOpt = true
				}
			}
			if isOpt && ((bin.Op == token.EQL && f.Holds) || (bin.Op == token.NEQ && !f.Holds)) {
				guarded = true
			}
		}
		r.check(guarded, rule, fmt.Sprintf("ExchangeWithConnContext:UDPSize#%d", n), c.pos(st.Pos()), "under opt == nil", "the client's UDPSize overrides the receive buffer size even when the query advertises a size in its OPT record: the server answers up to the advertised size, the datagram is cut to the smaller buffer and the reply is lost or shortened")
	}
	if n == 0 {
		r.undecided(rule, "Client.ExchangeWithConnContext", c.pos(fn.Pos()), "no store of Client.UDPSize into Conn.UDPSize found")
	}
}

// c13CloseBeforeDone: a connection goroutine closes its connection before it reports itself done to the wait
// group Shutdown waits on.
func c13CloseBeforeDone(c *Ctx, r *Report, rule string) {
	r.rule(rule, 1, "serveTCPConn closes the connection (unless hijacked) on every path before wg.Done()")
	fn := c.ssaFunc("Server.serveTCPConn")
	if fn == nil {
		r.cerr(rule, "Server.serveTCPConn", "function not found")
		return
	}
	r.fn("Server.serveTCPConn")
	var dones []ssa.Instruction
	removedBlocks := map[*ssa.BasicBlock]bool{}
	removedEdges := map[edge]bool{}
	deferredClose := false
	for _, sub := range withAnon(fn) {
		allInstrs(sub, func(in ssa.Instruction) {
			ci, ok := in.(ssa.CallInstruction)
			if !ok {
				return
			}
			cn := calleeNameSSA(ci.Common())
			_, isDefer := in.(*ssa.Defer)
			switch {
			case cn == "(sync.WaitGroup).Done" || cn == "(*sync.WaitGroup).Done":
				if sub == fn {
					dones = append(dones, in)
				}
			case strings.HasSuffix(cn, "response).Close") || cn == "(response).Close":
				if sub != fn || isDefer {
					deferredClose = true
				} else {
					removedBlocks[in.Block()] = true
				}
			}
		})
	}
	// the hijacked edge
	for _, b := range fn.Blocks {
		iff, ok := b.Instrs[len(b.Instrs)-1].(*ssa.If)
		if !ok {
			continue
		}
		cond := iff.Cond
		neg := false
		if u, ok := cond.(*ssa.UnOp); ok && u.Op == token.NOT {
			cond, neg = u.X, true
		}
		ld, ok := cond.(*ssa.UnOp)
		if !ok || !readsField("response", "hijacked")(ld.X) {
			continue
		}
		if neg {
			removedEdges[edge{b, b.Succs[1]}] = true
		} else {
			removedEdges[edge{b, b.Succs[0]}] = true
		}
	}
	if len(dones) == 0 {
		r.fail(rule, "Server.serveTCPConn", c.pos(fn.Pos()), "serveTCPConn never calls wg.Done() directly")
		return
	}
	for i, d := range dones {
		_, isDefer := d.(*ssa.Defer)
		if isDefer {
			r.check(!deferredClose && len(removedBlocks) > 0, rule, fmt.Sprintf("serveTCPConn:Done#%d", i+1), c.pos(d.Pos()), "deferred Done, straight-line Close", "wg.Done() and the Close are both deferred: their order is the reverse of registration and is not decided here")
			continue
		}
		reached := reach(fn.Blocks[0], removedEdges, removedBlocks)[d.Block()]
		why := "a path reaches wg.Done() without having closed the connection"
		if deferredClose {
			why = "the connection is closed in a deferred call, i.e. after wg.Done()"
		}
		r.check(!reached && !deferredClose, rule, fmt.Sprintf("serveTCPConn:Done#%d", i+1), c.pos(d.Pos()), "Close (or hijacked) on every path before", "%s: Shutdown's wait returns while the connection goroutine and its socket are still alive", why)
	}
}

// c13LockReleasedOnReturn: the start functions take srv.lock and hand the unlocking over to a once-closure; every
// return after the Lock happens with the deferred unlock registered (or after an explicit Unlock).
func c13LockReleasedOnReturn(c *Ctx, r *Report, rule string) {
	r.rule(rule, 2, "ListenAndServe / ActivateAndServe register the (once-)unlock of srv.lock before any return that follows the Lock")
	for _, name := range []string{"Server.ListenAndServe", "Server.ActivateAndServe"} {
		fn := c.ssaFunc(name)
		if fn == nil {
			r.cerr(rule, name, "function not found")
			continue
		}
		r.fn(name)
		var lock ssa.Instruction
		var unlockBlocks = map[*ssa.BasicBlock]int{}
		allInstrs(fn, func(in ssa.Instruction) {
			ci, ok := in.(ssa.CallInstruction)
			if !ok {
				return
			}
			cn := calleeNameSSA(ci.Common())
			if strings.HasSuffix(cn, "RWMutex).Lock") || strings.HasSuffix(cn, "Mutex).Lock") {
				if lock == nil {
					lock = in
				}
				return
			}
			isUnlock := strings.HasSuffix(cn, "Mutex).Unlock")
			if _, isDefer := in.(*ssa.Defer); isDefer && !isUnlock {
				// defer unlock() where unlock := unlockOnce(&srv.lock)
				for o := range sliceOf(ci.Common().Value) {
					if call, ok := o.(*ssa.Call); ok && calleeNameSSA(&call.Call) == "unlockOnce" {
						isUnlock = true
					}
				}
			}
			if isUnlock {
				if _, seen := unlockBlocks[in.Block()]; !seen {
					unlockBlocks[in.Block()] = instrIndex(in)
				}
			}
		})
		if lock == nil {
			r.fail(rule, name, c.pos(fn.Pos()), "%s does not take srv.lock", name)
			continue
		}
		// walk from the Lock: a return reached before an unlock registration
		var bad []string
		seen := map[*ssa.BasicBlock]bool{}
		type item struct {
			b     *ssa.BasicBlock
			start int
		}
		stack := []item{{lock.Block(), instrIndex(lock) + 1}}
		for len(stack) > 0 {
			it := stack[len(stack)-1]
			stack = stack[:len(stack)-1]
			if idx, has := unlockBlocks[it.b]; has && idx >= it.start {
				continue
			}
			if ret, ok := it.b.Instrs[len(it.b.Instrs)-1].(*ssa.Return); ok {
				bad = append(bad, c.pos(ret.Pos()))
				continue
			}
			for _, s := range it.b.Succs {
				if !seen[s] {
					seen[s] = true
					stack = append(stack, item{s, 0})
				}
			}
		}
		sort.Strings(bad)
		r.check(len(bad) == 0, rule, name, c.pos(lock.Pos()), "unlock registered before every return", "the return at %s follows srv.lock.Lock() with neither the deferred unlock registered nor an Unlock: the refused start leaves the server locked, and Shutdown or a later start then blocks forever", strings.Join(bad, ", "))
	}
}

// c15FreshTime: every envelope of an outgoing transfer is signed with the time it is sent at: the time passed to
// SetTsig is read inside the envelope loop.
func c15FreshTime(c *Ctx, r *Report, rule string) {
	r.rule(rule, 1, "Transfer.Out reads the clock for each envelope's TSIG inside the envelope loop")
	fn := c.ssaFunc("Transfer.Out")
	if fn == nil {
		r.cerr(rule, "Transfer.Out", "function not found")
		return
	}
	r.fn("Transfer.Out")
	n := 0
	for _, ci := range callsIn(fn, "(Msg).SetTsig") {
		args := ci.Common().Args
		t := args[len(args)-1]
		n++
		var now *ssa.Call
		for o := range sliceOf(t) {
			if call, ok := o.(*ssa.Call); ok && calleeNameSSA(&call.Call) == "time.Now" {
				now = call
			}
		}
		construct := fmt.Sprintf("Transfer.Out:SetTsig#%d", n)
		if now == nil {
			r.fail(rule, construct, c.pos(ci.Pos()), "the time signed passed to SetTsig is %s, not a reading of the clock", describeValue(t))
			continue
		}
		inLoop := false
		for s := range reach(now.Block(), nil, nil) {
			for _, p := range s.Succs {
				if p == now.Block() {
					inLoop = true
				}
			}
		}
		if len(now.Block().Succs) > 0 {
			for _, s := range now.Block().Succs {
				if s == now.Block() {
					inLoop = true
				}
			}
		}
		r.check(inLoop, rule, construct, c.pos(now.Pos()), "time.Now() per envelope", "the clock is read once before the envelope loop: an envelope sent more than fudge seconds after the transfer started carries a stale time signed, and every correct receiver rejects the untampered envelope (BADTIME)")
	}
	if n == 0 {
		r.undecided(rule, "Transfer.Out", c.pos(fn.Pos()), "no SetTsig call found")
	}
}

// lexerTailGuard: after the read loop a lexer refuses to hand out the remainder only for a real read error; the
// end of input (io.EOF) must still flush the last token (a file without a final newline).
func lexerTailGuard(c *Ctx, r *Report, rule, fname, consequence string) {
	fn := c.ssaFunc(fname)
	if fn == nil {
		r.cerr(rule, fname, "function not found")
		return
	}
	r.fn(fname)
	isReadErr := func(v ssa.Value) bool {
		ld, ok := v.(*ssa.UnOp)
		if !ok {
			return false
		}
		fa, ok := ld.X.(*ssa.FieldAddr)
		return ok && fieldNameOf(fa) == "readErr"
	}
	isEOF := func(v ssa.Value) bool {
		ld, ok := v.(*ssa.UnOp)
		if !ok {
			return false
		}
		g, ok := ld.X.(*ssa.Global)
		return ok && g.Name() == "EOF" && g.Pkg != nil && g.Pkg.Pkg.Path() == "io"
	}
	n := 0
	for _, b := range fn.Blocks {
		ret, ok := b.Instrs[len(b.Instrs)-1].(*ssa.Return)
		if !ok || len(ret.Results) != 2 {
			continue
		}
		if v, isB := constBool(ret.Results[1]); !isB || v {
			continue
		}
		notNil, notEOF := false, false
		for _, f := range factsAt(fn, b) {
			bin, ok := f.Atom.(*ssa.BinOp)
			if !ok || !isReadErr(bin.X) {
				continue
			}
			ne := (bin.Op == token.NEQ && f.Holds) || (bin.Op == token.EQL && !f.Holds)
			if k, isK := bin.Y.(*ssa.Const); isK && k.Value == nil && ne {
				notNil = true
			}
			if isEOF(bin.Y) && ne {
				notEOF = true
			}
		}
		if !notNil {
			continue
		}
		n++
		r.check(notEOF, rule, fmt.Sprintf("%s:read-error-return#%d", fname, n), c.pos(ret.Pos()), "readErr != nil && readErr != io.EOF", "the lexer stops without handing out the pending token whenever a read error is recorded, io.EOF included: %s", consequence)
	}
	if n == 0 {
		r.undecided(rule, fname, c.pos(fn.Pos()), "no (token, false) return guarded by readErr != nil found")
	}
}

// boundsRuleFor runs the bounds prover over everything reachable from the entry points.
func boundsRuleFor(c *Ctx, r *Report, rule string, entryNames []string, strs bool, skip map[string]bool, consequence string, minLen map[string]int64, exempt map[string]string) {
	e := newAliasEngine(c)
	for k, v := range minLen {
		// "Func.param"
		i := strings.LastIndex(k, ".")
		if f := c.ssaFunc(k[:i]); f != nil {
			if p, ok := paramOf(f, k[i+1:]).(*ssa.Parameter); ok {
				assumedMinLen[p] = v
				defer delete(assumedMinLen, p)
				continue
			}
		}
		r.cerr(rule, k, "parameter of the stated precondition not found")
	}
	var entries []*ssa.Function
	for _, n := range entryNames {
		if f := c.ssaFunc(n); f != nil {
			entries = append(entries, f)
		} else {
			r.cerr(rule, n, "function not found")
		}
	}
	scope := e.reachable(entries)
	var fns []*ssa.Function
	for f := range scope {
		fns = append(fns, f)
	}
	sort.Slice(fns, func(i, j int) bool { return fnDisplay(fns[i]) < fnDisplay(fns[j]) })
	saved, savedAll := withStrings, withAllSlices
	withStrings, withAllSlices = strs, true
	defer func() { withStrings, withAllSlices = saved, savedAll }()
	bp := newBoundsProver(c, e, scope)
	counter := map[string]int{}
	for _, f := range fns {
		if skip[fnDisplay(f)] {
			continue
		}
		r.fn(fnDisplay(f))
		for _, s := range boundSites(f) {
			bp.prove(s)
			base := fmt.Sprintf("%s:%s", fnDisplay(f), s.describe())
			counter[base]++
			construct := base
			if counter[base] > 1 {
				construct = fmt.Sprintf("%s#%d", base, counter[base])
			}
			if why := packerResultOnItsBuffer(s); why != "" && !s.Proven {
				r.note("%s: %s at %s is not decided: %s", rule, construct, c.pos(s.Instr.Pos()), why)
				continue
			}
			if why, ex := exempt[construct]; ex && !s.Proven {
				// one named construct, with the reason it is outside what the prover derives; not part of the claim
				r.note("%s: %s at %s is not decided: %s", rule, construct, c.pos(s.Instr.Pos()), why)
				continue
			}
			r.check(s.Proven, rule, construct, c.pos(s.Instr.Pos()), s.Why, "the access %s is not covered by a dominating test (%s): %s", s.describe(), s.Why, consequence)
		}
	}
}

// c20VerdictInputs: duplicate-ness is decided on type, class, owner and RDATA; the TTL and the RDLENGTH bookkeeping
// field (the length of the RDATA as it was compressed on the wire, 0 for parsed records) take no part.
func c20VerdictInputs(c *Ctx, r *Report, rule string) {
	r.rule(rule, 2, "IsDuplicate and RR_Header.isDuplicate never read Ttl or Rdlength")
	for _, name := range []string{"IsDuplicate", "RR_Header.isDuplicate"} {
		fn := c.ssaFunc(name)
		if fn == nil {
			r.cerr(rule, name, "function not found")
			continue
		}
		r.fn(name)
		var bad []string
		for _, sub := range withAnon(fn) {
			allInstrs(sub, func(in ssa.Instruction) {
				fa, ok := in.(*ssa.FieldAddr)
				if !ok {
					return
				}
				v := fieldVarOf(fa)
				if v == nil {
					return
				}
				if nm := derefNamed(fa.X.Type()); nm == nil || nm.Obj().Name() != "RR_Header" {
					return
				}
				if v.Name() == "Rdlength" || v.Name() == "Ttl" {
					bad = append(bad, fmt.Sprintf("%s reads %s", c.pos(fa.Pos()), v.Name()))
				}
			})
		}
		r.check(len(bad) == 0, rule, name, c.pos(fn.Pos()), "type, class, owner, RDATA only", "%s: two records with the same owner, class, type and RDATA are then told apart by a field that is not part of the record's identity (Rdlength is the RDATA length as compressed in the message it came from, 0 for parsed records)", strings.Join(bad, "; "))
	}
}

// c20DedupOnce: Dedup's second pass emits one record per key: the emission is guarded by a membership test on the
// key map and removes (or marks) the key it has just emitted.
func c20DedupOnce(c *Ctx, r *Report, rule string) {
	r.rule(rule, 1, "Dedup emits a record only under a map membership test on its key and removes the key from that map when it does")
	fn := c.ssaFunc("Dedup")
	if fn == nil {
		r.cerr(rule, "Dedup", "function not found")
		return
	}
	r.fn("Dedup")
	rrs := paramOf(fn, "rrs")
	n := 0
	allInstrs(fn, func(in ssa.Instruction) {
		st, ok := in.(*ssa.Store)
		if !ok {
			return
		}
		ia, ok := st.Addr.(*ssa.IndexAddr)
		if !ok || ia.X != rrs {
			return
		}
		if _, isRR := st.Val.Type().Underlying().(*types.Interface); !isRR {
			return
		}
		n++
		// guard: a comma-ok lookup's ok on an edge dominating the store
		guardMap := ssa.Value(nil)
		for _, f := range factsAt(fn, st.Block()) {
			if !f.Holds {
				continue
			}
			ex, ok := f.Atom.(*ssa.Extract)
			if !ok || ex.Index != 1 {
				continue
			}
			if lk, ok := ex.Tuple.(*ssa.Lookup); ok && lk.CommaOk {
				guardMap = lk.X
			}
		}
		construct := fmt.Sprintf("Dedup:emit#%d", n)
		if guardMap == nil {
			r.fail(rule, construct, c.pos(st.Pos()), "the record is emitted without a `_, ok := m[key]` membership test on its key: a list holding the same RR value (or equal records) several times keeps more than one representative")
			return
		}
		removed := false
		allInstrs(fn, func(x ssa.Instruction) {
			switch t := x.(type) {
			case *ssa.Call:
				if calleeNameSSA(&t.Call) == "builtin.delete" && t.Call.Args[0] == guardMap && (t.Block() == st.Block() || t.Block().Dominates(st.Block()) || st.Block().Dominates(t.Block())) {
					removed = true
				}
			case *ssa.MapUpdate:
				if t.Map == guardMap && (t.Block() == st.Block() || st.Block().Dominates(t.Block())) {
					removed = true
				}
			}
		})
		r.check(removed, rule, construct, c.pos(st.Pos()), "membership test + delete", "the key of an emitted record stays in the map: every later record with the same key passes the membership test again and is emitted too")
	})
	if n == 0 {
		r.undecided(rule, "Dedup", c.pos(fn.Pos()), "no store of a record into the result slice found")
	}
}

// packerResultOnItsBuffer: the one shape of access the bounds rules leave undecided by name rather than by text:
// EDNS0_REPORTING.pack cuts its scratch buffer at the offset PackDomainName returned for that very buffer
// (b[:off1] after off1, err := PackDomainName(name, b, 0, ...)). That needs "the name packer returns an offset
// within the buffer it was given", a postcondition the prover does not derive (packDomainName returns the offset
// it was handed for the empty name). Recognised by what it is, not by how the buffer was made, so that resizing
// the buffer is not reported.
func packerResultOnItsBuffer(s *boundSite) string {
	if s.Kind != "slice-high" || s.Upper == nil || s.UpperK != 0 {
		return ""
	}
	// every value the bound can be is the offset a packer of this package returned for this very buffer
	leaves := phiLeaves(s.Upper)
	if len(leaves) == 0 {
		return ""
	}
	var names []string
	for _, lf := range leaves {
		ex, ok := lf.(*ssa.Extract)
		if !ok {
			return ""
		}
		call, ok := ex.Tuple.(*ssa.Call)
		if !ok {
			return ""
		}
		sig := call.Call.Signature()
		res := sig.Results()
		if res.Len() < 2 || ex.Index >= res.Len()-1 || !isErrorType(res.At(res.Len()-1).Type()) {
			return ""
		}
		if b, isB := res.At(ex.Index).Type().Underlying().(*types.Basic); !isB || b.Kind() != types.Int {
			return ""
		}
		// a function or method of the package under analysis
		inPkg := false
		if g := call.Call.StaticCallee(); g != nil {
			inPkg = g.Pkg == s.Fn.Pkg
		} else if call.Call.IsInvoke() {
			inPkg = call.Call.Method.Pkg() == s.Fn.Pkg.Pkg
		}
		if !inPkg {
			return ""
		}
		onBuf := false
		for _, a := range call.Call.Args {
			if a == s.Buf {
				onBuf = true
			}
		}
		if !onBuf {
			return ""
		}
		names = append(names, calleeNameSSA(&call.Call))
	}
	return "the buffer is cut at the offset the packers (" + strings.Join(uniqStrings(names), ", ") + ") returned for this very buffer: needs 'a packer returns an offset within the buffer it was given', which rests on the name packer's postcondition and is not decided"
}
