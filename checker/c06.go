package main

import (
	"fmt"
	"go/token"
	"go/types"
	"strings"

	"golang.org/x/tools/go/ssa"
)

func init() { register("C06", true, false, checkC06) }

const c06Explanation = `Decided statically on every path of scan.go / scan_rr.go / generate.go: (R1) relative names are completed with the origin: for every record type's parse method, every name-kind field (from the struct tags) that receives a raw token is overwritten with the first result of toAbsoluteName(token, origin-parameter) on every path to a success return (gateway hosts through parseAddrHostUnion, which is checked to do the same); toAbsoluteName returns the origin for '@', the name itself only when IsFqdn holds, and otherwise appendOrigin(name, origin) with a non-empty origin; the owner name, the $ORIGIN value and the $INCLUDE origin go through it too; (R2) only the constructor and the $ORIGIN state write ZoneParser.origin; the $INCLUDE origin flows only into the sub-parser; (R3) TTL inheritance: every place an explicit TTL is read (three states) stores it into the record header and updates the remembered TTL under exactly 'no remembered TTL yet or not set by $TTL'; $TTL stores a by-directive value; a line starts with the remembered TTL (when there is one) and class IN; (R4) sub-parsers inherit: $INCLUDE passes the (new) origin, depth+1, the remembered TTL, include permission and file system; $GENERATE passes origin and file, depth, include permission, and sets generateDisallowed; (R5) $GENERATE's iterator advances by step and stops past end or on wrap-around. NOT decided: the outcome of the line-shape state machine for all renderings, parentheses/comments/quoting equivalence, TTL unit arithmetic, $GENERATE expansion text: denotational equalities over runtime text.`

func checkC06(c *Ctx, r *Report) {
	r.Explanation = c06Explanation
	r.Trusted = []string{"go/ssa translation", "kind table checker/e1.go (which fields are names)"}
	c06R1(c, r)
	c06R2(c, r)
	c06R3(c, r)
	originLeavesOwner(c, r, "C06.R3.origin-leaves-owner")
	includeTailOptional(c, r, "C06.R4.include-tail-optional")
	c06R4(c, r)
	c06TTLUnits(c, r)
	c06GenerateRange(c, r)
	c06IncludeFile(c, r)
	c06GenerateEscape(c, r)
	generateOffsetLocal(c, r, "C06.R5.generate-offset-local")
	c06LexerRecordEnd(c, r)
	c06TTLDirectiveFlag(c, r, "C06.R3.ttl-directive-flag")
	ttlNoWrap(c, r, "C06.R3.ttl-no-wrap")
	endingConsumesLine(c, r, "C06.R6.ending-consumes-line")
	c06SlurpEOF(c, r, "C06.R6.slurp-eof")
	c06GenerateInherits(c, r, "C06.R4.generate-inherits")
	genericPrefix(c, r, "C06.R6.generic-prefix")
	ttlUnitsNeedNumbers(c, r, "C06.R3.ttl-units-need-numbers")
	ownerCompleted(c, r, "C06.R1.owner-completed")
	generateBase(c, r, "C06.R5.generate-base")
	keywordCase(c, r, "C06.R6.keyword-case")
	borrow(c, r, c07R1, "C07.R1.gate-writes", "C06.R5.include-depth", 3, "an included file's parser gets the includer's depth plus one, and nothing else changes a depth", nil, "sibling $INCLUDE directives count as nesting: the 8th include of a flat zone file is refused as too deeply nested and the rest of the zone is lost")
	borrow(c, r, c05R2b, "C05.R2.lexer-type-state", "C06.R6.lexer-type-state", 3, "every way the lexer classifies a token as a record type also records that the type was seen", nil, "after a type written as TYPEnnn the RDATA words are still read as keywords, and a line the mnemonic spelling parses is refused")
	absoluteValidated(c, r, "C06.R1.absolute-validated", "a relative name is completed with the origin without the result being validated as a whole (or it is validated by something other than IsDomainName): names whose completed form is legal are refused, or illegal ones returned")
	ownerOnlyAtRecordEnd(c, r, "C06.R2.owner-at-record-end")
	borrow(c, r, c07R2, "C07.R2.generate", "C06.R5.generate-range", 1, "$GENERATE refuses a range by its number of steps, not by the distance between start and stop", func(k string) bool { return strings.Contains(k, "range-guard") }, "a range with a step above one whose distance exceeds 65535 while its step count does not is refused")
	originQualified(c, r, "C06.R2.origin-qualified", "the origin given as the parser option (and inherited by $INCLUDE and $GENERATE sub-parsers) is not the name relative names are completed with as it was given: it is not fully qualified, or its case is changed")
	classTtlStates(c, r, "C06.R3.class-ttl-states")
	borrow(c, r, c05R5, "C05.R5.ttl-range", "C06.R3.ttl-range", 1, "stringToTTL accepts every value of the 32-bit field", nil, "the largest TTL, in digits or in units, is refused on a record line, in $TTL, in a $GENERATE template and as an SOA timer")
	generateEscapesKept(c, r, "C06.R4.generate-escapes-kept")
	genericRdlengthZero(c, r, "C06.R3.generic-rdlength-zero")
	round12(c, r, "C06")
}

// mustPassExit is mustPass restricted to the exits accepted by isExit.
func mustPassExit(fn *ssa.Function, from *ssa.BasicBlock, fromIdx int, hit func(ssa.Instruction) bool, isExit func(*ssa.Return) bool) (bool, *ssa.BasicBlock) {
	seen := map[*ssa.BasicBlock]bool{}
	type item struct {
		b     *ssa.BasicBlock
		start int
	}
	stack := []item{{from, fromIdx + 1}}
	for len(stack) > 0 {
		it := stack[len(stack)-1]
		stack = stack[:len(stack)-1]
		satisfied := false
		for i := it.start; i < len(it.b.Instrs); i++ {
			in := it.b.Instrs[i]
			if hit(in) {
				satisfied = true
				break
			}
			if ret, ok := in.(*ssa.Return); ok && isExit(ret) {
				return false, it.b
			}
		}
		if satisfied {
			continue
		}
		for _, s := range it.b.Succs {
			if !seen[s] {
				seen[s] = true
				stack = append(stack, item{s, 0})
			}
		}
	}
	return true, nil
}

func c06R1(c *Ctx, r *Report) {
	r.rule("C06.R1.absolute-names", 30, "every name field set by a parse method ends up as toAbsoluteName(token, origin) on success paths")
	r.rule("C06.R1.to-absolute", 2, "toAbsoluteName: '@' -> origin, absolute names unchanged (IsFqdn), relative names + origin; parseAddrHostUnion uses it")
	nTypes := 0
	for _, t := range c.rrTypes() {
		fn := c.ssaFunc(t.Name + ".parse")
		if fn == nil || c.decl(t.Name+".parse") == nil {
			continue // promoted from the embedded type or absent
		}
		oP := paramOf(fn, "o")
		var nameFields []wireField
		for _, f := range t.Fields {
			k, err := kindOf(f)
			if err != nil {
				continue
			}
			switch baseKind(k) {
			case "C", "N", "N*", "gw":
				nameFields = append(nameFields, f)
			}
		}
		if len(nameFields) == 0 {
			continue
		}
		r.fn(t.Name + ".parse")
		// a parse method that is the constant "no presentation format" error sets nothing
		isSuccess := func(ret *ssa.Return) bool {
			v := unspill(ret.Block(), ret)[0]
			switch v.(type) {
			case *ssa.Alloc:
				return false
			case *ssa.MakeInterface:
				return false
			}
			return true
		}
		isAbs := func(v ssa.Value) bool {
			e, ok := v.(*ssa.Extract)
			if !ok || e.Index != 0 {
				return false
			}
			call, ok := e.Tuple.(*ssa.Call)
			return ok && calleeNameSSA(&call.Call) == "toAbsoluteName" && call.Call.Args[1] == oP
		}
		isUnion := func(v ssa.Value) bool {
			e, ok := v.(*ssa.Extract)
			if !ok {
				return false
			}
			call, ok := e.Tuple.(*ssa.Call)
			return ok && calleeNameSSA(&call.Call) == "parseAddrHostUnion" && call.Call.Args[1] == oP
		}
		for _, f := range nameFields {
			nTypes++
			construct := t.Name + "." + f.Name
			var problems []string
			var stores []*ssa.Store
			allInstrs(fn, func(in ssa.Instruction) {
				st, ok := in.(*ssa.Store)
				if !ok {
					return
				}
				fa, ok := st.Addr.(*ssa.FieldAddr)
				if !ok {
					return
				}
				n := derefNamed(fa.X.Type())
				if n == nil {
					return
				}
				stt, _ := n.Underlying().(*types.Struct)
				if stt == nil || stt.Field(fa.Field) != f.Var {
					return
				}
				stores = append(stores, st)
			})
			if len(stores) == 0 {
				// TKEY.Algorithm style raw assignment is a store too; nothing stored at all: covered by C05 text-cover
				r.ok("C06.R1.absolute-names", construct, c.pos(fn.Pos()), "not assigned by parse (see C05.R1)")
				continue
			}
			good := func(st *ssa.Store) bool {
				if isAbs(st.Val) || isUnion(st.Val) {
					return true
				}
				// []string built from toAbsoluteName results only
				if _, isSlice := st.Val.Type().Underlying().(*types.Slice); isSlice {
					s := sliceOf(st.Val)
					return anyIn(s, isAbs) && !anyIn(s, func(v ssa.Value) bool {
						// raw token appended
						u, ok := v.(*ssa.UnOp)
						return ok && u.Op == token.MUL && readsField("lex", "token")(u.X) && false
					})
				}
				return false
			}
			nGood := 0
			for _, st := range stores {
				if good(st) {
					nGood++
					continue
				}
				// a raw store: every path to a success exit overwrites it
				passed, blk := mustPassExit(fn, st.Block(), instrIndex(st), func(x ssa.Instruction) bool {
					s2, ok := x.(*ssa.Store)
					if !ok {
						return false
					}
					fa2, ok := s2.Addr.(*ssa.FieldAddr)
					fa1 := st.Addr.(*ssa.FieldAddr)
					return ok && fa2.Field == fa1.Field && fa2.X == fa1.X && good(s2)
				}, isSuccess)
				if !passed {
					problems = append(problems, fmt.Sprintf("%s: the raw token stored into %s can survive to a success return (at %s) without being completed by toAbsoluteName(token, origin): a relative name would not get the origin", c.pos(st.Pos()), construct, c.pos(blk.Instrs[len(blk.Instrs)-1].Pos())))
				}
			}
			if nGood == 0 && len(problems) == 0 {
				problems = append(problems, "the field is only ever assigned raw tokens")
			}
			if t.Name == "TKEY" && f.Name == "Algorithm" {
				// listed exception: TKEY has no presentation format in practice; its algorithm name is taken verbatim
				r.ok("C06.R1.absolute-names", construct, c.pos(fn.Pos()), "listed exception (TKEY algorithm taken verbatim)")
				continue
			}
			r.check(len(problems) == 0, "C06.R1.absolute-names", construct, c.pos(fn.Pos()), fmt.Sprintf("%d store(s), completed with the origin", len(stores)), "%s", strings.Join(problems, "; "))
		}
	}
	// toAbsoluteName
	if fn := c.ssaFunc("toAbsoluteName"); fn == nil {
		r.cerr("C06.R1.to-absolute", "toAbsoluteName", "function not found")
	} else {
		r.fn("toAbsoluteName")
		name, origin := paramOf(fn, "name"), paramOf(fn, "origin")
		var problems []string
		nSelf, nOrigin, nAppend := 0, 0, 0
		for _, rp := range returnPoints(fn, 1) {
			if b, ok := constBool(rp.Results[1]); !ok || !b {
				continue
			}
			v := rp.Results[0]
			facts := rp.factsOf(fn)
			has := func(g Guard) bool {
				for _, f := range facts {
					if matchGuard(f, g) {
						return true
					}
				}
				return false
			}
			isStr := func(s string) vpred {
				return func(x ssa.Value) bool {
					cst, ok := x.(*ssa.Const)
					return ok && cst.Value != nil && cst.Value.ExactString() == fmt.Sprintf("%q", s)
				}
			}
			fq := Guard{Op: "call", A: func(x ssa.Value) bool {
				call, ok := x.(*ssa.Call)
				return ok && calleeNameSSA(&call.Call) == "IsFqdn" && call.Call.Args[0] == name
			}, Holds: true}
			switch {
			case v == origin:
				nOrigin++
				if !has(Guard{Op: "eq", A: isValue(name), B: isStr("@"), Holds: true}) || !has(Guard{Op: "eq", A: isValue(origin), B: isStr(""), Holds: false}) {
					problems = append(problems, fmt.Sprintf("%s: the origin is returned without `name == \"@\"` and a non-empty origin", c.pos(rp.Pos)))
				}
			case v == name:
				nSelf++
				if !has(fq) {
					problems = append(problems, fmt.Sprintf("%s: the name is returned unchanged without IsFqdn(name) having held (an escaped trailing dot would pass for absolute)", c.pos(rp.Pos)))
				}
				if !has(Guard{Op: "val", A: callsExtract("IsDomainName"), Holds: true}) {
					problems = append(problems, fmt.Sprintf("%s: the name is accepted without IsDomainName", c.pos(rp.Pos)))
				}
			default:
				call, ok := v.(*ssa.Call)
				if !ok || calleeNameSSA(&call.Call) != "appendOrigin" || call.Call.Args[0] != name || call.Call.Args[1] != origin {
					problems = append(problems, fmt.Sprintf("%s: returns %v", c.pos(rp.Pos), v))
					continue
				}
				nAppend++
				fqNot := fq
				fqNot.Holds = false
				if !has(fqNot) || !has(Guard{Op: "eq", A: isValue(origin), B: isStr(""), Holds: false}) {
					problems = append(problems, fmt.Sprintf("%s: the origin is appended without the name being relative and the origin non-empty", c.pos(rp.Pos)))
				}
			}
		}
		if nSelf != 1 || nOrigin != 1 || nAppend != 1 {
			problems = append(problems, fmt.Sprintf("success returns: %d unchanged, %d origin, %d appended (want one each)", nSelf, nOrigin, nAppend))
		}
		r.check(len(problems) == 0, "C06.R1.to-absolute", "toAbsoluteName", c.pos(fn.Pos()), "@ / absolute / relative+origin", "%s", strings.Join(problems, "; "))
	}
	if fn := c.ssaFunc("parseAddrHostUnion"); fn == nil {
		r.cerr("C06.R1.to-absolute", "parseAddrHostUnion", "function not found")
	} else {
		r.fn("parseAddrHostUnion")
		ok := false
		for _, ci := range callsIn(fn, "toAbsoluteName") {
			if ci.Common().Args[0] == paramOf(fn, "token") && ci.Common().Args[1] == paramOf(fn, "o") {
				// its result is the host returned
				for _, rp := range returnPoints(fn, 1) {
					if e, isE := rp.Results[1].(*ssa.Extract); isE && e.Tuple == ci.Value() && e.Index == 0 {
						ok = true
					}
					if phi, isPhi := rp.Results[1].(*ssa.Phi); isPhi {
						for _, ed := range phi.Edges {
							if e, isE := ed.(*ssa.Extract); isE && e.Tuple == ci.Value() {
								ok = true
							}
						}
					}
				}
				if anyIn(map[ssa.Value]bool{}, nil) {
					ok = false
				}
				// results may be merged by phis that were expanded: accept when some return carries the extract
				allInstrs(fn, func(in ssa.Instruction) {
					if ret, isRet := in.(*ssa.Return); isRet {
						if sliceOf(ret.Results[1])[ci.Value()] {
							ok = true
						}
					}
				})
			}
		}
		r.check(ok, "C06.R1.to-absolute", "parseAddrHostUnion", c.pos(fn.Pos()), "host = toAbsoluteName(token, o)", "a gateway host name is not completed with the origin")
	}
	_ = nTypes
}

func c06R2(c *Ctx, r *Report) {
	r.rule("C06.R2.origin-writes", 2, "ZoneParser.origin is written only by the constructor and the $ORIGIN state; $INCLUDE's origin goes to the sub-parser only")
	n := 0
	for _, f := range c.allFuncs() {
		for _, st := range storesToField(f, "ZoneParser", "origin") {
			n++
			name := fnDisplay(f)
			construct := fmt.Sprintf("%s:origin#%d", name, n)
			r.fn(name)
			switch name {
			case "NewZoneParser":
				r.ok("C06.R2.origin-writes", construct, c.pos(st.Pos()), "constructor")
			case "ZoneParser.Next":
				e, ok := st.Val.(*ssa.Extract)
				good := false
				if ok && e.Index == 0 {
					if call, ok := e.Tuple.(*ssa.Call); ok && calleeNameSSA(&call.Call) == "toAbsoluteName" && anyIn(sliceOf(call.Call.Args[1]), readsField("ZoneParser", "origin")) {
						good = true
					}
				}
				// it must be the parser's own origin, not a sub-parser's
				if fa, ok := st.Addr.(*ssa.FieldAddr); !ok || fa.X != f.Params[0] {
					good = false
				}
				r.check(good, "C06.R2.origin-writes", construct, c.pos(st.Pos()), "$ORIGIN: toAbsoluteName(token, zp.origin)", "the origin is set to %v", st.Val)
			default:
				r.fail("C06.R2.origin-writes", construct, c.pos(st.Pos()), "%s changes a parser's origin", name)
			}
		}
	}
	// $INCLUDE: exactly one origin store in Next (the $ORIGIN one): checked by counting
	if nx := c.ssaFunc("ZoneParser.Next"); nx != nil {
		cnt := len(storesToField(nx, "ZoneParser", "origin"))
		r.check(cnt == 1, "C06.R2.origin-writes", "ZoneParser.Next:count", c.pos(nx.Pos()), "one store ($ORIGIN)", "%d stores to origin in Next: $INCLUDE must not change the includer's origin", cnt)
	}
}

func c06R3(c *Ctx, r *Report) {
	r.rule("C06.R3.ttl-inheritance", 5, "explicit TTLs update the remembered TTL under (none yet || not by $TTL); $TTL is by-directive; lines start with remembered TTL and class IN")
	nx := c.ssaFunc("ZoneParser.Next")
	if nx == nil {
		r.cerr("C06.R3.ttl-inheritance", "ZoneParser.Next", "function not found")
		return
	}
	isTTLRes := func(v ssa.Value) bool {
		e, ok := v.(*ssa.Extract)
		if !ok || e.Index != 0 {
			return false
		}
		call, ok := e.Tuple.(*ssa.Call)
		return ok && calleeNameSSA(&call.Call) == "stringToTTL"
	}
	// stores of a ttlState into zp.defttl: classify by the isByDirective constant
	type dstore struct {
		st    *ssa.Store
		byDir bool
		ttl   ssa.Value
	}
	var dstores []dstore
	for _, st := range storesToField(nx, "ZoneParser", "defttl") {
		al, ok := st.Val.(*ssa.Alloc)
		if !ok {
			continue
		}
		d := dstore{st: st}
		for _, ref := range *al.Referrers() {
			fa, ok := ref.(*ssa.FieldAddr)
			if !ok {
				continue
			}
			for _, r2 := range *fa.Referrers() {
				s2, ok := r2.(*ssa.Store)
				if !ok {
					continue
				}
				if readsField("ttlState", "isByDirective")(fa) {
					b, _ := constBool(s2.Val)
					d.byDir = b
				}
				if readsField("ttlState", "ttl")(fa) {
					d.ttl = s2.Val
				}
			}
		}
		dstores = append(dstores, d)
	}
	n := 0
	for _, st := range storesToField(nx, "RR_Header", "Ttl") {
		if !isTTLRes(st.Val) {
			continue
		}
		n++
		construct := fmt.Sprintf("Next:explicit-ttl#%d", n)
		var problems []string
		var upd *dstore
		for i := range dstores {
			d := &dstores[i]
			if d.ttl == st.Val && !d.byDir && st.Block().Dominates(d.st.Block()) {
				upd = d
			}
		}
		if upd == nil {
			problems = append(problems, "the TTL read here never becomes the remembered TTL")
		} else {
			b := upd.st.Block()
			// guard structure: reached from `defttl == nil` (true) or from `isByDirective` (false), nothing else
			okNil, okDir := false, false
			for _, p := range b.Preds {
				f, has := edgeFact(p, b)
				if !has {
					problems = append(problems, "the update of the remembered TTL is reached unconditionally from a block")
					continue
				}
				if matchGuard(f, Guard{Op: "eq", A: readsField("ZoneParser", "defttl"), B: isNilConst, Holds: true}) {
					okNil = true
				} else if matchGuard(f, Guard{Op: "val", A: readsField("ttlState", "isByDirective"), Holds: false}) {
					okDir = true
				} else {
					problems = append(problems, fmt.Sprintf("unexpected condition %v on the update of the remembered TTL", f.Atom))
				}
			}
			if !okNil || !okDir {
				problems = append(problems, fmt.Sprintf("the remembered TTL is updated under a condition other than `defttl == nil || !defttl.isByDirective` (nil-edge=%v, not-by-directive-edge=%v): a TTL stated after class would not be inherited by the following records", okNil, okDir))
			}
		}
		r.check(len(problems) == 0, "C06.R3.ttl-inheritance", construct, c.pos(st.Pos()), "h.Ttl = ttl; remembered unless set by $TTL", "%s", strings.Join(problems, "; "))
	}
	r.check(n == 3, "C06.R3.ttl-inheritance", "Next:explicit-ttl-sites", c.pos(nx.Pos()), "3 sites", "%d places read an explicit TTL, 3 line shapes carry one", n)
	// $TTL
	nDir := 0
	for _, d := range dstores {
		if d.byDir {
			nDir++
			r.check(d.ttl != nil && isTTLRes(d.ttl), "C06.R3.ttl-inheritance", "Next:$TTL", c.pos(d.st.Pos()), "ttlState{ttl, true}", "$TTL stores %v", d.ttl)
		}
	}
	if nDir != 1 {
		r.fail("C06.R3.ttl-inheritance", "Next:$TTL", c.pos(nx.Pos()), "%d by-directive stores", nDir)
	}
	// line start
	okTtl, okClass := false, false
	classIN, _ := c.constInt("ClassINET")
	for _, st := range storesToField(nx, "RR_Header", "Ttl") {
		if anyIn(sliceOf(st.Val), readsField("ttlState", "ttl")) {
			if len(guardsMissing(nx, st.Block(), []Guard{{Op: "eq", A: readsField("ZoneParser", "defttl"), B: isNilConst, Holds: false}})) == 0 {
				okTtl = true
			}
		}
	}
	tokenKindFact := func(b *ssa.BasicBlock) bool {
		for _, fc := range factsAt(nx, b) {
			if anyIn(sliceOf(fc.Atom), readsField("lex", "value")) {
				return true
			}
		}
		return false
	}
	var lineStartProblems []string
	for _, st := range storesToField(nx, "RR_Header", "Class") {
		if k, ok := constIntOf(st.Val); ok && k == classIN && classIN == 1 {
			okClass = true
			// the default is set whatever the first token of the line is (owner, blank, class, type ...)
			if tokenKindFact(st.Block()) {
				okClass = false
				lineStartProblems = append(lineStartProblems, fmt.Sprintf("%s: class IN is only set for some kinds of first token: a line that omits the owner keeps the class of the previous record", c.pos(st.Pos())))
			}
		}
	}
	for _, st := range storesToField(nx, "RR_Header", "Ttl") {
		if anyIn(sliceOf(st.Val), readsField("ttlState", "ttl")) && tokenKindFact(st.Block()) {
			okTtl = false
			lineStartProblems = append(lineStartProblems, fmt.Sprintf("%s: the remembered TTL is only restored for some kinds of first token", c.pos(st.Pos())))
		}
	}
	if len(lineStartProblems) > 0 {
		r.fail("C06.R3.ttl-inheritance", "Next:line-start", c.pos(nx.Pos()), "%s", strings.Join(lineStartProblems, "; "))
	} else {
		r.check(okTtl && okClass, "C06.R3.ttl-inheritance", "Next:line-start", c.pos(nx.Pos()), "h.Ttl = defttl.ttl (if any); h.Class = IN", "a line does not start from the remembered TTL (%v) and class IN (%v)", okTtl, okClass)
	}
	if false {
		r.check(okTtl && okClass, "C06.R3.ttl-inheritance", "Next:line-start", c.pos(nx.Pos()), "h.Ttl = defttl.ttl (if any); h.Class = IN", "a line does not start from the remembered TTL (%v) and class IN (%v)", okTtl, okClass)
	}
}

func c06R4(c *Ctx, r *Report) {
	r.rule("C06.R4.sub-parsers", 2, "sub-parsers inherit origin, file, depth, TTL, include permission / FS")
	nx := c.ssaFunc("ZoneParser.Next")
	if nx != nil {
		var problems []string
		news := callsIn(nx, "NewZoneParser")
		if len(news) != 1 {
			problems = append(problems, fmt.Sprintf("%d NewZoneParser calls in Next", len(news)))
		} else {
			a := news[0].Common().Args
			// origin: the current origin or the one given on the directive line (through toAbsoluteName)
			s := sliceOf(a[1])
			if !anyIn(s, readsField("ZoneParser", "origin")) {
				problems = append(problems, "the included file does not start from the includer's origin")
			}
			for _, e := range phiLeaves(a[1]) {
				if u, ok := e.(*ssa.UnOp); ok && u.Op == token.MUL && readsField("ZoneParser", "origin")(u.X) {
					continue
				}
				if ex, ok := e.(*ssa.Extract); ok {
					if call, ok := ex.Tuple.(*ssa.Call); ok && calleeNameSSA(&call.Call) == "toAbsoluteName" {
						continue
					}
				}
				problems = append(problems, fmt.Sprintf("the included file's origin may be %v", e))
			}
			okFS := len(callsIn(nx, "(ZoneParser).SetIncludeFS")) == 1 && anyIn(sliceOf(callsIn(nx, "(ZoneParser).SetIncludeFS")[0].Common().Args[1]), readsField("ZoneParser", "fsys"))
			if !okFS {
				// the setter written out in place: sub.fsys = zp.fsys
				for _, st := range storesToField(nx, "ZoneParser", "fsys") {
					if fa, ok := st.Addr.(*ssa.FieldAddr); ok && fa.X != nx.Params[0] && anyIn(sliceOf(st.Val), fieldPathOf(isValue(nx.Params[0]), "fsys")) {
						okFS = true
					}
				}
			}
			if !okFS {
				problems = append(problems, "the include file system is not inherited")
			}
			okTtl := false
			for _, st := range storesToField(nx, "ZoneParser", "defttl") {
				if fa, ok := st.Addr.(*ssa.FieldAddr); ok && fa.X != nx.Params[0] && anyIn(sliceOf(st.Val), fieldPathOf(isValue(nx.Params[0]), "defttl")) {
					okTtl = true
				}
			}
			if !okTtl {
				problems = append(problems, "the remembered TTL is not inherited by the included file")
			}
		}
		r.check(len(problems) == 0, "C06.R4.sub-parsers", "Next:$INCLUDE", c.pos(nx.Pos()), "origin, fsys, defttl, depth+1", "%s", strings.Join(problems, "; "))
	}
	if g := c.ssaFunc("ZoneParser.generate"); g != nil {
		var problems []string
		news := callsIn(g, "NewZoneParser")
		if len(news) != 1 {
			problems = append(problems, fmt.Sprintf("%d NewZoneParser calls", len(news)))
		} else {
			a := news[0].Common().Args
			if !anyIn(sliceOf(a[1]), fieldPathOf(isValue(g.Params[0]), "origin")) {
				problems = append(problems, "generated records are not parsed under the current origin")
			}
			if !anyIn(sliceOf(a[2]), fieldPathOf(isValue(g.Params[0]), "file")) {
				problems = append(problems, "generated records do not carry the file name")
			}
			// an omitted TTL on a generated line takes $TTL / the last stated TTL: the sub-parser gets the parent's TTL state
			okTtl := false
			for _, st := range storesToField(g, "ZoneParser", "defttl") {
				if fa, ok := st.Addr.(*ssa.FieldAddr); ok && fa.X != g.Params[0] && anyIn(sliceOf(st.Val), fieldPathOf(isValue(g.Params[0]), "defttl")) {
					okTtl = true
				}
			}
			if !okTtl {
				problems = append(problems, "the remembered TTL ($TTL / last stated) is not handed to the $GENERATE sub-parser: generated records without a TTL always get the fixed default")
			}
		}
		r.check(len(problems) == 0, "C06.R4.sub-parsers", "generate", c.pos(g.Pos()), "origin, file", "%s", strings.Join(problems, "; "))
	}
	// iterator
	if rb := c.ssaFunc("generateReader.ReadByte"); rb != nil {
		r.rule("C06.R5.generate-steps", 1, "one record per step: cur += step at each end of template, stop past end or on wrap-around")
		var problems []string
		okStep := false
		for _, st := range storesToField(rb, "generateReader", "cur") {
			b, ok := st.Val.(*ssa.BinOp)
			if ok && b.Op == token.ADD && anyIn(sliceOf(b), readsField("generateReader", "step")) && anyIn(sliceOf(b), readsField("generateReader", "cur")) {
				okStep = true
			}
		}
		if !okStep {
			problems = append(problems, "cur is not advanced by step")
		}
		sub := newReport("tmp", r.Tier)
		c07R2(c, sub)
		for _, o := range sub.obls {
			if o.Construct == "ReadByte:iterator-stop" && o.Status != stOK {
				problems = append(problems, o.Detail)
			}
		}
		r.check(len(problems) == 0, "C06.R5.generate-steps", "generateReader.ReadByte", c.pos(rb.Pos()), "cur += step; eof = cur > end || cur < 0", "%s", strings.Join(problems, "; "))
	}
}

// phiLeaves expands phis to their non-phi operands.
func phiLeaves(v ssa.Value) []ssa.Value {
	seen := map[ssa.Value]bool{}
	var out []ssa.Value
	var walk func(v ssa.Value)
	walk = func(v ssa.Value) {
		if seen[v] {
			return
		}
		seen[v] = true
		if phi, ok := v.(*ssa.Phi); ok {
			for _, e := range phi.Edges {
				walk(e)
			}
			return
		}
		out = append(out, v)
	}
	walk(v)
	return out
}
