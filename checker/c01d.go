package main

import (
	"fmt"
	"strings"

	"golang.org/x/tools/go/ssa"
)

// Rules added after the third round of independent breaking changes.

// c01Sections: Msg.unpack decodes into a caller-supplied Msg that may have been used before. Every success return
// must have assigned all four sections, otherwise the records of the previous message survive in the reused Msg
// and the section counts and a re-pack no longer describe the message that was decoded.
func c01Sections(c *Ctx, r *Report) {
	r.rule("C01.R2.sections-reset", 1, "every success return of Msg.unpack has assigned Question, Answer, Ns and Extra")
	fn := c.ssaFunc("Msg.unpack")
	if fn == nil {
		r.cerr("C01.R2.sections-reset", "Msg.unpack", "function not found")
		return
	}
	r.fn("Msg.unpack")
	secs := []string{"Question", "Answer", "Ns", "Extra"}
	stores := map[string][]*ssa.Store{}
	for _, s := range secs {
		stores[s] = storesToField(fn, "Msg", s)
	}
	var problems []string
	n := 0
	last := fn.Signature.Results().Len() - 1
	for _, rp := range returnPoints(fn, last) {
		constNil := isNilConst(rp.Results[last])
		if !constNil {
			// an error return: the returned value is known to be non-nil here
			isErr := false
			for _, f := range rp.factsOf(fn) {
				b, ok := f.Atom.(*ssa.BinOp)
				if !ok || !isNilConst(b.Y) {
					continue
				}
				same := b.X == rp.Results[last]
				for _, leaf := range phiLeaves(rp.Results[last]) {
					if leaf == b.X {
						same = true
					}
				}
				if same && ((b.Op.String() == "!=" && f.Holds) || (b.Op.String() == "==" && !f.Holds)) {
					isErr = true
				}
			}
			if isErr {
				continue
			}
		}
		n++
		for _, s := range secs {
			if !constNil && (s == "Ns" || s == "Extra") {
				// assigned on the err == nil continuation only; the returned error is then that of the failing section
				if len(stores[s]) == 0 {
					problems = append(problems, fmt.Sprintf("section %s is never assigned", s))
				}
				continue
			}
			ok := false
			for _, st := range stores[s] {
				if st.Block() == rp.Block || st.Block().Dominates(rp.Block) {
					ok = true
				}
			}
			if !ok {
				problems = append(problems, fmt.Sprintf("%s: returns%s without having assigned dns.%s: a Msg that is reused keeps the %s section of the message decoded before", c.pos(rp.Pos), map[bool]string{true: " success", false: ""}[constNil], s, s))
			}
		}
	}
	if n == 0 {
		problems = append(problems, "no return found")
	}
	r.check(len(uniqStrings(problems)) == 0, "C01.R2.sections-reset", "Msg.unpack", c.pos(fn.Pos()), "4 sections on every success path", "%s", strings.Join(uniqStrings(problems), "; "))
}

// c01PrivateCtor: the constructor PrivateHandle registers must build a new PrivateRdata for every record: the rdata
// stored in the new PrivateRR comes from a call made inside the constructor, not from a value captured when the
// type was registered (every record of that type would share it).
func c01PrivateCtor(c *Ctx, r *Report) {
	r.rule("C01.R4.private-ctor", 1, "the constructor registered by PrivateHandle calls the generator for every record")
	fn := c.ssaFunc("PrivateHandle")
	if fn == nil {
		r.cerr("C01.R4.private-ctor", "PrivateHandle", "function not found")
		return
	}
	var problems []string
	n := 0
	for _, anon := range fn.AnonFuncs {
		allInstrs(anon, func(in ssa.Instruction) {
			st, ok := in.(*ssa.Store)
			if !ok || !readsField("PrivateRR", "Data")(st.Addr) {
				return
			}
			n++
			fresh := true
			for _, leaf := range phiLeaves(st.Val) {
				v := leaf
				if mi, ok := v.(*ssa.MakeInterface); ok {
					v = mi.X
				}
				call, isCall := v.(*ssa.Call)
				if !isCall {
					fresh = false
					continue
				}
				// the callee is the captured generator (a free variable holding a func), called here
				if _, isFV := call.Call.Value.(*ssa.FreeVar); !isFV && call.Call.StaticCallee() == nil {
					if u, ok := call.Call.Value.(*ssa.UnOp); !ok || !anyIn(sliceOf(u), func(x ssa.Value) bool { _, f := x.(*ssa.FreeVar); return f }) {
						fresh = false
					}
				}
			}
			if !fresh {
				problems = append(problems, fmt.Sprintf("%s: the rdata of a new PrivateRR is a value captured at registration, not the result of calling the generator: all records of the type share one rdata object", c.pos(st.Pos())))
			}
		})
	}
	if n == 0 {
		problems = append(problems, "no constructor storing PrivateRR.Data found in PrivateHandle")
	}
	r.check(len(problems) == 0, "C01.R4.private-ctor", "PrivateHandle", c.pos(fn.Pos()), "generator() per record", "%s", strings.Join(problems, "; "))
}

// c01EscapeDuality: text fields are kept in memory as escaped presentation text. A packer that decodes backslash
// escapes (\\c, \\DDD) therefore has a dual that produces them: an unpacker that stores the wire octets verbatim
// hands the packer a text in which every backslash octet of the wire value is read as the start of an escape, so
// unpack followed by pack changes the octets.
func c01EscapeDuality(c *Ctx, r *Report) {
	r.rule("C01.R7.escape-duality", 4, "a codec pair either both treats its text as escaped (pack decodes, unpack encodes) or neither does")
	e := newAliasEngine(c)
	reaches := func(fname string, names ...string) (bool, bool) {
		f := c.ssaFunc(fname)
		if f == nil {
			return false, false
		}
		for g := range e.reachable([]*ssa.Function{f}) {
			gn := g.Name()
			if o := g.Origin(); o != nil {
				gn = o.Name()
			}
			for _, n := range names {
				if gn == n {
					return true, true
				}
			}
		}
		return false, true
	}
	for _, pair := range [][2]string{{"packString", "unpackString"}, {"packStringTxt", "unpackStringTxt"}, {"packStringOctet", "unpackStringOctet"}, {"packDomainName", "UnpackDomainName"}} {
		dec, ok1 := reaches(pair[0], "dddToByte", "isDDD")
		enc, ok2 := reaches(pair[1], "escapeByte")
		if !ok1 || !ok2 {
			r.cerr("C01.R7.escape-duality", pair[0]+"/"+pair[1], "function not found")
			continue
		}
		pos := ""
		if fd := c.decl(pair[1]); fd != nil {
			pos = c.pos(fd.Pos())
		}
		r.check(dec == enc, "C01.R7.escape-duality", pair[0]+"/"+pair[1], pos, fmt.Sprintf("decodes=%v encodes=%v", dec, enc), "%s decodes backslash escapes but %s stores the wire octets verbatim: a value containing a backslash (or, for the printer, a quote) is changed by unpack followed by pack, and is printed as text that does not read back to the same octets", pair[0], pair[1])
	}
}
