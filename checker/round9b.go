package main

import (
	"fmt"
	"go/ast"
	"go/token"
	"go/types"
	"sort"
	"strings"

	"golang.org/x/tools/go/ssa"
)

// stripConvs walks through conversions.
func stripConvs(v ssa.Value) ssa.Value {
	for {
		switch t := v.(type) {
		case *ssa.Convert:
			v = t.X
		case *ssa.ChangeType:
			v = t.X
		default:
			return v
		}
	}
}

// positiveFact: some branch outcome that edge-dominates b says that the integer identified by isX is at least 1
// (X > 0, X >= 1, X != 0 for a value that cannot be negative, or the negation of the complementary test).
func positiveFact(fn *ssa.Function, b *ssa.BasicBlock, isX vpred) bool {
	if lo, _, hasLo, _ := intervalAt(fn, b, func(v ssa.Value) bool { return isX(stripConvs(v)) }); hasLo && lo >= 1 {
		return true
	}
	for _, f := range factsAt(fn, b) {
		bin, ok := f.Atom.(*ssa.BinOp)
		if !ok || (bin.Op != token.EQL && bin.Op != token.NEQ) {
			continue
		}
		x, y := bin.X, bin.Y
		if k, isK := constIntOf(x); isK && k == 0 {
			x, y = y, x
		}
		if k, isK := constIntOf(y); !isK || k != 0 || !isX(stripConvs(x)) {
			continue
		}
		if (bin.Op == token.NEQ) == f.Holds {
			return true
		}
	}
	return false
}

// wildcardBelowRoot: rawSignatureData rebuilds the owner of a wildcard expansion from "*." and the last Labels
// labels; the dot that closes the joined labels is appended only when there is a label to close ("*." itself is
// the wildcard below the root, Labels = 0): otherwise the owner is "*.." and the record does not pack.
func wildcardBelowRoot(c *Ctx, r *Report, rule string) {
	r.rule(rule, 1, "in rawSignatureData the text joined from the last Labels labels is extended by a dot only where Labels (or the number of labels joined) is known to be positive")
	fn := c.ssaFunc("rawSignatureData")
	if fn == nil {
		r.cerr(rule, "rawSignatureData", "function not found")
		return
	}
	r.fn(fnDisplay(fn))
	// the reconstruction may live in a helper of its own
	caller := fn
	if g := calleeWith(fn, func(f *ssa.Function) bool { return len(callsIn(f, "strings.Join")) > 0 }); g != nil {
		fn = g
		r.fn(fnDisplay(fn))
	}
	n := 0
	for _, ci := range callsIn(fn, "strings.Join") {
		join, ok := ci.(*ssa.Call)
		if !ok {
			continue
		}
		joined := join.Call.Args[0]
		isCount := func(v ssa.Value) bool {
			if u, ok := v.(*ssa.UnOp); ok && u.Op == token.MUL {
				return readsField("RRSIG", "Labels")(u.X)
			}
			if call, ok := v.(*ssa.Call); ok && calleeNameSSA(&call.Call) == "builtin.len" {
				return call.Call.Args[0] == joined
			}
			return false
		}
		isCount = boundTo(caller, fn, isCount)
		var bad []string
		m := 0
		allInstrs(fn, func(in ssa.Instruction) {
			bin, ok := in.(*ssa.BinOp)
			if !ok || bin.Op != token.ADD || bin.X != ssa.Value(join) {
				return
			}
			if k, ok := bin.Y.(*ssa.Const); !ok || k.Value == nil || k.Value.ExactString() != `"."` {
				return
			}
			m++
			if !positiveFact(fn, bin.Block(), isCount) {
				bad = append(bad, c.pos(bin.Pos()))
			}
		})
		if m == 0 {
			continue
		}
		n++
		r.check(len(bad) == 0, rule, fmt.Sprintf("rawSignatureData:join#%d", n), c.pos(join.Pos()), "closing dot only after a label", "the dot after the joined labels is appended at %s also when Labels is 0: the owner of an RRset at the wildcard below the root becomes \"*..\", which does not pack, so Sign and Verify fail with ErrRdata for the owner \"*.\"", strings.Join(bad, ", "))
	}
	if n == 0 {
		r.cerr(rule, "rawSignatureData", "no strings.Join followed by a closing dot found (the owner of a wildcard expansion is rebuilt in another way)")
	}
}

// secretByCanonicalName: the map-backed secret provider finds the secret under the canonical key name (key
// names are domain names; the digest is computed from the canonical name as well).
func secretByCanonicalName(c *Ctx, r *Report, rule string) {
	r.rule(rule, 2, "tsigSecretProvider.Generate and Verify look the secret up under the case-folded key name (possibly after an exact lookup)")
	for _, name := range []string{"tsigSecretProvider.Generate", "tsigSecretProvider.Verify"} {
		fn := c.ssaFunc(name)
		if fn == nil {
			r.cerr(rule, name, "function not found")
			continue
		}
		fns := []*ssa.Function{fn}
		allInstrs(fn, func(in ssa.Instruction) {
			if ci, ok := in.(ssa.CallInstruction); ok {
				if cal := ci.Common().StaticCallee(); cal != nil && cal.Pkg == fn.Pkg && len(cal.Blocks) > 0 {
					fns = append(fns, cal)
				}
			}
		})
		lookups, folded := 0, 0
		for _, f := range fns {
			r.fn(fnDisplay(f))
			allInstrs(f, func(in ssa.Instruction) {
				lk, ok := in.(*ssa.Lookup)
				if !ok {
					return
				}
				if _, isMap := lk.X.Type().Underlying().(*types.Map); !isMap {
					return
				}
				lookups++
				if anyIn(sliceOf(lk.Index), func(v ssa.Value) bool {
					call, ok := v.(*ssa.Call)
					return ok && (calleeNameSSA(&call.Call) == "CanonicalName" || isCaseFold(&call.Call))
				}) {
					folded++
				}
			})
		}
		r.check(lookups > 0 && folded > 0, rule, name, c.pos(fn.Pos()), "lookup under the canonical name", "none of the %d map lookups uses the case-folded key name: a TSIG whose key name arrives as \"Test.\" is answered with ErrSecret (BADKEY) although its MAC is the RFC 8945 MAC under the secret of \"test.\", which the map holds", lookups)
	}
}

// trimEmptyOrigin: TrimDomainName indexes the label offsets of s with the number of labels shared with the
// origin; for the empty origin (the root after Fqdn) that number is 0 and the index is one past the end.
func trimEmptyOrigin(c *Ctx, r *Report, rule string) {
	r.rule(rule, 1, "dnsutil.TrimDomainName reaches slabels[len(slabels)-m] only with a non-empty origin or a positive m")
	fn := c.ssaFuncIn("dnsutil", "TrimDomainName")
	if fn == nil || len(fn.Params) < 2 {
		r.cerr(rule, "TrimDomainName", "function not found")
		return
	}
	r.fn(fnDisplay(fn))
	origin := fn.Params[1]
	n := 0
	var bad []string
	allInstrs(fn, func(in ssa.Instruction) {
		ia, ok := in.(*ssa.IndexAddr)
		if !ok {
			return
		}
		sub, ok := ia.Index.(*ssa.BinOp)
		if !ok || sub.Op != token.SUB {
			return
		}
		m := sub.Y
		n++
		if positiveFact(fn, ia.Block(), func(v ssa.Value) bool { return v == m }) {
			return
		}
		// origin != "" / len(origin) != 0 on the way
		for _, f := range factsAt(fn, ia.Block()) {
			bin, ok := f.Atom.(*ssa.BinOp)
			if !ok || (bin.Op != token.EQL && bin.Op != token.NEQ) {
				continue
			}
			x, y := bin.X, bin.Y
			if _, isK := x.(*ssa.Const); isK {
				x, y = y, x
			}
			k, isK := y.(*ssa.Const)
			if !isK || k.Value == nil {
				continue
			}
			emptyTest := x == ssa.Value(origin) && k.Value.ExactString() == `""`
			if call, ok := x.(*ssa.Call); ok && calleeNameSSA(&call.Call) == "builtin.len" && call.Call.Args[0] == ssa.Value(origin) && k.Value.ExactString() == "0" {
				emptyTest = true
			}
			if emptyTest && (bin.Op == token.NEQ) == f.Holds {
				return
			}
		}
		bad = append(bad, c.pos(ia.Pos()))
	})
	r.check(n > 0 && len(bad) == 0, rule, "TrimDomainName:index", c.pos(fn.Pos()), "empty origin excluded", "the label offsets are indexed with len(slabels)-m at %s also for the empty origin, where m is 0: TrimDomainName(AddOrigin(s, \"\"), \"\") panics (index out of range) although AddOrigin accepts that origin", strings.Join(bad, ", "))
}

// escapeFlagSet: the flag IsDomainName tests at the end to refuse a dangling backslash is only ever assigned
// constants: a toggle (escape = !escape) forgets the dangling backslash when an escape came before it.
func escapeFlagSet(c *Ctx, r *Report, rule string) {
	r.rule(rule, 1, "the escape flag IsDomainName tests before accepting is assigned constants only (set at a backslash, cleared elsewhere), never its own negation")
	fn := c.ssaFunc("IsDomainName")
	if fn == nil {
		r.cerr(rule, "IsDomainName", "function not found")
		return
	}
	r.fn(fnDisplay(fn))
	n := 0
	for _, b := range fn.Blocks {
		ifi, ok := b.Instrs[len(b.Instrs)-1].(*ssa.If)
		if !ok {
			continue
		}
		atom, _ := condAtom(ifi.Cond)
		phi, ok := atom.(*ssa.Phi)
		if !ok || !types.Identical(phi.Type().Underlying(), types.Typ[types.Bool]) {
			continue
		}
		// one of its successors returns
		returns := false
		for _, s := range b.Succs {
			if _, ok := s.Instrs[len(s.Instrs)-1].(*ssa.Return); ok {
				returns = true
			}
		}
		if !returns {
			continue
		}
		n++
		var bad []string
		sawTrue := false
		for _, l := range phiLeaves(phi) {
			k, isK := l.(*ssa.Const)
			if !isK {
				bad = append(bad, describeValue(l))
				continue
			}
			if k.Value != nil && k.Value.ExactString() == "true" {
				sawTrue = true
			}
		}
		sort.Strings(bad)
		r.check(len(bad) == 0 && sawTrue, rule, fmt.Sprintf("IsDomainName:flag#%d", n), c.pos(ifi.Pos()), "constants only", "the flag tested before the name is accepted is computed (%s), not set: a lone backslash at the end is forgotten when an escape came before it, and IsDomainName accepts a name (`\\a\\`) of which no fully qualified form packs", strings.Join(bad, ", "))
	}
	if n == 0 {
		r.cerr(rule, "IsDomainName", "no final test of a loop-carried boolean found: the dangling backslash is refused in another way (or not at all)")
	}
}

// generateEscapesKept: the $GENERATE template reader interprets a backslash only in front of '$'; every other
// escape is meant for the zone lexer and must reach it as written: (a) no recursive read (which throws the
// character away) happens where the escape flag is known to be set, (b) where the flag is set and a backslash is
// returned, the escaped character is queued behind it.
func generateEscapesKept(c *Ctx, r *Report, rule string) {
	r.rule(rule, 2, "generateReader.ReadByte drops no escaped character: no recursive read under a set escape flag, and a backslash returned under a set flag is followed by the queued character")
	fn := c.ssaFunc("generateReader.ReadByte")
	if fn == nil {
		r.cerr(rule, "generateReader.ReadByte", "function not found")
		return
	}
	r.fn(fnDisplay(fn))
	escapeSet := func(b *ssa.BasicBlock) bool {
		for _, f := range factsAt(fn, b) {
			u, ok := f.Atom.(*ssa.UnOp)
			if ok && u.Op == token.MUL && readsField("generateReader", "escape")(u.X) && f.Holds {
				return true
			}
		}
		return false
	}
	var dropped []string
	for _, ci := range callsInFn(fn, fn) {
		if escapeSet(ci.Block()) {
			dropped = append(dropped, c.pos(ci.Pos()))
		}
	}
	r.check(len(dropped) == 0, rule, "ReadByte:recursive-read", c.pos(fn.Pos()), "no read under a set flag", "the next octet is read at %s while the escape flag is set: the escaped character is thrown away with its backslash ($GENERATE ... TXT x\\yz\\065w yields \"xz65w\", the same line written out \"xyzAw\")", strings.Join(dropped, ", "))
	var single []string
	n := 0
	for _, b := range fn.Blocks {
		ret, ok := b.Instrs[len(b.Instrs)-1].(*ssa.Return)
		if !ok || len(ret.Results) != 2 || !escapeSet(b) {
			continue
		}
		k, isK := constIntOf(ret.Results[0])
		if !isK || k != '\\' {
			continue
		}
		n++
		queued := false
		for _, in := range b.Instrs {
			if ci, ok := in.(ssa.CallInstruction); ok && strings.HasSuffix(calleeNameSSA(ci.Common()), "WriteByte") {
				queued = true
			}
		}
		if !queued {
			single = append(single, c.pos(ret.Pos()))
		}
	}
	r.check(len(single) == 0, rule, "ReadByte:escaped-pair", c.pos(fn.Pos()), "both characters handed over", "a lone backslash is returned for an escape at %s: an escaped backslash reaches the zone lexer as one backslash, which then escapes the character behind it", strings.Join(single, ", "))
}

// genericRdlengthZero: a record of a known type read from the RFC 3597 generic form leaves fromRFC3597 with
// Rdlength 0, as the same record read from its mnemonic form: no success exit is reachable from the store of the
// generic length without passing a store of zero, unless the length is known to be zero there (noRdata).
func genericRdlengthZero(c *Ctx, r *Report, rule string) {
	r.rule(rule, 1, "RFC3597.fromRFC3597 returns success only with Hdr.Rdlength zero (reset after decoding, or the empty RDATA of a dynamic update)")
	fn := c.ssaFunc("RFC3597.fromRFC3597")
	if fn == nil {
		r.cerr(rule, "RFC3597.fromRFC3597", "function not found")
		return
	}
	r.fn(fnDisplay(fn))
	zero := map[*ssa.BasicBlock]bool{}
	var sets []*ssa.Store
	for _, st := range storesToField(fn, "RR_Header", "Rdlength") {
		if k, isK := constIntOf(st.Val); isK && k == 0 {
			zero[st.Block()] = true
		} else {
			sets = append(sets, st)
		}
	}
	var bad []string
	for _, st := range sets {
		// a zero store later in the same block covers it
		covered := false
		seen := false
		for _, in := range st.Block().Instrs {
			if in == ssa.Instruction(st) {
				seen = true
			} else if z, ok := in.(*ssa.Store); ok && seen && readsField("RR_Header", "Rdlength")(z.Addr) {
				if k, isK := constIntOf(z.Val); isK && k == 0 {
					covered = true
				}
			}
		}
		if covered {
			continue
		}
		removed := map[*ssa.BasicBlock]bool{}
		for b := range zero {
			if b != st.Block() {
				removed[b] = true
			}
		}
		for b := range reach(st.Block(), nil, removed) {
			ret, ok := b.Instrs[len(b.Instrs)-1].(*ssa.Return)
			if !ok || len(ret.Results) != 1 {
				continue
			}
			if k, isK := ret.Results[0].(*ssa.Const); !isK || !k.IsNil() {
				continue
			}
			// the noRdata edge: the length is zero there
			onEmpty := false
			for _, f := range factsAt(fn, b) {
				if call, ok := f.Atom.(*ssa.Call); ok && calleeNameSSA(&call.Call) == "noRdata" && f.Holds {
					onEmpty = true
				}
			}
			if !onEmpty {
				bad = append(bad, c.pos(ret.Pos()))
			}
		}
	}
	sort.Strings(bad)
	r.check(len(sets) > 0 && len(bad) == 0, rule, "fromRFC3597", c.pos(fn.Pos()), "Rdlength reset", "success is returned at %s with the length of the generic RDATA still in Hdr.Rdlength: `foo A \\# 4 0a000001` and `foo A 10.0.0.1` give records that differ in the header (NewRR documents Rdlength as 0)", strings.Join(uniqStrings(bad), ", "))
}

// textIgnoresRdlength: what a record prints does not depend on Hdr.Rdlength, which is bookkeeping of the wire
// codec (set by Unpack and Pack, zero for records from text, copies and literals): no String method of a record
// type, nor what it calls inside the package, reads that field.
func textIgnoresRdlength(c *Ctx, r *Report, rule string) {
	r.rule(rule, 80, "no String method of a record type (nor a package function it calls, three levels deep) reads Hdr.Rdlength")
	for _, t := range c.rrTypes() {
		fn := c.ssaFunc(t.Name + ".String")
		if fn == nil {
			continue
		}
		var fns []*ssa.Function
		seen := map[*ssa.Function]bool{}
		var collect func(f *ssa.Function, depth int)
		collect = func(f *ssa.Function, depth int) {
			if f == nil || seen[f] || depth > 3 || len(f.Blocks) == 0 || f.Pkg != fn.Pkg {
				return
			}
			seen[f] = true
			fns = append(fns, f)
			allInstrs(f, func(in ssa.Instruction) {
				if ci, ok := in.(ssa.CallInstruction); ok {
					collect(ci.Common().StaticCallee(), depth+1)
				}
			})
		}
		collect(fn, 0)
		var bad []string
		for _, f := range fns {
			allInstrs(f, func(in ssa.Instruction) {
				switch v := in.(type) {
				case *ssa.UnOp:
					if v.Op == token.MUL && readsField("RR_Header", "Rdlength")(v.X) {
						bad = append(bad, fmt.Sprintf("%s in %s", c.pos(v.Pos()), fnDisplay(f)))
					}
				case *ssa.Field:
					if readsField("RR_Header", "Rdlength")(v) {
						bad = append(bad, fmt.Sprintf("%s in %s", c.pos(v.Pos()), fnDisplay(f)))
					}
				}
			})
		}
		r.fn(fnDisplay(fn))
		sort.Strings(bad)
		r.check(len(bad) == 0, rule, t.Name+".String", c.pos(fn.Pos()), "Rdlength not read", "the text depends on Hdr.Rdlength (%s), which is 0 for a record read from text, copied field by field or built in code and only set by the wire codec: such a record prints a length that does not match its data and the text is refused (or read as another record)", strings.Join(uniqStrings(bad), ", "))
	}
}

// mappedAddressAgreement: a 16-octet address may be an IPv4-mapped one; the four codecs of the SVCB ipv6hint
// (pack, unpack, String, parse) must treat it alike, and each says so by testing To4: a value one of them lets
// through is refused (or printed as "<nil>") by the others.
func mappedAddressAgreement(c *Ctx, r *Report, rule string) {
	r.rule(rule, 4, "SVCBIPv6Hint.pack, unpack, String and parse all test the address with To4 (IPv4-mapped addresses are not IPv6 hints)")
	for _, m := range []string{"pack", "unpack", "String", "parse"} {
		name := "SVCBIPv6Hint." + m
		fn := c.ssaFunc(name)
		if fn == nil {
			r.cerr(rule, name, "function not found")
			continue
		}
		r.fn(fnDisplay(fn))
		tests := 0
		for _, ci := range callsIn(fn, "(net.IP).To4") {
			// the result decides a branch
			call, ok := ci.(*ssa.Call)
			if !ok {
				continue
			}
			for _, b := range fn.Blocks {
				if ifi, ok := b.Instrs[len(b.Instrs)-1].(*ssa.If); ok && sliceOf(ifi.Cond)[call] {
					tests++
				}
			}
		}
		r.check(tests > 0, rule, name, c.pos(fn.Pos()), "tests To4", "%s does not test the address with To4, its siblings do: an address in ::ffff:0:0/96 gets through here and is refused by pack and parse and printed as \"<nil>\" by String, so an accepted record has no text that reads back", name)
	}
}

// lexerKeepsEscaped: in the zone lexer an escaped character is token text whatever it is. (a) each case of the
// character switch of zlexer.Next that gives a character a meaning of its own (blank, tab, ';', '(', ')', '"',
// CR) appends it to the token under a condition that mentions the escape flag; (b) a token that consists of
// escaped characters only has begun all the same: zl.space is cleared where the escape flag is set, or in each
// of those branches.
func lexerKeepsEscaped(c *Ctx, r *Report, rule string) {
	r.rule(rule, 8, "zlexer.Next keeps an escaped blank, tab, ';', '(', ')', '\"' and CR as token text, and marks the token as begun (zl.space = false) for escaped characters as well")
	fd := c.decl("zlexer.Next")
	if fd == nil || fd.Body == nil {
		r.cerr(rule, "zlexer.Next", "function not found")
		return
	}
	r.fn("zlexer.Next")
	mentions := func(n ast.Node, name string) bool {
		found := false
		ast.Inspect(n, func(m ast.Node) bool {
			if id, ok := m.(*ast.Ident); ok && id.Name == name {
				found = true
			}
			return !found
		})
		return found
	}
	appendsToStr := func(n ast.Node) bool {
		found := false
		ast.Inspect(n, func(m ast.Node) bool {
			if as, ok := m.(*ast.AssignStmt); ok && len(as.Lhs) == 1 {
				if ix, ok := as.Lhs[0].(*ast.IndexExpr); ok {
					if id, ok := ix.X.(*ast.Ident); ok && id.Name == "str" {
						found = true
					}
				}
			}
			return !found
		})
		return found
	}
	clearsSpace := func(list []ast.Stmt) bool {
		for _, st := range list {
			as, ok := st.(*ast.AssignStmt)
			if !ok || len(as.Lhs) != 1 || len(as.Rhs) != 1 {
				continue
			}
			sel, ok := as.Lhs[0].(*ast.SelectorExpr)
			if !ok || sel.Sel.Name != "space" {
				continue
			}
			if id, ok := as.Rhs[0].(*ast.Ident); ok && id.Name == "false" {
				return true
			}
		}
		return false
	}
	var sw *ast.SwitchStmt
	ast.Inspect(fd.Body, func(n ast.Node) bool {
		if s, ok := n.(*ast.SwitchStmt); ok && sw == nil {
			if id, ok := s.Tag.(*ast.Ident); ok && id.Name == "x" {
				sw = s
			}
		}
		return sw == nil
	})
	if sw == nil {
		r.cerr(rule, "zlexer.Next", "the switch over the character read was not found")
		return
	}
	want := map[string]bool{`' '`: true, `'\t'`: true, `';'`: true, `'('`: true, `')'`: true, `'"'`: true, `'\r'`: true}
	seen := map[string]bool{}
	allBranchesClear := true
	for _, st := range sw.Body.List {
		cc, ok := st.(*ast.CaseClause)
		if !ok {
			continue
		}
		for _, e := range cc.List {
			lit, ok := e.(*ast.BasicLit)
			if !ok || !want[lit.Value] {
				continue
			}
			seen[lit.Value] = true
			kept := false
			for _, s := range cc.Body {
				ifs, ok := s.(*ast.IfStmt)
				if !ok || !mentions(ifs.Cond, "escape") || !appendsToStr(ifs.Body) {
					continue
				}
				kept = true
				if !clearsSpace(ifs.Body.List) {
					allBranchesClear = false
				}
			}
			if !kept {
				allBranchesClear = false
			}
			r.check(kept, rule, "zlexer.Next:case "+lit.Value, c.pos(cc.Pos()), "kept when escaped", "the case for %s does not append the character to the token under a condition on the escape flag: an escaped %s is dropped (or acts as a separator) while its backslash stays in the token and escapes the character behind it", lit.Value, lit.Value)
		}
	}
	for v := range want {
		if !seen[v] {
			r.cerr(rule, "zlexer.Next:case "+v, "no case for this character in the switch")
		}
	}
	// (b)
	setHere := false
	ast.Inspect(sw, func(n ast.Node) bool {
		var list []ast.Stmt
		switch b := n.(type) {
		case *ast.BlockStmt:
			list = b.List
		case *ast.CaseClause:
			list = b.Body
		default:
			return true
		}
		for _, st := range list {
			as, ok := st.(*ast.AssignStmt)
			if !ok || len(as.Lhs) != 1 || len(as.Rhs) != 1 {
				continue
			}
			l, ok1 := as.Lhs[0].(*ast.Ident)
			v, ok2 := as.Rhs[0].(*ast.Ident)
			if ok1 && ok2 && l.Name == "escape" && v.Name == "true" && clearsSpace(list) {
				setHere = true
			}
		}
		return true
	})
	r.check(setHere || allBranchesClear, rule, "zlexer.Next:token-begun", c.pos(sw.Pos()), "zl.space cleared for escapes", "zl.space is cleared neither where the escape flag is set nor in the branches that keep an escaped special: a token made of escaped specials only (backslash-semicolon, the way the library prints the label \";\") swallows the blank behind it, and an RP record whose first name is that label is refused")
}
