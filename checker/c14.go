package main

import (
	"fmt"
	"go/token"
	"go/types"
	"strings"

	"golang.org/x/tools/go/ssa"
)

func init() { register("C14", true, false, checkC14) }

const c14Explanation = `Decided statically: (R1) every path through the per-message function serveDNS (loop-free; all paths enumerated) is exactly one of: the handler is invoked once, the header decoded, no accept-policy constant other than MsgAccept was matched, and if MsgAccept was matched the body decoded without error, and neither the invalid-message callback nor a reject reply happened; or the handler is not invoked and the message was refused/ignored by the policy or reported to the invalid-message callback; the short-packet path of serveUDP reports to the callback and continues; (R2) the reject path sets FORMERR through SetRcodeFormatError, clears answer/authority/additional and writes the reply; the NOTIMP variant restores the opcode and sets RCODE 4 only on the MsgRejectNotImplemented edge; the ignore path writes nothing; (R3) the default policy as a decision list: QR is tested first (bit 15) and returns Ignore, the opcode is bits 11..14 (bit provenance), NOTIMP is returned exactly on opcode not in {QUERY, NOTIFY}, MsgAccept is returned only with QDCOUNT == 1 and ANCOUNT, NSCOUNT, ARCOUNT bounded; (R4) effect summaries of the reply skeletons: SetReply copies the ID, sets QR, copies the opcode, copies RD and CD on the query edge and the first question; SetRcodeFormatError copies the ID and sets QR; SetRcode and handleRefused go through SetReply with RCODE 5; (R5) the multiplexer's table is accessed under its lock (write lock for writes), keys are CanonicalName results, the walk advances with NextLabel over suffixes of the canonical name, the early return is on the type != DS edge, the root pattern is looked up after the walk, and REFUSED is produced on the nil-handler edge. Observation (not a violation of the stated configurations): a custom accept function returning a value outside the four constants reaches the handler with a header-only request. NOT decided: 'never panics' for all byte strings (see C02), longest-suffix optimality over all pattern sets.`

func checkC14(c *Ctx, r *Report) {
	r.Explanation = c14Explanation
	r.Trusted = []string{"go/ssa translation", "RFC 1035 header bit positions (shared with C01.R2)"}
	c14R1(c, r)
	c14R2(c, r)
	c14R3(c, r)
	c14R4(c, r)
	c14R5(c, r)
	c14PoolSlice(c, r)
	r.rule("C14.R5.canonical-fold", 1, "CanonicalName lower-cases exactly A-Z (patterns and question names meet in the same case)")
	foldRangeRule(c, r, "C14.R5.canonical-fold", "CanonicalName", "patterns and question names containing the letter left out are not brought to the same case, and such queries go to the wrong handler")
	borrow(c, r, checkC16, "C16.R2.no-buffer-alias", "C14.R4.request-not-pooled", 100, "the decoded request shares no memory with the receive buffer, which serveDNS returns to the pool before it calls the handler", nil, "while the handler runs, a later datagram is read into the recycled buffer and the request changes under it")
	borrow(c, r, c12R1, "C12.R1.stream-read", "C14.R1.stream-read", 3, "a stream message is read as a full 2-octet length and then exactly that many octets", nil, "a length prefix that arrives split is mis-read, the stream is mis-framed and valid queries on that connection are never handled")
	r.rule("C14.R5.label-scan", 1, "NextLabel's (and PrevLabel's) backward scan over the backslashes before a dot can reach index 0")
	backslashScanReachesZero(c, r, "C14.R5.label-scan", []string{"NextLabel", "PrevLabel"}, "the multiplexer, which walks the question name with NextLabel, never looks up the suffix behind that dot: a query whose first label is a backslash is REFUSED although a handler for its parent zone is registered")
	borrow(c, r, c02BoundsRun, "C02.R5.bounds", "C14.R2.decode-bounds", 80, "every buffer access of the decoders the server runs on inbound messages is entailed in bounds", nil, "a crafted datagram makes the serving goroutine panic instead of the message being reported to the invalid-message callback")
	borrow(c, r, c12R4, "C12.R4.pool-put-size", "C14.R1.pool-put-size", 2, "every buffer returned to the UDP pool is re-sliced to srv.UDPSize", nil, "a later, larger datagram read into the short buffer is cut and never reaches the handler, although it passes the accept policy and would decode")
	poolGetSize(c, r, "C14.R1.pool-get-size", "after a restart with a larger UDPSize the pool still hands out the old, shorter buffers: datagrams that fit the configured size are cut, fail to decode and never reach the handler")
	muxAnyQuestion(c, r, "C14.R5.any-question")
	defaultsSameField(c, r, "C14.R3.defaults-same-field")
	borrow(c, r, c12R4, "C12.R4.pool-release", "C14.R1.pool-release", 2, "the receive buffer is not used after it went back to the pool", nil, "TSIG stripping rewrites the header of the next datagram read into the buffer: that request is answered under another ID, or reaches the handler changed")
	freshReplies(c, r, "C14.R2.fresh-replies")
	readThenDispatch(c, r, "C14.R1.read-then-dispatch")
	errorBeforeSuccess(c, r, "C14.R2.error-before-success", "a message cut inside that field decodes: it reaches the handler instead of being answered with FORMERR or reported to the invalid-message callback", []string{"unpackQuestion", "unpackRRslice", "unpackMsgHdr", "Msg.unpack", "unpackHeader", "UnpackRRWithHeader"})
	borrow(c, r, c08R5, "C08.R5.escape-skip", "C14.R6.escape-skip", 1, "escapedNameLen steps over a whole \\DDD escape", nil, "a reply whose names carry such escapes is measured too long: Truncate drops records that fit and sets TC for nothing (or too short, and the packed reply exceeds the limit)")
	round12(c, r, "C14")
}

func isHandlerInvoke(in ssa.Instruction) bool {
	call, ok := in.(*ssa.Call)
	if !ok || !call.Call.IsInvoke() || call.Call.Method.Name() != "ServeDNS" {
		return false
	}
	return anyIn(sliceOf(call.Call.Value), readsField("Server", "Handler"))
}

// isHandlerGo: a go statement that starts the per-packet handler path (anything but the invalid-message report).
func isHandlerGo(in ssa.Instruction) bool {
	_, ok := in.(*ssa.Go)
	return ok && !isInvalidCallback(in)
}

func isInvalidCallback(in ssa.Instruction) bool {
	// a report made on a goroutine of its own is still a report (whether the server waits for it is C13's business)
	ci, ok := in.(ssa.CallInstruction)
	if !ok {
		return false
	}
	if _, isDefer := in.(*ssa.Defer); isDefer {
		return false
	}
	cc := ci.Common()
	if cc.IsInvoke() || cc.StaticCallee() != nil {
		return false
	}
	return anyIn(sliceOf(cc.Value), readsField("Server", "MsgInvalidFunc"))
}

func c14R1(c *Ctx, r *Report) {
	r.rule("C14.R1.paths", 1, "each path through serveDNS either invokes the handler once after accept+decode, or rejects/ignores/reports")
	r.rule("C14.R1.short-packet", 1, "serveUDP reports packets shorter than a header to MsgInvalidFunc and continues")
	fn := c.ssaFunc("Server.serveDNS")
	if fn == nil {
		r.cerr("C14.R1.paths", "Server.serveDNS", "function not found")
		return
	}
	r.fn("Server.serveDNS")
	isAction := func(v ssa.Value) bool {
		call, ok := v.(*ssa.Call)
		return ok && !call.Call.IsInvoke() && call.Call.StaticCallee() == nil && anyIn(sliceOf(call.Call.Value), readsField("Server", "MsgAcceptFunc"))
	}
	actionIs := func(k int64, holds bool) Guard {
		return Guard{Op: "eq", A: isAction, B: isConstInt(k), Holds: holds}
	}
	hdrOK := Guard{Op: "eq", A: callsExtract("unpackMsgHdr"), B: isNilConst, Holds: true}
	bodyOK := Guard{Op: "eq", A: callsFunc("(Msg).unpack"), B: isNilConst, Holds: true}
	accept, _ := c.constInt("MsgAccept")
	reject, _ := c.constInt("MsgReject")
	ignore, _ := c.constInt("MsgIgnore")
	notimp, _ := c.constInt("MsgRejectNotImplemented")
	isWrite := func(in ssa.Instruction) bool {
		call, ok := in.(*ssa.Call)
		return ok && calleeNameSSA(&call.Call) == "(response).WriteMsg"
	}
	nPaths, nHandler := 0, 0
	var problems []string
	ok := enumPaths(fn, 5000, func(path []pathStep, ret *ssa.Return) {
		nPaths++
		facts := pathFacts(path)
		h := countOnPath(path, isHandlerInvoke)
		inv := countOnPath(path, isInvalidCallback)
		wr := countOnPath(path, isWrite)
		// infeasible combinations (the same action compared equal to two constants) are skipped
		eq := 0
		for _, k := range []int64{accept, reject, ignore, notimp} {
			if pathHas(facts, actionIs(k, true)) {
				eq++
			}
		}
		if eq > 1 {
			return
		}
		where := c.pos(ret.Pos())
		switch {
		case h > 1:
			problems = append(problems, fmt.Sprintf("path ending at %s invokes the handler %d times", where, h))
		case h == 1:
			nHandler++
			if !pathHas(facts, hdrOK) {
				problems = append(problems, fmt.Sprintf("path ending at %s reaches the handler without the header having decoded", where))
			}
			for _, k := range []int64{reject, ignore, notimp} {
				if pathHas(facts, actionIs(k, true)) {
					problems = append(problems, fmt.Sprintf("path ending at %s reaches the handler although the accept function returned action %d", where, k))
				}
			}
			if pathHas(facts, actionIs(accept, true)) && !pathHas(facts, bodyOK) {
				problems = append(problems, fmt.Sprintf("path ending at %s reaches the handler although the message body did not decode", where))
			}
			if !pathHas(facts, actionIs(accept, true)) {
				// outside the four constants: listed observation, requires all four to have compared unequal
				for _, k := range []int64{accept, reject, ignore, notimp} {
					if !pathHas(facts, actionIs(k, false)) {
						problems = append(problems, fmt.Sprintf("path ending at %s reaches the handler without the action having been compared with %d", where, k))
					}
				}
			}
			if inv > 0 || wr > 0 {
				problems = append(problems, fmt.Sprintf("path ending at %s invokes the handler after reporting/rejecting the message", where))
			}
		default:
			refused := pathHas(facts, actionIs(reject, true)) || pathHas(facts, actionIs(ignore, true)) || pathHas(facts, actionIs(notimp, true))
			if !refused && inv == 0 {
				problems = append(problems, fmt.Sprintf("path ending at %s drops the message: no handler, no policy refusal, no invalid-message callback", where))
			}
		}
	})
	if !ok {
		r.undecided("C14.R1.paths", "Server.serveDNS", c.pos(fn.Pos()), "serveDNS is no longer loop-free or has too many paths to enumerate")
		return
	}
	if nHandler == 0 {
		problems = append(problems, "no path invokes the handler")
	}
	if nPaths < 10 {
		problems = append(problems, fmt.Sprintf("only %d paths enumerated; the function confirmed by hand has more than 10", nPaths))
	}
	r.check(len(problems) == 0, "C14.R1.paths", "Server.serveDNS", c.pos(fn.Pos()), fmt.Sprintf("%d paths, %d reach the handler", nPaths, nHandler), "%s", strings.Join(uniqStrings(problems), "; "))
	r.extra["serveDNS_paths"] = nPaths
	r.note("observation (not armed): serveDNS's switch over the accept action has no default; a custom accept function returning a value outside the four constants reaches the handler with a header-only request")

	// short packets
	fu := c.ssaFunc("Server.serveUDP")
	if fu == nil {
		r.cerr("C14.R1.short-packet", "Server.serveUDP", "function not found")
		return
	}
	r.fn("Server.serveUDP")
	hs, _ := c.constInt("headerSize")
	var sp []string
	found := false
	allInstrs(fu, func(in ssa.Instruction) {
		ifi, isIf := in.(*ssa.If)
		if !isIf {
			return
		}
		atom, pol := condAtom(ifi.Cond)
		for succ := 0; succ < 2; succ++ {
			f := Fact{ifi, atom, pol == (succ == 0)}
			if !matchGuard(f, Guard{Op: "lt", A: callsFunc("builtin.len"), B: isConstInt(hs), Holds: true}) {
				continue
			}
			found = true
			blk := ifi.Block().Succs[succ]
			// from the short edge: the callback is reached before any go statement; no go statement on this edge before the loop head
			reachable := reach(blk, map[edge]bool{}, nil)
			_ = reachable
			hit := false
			for _, x := range blk.Instrs {
				if isInvalidCallback(x) {
					hit = true
				}
				if isHandlerGo(x) && !hit {
					sp = append(sp, "a short packet is handed to a handler goroutine")
				}
			}
			if !hit {
				// search forward until the next branch
				passed, _ := mustPassUntil(blk, isInvalidCallback, isHandlerGo)
				if !passed {
					sp = append(sp, "the short-packet edge does not report to MsgInvalidFunc before going on")
				}
			}
		}
	})
	if !found {
		sp = append(sp, "no len(m) < headerSize test")
	}
	// the go statement itself is on the not-short edge
	allInstrs(fu, func(in ssa.Instruction) {
		if g, ok := in.(*ssa.Go); ok && isHandlerGo(in) {
			if miss := guardsMissing(fu, g.Block(), []Guard{{Name: "len(m) >= headerSize", Op: "lt", A: callsFunc("builtin.len"), B: isConstInt(hs), Holds: false}}); len(miss) > 0 {
				sp = append(sp, fmt.Sprintf("%s: handler goroutine started without the %s test", c.pos(g.Pos()), miss[0]))
			}
		}
	})
	r.check(len(sp) == 0, "C14.R1.short-packet", "Server.serveUDP", c.pos(fu.Pos()), "reported and skipped", "%s", strings.Join(sp, "; "))
}

// mustPassUntil: from the start of blk every path hits `hit` before `bad` or a loop back; simple forward walk.
func mustPassUntil(blk *ssa.BasicBlock, hit, bad func(ssa.Instruction) bool) (bool, *ssa.BasicBlock) {
	seen := map[*ssa.BasicBlock]bool{}
	stack := []*ssa.BasicBlock{blk}
	for len(stack) > 0 {
		b := stack[len(stack)-1]
		stack = stack[:len(stack)-1]
		if seen[b] {
			continue
		}
		seen[b] = true
		satisfied := false
		for _, in := range b.Instrs {
			if hit(in) {
				satisfied = true
				break
			}
			if bad(in) {
				return false, b
			}
			if _, isRet := in.(*ssa.Return); isRet {
				return false, b
			}
		}
		if !satisfied {
			stack = append(stack, b.Succs...)
		}
	}
	return true, nil
}

func callsExtract(name string) vpred {
	return func(v ssa.Value) bool {
		e, ok := v.(*ssa.Extract)
		if !ok {
			return false
		}
		call, ok := e.Tuple.(*ssa.Call)
		return ok && calleeNameSSA(&call.Call) == name
	}
}

func uniqStrings(in []string) []string {
	seen := map[string]bool{}
	var out []string
	for _, s := range in {
		if !seen[s] {
			seen[s] = true
			out = append(out, s)
		}
	}
	return out
}

func c14R2(c *Ctx, r *Report) {
	r.rule("C14.R2.reject-reply", 3, "the reject path: SetRcodeFormatError, sections cleared, reply written; NOTIMP only on its edge; ignore writes nothing")
	fn := c.ssaFunc("Server.serveDNS")
	if fn == nil {
		return
	}
	fmts := callsIn(fn, "(Msg).SetRcodeFormatError")
	var problems []string
	rcFormErr, _ := c.constInt("RcodeFormatError")
	// the point where the request becomes the FORMERR skeleton: the call of SetRcodeFormatError(req, req), or, when
	// that one-liner has been written out in place, the store of RcodeFormatError into the request (with QR set
	// next to it; the ID is the request's own)
	var fe ssa.Instruction
	var req ssa.Value
	rootOf := func(addr ssa.Value) ssa.Value {
		for {
			fa, ok := addr.(*ssa.FieldAddr)
			if !ok {
				return addr
			}
			addr = fa.X
		}
	}
	if len(fmts) == 1 {
		fe = fmts[0].(ssa.Instruction)
		req = fmts[0].Common().Args[0]
		if fmts[0].Common().Args[1] != req {
			problems = append(problems, "the FORMERR reply does not take its ID from the request")
		}
	} else if len(fmts) == 0 {
		var sts []*ssa.Store
		for _, st := range append(storesToField(fn, "Msg", "Rcode"), storesToField(fn, "MsgHdr", "Rcode")...) {
			if k, ok := constIntOf(st.Val); ok && k == rcFormErr {
				sts = append(sts, st)
			}
		}
		if len(sts) == 1 {
			fe, req = sts[0], rootOf(sts[0].Addr)
			qr := false
			for _, st := range append(storesToField(fn, "Msg", "Response"), storesToField(fn, "MsgHdr", "Response")...) {
				if b, ok := constBool(st.Val); ok && b && rootOf(st.Addr) == req && st.Block() == fe.Block() {
					qr = true
				}
			}
			if !qr {
				problems = append(problems, "the FORMERR skeleton written in place does not set QR")
			}
		}
	}
	if fe == nil {
		problems = append(problems, fmt.Sprintf("%d SetRcodeFormatError calls", len(fmts)))
	} else {
		for _, fld := range []string{"Ns", "Answer", "Extra"} {
			passed, blk := mustPass(fn, fe.Block(), instrIndex(fe), func(x ssa.Instruction) bool {
				st, ok := x.(*ssa.Store)
				return ok && readsField("Msg", fld)(st.Addr) && isNilConst(st.Val) && anyIn(sliceOf(st.Addr), func(v ssa.Value) bool { return v == req })
			})
			if !passed {
				problems = append(problems, fmt.Sprintf("a reject reply can be sent without clearing req.%s (exit at %s)", fld, c.pos(blk.Instrs[len(blk.Instrs)-1].Pos())))
			}
		}
		var write ssa.Instruction
		passed, _ := mustPass(fn, fe.Block(), instrIndex(fe), func(x ssa.Instruction) bool {
			call, ok := x.(*ssa.Call)
			if ok && calleeNameSSA(&call.Call) == "(response).WriteMsg" && call.Call.Args[1] == req {
				write = x
				return true
			}
			return false
		})
		if !passed {
			problems = append(problems, "the reject path can return without writing the reply")
		}
		// clearing precedes the write
		if write != nil {
			for _, fld := range []string{"Ns", "Answer", "Extra"} {
				okOrder := false
				for _, st := range storesToField(fn, "Msg", fld) {
					if isNilConst(st.Val) && precedes(st, write) {
						okOrder = true
					}
				}
				if !okOrder {
					problems = append(problems, fmt.Sprintf("req.%s is not cleared before the reject reply is written", fld))
				}
			}
		}
	}
	r.check(len(problems) == 0, "C14.R2.reject-reply", "serveDNS:formerr", c.pos(fn.Pos()), "FORMERR, empty sections, written", "%s", strings.Join(problems, "; "))
	// NOTIMP
	problems = nil
	notimp, _ := c.constInt("MsgRejectNotImplemented")
	rcNotImp, _ := c.constInt("RcodeNotImplemented")
	isAction := func(v ssa.Value) bool {
		call, ok := v.(*ssa.Call)
		return ok && !call.Call.IsInvoke() && call.Call.StaticCallee() == nil && anyIn(sliceOf(call.Call.Value), readsField("Server", "MsgAcceptFunc"))
	}
	n := 0
	for _, st := range append(storesToField(fn, "Msg", "Rcode"), storesToField(fn, "MsgHdr", "Rcode")...) {
		n++
		k, ok := constIntOf(st.Val)
		if ok && k == rcFormErr && ssa.Instruction(st) == fe {
			n--
			continue // the FORMERR skeleton written in place, examined above
		}
		if !ok || k != rcNotImp {
			problems = append(problems, fmt.Sprintf("%s: serveDNS stores RCODE %v", c.pos(st.Pos()), st.Val))
		}
		if miss := guardsMissing(fn, st.Block(), []Guard{{Name: "action == MsgRejectNotImplemented", Op: "eq", A: isAction, B: isConstInt(notimp), Holds: true}}); len(miss) > 0 {
			problems = append(problems, fmt.Sprintf("%s: NOTIMP set without %s", c.pos(st.Pos()), miss[0]))
		}
		// opcode restored in the same block from a value loaded before SetRcodeFormatError
		restored := false
		for _, so := range append(storesToField(fn, "Msg", "Opcode"), storesToField(fn, "MsgHdr", "Opcode")...) {
			if so.Block() == st.Block() {
				if u, ok := so.Val.(*ssa.UnOp); ok && u.Op == token.MUL && fe != nil && precedes(u, fe) {
					restored = true
				}
			}
		}
		if !restored {
			problems = append(problems, fmt.Sprintf("%s: the NOTIMP reply does not restore the request's opcode (saved before SetRcodeFormatError)", c.pos(st.Pos())))
		}
	}
	if n == 0 {
		problems = append(problems, "no NOTIMP reply")
	}
	r.check(len(problems) == 0, "C14.R2.reject-reply", "serveDNS:notimp", c.pos(fn.Pos()), "RCODE 4 with the original opcode on the NotImplemented edge", "%s", strings.Join(problems, "; "))
	// ignore writes nothing: enumerate
	problems = nil
	ignore, _ := c.constInt("MsgIgnore")
	enumPaths(fn, 5000, func(path []pathStep, ret *ssa.Return) {
		facts := pathFacts(path)
		if !pathHas(facts, Guard{Op: "eq", A: isAction, B: isConstInt(ignore), Holds: true}) {
			return
		}
		for _, k := range []string{"MsgAccept", "MsgReject", "MsgRejectNotImplemented"} {
			v, _ := c.constInt(k)
			if pathHas(facts, Guard{Op: "eq", A: isAction, B: isConstInt(v), Holds: true}) {
				return // infeasible
			}
		}
		if countOnPath(path, func(in ssa.Instruction) bool {
			call, ok := in.(*ssa.Call)
			return ok && (calleeNameSSA(&call.Call) == "(response).WriteMsg" || calleeNameSSA(&call.Call) == "(response).Write")
		}) > 0 || countOnPath(path, isHandlerInvoke) > 0 {
			problems = append(problems, fmt.Sprintf("an ignored message is answered or handled (path ending at %s)", c.pos(ret.Pos())))
		}
	})
	r.check(len(problems) == 0, "C14.R2.reject-reply", "serveDNS:ignore", c.pos(fn.Pos()), "nothing written", "%s", strings.Join(uniqStrings(problems), "; "))
}

func c14R3(c *Ctx, r *Report) {
	r.rule("C14.R3.policy", 4, "default accept policy: QR first, opcode bits 11..14, NOTIMP iff opcode not in {QUERY,NOTIFY}, counts bounded for Accept")
	fn := c.ssaFunc("defaultMsgAcceptFunc")
	if fn == nil {
		r.cerr("C14.R3.policy", "defaultMsgAcceptFunc", "function not found")
		return
	}
	r.fn("defaultMsgAcceptFunc")
	accept, _ := c.constInt("MsgAccept")
	ignore, _ := c.constInt("MsgIgnore")
	notimp, _ := c.constInt("MsgRejectNotImplemented")
	isBits := func(v ssa.Value) bool {
		f, ok := v.(*ssa.Field)
		if ok {
			st := f.X.Type().Underlying().(*types.Struct)
			return st.Field(f.Field).Name() == "Bits"
		}
		u, ok := v.(*ssa.UnOp)
		return ok && u.Op == token.MUL && readsField("Header", "Bits")(u.X)
	}
	env := &bitEnv{leafOf: func(v ssa.Value) (int, int, bool) {
		if isBits(v) {
			return 0, 16, true
		}
		return 0, 0, false
	}}
	// QR test: a condition whose provenance is exactly bit 15 of Bits
	isQRTest := func(v ssa.Value) bool {
		b, ok := v.(*ssa.BinOp)
		if !ok || (b.Op != token.NEQ && b.Op != token.EQL) {
			return false
		}
		vec := env.eval(b.X)
		k, isK := constIntOf(b.Y)
		if !isK || k != 0 {
			return false
		}
		for i := 0; i < 64; i++ {
			if i == 15 {
				if vec[i] != (bitSrc{Kind: bLeaf, Leaf: 0, Bit: 15}) {
					return false
				}
			} else if vec[i].Kind != bZero {
				return false
			}
		}
		return true
	}
	// opcode value: provenance bits 0..3 = Bits[11..14]
	isOpcode := func(v ssa.Value) bool {
		vec := env.eval(v)
		for i := 0; i < 64; i++ {
			if i < 4 {
				if vec[i] != (bitSrc{Kind: bLeaf, Leaf: 0, Bit: 11 + i}) {
					return false
				}
			} else if vec[i].Kind != bZero {
				return false
			}
		}
		return true
	}
	var pQR, pOp, pCnt []string
	nAccept, nNotImp := 0, 0
	opQuery, _ := c.constInt("OpcodeQuery")
	opNotify, _ := c.constInt("OpcodeNotify")
	for _, rp := range returnPoints(fn, 0) {
		k, ok := constIntOf(rp.Results[0])
		if !ok {
			pQR = append(pQR, fmt.Sprintf("%s: returns a non-constant action", c.pos(rp.Pos)))
			continue
		}
		facts := factsAt(fn, rp.Block)
		qrClear := false
		for _, f := range facts {
			// atom is `Bits&QR != 0`; required: that is false
			if b, ok := f.Atom.(*ssa.BinOp); ok && isQRTest(b) {
				holds := f.Holds
				if b.Op == token.EQL {
					holds = !holds
				}
				if !holds {
					qrClear = true
				}
			}
		}
		if k != ignore && !qrClear {
			pQR = append(pQR, fmt.Sprintf("%s: action %d can be returned for a message with QR set (responses must be ignored, never answered)", c.pos(rp.Pos), k))
		}
		if k == notimp {
			nNotImp++
			for _, op := range []int64{opQuery, opNotify} {
				if miss := guardsMissing(fn, rp.Block, []Guard{{Name: fmt.Sprintf("opcode != %d", op), Op: "eq", A: isOpcode, B: isConstInt(op), Holds: false}}); len(miss) > 0 {
					pOp = append(pOp, fmt.Sprintf("%s: NOTIMP returned without the test %s on the 4-bit opcode (Bits>>11 & 0xF)", c.pos(rp.Pos), miss[0]))
				}
			}
		}
		if k == accept {
			nAccept++
			for _, cnt := range []string{"Qdcount", "Ancount", "Nscount", "Arcount"} {
				isCnt := func(v ssa.Value) bool {
					f, ok := v.(*ssa.Field)
					if ok {
						return f.X.Type().Underlying().(*types.Struct).Field(f.Field).Name() == cnt
					}
					u, ok := v.(*ssa.UnOp)
					return ok && u.Op == token.MUL && readsField("Header", cnt)(u.X)
				}
				lo, hi, hasLo, hasHi := intervalAt(fn, rp.Block, isCnt)
				if !hasHi {
					pCnt = append(pCnt, fmt.Sprintf("%s: a message is accepted with unbounded %s", c.pos(rp.Pos), cnt))
				} else if cnt == "Qdcount" && !(hasLo && lo == 1 && hi == 1) {
					pCnt = append(pCnt, fmt.Sprintf("%s: accepted QDCOUNT range is [%d,%d], want exactly 1", c.pos(rp.Pos), lo, hi))
				} else {
					r.extra["accept_"+cnt+"_max"] = hi
				}
			}
		}
	}
	if nAccept == 0 {
		pCnt = append(pCnt, "MsgAccept is never returned")
	}
	if nNotImp == 0 {
		pOp = append(pOp, "MsgRejectNotImplemented is never returned")
	}
	// the Accept/Reject returns are unreachable when opcode is neither QUERY nor NOTIFY: the NOTIMP block's two guards dominate it only;
	// conversely every non-NOTIMP, non-Ignore return must be separated from the both-unequal region
	for _, rp := range returnPoints(fn, 0) {
		k, _ := constIntOf(rp.Results[0])
		if k == notimp || k == ignore {
			continue
		}
		both := 0
		for _, op := range []int64{opQuery, opNotify} {
			if len(guardsMissing(fn, rp.Block, []Guard{{Op: "eq", A: isOpcode, B: isConstInt(op), Holds: false}})) == 0 {
				both++
			}
		}
		if both == 2 {
			pOp = append(pOp, fmt.Sprintf("%s: action %d returned for an opcode that is neither QUERY nor NOTIFY", c.pos(rp.Pos), k))
		}
	}
	r.check(len(pQR) == 0, "C14.R3.policy", "defaultMsgAcceptFunc:qr-first", c.pos(fn.Pos()), "QR (bit 15) tested before any other verdict", "%s", strings.Join(pQR, "; "))
	r.check(len(pOp) == 0, "C14.R3.policy", "defaultMsgAcceptFunc:opcode", c.pos(fn.Pos()), "NOTIMP iff opcode not in {0,4}", "%s", strings.Join(pOp, "; "))
	r.check(len(pCnt) == 0, "C14.R3.policy", "defaultMsgAcceptFunc:counts", c.pos(fn.Pos()), "QDCOUNT==1, other counts bounded", "%s", strings.Join(pCnt, "; "))
	// enumerated reachability check of NOTIMP: on every path where both opcode tests are unequal the result is NOTIMP (or Ignore)
	var pEx []string
	enumPaths(fn, 2000, func(path []pathStep, ret *ssa.Return) {
		facts := pathFacts(path)
		if pathHas(facts, Guard{Op: "eq", A: isOpcode, B: isConstInt(opQuery), Holds: false}) && pathHas(facts, Guard{Op: "eq", A: isOpcode, B: isConstInt(opNotify), Holds: false}) {
			res := unspill(ret.Block(), ret)
			if k, ok := constIntOf(res[0]); ok && k != notimp && k != ignore {
				pEx = append(pEx, fmt.Sprintf("path ending at %s returns %d for an unsupported opcode", c.pos(ret.Pos()), k))
			}
		}
	})
	r.check(len(pEx) == 0, "C14.R3.policy", "defaultMsgAcceptFunc:notimp-paths", c.pos(fn.Pos()), "all unsupported-opcode paths yield NOTIMP", "%s", strings.Join(pEx, "; "))
}

func c14R4(c *Ctx, r *Report) {
	r.rule("C14.R4.reply-skeleton", 4, "SetReply/SetRcodeFormatError/SetRcode/handleRefused effect summaries")
	fromReq := func(fn *ssa.Function, field string) vpred {
		return func(v ssa.Value) bool {
			u, ok := v.(*ssa.UnOp)
			if !ok || u.Op != token.MUL {
				return false
			}
			fa, ok := u.X.(*ssa.FieldAddr)
			if !ok {
				return false
			}
			if !(readsField("Msg", field)(fa) || readsField("MsgHdr", field)(fa)) {
				return false
			}
			return anyIn(sliceOf(fa.X), func(x ssa.Value) bool { return len(fn.Params) > 1 && x == fn.Params[1] })
		}
	}
	storeTo := func(fn *ssa.Function, field string) []*ssa.Store {
		var out []*ssa.Store
		for _, st := range append(storesToField(fn, "Msg", field), storesToField(fn, "MsgHdr", field)...) {
			if anyIn(sliceOf(st.Addr), func(x ssa.Value) bool { return x == fn.Params[0] }) {
				out = append(out, st)
			}
		}
		return out
	}
	if fn := c.ssaFunc("Msg.SetReply"); fn == nil {
		r.cerr("C14.R4.reply-skeleton", "Msg.SetReply", "function not found")
	} else {
		r.fn("Msg.SetReply")
		var problems []string
		need := func(field string, p vpred, what string) {
			sts := storeTo(fn, field)
			ok := false
			for _, st := range sts {
				if p(st.Val) || anyIn(shallowOrigins(st.Val), p) {
					// unconditional: dominates every return
					all := true
					for _, rp := range returnPoints(fn, 0) {
						if !(st.Block() == rp.Block || st.Block().Dominates(rp.Block)) {
							all = false
						}
					}
					if all {
						ok = true
					}
				}
			}
			if !ok {
				problems = append(problems, what)
			}
		}
		need("Id", fromReq(fn, "Id"), "the reply's ID is not unconditionally the request's ID")
		need("Response", func(v ssa.Value) bool { b, ok := constBool(v); return ok && b }, "QR is not unconditionally set")
		need("Opcode", fromReq(fn, "Opcode"), "the opcode is not copied from the request")
		opQuery, _ := c.constInt("OpcodeQuery")
		for _, bit := range []string{"RecursionDesired", "CheckingDisabled"} {
			ok := false
			for _, st := range storeTo(fn, bit) {
				if fromReq(fn, bit)(st.Val) {
					if len(guardsMissing(fn, st.Block(), []Guard{{Op: "eq", A: func(v ssa.Value) bool {
						u, ok := v.(*ssa.UnOp)
						return ok && u.Op == token.MUL && (readsField("Msg", "Opcode")(u.X) || readsField("MsgHdr", "Opcode")(u.X))
					}, B: isConstInt(opQuery), Holds: true}})) == 0 {
						ok = true
					}
				}
			}
			if !ok {
				problems = append(problems, bit+" is not copied from the request on the opcode==QUERY edge")
			}
		}
		// question: first question of the request when present
		okQ := false
		for _, st := range storeTo(fn, "Question") {
			s := sliceOf(st.Val)
			if anyIn(s, func(v ssa.Value) bool {
				ia, ok := v.(*ssa.IndexAddr)
				if !ok {
					return false
				}
				k, isK := constIntOf(ia.Index)
				return isK && k == 0 && anyIn(sliceOf(ia.X), fromReq(fn, "Question"))
			}) {
				if len(guardsMissing(fn, st.Block(), []Guard{{Op: "lt", A: isConstInt(0), B: callsFunc("builtin.len"), Holds: true}})) == 0 {
					okQ = true
				}
			}
		}
		if !okQ {
			problems = append(problems, "the first question is not echoed on the len(Question) > 0 edge")
		}
		r.check(len(problems) == 0, "C14.R4.reply-skeleton", "Msg.SetReply", c.pos(fn.Pos()), "Id, QR, opcode, RD/CD, question", "%s", strings.Join(problems, "; "))
	}
	if fn := c.ssaFunc("Msg.SetRcodeFormatError"); fn == nil {
		r.cerr("C14.R4.reply-skeleton", "Msg.SetRcodeFormatError", "function not found")
	} else {
		r.fn("Msg.SetRcodeFormatError")
		var problems []string
		okId, okQR, okRc := false, false, false
		rcFmt, _ := c.constInt("RcodeFormatError")
		for _, st := range storeTo(fn, "Id") {
			if fromReq(fn, "Id")(st.Val) {
				okId = true
			}
		}
		for _, st := range storeTo(fn, "Response") {
			if b, ok := constBool(st.Val); ok && b {
				okQR = true
			}
		}
		for _, st := range storeTo(fn, "Rcode") {
			if k, ok := constIntOf(st.Val); ok && k == rcFmt {
				okRc = true
			}
		}
		if !okId {
			problems = append(problems, "ID not copied from the request")
		}
		if !okQR {
			problems = append(problems, "QR not set")
		}
		if !okRc {
			problems = append(problems, "RCODE is not FORMERR")
		}
		r.check(len(problems) == 0, "C14.R4.reply-skeleton", "Msg.SetRcodeFormatError", c.pos(fn.Pos()), "Id, QR, FORMERR", "%s", strings.Join(problems, "; "))
	}
	if fn := c.ssaFunc("Msg.SetRcode"); fn == nil {
		r.cerr("C14.R4.reply-skeleton", "Msg.SetRcode", "function not found")
	} else {
		r.fn("Msg.SetRcode")
		var problems []string
		calls := callsIn(fn, "(Msg).SetReply")
		if len(calls) != 1 || calls[0].Common().Args[0] != fn.Params[0] || calls[0].Common().Args[1] != fn.Params[1] {
			problems = append(problems, "does not build the reply through SetReply(request)")
		}
		okRc := false
		for _, st := range storeTo(fn, "Rcode") {
			if st.Val == fn.Params[2] && len(calls) == 1 && precedes(calls[0].(ssa.Instruction), st) {
				okRc = true
			}
		}
		if !okRc {
			problems = append(problems, "the requested RCODE is not stored after SetReply")
		}
		r.check(len(problems) == 0, "C14.R4.reply-skeleton", "Msg.SetRcode", c.pos(fn.Pos()), "SetReply then Rcode", "%s", strings.Join(problems, "; "))
	}
	if fn := c.ssaFunc("handleRefused"); fn == nil {
		r.cerr("C14.R4.reply-skeleton", "handleRefused", "function not found")
	} else {
		r.fn("handleRefused")
		var problems []string
		refused, _ := c.constInt("RcodeRefused")
		calls := callsIn(fn, "(Msg).SetRcode")
		if len(calls) != 1 {
			problems = append(problems, "does not call SetRcode")
		} else {
			a := calls[0].Common().Args
			if a[1] != fn.Params[1] {
				problems = append(problems, "the REFUSED reply is not built from the request")
			}
			if k, ok := constIntOf(a[2]); !ok || k != refused || refused != 5 {
				problems = append(problems, fmt.Sprintf("RCODE is %v, REFUSED is 5", a[2]))
			}
			ws := 0
			allInstrs(fn, func(in ssa.Instruction) {
				if call, ok := in.(*ssa.Call); ok && call.Call.IsInvoke() && call.Call.Method.Name() == "WriteMsg" && call.Call.Args[0] == a[0] {
					ws++
				}
			})
			if ws != 1 {
				problems = append(problems, "the reply is not written exactly once")
			}
		}
		r.check(len(problems) == 0, "C14.R4.reply-skeleton", "handleRefused", c.pos(fn.Pos()), "SetRcode(r, REFUSED); WriteMsg", "%s", strings.Join(problems, "; "))
	}
}

func c14R5(c *Ctx, r *Report) {
	r.rule("C14.R5.mux-lock", 4, "ServeMux.z is read under the lock and written under the write lock")
	r.rule("C14.R5.mux-keys", 4, "patterns are stored, removed and looked up under CanonicalName; the walk uses NextLabel suffixes; DS continues; root last; REFUSED on nil")
	muxT := c.named("ServeMux")
	if muxT == nil {
		r.cerr("C14.R5.mux-lock", "ServeMux", "type not found")
		return
	}
	ms := c.Prog.MethodSets.MethodSet(types.NewPointer(muxT))
	counter := map[string]int{}
	// an unexported method called by the other methods with the lock held starts with the weakest state among its calls
	first := map[*ssa.Function]*lockInfo{}
	var methods []*ssa.Function
	for i := 0; i < ms.Len(); i++ {
		f := c.Prog.MethodValue(ms.At(i))
		if f == nil || f.Synthetic != "" || len(f.Blocks) == 0 {
			continue
		}
		methods = append(methods, f)
		first[f] = computeLocks(f, "ServeMux", "m", lkNone)
	}
	entryOf := func(g *ssa.Function) int {
		if g.Object() == nil || g.Object().Exported() {
			return lkNone
		}
		entry, n := lkW, 0
		for _, f := range methods {
			if f == g {
				continue
			}
			allInstrs(f, func(in ssa.Instruction) {
				if ci, ok := in.(ssa.CallInstruction); ok && ci.Common().StaticCallee() == g {
					n++
					if _, isGo := in.(*ssa.Go); isGo {
						entry = lkNone
					}
					if st := first[f].at[in]; st < entry {
						entry = st
					}
				}
			})
		}
		if n == 0 {
			return lkNone
		}
		return entry
	}
	for _, f := range methods {
		li := first[f]
		if e := entryOf(f); e != lkNone {
			li = computeLocks(f, "ServeMux", "m", e)
		}
		allInstrs(f, func(in ssa.Instruction) {
			isZ := func(v ssa.Value) bool {
				u, ok := v.(*ssa.UnOp)
				return ok && u.Op == token.MUL && readsField("ServeMux", "z")(u.X)
			}
			var kind string
			need := lkR
			switch t := in.(type) {
			case *ssa.UnOp:
				if t.Op == token.MUL && readsField("ServeMux", "z")(t.X) {
					kind = "read"
				}
			case *ssa.Store:
				if readsField("ServeMux", "z")(t.Addr) {
					kind, need = "write", lkW
				}
			case *ssa.MapUpdate:
				if isZ(t.Map) {
					kind, need = "map-update", lkW
				}
			case *ssa.Lookup:
				if isZ(t.X) {
					kind = "lookup"
				}
			case *ssa.Call:
				if calleeNameSSA(&t.Call) == "builtin.delete" && isZ(t.Call.Args[0]) {
					kind, need = "delete", lkW
				}
			}
			if kind == "" {
				return
			}
			key := fnDisplay(f) + ":" + kind
			counter[key]++
			r.fn(fnDisplay(f))
			st := li.at[in]
			r.check(st >= need, "C14.R5.mux-lock", fmt.Sprintf("%s#%d", key, counter[key]), c.pos(in.Pos()), lkName(st), "%s of ServeMux.z with %s, needs the %s", kind, lkName(st), lkName(need))
		})
		// pairing
		if li.touches {
			var problems []string
			problems = append(problems, li.events...)
			for _, b := range f.Blocks {
				if ret, ok := b.Instrs[len(b.Instrs)-1].(*ssa.Return); ok && li.at[ret] != lkNone && !li.defers {
					problems = append(problems, fmt.Sprintf("%s: returns with the %s held", c.pos(ret.Pos()), lkName(li.at[ret])))
				}
			}
			r.check(len(problems) == 0, "C14.R5.mux-lock", fnDisplay(f)+":pairing", c.pos(f.Pos()), "released on every path", "%s", strings.Join(problems, "; "))
		}
	}
	isCanon := func(v ssa.Value) bool {
		call, ok := v.(*ssa.Call)
		return ok && calleeNameSSA(&call.Call) == "CanonicalName"
	}
	for _, name := range []string{"ServeMux.Handle", "ServeMux.HandleRemove"} {
		f := c.ssaFunc(name)
		if f == nil {
			r.cerr("C14.R5.mux-keys", name, "function not found")
			continue
		}
		var problems []string
		n := 0
		allInstrs(f, func(in ssa.Instruction) {
			var key ssa.Value
			switch t := in.(type) {
			case *ssa.MapUpdate:
				key = t.Key
			case *ssa.Call:
				if calleeNameSSA(&t.Call) == "builtin.delete" {
					key = t.Call.Args[1]
				}
			}
			if key == nil {
				return
			}
			n++
			if !isCanon(key) || key.(*ssa.Call).Call.Args[0] != f.Params[1] {
				problems = append(problems, fmt.Sprintf("%s: table key is %v, not CanonicalName(pattern)", c.pos(in.Pos()), key))
			}
		})
		if n == 0 {
			problems = append(problems, "no table update")
		}
		r.check(len(problems) == 0, "C14.R5.mux-keys", name, c.pos(f.Pos()), "CanonicalName(pattern)", "%s", strings.Join(problems, "; "))
	}
	if f := c.ssaFunc("ServeMux.match"); f == nil {
		r.cerr("C14.R5.mux-keys", "ServeMux.match", "function not found")
	} else {
		var problems []string
		var canon ssa.Value
		for _, ci := range callsIn(f, "CanonicalName") {
			if ci.Common().Args[0] == f.Params[1] {
				canon = ci.Value()
			}
		}
		// the walk may live in a helper match calls with the canonical name and the type (and the lock held)
		wf, tP := f, ssa.Value(f.Params[2])
		hasLookup := func(g *ssa.Function) bool {
			found := false
			allInstrs(g, func(in ssa.Instruction) {
				if lk, ok := in.(*ssa.Lookup); ok {
					if _, isMap := lk.X.Type().Underlying().(*types.Map); isMap {
						found = true
					}
				}
			})
			return found
		}
		if g := calleeWith(f, hasLookup); g != nil && g != f {
			for _, ci := range callsInFn(f, g) {
				for i, a := range ci.Common().Args {
					if i >= len(g.Params) {
						continue
					}
					if canon != nil && a == canon {
						canon = g.Params[i]
						wf = g
					}
					if a == ssa.Value(f.Params[2]) {
						tP = g.Params[i]
					}
				}
			}
			if wf != g {
				problems = append(problems, fmt.Sprintf("%s is not handed the canonical question name", fnDisplay(g)))
			}
			r.fn(fnDisplay(g))
		}
		if canon == nil {
			problems = append(problems, "the question name is not canonicalised")
		}
		typeDS, _ := c.constInt("TypeDS")
		nSuffix, nRoot := 0, 0
		var rootLookup ssa.Instruction
		allInstrs(wf, func(in ssa.Instruction) {
			lk, ok := in.(*ssa.Lookup)
			if !ok {
				return
			}
			if _, isMap := lk.X.Type().Underlying().(*types.Map); !isMap {
				return
			}
			if sl, ok := lk.Index.(*ssa.Slice); ok {
				nSuffix++
				if sl.X != canon || sl.High != nil || sl.Low == nil {
					problems = append(problems, fmt.Sprintf("%s: lookup key is not a suffix q[off:] of the canonical name", c.pos(lk.Pos())))
				} else if !anyIn(sliceOf(sl.Low), callsExtract("NextLabel")) {
					problems = append(problems, fmt.Sprintf("%s: the suffix offset does not advance with NextLabel (label boundaries)", c.pos(lk.Pos())))
				}
				return
			}
			if cst, ok := lk.Index.(*ssa.Const); ok && cst.Value != nil && cst.Value.ExactString() == `"."` {
				nRoot++
				rootLookup = lk
				return
			}
			problems = append(problems, fmt.Sprintf("%s: unexpected lookup key %v", c.pos(lk.Pos()), lk.Index))
		})
		if nSuffix != 1 || nRoot != 1 {
			problems = append(problems, fmt.Sprintf("%d suffix lookups and %d root lookups, expected one each", nSuffix, nRoot))
		}
		// returns: a handler found in the walk is returned early only on t != DS; the root lookup is not inside the loop
		// the ways the function hands back a handler: its return statements, and, where the results of several of them
		// are merged in front of one return (a result variable), the values merged with the blocks they come from
		type vret struct {
			res ssa.Value
			blk *ssa.BasicBlock
			ret *ssa.Return
		}
		var vrets []vret
		resultMerge := map[*ssa.Phi]bool{}
		var expandRet func(v ssa.Value, blk *ssa.BasicBlock, ret *ssa.Return, depth int)
		expandRet = func(v ssa.Value, blk *ssa.BasicBlock, ret *ssa.Return, depth int) {
			inLoop := func(b *ssa.BasicBlock) bool {
				for _, sx := range b.Succs {
					if reach(sx, nil, nil)[b] {
						return true
					}
				}
				return false
			}
			// a merge inside the walk (the remembered handler joined with the one just found, when the walk leaves
			// through a break) is the remembered handler, like the merge at the loop head
			if phi, isPhi := v.(*ssa.Phi); isPhi && depth < 4 && !backTarget(wf, phi.Block()) && !(inLoop(phi.Block()) && !inLoop(ret.Block())) {
				resultMerge[phi] = true
				for i, e := range phi.Edges {
					expandRet(e, phi.Block().Preds[i], ret, depth+1)
				}
				return
			}
			vrets = append(vrets, vret{v, blk, ret})
		}
		for _, b := range wf.Blocks {
			if ret, ok := b.Instrs[len(b.Instrs)-1].(*ssa.Return); ok {
				expandRet(unspill(b, ret)[0], b, ret, 0)
			}
		}
		for _, vr := range vrets {
			blk, ret, res := vr.blk, vr.ret, vr.res
			if _, isPhi := res.(*ssa.Phi); isPhi {
				// the handler remembered during a DS walk: a registered root pattern is the parent of every zone, so it
				// must be preferred; the remembered child is returned only when the root lookup missed
				rootMissed := Guard{Name: "root pattern not registered", Op: "val", A: func(v ssa.Value) bool {
					e, ok := v.(*ssa.Extract)
					if !ok || e.Index != 1 {
						return false
					}
					lk, ok := e.Tuple.(*ssa.Lookup)
					if !ok {
						return false
					}
					cst, ok := lk.Index.(*ssa.Const)
					return ok && cst.Value != nil && cst.Value.ExactString() == `"."`
				}, Holds: false}
				if miss := guardsMissing(wf, ret.Block(), []Guard{rootMissed}); len(miss) > 0 && len(guardsMissing(wf, blk, []Guard{rootMissed})) > 0 {
					problems = append(problems, fmt.Sprintf("%s: the handler remembered for a DS query is returned although the root pattern may be registered (the parent must win)", c.pos(ret.Pos())))
				}
				continue
			}
			e, ok := res.(*ssa.Extract)
			if !ok {
				continue // nil
			}
			lk, ok := e.Tuple.(*ssa.Lookup)
			if !ok {
				continue
			}
			if _, isSl := lk.Index.(*ssa.Slice); !isSl {
				continue // the root lookup
			}
			// a zone match is returned at once when the type is not DS, or when it was found above the name itself
			// (that zone holds the DS); only a match at the name itself is remembered while the walk looks for a parent
			for _, p := range blk.Preds {
				fs := factsAt(wf, p)
				if ef, ok := edgeFact(p, blk); ok {
					fs = append(fs, ef)
				}
				notDS, above := false, false
				for _, fc := range fs {
					if matchGuard(fc, Guard{Op: "eq", A: func(v ssa.Value) bool { return v == tP }, B: isConstInt(typeDS), Holds: false}) {
						notDS = true
					}
					if lo, _, hasLo, _ := intervalFromFact(fc, func(v ssa.Value) bool {
						_, isPhi := v.(*ssa.Phi)
						return isPhi && anyIn(sliceOf(sl0Low(lk)), isValue(v))
					}); hasLo && lo >= 1 {
						above = true
					}
				}
				if !notDS && !above {
					problems = append(problems, fmt.Sprintf("%s: a zone match at the name itself is returned at once for a DS query (DS must go on to the parent)", c.pos(ret.Pos())))
				}
			}
		}
		// the handler remembered for a DS query is a match at the name itself (offset 0) only: a match further up is the
		// zone that holds the DS and must be returned, not overwritten by ancestors further up still
		allInstrs(wf, func(in ssa.Instruction) {
			phi, ok := in.(*ssa.Phi)
			if !ok || resultMerge[phi] {
				return
			}
			for i, e := range phi.Edges {
				ex, ok := e.(*ssa.Extract)
				if !ok || ex.Index != 0 {
					continue
				}
				lk, ok := ex.Tuple.(*ssa.Lookup)
				if !ok {
					continue
				}
				if _, isSl := lk.Index.(*ssa.Slice); !isSl {
					continue
				}
				pred := phi.Block().Preds[i]
				offPhi := func(v ssa.Value) bool {
					_, isPhi := v.(*ssa.Phi)
					return isPhi && anyIn(sliceOf(sl0Low(lk)), isValue(v))
				}
				_, hi, _, hasHi := intervalAt(wf, pred, offPhi)
				if ef, ok := edgeFact(pred, phi.Block()); ok {
					if _, h2, _, has2 := intervalFromFact(ef, offPhi); has2 && (!hasHi || h2 < hi) {
						hi, hasHi = h2, true
					}
				}
				if !hasHi || hi > 0 {
					problems = append(problems, fmt.Sprintf("%s: for a DS query every further match overwrites the remembered handler: the top-most registered ancestor (and then a registered root) wins, not the enclosing parent zone", c.pos(lk.Pos())))
				}
			}
		})
		if rootLookup != nil {
			// the root lookup is outside the walk: its block is not inside a cycle through the suffix lookup
			var sfx ssa.Instruction
			allInstrs(wf, func(in ssa.Instruction) {
				if lk, ok := in.(*ssa.Lookup); ok {
					if _, isSl := lk.Index.(*ssa.Slice); isSl {
						sfx = lk
					}
				}
			})
			if sfx != nil && reach(rootLookup.Block(), nil, nil)[sfx.Block()] {
				problems = append(problems, "the root pattern is consulted inside the walk, not as the last resort")
			}
		}
		r.check(len(problems) == 0, "C14.R5.mux-keys", "ServeMux.match", c.pos(f.Pos()), "canonical suffix walk, DS continues, root last", "%s", strings.Join(problems, "; "))
	}
	if f := c.ssaFunc("ServeMux.ServeDNS"); f == nil {
		r.cerr("C14.R5.mux-keys", "ServeMux.ServeDNS", "function not found")
	} else {
		r.fn("ServeMux.ServeDNS")
		var problems []string
		refs := callsIn(f, "handleRefused")
		if len(refs) != 1 {
			problems = append(problems, fmt.Sprintf("%d handleRefused calls", len(refs)))
		} else {
			isH := func(v ssa.Value) bool {
				return anyIn(sliceOf(v), callsFunc("(ServeMux).match"))
			}
			if miss := guardsMissing(f, refs[0].Block(), []Guard{{Name: "h == nil", Op: "eq", A: isH, B: isNilConst, Holds: true}}); len(miss) > 0 {
				problems = append(problems, "REFUSED is not sent exactly on the no-handler edge")
			}
		}
		allInstrs(f, func(in ssa.Instruction) {
			call, ok := in.(*ssa.Call)
			if ok && call.Call.IsInvoke() && call.Call.Method.Name() == "ServeDNS" {
				if miss := guardsMissing(f, in.Block(), []Guard{{Name: "h != nil", Op: "eq", A: func(v ssa.Value) bool { return v == call.Call.Value }, B: isNilConst, Holds: false}}); len(miss) > 0 {
					problems = append(problems, "handler invoked without the nil test")
				}
			}
		})
		// match is called with Question[0].Name and Qtype
		for _, m := range callsIn(f, "(ServeMux).match") {
			a := m.Common().Args
			if !anyIn(sliceOf(a[1]), readsField("Question", "Name")) || !anyIn(sliceOf(a[2]), readsField("Question", "Qtype")) {
				problems = append(problems, "match is not given the first question's name and type")
			}
		}
		r.check(len(problems) == 0, "C14.R5.mux-keys", "ServeMux.ServeDNS", c.pos(f.Pos()), "match(first question) else REFUSED", "%s", strings.Join(problems, "; "))
	}
}

// c14PoolSlice: the receive buffer is returned to the pool re-sliced to the pool's element size,
// m[:srv.UDPSize]. A DecorateReader may hand serveDNS a buffer of any capacity, so each such re-slice must be
// behind cap(m) == srv.UDPSize; without it the slice expression panics for every message that takes that way out
// (ignored, rejected or undecodable datagrams). This is the one bounds obligation of the per-message function that
// depends on configuration rather than on the message, and the three sites are siblings.
func c14PoolSlice(c *Ctx, r *Report) {
	r.rule("C14.R1.pool-slice", 1, "every m[:srv.UDPSize] handed back to the buffer pool is behind cap(m) == srv.UDPSize")
	n := 0
	for _, name := range []string{"Server.serveUDP", "Server.serveDNS", "Server.serveUDPPacket"} {
		fn := c.ssaFunc(name)
		if fn == nil {
			continue
		}
		allInstrs(fn, func(in ssa.Instruction) {
			sl, ok := in.(*ssa.Slice)
			if !ok || sl.High == nil || !anyIn(sliceOf(sl.High), readsField("Server", "UDPSize")) {
				return
			}
			if _, isBytes := sl.X.Type().Underlying().(*types.Slice); !isBytes {
				return
			}
			n++
			construct := fmt.Sprintf("%s:m[:UDPSize]#%d", name, n)
			capOf := func(v ssa.Value) bool {
				call, ok := v.(*ssa.Call)
				return ok && calleeNameSSA(&call.Call) == "builtin.cap" && call.Call.Args[0] == sl.X
			}
			miss := guardsMissing(fn, sl.Block(), []Guard{{Name: "cap(m) == srv.UDPSize", Op: "eq", A: capOf, B: readsField("Server", "UDPSize"), Holds: true}})
			// a buffer that came out of the pool in this very function has the pool's size
			fromPool := anyIn(shallowOrigins(sl.X), func(v ssa.Value) bool {
				ta, ok := v.(*ssa.TypeAssert)
				if !ok {
					return false
				}
				call, ok := ta.X.(*ssa.Call)
				return ok && calleeNameSSA(&call.Call) == "(sync.Pool).Get"
			})
			r.check(len(miss) == 0 || fromPool, "C14.R1.pool-slice", construct, c.pos(sl.Pos()), "cap(m) == srv.UDPSize", "the buffer is re-sliced to srv.UDPSize without cap(m) == srv.UDPSize having been tested: with a DecorateReader that returns its own, smaller buffer this slice expression panics for every datagram that leaves through here (ignored, rejected, undecodable): the server goes down on a malformed packet")
		})
	}
	if n == 0 {
		r.note("C14.R1.pool-slice: no m[:srv.UDPSize] re-slice found")
		r.ok("C14.R1.pool-slice", "no re-slice", "", "no m[:srv.UDPSize] expression in the serve functions: nothing that could panic")
	}
}

// sl0Low: the low bound (offset) of a q[off:] map key.
func sl0Low(lk *ssa.Lookup) ssa.Value {
	if sl, ok := lk.Index.(*ssa.Slice); ok && sl.Low != nil {
		return sl.Low
	}
	return lk.Index
}
