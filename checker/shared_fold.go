package main

import (
	"fmt"
	"go/token"
	"go/types"
	"strings"

	"golang.org/x/tools/go/ssa"
)

// foldRangeRule: a function that lower-cases ASCII by adding 32 does so for exactly the octets 'A'..'Z': the
// interval of the character value on the edge that reaches the addition is [65, 90]. Recognises both
// `c >= 'A' && c <= 'Z'` and the single unsigned comparison `c-'A' <= 'Z'-'A'`.
func foldRangeRule(c *Ctx, r *Report, rule, fname, consequence string) {
	foldRangeRuleDir(c, r, rule, fname, consequence, false)
}

// foldRangeRuleDir: upper=true is the mirror image: exactly 'a'..'z' get 32 subtracted.
func foldRangeRuleDir(c *Ctx, r *Report, rule, fname, consequence string, upper bool) {
	wantLo, wantHi := int64('A'), int64('Z')
	if upper {
		wantLo, wantHi = 'a', 'z'
	}
	fn := c.ssaFunc(fname)
	if fn == nil {
		r.cerr(rule, fname, "function not found")
		return
	}
	r.fn(fname)
	n := 0
	var problems []string
	var fns []*ssa.Function
	seenFn := map[*ssa.Function]bool{}
	var collect func(f *ssa.Function, depth int)
	collect = func(f *ssa.Function, depth int) {
		if f == nil || seenFn[f] || depth > 2 || len(f.Blocks) == 0 || f.Pkg != fn.Pkg {
			return
		}
		seenFn[f] = true
		for _, a := range withAnon(f) {
			fns = append(fns, a)
			allInstrs(a, func(in ssa.Instruction) {
				if ci, ok := in.(ssa.CallInstruction); ok {
					collect(ci.Common().StaticCallee(), depth+1)
				}
			})
		}
	}
	collect(fn, 0)
	for _, f := range fns {
		allInstrs(f, func(in ssa.Instruction) {
			add, ok := in.(*ssa.BinOp)
			if !ok || (!upper && add.Op != token.ADD && add.Op != token.OR) || (upper && add.Op != token.SUB && add.Op != token.AND_NOT) {
				return
			}
			k, isK := constIntOf(add.Y)
			if !isK || k != 32 {
				return
			}
			bt, ok := add.X.Type().Underlying().(*types.Basic)
			if !ok || (bt.Kind() != types.Uint8 && bt.Kind() != types.Int32) {
				return
			}
			n++
			x := add.X
			if bt.Kind() == types.Int32 {
				problems = append(problems, fmt.Sprintf("%s: the fold works on runes (strings.Map / range over a string): an octet above 0x7f that is not valid UTF-8 is replaced by U+FFFD, so the folded name is a different name; DNS names are folded octet by octet (RFC 4343)", c.pos(add.Pos())))
			}
			lo, hi := charInterval(f, add.Block(), func(v ssa.Value) bool { return sameChar(v, x) })
			if lo != wantLo || hi != wantHi {
				show := func(v int64) string {
					if v >= 32 && v < 127 {
						return fmt.Sprintf("%q", rune(v))
					}
					return fmt.Sprint(v)
				}
				problems = append(problems, fmt.Sprintf("%s: the octets that get 32 added (subtracted) are %s..%s, not %s..%s: %s", c.pos(add.Pos()), show(lo), show(hi), show(wantLo), show(wantHi), consequence))
			}
		})
	}
	// a fast path that looks for the first letter to fold before copying: the copy is reached for every octet in
	// 'A'..'Z' (the octets skipped on the way to `return s` are never upper-case letters)
	for _, f := range fns {
		allInstrs(f, func(in ssa.Instruction) {
			cv, ok := in.(*ssa.Convert)
			if !ok {
				return
			}
			if _, isSl := cv.Type().Underlying().(*types.Slice); !isSl {
				return
			}
			if bt, ok := cv.X.Type().Underlying().(*types.Basic); !ok || bt.Info()&types.IsString == 0 {
				return
			}
			isChar := func(v ssa.Value) bool {
				switch t := v.(type) {
				case *ssa.Index:
					return t.X == cv.X
				case *ssa.Lookup:
					return t.X == cv.X
				}
				return false
			}
			lo, hi := charInterval(f, cv.Block(), isChar)
			if lo > wantLo || hi < wantHi {
				show := func(v int64) string {
					if v >= 32 && v < 127 {
						return fmt.Sprintf("%q", rune(v))
					}
					return fmt.Sprint(v)
				}
				problems = append(problems, fmt.Sprintf("%s: the copy that is folded is only made when an octet in %s..%s is found; a name whose only capitals lie outside that range is returned as it is: %s", c.pos(cv.Pos()), show(lo), show(hi), consequence))
			}
		})
	}
	if n == 0 {
		r.undecided(rule, fname, c.pos(fn.Pos()), "%s does not lower-case by adding 32 to a byte or rune; its case folding cannot be recognised", fname)
		return
	}
	r.check(len(problems) == 0, rule, fname, c.pos(fn.Pos()), fmt.Sprintf("exactly %q..%q folded", rune(wantLo), rune(wantHi)), "%s", strings.Join(problems, "; "))
}

// charInterval: the interval of the character (a value accepted by isChar) on the edges that dominate blk, from
// direct comparisons with constants and from the unsigned idiom (c - K) <op> M.
func charInterval(f *ssa.Function, blk *ssa.BasicBlock, isChar func(ssa.Value) bool) (lo, hi int64) {
	lo, hi = int64(-1), int64(1<<40)
	for _, fc := range factsAt(f, blk) {
		cmp, ok := fc.Atom.(*ssa.BinOp)
		if !ok {
			continue
		}
		l, h, hasL, hasH := intervalFromFact(fc, isChar)
		if hasL && l > lo {
			lo = l
		}
		if hasH && h < hi {
			hi = h
		}
		sub, isSub := cmp.X.(*ssa.BinOp)
		if !isSub || sub.Op != token.SUB || !isChar(sub.X) {
			continue
		}
		kk, isKK := constIntOf(sub.Y)
		st, okT := sub.Type().Underlying().(*types.Basic)
		if !isKK || !okT || st.Info()&types.IsUnsigned == 0 {
			continue
		}
		_, h2, _, hasH2 := intervalFromFact(fc, func(v ssa.Value) bool { return v == ssa.Value(sub) })
		if hasH2 {
			if kk > lo {
				lo = kk
			}
			if kk+h2 < hi {
				hi = kk + h2
			}
		}
	}
	return lo, hi
}

// sameChar: the same character value: identical, structurally equal, or two loads of the same element b[i]
// (the only store between them in the folding functions is the fold itself).
func sameChar(a, b ssa.Value) bool {
	if a == b || sameExpr(a, b) {
		return true
	}
	la, oka := a.(*ssa.UnOp)
	lb, okb := b.(*ssa.UnOp)
	if !oka || !okb || la.Op != token.MUL || lb.Op != token.MUL {
		return false
	}
	ia, oka := la.X.(*ssa.IndexAddr)
	ib, okb := lb.X.(*ssa.IndexAddr)
	return oka && okb && ia.X == ib.X && (ia.Index == ib.Index || sameExpr(ia.Index, ib.Index))
}
