package main

// E9 — bit-provenance abstract interpretation: for an integer SSA value, which bit of which designated
// leaf (or which constant) each of its bits equals. Decides shift/mask/byte-order agreement between
// packers and unpackers without executing anything.

import (
	"fmt"
	"go/constant"
	"go/token"
	"go/types"
	"strings"

	"golang.org/x/tools/go/ssa"
)

const (
	bZero = iota
	bOne
	bLeaf
	bUnknown
)

type bitSrc struct {
	Kind uint8
	Leaf int
	Bit  int
}

type bitVec [64]bitSrc

func (b bitSrc) String() string {
	switch b.Kind {
	case bZero:
		return "0"
	case bOne:
		return "1"
	case bLeaf:
		return fmt.Sprintf("L%d[%d]", b.Leaf, b.Bit)
	}
	return "?"
}

// describe renders a vector compactly as runs.
func (v bitVec) describe(width int, leafNames []string) string {
	var parts []string
	i := 0
	for i < width {
		j := i
		b := v[i]
		for j+1 < width {
			n := v[j+1]
			if n.Kind != b.Kind {
				break
			}
			if b.Kind == bLeaf && (n.Leaf != b.Leaf || n.Bit != v[j].Bit+1) {
				break
			}
			j++
		}
		switch b.Kind {
		case bZero:
			parts = append(parts, fmt.Sprintf("[%d..%d]=0", i, j))
		case bOne:
			parts = append(parts, fmt.Sprintf("[%d..%d]=1", i, j))
		case bLeaf:
			name := fmt.Sprintf("L%d", b.Leaf)
			if b.Leaf < len(leafNames) {
				name = leafNames[b.Leaf]
			}
			parts = append(parts, fmt.Sprintf("[%d..%d]=%s[%d..%d]", i, j, name, b.Bit, v[j].Bit))
		default:
			parts = append(parts, fmt.Sprintf("[%d..%d]=?", i, j))
		}
		i = j + 1
	}
	return strings.Join(parts, " ")
}

type bitEnv struct {
	// leafOf identifies designated leaves; returns the leaf id and its width in bits.
	leafOf func(v ssa.Value) (int, int, bool)
	// callVec gives the vector of a call result (e.g. a big-endian multi-octet read), if known.
	callVec func(c *ssa.Call) (bitVec, bool)
	memo    map[ssa.Value]bitVec
}

func intWidth(t types.Type) (int, bool) {
	b, ok := t.Underlying().(*types.Basic)
	if !ok {
		return 64, false
	}
	switch b.Kind() {
	case types.Uint8:
		return 8, false
	case types.Int8:
		return 8, true
	case types.Uint16:
		return 16, false
	case types.Int16:
		return 16, true
	case types.Uint32:
		return 32, false
	case types.Int32:
		return 32, true
	case types.Uint64, types.Uint, types.Uintptr:
		return 64, false
	case types.Int64, types.Int, types.UntypedInt:
		return 64, true
	case types.Bool:
		return 1, false
	}
	return 64, false
}

func unknownVec() bitVec {
	var v bitVec
	for i := range v {
		v[i].Kind = bUnknown
	}
	return v
}

func constVec(x uint64) bitVec {
	var v bitVec
	for i := 0; i < 64; i++ {
		if x>>uint(i)&1 == 1 {
			v[i].Kind = bOne
		}
	}
	return v
}

// fit truncates/extends a vector to the width/signedness of type t.
func fit(v bitVec, w int, signed bool) bitVec {
	if w >= 64 {
		return v
	}
	top := v[w-1]
	for i := w; i < 64; i++ {
		if signed {
			// sign extension replicates the top bit; only a known-zero top bit stays precise
			if top.Kind == bZero {
				v[i] = bitSrc{Kind: bZero}
			} else if top.Kind == bOne {
				v[i] = bitSrc{Kind: bOne}
			} else {
				v[i] = bitSrc{Kind: bUnknown}
			}
		} else {
			v[i] = bitSrc{Kind: bZero}
		}
	}
	return v
}

func (e *bitEnv) eval(v ssa.Value) bitVec {
	if e.memo == nil {
		e.memo = map[ssa.Value]bitVec{}
	}
	if r, ok := e.memo[v]; ok {
		return r
	}
	e.memo[v] = unknownVec() // cycle guard
	r := e.eval1(v)
	e.memo[v] = r
	return r
}

func (e *bitEnv) eval1(v ssa.Value) bitVec {
	if id, w, ok := e.leafOf(v); ok {
		var out bitVec
		for i := 0; i < w && i < 64; i++ {
			out[i] = bitSrc{Kind: bLeaf, Leaf: id, Bit: i}
		}
		return out
	}
	switch t := v.(type) {
	case *ssa.Const:
		if t.Value == nil {
			return unknownVec()
		}
		if t.Value.Kind() == constant.Bool {
			if constant.BoolVal(t.Value) {
				return constVec(1)
			}
			return constVec(0)
		}
		if t.Value.Kind() != constant.Int {
			return unknownVec()
		}
		if u, ok := constant.Uint64Val(t.Value); ok {
			return constVec(u)
		}
		if i, ok := constant.Int64Val(t.Value); ok {
			return constVec(uint64(i))
		}
		return unknownVec()
	case *ssa.Convert:
		src := e.eval(t.X)
		sw, ssigned := intWidth(t.X.Type())
		src = fit(src, sw, ssigned)
		dw, _ := intWidth(t.Type())
		// truncate to destination width, then the destination's own extension applies when it is widened later
		var out bitVec
		for i := 0; i < 64; i++ {
			if i < dw {
				out[i] = src[i]
			} else {
				out[i] = bitSrc{Kind: bZero}
			}
		}
		_, dsigned := intWidth(t.Type())
		return fit(out, dw, dsigned)
	case *ssa.ChangeType:
		return e.eval(t.X)
	case *ssa.BinOp:
		w, signed := intWidth(t.Type())
		switch t.Op {
		case token.AND, token.OR, token.XOR, token.AND_NOT:
			x, y := e.eval(t.X), e.eval(t.Y)
			var out bitVec
			for i := 0; i < 64; i++ {
				out[i] = bitOp(t.Op, x[i], y[i])
			}
			return fit(out, w, signed)
		case token.SHL, token.SHR:
			k, ok := constIntOf(t.Y)
			if !ok || k < 0 {
				return unknownVec()
			}
			xw, xsigned := intWidth(t.X.Type())
			x := fit(e.eval(t.X), xw, xsigned)
			var out bitVec
			for i := 0; i < 64; i++ {
				var src int64
				if t.Op == token.SHL {
					src = int64(i) - k
				} else {
					src = int64(i) + k
				}
				switch {
				case src < 0:
					out[i] = bitSrc{Kind: bZero}
				case src >= int64(xw):
					if t.Op == token.SHR && xsigned {
						out[i] = x[xw-1]
						if out[i].Kind == bLeaf {
							out[i] = bitSrc{Kind: bUnknown}
						}
					} else {
						out[i] = bitSrc{Kind: bZero}
					}
				default:
					out[i] = x[src]
				}
			}
			// truncate to the operand width (shifts keep the type of X)
			for i := xw; i < 64; i++ {
				if !xsigned {
					out[i] = bitSrc{Kind: bZero}
				}
			}
			return fit(out, xw, xsigned)
		case token.ADD:
			x, y := e.eval(t.X), e.eval(t.Y)
			var out bitVec
			for i := 0; i < 64; i++ {
				switch {
				case x[i].Kind == bZero:
					out[i] = y[i]
				case y[i].Kind == bZero:
					out[i] = x[i]
				default:
					return unknownVec()
				}
			}
			return fit(out, w, signed)
		}
		return unknownVec()
	case *ssa.Call:
		if e.callVec != nil {
			if r, ok := e.callVec(t); ok {
				return r
			}
		}
		return unknownVec()
	}
	return unknownVec()
}

func bitOp(op token.Token, a, b bitSrc) bitSrc {
	same := a.Kind == b.Kind && (a.Kind != bLeaf || (a.Leaf == b.Leaf && a.Bit == b.Bit)) && a.Kind != bUnknown
	switch op {
	case token.AND:
		if a.Kind == bZero || b.Kind == bZero {
			return bitSrc{Kind: bZero}
		}
		if a.Kind == bOne {
			return b
		}
		if b.Kind == bOne {
			return a
		}
		if same {
			return a
		}
	case token.OR:
		if a.Kind == bOne || b.Kind == bOne {
			return bitSrc{Kind: bOne}
		}
		if a.Kind == bZero {
			return b
		}
		if b.Kind == bZero {
			return a
		}
		if same {
			return a
		}
	case token.XOR:
		if a.Kind == bZero {
			return b
		}
		if b.Kind == bZero {
			return a
		}
		if same {
			return bitSrc{Kind: bZero}
		}
		if a.Kind == bOne && b.Kind == bOne {
			return bitSrc{Kind: bZero}
		}
	case token.AND_NOT:
		if a.Kind == bZero || b.Kind == bOne {
			return bitSrc{Kind: bZero}
		}
		if b.Kind == bZero {
			return a
		}
	}
	return bitSrc{Kind: bUnknown}
}

// offsetOf decomposes an index expression into base + constant: returns (base value, k).
func offsetOf(v ssa.Value) (ssa.Value, int64) {
	var k int64
	for {
		if b, ok := v.(*ssa.BinOp); ok && b.Op == token.ADD {
			if c, ok := constIntOf(b.Y); ok {
				k += c
				v = b.X
				continue
			}
			if c, ok := constIntOf(b.X); ok {
				k += c
				v = b.Y
				continue
			}
		}
		if b, ok := v.(*ssa.BinOp); ok && b.Op == token.SUB {
			if c, ok := constIntOf(b.Y); ok {
				k -= c
				v = b.X
				continue
			}
		}
		if c, ok := constIntOf(v); ok {
			return nil, k + c
		}
		return v, k
	}
}

// byteAccess describes a read or write of buf[base+k] (width 1) or an N-byte big-endian access at base+k.
type byteAccess struct {
	Buf   ssa.Value
	Base  ssa.Value
	K     int64
	N     int // bytes
	Write bool
	Val   ssa.Value // written value (Write) or the result value (read)
	Pos   token.Pos
	Instr ssa.Instruction
}

// sliceBase resolves buf[lo:] (possibly nested) to (buf, base, k).
func sliceBase(v ssa.Value) (buf ssa.Value, base ssa.Value, k int64, ok bool) {
	sl, isSl := v.(*ssa.Slice)
	if !isSl {
		return v, nil, 0, true
	}
	if sl.Low == nil {
		return sliceBase(sl.X)
	}
	b0, base0, k0, ok0 := sliceBase(sl.X)
	if !ok0 {
		return nil, nil, 0, false
	}
	bb, kk := offsetOf(sl.Low)
	if base0 != nil && bb != nil {
		return nil, nil, 0, false
	}
	if bb == nil {
		bb = base0
	}
	return b0, bb, k0 + kk, true
}

// byteAccesses lists fixed-offset byte accesses of fn: index loads/stores and binary.BigEndian Get/Put.
func byteAccesses(fn *ssa.Function) []byteAccess {
	var out []byteAccess
	allInstrs(fn, func(in ssa.Instruction) {
		switch t := in.(type) {
		case *ssa.Store:
			if ia, ok := t.Addr.(*ssa.IndexAddr); ok {
				if _, isSlice := ia.X.Type().Underlying().(*types.Slice); isSlice {
					buf, base0, k0, ok := sliceBase(ia.X)
					if !ok {
						return
					}
					b, k := offsetOf(ia.Index)
					if base0 != nil && b != nil {
						return
					}
					if b == nil {
						b = base0
					}
					out = append(out, byteAccess{Buf: buf, Base: b, K: k0 + k, N: 1, Write: true, Val: t.Val, Pos: t.Pos(), Instr: t})
				}
			}
		case *ssa.UnOp:
			if t.Op != token.MUL {
				return
			}
			if ia, ok := t.X.(*ssa.IndexAddr); ok {
				if _, isSlice := ia.X.Type().Underlying().(*types.Slice); isSlice {
					buf, base0, k0, ok := sliceBase(ia.X)
					if !ok {
						return
					}
					b, k := offsetOf(ia.Index)
					if base0 != nil && b != nil {
						return
					}
					if b == nil {
						b = base0
					}
					out = append(out, byteAccess{Buf: buf, Base: b, K: k0 + k, N: 1, Val: t, Pos: t.Pos(), Instr: t})
				}
			}
		case *ssa.Call:
			name := calleeNameSSA(&t.Call)
			var n int
			var write bool
			switch name {
			case "(binary.bigEndian).Uint16":
				n = 2
			case "(binary.bigEndian).Uint32":
				n = 4
			case "(binary.bigEndian).Uint64":
				n = 8
			case "(binary.bigEndian).PutUint16":
				n, write = 2, true
			case "(binary.bigEndian).PutUint32":
				n, write = 4, true
			case "(binary.bigEndian).PutUint64":
				n, write = 8, true
			default:
				return
			}
			args := t.Call.Args
			buf, base, k, ok := sliceBase(args[1])
			if !ok {
				return
			}
			a := byteAccess{Buf: buf, Base: base, K: k, N: n, Write: write, Pos: t.Pos(), Instr: t}
			if write {
				a.Val = args[2]
			} else {
				a.Val = t
			}
			out = append(out, a)
		}
	})
	return out
}

const byteLeafBase = 1000

// readEnv builds an environment in which octet k of buf (relative to base; base nil = absolute constant offsets)
// is leaf byteLeafBase+k, including octets read through binary.BigEndian.UintN. extra may designate further leaves.
func readEnv(fn *ssa.Function, buf, base ssa.Value, extra func(v ssa.Value) (int, int, bool)) *bitEnv {
	single := map[ssa.Value]int64{}
	multi := map[*ssa.Call]byteAccess{}
	for _, a := range byteAccesses(fn) {
		if a.Write || a.Buf != buf || a.Base != base {
			continue
		}
		if a.N == 1 {
			single[a.Val] = a.K
		} else if call, ok := a.Val.(*ssa.Call); ok {
			multi[call] = a
		}
	}
	env := &bitEnv{}
	env.leafOf = func(v ssa.Value) (int, int, bool) {
		if k, ok := single[v]; ok {
			return byteLeafBase + int(k), 8, true
		}
		if extra != nil {
			return extra(v)
		}
		return 0, 0, false
	}
	env.callVec = func(c *ssa.Call) (bitVec, bool) {
		a, ok := multi[c]
		if !ok {
			return bitVec{}, false
		}
		var out bitVec
		for j := 0; j < a.N; j++ {
			for t := 0; t < 8; t++ {
				out[(a.N-1-j)*8+t] = bitSrc{Kind: bLeaf, Leaf: byteLeafBase + int(a.K) + j, Bit: t}
			}
		}
		return out, true
	}
	return env
}

// writtenBytes evaluates, for every fixed-offset write into buf (relative to base), the provenance of each octet.
func writtenBytes(fn *ssa.Function, isBuf func(ssa.Value) bool, base ssa.Value, env *bitEnv) (map[int64][8]bitSrc, []byteAccess) {
	out := map[int64][8]bitSrc{}
	var odd []byteAccess
	for _, a := range byteAccesses(fn) {
		if !a.Write || !isBuf(a.Buf) {
			continue
		}
		if a.Base != base {
			odd = append(odd, a)
			continue
		}
		v := env.eval(a.Val)
		for j := 0; j < a.N; j++ {
			var b [8]bitSrc
			for t := 0; t < 8; t++ {
				if a.N == 1 {
					b[t] = v[t]
				} else {
					b[t] = v[(a.N-1-j)*8+t]
				}
			}
			k := a.K + int64(j)
			if prev, dup := out[k]; dup && prev != b {
				for t := range b {
					b[t] = bitSrc{Kind: bUnknown}
				}
			}
			out[k] = b
		}
	}
	return out, odd
}
