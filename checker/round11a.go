package main

// Rules added after the eleventh round of independent breaking changes.

import (
	"fmt"
	"go/constant"
	"go/token"
	"go/types"
	"strings"

	"golang.org/x/tools/go/ssa"
)

// headerAsRead: unpackHeader stores into the fixed fields of the record header exactly what the integer readers
// returned — no value is substituted afterwards (a TTL with the top bit set is the OPT record's extended RCODE and
// flags, and a record's TTL as sent).
func headerAsRead(c *Ctx, r *Report, rule string) {
	r.rule(rule, 4, "unpackHeader stores Rrtype, Class, Ttl and Rdlength exactly as the integer readers returned them")
	fn := c.ssaFunc("unpackHeader")
	if fn == nil {
		r.cerr(rule, "unpackHeader", "function not found")
		return
	}
	r.fn("unpackHeader")
	for _, f := range []struct{ field, reader string }{{"Rrtype", "unpackUint16"}, {"Class", "unpackUint16"}, {"Ttl", "unpackUint32"}, {"Rdlength", "unpackUint16"}} {
		sts := storesToField(fn, "RR_Header", f.field)
		var bad []string
		for _, st := range sts {
			ok := false
			for _, l := range phiLeaves(st.Val) {
				if ex, isEx := l.(*ssa.Extract); isEx && ex.Index == 0 {
					if call, isCall := ex.Tuple.(*ssa.Call); isCall && calleeNameSSA(&call.Call) == f.reader {
						ok = true
						continue
					}
				}
				ok = false
				break
			}
			if !ok {
				bad = append(bad, fmt.Sprintf("%s stores %s", c.pos(st.Pos()), describeValue(st.Val)))
			}
		}
		r.check(len(sts) > 0 && len(bad) == 0, rule, "unpackHeader:"+f.field, c.pos(fn.Pos()), f.reader+" result", "the header field %s does not (only) receive what %s read (%s): the value on the wire is replaced while decoding, so it is lost on the way back (for the OPT record the TTL carries the extended RCODE, the version and the DO bit)", f.field, f.reader, strings.Join(bad, "; "))
	}
}

// expireEmptyByFlag: EDNS0_EXPIRE.pack writes the zero-length (query) form only when the Empty flag says so; a value
// of 0 is the four-octet form (RFC 7314: a response carries the value, which may be 0).
func expireEmptyByFlag(c *Ctx, r *Report, rule string) {
	r.rule(rule, 1, "EDNS0_EXPIRE.pack returns the zero-length form only under the Empty flag")
	fn := c.ssaFunc("EDNS0_EXPIRE.pack")
	if fn == nil {
		r.cerr(rule, "EDNS0_EXPIRE.pack", "function not found")
		return
	}
	r.fn("EDNS0_EXPIRE.pack")
	emptyFlag := Guard{Name: "e.Empty", Op: "val", A: readsField("EDNS0_EXPIRE", "Empty"), Holds: true}
	n := 0
	var bad []string
	for _, rp := range returnPoints(fn, 0) {
		if len(rp.Results) > 1 && !isNilConst(rp.Results[1]) {
			continue
		}
		four := false
		for o := range sliceOf(rp.Results[0]) {
			if mk, ok := o.(*ssa.MakeSlice); ok {
				if k, isK := constIntOf(mk.Len); isK && k == 4 {
					four = true
				}
			}
			// make([]byte, 4) with a constant size is an array allocation sliced whole
			if al, ok := o.(*ssa.Alloc); ok {
				if pt, isP := al.Type().Underlying().(*types.Pointer); isP {
					if arr, isArr := pt.Elem().Underlying().(*types.Array); isArr && arr.Len() == 4 {
						four = true
					}
				}
			}
		}
		if four {
			continue
		}
		n++
		facts := append(factsAt(fn, rp.Block), rp.EdgeFacts...)
		if miss := guardsMissingFacts(fn, facts, []Guard{emptyFlag}); len(miss) > 0 {
			bad = append(bad, c.pos(rp.Pos))
		}
	}
	r.check(n > 0 && len(bad) == 0, rule, "EDNS0_EXPIRE.pack", c.pos(fn.Pos()), "empty form under Empty", "the zero-length form is returned at %s without the Empty flag being known to be set: an EXPIRE option with a value (0 included) is packed as the query form and comes back as Empty", strings.Join(bad, ", "))
}

// noTokenDroppedBeforeSlurp: no RDATA parser reads a token, throws it away, and then calls slurpRemainder with no
// token read in between: slurpRemainder itself takes the blank and the end of the line, so the token thrown away is
// the end of the line and slurpRemainder then reads the first token of the next line.
func noTokenDroppedBeforeSlurp(c *Ctx, r *Report, rule string) {
	r.rule(rule, 20, "no RDATA parser discards a token directly in front of slurpRemainder")
	n := 0
	for _, fn := range c.allFuncs() {
		if fn.Name() != "parse" || fn.Signature.Recv() == nil {
			continue
		}
		var slurps []*ssa.Call
		allInstrs(fn, func(in ssa.Instruction) {
			if call, ok := in.(*ssa.Call); ok && calleeNameSSA(&call.Call) == "slurpRemainder" {
				slurps = append(slurps, call)
			}
		})
		if len(slurps) == 0 {
			continue
		}
		n++
		isNext := func(in ssa.Instruction) (*ssa.Call, bool) {
			call, ok := in.(*ssa.Call)
			if !ok || calleeNameSSA(&call.Call) != "(zlexer).Next" {
				return nil, false
			}
			return call, true
		}
		var bad []string
		allInstrs(fn, func(in ssa.Instruction) {
			call, ok := isNext(in)
			if !ok {
				return
			}
			used := false
			if call.Referrers() != nil {
				for _, ref := range *call.Referrers() {
					if _, isDbg := ref.(*ssa.DebugRef); !isDbg {
						used = true
					}
				}
			}
			if used {
				return
			}
			// forward from the discarded read: is slurpRemainder reached before another read?
			seen := map[*ssa.BasicBlock]bool{}
			type item struct {
				b     *ssa.BasicBlock
				start int
			}
			stack := []item{{call.Block(), instrIndex(call) + 1}}
			for len(stack) > 0 {
				it := stack[len(stack)-1]
				stack = stack[:len(stack)-1]
				stop := false
				for i := it.start; i < len(it.b.Instrs); i++ {
					x := it.b.Instrs[i]
					if _, isN := isNext(x); isN {
						stop = true
						break
					}
					if cl, isC := x.(*ssa.Call); isC && calleeNameSSA(&cl.Call) == "slurpRemainder" {
						bad = append(bad, c.pos(call.Pos()))
						stop = true
						break
					}
				}
				if stop {
					continue
				}
				// straight on only: behind a branch the read may belong to another turn of a field loop
				if len(it.b.Succs) != 1 {
					continue
				}
				for _, s := range it.b.Succs {
					if !seen[s] && len(s.Preds) == 1 {
						seen[s] = true
						stack = append(stack, item{s, 0})
					}
				}
			}
		})
		r.check(len(bad) == 0, rule, fnDisplay(fn), c.pos(fn.Pos()), "no discarded token in front of slurpRemainder", "the token read at %s is thrown away and slurpRemainder follows with no token read in between: the record is accepted only as the last line of its input; followed by another record the parser reports \"garbage after rdata\" with the next line's owner", strings.Join(uniqStrings(bad), ", "))
	}
	if n == 0 {
		r.undecided(rule, "parse methods", "", "no parse method calls slurpRemainder")
	}
}

// udpSessionWrite: response.Write answers a datagram read from a *net.UDPConn through WriteToSessionUDP with the
// session the datagram came with (the session carries the local address the query was sent to: on a wildcard-bound
// socket the reply must leave from that address), and a generic PacketConn through WriteTo with the address it came
// with.
func udpSessionWrite(c *Ctx, r *Report, rule string) {
	r.rule(rule, 1, "response.Write sends a UDP reply through WriteToSessionUDP with the request's session, and a PacketConn reply to the request's address")
	fn := c.ssaFunc("response.Write")
	if fn == nil {
		r.cerr(rule, "response.Write", "function not found")
		return
	}
	r.fn("response.Write")
	var problems []string
	nSess := 0
	for _, ci := range callsIn(fn, "WriteToSessionUDP") {
		args := ci.Common().Args
		if len(args) == 3 && anyIn(sliceOf(args[2]), readsField("response", "udpSession")) {
			nSess++
		} else {
			problems = append(problems, fmt.Sprintf("%s: WriteToSessionUDP is not given the request's session", c.pos(ci.Pos())))
		}
	}
	if nSess == 0 {
		problems = append(problems, "no reply is sent through WriteToSessionUDP with the request's session: a server bound to the wildcard address answers from the address the kernel picks, not the one that was asked (clients asking on a secondary address time out)")
	}
	allInstrs(fn, func(in ssa.Instruction) {
		call, ok := in.(*ssa.Call)
		if !ok || !call.Call.IsInvoke() || call.Call.Method.Name() != "WriteTo" {
			return
		}
		if len(call.Call.Args) < 2 || !anyIn(sliceOf(call.Call.Args[1]), readsField("response", "pcSession")) {
			problems = append(problems, fmt.Sprintf("%s: WriteTo is not given the address the datagram came with (pcSession)", c.pos(call.Pos())))
		}
	})
	r.check(len(problems) == 0, rule, "response.Write", c.pos(fn.Pos()), "session write", "%s", strings.Join(problems, "; "))
}

// freshEnvelope: Transfer.Out writes, for every envelope, a message made for that envelope: the Msg handed to
// WriteMsg is allocated inside the loop over the channel. SetTsig appends the TSIG stub to Extra; a message kept
// across envelopes collects the stubs of its predecessors and the receiver refuses the second envelope.
func freshEnvelope(c *Ctx, r *Report, rule string) {
	r.rule(rule, 1, "Transfer.Out allocates the message of every envelope inside the loop")
	fn := c.ssaFunc("Transfer.Out")
	if fn == nil {
		r.cerr(rule, "Transfer.Out", "function not found")
		return
	}
	r.fn("Transfer.Out")
	n := 0
	var bad []string
	inCycle := func(b *ssa.BasicBlock) bool {
		for _, sx := range b.Succs {
			if reach(sx, nil, nil)[b] {
				return true
			}
		}
		return false
	}
	for _, sub := range withAnon(fn) {
		allInstrs(sub, func(in ssa.Instruction) {
			call, ok := in.(*ssa.Call)
			if !ok || !call.Call.IsInvoke() || call.Call.Method.Name() != "WriteMsg" || len(call.Call.Args) != 1 {
				return
			}
			if !inCycle(call.Block()) {
				return
			}
			n++
			for _, l := range phiLeaves(call.Call.Args[0]) {
				al, isAl := l.(*ssa.Alloc)
				if !isAl || derefNamed(al.Type()) == nil || derefNamed(al.Type()).Obj().Name() != "Msg" {
					bad = append(bad, fmt.Sprintf("%s: the message written is %s, not a Msg made here", c.pos(call.Pos()), describeValue(l)))
					continue
				}
				if !inCycle(al.Block()) {
					bad = append(bad, fmt.Sprintf("%s: the message written is made once, at %s, outside the loop over the envelopes", c.pos(call.Pos()), c.pos(al.Pos())))
				}
			}
		})
	}
	r.check(n > 0 && len(bad) == 0, rule, "Transfer.Out", c.pos(fn.Pos()), "one Msg per envelope", "%s: what SetTsig appends to its additional section for one envelope is still there for the next, and the receiver refuses the second signed envelope", strings.Join(bad, "; "))
}

// splitRootOnly: Split gives up before walking the name only for the root name.
func splitRootOnly(c *Ctx, r *Report, rule string) {
	r.rule(rule, 1, "Split returns no offsets without walking the name only when the name is \".\"")
	fn := c.ssaFunc("Split")
	if fn == nil {
		r.cerr(rule, "Split", "function not found")
		return
	}
	r.fn("Split")
	next := callsIn(fn, "NextLabel")
	isRoot := Guard{Name: `s == "."`, Op: "eq", A: isValue(fn.Params[0]), B: func(v ssa.Value) bool {
		k, ok := v.(*ssa.Const)
		return ok && k.Value != nil && k.Value.Kind() == constant.String && constant.StringVal(k.Value) == "."
	}, Holds: true}
	n := 0
	var bad []string
	for _, b := range fn.Blocks {
		ret, ok := b.Instrs[len(b.Instrs)-1].(*ssa.Return)
		if !ok {
			continue
		}
		walked := false
		for _, nx := range next {
			nb := nx.Block()
			if nb == b || nb.Dominates(b) {
				walked = true
			}
		}
		if walked {
			continue
		}
		n++
		if miss := guardsMissing(fn, b, []Guard{isRoot}); len(miss) > 0 {
			bad = append(bad, c.pos(ret.Pos()))
		}
	}
	r.check(len(next) > 0 && len(bad) == 0, rule, "Split", c.pos(fn.Pos()), fmt.Sprintf("%d early returns, all for the root", n), "Split returns at %s without having walked the name and without the name being known to be \".\": a name that is not the root loses its labels (a one-octet relative name: Split says none, CountLabel says one, and CompareDomainName indexes an empty slice)", strings.Join(bad, ", "))
}

// errorBeforeSuccess: in the message-level decoders, after a call that reports an error the error is looked at before
// the decoder can return success: no return with a nil error is reachable from the call without passing a test of
// that call's error (or returning it).
func errorBeforeSuccess(c *Ctx, r *Report, rule, consequence string, names []string) {
	r.rule(rule, 4, "in the message-level decoders no success return is reachable from a failing callee without a test of its error")
	for _, name := range names {
		fn := c.ssaFunc(name)
		if fn == nil {
			r.cerr(rule, name, "function not found")
			continue
		}
		r.fn(name)
		nCalls := 0
		var bad []string
		errIdx := fn.Signature.Results().Len() - 1
		if errIdx < 0 || !isErrorType(fn.Signature.Results().At(errIdx).Type()) {
			r.undecided(rule, name, c.pos(fn.Pos()), "the function has no error result")
			continue
		}
		allInstrs(fn, func(in ssa.Instruction) {
			call, ok := in.(*ssa.Call)
			if !ok {
				return
			}
			errs := errResultsOf(call)
			if len(errs) == 0 {
				return
			}
			nCalls++
			tests := func(b *ssa.BasicBlock) bool {
				ifi, ok := b.Instrs[len(b.Instrs)-1].(*ssa.If)
				if !ok {
					return false
				}
				for v := range sliceOf(ifi.Cond) {
					if errs[v] {
						return true
					}
				}
				return false
			}
			seen := map[*ssa.BasicBlock]bool{}
			var walk func(b *ssa.BasicBlock)
			walk = func(b *ssa.BasicBlock) {
				if ret, ok := b.Instrs[len(b.Instrs)-1].(*ssa.Return); ok {
					res := unspill(b, ret)
					if errIdx < len(res) && isNilConst(res[errIdx]) {
						bad = append(bad, fmt.Sprintf("the error of the call at %s is not looked at before the success return at %s", c.pos(call.Pos()), c.pos(ret.Pos())))
					}
					return
				}
				if tests(b) {
					return
				}
				for _, s := range b.Succs {
					if !seen[s] {
						seen[s] = true
						walk(s)
					}
				}
			}
			if tests(call.Block()) {
				return
			}
			if ret, ok := call.Block().Instrs[len(call.Block().Instrs)-1].(*ssa.Return); ok {
				res := unspill(call.Block(), ret)
				if errIdx < len(res) && isNilConst(res[errIdx]) {
					bad = append(bad, fmt.Sprintf("the error of the call at %s is not looked at before the success return at %s", c.pos(call.Pos()), c.pos(ret.Pos())))
				}
				return
			}
			for _, s := range call.Block().Succs {
				if !seen[s] {
					seen[s] = true
					walk(s)
				}
			}
		})
		r.check(len(bad) == 0, rule, name, c.pos(fn.Pos()), fmt.Sprintf("%d failing callees, each tested first", nCalls), "%s: %s", strings.Join(uniqStrings(bad), "; "), consequence)
	}
}

// canonicalOwnerLast: in rawSignatureData whatever is stored into the owner name of the record to be signed is
// followed, on every way to the end, by a store of CanonicalName's result: the wildcard form is built from the labels
// of the name as presented, so the lower-casing has to come after it.
func canonicalOwnerLast(c *Ctx, r *Report, rule string) {
	r.rule(rule, 1, "in rawSignatureData every store into the owner name is, or is followed on every path by, a store of CanonicalName's result")
	fn := c.ssaFunc("rawSignatureData")
	if fn == nil {
		r.cerr(rule, "rawSignatureData", "function not found")
		return
	}
	r.fn("rawSignatureData")
	isCanon := func(v ssa.Value) bool {
		call, ok := v.(*ssa.Call)
		return ok && calleeNameSSA(&call.Call) == "CanonicalName"
	}
	sts := storesToField(fn, "RR_Header", "Name")
	n := 0
	var bad []string
	for _, st := range sts {
		if isCanon(st.Val) {
			n++
			continue
		}
		passed, _ := mustPass(fn, st.Block(), instrIndex(st), func(x ssa.Instruction) bool {
			s2, ok := x.(*ssa.Store)
			return ok && readsField("RR_Header", "Name")(s2.Addr) && isCanon(s2.Val)
		})
		if !passed {
			bad = append(bad, c.pos(st.Pos()))
		}
	}
	r.check(n > 0 && len(bad) == 0, rule, "rawSignatureData:owner", c.pos(fn.Pos()), "lower-cased last", "the owner name stored at %s is not lower-cased afterwards on every path: the signed data carries the owner's letters as presented (a wildcard-expanded owner with a capital letter verifies under no signature made over the canonical form)", strings.Join(bad, ", "))
}

// copyNoMakeThenAppend: a copy method that makes its result slice with a length fills it by index; appending to it
// leaves the made elements (nil / zero) in front of the copies.
func copyNoMakeThenAppend(c *Ctx, r *Report, rule string) {
	r.rule(rule, 10, "no copy method appends to a slice it made with a non-zero length")
	n := 0
	for _, fn := range c.allFuncs() {
		if fn.Name() != "copy" || fn.Signature.Recv() == nil {
			continue
		}
		n++
		var bad []string
		allInstrs(fn, func(in ssa.Instruction) {
			call, ok := in.(*ssa.Call)
			if !ok || calleeNameSSA(&call.Call) != "builtin.append" || len(call.Call.Args) == 0 {
				return
			}
			for _, l := range phiLeaves(call.Call.Args[0]) {
				mk, isMk := l.(*ssa.MakeSlice)
				if !isMk {
					continue
				}
				if k, isK := constIntOf(mk.Len); isK && k == 0 {
					continue
				}
				bad = append(bad, fmt.Sprintf("%s appends to the slice made with a length at %s", c.pos(call.Pos()), c.pos(mk.Pos())))
			}
		})
		if len(bad) > 0 {
			r.fail(rule, fnDisplay(fn), c.pos(fn.Pos()), "%s: the copy has the made (nil / zero) elements in front of the copied ones, twice as many as the original: it is not a duplicate of the record it was copied from, and a nil address does not pack", strings.Join(bad, "; "))
		} else {
			r.ok(rule, fnDisplay(fn), c.pos(fn.Pos()), "no make-then-append")
		}
	}
	if n == 0 {
		r.undecided(rule, "copy methods", "", "no copy method found")
	}
}

var _ = types.Typ

// parsersKeepCase: no RDATA parser folds the case of a name it stores: what String printed is what parse stores
// (CanonicalName / ToLower results never reach a field of the record).
func parsersKeepCase(c *Ctx, r *Report, rule string) {
	r.rule(rule, 20, "no RDATA parser stores the result of CanonicalName / strings.ToLower / strings.ToUpper into a field of the record")
	n := 0
	for _, fn := range c.allFuncs() {
		if fn.Name() != "parse" || fn.Signature.Recv() == nil {
			continue
		}
		n++
		var bad []string
		allInstrs(fn, func(in ssa.Instruction) {
			st, ok := in.(*ssa.Store)
			if !ok {
				return
			}
			if _, isField := st.Addr.(*ssa.FieldAddr); !isField {
				return
			}
			if bt, isB := st.Val.Type().Underlying().(*types.Basic); !isB || bt.Info()&types.IsString == 0 {
				return
			}
			for o := range sliceOf(st.Val) {
				call, isCall := o.(*ssa.Call)
				if !isCall {
					continue
				}
				switch calleeNameSSA(&call.Call) {
				case "CanonicalName", "strings.ToLower", "strings.ToUpper", "asciiLower", "asciiUpper":
					bad = append(bad, fmt.Sprintf("%s stores %s", c.pos(st.Pos()), describeValue(st.Val)))
				}
			}
		})
		r.check(len(bad) == 0, rule, fnDisplay(fn), c.pos(fn.Pos()), "names stored as written", "%s: the name read back differs in case from the name that was printed, so the RDATA octets differ after a round trip through text", strings.Join(uniqStrings(bad), "; "))
	}
	if n == 0 {
		r.undecided(rule, "parse methods", "", "no parse method found")
	}
}

// rsaVerifyUnconditional: in RRSIG.Verify, once the RSA key has been decoded every path reaches the verifier: no
// further refusal stands between the key and rsa.VerifyPKCS1v15 (which itself refuses a signature of the wrong
// length; a test made here on a length computed from the modulus' bit length refuses keys whose modulus is not a whole
// number of octets).
func rsaVerifyUnconditional(c *Ctx, r *Report, rule string) {
	r.rule(rule, 1, "in RRSIG.Verify every path from the decoded RSA key reaches rsa.VerifyPKCS1v15")
	fn := c.ssaFunc("RRSIG.Verify")
	if fn == nil {
		r.cerr(rule, "RRSIG.Verify", "function not found")
		return
	}
	r.fn("RRSIG.Verify")
	n := 0
	var bad []string
	for _, ci := range callsIn(fn, "(DNSKEY).publicKeyRSA") {
		call := ci.(*ssa.Call)
		// the successor on which the key is known not to be nil
		for _, b := range fn.Blocks {
			ifi, ok := b.Instrs[len(b.Instrs)-1].(*ssa.If)
			if !ok {
				continue
			}
			atom, pol := condAtom(ifi.Cond)
			bin, ok := atom.(*ssa.BinOp)
			if !ok || (bin.Op != token.EQL && bin.Op != token.NEQ) || !(bin.X == ssa.Value(call) && isNilConst(bin.Y)) {
				continue
			}
			nonNilWhenTrue := (bin.Op == token.NEQ) == pol
			start := b.Succs[1]
			if nonNilWhenTrue {
				start = b.Succs[0]
			}
			n++
			passed, blk := mustPass(fn, start, -1, func(x ssa.Instruction) bool {
				cl, ok := x.(*ssa.Call)
				return ok && calleeNameSSA(&cl.Call) == "rsa.VerifyPKCS1v15"
			})
			if !passed && blk != nil {
				bad = append(bad, c.pos(blk.Instrs[len(blk.Instrs)-1].Pos()))
			}
		}
	}
	r.check(n > 0 && len(bad) == 0, rule, "RRSIG.Verify:rsa", c.pos(fn.Pos()), "key -> verifier", "with the RSA key decoded, Verify can return at %s without having asked rsa.VerifyPKCS1v15: a valid signature is refused for a reason other than the verifier's verdict (signatures of keys whose modulus is not a multiple of 8 bits long, say)", strings.Join(bad, ", "))
}

// ecdsaKeyReaderRefusals: readPrivateKeyECDSA refuses only what the base64 decoder refuses: the private scalar is a
// fixed-width field, any octet string of it is a value (one in 256 starts with a zero octet).
func ecdsaKeyReaderRefusals(c *Ctx, r *Report, rule string) {
	r.rule(rule, 1, "readPrivateKeyECDSA returns no error but the base64 decoder's")
	fn := c.ssaFunc("readPrivateKeyECDSA")
	if fn == nil {
		r.cerr(rule, "readPrivateKeyECDSA", "function not found")
		return
	}
	r.fn("readPrivateKeyECDSA")
	n := 0
	var bad []string
	for _, rp := range returnPoints(fn, 1) {
		v := rp.Results[1]
		if isNilConst(v) {
			continue
		}
		n++
		ok := false
		if ex, isEx := v.(*ssa.Extract); isEx {
			if call, isCall := ex.Tuple.(*ssa.Call); isCall && calleeNameSSA(&call.Call) == "fromBase64" {
				ok = true
			}
		}
		if !ok {
			bad = append(bad, fmt.Sprintf("%s returns %s", c.pos(rp.Pos), describeValue(v)))
		}
	}
	r.check(len(bad) == 0, rule, "readPrivateKeyECDSA", c.pos(fn.Pos()), fmt.Sprintf("%d error returns, all the decoder's", n), "%s: a private key file that PrivateKeyString wrote is refused when read back (a scalar that starts with a zero octet, one key in 256)", strings.Join(bad, "; "))
}

// generateOffsetLocal: the offset added to the iterator value for one `$` of a $GENERATE template is the offset of
// that `$`'s own modifier, or 0: it is not kept in the reader from one `$` to the next.
func generateOffsetLocal(c *Ctx, r *Report, rule string) {
	r.rule(rule, 1, "the offset added to the $GENERATE iterator comes from the modifier of the same $ (or is 0), not from the reader's state")
	fn := c.ssaFunc("generateReader.ReadByte")
	if fn == nil {
		r.cerr(rule, "generateReader.ReadByte", "function not found")
		return
	}
	r.fn("generateReader.ReadByte")
	n := 0
	var bad []string
	allInstrs(fn, func(in ssa.Instruction) {
		bin, ok := in.(*ssa.BinOp)
		if !ok || bin.Op != token.ADD {
			return
		}
		var other ssa.Value
		isCur := func(v ssa.Value) bool {
			ld, ok := v.(*ssa.UnOp)
			return ok && readsField("generateReader", "cur")(ld.X)
		}
		switch {
		case isCur(bin.X):
			other = bin.Y
		case isCur(bin.Y):
			other = bin.X
		default:
			return
		}
		// the sum that is printed (boxed for Fprintf), not the advance of the iterator itself
		printed := false
		if bin.Referrers() != nil {
			for _, ref := range *bin.Referrers() {
				if _, isMI := ref.(*ssa.MakeInterface); isMI {
					printed = true
				}
			}
		}
		if !printed {
			return
		}
		n++
		for _, l := range phiLeaves(other) {
			if k, isK := constIntOf(l); isK && k == 0 {
				continue
			}
			if ex, isEx := l.(*ssa.Extract); isEx {
				if call, isCall := ex.Tuple.(*ssa.Call); isCall && calleeNameSSA(&call.Call) == "modToPrintf" {
					continue
				}
			}
			bad = append(bad, fmt.Sprintf("%s adds %s", c.pos(bin.Pos()), describeValue(l)))
		}
	})
	r.check(n > 0 && len(bad) == 0, rule, "generateReader.ReadByte:offset", c.pos(fn.Pos()), "0 or this modifier's offset", "%s to the iterator value: an offset given in one ${offset,...} modifier stays in force for every later plain $ of the template (host$ A 10.0.0.${10} names the hosts 0, 11, 12, 13)", strings.Join(bad, "; "))
}

// pointerOffsetLimit: a name suffix is remembered for compression only at an offset a pointer can express: 14 bits,
// at most 16383. The insert into the compression map is under a test that keeps its offset below 16384.
func pointerOffsetLimit(c *Ctx, r *Report, rule string) {
	r.rule(rule, 1, "packDomainName enters a suffix into the compression map only under an offset test that admits at most 16383")
	fn := c.ssaFunc("packDomainName")
	if fn == nil {
		r.cerr(rule, "packDomainName", "function not found")
		return
	}
	r.fn("packDomainName")
	n := 0
	var bad []string
	for _, ci := range callsIn(fn, "(compressionMap).insert") {
		n++
		best := int64(-1)
		for _, f := range factsAt(fn, ci.Block()) {
			bin, ok := f.Atom.(*ssa.BinOp)
			if !ok {
				continue
			}
			k, isK := constIntOf(bin.Y)
			if !isK || k < 16000 || k > 17000 {
				continue
			}
			var hi int64 = -1
			switch {
			case bin.Op == token.LSS && f.Holds:
				hi = k - 1
			case bin.Op == token.LEQ && f.Holds:
				hi = k
			case bin.Op == token.GEQ && !f.Holds:
				hi = k - 1
			case bin.Op == token.GTR && !f.Holds:
				hi = k
			}
			if hi >= 0 && (best < 0 || hi < best) {
				best = hi
			}
		}
		if best < 0 {
			bad = append(bad, fmt.Sprintf("%s: no test of the offset against the 14-bit limit", c.pos(ci.Pos())))
		} else if best > 16383 {
			bad = append(bad, fmt.Sprintf("%s: offsets up to %d are entered", c.pos(ci.Pos()), best))
		}
	}
	r.check(n > 0 && len(bad) == 0, rule, "packDomainName:insert", c.pos(fn.Pos()), "offset <= 16383", "%s: a pointer has 14 bits, so a later name that shares the suffix is written with a pointer to offset 0 (16384 & 0x3FFF): it decodes as another name, or as a loop", strings.Join(bad, "; "))
}
