package main

import (
	"fmt"
	"go/constant"
	"go/token"
	"go/types"
	"sort"
	"strings"

	"golang.org/x/tools/go/ssa"
)

// Rules written for defects the round-6 reviewers reproduced on the unchanged tree (findings F46 and later).

// rdataConfined: the per-type unpackers read "to the end of msg" for their last field (txt, octet, nsec, opt, pairs,
// apl ...), so every call of RR.unpack hands them a buffer that ends where the RDATA ends: the buffer argument is
// msg[:end] with end = off + RDLENGTH, or a buffer a callee has already cut there (unpackHeader's truncmsg).
func rdataConfined(c *Ctx, r *Report, rule, consequence string) {
	r.rule(rule, 1, "every call of RR.unpack is handed a buffer cut at the end of the RDATA")
	n := 0
	for _, fn := range c.allFuncs() {
		if fn.Synthetic != "" {
			continue
		}
		for idx, ci := range callsIn(fn, "(RR).unpack") {
			call, ok := ci.(*ssa.Call)
			if !ok || len(call.Call.Args) < 1 {
				continue
			}
			n++
			r.fn(fnDisplay(fn))
			buf := call.Call.Args[0]
			construct := fmt.Sprintf("%s:unpack#%d", fnDisplay(fn), idx+1)
			okCut := false
			why := "the buffer is " + describeValue(buf)
			if sl, isSl := buf.(*ssa.Slice); isSl && sl.High != nil {
				// High = off + int(h.Rdlength)
				hasLen := anyIn(sliceOf(sl.High), readsField("RR_Header", "Rdlength"))
				if bin, isBin := sl.High.(*ssa.BinOp); isBin && bin.Op == token.ADD && hasLen {
					okCut = true
				} else {
					why = "the buffer is cut at " + describeValue(sl.High) + ", which is not off + RDLENGTH"
				}
			}
			if !okCut {
				// a buffer this function made for the one record (decoded hex, a scratch pack): it ends where the RDATA ends
				fromParam := anyIn(sliceOf(buf), func(v ssa.Value) bool {
					p, isP := v.(*ssa.Parameter)
					if !isP {
						return false
					}
					_, isSl := p.Type().Underlying().(*types.Slice)
					return isSl
				})
				if !fromParam {
					okCut = true
				}
			}
			r.check(okCut, rule, construct, c.pos(call.Pos()), "msg[:off+RDLENGTH]", "%s: %s", why, consequence)
		}
	}
	if n == 0 {
		r.undecided(rule, "RR.unpack", "", "no call of RR.unpack found")
	}
}

// nilEntriesAgree: the walkers over a message's sections agree on nil entries: Len and String skip them and Pack
// refuses them with an error, so no walker may dereference one: every method invoked on a section element in the
// listed functions is behind a nil test of that element.
func nilEntriesAgree(c *Ctx, r *Report, rule string, fnNames []string) {
	r.rule(rule, 4, "every method call on an element of Answer / Ns / Extra in the message walkers is behind a nil test of the element")
	n := 0
	seenHelper := map[string]bool{}
	for _, name := range fnNames {
		fn := c.ssaFunc(name)
		if fn == nil {
			r.cerr(rule, name, "function not found")
			continue
		}
		r.fn(name)
		for _, sub := range withAnon(fn) {
			allInstrs(sub, func(in ssa.Instruction) {
				call, ok := in.(*ssa.Call)
				if !ok || !call.Call.IsInvoke() {
					return
				}
				recv := call.Call.Value
				if typeStr(recv.Type()) != "RR" {
					return
				}
				// an element of a section
				isElem := false
				for v := range sliceOf(recv) {
					if ia, ok := v.(*ssa.IndexAddr); ok {
						for _, s := range []string{"Answer", "Ns", "Extra"} {
							if anyIn(sliceOf(ia.X), readsField("Msg", s)) {
								isElem = true
							}
						}
					}
				}
				if !isElem {
					return
				}
				n++
				construct := fmt.Sprintf("%s:%s#%d", name, call.Call.Method.Name(), n)
				r.check(nonNilAt(sub, call.Block(), func(v ssa.Value) bool { return v == recv }), rule, construct, c.pos(call.Pos()), "behind a nil test", "%s calls %s on a section entry without testing it for nil: a message with a nil entry, which Len and String skip and Pack refuses with an error, makes this walker panic", name, call.Call.Method.Name())
			})
		}
	}
	// helpers the walkers hand an element to
	for _, name := range fnNames {
		fn := c.ssaFunc(name)
		if fn == nil {
			continue
		}
		allInstrs(fn, func(in ssa.Instruction) {
			call, ok := in.(*ssa.Call)
			if !ok || call.Call.IsInvoke() {
				return
			}
			g := call.Call.StaticCallee()
			if g == nil || g.Pkg != fn.Pkg || len(g.Blocks) == 0 {
				return
			}
			// a helper handed a whole section: its calls on the elements of that parameter
			for i, a := range call.Call.Args {
				if i >= len(g.Params) {
					continue
				}
				isSec := false
				for _, s := range []string{"Answer", "Ns", "Extra"} {
					if ld, ok := a.(*ssa.UnOp); ok && ld.Op == token.MUL && readsField("Msg", s)(ld.X) {
						isSec = true
					}
				}
				if !isSec {
					continue
				}
				p := g.Params[i]
				k := 0
				allInstrs(g, func(in2 ssa.Instruction) {
					c2, ok := in2.(*ssa.Call)
					if !ok || !c2.Call.IsInvoke() || typeStr(c2.Call.Value.Type()) != "RR" {
						return
					}
					fromParam := false
					for v := range sliceOf(c2.Call.Value) {
						if ia, ok := v.(*ssa.IndexAddr); ok && ia.X == ssa.Value(p) {
							fromParam = true
						}
					}
					if !fromParam {
						return
					}
					k++
					construct := fmt.Sprintf("%s:%s#%d", fnDisplay(g), c2.Call.Method.Name(), k)
					if seenHelper[construct] {
						return
					}
					seenHelper[construct] = true
					n++
					r.fn(fnDisplay(g))
					recv := c2.Call.Value
					r.check(nonNilAt(g, c2.Block(), func(v ssa.Value) bool { return v == recv }), rule, construct, c.pos(c2.Pos()), "behind a nil test", "%s, which %s hands a section to, calls %s on an entry without testing it for nil: a message with a nil entry, which Len and String skip and Pack refuses with an error, makes this walker panic", fnDisplay(g), name, c2.Call.Method.Name())
				})
			}
			for i, a := range call.Call.Args {
				if typeStr(a.Type()) != "RR" || i >= len(g.Params) {
					continue
				}
				isElem := false
				for v := range sliceOf(a) {
					if ia, ok := v.(*ssa.IndexAddr); ok {
						for _, s := range []string{"Answer", "Ns", "Extra"} {
							if anyIn(sliceOf(ia.X), readsField("Msg", s)) {
								isElem = true
							}
						}
					}
				}
				if !isElem {
					continue
				}
				p := g.Params[i]
				k := 0
				allInstrs(g, func(in2 ssa.Instruction) {
					c2, ok := in2.(*ssa.Call)
					if !ok || !c2.Call.IsInvoke() || c2.Call.Value != ssa.Value(p) {
						return
					}
					k++
					construct := fmt.Sprintf("%s:%s#%d", fnDisplay(g), c2.Call.Method.Name(), k)
					if seenHelper[construct] {
						return
					}
					seenHelper[construct] = true
					n++
					r.fn(fnDisplay(g))
					r.check(nonNilAt(g, c2.Block(), func(v ssa.Value) bool { return v == ssa.Value(p) }), rule, construct, c.pos(c2.Pos()), "behind a nil test", "%s, which %s hands its section entries to, calls %s on the entry without testing it for nil: a message with a nil entry, which Len and String skip and Pack refuses with an error, makes this walker panic", fnDisplay(g), name, c2.Call.Method.Name())
				})
			}
		})
	}
	if n == 0 {
		r.undecided(rule, "walkers", "", "no method call on a section element found")
	}
}

// serialWidth: an unsigned 32-bit field is never narrowed to the platform's int before it is printed: where int is
// 32 bits (386, arm, mips) values above 2^31-1 print negative, and the parser refuses a negative number.
func serialWidth(c *Ctx, r *Report, rule string) {
	r.rule(rule, 20, "no uint32 value is converted to int on its way into strconv.Itoa in the printers")
	n := 0
	var fns []*ssa.Function
	for _, fn := range c.allFuncs() {
		if fn.Synthetic == "" {
			fns = append(fns, fn)
		}
	}
	sort.Slice(fns, func(i, j int) bool { return fnDisplay(fns[i]) < fnDisplay(fns[j]) })
	for _, fn := range fns {
		k := 0
		for _, ci := range callsIn(fn, "strconv.Itoa") {
			call, ok := ci.(*ssa.Call)
			if !ok {
				continue
			}
			n++
			k++
			cv, isConv := call.Call.Args[0].(*ssa.Convert)
			bad := false
			if isConv {
				if bt, ok := cv.X.Type().Underlying().(*types.Basic); ok && (bt.Kind() == types.Uint32 || bt.Kind() == types.Uint64 || bt.Kind() == types.Uint || bt.Kind() == types.Int64) {
					bad = true
				}
			}
			construct := fmt.Sprintf("%s:Itoa#%d", fnDisplay(fn), k)
			r.fn(fnDisplay(fn))
			r.check(!bad, rule, construct, c.pos(call.Pos()), "fits int on every platform", "%s prints a %s through strconv.Itoa(int(...)): where int is 32 bits a value above 2^31-1 prints as a negative number, which the zone parser refuses", fnDisplay(fn), func() string {
				if isConv {
					return typeStr(cv.X.Type())
				}
				return "value"
			}())
		}
	}
	if n == 0 {
		r.undecided(rule, "strconv.Itoa", "", "no call found")
	}
}

var _ = strings.Join

// tsigIsLast: RFC 8945 5.2: the TSIG is the last record of the additional section. stripTsig verifies the TSIG it
// finds and cuts the message there, Msg.IsTsig (the handler's view, the MAC chained into the reply) is the last
// record: the two are the same record only if stripTsig accepts a TSIG at index ARCOUNT-1 alone.
func tsigIsLast(c *Ctx, r *Report, rule string) {
	r.rule(rule, 1, "stripTsig accepts a TSIG only at index ARCOUNT-1 of the additional section")
	fn := c.ssaFunc("stripTsig")
	if fn == nil {
		r.cerr(rule, "stripTsig", "function not found")
		return
	}
	r.fn("stripTsig")
	n := 0
	allInstrs(fn, func(in ssa.Instruction) {
		ta, ok := in.(*ssa.TypeAssert)
		if !ok || typeStr(ta.AssertedType) != "*TSIG" {
			return
		}
		n++
		okLast := false
		for _, f := range factsAt(fn, ta.Block()) {
			bin, ok := f.Atom.(*ssa.BinOp)
			if !ok {
				continue
			}
			eq := (bin.Op == token.EQL && f.Holds) || (bin.Op == token.NEQ && !f.Holds)
			if !eq {
				continue
			}
			arc := func(v ssa.Value) bool { return anyIn(sliceOf(v), readsField("Header", "Arcount")) }
			idx := func(v ssa.Value) bool {
				return anyIn(sliceOf(v), func(x ssa.Value) bool { _, isPhi := x.(*ssa.Phi); return isPhi })
			}
			if (arc(bin.X) && idx(bin.Y) && !arc(bin.Y)) || (arc(bin.Y) && idx(bin.X) && !arc(bin.X)) {
				okLast = true
			}
		}
		r.check(okLast, rule, fmt.Sprintf("stripTsig:accept#%d", n), c.pos(ta.Pos()), "index == ARCOUNT-1", "stripTsig accepts the first TSIG it meets, wherever it stands, and drops what follows; Msg.IsTsig hands the handler the LAST record: with [TSIG of key A, valid][TSIG naming key B, made-up MAC] the verification succeeds under key A while the handler sees key B with TsigStatus() == nil, and the reply is chained on the made-up MAC")
	})
	if n == 0 {
		r.undecided(rule, "stripTsig", c.pos(fn.Pos()), "no type assertion to *TSIG found")
	}
}

// absoluteValidated: every name toAbsoluteName hands out with ok == true has itself been through IsDomainName (or
// is the origin, which the $ORIGIN / option handling validated): a relative name that is valid alone can pass 255
// octets once the origin is appended.
func absoluteValidated(c *Ctx, r *Report, rule, consequence string) {
	r.rule(rule, 1, "every name toAbsoluteName returns as valid has been checked by IsDomainName in the form it is returned in")
	fn := c.ssaFunc("toAbsoluteName")
	if fn == nil {
		r.cerr(rule, "toAbsoluteName", "function not found")
		return
	}
	r.fn("toAbsoluteName")
	name, origin := paramOf(fn, "name"), paramOf(fn, "origin")
	okOf := func(v ssa.Value) (arg ssa.Value, isOk bool) {
		ex, ok := v.(*ssa.Extract)
		if !ok || ex.Index != 1 {
			return nil, false
		}
		call, ok := ex.Tuple.(*ssa.Call)
		if !ok || calleeNameSSA(&call.Call) != "IsDomainName" {
			return nil, false
		}
		return call.Call.Args[0], true
	}
	n := 0
	var bad []string
	for _, b := range fn.Blocks {
		ret, ok := b.Instrs[len(b.Instrs)-1].(*ssa.Return)
		if !ok || len(ret.Results) != 2 {
			continue
		}
		if k, isK := constBool(ret.Results[1]); isK && !k {
			continue
		}
		n++
		for _, v := range phiLeaves(ret.Results[0]) {
			if v == origin {
				continue
			}
			if k, isK := v.(*ssa.Const); isK && k.Value != nil && constant.StringVal(k.Value) == "" {
				continue
			}
			checked := false
			if arg, isOk := okOf(ret.Results[1]); isOk && arg == v {
				checked = true
			}
			for _, f := range factsAt(fn, b) {
				if arg, isOk := okOf(f.Atom); isOk && arg == v && f.Holds {
					checked = true
				}
				// `!ok || name == ""` false: both disjuncts false
				if un, isNot := f.Atom.(*ssa.UnOp); isNot && un.Op == token.NOT && !f.Holds {
					if arg, isOk := okOf(un.X); isOk && arg == v {
						checked = true
					}
				}
			}
			if !checked {
				what := describeValue(v)
				if v == name {
					what = "the name as written"
				}
				bad = append(bad, fmt.Sprintf("%s returns %s as valid without IsDomainName having seen it", c.pos(ret.Pos()), what))
			}
		}
	}
	if n == 0 {
		r.undecided(rule, "toAbsoluteName", c.pos(fn.Pos()), "no success return found")
		return
	}
	r.check(len(bad) == 0, rule, "toAbsoluteName", c.pos(fn.Pos()), "validated as returned", "%s: %s", strings.Join(bad, "; "), consequence)
}

// aplExtentShared: how many address octets an APL prefix occupies on the wire (masked, cut at the prefix length,
// trailing zero octets trimmed, RFC 3123 4.1/4.2) is worked out the same way by APLPrefix.len and by
// packDataAplPrefix: each of them (or a helper it calls) scans the address for trailing zero octets, or neither does.
func aplExtentShared(c *Ctx, r *Report, rule, consequence string) {
	r.rule(rule, 1, "APLPrefix.len and packDataAplPrefix both trim trailing zero octets of the address (or neither does)")
	lenFn, packFn := c.ssaFunc("APLPrefix.len"), c.ssaFunc("packDataAplPrefix")
	if lenFn == nil || packFn == nil {
		r.cerr(rule, "APLPrefix.len/packDataAplPrefix", "function not found")
		return
	}
	r.fn("APLPrefix.len")
	r.fn("packDataAplPrefix")
	var trims func(fn *ssa.Function, depth int, seen map[*ssa.Function]bool) bool
	trims = func(fn *ssa.Function, depth int, seen map[*ssa.Function]bool) bool {
		if fn == nil || seen[fn] || depth > 2 || len(fn.Blocks) == 0 || fn.Pkg != lenFn.Pkg {
			return false
		}
		seen[fn] = true
		found := false
		allInstrs(fn, func(in ssa.Instruction) {
			switch t := in.(type) {
			case *ssa.BinOp:
				if t.Op != token.EQL && t.Op != token.NEQ {
					return
				}
				k, isK := constIntOf(t.Y)
				if !isK || k != 0 {
					return
				}
				ld, ok := t.X.(*ssa.UnOp)
				if !ok {
					return
				}
				ia, ok := ld.X.(*ssa.IndexAddr)
				if !ok {
					return
				}
				if bt, ok := ld.Type().Underlying().(*types.Basic); !ok || bt.Kind() != types.Uint8 {
					return
				}
				_ = ia
				// inside a loop
				blk := t.Block()
				for s := range reach(blk, nil, nil) {
					for _, q := range s.Succs {
						if q == blk {
							found = true
						}
					}
				}
			case *ssa.Call:
				if g := t.Call.StaticCallee(); g != nil && trims(g, depth+1, seen) {
					found = true
				}
			}
		})
		return found
	}
	lt, pt := trims(lenFn, 0, map[*ssa.Function]bool{}), trims(packFn, 0, map[*ssa.Function]bool{})
	r.check(lt == pt, rule, "APLPrefix", c.pos(lenFn.Pos()), fmt.Sprintf("trailing zero octets trimmed: len=%v pack=%v", lt, pt), "packDataAplPrefix trims the trailing zero octets of the address (%v), APLPrefix.len does (%v): %s", pt, lt, consequence)
}

// emptyNameAgree: packDomainName writes nothing for the empty name (the absent RDATA name of a record without
// rdata, which UnpackRR produces for every RFC 2136 delete / prerequisite entry); domainNameLen counts the same.
func emptyNameAgree(c *Ctx, r *Report, rule string) {
	r.rule(rule, 1, "domainNameLen counts for the empty name exactly what packDomainName writes for it")
	packFn, lenFn := c.ssaFunc("packDomainName"), c.ssaFunc("domainNameLen")
	if packFn == nil || lenFn == nil {
		r.cerr(rule, "packDomainName/domainNameLen", "function not found")
		return
	}
	r.fn("packDomainName")
	r.fn("domainNameLen")
	// the successor taken when the name is empty
	emptyEdge := func(fn *ssa.Function, s ssa.Value) *ssa.BasicBlock {
		var out *ssa.BasicBlock
		for _, b := range fn.Blocks {
			iff, ok := b.Instrs[len(b.Instrs)-1].(*ssa.If)
			if !ok {
				continue
			}
			bin, ok := iff.Cond.(*ssa.BinOp)
			if !ok || (bin.Op != token.EQL && bin.Op != token.NEQ) {
				continue
			}
			isEmptyTest := false
			if k, isK := bin.Y.(*ssa.Const); isK && k.Value != nil {
				if k.Value.Kind() == constant.String && constant.StringVal(k.Value) == "" && bin.X == s {
					isEmptyTest = true
				}
				if v, isInt := constIntOf(bin.Y); isInt && v == 0 {
					if call, ok := bin.X.(*ssa.Call); ok && calleeNameSSA(&call.Call) == "builtin.len" && call.Call.Args[0] == s {
						isEmptyTest = true
					}
				}
			}
			if !isEmptyTest || out != nil {
				continue
			}
			if bin.Op == token.EQL {
				out = b.Succs[0]
			} else {
				out = b.Succs[1]
			}
		}
		return out
	}
	// what the function returns there: (kind, value)
	result := func(b *ssa.BasicBlock, idx int) ssa.Value {
		if b == nil {
			return nil
		}
		for len(b.Instrs) == 1 && len(b.Succs) == 1 {
			b = b.Succs[0]
		}
		ret, ok := b.Instrs[len(b.Instrs)-1].(*ssa.Return)
		if !ok || len(b.Instrs) != 1 {
			return nil
		}
		return ret.Results[idx]
	}
	pv := result(emptyEdge(packFn, paramOf(packFn, "s")), 0)
	lv := result(emptyEdge(lenFn, paramOf(lenFn, "s")), 0)
	if pv == nil {
		r.undecided(rule, "packDomainName", c.pos(packFn.Pos()), "what packDomainName does for the empty name is not a plain return")
		return
	}
	if pv != paramOf(packFn, "off") {
		r.undecided(rule, "packDomainName", c.pos(packFn.Pos()), "packDomainName returns %s for the empty name, not its offset argument", describeValue(pv))
		return
	}
	// the packer writes 0 octets
	if lv == nil {
		r.fail(rule, "domainNameLen", c.pos(lenFn.Pos()), "packDomainName writes nothing for the empty name; domainNameLen has no case of its own for it that returns a constant, so the absent name of a record without rdata is counted although it is not packed, and Len() is not exact for a received UPDATE")
		return
	}
	k, isK := constIntOf(lv)
	r.check(isK && k == 0, rule, "domainNameLen", c.pos(lenFn.Pos()), "0 octets for the empty name", "packDomainName writes nothing for the empty name, domainNameLen counts %s for it: Len() is larger than the packed size for every record without rdata that has a name field (the delete / prerequisite entries of a received UPDATE), although the message consists of names and integers only", describeValue(lv))
}

// roomTestsNeeded: a packer refuses for lack of room with `off >= len(msg)` only where at least one octet is then
// written on every way to a success return: for a value that needs no octets (an empty octet string at the very
// end of an exactly sized buffer) such a test refuses a buffer that is large enough.
var roomTestExempt = map[string]string{
	"packOctetString:room:len(msg) <= offset": "the only success return reached without a write is the exit for a lone backslash at the end of the text, which is not valid presentation text (an escape needs a character to escape); for every other octet the write follows",
	"packTxtString:room:len(msg) <= offset":   "same exit (lone trailing backslash); the length octet has been reserved before",
}

// shortValue: a parameter or local by name, len(x), otherwise the SSA name.
func shortValue(v ssa.Value) string {
	switch t := v.(type) {
	case *ssa.Parameter:
		return t.Name()
	case *ssa.Phi:
		if t.Comment != "" {
			return t.Comment
		}
	case *ssa.Call:
		if calleeNameSSA(&t.Call) == "builtin.len" {
			return "len(" + shortValue(t.Call.Args[0]) + ")"
		}
	case *ssa.Const:
		return t.String()
	}
	return v.Name()
}

func roomTestsNeeded(c *Ctx, r *Report, rule, consequence string) {
	dup := map[string]int{}
	r.rule(rule, 3, "every `off >= len(msg)` refusal in a packer is followed by a write into msg on every path to a success return")
	n := 0
	var fns []*ssa.Function
	for _, fn := range c.allFuncs() {
		if fn.Synthetic == "" && strings.HasPrefix(fn.Name(), "pack") && len(fn.Blocks) > 0 {
			fns = append(fns, fn)
		}
	}
	sort.Slice(fns, func(i, j int) bool { return fnDisplay(fns[i]) < fnDisplay(fns[j]) })
	for _, fn := range fns {
		var msg ssa.Value
		for _, p := range fn.Params {
			if p.Name() == "msg" {
				msg = p
			}
		}
		if msg == nil {
			continue
		}
		isLenMsg := func(v ssa.Value) bool {
			call, ok := v.(*ssa.Call)
			return ok && calleeNameSSA(&call.Call) == "builtin.len" && call.Call.Args[0] == msg
		}
		writes := func(in ssa.Instruction) bool {
			switch t := in.(type) {
			case *ssa.Store:
				if ia, ok := t.Addr.(*ssa.IndexAddr); ok {
					return anyIn(sliceOf(ia.X), func(v ssa.Value) bool { return v == msg })
				}
			case *ssa.Call:
				for _, a := range t.Call.Args {
					if _, isSl := a.Type().Underlying().(*types.Slice); isSl && anyIn(sliceOf(a), func(v ssa.Value) bool { return v == msg }) {
						if calleeNameSSA(&t.Call) != "builtin.len" && calleeNameSSA(&t.Call) != "builtin.cap" {
							return true
						}
					}
				}
			}
			return false
		}
		k := 0
		for _, b := range fn.Blocks {
			iff, ok := b.Instrs[len(b.Instrs)-1].(*ssa.If)
			if !ok {
				continue
			}
			bin, ok := iff.Cond.(*ssa.BinOp)
			if !ok {
				continue
			}
			refuseEqual := (bin.Op == token.GEQ && isLenMsg(bin.Y)) || (bin.Op == token.LEQ && isLenMsg(bin.X))
			if !refuseEqual {
				continue
			}
			// the true edge refuses
			tb := b.Succs[0]
			if _, isRet := tb.Instrs[len(tb.Instrs)-1].(*ssa.Return); !isRet {
				continue
			}
			n++
			k++
			construct := fmt.Sprintf("%s:room:%s %s %s", fnDisplay(fn), shortValue(bin.X), bin.Op, shortValue(bin.Y))
			if dup[construct] > 0 {
				construct += fmt.Sprintf("#%d", dup[construct]+1)
			}
			dup[construct]++
			r.fn(fnDisplay(fn))
			if why, ok := roomTestExempt[construct]; ok {
				r.ok(rule, construct, c.pos(iff.Cond.Pos()), "exempt: "+why)
				continue
			}
			var bad []string
			seen := map[*ssa.BasicBlock]bool{}
			stack := []*ssa.BasicBlock{b.Succs[1]}
			for len(stack) > 0 {
				x := stack[len(stack)-1]
				stack = stack[:len(stack)-1]
				if seen[x] {
					continue
				}
				seen[x] = true
				wrote := false
				for _, in := range x.Instrs {
					if writes(in) {
						wrote = true
						break
					}
					if ret, ok := in.(*ssa.Return); ok {
						last := ret.Results[len(ret.Results)-1]
						if kk, isK := last.(*ssa.Const); isK && kk.Value == nil {
							bad = append(bad, c.pos(ret.Pos()))
						}
					}
				}
				if !wrote {
					stack = append(stack, x.Succs...)
				}
			}
			sort.Strings(bad)
			r.check(len(bad) == 0, rule, construct, c.pos(iff.Cond.Pos()), "an octet is written afterwards", "the test refuses a buffer that is full although the success return at %s is reached without anything being written: %s", strings.Join(uniqStrings(bad), ", "), consequence)
		}
	}
	if n == 0 {
		r.undecided(rule, "packers", "", "no `off >= len(msg)` refusal found")
	}
}

// shutdownReleased: ActivateAndServe marks the server started and releases the lock before it calls serveUDP /
// serveTCP; from then on a Shutdown may see started == true and wait for srv.shutdown to be closed. So every way out
// of serveUDP and serveTCP closes that channel: a deferred close installed before, or a close on the way.
func shutdownReleased(c *Ctx, r *Report, rule string) {
	r.rule(rule, 2, "every return of serveUDP and serveTCP is preceded by close(srv.shutdown), deferred or direct")
	closesShutdown := func(fn *ssa.Function) bool {
		found := false
		allInstrs(fn, func(in ssa.Instruction) {
			call, ok := in.(*ssa.Call)
			if ok && calleeNameSSA(&call.Call) == "builtin.close" && isDrainChan(call.Call.Args[0], 0) {
				found = true
			}
		})
		return found
	}
	for _, name := range []string{"Server.serveUDP", "Server.serveTCP"} {
		fn := c.ssaFunc(name)
		if fn == nil {
			r.cerr(rule, name, "function not found")
			continue
		}
		r.fn(name)
		var closers []ssa.Instruction
		allInstrs(fn, func(in ssa.Instruction) {
			switch t := in.(type) {
			case *ssa.Defer:
				if mc, ok := t.Call.Value.(*ssa.MakeClosure); ok {
					if g, ok := mc.Fn.(*ssa.Function); ok && closesShutdown(g) {
						closers = append(closers, t)
					}
				}
			case *ssa.Call:
				if calleeNameSSA(&t.Call) == "builtin.close" && isDrainChan(t.Call.Args[0], 0) {
					closers = append(closers, t)
				}
			}
		})
		var bad []string
		n := 0
		for _, b := range fn.Blocks {
			ret, ok := b.Instrs[len(b.Instrs)-1].(*ssa.Return)
			if !ok || b == fn.Recover {
				continue
			}
			n++
			okRet := false
			for _, cl := range closers {
				if cl.Block() == b || cl.Block().Dominates(b) {
					okRet = true
				}
			}
			if !okRet {
				bad = append(bad, c.pos(ret.Pos()))
			}
		}
		sort.Strings(bad)
		r.check(n > 0 && len(bad) == 0, rule, name, c.pos(fn.Pos()), fmt.Sprintf("%d returns, all behind a close", n), "%s returns at %s without srv.shutdown having been closed or its deferred close installed: a Shutdown that saw the server as started in between (ActivateAndServe releases the lock before it calls %s) waits for that channel for ever", name, strings.Join(bad, ", "), name)
	}
}

// poolGetSize: a Server value can be started again with another UDPSize; Server.init only replaces the pool's
// constructor, so buffers of the previous size may still be in the pool. A buffer taken from the pool is handed to
// a read (or returned to a reader) only where its length is known to equal srv.UDPSize, unless init replaces the
// whole pool.
func poolGetSize(c *Ctx, r *Report, rule, consequence string) {
	r.rule(rule, 1, "a buffer taken from the UDP pool is used only where len(m) == srv.UDPSize has been established (or Server.init replaces the pool as a whole)")
	if init := c.ssaFunc("Server.init"); init != nil {
		whole := false
		allInstrs(init, func(in ssa.Instruction) {
			if st, ok := in.(*ssa.Store); ok {
				if fa, ok := st.Addr.(*ssa.FieldAddr); ok && fieldNameOf(fa) == "udpPool" {
					whole = true
				}
			}
		})
		if whole {
			r.fn("Server.init")
			r.ok(rule, "Server.init:pool", c.pos(init.Pos()), "init replaces the whole pool")
			r.ok(rule, "Server.init:pool#2", c.pos(init.Pos()), "init replaces the whole pool")
			return
		}
	}
	n := 0
	var fns []*ssa.Function
	for _, fn := range c.allFuncs() {
		if fn.Synthetic == "" {
			fns = append(fns, fn)
		}
	}
	sort.Slice(fns, func(i, j int) bool { return fnDisplay(fns[i]) < fnDisplay(fns[j]) })
	for _, fn := range fns {
		k := 0
		allInstrs(fn, func(in ssa.Instruction) {
			ta, ok := in.(*ssa.TypeAssert)
			if !ok {
				return
			}
			call, ok := ta.X.(*ssa.Call)
			if !ok || calleeNameSSA(&call.Call) != "(sync.Pool).Get" || !anyIn(sliceOf(call.Call.Args[0]), readsField("Server", "udpPool")) {
				return
			}
			n++
			k++
			construct := fmt.Sprintf("%s:Get#%d", fnDisplay(fn), k)
			r.fn(fnDisplay(fn))
			sized := func(blk *ssa.BasicBlock) bool {
				for _, f := range factsAt(fn, blk) {
					bin, ok := f.Atom.(*ssa.BinOp)
					if !ok {
						continue
					}
					eq := (bin.Op == token.EQL && f.Holds) || (bin.Op == token.NEQ && !f.Holds)
					if !eq {
						continue
					}
					isLen := func(v ssa.Value) bool {
						lc, ok := v.(*ssa.Call)
						return ok && (calleeNameSSA(&lc.Call) == "builtin.len" || calleeNameSSA(&lc.Call) == "builtin.cap") && lc.Call.Args[0] == ssa.Value(ta)
					}
					isSize := func(v ssa.Value) bool { return anyIn(sliceOf(v), readsField("Server", "UDPSize")) }
					if (isLen(bin.X) && isSize(bin.Y)) || (isLen(bin.Y) && isSize(bin.X)) {
						return true
					}
				}
				return false
			}
			var bad []string
			var visit func(v ssa.Value, seen map[ssa.Value]bool)
			visit = func(v ssa.Value, seen map[ssa.Value]bool) {
				if seen[v] {
					return
				}
				seen[v] = true
				for _, ref := range *v.Referrers() {
					switch t := ref.(type) {
					case *ssa.Phi:
						for i, e := range t.Edges {
							if e == v && !sized(t.Block().Preds[i]) {
								// the unsized buffer flows on through the phi
								visit(t, seen)
							}
						}
					case *ssa.Call:
						name := calleeNameSSA(&t.Call)
						if name == "builtin.len" || name == "builtin.cap" || name == "(sync.Pool).Put" {
							continue
						}
						if !sized(t.Block()) {
							bad = append(bad, fmt.Sprintf("%s hands it to %s", c.pos(t.Pos()), name))
						}
					case *ssa.Return:
						if !sized(t.Block()) {
							bad = append(bad, fmt.Sprintf("%s returns it", c.pos(t.Pos())))
						}
					case *ssa.Slice:
						if !sized(t.Block()) {
							visit(t, seen)
						}
					case *ssa.MakeInterface:
						// Put(m)
					}
				}
			}
			visit(ta, map[ssa.Value]bool{})
			sort.Strings(bad)
			r.check(len(bad) == 0, rule, construct, c.pos(ta.Pos()), "len(m) == srv.UDPSize", "a buffer from the pool is used without its size having been compared with srv.UDPSize (%s): %s", strings.Join(uniqStrings(bad), "; "), consequence)
		})
	}
	if n == 0 {
		r.undecided(rule, "udpPool.Get", "", "no Get on the UDP pool found")
	}
}

// tsigStubKept: TsigGenerateWithProvider takes the stub TSIG off the caller's message to pack the rest; the
// caller's message has it back on every way out, so the same message can be signed and sent again (a retry over
// TCP after a truncated answer, the next refresh of a transfer).
func tsigStubKept(c *Ctx, r *Report, rule, consequence string) {
	r.rule(rule, 1, "every return of TsigGenerateWithProvider after the TSIG was taken off m.Extra is preceded by a store that puts it back")
	fn := c.ssaFunc("TsigGenerateWithProvider")
	if fn == nil {
		r.cerr(rule, "TsigGenerateWithProvider", "function not found")
		return
	}
	r.fn("TsigGenerateWithProvider")
	m := fn.Params[0]
	var shorten, restore []*ssa.Store
	allInstrs(fn, func(in ssa.Instruction) {
		st, ok := in.(*ssa.Store)
		if !ok {
			return
		}
		fa, ok := st.Addr.(*ssa.FieldAddr)
		if !ok || fieldNameOf(fa) != "Extra" || fa.X != ssa.Value(m) {
			return
		}
		switch v := st.Val.(type) {
		case *ssa.Slice:
			// m.Extra[0 : len-1]
			if bin, ok := v.High.(*ssa.BinOp); ok && bin.Op == token.SUB {
				shorten = append(shorten, st)
				return
			}
			restore = append(restore, st)
		case *ssa.Call:
			if calleeNameSSA(&v.Call) == "builtin.append" {
				restore = append(restore, st)
			}
		default:
			restore = append(restore, st)
		}
	})
	if len(shorten) == 0 {
		r.ok(rule, "TsigGenerateWithProvider", c.pos(fn.Pos()), "the caller's additional section is never shortened")
		return
	}
	var bad []string
	for _, s := range shorten {
		for b := range reach(s.Block(), nil, nil) {
			ret, ok := b.Instrs[len(b.Instrs)-1].(*ssa.Return)
			if !ok {
				continue
			}
			okRet := false
			for _, rs := range restore {
				after := rs.Block() != s.Block() || precedes(s, rs)
				if after && (rs.Block() == b || rs.Block().Dominates(b)) && (rs.Block() == s.Block() || reach(s.Block(), nil, nil)[rs.Block()]) {
					okRet = true
				}
			}
			if !okRet {
				bad = append(bad, c.pos(ret.Pos()))
			}
		}
	}
	sort.Strings(bad)
	r.check(len(bad) == 0, rule, "TsigGenerateWithProvider", c.pos(fn.Pos()), "stub restored on every way out", "the TSIG taken off the caller's message at %s is not put back before the return at %s: %s", c.pos(shorten[0].Pos()), strings.Join(uniqStrings(bad), ", "), consequence)
}
