package main

// E1 — wire-layout table and per-type sibling conformance (AST + types).

import (
	"fmt"
	"go/ast"
	"go/token"
	"go/types"
	"strings"
)

// ---- kind table: (Go type, tag) -> wire kind ----

// kind strings: u8 u16 u32 u48 u64 cs cs+ C N N* v4 v6 hex b64 b32 raw text bm opt svc apl gw gwaddr(non-wire)
// sized blobs are written kind@LengthField.
func typeStr(t types.Type) string {
	return types.TypeString(t, func(p *types.Package) string {
		if p.Path() == dnsPath {
			return ""
		}
		return p.Name()
	})
}

func kindOf(f wireField) (string, error) {
	ts := typeStr(f.Type)
	tag := f.Tag
	switch {
	case tag == "-":
		return "-", nil
	case strings.HasPrefix(tag, "size-"):
		rest := strings.TrimPrefix(tag, "size-")
		enc, lenField, ok := strings.Cut(rest, ":")
		if !ok || ts != "string" {
			return "", fmt.Errorf("malformed size tag %q on %s", tag, ts)
		}
		m := map[string]string{"hex": "hex", "base64": "b64", "base32": "b32"}
		if m[enc] == "" {
			return "", fmt.Errorf("unknown sized encoding %q", enc)
		}
		return m[enc] + "@" + lenField, nil
	}
	key := ts + "|" + tag
	tbl := map[string]string{
		"uint8|":               "u8",
		"uint16|":              "u16",
		"uint32|":              "u32",
		"uint64|":              "u64",
		"uint64|uint48":        "u48",
		"string|":              "cs",
		"string|txt":           "cs",
		"[]string|txt":         "cs+",
		"string|cdomain-name":  "C",
		"string|domain-name":   "N",
		"[]string|domain-name": "N*",
		"net.IP|a":             "v4",
		"net.IP|aaaa":          "v6",
		"string|hex":           "hex",
		"string|base64":        "b64",
		"string|base32":        "b32",
		"string|any":           "raw",
		"string|octet":         "text",
		"[]uint16|nsec":        "bm",
		"[]EDNS0|opt":          "opt",
		"[]SVCBKeyValue|pairs": "svc",
		"[]APLPrefix|apl":      "apl",
		"string|ipsechost":     "gw",
		"string|amtrelayhost":  "gw",
	}
	if k, ok := tbl[key]; ok {
		return k, nil
	}
	return "", fmt.Errorf("no wire kind for Go type %s with tag %q", ts, tag)
}

func baseKind(k string) string {
	if i := strings.IndexByte(k, '@'); i >= 0 {
		return k[:i]
	}
	return k
}

// ---- helper table: kind -> codec helpers ----

type helperPair struct{ pack, unpack string }

var helperTable = map[string]helperPair{
	"u8":   {"packUint8", "unpackUint8"},
	"u16":  {"packUint16", "unpackUint16"},
	"u32":  {"packUint32", "unpackUint32"},
	"u48":  {"packUint48", "unpackUint48"},
	"u64":  {"packUint64", "unpackUint64"},
	"cs":   {"packString", "unpackString"},
	"cs+":  {"packStringTxt", "unpackStringTxt"},
	"C":    {"packDomainName", "UnpackDomainName"},
	"N":    {"packDomainName", "UnpackDomainName"},
	"N*":   {"packDataDomainNames", "unpackDataDomainNames"},
	"v4":   {"packDataA", "unpackDataA"},
	"v6":   {"packDataAAAA", "unpackDataAAAA"},
	"hex":  {"packStringHex", "unpackStringHex"},
	"b64":  {"packStringBase64", "unpackStringBase64"},
	"b32":  {"packStringBase32", "unpackStringBase32"},
	"raw":  {"packStringAny", "unpackStringAny"},
	"text": {"packStringOctet", "unpackStringOctet"},
	"bm":   {"packDataNsec", "unpackDataNsec"},
	"opt":  {"packDataOpt", "unpackDataOpt"},
	"svc":  {"packDataSVCB", "unpackDataSVCB"},
	"apl":  {"packDataApl", "unpackDataApl"},
	"gw":   {"packIPSECGateway", "unpackIPSECGateway"},
}

var allPackHelpers, allUnpackHelpers = func() (map[string]bool, map[string]bool) {
	p, u := map[string]bool{}, map[string]bool{}
	for _, h := range helperTable {
		p[h.pack] = true
		u[h.unpack] = true
	}
	return p, u
}()

// ---- RFC layout table (independent of the code; authored from the RFCs, see DESIGN.md Appendix B) ----

// rfcFieldOrder: RDATA field order by (Go) field name for every type with more than one wire field, authored
// from the RFCs' RDATA format sections (RFC 1035 s.3.3, 1183, 1712, 1876, 2163, 2230, 2782, 3403, 4034, 4025, 4255,
// 4398, 5155, 6698, 6742, 7477, 7553, 8005, 8659, 8777, 8945, 8976, 9460, 2930). Embedded types use their base's order.
var rfcFieldOrder = map[string]string{
	"HINFO": "Cpu Os", "MINFO": "Rmail Email", "MX": "Preference Mx", "AFSDB": "Subtype Hostname",
	"ISDN": "Address SubAddress", "RT": "Preference Host", "RP": "Mbox Txt",
	"SOA":   "Ns Mbox Serial Refresh Retry Expire Minttl",
	"SRV":   "Priority Weight Port Target",
	"NAPTR": "Order Preference Flags Service Regexp Replacement",
	"CERT":  "Type KeyTag Algorithm Certificate",
	"PX":    "Preference Map822 Mapx400", "GPOS": "Longitude Latitude Altitude",
	"LOC":   "Version Size HorizPre VertPre Latitude Longitude Altitude",
	"RRSIG": "TypeCovered Algorithm Labels OrigTtl Expiration Inception KeyTag SignerName Signature",
	"SIG":   "TypeCovered Algorithm Labels OrigTtl Expiration Inception KeyTag SignerName Signature",
	"NSEC":  "NextDomain TypeBitMap", "NXT": "NextDomain TypeBitMap",
	"DS": "KeyTag Algorithm DigestType Digest", "CDS": "KeyTag Algorithm DigestType Digest", "DLV": "KeyTag Algorithm DigestType Digest", "TA": "KeyTag Algorithm DigestType Digest",
	"KX": "Preference Exchanger", "TALINK": "PreviousName NextName", "SSHFP": "Algorithm Type FingerPrint",
	"DNSKEY": "Flags Protocol Algorithm PublicKey", "KEY": "Flags Protocol Algorithm PublicKey", "CDNSKEY": "Flags Protocol Algorithm PublicKey", "RKEY": "Flags Protocol Algorithm PublicKey",
	"IPSECKEY":   "Precedence GatewayType Algorithm GatewayHost PublicKey",
	"AMTRELAY":   "Precedence GatewayType GatewayHost",
	"NSEC3":      "Hash Flags Iterations SaltLength Salt HashLength NextDomain TypeBitMap",
	"NSEC3PARAM": "Hash Flags Iterations SaltLength Salt",
	"TKEY":       "Algorithm Inception Expiration Mode Error KeySize Key OtherLen OtherData",
	"URI":        "Priority Weight Target",
	"TLSA":       "Usage Selector MatchingType Certificate", "SMIMEA": "Usage Selector MatchingType Certificate",
	"HIP": "HitLength PublicKeyAlgorithm PublicKeyLength Hit PublicKey RendezvousServers",
	"NID": "Preference NodeID", "L32": "Preference Locator32", "L64": "Preference Locator64", "LP": "Preference Fqdn",
	"CAA": "Flag Tag Value", "CSYNC": "Serial Flags TypeBitMap", "ZONEMD": "Serial Scheme Hash Digest",
	"SVCB": "Priority Target Value", "HTTPS": "Priority Target Value",
	"TSIG": "Algorithm TimeSigned Fudge MACSize MAC OrigId Error OtherLen OtherData",
}

var rfcLayout = map[string]string{
	"A": "v4", "NS": "C", "MD": "C", "MF": "C", "CNAME": "C", "MB": "C", "MG": "C", "MR": "C", "PTR": "C",
	"SOA":   "C C u32 u32 u32 u32 u32",
	"NULL":  "raw",
	"HINFO": "cs cs", "MINFO": "C C", "MX": "u16 C",
	"TXT": "cs+", "SPF": "cs+", "AVC": "cs+", "NINFO": "cs+", "RESINFO": "cs+",
	"RP": "N N", "AFSDB": "u16 N", "X25": "cs", "ISDN": "cs cs", "RT": "u16 N", "NSAPPTR": "N",
	"SIG":   "u16 u8 u8 u32 u32 u32 u16 N b64",
	"RRSIG": "u16 u8 u8 u32 u32 u32 u16 N b64",
	"KEY":   "u16 u8 u8 b64", "DNSKEY": "u16 u8 u8 b64", "CDNSKEY": "u16 u8 u8 b64", "RKEY": "u16 u8 u8 b64",
	"PX": "u16 N N", "GPOS": "cs cs cs", "AAAA": "v6",
	"LOC": "u8 u8 u8 u8 u32 u32 u32",
	"NXT": "N bm", "NSEC": "N bm",
	"EID": "hex", "NIMLOC": "hex",
	"SRV":   "u16 u16 u16 N",
	"NAPTR": "u16 u16 cs cs cs N",
	"KX":    "u16 N", "CERT": "u16 u16 u8 b64", "DNAME": "N",
	"OPT": "opt", "APL": "apl",
	"DS": "u16 u8 u8 hex", "CDS": "u16 u8 u8 hex", "DLV": "u16 u8 u8 hex", "TA": "u16 u8 u8 hex",
	"SSHFP":      "u8 u8 hex",
	"IPSECKEY":   "u8 u8 u8 gw b64",
	"DHCID":      "b64",
	"NSEC3":      "u8 u8 u16 u8 hex@SaltLength u8 b32@HashLength bm",
	"NSEC3PARAM": "u8 u8 u16 u8 hex@SaltLength",
	"TLSA":       "u8 u8 u8 hex", "SMIMEA": "u8 u8 u8 hex",
	"HIP":        "u8 u8 u16 hex@HitLength b64@PublicKeyLength N*",
	"TALINK":     "N N",
	"OPENPGPKEY": "b64",
	"CSYNC":      "u32 u16 bm",
	"ZONEMD":     "u32 u8 u8 hex",
	"SVCB":       "u16 N svc", "HTTPS": "u16 N svc",
	"UINFO": "cs", "UID": "u32", "GID": "u32",
	"NID": "u16 u64", "L64": "u16 u64", "L32": "u16 v4", "LP": "u16 N",
	"EUI48": "u48", "EUI64": "u64",
	"URI":      "u16 u16 text",
	"CAA":      "u8 cs text",
	"AMTRELAY": "u8 u8 gw",
	"TKEY":     "N u32 u32 u16 u16 u16 hex@KeySize u16 hex@OtherLen",
	"TSIG":     "N u48 u16 u16 hex@MACSize u16 u16 u16 hex@OtherLen",
	"ANY":      "", "NXNAME": "",
	"RFC3597": "hex",
	// side structs (RFC 8945 §4.3.3, RFC 4034 §3.1.8.1, §5.1.4)
	"tsigWireFmt":   "N u16 u32 N u48 u16 u16 u16 hex@OtherLen",
	"macWireFmt":    "u16 hex@MACSize",
	"timerWireFmt":  "u48 u16",
	"rrsigWireFmt":  "u16 u8 u8 u32 u32 u32 u16 N",
	"dnskeyWireFmt": "u16 u8 u8 b64",
}

// wireKinds returns the kinds of the wire fields (dns:"-" dropped).
func wireKinds(fs []wireField) ([]string, []wireField, error) {
	var ks []string
	var wf []wireField
	for _, f := range fs {
		k, err := kindOf(f)
		if err != nil {
			return nil, nil, fmt.Errorf("field %s: %v", f.Name, err)
		}
		if k == "-" {
			continue
		}
		ks = append(ks, k)
		wf = append(wf, f)
	}
	return ks, wf, nil
}

// ---- codec call extraction ----

type codecCall struct {
	Helper   string
	Call     *ast.CallExpr
	Assign   *ast.AssignStmt
	Fields   []*types.Var // fields read by leading field args (pack) or assigned (unpack)
	Compress string       // "param" | "false" | "true" | "other" | "" (no compress arg)
	EndExpr  ast.Expr     // unpack: third argument if any
	SelField *types.Var   // unpack: the union selector field passed as third argument
	SelMask  int64        // mask applied to the union selector argument (-1: none)
	Guard    string       // rendering of an enclosing if condition that is not an error check, "" if none
	ErrOK    bool         // result error is tested and returned before the next codec call
	Pos      token.Pos
	Problems []string
}

type codecBody struct {
	Calls        []*codecCall
	StrayWrites  []string // assignments to off / rr fields outside codec calls
	FinalReturns []string
}

// analyseCodecBody walks a pack (dir="pack") or unpack body in source order.
func (c *Ctx) analyseCodecBody(fd *ast.FuncDecl, dir string, helpers map[string]bool) *codecBody {
	cb := &codecBody{}
	recv := c.recvObj(fd)
	msgP := c.paramByName(fd, "msg")
	offP := c.paramByName(fd, "off")
	compP := c.paramByName(fd, "compress")
	comprP := c.paramByName(fd, "compression")
	isErrNilCheck := func(e ast.Expr) (types.Object, bool) {
		b, ok := ast.Unparen(e).(*ast.BinaryExpr)
		if !ok || b.Op != token.NEQ {
			return nil, false
		}
		id, ok := ast.Unparen(b.X).(*ast.Ident)
		if !ok {
			return nil, false
		}
		if tv, ok := c.Info.Types[b.Y]; !ok || !tv.IsNil() {
			return nil, false
		}
		return c.Info.Uses[id], true
	}
	var walkBlock func(list []ast.Stmt, guard string)
	// retMode: the statement handled is `return H(...)`, the last codec call handing its offset and error straight on
	retMode := false
	handleAssign := func(as *ast.AssignStmt, next ast.Stmt, ifInit *ast.IfStmt, guard string) bool {
		if len(as.Rhs) != 1 {
			return false
		}
		call, ok := ast.Unparen(as.Rhs[0]).(*ast.CallExpr)
		if !ok {
			return false
		}
		name := c.calleeName(call)
		if !helpers[name] {
			return false
		}
		cc := &codecCall{Helper: name, Call: call, Assign: as, Pos: call.Pos(), Guard: guard, SelMask: -1}
		// selector argument possibly masked: rr.F & K
		maskedField := func(a ast.Expr) (*types.Var, int64, bool) {
			be, ok := ast.Unparen(a).(*ast.BinaryExpr)
			if !ok || be.Op != token.AND {
				return nil, 0, false
			}
			if f := c.fieldOf(be.X); f != nil {
				if k, ok := c.exprConst(be.Y); ok {
					return f, k, true
				}
			}
			if f := c.fieldOf(be.Y); f != nil {
				if k, ok := c.exprConst(be.X); ok {
					return f, k, true
				}
			}
			return nil, 0, false
		}
		prob := func(f string, a ...interface{}) { cc.Problems = append(cc.Problems, fmt.Sprintf(f, a...)) }
		var errObj types.Object
		if dir == "pack" {
			// off, err = H(rr.F..., msg, off, ...)
			if !retMode && (len(as.Lhs) != 2 || !c.isIdentOf(as.Lhs[0], offP)) {
				prob("result offset is not assigned back to parameter off")
			}
			if len(as.Lhs) == 2 {
				if id, ok := as.Lhs[1].(*ast.Ident); ok {
					errObj = c.Info.Uses[id]
					if errObj == nil {
						errObj = c.Info.Defs[id]
					}
				}
			}
			i := 0
			for ; i < len(call.Args); i++ {
				if c.isIdentOf(call.Args[i], msgP) {
					break
				}
				p, ok := c.fieldPath(call.Args[i], recv)
				if !ok || p == "" {
					prob("argument %d (%s) is not a field of the receiver", i, types.ExprString(call.Args[i]))
					continue
				}
				cc.Fields = append(cc.Fields, c.fieldOf(call.Args[i]))
			}
			if i >= len(call.Args) || i+1 >= len(call.Args) || !c.isIdentOf(call.Args[i+1], offP) {
				prob("does not thread (msg, off)")
			} else {
				rest := call.Args[i+2:]
				// gateway: next is rr.GatewayType (a field); then compression, compress
				for _, a := range rest {
					switch {
					case c.isIdentOf(a, comprP):
					case c.isIdentOf(a, compP):
						cc.Compress = "param"
					default:
						if tv, ok := c.Info.Types[a]; ok && tv.Value != nil && types.Identical(tv.Type.Underlying(), types.Typ[types.Bool]) || (ok && tv.Value != nil && tv.Type == types.Typ[types.UntypedBool]) {
							cc.Compress = tv.Value.String()
						} else if f := c.fieldOf(a); f != nil {
							cc.Fields = append(cc.Fields, f)
						} else if f, k, ok := maskedField(a); ok {
							cc.Fields = append(cc.Fields, f)
							cc.SelMask = k
						} else {
							cc.EndExpr = a
						}
					}
				}
			}
		} else {
			// rr.F[, rr.G], off, err = H(msg, off[, end|rr.T])
			n := len(as.Lhs)
			if n < 3 || !c.isIdentOf(as.Lhs[n-2], offP) {
				prob("result offset is not assigned back to parameter off")
			}
			if n >= 1 {
				if id, ok := as.Lhs[n-1].(*ast.Ident); ok {
					errObj = c.Info.Uses[id]
					if errObj == nil {
						errObj = c.Info.Defs[id]
					}
				}
			}
			for i := 0; i+2 < n; i++ {
				p, ok := c.fieldPath(as.Lhs[i], recv)
				if !ok || p == "" {
					prob("result %d is stored in %s, not a field of the receiver", i, types.ExprString(as.Lhs[i]))
					continue
				}
				cc.Fields = append(cc.Fields, c.fieldOf(as.Lhs[i]))
			}
			if len(call.Args) < 2 || !c.isIdentOf(call.Args[0], msgP) || !c.isIdentOf(call.Args[1], offP) {
				prob("does not thread (msg, off)")
			}
			if len(call.Args) >= 3 {
				cc.EndExpr = call.Args[2]
				if f, k, ok := maskedField(call.Args[2]); ok {
					cc.SelMask = k
					cc.SelField = f
				} else if f := c.fieldOf(call.Args[2]); f != nil {
					cc.SelField = f
				}
			}
		}
		// error check idiom
		checkIf := func(ifs *ast.IfStmt) bool {
			o, ok := isErrNilCheck(ifs.Cond)
			if !ok || o != errObj || errObj == nil {
				return false
			}
			if len(ifs.Body.List) == 0 {
				return false
			}
			ret, ok := ifs.Body.List[len(ifs.Body.List)-1].(*ast.ReturnStmt)
			if !ok || len(ret.Results) != 2 {
				return false
			}
			// error result must mention err (err itself or a wrap of it), never nil
			if tv, ok := c.Info.Types[ret.Results[1]]; ok && tv.IsNil() {
				return false
			}
			mentions := false
			ast.Inspect(ret.Results[1], func(n ast.Node) bool {
				if id, ok := n.(*ast.Ident); ok && c.Info.Uses[id] == errObj {
					mentions = true
				}
				return true
			})
			return mentions
		}
		if retMode {
			cc.ErrOK = true
		} else if ifInit != nil {
			cc.ErrOK = checkIf(ifInit)
		} else if nx, ok := next.(*ast.IfStmt); ok && nx.Init == nil {
			cc.ErrOK = checkIf(nx)
		}
		cb.Calls = append(cb.Calls, cc)
		return true
	}
	isStray := func(as *ast.AssignStmt) {
		for _, l := range as.Lhs {
			if c.isIdentOf(l, offP) && as.Tok != token.DEFINE {
				cb.StrayWrites = append(cb.StrayWrites, c.pos(as.Pos())+": "+types.ExprString(l))
			}
			if p, ok := c.fieldPath(l, recv); ok && p != "" {
				cb.StrayWrites = append(cb.StrayWrites, c.pos(as.Pos())+": "+types.ExprString(l))
			}
		}
	}
	walkBlock = func(list []ast.Stmt, guard string) {
		for i, s := range list {
			var next ast.Stmt
			if i+1 < len(list) {
				next = list[i+1]
			}
			switch st := s.(type) {
			case *ast.AssignStmt:
				if !handleAssign(st, next, nil, guard) {
					isStray(st)
				}
			case *ast.IncDecStmt:
				if c.isIdentOf(st.X, offP) {
					cb.StrayWrites = append(cb.StrayWrites, c.pos(st.Pos())+": "+types.ExprString(st.X))
				}
			case *ast.IfStmt:
				if as, ok := st.Init.(*ast.AssignStmt); ok {
					if handleAssign(as, nil, st, guard) {
						continue
					}
					isStray(as)
				}
				if _, ok := isErrNilCheck(st.Cond); ok {
					// error check of the previous call: body must not contain codec calls
					walkBlock(st.Body.List, guard+" errcheck")
					continue
				}
				g := types.ExprString(st.Cond)
				if guard != "" {
					g = guard + " && " + g
				}
				walkBlock(st.Body.List, g)
				if st.Else != nil {
					if eb, ok := st.Else.(*ast.BlockStmt); ok {
						walkBlock(eb.List, "!("+g+")")
					} else {
						walkBlock([]ast.Stmt{st.Else}, "!("+g+")")
					}
				}
			case *ast.BlockStmt:
				walkBlock(st.List, guard)
			case *ast.ForStmt:
				walkBlock(st.Body.List, guard+" loop")
			case *ast.RangeStmt:
				walkBlock(st.Body.List, guard+" loop")
			case *ast.SwitchStmt:
				for _, cl := range st.Body.List {
					walkBlock(cl.(*ast.CaseClause).Body, guard+" switch")
				}
			case *ast.ReturnStmt:
				if guard == "" && dir == "pack" && len(st.Results) == 1 {
					// return H(rr.F, msg, off, ...): the codec's (off, err) are the method's results
					retMode = true
					handled := handleAssign(&ast.AssignStmt{Rhs: st.Results}, nil, nil, guard)
					retMode = false
					if handled {
						cb.FinalReturns = append(cb.FinalReturns, "off, nil")
						continue
					}
				}
				if guard == "" {
					var parts []string
					for _, r := range st.Results {
						parts = append(parts, types.ExprString(r))
					}
					cb.FinalReturns = append(cb.FinalReturns, strings.Join(parts, ", "))
				}
			}
		}
	}
	walkBlock(fd.Body.List, "")
	return cb
}

func fieldNames(vs []*types.Var) string {
	var s []string
	for _, v := range vs {
		if v == nil {
			s = append(s, "?")
		} else {
			s = append(s, v.Name())
		}
	}
	return strings.Join(s, ",")
}

// isRdEnd recognises rdStart + int(rr.Hdr.Rdlength) where rdStart := off is the first statement.
func (c *Ctx) isRdEnd(fd *ast.FuncDecl, e ast.Expr) bool {
	b, ok := ast.Unparen(e).(*ast.BinaryExpr)
	if !ok || b.Op != token.ADD {
		return false
	}
	x, y := ast.Unparen(b.X), ast.Unparen(b.Y)
	if _, ok := x.(*ast.Ident); !ok {
		x, y = y, x
	}
	id, ok := x.(*ast.Ident)
	if !ok {
		return false
	}
	// id must be a local defined as `id := off` in the first statement of the body
	if len(fd.Body.List) == 0 {
		return false
	}
	as, ok := fd.Body.List[0].(*ast.AssignStmt)
	if !ok || as.Tok != token.DEFINE || len(as.Lhs) != 1 || len(as.Rhs) != 1 {
		return false
	}
	def, ok := as.Lhs[0].(*ast.Ident)
	if !ok || c.Info.Defs[def] != c.Info.Uses[id] || !c.isIdentOf(as.Rhs[0], c.paramByName(fd, "off")) {
		return false
	}
	// no other assignment to id
	n := 0
	ast.Inspect(fd.Body, func(nd ast.Node) bool {
		if a, ok := nd.(*ast.AssignStmt); ok {
			for _, l := range a.Lhs {
				if lid, ok := l.(*ast.Ident); ok && (c.Info.Uses[lid] == c.Info.Defs[def] || c.Info.Defs[lid] == c.Info.Defs[def]) && lid.Name != "_" {
					n++
				}
			}
		}
		return true
	})
	if n != 1 {
		return false
	}
	conv, ok := y.(*ast.CallExpr)
	if !ok || len(conv.Args) != 1 {
		return false
	}
	if tv, ok := c.Info.Types[conv.Fun]; !ok || !tv.IsType() {
		return false
	}
	p, ok := c.fieldPath(conv.Args[0], c.recvObj(fd))
	return ok && p == "Hdr.Rdlength"
}

// isOffPlusField recognises off + int(rr.L).
func (c *Ctx) isOffPlusField(fd *ast.FuncDecl, e ast.Expr, lenField string) bool {
	b, ok := ast.Unparen(e).(*ast.BinaryExpr)
	if !ok || b.Op != token.ADD {
		return false
	}
	x, y := ast.Unparen(b.X), ast.Unparen(b.Y)
	offP := c.paramByName(fd, "off")
	if !c.isIdentOf(x, offP) {
		x, y = y, x
	}
	if !c.isIdentOf(x, offP) {
		return false
	}
	conv, ok := y.(*ast.CallExpr)
	if !ok || len(conv.Args) != 1 {
		return false
	}
	if tv, ok := c.Info.Types[conv.Fun]; !ok || !tv.IsType() {
		return false
	}
	p, ok := c.fieldPath(conv.Args[0], c.recvObj(fd))
	return ok && p == lenField
}
