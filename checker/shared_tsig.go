package main

import (
	"fmt"

	"golang.org/x/tools/go/ssa"
)

// serverTsigState checks the per-request TSIG state of the response writer in Server.serveDNS. A TCP connection
// reuses one writer for all its requests, so each request must start from a clean state:
//   - status: tsigStatus = nil on every path to the handler (an unsigned request must not inherit the verdict of an earlier one);
//   - chain: on the signed-request path, the request is verified as the first message of a chain (no request MAC,
//     full variables), and tsigTimersOnly = false and tsigRequestMAC = the request's MAC are stored before the handler
//     runs (the reply to a new request is never signed in timers-only form, and is chained to this request).
func serverTsigState(c *Ctx) (status, chain []string, pos string, ok bool) {
	fn := c.ssaFunc("Server.serveDNS")
	if fn == nil {
		return nil, nil, "", false
	}
	pos = c.pos(fn.Pos())
	isHandler := func(in ssa.Instruction) bool {
		ci, ok := in.(ssa.CallInstruction)
		return ok && ci.Common().IsInvoke() && ci.Common().Method.Name() == "ServeDNS"
	}
	nHandler := 0
	allInstrs(fn, func(in ssa.Instruction) {
		if isHandler(in) {
			nHandler++
		}
	})
	if nHandler == 0 {
		return []string{"no handler invocation found in serveDNS"}, []string{"no handler invocation found in serveDNS"}, pos, true
	}
	storeOf := func(field string, val func(ssa.Value) bool) func(ssa.Instruction) bool {
		return func(in ssa.Instruction) bool {
			st, ok := in.(*ssa.Store)
			return ok && readsField("response", field)(st.Addr) && val(st.Val)
		}
	}
	first := fn.Blocks[0].Instrs[0]
	if !storeOf("tsigStatus", isNilConst)(first) && !mustPassBefore(fn, first, storeOf("tsigStatus", isNilConst), isHandler) {
		status = append(status, "the handler can be reached without w.tsigStatus having been reset to nil for this request: on a reused (TCP) writer an unsigned request reports the TSIG verdict of an earlier request")
	}
	verifies := callsIn(fn, "TsigVerifyWithProvider", "TsigVerify")
	if len(verifies) == 0 {
		chain = append(chain, "serveDNS does not verify the TSIG of a signed request")
	}
	for _, v := range verifies {
		a := v.Common().Args
		if k, isK := a[2].(*ssa.Const); !isK || k.Value == nil || k.Value.ExactString() != `""` {
			chain = append(chain, fmt.Sprintf("%s: a request is verified with a previous MAC (it starts a new chain: request MAC must be \"\")", c.pos(v.Pos())))
		}
		if b, isB := constBool(a[3]); !isB || b {
			chain = append(chain, fmt.Sprintf("%s: a request is verified in timers-only form", c.pos(v.Pos())))
		}
		vi := v.(ssa.Instruction)
		isFalse := func(x ssa.Value) bool { b, ok := constBool(x); return ok && !b }
		if !mustPassBefore(fn, vi, storeOf("tsigTimersOnly", isFalse), isHandler) {
			chain = append(chain, fmt.Sprintf("%s: after a signed request the handler can run without w.tsigTimersOnly having been reset to false: on a reused (TCP) writer the reply to a new request is signed in the timers-only form left behind by an earlier zone transfer and fails verification", c.pos(v.Pos())))
		}
		isMAC := func(x ssa.Value) bool { return anyIn(sliceOf(x), readsField("TSIG", "MAC")) }
		if !mustPassBefore(fn, vi, storeOf("tsigRequestMAC", isMAC), isHandler) {
			chain = append(chain, fmt.Sprintf("%s: after a signed request the handler can run without w.tsigRequestMAC having been set to this request's MAC: the reply would be chained to an earlier message", c.pos(v.Pos())))
		}
	}
	return status, chain, pos, true
}
