package main

import (
	"fmt"
	"go/ast"
	"go/token"
	"go/types"
	"sort"
	"strings"

	"golang.org/x/tools/go/ssa"
)

func init() { register("C20", true, false, checkC20) }

const c20Explanation = `Decided statically for every record type and every path: (R1) each generated isDuplicate compares every RDATA field with the same field of the other record (never a field with a different field, never a record with itself), with the comparator of the field's wire kind (domain names through the case-insensitive isDuplicateName, addresses through net.IP.Equal, slices through a length test plus element-wise comparison), each inequality leading to 'return false', and no non-RDATA field (TTL, RDLENGTH) taking part; OPT and PrivateRR are the listed constant-false exceptions; (R1b) each copy initialises every field from the same field of the receiver, so a record and its copy are field-wise identical under R1; (R2) the header comparison reads exactly class, type and owner name (through isDuplicateName -> equal), never TTL or RDLENGTH, and equal folds both sides with the same A-Z test and the same case bit; (R3) IsDuplicate consults the type-specific verdict only after the header comparison succeeded; (R4) Dedup writes nothing to the records but the survivor's TTL, only when the survivor's TTL is larger, compacts in input order and returns a prefix. NOT decided: that the relation is an equivalence / coincides with equality of lower-cased wire octets for all pairs, and Dedup's grouping through normalizedString: these are value-level.`

func checkC20(c *Ctx, r *Report) {
	r.Explanation = c20Explanation
	r.Trusted = []string{"go/types resolution of fields and callees", "kind table checker/e1.go"}
	r.Assumptions = []string{"PrivateRR.isDuplicate is constant false by design (user-defined RDATA)"}
	r.rule("C20.R1.dup-pairs", 79, "isDuplicate compares each RDATA field with itself on the other record using the kind's comparator")
	r.rule("C20.R1.const-false", 2, "OPT and PrivateRR isDuplicate are the constant false")
	r.rule("C20.R1b.copy-pos", 81, "copy initialises field i from field i")
	copyNoMakeThenAppend(c, r, "C20.R1b.copy-no-make-append")
	for _, t := range c.rrTypes() {
		if t.Name == "OPT" || t.Name == "PrivateRR" {
			fd := c.decl(t.Name + ".isDuplicate")
			ok := false
			if fd != nil && len(fd.Body.List) == 1 {
				if ret, isRet := fd.Body.List[0].(*ast.ReturnStmt); isRet && len(ret.Results) == 1 {
					if tv, has := c.Info.Types[ret.Results[0]]; has && tv.Value != nil && tv.Value.String() == "false" {
						ok = true
					}
				}
			}
			if ok {
				r.ok("C20.R1.const-false", t.Name, c.pos(fd.Pos()), "constant false (listed exception)")
			} else {
				// no longer the constant: treat as an ordinary type
				c.checkDupPairs(r, "C20.R1.dup-pairs", t)
			}
			if t.Name != "PrivateRR" {
				c.checkCopyPos(r, "C20.R1b.copy-pos", t)
			}
			continue
		}
		c.checkDupPairs(r, "C20.R1.dup-pairs", t)
		c.checkCopyPos(r, "C20.R1b.copy-pos", t)
	}
	c20R2(c, r)
	c20R3(c, r)
	c20R4(c, r)
	c20R5(c, r)
	r.rule("C20.R1.selector-mask", 2, "isDuplicate selects the union member to compare under the same mask as the codecs")
	selectorMaskRule(c, r, "C20.R1.selector-mask")
	c20APL(c, r)
	r.rule("C20.R4.dedup-fold", 1, "Dedup's grouping key lower-cases exactly A-Z")
	foldRangeRule(c, r, "C20.R4.dedup-fold", "normalizedString", "records whose owners differ only in the case of that letter are kept apart by Dedup although IsDuplicate calls them equal")
	c20VerdictInputs(c, r, "C20.R1.verdict-inputs")
	c20DedupOnce(c, r, "C20.R4.dedup-once")
	c20SvcbPackErrors(c, r, "C20.R1.svcb-pack-errors")
	c20CopyNetValues(c, r, "C20.R3.copynet-values")
	r.rule("C20.R4.escape-toggle", 1, "normalizedString toggles its escape flag on a backslash")
	escapeToggle(c, r, "C20.R4.escape-toggle", "normalizedString", "a capital letter behind an escaped backslash is not folded in the Dedup key: records that IsDuplicate calls equal are kept apart and their TTLs not merged")
	copyKeepsType(c, r, "C20.R3.copy-type")
	sliceLengthsCompared(c, r, "C20.R1.list-lengths")
	headerNameOnlyCompared(c, r, "C20.R2.header-name")
	round12(c, r, "C20")
}

// c20R5: sort.Slice(x, less): the less closure indexes x and nothing else with its two index parameters
// (a closure indexing another slice leaves x unsorted: the SVCB parameter comparison would depend on the order).
func c20R5(c *Ctx, r *Report) {
	r.rule("C20.R5.sort-own-slice", 3, "the less function of every sort.Slice(x, ...) compares elements of x itself")
	sortOwnSlice(c, r, "C20.R5.sort-own-slice", func(string) bool { return true })
}

func sortOwnSlice(c *Ctx, r *Report, rule string, want func(fn string) bool) {
	n := 0
	var names []string
	for name := range c.decls {
		names = append(names, name)
	}
	sort.Strings(names)
	for _, name := range names {
		fd := c.decls[name]
		if fd.Body == nil || !want(name) {
			continue
		}
		ast.Inspect(fd.Body, func(nd ast.Node) bool {
			call, ok := nd.(*ast.CallExpr)
			if !ok {
				return true
			}
			cn := c.calleeName(call)
			if cn != "sort.Slice" && cn != "sort.SliceStable" {
				return true
			}
			if len(call.Args) != 2 {
				return true
			}
			lit, ok := ast.Unparen(call.Args[1]).(*ast.FuncLit)
			target := identObj(c, call.Args[0])
			var factoryProblem string
			if !ok {
				// sort.Slice(a, byKey(a)): the comparison made by a local closure factory from the slice it is given
				fc, isCall := ast.Unparen(call.Args[1]).(*ast.CallExpr)
				if !isCall || len(fc.Args) != 1 {
					return true
				}
				fid, isId := ast.Unparen(fc.Fun).(*ast.Ident)
				if !isId {
					return true
				}
				var factory *ast.FuncLit
				for _, cd := range localClosures(c, fd) {
					if types.Object(cd.obj) == c.Info.Uses[fid] {
						factory = cd.lit
					}
				}
				if factory == nil || len(factory.Type.Params.List) != 1 || len(factory.Type.Params.List[0].Names) != 1 {
					return true
				}
				var inner *ast.FuncLit
				for _, st := range factory.Body.List {
					if ret, isRet := st.(*ast.ReturnStmt); isRet && len(ret.Results) == 1 {
						inner, _ = ast.Unparen(ret.Results[0]).(*ast.FuncLit)
					}
				}
				if inner == nil {
					return true
				}
				if target == nil || identObj(c, fc.Args[0]) != target {
					factoryProblem = fmt.Sprintf("%s: the comparison is made for %s, not for the slice being sorted (%s)", c.pos(fc.Pos()), types.ExprString(fc.Args[0]), types.ExprString(call.Args[0]))
				}
				lit, ok = inner, true
				target = c.Info.Defs[factory.Type.Params.List[0].Names[0]]
			}
			n++
			construct := fmt.Sprintf("%s:%s(%s)#%d", name, cn, types.ExprString(call.Args[0]), n)
			var params []types.Object
			for _, f := range lit.Type.Params.List {
				for _, id := range f.Names {
					params = append(params, c.Info.Defs[id])
				}
			}
			var problems []string
			if factoryProblem != "" {
				problems = append(problems, factoryProblem)
			}
			indexed := 0
			ast.Inspect(lit.Body, func(n2 ast.Node) bool {
				ix, ok := n2.(*ast.IndexExpr)
				if !ok {
					return true
				}
				io := identObj(c, ix.Index)
				isParam := false
				for _, p := range params {
					if io != nil && io == p {
						isParam = true
					}
				}
				if !isParam {
					return true
				}
				indexed++
				if target == nil || identObj(c, ix.X) != target {
					problems = append(problems, fmt.Sprintf("%s: the comparison indexes %s, not the slice being sorted (%s)", c.pos(ix.Pos()), types.ExprString(ix.X), types.ExprString(call.Args[0])))
				}
				return true
			})
			if indexed == 0 {
				problems = append(problems, "the less function does not index the slice with its parameters")
			}
			r.check(len(problems) == 0, rule, construct, c.pos(call.Pos()), "less indexes the sorted slice", "%s", strings.Join(problems, "; "))
			return true
		})
	}
}

func c20R2(c *Ctx, r *Report) {
	r.rule("C20.R2.header", 1, "RR_Header.isDuplicate reads exactly Class, Rrtype, Name (name via isDuplicateName)")
	r.rule("C20.R2.name-eq", 1, "isDuplicateName delegates to equal with both arguments")
	r.rule("C20.R2.fold", 1, "equal folds both operands with the same A-Z test and case bit, compares lengths and every octet")
	fd := c.decl("RR_Header.isDuplicate")
	if fd == nil {
		r.cerr("C20.R2.header", "RR_Header.isDuplicate", "function not found")
		return
	}
	r.fn("RR_Header.isDuplicate")
	pairs, r2ok, finalTrue, problems := c.dupPairs(fd)
	want := map[string]string{"Class": "!=", "Rrtype": "!=", "Name": "isDuplicateName"}
	got := map[string]bool{}
	if !r2ok {
		problems = append(problems, "argument not asserted to *RR_Header")
	}
	if !finalTrue {
		problems = append(problems, "last statement is not return true")
	}
	for _, p := range pairs {
		if p.F1 == nil || p.F1 != p.F2 {
			problems = append(problems, fmt.Sprintf("%s: compares %s with %s", c.pos(p.Pos), vname(p.F1), vname(p.F2)))
			continue
		}
		if p.Root1 == p.Root2 {
			problems = append(problems, fmt.Sprintf("%s: %s compared on the same record", c.pos(p.Pos), p.F1.Name()))
			continue
		}
		w, ok := want[p.F1.Name()]
		if !ok {
			problems = append(problems, fmt.Sprintf("%s: header field %s takes part in the comparison (TTL and RDLENGTH must be ignored)", c.pos(p.Pos), p.F1.Name()))
			continue
		}
		if p.Cmp != w || !p.RetFalse {
			problems = append(problems, fmt.Sprintf("%s: %s compared with %s (want %s leading to return false)", c.pos(p.Pos), p.F1.Name(), p.Cmp, w))
			continue
		}
		got[p.F1.Name()] = true
	}
	for k := range want {
		if !got[k] {
			problems = append(problems, "header field "+k+" is not compared")
		}
	}
	if len(problems) == 0 {
		r.ok("C20.R2.header", "RR_Header.isDuplicate", c.pos(fd.Pos()), "Class, Rrtype, Name")
	} else {
		r.fail("C20.R2.header", "RR_Header.isDuplicate", c.pos(fd.Pos()), "%s", strings.Join(problems, "; "))
	}

	// isDuplicateName(s1, s2) = equal(s1, s2)
	fn := c.ssaFunc("isDuplicateName")
	if fn == nil {
		r.cerr("C20.R2.name-eq", "isDuplicateName", "function not found")
	} else {
		r.fn("isDuplicateName")
		ok := false
		var detail string
		for _, rp := range returnPoints(fn, 0) {
			call, isCall := rp.Results[0].(*ssa.Call)
			if isCall && calleeNameSSA(&call.Call) == "equal" && len(call.Call.Args) == 2 {
				a0, a1 := call.Call.Args[0], call.Call.Args[1]
				if (a0 == fn.Params[0] && a1 == fn.Params[1]) || (a0 == fn.Params[1] && a1 == fn.Params[0]) {
					ok = true
					continue
				}
			}
			ok = false
			detail = fmt.Sprintf("returns %v", rp.Results[0])
			break
		}
		r.check(ok, "C20.R2.name-eq", "isDuplicateName", c.pos(fn.Pos()), "equal(s1,s2)", "isDuplicateName does not return equal(s1, s2): %s", detail)
	}
	c20Fold(c, r)
}

// c20Fold checks labels.go equal(): same fold on both sides.
func c20Fold(c *Ctx, r *Report) { foldRule(c, r, "C20.R2.fold") }

// foldRule checks labels.go equal(): same fold on both sides. Shared by C20.R2.fold, C10.R1.name-eq and C18.R1.name-eq.
func foldRule(c *Ctx, r *Report, rule string) { equalFoldsPairs(c, r, rule) }

// foldRuleAST is the first, spelling-bound form of the rule (kept for reference; not run).
func foldRuleAST(c *Ctx, r *Report, rule string) {
	fd := c.decl("equal")
	if fd == nil {
		r.cerr(rule, "equal", "function not found")
		return
	}
	r.fn("equal")
	pa, pb := c.paramObj(fd, 0), c.paramObj(fd, 1)
	// locals derived from a[i] / b[i]
	side := map[types.Object]string{}
	ast.Inspect(fd.Body, func(n ast.Node) bool {
		as, ok := n.(*ast.AssignStmt)
		if !ok || len(as.Lhs) != len(as.Rhs) {
			return true
		}
		for i, l := range as.Lhs {
			id, ok := l.(*ast.Ident)
			if !ok {
				continue
			}
			ix, ok := ast.Unparen(as.Rhs[i]).(*ast.IndexExpr)
			if !ok {
				continue
			}
			o := c.Info.Defs[id]
			if o == nil {
				o = c.Info.Uses[id]
			}
			if c.isIdentOf(ix.X, pa) {
				side[o] = "a"
			} else if c.isIdentOf(ix.X, pb) {
				side[o] = "b"
			}
		}
		return true
	})
	type fold struct {
		lo, hi, bit int64
		op          string
	}
	folds := map[string][]fold{}
	var problems []string
	lenCheck, neqCheck := false, false
	ast.Inspect(fd.Body, func(n ast.Node) bool {
		ifs, ok := n.(*ast.IfStmt)
		if !ok {
			return true
		}
		// length test: len(a) != len(b) (possibly through locals la, lb) -> return false
		if be, ok := ast.Unparen(ifs.Cond).(*ast.BinaryExpr); ok && be.Op == token.NEQ {
			x, y := ast.Unparen(be.X), ast.Unparen(be.Y)
			xo, yo := identObj(c, x), identObj(c, y)
			if side[xo] != "" && side[yo] != "" && side[xo] != side[yo] {
				neqCheck = blockReturnsFalse(c, ifs.Body)
			}
			if c.isLenOf(fd, x, pa) && c.isLenOf(fd, y, pb) || c.isLenOf(fd, x, pb) && c.isLenOf(fd, y, pa) {
				lenCheck = blockReturnsFalse(c, ifs.Body)
			}
		}
		// fold: if v >= lo && v <= hi { v |= bit }
		be, ok := ast.Unparen(ifs.Cond).(*ast.BinaryExpr)
		if !ok || be.Op != token.LAND {
			return true
		}
		var v types.Object
		var lo, hi int64 = -1, -1
		for _, part := range []ast.Expr{be.X, be.Y} {
			cmp, ok := ast.Unparen(part).(*ast.BinaryExpr)
			if !ok {
				return true
			}
			o := identObj(c, cmp.X)
			k, isK := c.exprConst(cmp.Y)
			if o == nil || !isK {
				return true
			}
			if v != nil && v != o {
				problems = append(problems, c.pos(ifs.Pos())+": range test mixes two variables")
			}
			v = o
			switch cmp.Op {
			case token.GEQ:
				lo = k
			case token.GTR:
				lo = k + 1
			case token.LEQ:
				hi = k
			case token.LSS:
				hi = k - 1
			}
		}
		if len(ifs.Body.List) != 1 {
			return true
		}
		as, ok := ifs.Body.List[0].(*ast.AssignStmt)
		if !ok || len(as.Lhs) != 1 {
			return true
		}
		tgt := identObj(c, as.Lhs[0])
		bit, isK := c.exprConst(as.Rhs[0])
		if !isK {
			return true
		}
		if tgt != v {
			problems = append(problems, c.pos(ifs.Pos())+": fold tests one variable and modifies another")
		}
		folds[side[v]] = append(folds[side[v]], fold{lo, hi, bit, as.Tok.String()})
		return true
	})
	if len(folds["a"]) != 1 || len(folds["b"]) != 1 {
		problems = append(problems, fmt.Sprintf("expected one case fold per operand, found a:%d b:%d", len(folds["a"]), len(folds["b"])))
	} else {
		fa, fb := folds["a"][0], folds["b"][0]
		if fa != fb {
			problems = append(problems, fmt.Sprintf("operands are folded differently: a:%+v b:%+v", fa, fb))
		}
		if fa.lo != 'A' || fa.hi != 'Z' || fa.bit != 0x20 || !(fa.op == "|=" || fa.op == "+=") {
			problems = append(problems, fmt.Sprintf("fold is %+v, want range 'A'..'Z', case bit 0x20", fa))
		}
	}
	if !lenCheck {
		problems = append(problems, "no length inequality test leading to return false")
	}
	if !neqCheck {
		problems = append(problems, "no per-octet inequality test leading to return false")
	}
	if len(problems) == 0 {
		r.ok(rule, "equal", c.pos(fd.Pos()), "both sides folded A-Z |= 0x20")
	} else {
		r.fail(rule, "equal", c.pos(fd.Pos()), "%s", strings.Join(problems, "; "))
	}
}

func identObj(c *Ctx, e ast.Expr) types.Object {
	id, ok := ast.Unparen(e).(*ast.Ident)
	if !ok {
		return nil
	}
	if o := c.Info.Uses[id]; o != nil {
		return o
	}
	return c.Info.Defs[id]
}

func blockReturnsFalse(c *Ctx, b *ast.BlockStmt) bool {
	if len(b.List) != 1 {
		return false
	}
	ret, ok := b.List[0].(*ast.ReturnStmt)
	if !ok || len(ret.Results) != 1 {
		return false
	}
	tv, ok := c.Info.Types[ret.Results[0]]
	return ok && tv.Value != nil && tv.Value.String() == "false"
}

// isLenOf: e is len(p) or a local assigned exactly once from len(p).
func (c *Ctx) isLenOf(fd *ast.FuncDecl, e ast.Expr, p types.Object) bool {
	e = ast.Unparen(e)
	if call, ok := e.(*ast.CallExpr); ok && len(call.Args) == 1 && c.calleeName(call) == "builtin.len" {
		return c.isIdentOf(call.Args[0], p)
	}
	o := identObj(c, e)
	if o == nil {
		return false
	}
	n, good := 0, false
	ast.Inspect(fd.Body, func(nd ast.Node) bool {
		as, ok := nd.(*ast.AssignStmt)
		if !ok {
			return true
		}
		for i, l := range as.Lhs {
			if identObj(c, l) == o {
				n++
				if i < len(as.Rhs) {
					if call, ok := ast.Unparen(as.Rhs[i]).(*ast.CallExpr); ok && len(call.Args) == 1 && c.calleeName(call) == "builtin.len" && c.isIdentOf(call.Args[0], p) {
						good = true
					}
				}
			}
		}
		return true
	})
	return n == 1 && good
}

func c20R3(c *Ctx, r *Report) {
	r.rule("C20.R3.header-first", 1, "IsDuplicate returns the type-specific verdict only after Header().isDuplicate succeeded")
	fn := c.ssaFunc("IsDuplicate")
	if fn == nil {
		r.cerr("C20.R3.header-first", "IsDuplicate", "function not found")
		return
	}
	r.fn("IsDuplicate")
	var problems []string
	n := 0
	for _, rp := range returnPoints(fn, 0) {
		if b, ok := constBool(rp.Results[0]); ok && !b {
			continue // return false
		}
		n++
		// a possibly-true return: must be the RR.isDuplicate verdict, guarded by the header comparison
		call, ok := rp.Results[0].(*ssa.Call)
		if !ok || !call.Call.IsInvoke() || call.Call.Method.Name() != "isDuplicate" {
			problems = append(problems, fmt.Sprintf("%s: returns %v, not the record's isDuplicate verdict", c.pos(rp.Pos), rp.Results[0]))
			continue
		}
		// receiver and argument are the two parameters
		if !((call.Call.Value == fn.Params[0] && call.Call.Args[0] == fn.Params[1]) || (call.Call.Value == fn.Params[1] && call.Call.Args[0] == fn.Params[0])) {
			problems = append(problems, fmt.Sprintf("%s: isDuplicate is not applied to the two arguments", c.pos(rp.Pos)))
		}
		g := Guard{Name: "Header().isDuplicate(Header())", Op: "call", A: callsFunc("(RR_Header).isDuplicate"), Holds: true}
		if miss := guardsMissing(fn, call.Block(), []Guard{g}); len(miss) > 0 {
			problems = append(problems, fmt.Sprintf("%s: type-specific comparison is reached without %s having succeeded", c.pos(rp.Pos), miss[0]))
		} else {
			// header comparison must be between the two arguments' headers
			for _, hc := range callsIn(fn, "(RR_Header).isDuplicate") {
				s := sliceOf(hc.Common().Args[0])
				s1 := sliceOf(hc.Common().Args[1])
				p0 := func(v ssa.Value) bool { return v == fn.Params[0] }
				p1 := func(v ssa.Value) bool { return v == fn.Params[1] }
				if !((anyIn(s, p0) && anyIn(s1, p1) && !anyIn(s, p1) && !anyIn(s1, p0)) || (anyIn(s, p1) && anyIn(s1, p0) && !anyIn(s, p0) && !anyIn(s1, p1))) {
					problems = append(problems, fmt.Sprintf("%s: header comparison is not between r1's and r2's headers", c.pos(hc.Pos())))
				}
			}
		}
	}
	if n == 0 {
		problems = append(problems, "no return of a type-specific verdict found")
	}
	if len(problems) == 0 {
		r.ok("C20.R3.header-first", "IsDuplicate", c.pos(fn.Pos()), "guarded by header comparison")
	} else {
		r.fail("C20.R3.header-first", "IsDuplicate", c.pos(fn.Pos()), "%s", strings.Join(problems, "; "))
	}
}

func c20R4(c *Ctx, r *Report) {
	r.rule("C20.R4.ttl-only", 1, "Dedup's only write to a record is the survivor's TTL, guarded by survivor.Ttl > duplicate.Ttl, with the duplicate's TTL")
	r.rule("C20.R4.order", 1, "Dedup compacts in input order and returns rrs or a prefix rrs[:j]")
	fn := c.ssaFunc("Dedup")
	if fn == nil {
		r.cerr("C20.R4.ttl-only", "Dedup", "function not found")
		return
	}
	r.fn("Dedup")
	var problems []string
	nTtl := 0
	allInstrs(fn, func(in ssa.Instruction) {
		st, ok := in.(*ssa.Store)
		if !ok {
			return
		}
		fa, ok := st.Addr.(*ssa.FieldAddr)
		if !ok {
			return
		}
		n := derefNamed(fa.X.Type())
		if n == nil {
			return
		}
		if _, isLocal := fa.X.(*ssa.Alloc); isLocal {
			return
		}
		stt := n.Underlying().(*types.Struct)
		fname := stt.Field(fa.Field).Name()
		if n.Obj().Name() != "RR_Header" || fname != "Ttl" {
			problems = append(problems, fmt.Sprintf("%s: writes field %s.%s of a record", c.pos(st.Pos()), n.Obj().Name(), fname))
			return
		}
		nTtl++
		// value stored: load of Y.Ttl
		ld, ok := st.Val.(*ssa.UnOp)
		var y ssa.Value
		if ok && ld.Op == token.MUL {
			if fa2, ok := ld.X.(*ssa.FieldAddr); ok && readsField("RR_Header", "Ttl")(fa2) {
				y = fa2.X
			}
		}
		if y == nil {
			problems = append(problems, fmt.Sprintf("%s: the TTL written is not another record's TTL", c.pos(st.Pos())))
			return
		}
		x := fa.X
		g := Guard{Name: "written.Ttl > source.Ttl", Op: "lt", A: func(v ssa.Value) bool { return v == y }, B: func(v ssa.Value) bool { return v == x }, Holds: true}
		if miss := guardsMissing(fn, st.Block(), []Guard{g}); len(miss) > 0 {
			problems = append(problems, fmt.Sprintf("%s: TTL store is not guarded by %s (TTL may be raised)", c.pos(st.Pos()), miss[0]))
		}
		// ... and by nothing else about the TTLs: a smaller TTL always wins (zero included)
		for _, f := range factsAt(fn, st.Block()) {
			bin, ok := f.Atom.(*ssa.BinOp)
			if !ok {
				continue
			}
			isTtl := func(v ssa.Value) bool { return anyIn(sliceOf(v), readsField("RR_Header", "Ttl")) }
			if !isTtl(bin.X) && !isTtl(bin.Y) {
				continue
			}
			if isTtl(bin.X) && isTtl(bin.Y) {
				continue // the comparison of the two TTLs
			}
			problems = append(problems, fmt.Sprintf("%s: the TTL merge is also conditioned on %v = %v: a duplicate with that TTL does not lower the survivor's TTL, so the survivor does not carry the smallest TTL of its group", c.pos(st.Pos()), f.Atom, f.Holds))
		}
	})
	if nTtl == 0 {
		problems = append(problems, "no TTL merge found")
	}
	// calls that could mutate records: only Header(), normalizedString (String) are expected; any other call taking an RR is suspicious
	if len(problems) == 0 {
		r.ok("C20.R4.ttl-only", "Dedup", c.pos(fn.Pos()), "single guarded TTL store")
	} else {
		r.fail("C20.R4.ttl-only", "Dedup", c.pos(fn.Pos()), "%s", strings.Join(problems, "; "))
	}

	problems = nil
	rrs := fn.Params[0]
	var jPhi ssa.Value
	nStore := 0
	allInstrs(fn, func(in ssa.Instruction) {
		st, ok := in.(*ssa.Store)
		if !ok {
			return
		}
		ia, ok := st.Addr.(*ssa.IndexAddr)
		if !ok || ia.X != rrs {
			return
		}
		nStore++
		// stored value: element of rrs loaded in a block dominating the store
		ld, ok := st.Val.(*ssa.UnOp)
		good := false
		if ok && ld.Op == token.MUL {
			if ia2, ok := ld.X.(*ssa.IndexAddr); ok && ia2.X == rrs {
				if ld.Block().Dominates(st.Block()) && isLoopCounter(ia2.Index) {
					good = true
				}
			}
		}
		if !good {
			problems = append(problems, fmt.Sprintf("%s: rrs[...] is overwritten with something other than the current element of an in-order scan of rrs", c.pos(st.Pos())))
		}
		jPhi = ia.Index
		// j's increment must be in the same block
		inc := false
		for _, ref := range *ia.Index.Referrers() {
			if b, ok := ref.(*ssa.BinOp); ok && b.Op == token.ADD && b.Block() == st.Block() {
				if k, ok := constIntOf(b.Y); ok && k == 1 {
					inc = true
				}
			}
		}
		if !inc {
			problems = append(problems, fmt.Sprintf("%s: the write index is not advanced by one next to the write", c.pos(st.Pos())))
		}
	})
	if nStore != 1 {
		problems = append(problems, fmt.Sprintf("%d element stores into rrs, expected the single compaction store", nStore))
	}
	if jPhi != nil {
		// every ADD/SUB on j outside the store block is a violation
		if phi, ok := jPhi.(*ssa.Phi); ok {
			if k, ok := constIntOf(phi.Edges[0]); !ok || k != 0 {
				problems = append(problems, "write index does not start at 0")
			}
		} else {
			problems = append(problems, "write index is not a loop-carried variable")
		}
	}
	for _, rp := range returnPoints(fn, 0) {
		v := rp.Results[0]
		if v == rrs {
			continue
		}
		if sl, ok := v.(*ssa.Slice); ok && sl.X == rrs && sl.Low == nil && sl.Max == nil && sl.High != nil {
			if jPhi != nil && sliceOf(sl.High)[jPhi] {
				continue
			}
		}
		problems = append(problems, fmt.Sprintf("%s: returns %v, neither rrs nor the prefix rrs[:j]", c.pos(rp.Pos), v))
	}
	if len(problems) == 0 {
		r.ok("C20.R4.order", "Dedup", c.pos(fn.Pos()), "in-order compaction, prefix returned")
	} else {
		r.fail("C20.R4.order", "Dedup", c.pos(fn.Pos()), "%s", strings.Join(problems, "; "))
	}
}

// isLoopCounter: v is phi+1 / a phi incremented by one each iteration (range index).
func isLoopCounter(v ssa.Value) bool {
	b, ok := v.(*ssa.BinOp)
	if ok && b.Op == token.ADD {
		if k, ok := constIntOf(b.Y); ok && k == 1 {
			if phi, ok := b.X.(*ssa.Phi); ok {
				for _, e := range phi.Edges {
					if e == v {
						return true
					}
				}
			}
		}
		return false
	}
	if phi, ok := v.(*ssa.Phi); ok {
		for _, e := range phi.Edges {
			if bb, ok := e.(*ssa.BinOp); ok && bb.Op == token.ADD && bb.X == phi {
				if k, ok := constIntOf(bb.Y); ok && k == 1 {
					return true
				}
			}
		}
	}
	return false
}

// c20APL: APLPrefix.equals (the element comparator of APL.isDuplicate) compares every component of a prefix:
// the negation flag, the address, and the mask in a way that tells the families apart. net.IP.Equal alone
// identifies an IPv4 address with its IPv4-mapped IPv6 form, so the mask comparison must see the mask's
// length in octets (bytes.Equal on the masks, or both results of IPMask.Size()).
func c20APL(c *Ctx, r *Report) {
	r.rule("C20.R1.apl-equals", 1, "APLPrefix.equals compares negation, address and the whole mask (family included)")
	fn := c.ssaFunc("APLPrefix.equals")
	if fn == nil {
		r.cerr("C20.R1.apl-equals", "APLPrefix.equals", "function not found")
		return
	}
	r.fn("APLPrefix.equals")
	a, b := fn.Params[0], fn.Params[1]
	both := func(x, y ssa.Value, field string) bool {
		fa, fb := fieldPathOf(isValue(a), field), fieldPathOf(isValue(b), field)
		sx, sy := sliceOf(x), sliceOf(y)
		return (anyIn(sx, fa) && anyIn(sy, fb)) || (anyIn(sx, fb) && anyIn(sy, fa))
	}
	neg, ip, mask := false, false, false
	var sizeCalls []*ssa.Call
	allInstrs(fn, func(in ssa.Instruction) {
		switch t := in.(type) {
		case *ssa.BinOp:
			if (t.Op == token.EQL || t.Op == token.NEQ) && both(t.X, t.Y, "Negation") {
				neg = true
			}
		case *ssa.Call:
			switch calleeNameSSA(&t.Call) {
			case "(net.IP).Equal":
				if both(t.Call.Args[0], t.Call.Args[1], "Network.IP") {
					ip = true
				}
			case "bytes.Equal":
				_, s0 := t.Call.Args[0].(*ssa.Slice)
				_, s1 := t.Call.Args[1].(*ssa.Slice)
				if both(t.Call.Args[0], t.Call.Args[1], "Network.Mask") && !s0 && !s1 {
					mask = true
				}
			case "(net.IPMask).Size":
				sizeCalls = append(sizeCalls, t)
			}
		}
	})
	if !mask && len(sizeCalls) == 2 {
		// both results (ones, bits) of both Size() calls must be compared
		used := func(call *ssa.Call, idx int) bool {
			for _, ref := range *call.Referrers() {
				if e, ok := ref.(*ssa.Extract); ok && e.Index == idx {
					for _, u := range *e.Referrers() {
						if bo, ok := u.(*ssa.BinOp); ok && (bo.Op == token.EQL || bo.Op == token.NEQ) {
							return true
						}
					}
				}
			}
			return false
		}
		if used(sizeCalls[0], 0) && used(sizeCalls[0], 1) && used(sizeCalls[1], 0) && used(sizeCalls[1], 1) {
			mask = true
		}
	}
	var problems []string
	if !neg {
		problems = append(problems, "the negation flags of the two prefixes are not compared")
	}
	if !ip {
		problems = append(problems, "the addresses of the two prefixes are not compared through net.IP.Equal")
	}
	if !mask {
		problems = append(problems, "the masks are not compared as whole masks (bytes.Equal, or prefix length and address-family width): net.IP.Equal identifies 192.0.2.0 with ::ffff:192.0.2.0, so 1:192.0.2.0/24 and 2:::ffff:192.0.2.0/24 - different RDATA - would be reported as duplicates")
	}
	r.check(len(problems) == 0, "C20.R1.apl-equals", "APLPrefix.equals", c.pos(fn.Pos()), "negation, address, whole mask", "%s", strings.Join(problems, "; "))
}
