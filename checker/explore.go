package main

import (
	"fmt"
	"os"
	"sort"
	"strings"

	"golang.org/x/tools/go/ssa"
)

// reachable computes the module functions reachable from the entry points through resolved calls.
func (e *aliasEngine) reachable(entries []*ssa.Function) map[*ssa.Function]bool {
	seen := map[*ssa.Function]bool{}
	stack := append([]*ssa.Function(nil), entries...)
	for len(stack) > 0 {
		f := stack[len(stack)-1]
		stack = stack[:len(stack)-1]
		if f == nil || seen[f] || len(f.Blocks) == 0 {
			continue
		}
		seen[f] = true
		for _, a := range f.AnonFuncs {
			stack = append(stack, a)
		}
		allInstrs(f, func(in ssa.Instruction) {
			ci, ok := in.(ssa.CallInstruction)
			if !ok {
				return
			}
			callees, _ := e.resolve(ci.Common())
			stack = append(stack, callees...)
		})
	}
	return seen
}

func decodeEntryPoints(c *Ctx) []*ssa.Function {
	var out []*ssa.Function
	for _, n := range []string{"Msg.Unpack", "Msg.unpack", "UnpackRR", "UnpackRRWithHeader", "UnpackDomainName", "unpackMsgHdr", "unpackQuestion"} {
		if f := c.ssaFunc(n); f != nil {
			out = append(out, f)
		}
	}
	for _, iface := range []string{"EDNS0", "SVCBKeyValue", "RR"} {
		for _, n := range c.implementers(iface) {
			if f := c.ssaFunc(n.Obj().Name() + ".unpack"); f != nil {
				out = append(out, f)
			}
		}
	}
	return out
}

func exploreBounds(repo string) {
	c, err := load(repo, loadOpts{needSSA: true})
	if err != nil {
		fmt.Fprintln(os.Stderr, err)
		os.Exit(2)
	}
	e := newAliasEngine(c)
	withStrings = os.Getenv("STRINGS") != ""
	withAllSlices = os.Getenv("ALLSLICES") != ""
	entries := decodeEntryPoints(c)
	if os.Getenv("ENTRIES") == "parse" {
		entries = nil
		for _, T := range c.rrTypes() {
			if f := c.ssaFunc(T.Name + ".parse"); f != nil {
				entries = append(entries, f)
			}
		}
		for _, n := range []string{"ZoneParser.Next", "zlexer.Next", "ZoneParser.generate", "generateReader.ReadByte"} {
			if f := c.ssaFunc(n); f != nil {
				entries = append(entries, f)
			}
		}
		os.Unsetenv("ENTRIES")
	}
	if os.Getenv("ENTRIES") == "string" {
		entries = nil
		for _, T := range c.rrTypes() {
			if f := c.ssaFunc(T.Name + ".String"); f != nil {
				entries = append(entries, f)
			}
		}
		os.Unsetenv("ENTRIES")
	}
	if extra := os.Getenv("ENTRIES"); extra != "" {
		entries = nil
		for _, n := range strings.Split(extra, ",") {
			if f := c.ssaFunc(n); f != nil {
				entries = append(entries, f)
			} else {
				fmt.Println("no function", n)
			}
		}
	}
	scope := e.reachable(entries)
	var fns []*ssa.Function
	for f := range scope {
		fns = append(fns, f)
	}
	sort.Slice(fns, func(i, j int) bool { return fnDisplay(fns[i]) < fnDisplay(fns[j]) })
	bp := newBoundsProver(c, e, scope)
	proven, total := 0, 0
	for _, f := range fns {
		for _, s := range boundSites(f) {
			bp.prove(s)
			total++
			if s.Proven {
				proven++
				if os.Getenv("SHOWALL") != "" {
					fmt.Printf("OK %-28s %s  %s -- %s\n", fnDisplay(f), c.pos(s.Instr.Pos()), s.describe(), s.Why)
				}
				continue
			}
			fmt.Printf("%-28s %s  %s -- %s\n", fnDisplay(f), c.pos(s.Instr.Pos()), s.describe(), s.Why)
		}
	}
	np := 0
	for f, m := range bp.post {
		_ = f
		np += len(m)
	}
	fmt.Printf("postconditions proven: %d\n", np)
	if lc := theLexContract; lc != nil {
		fmt.Printf("lexer contract: holds=%v constructs=%d\n", lc.holds, lc.sites)
		for _, p := range lc.problems {
			fmt.Println("  lexer contract:", p)
		}
	}
	fmt.Printf("functions in scope: %d, sites: %d, proven: %d\n", len(fns), total, proven)
}
