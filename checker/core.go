package main

// Obligation / report / evidence plumbing shared by every property.

import (
	"crypto/sha1"
	"encoding/hex"
	"encoding/json"
	"fmt"
	"go/token"
	"os"
	"path/filepath"
	"sort"
	"strings"
	"time"
)

const (
	stOK        = "discharged"
	stViolation = "violation"
	stUndecided = "undecided"
	stError     = "checker-error"
	stKnown     = "known-finding"
)

// Obligation is one instance of one rule on one construct of /repo.
type Obligation struct {
	Rule      string `json:"rule"`
	Construct string `json:"construct"`
	Status    string `json:"status"`
	Pos       string `json:"pos,omitempty"`
	Detail    string `json:"detail,omitempty"`
}

func (o *Obligation) key() string { return o.Rule + " | " + o.Construct }

type ruleInfo struct {
	Count  int    `json:"instances"`
	Floor  int    `json:"floor"`
	Failed int    `json:"failed"`
	Doc    string `json:"rule,omitempty"`
}

// Report accumulates obligations for one property.
type Report struct {
	Prop        string
	Tier        string
	obls        []*Obligation
	seen        map[string]*Obligation
	rules       map[string]*ruleInfo
	ruleOrder   []string
	Notes       []string
	Assumptions []string
	Trusted     []string
	Explanation string
	Level       string
	funcs       map[string]bool
	extra       map[string]interface{}
}

func newReport(prop, tier string) *Report {
	return &Report{Prop: prop, Tier: tier, seen: map[string]*Obligation{}, rules: map[string]*ruleInfo{}, funcs: map[string]bool{}, Level: "other", extra: map[string]interface{}{}}
}

// rule declares a rule with its floor (minimum number of instances confirmed by hand on the pinned tree).
func (r *Report) rule(id string, floor int, doc string) {
	if _, ok := r.rules[id]; !ok {
		r.rules[id] = &ruleInfo{Floor: floor, Doc: doc}
		r.ruleOrder = append(r.ruleOrder, id)
	}
}

func (r *Report) add(rule, construct, status, pos, detail string) {
	ri, ok := r.rules[rule]
	if !ok {
		r.rule(rule, 0, "")
		ri = r.rules[rule]
	}
	k := rule + " | " + construct
	if prev, dup := r.seen[k]; dup {
		// same construct reported twice: keep the worst verdict
		if prev.Status == stOK && status != stOK {
			prev.Status, prev.Pos, prev.Detail = status, pos, detail
			ri.Failed++
		} else if status != stOK && prev.Status != stOK {
			prev.Detail += "; " + detail
		}
		return
	}
	o := &Obligation{Rule: rule, Construct: construct, Status: status, Pos: pos, Detail: detail}
	r.seen[k] = o
	r.obls = append(r.obls, o)
	ri.Count++
	if status != stOK {
		ri.Failed++
	}
}

func (r *Report) ok(rule, construct string, pos string, detail string) {
	r.add(rule, construct, stOK, pos, detail)
}
func (r *Report) fail(rule, construct string, pos string, format string, a ...interface{}) {
	r.add(rule, construct, stViolation, pos, fmt.Sprintf(format, a...))
}
func (r *Report) undecided(rule, construct string, pos string, format string, a ...interface{}) {
	r.add(rule, construct, stUndecided, pos, fmt.Sprintf(format, a...))
}
func (r *Report) cerr(rule, construct string, format string, a ...interface{}) {
	r.add(rule, construct, stError, "", fmt.Sprintf(format, a...))
}

// check is the common form: discharge when cond holds, violation otherwise.
func (r *Report) check(cond bool, rule, construct, pos, okDetail, failFormat string, a ...interface{}) bool {
	if cond {
		r.ok(rule, construct, pos, okDetail)
	} else {
		r.fail(rule, construct, pos, failFormat, a...)
	}
	return cond
}

func (r *Report) note(format string, a ...interface{}) {
	r.Notes = append(r.Notes, fmt.Sprintf(format, a...))
}
func (r *Report) fn(name string) { r.funcs[name] = true }

// ---- known findings ----

type knownFinding struct {
	Property  string `json:"property"`
	Rule      string `json:"rule"`
	Construct string `json:"construct"`
	Status    string `json:"status"` // "known" | "fixed"
	Commit    string `json:"commit,omitempty"`
	What      string `json:"what"`
	Line      string `json:"line,omitempty"`
}

func loadKnown(verifDir string) []knownFinding {
	var kf struct {
		Findings []knownFinding `json:"findings"`
	}
	b, err := os.ReadFile(filepath.Join(verifDir, "known_findings.json"))
	if err != nil {
		return nil
	}
	if err := json.Unmarshal(b, &kf); err != nil {
		fmt.Fprintf(os.Stderr, "known_findings.json: %v\n", err)
		os.Exit(2)
	}
	return kf.Findings
}

// ---- finishing a run ----

func shortHash(s string) string {
	h := sha1.Sum([]byte(s))
	return hex.EncodeToString(h[:])[:12]
}

type violationFile struct {
	Property   string      `json:"property"`
	Obligation *Obligation `json:"obligation"`
	Tier       string      `json:"tier"`
	Replay     string      `json:"replay"`
}

// finish applies floors and known findings, writes evidence, prints verdict lines; returns exit code.
func (r *Report) finish(verifDir string, t0 time.Time, seed int, cmdline string, buildConfigs []string) int {
	// floors
	for _, id := range r.ruleOrder {
		ri := r.rules[id]
		if ri.Count < ri.Floor {
			r.add(id, "<floor>", stError, "", fmt.Sprintf("rule matched %d instances, floor confirmed by hand is %d: the rule no longer sees the constructs it is about", ri.Count, ri.Floor))
		}
	}
	known := loadKnown(verifDir)
	nKnown := 0
	for _, o := range r.obls {
		if o.Status != stViolation {
			continue
		}
		for _, k := range known {
			if k.Status == "known" && k.Property == r.Prop && k.Rule == o.Rule && k.Construct == o.Construct {
				o.Status = stKnown
				nKnown++
				fmt.Printf("KNOWN-FINDING: property=%s %s [%s | %s]\n", r.Prop, k.What, o.Rule, o.Construct)
			}
		}
	}
	var bad []*Obligation
	discharged := 0
	for _, o := range r.obls {
		switch o.Status {
		case stOK:
			discharged++
		case stKnown:
		default:
			bad = append(bad, o)
		}
	}
	// per-rule summary
	for _, id := range r.ruleOrder {
		ri := r.rules[id]
		fmt.Printf("[%s] %-28s instances=%-4d floor=%-4d failed=%d\n", r.Prop, id, ri.Count, ri.Floor, ri.Failed)
	}
	vdir := filepath.Join(verifDir, "evidence", "violations")
	for _, o := range bad {
		os.MkdirAll(vdir, 0o755)
		p := filepath.Join(vdir, fmt.Sprintf("%s-%s.json", r.Prop, shortHash(o.key())))
		vf := violationFile{Property: r.Prop, Obligation: o, Tier: r.Tier, Replay: "./run replay " + p}
		b, _ := json.MarshalIndent(vf, "", " ")
		os.WriteFile(p, b, 0o644)
		d := o.Detail
		if len(d) > 700 {
			d = d[:700] + " …(see the replay file)"
		}
		fmt.Printf("%s: %s: %s [%s] %s\n", o.Pos, o.Status, o.Rule, o.Construct, d)
		fmt.Printf("VIOLATION property=%s replay=%s\n", r.Prop, p)
	}
	// evidence
	samples := []interface{}{}
	perRule := map[string]int{}
	for _, o := range r.obls {
		if perRule[o.Rule] < 2 || o.Status != stOK {
			perRule[o.Rule]++
			if len(samples) < 60 {
				samples = append(samples, o)
			}
		}
	}
	if r.Assumptions == nil {
		r.Assumptions = []string{}
	}
	if r.Trusted == nil {
		r.Trusted = []string{}
	}
	if r.Notes == nil {
		r.Notes = []string{}
	}
	fnames := make([]string, 0, len(r.funcs))
	for f := range r.funcs {
		fnames = append(fnames, f)
	}
	sort.Strings(fnames)
	cov := map[string]interface{}{
		"explanation":        r.Explanation,
		"obligations":        len(r.obls),
		"discharged":         discharged,
		"known_findings":     nKnown,
		"rule_instances":     r.rules,
		"functions_analysed": len(fnames),
		"functions":          fnames,
		"samples":            samples,
		"checker_cmd":        cmdline,
		"trusted_base":       r.Trusted,
		"build_configs":      buildConfigs,
		"notes":              r.Notes,
		"exhaustive":         true,
	}
	for k, v := range r.extra {
		cov[k] = v
	}
	ev := map[string]interface{}{
		"property_id": r.Prop,
		"tier":        r.Tier,
		"seed":        seed,
		"level":       r.Level,
		"coverage":    cov,
		"assumptions": r.Assumptions,
		"wall_s":      time.Since(t0).Seconds(),
		"violations":  len(bad),
	}
	os.MkdirAll(filepath.Join(verifDir, "evidence"), 0o755)
	b, _ := json.MarshalIndent(ev, "", " ")
	if err := os.WriteFile(filepath.Join(verifDir, "evidence", r.Prop+".json"), b, 0o644); err != nil {
		fmt.Fprintf(os.Stderr, "cannot write evidence: %v\n", err)
		return 2
	}
	if len(bad) > 0 {
		fmt.Printf("FAIL property=%s obligations=%d discharged=%d known=%d failing=%d\n", r.Prop, len(r.obls), discharged, nKnown, len(bad))
		return 1
	}
	fmt.Printf("OK property=%s tier=%s obligations=%d discharged=%d known=%d rules=%d functions=%d wall=%.1fs\n", r.Prop, r.Tier, len(r.obls), discharged, nKnown, len(r.ruleOrder), len(fnames), time.Since(t0).Seconds())
	return 0
}

func posStr(fset *token.FileSet, p token.Pos) string {
	if !p.IsValid() {
		return "-"
	}
	pp := fset.Position(p)
	return fmt.Sprintf("%s:%d", strings.TrimPrefix(pp.Filename, "/repo/"), pp.Line)
}
