package main

import (
	"fmt"
	"go/token"
	"go/types"
	"sort"
	"strings"

	"golang.org/x/tools/go/ssa"
)

// c01R8: hand-written option/parameter codecs (16 EDNS0 options, 10 SVCB parameters): every field that unpack
// reads from fixed octets of its input must be the field that pack wrote into exactly those octets, bit for bit.
func c01R8(c *Ctx, r *Report) {
	r.rule("C01.R8.option-bytes", 14, "for each option/parameter field decoded from fixed octets, pack wrote that field into the same octets in the same bit order")
	r.rule("C01.R8.subnet-family", 2, "EDNS0_SUBNET unpack bounds netmask and scope by 8 x the address length of the same family branch")
	var all []*types.Named
	all = append(all, c.implementers("EDNS0")...)
	all = append(all, c.implementers("SVCBKeyValue")...)
	for _, n := range all {
		name := n.Obj().Name()
		pk := c.ssaFunc(name + ".pack")
		up := c.ssaFunc(name + ".unpack")
		if pk == nil || up == nil {
			r.cerr("C01.R8.option-bytes", name, "pack/unpack not found")
			continue
		}
		r.fn(name + ".pack")
		r.fn(name + ".unpack")
		st, _ := n.Underlying().(*types.Struct)
		if st == nil {
			continue
		}
		fieldIdx := func(fn *ssa.Function, v ssa.Value) (int, bool) {
			// load of recv.F
			u, ok := v.(*ssa.UnOp)
			if !ok || u.Op != token.MUL {
				return 0, false
			}
			fa, ok := u.X.(*ssa.FieldAddr)
			if !ok || len(fn.Params) == 0 || fa.X != fn.Params[0] {
				return 0, false
			}
			return fa.Field, true
		}
		// pack side: octet k -> bits of fields
		penv := &bitEnv{leafOf: func(v ssa.Value) (int, int, bool) {
			if f, ok := fieldIdx(pk, v); ok {
				w, _ := intWidth(st.Field(f).Type())
				if _, isBasic := st.Field(f).Type().Underlying().(*types.Basic); !isBasic {
					return 0, 0, false
				}
				return f, w, true
			}
			return 0, 0, false
		}}
		isLocalBuf := func(b ssa.Value) bool {
			_, isParam := b.(*ssa.Parameter)
			return !isParam
		}
		packed, _ := writtenBytes(pk, isLocalBuf, nil, penv)
		// unpack side
		var bParam ssa.Value
		if len(up.Params) >= 2 {
			bParam = up.Params[1]
		}
		uenv := readEnv(up, bParam, nil, nil)
		type fieldRes struct {
			compared int
			problems []string
		}
		res := map[int]*fieldRes{}
		allInstrs(up, func(in ssa.Instruction) {
			sto, ok := in.(*ssa.Store)
			if !ok {
				return
			}
			fa, ok := sto.Addr.(*ssa.FieldAddr)
			if !ok || fa.X != up.Params[0] {
				return
			}
			if _, isBasic := st.Field(fa.Field).Type().Underlying().(*types.Basic); !isBasic {
				return
			}
			w, _ := intWidth(st.Field(fa.Field).Type())
			v := uenv.eval(sto.Val)
			fr := res[fa.Field]
			if fr == nil {
				fr = &fieldRes{}
				res[fa.Field] = fr
			}
			for b := 0; b < w; b++ {
				src := v[b]
				if src.Kind != bLeaf || src.Leaf < byteLeafBase {
					continue
				}
				k := int64(src.Leaf - byteLeafBase)
				pb, has := packed[k]
				if !has {
					continue // pack does not write that octet at a fixed offset: not comparable
				}
				fr.compared++
				want := bitSrc{Kind: bLeaf, Leaf: fa.Field, Bit: b}
				if pb[src.Bit] != want {
					got := pb[src.Bit].String()
					if pb[src.Bit].Kind == bLeaf && pb[src.Bit].Leaf < st.NumFields() {
						got = fmt.Sprintf("%s[%d]", st.Field(pb[src.Bit].Leaf).Name(), pb[src.Bit].Bit)
					}
					fr.problems = append(fr.problems, fmt.Sprintf("%s: bit %d of %s is read from octet %d bit %d, into which pack wrote %s", c.pos(sto.Pos()), b, st.Field(fa.Field).Name(), k, src.Bit, got))
					break
				}
			}
		})
		var idxs []int
		for f := range res {
			idxs = append(idxs, f)
		}
		sort.Ints(idxs)
		for _, f := range idxs {
			fr := res[f]
			if fr.compared == 0 && len(fr.problems) == 0 {
				continue
			}
			construct := name + "." + st.Field(f).Name()
			r.check(len(fr.problems) == 0, "C01.R8.option-bytes", construct, c.pos(up.Pos()), fmt.Sprintf("%d bits agree", fr.compared), "%s", strings.Join(fr.problems, "; "))
		}
	}
	c01Subnet(c, r)
}

// c01Subnet: in EDNS0_SUBNET.unpack / pack, per family branch, the netmask/scope bounds equal 8 x the address length used in that branch.
func c01Subnet(c *Ctx, r *Report) {
	fn := c.ssaFunc("EDNS0_SUBNET.unpack")
	if fn == nil {
		r.cerr("C01.R8.subnet-family", "EDNS0_SUBNET.unpack", "function not found")
		return
	}
	// For each MakeSlice of net.IP with constant length L, the facts at its block must bound both
	// SourceNetmask and SourceScope by 8*L (not greater), and no looser bound.
	n := 0
	allInstrs(fn, func(in ssa.Instruction) {
		mk, ok := in.(*ssa.Alloc)
		if !ok || mk.Comment != "makeslice" {
			return
		}
		arr, ok := mk.Type().Underlying().(*types.Pointer).Elem().Underlying().(*types.Array)
		if !ok {
			return
		}
		l := arr.Len()
		if l != 4 && l != 16 {
			return
		}
		n++
		construct := fmt.Sprintf("EDNS0_SUBNET.unpack:family-%d-octets", l)
		var problems []string
		for _, field := range []string{"SourceNetmask", "SourceScope"} {
			found := false
			var seen []int64
			for _, f := range factsAt(fn, mk.Block()) {
				b, ok := f.Atom.(*ssa.BinOp)
				if !ok {
					continue
				}
				// normalise to: field > K is false
				x, y, holds := b.X, b.Y, f.Holds
				switch b.Op {
				case token.GTR:
				case token.LEQ:
					holds = !holds
				default:
					continue
				}
				if !anyIn(sliceOf(x), readsField("EDNS0_SUBNET", field)) {
					continue
				}
				k, ok := constIntOf(y)
				if !ok || holds {
					continue
				}
				seen = append(seen, k)
				if k == 8*l {
					found = true
				}
			}
			if !found {
				problems = append(problems, fmt.Sprintf("%s is bounded by %v in the %d-octet family branch, want exactly %d bits", field, seen, l, 8*l))
			}
		}
		r.check(len(problems) == 0, "C01.R8.subnet-family", construct, c.pos(mk.Pos()), fmt.Sprintf("both bounded by %d", 8*l), "%s", strings.Join(problems, "; "))
	})
	if n == 0 {
		// one branch for both families: the address is made with a length chosen by the family (4 or 16, nothing
		// else), and netmask and scope are bounded by eight times that same value
		allInstrs(fn, func(in ssa.Instruction) {
			mk, ok := in.(*ssa.MakeSlice)
			if !ok {
				return
			}
			widths := map[int64]bool{}
			for _, l := range phiLeaves(mk.Len) {
				k, isK := constIntOf(l)
				if !isK {
					return
				}
				widths[k] = true
			}
			if len(widths) != 2 || !widths[4] || !widths[16] {
				return
			}
			var problems []string
			for _, field := range []string{"SourceNetmask", "SourceScope"} {
				found := false
				for _, f := range factsAt(fn, mk.Block()) {
					b, ok := f.Atom.(*ssa.BinOp)
					if !ok {
						continue
					}
					x, y, holds := b.X, b.Y, f.Holds
					switch b.Op {
					case token.GTR:
					case token.LEQ:
						holds = !holds
					default:
						continue
					}
					if holds || !anyIn(sliceOf(x), readsField("EDNS0_SUBNET", field)) {
						continue
					}
					yy := y
					for {
						cv, isCv := yy.(*ssa.Convert)
						if !isCv {
							break
						}
						yy = cv.X
					}
					if m, isMul := yy.(*ssa.BinOp); isMul && m.Op == token.MUL {
						k1, isK1 := constIntOf(m.Y)
						k2, isK2 := constIntOf(m.X)
						if isK1 && k1 == 8 && sameExpr(m.X, mk.Len) || isK2 && k2 == 8 && sameExpr(m.Y, mk.Len) {
							found = true
						}
					}
				}
				if !found {
					problems = append(problems, fmt.Sprintf("%s is not bounded by 8 x the address length the branch allocates", field))
				}
			}
			for _, l := range []int64{4, 16} {
				n++
				r.check(len(problems) == 0, "C01.R8.subnet-family", fmt.Sprintf("EDNS0_SUBNET.unpack:family-%d-octets", l), c.pos(mk.Pos()), "both bounded by 8 x the width chosen by the family", "%s", strings.Join(problems, "; "))
			}
		})
	}
	if n == 0 {
		r.fail("C01.R8.subnet-family", "EDNS0_SUBNET.unpack", c.pos(fn.Pos()), "no per-family address allocation found")
	}
	_ = ssa.Value(nil)
}
