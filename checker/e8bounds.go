package main

// E8b — affine guard coverage: for every index / slice / fixed-width access on a byte buffer, the upper end of the
// access is entailed to be <= len(buffer) by the branch outcomes that dominate the access, read as linear
// inequalities over SSA terms and combined by a bounded Farkas-style search (sums of at most four facts plus
// non-negativity of lengths and unsigned values). Interprocedural facts: success postconditions of decoding helpers
// (returned offset <= len(buffer)) and preconditions established by every caller of an unexported function.

import (
	"fmt"
	"go/token"
	"go/types"
	"sort"
	"strings"

	"golang.org/x/tools/go/ssa"
)

// ---- linear forms ----

type linExpr struct {
	c int64
	t map[string]int64 // atom key -> coefficient
}

func newLin() *linExpr { return &linExpr{t: map[string]int64{}} }
func (l *linExpr) add(o *linExpr, k int64) *linExpr {
	r := newLin()
	r.c = l.c + k*o.c
	for a, v := range l.t {
		r.t[a] = v
	}
	for a, v := range o.t {
		r.t[a] += k * v
		if r.t[a] == 0 {
			delete(r.t, a)
		}
	}
	return r
}
func (l *linExpr) String() string {
	var ks []string
	for a := range l.t {
		ks = append(ks, a)
	}
	sort.Strings(ks)
	var parts []string
	for _, a := range ks {
		parts = append(parts, fmt.Sprintf("%+d*%s", l.t[a], a))
	}
	parts = append(parts, fmt.Sprintf("%+d", l.c))
	return strings.Join(parts, "")
}

type linEnv struct {
	names  map[ssa.Value]string // stable pretty atom names
	nonneg map[string]bool
	depth  int
	// subst: while set, a value found here is linearised as its replacement (one level; used to push a goal
	// over loop-header phis through one incoming edge)
	subst map[ssa.Value]ssa.Value
}

func newLinEnv() *linEnv { return &linEnv{names: map[ssa.Value]string{}, nonneg: map[string]bool{}} }

func (e *linEnv) atom(v ssa.Value) *linExpr {
	n, ok := e.names[v]
	if !ok {
		n = fmt.Sprintf("%s~%d", exprKeyPretty(v), len(e.names))
		e.names[v] = n
	}
	if isNonNeg(v) {
		e.nonneg[n] = true
	}
	r := newLin()
	r.t[n] = 1
	return r
}

// sameLenAs: callees whose result has the length of their first argument.
var sameLenCallees = map[string]bool{"cloneSlice": true}

// lenOf gives the linear form of len(buf).
func (e *linEnv) lenOf(buf ssa.Value) *linExpr {
	e.depth++
	defer func() { e.depth-- }()
	if e.depth > 12 {
		return e.lenAtom(buf)
	}
	switch t := buf.(type) {
	case *ssa.Slice:
		if _, isStr := t.X.Type().Underlying().(*types.Basic); isStr {
			return e.lenOfAny(buf)
		}
		var hi *linExpr
		if t.High != nil {
			hi = e.lin(t.High)
		} else if p, ok := t.X.Type().Underlying().(*types.Pointer); ok {
			if arr, ok := p.Elem().Underlying().(*types.Array); ok {
				hi = newLin()
				hi.c = arr.Len()
			}
		} else {
			hi = e.lenOf(t.X)
		}
		if hi == nil {
			break
		}
		if t.Low != nil {
			return hi.add(e.lin(t.Low), -1)
		}
		return hi
	case *ssa.MakeSlice:
		return e.lin(t.Len)
	case *ssa.Call:
		if f := t.Call.StaticCallee(); f != nil {
			name := f.Name()
			if o := f.Origin(); o != nil {
				name = o.Name()
			}
			if sameLenCallees[name] && len(t.Call.Args) == 1 {
				return e.lenOf(t.Call.Args[0])
			}
		}
	case *ssa.Convert:
		// []byte(string): same length
		if bt, ok := t.X.Type().Underlying().(*types.Basic); ok && bt.Info()&types.IsString != 0 {
			return e.lenAtom(t.X)
		}
	}
	return e.lenAtom(buf)
}

func (e *linEnv) lenAtom(buf ssa.Value) *linExpr {
	n, ok := e.names[buf]
	if !ok {
		n = fmt.Sprintf("%s~%d", exprKeyPretty(buf), len(e.names))
		e.names[buf] = n
	}
	k := "len(" + n + ")"
	e.nonneg[k] = true
	r := newLin()
	r.t[k] = 1
	return r
}

// lin linearises an integer SSA value.
func (e *linEnv) lin(v ssa.Value) *linExpr {
	e.depth++
	defer func() { e.depth-- }()
	if e.depth > 24 {
		return e.atom(v)
	}
	if e.subst != nil {
		if r, ok := e.subst[v]; ok {
			saved := e.subst
			e.subst = nil
			res := e.lin(r)
			e.subst = saved
			return res
		}
	}
	switch t := v.(type) {
	case *ssa.Const:
		if k, ok := constIntOf(t); ok {
			r := newLin()
			r.c = k
			return r
		}
	case *ssa.BinOp:
		switch t.Op {
		case token.ADD:
			return e.lin(t.X).add(e.lin(t.Y), 1)
		case token.SUB:
			return e.lin(t.X).add(e.lin(t.Y), -1)
		case token.MUL:
			if k, ok := constIntOf(t.Y); ok {
				return newLin().add(e.lin(t.X), k)
			}
			if k, ok := constIntOf(t.X); ok {
				return newLin().add(e.lin(t.Y), k)
			}
		}
	case *ssa.Convert:
		// integer -> integer conversions that cannot lose value: widening, or unsigned -> wider signed
		sb, ok1 := t.X.Type().Underlying().(*types.Basic)
		db, ok2 := t.Type().Underlying().(*types.Basic)
		if ok1 && ok2 && sb.Info()&types.IsInteger != 0 && db.Info()&types.IsInteger != 0 {
			sw, _ := intWidth(t.X.Type())
			dw, _ := intWidth(t.Type())
			if dw >= sw {
				r := e.lin(t.X)
				return r
			}
		}
	case *ssa.Call:
		if calleeNameSSA(&t.Call) == "builtin.len" && len(t.Call.Args) == 1 {
			if _, isSlice := t.Call.Args[0].Type().Underlying().(*types.Slice); isSlice {
				return e.lenOf(t.Call.Args[0])
			}
			return e.lenAtom(t.Call.Args[0])
		}
	}
	return e.atom(v)
}

// ---- facts ----

type linFact struct {
	lf  *linExpr // lf <= 0 (constant folded into lf.c)
	why string
}

func (e *linEnv) factsFrom(f Fact) []linFact {
	b, ok := f.Atom.(*ssa.BinOp)
	if !ok {
		return nil
	}
	if bt, ok := b.X.Type().Underlying().(*types.Basic); !ok || bt.Info()&types.IsInteger == 0 {
		return nil
	}
	x, y := e.lin(b.X), e.lin(b.Y)
	op, holds := b.Op, f.Holds
	le := func(a, bb *linExpr, strict bool) linFact {
		r := a.add(bb, -1) // a - b <= 0
		if strict {
			r.c++ // a - b + 1 <= 0
		}
		return linFact{lf: r, why: fmt.Sprintf("%v=%v", f.Atom, f.Holds)}
	}
	switch {
	case op == token.LSS && holds, op == token.GEQ && !holds:
		return []linFact{le(x, y, true)}
	case op == token.LEQ && holds, op == token.GTR && !holds:
		return []linFact{le(x, y, false)}
	case op == token.GTR && holds, op == token.LEQ && !holds:
		return []linFact{le(y, x, true)}
	case op == token.GEQ && holds, op == token.LSS && !holds:
		return []linFact{le(y, x, false)}
	case op == token.EQL && holds, op == token.NEQ && !holds:
		return []linFact{le(x, y, false), le(y, x, false)}
	}
	return nil
}

// entailsLin: do the facts (each lf <= 0) together with non-negativity of the env's nonneg atoms imply goal <= 0 ?
// Bounded search: goal = sum of at most 4 facts (coefficient 1 or 2) + a non-positive combination of nonneg atoms + a constant <= 0.
func (e *linEnv) entailsLin(facts []linFact, goal *linExpr) bool {
	residualOK := func(r *linExpr) bool {
		// r = goal - sum(facts); need r <= 0 given atoms >= 0: all coefficients <= 0 on nonneg atoms, none on others, const <= 0
		if r.c > 0 {
			return false
		}
		for a, v := range r.t {
			if v > 0 || !e.nonneg[a] {
				return false
			}
		}
		return true
	}
	if residualOK(goal) {
		return true
	}
	n := len(facts)
	if n > 14 {
		n = 14
	}
	var rec func(start int, r *linExpr, depth int) bool
	rec = func(start int, r *linExpr, depth int) bool {
		if residualOK(r) {
			return true
		}
		if depth == 4 {
			return false
		}
		for i := start; i < n; i++ {
			// useful only if the fact shares an atom with the residual's positive / non-nonneg part
			useful := false
			for a, v := range facts[i].lf.t {
				if rv, ok := r.t[a]; ok && (rv > 0 && v > 0 || rv < 0 && v < 0) {
					useful = true
				}
			}
			if !useful {
				continue
			}
			if rec(i, r.add(facts[i].lf, -1), depth+1) {
				return true
			}
		}
		return false
	}
	return rec(0, goal, 0)
}

func isNonNeg(v ssa.Value) bool {
	if b, ok := v.Type().Underlying().(*types.Basic); ok && b.Info()&types.IsUnsigned != 0 {
		return true
	}
	switch t := v.(type) {
	case *ssa.Const:
		k, ok := constIntOf(t)
		return ok && k >= 0
	case *ssa.Convert:
		if b, ok := t.X.Type().Underlying().(*types.Basic); ok && b.Info()&types.IsUnsigned != 0 {
			return true
		}
		return isNonNeg(t.X)
	case *ssa.Call:
		n := calleeNameSSA(&t.Call)
		return n == "builtin.len" || n == "builtin.cap" || n == "builtin.copy"
	case *ssa.BinOp:
		if t.Op == token.ADD || t.Op == token.MUL {
			return isNonNeg(t.X) && isNonNeg(t.Y)
		}
		if t.Op == token.QUO || t.Op == token.SHR || t.Op == token.AND || t.Op == token.REM {
			return isNonNeg(t.X)
		}
	}
	if b, ok := v.Type().Underlying().(*types.Basic); ok && b.Info()&types.IsUnsigned != 0 {
		return true
	}
	return false
}

// ---- sites ----

type boundSite struct {
	Fn     *ssa.Function
	Instr  ssa.Instruction
	Buf    ssa.Value
	Upper  ssa.Value // the value that must be <= len(Buf); nil for constant uppers
	UpperK int64     // plus this constant
	Kind   string    // "index" | "slice-high" | "slice-low" | "bigendian" | "slice-order"
	// slice-order: Low + LowK <= Upper + UpperK (Buf plays no part); Upper == nil && HighIsLen: Low + LowK <= len(Buf)
	Low    ssa.Value
	LowK   int64
	Proven bool
	Why    string
}

func exprKeyPretty(v ssa.Value) string {
	switch t := v.(type) {
	case *ssa.BinOp:
		return "(" + exprKeyPretty(t.X) + t.Op.String() + exprKeyPretty(t.Y) + ")"
	case *ssa.Convert:
		return exprKeyPretty(t.X)
	case *ssa.Const:
		if t.Value != nil {
			return t.Value.ExactString()
		}
	case *ssa.Call:
		if calleeNameSSA(&t.Call) == "builtin.len" {
			return "len(" + exprKeyPretty(t.Call.Args[0]) + ")"
		}
		return calleeNameSSA(&t.Call) + "()"
	case *ssa.Phi:
		if t.Comment != "" {
			return t.Comment
		}
	case *ssa.Parameter:
		return t.Name()
	case *ssa.Extract:
		return exprKeyPretty(t.Tuple) + "#" + fmt.Sprint(t.Index)
	case *ssa.UnOp:
		return "*" + exprKeyPretty(t.X)
	case *ssa.IndexAddr:
		return exprKeyPretty(t.X) + "[" + exprKeyPretty(t.Index) + "]"
	case *ssa.FieldAddr:
		return exprKeyPretty(t.X) + ".f" + fmt.Sprint(t.Field)
	case *ssa.Slice:
		lo, hi := "", ""
		if t.Low != nil {
			lo = exprKeyPretty(t.Low)
		}
		if t.High != nil {
			hi = exprKeyPretty(t.High)
		}
		return exprKeyPretty(t.X) + "[" + lo + ":" + hi + "]"
	}
	return v.Name()
}

func (s *boundSite) describe() string {
	up := ""
	if s.Upper != nil {
		up = exprKeyPretty(s.Upper)
	}
	if s.Kind == "slice-order" {
		lo := ""
		if s.Low != nil {
			lo = exprKeyPretty(s.Low)
		}
		return fmt.Sprintf("slice-order %s%+d <= %s%+d in %s", lo, s.LowK, up, s.UpperK, exprKeyPretty(s.Buf))
	}
	return fmt.Sprintf("%s %s%+d <= len(%s)", s.Kind, up, s.UpperK, exprKeyPretty(s.Buf))
}

// goalOf builds the linear goal (<= 0) of a site.
func (s *boundSite) goalOf(env *linEnv) *linExpr {
	goal := newLin()
	if s.Kind == "slice-order" {
		goal.c = s.LowK - s.UpperK
		if s.Low != nil {
			goal = goal.add(env.lin(s.Low), 1)
		}
		if s.Upper != nil {
			goal = goal.add(env.lin(s.Upper), -1)
		}
		return goal
	}
	goal.c = s.UpperK
	if s.Upper != nil {
		goal = goal.add(env.lin(s.Upper), 1)
	}
	return goal.add(env.lenOf(s.Buf), -1)
}

// withStrings: also list index and slice expressions on strings (set by the callers that want them).
var withStrings = false

// boundSites lists the accesses on []byte buffers (and, with withStrings, strings) in fn.
func boundSites(fn *ssa.Function) []*boundSite {
	var out []*boundSite
	isBytes := func(t types.Type) bool {
		sl, ok := t.Underlying().(*types.Slice)
		if !ok {
			return false
		}
		b, ok := sl.Elem().Underlying().(*types.Basic)
		return ok && b.Kind() == types.Uint8
	}
	isString := func(t types.Type) bool {
		b, ok := t.Underlying().(*types.Basic)
		return ok && b.Info()&types.IsString != 0
	}
	allInstrs(fn, func(in ssa.Instruction) {
		switch t := in.(type) {
		case *ssa.Lookup:
			// s[i] on a string (older go/ssa)
			if !withStrings || !isString(t.X.Type()) {
				return
			}
			base, k := offsetOf(t.Index)
			out = append(out, &boundSite{Fn: fn, Instr: in, Buf: t.X, Upper: base, UpperK: k + 1, Kind: "index"})
			return
		case *ssa.Index:
			// s[i] on a string
			if !withStrings || !isString(t.X.Type()) {
				return
			}
			base, k := offsetOf(t.Index)
			out = append(out, &boundSite{Fn: fn, Instr: in, Buf: t.X, Upper: base, UpperK: k + 1, Kind: "index"})
			return
		case *ssa.IndexAddr:
			if !isBytes(t.X.Type()) {
				return
			}
			base, k := offsetOf(t.Index)
			out = append(out, &boundSite{Fn: fn, Instr: in, Buf: t.X, Upper: base, UpperK: k + 1, Kind: "index"})
		case *ssa.Slice:
			if !isBytes(t.X.Type()) && !(withStrings && isString(t.X.Type())) {
				return
			}
			if t.High != nil {
				base, k := offsetOf(t.High)
				out = append(out, &boundSite{Fn: fn, Instr: in, Buf: t.X, Upper: base, UpperK: k, Kind: "slice-high"})
				if t.Low != nil {
					// b[lo:hi] also needs lo <= hi
					lb, lk := offsetOf(t.Low)
					if !(lb == nil && lk == 0) {
						out = append(out, &boundSite{Fn: fn, Instr: in, Buf: t.X, Upper: base, UpperK: k, Low: lb, LowK: lk, Kind: "slice-order"})
					}
				}
			} else if t.Low != nil {
				// buf[lo:] needs lo <= len(buf); when the result only feeds a fixed-width big-endian access that access is the site
				onlyBE := true
				for _, ref := range *t.Referrers() {
					if call, ok := ref.(*ssa.Call); !ok || !strings.HasPrefix(calleeNameSSA(&call.Call), "(binary.bigEndian).") {
						onlyBE = false
					}
				}
				if onlyBE && len(*t.Referrers()) > 0 {
					return
				}
				base, k := offsetOf(t.Low)
				out = append(out, &boundSite{Fn: fn, Instr: in, Buf: t.X, Upper: base, UpperK: k, Kind: "slice-low"})
			}
		case *ssa.Call:
			name := calleeNameSSA(&t.Call)
			n := int64(0)
			switch name {
			case "(binary.bigEndian).Uint16", "(binary.bigEndian).PutUint16":
				n = 2
			case "(binary.bigEndian).Uint32", "(binary.bigEndian).PutUint32":
				n = 4
			case "(binary.bigEndian).Uint64", "(binary.bigEndian).PutUint64":
				n = 8
			}
			if n == 0 {
				return
			}
			arg := t.Call.Args[1]
			if sl, ok := arg.(*ssa.Slice); ok && sl.High == nil && sl.Low != nil && isBytes(sl.X.Type()) {
				base, k := offsetOf(sl.Low)
				out = append(out, &boundSite{Fn: fn, Instr: in, Buf: sl.X, Upper: base, UpperK: k + n, Kind: "bigendian"})
			} else {
				out = append(out, &boundSite{Fn: fn, Instr: in, Buf: arg, Upper: nil, UpperK: n, Kind: "bigendian"})
			}
		}
	})
	return out
}

// boundsProver carries the interprocedural facts.
type boundsProver struct {
	c       *Ctx
	e       *aliasEngine
	post    map[*ssa.Function]map[int]int // function -> result index of an offset -> index of the buffer parameter; success implies ret <= len(param)
	callers map[*ssa.Function][]ssa.CallInstruction
	inPre   map[*ssa.Function]bool
	predK   map[*ssa.Function]int64
}

func newBoundsProver(c *Ctx, e *aliasEngine, scope map[*ssa.Function]bool) *boundsProver {
	bp := &boundsProver{c: c, e: e, post: map[*ssa.Function]map[int]int{}, callers: map[*ssa.Function][]ssa.CallInstruction{}, inPre: map[*ssa.Function]bool{}}
	for _, f := range e.fns {
		allInstrs(f, func(in ssa.Instruction) {
			ci, ok := in.(ssa.CallInstruction)
			if !ok {
				return
			}
			callees, _ := e.resolve(ci.Common())
			for _, g := range callees {
				bp.callers[g] = append(bp.callers[g], ci)
			}
		})
	}
	// postconditions, to a fixed point (start from nothing, add what is proven)
	var fns []*ssa.Function
	for f := range scope {
		fns = append(fns, f)
	}
	sort.Slice(fns, func(i, j int) bool { return fnDisplay(fns[i]) < fnDisplay(fns[j]) })
	for iter := 0; iter < 6; iter++ {
		changed := false
		for _, f := range fns {
			if bp.computePost(f) {
				changed = true
			}
		}
		if !changed {
			break
		}
	}
	return bp
}

func bytesParamIndex(f *ssa.Function) int {
	for i, p := range f.Params {
		if sl, ok := p.Type().Underlying().(*types.Slice); ok {
			if b, ok := sl.Elem().Underlying().(*types.Basic); ok && b.Kind() == types.Uint8 {
				return i
			}
		}
	}
	return -1
}

// computePost: for each int result k of f (with an error last result): on every success return, result_k <= len(buffer param).
func (bp *boundsProver) computePost(f *ssa.Function) bool {
	res := f.Signature.Results()
	if res.Len() < 2 || !types.Identical(res.At(res.Len()-1).Type(), types.Universe.Lookup("error").Type()) {
		return false
	}
	bi := bytesParamIndex(f)
	if bi < 0 {
		return false
	}
	changed := false
	errIdx := res.Len() - 1
	for k := 0; k < res.Len()-1; k++ {
		if b, ok := res.At(k).Type().Underlying().(*types.Basic); !ok || b.Kind() != types.Int {
			continue
		}
		if _, done := bp.post[f][k]; done {
			continue
		}
		ok := true
		n := 0
		for _, rp := range returnPoints(f, errIdx) {
			if isErrorValue(f, rp.Block, rp.Results[errIdx], rp.EdgeFacts...) {
				continue
			}
			n++
			env := newLinEnv()
			facts := bp.factsAtPoint(f, rp.Block, rp.EdgeFacts, env)
			goal := env.lin(rp.Results[k]).add(env.lenOf(f.Params[bi]), -1)
			if !env.entailsLin(facts, goal) {
				ok = false
				break
			}
		}
		if ok && n > 0 {
			if bp.post[f] == nil {
				bp.post[f] = map[int]int{}
			}
			bp.post[f][k] = bi
			changed = true
		}
	}
	return changed
}

// factsAtPoint gathers the linear facts valid at a block: dominating branch outcomes, postconditions of successful
// helper calls, stride facts.
func (bp *boundsProver) factsAtPoint(f *ssa.Function, blk *ssa.BasicBlock, extra []Fact, env *linEnv) []linFact {
	var out []linFact
	facts := append(factsAt(f, blk), extra...)
	for _, ft := range facts {
		out = append(out, env.factsFrom(ft)...)
	}
	// postconditions: for a call t = H(..., buf, ...) with err result compared == nil on this path
	for _, ft := range facts {
		b, ok := ft.Atom.(*ssa.BinOp)
		if !ok || (b.Op != token.EQL && b.Op != token.NEQ) || !isNilConst(b.Y) {
			continue
		}
		isNil := ft.Holds
		if b.Op == token.NEQ {
			isNil = !isNil
		}
		if !isNil {
			continue
		}
		for _, src := range phiLeaves(b.X) {
			ex, ok := src.(*ssa.Extract)
			if !ok {
				continue
			}
			call, ok := ex.Tuple.(*ssa.Call)
			if !ok {
				continue
			}
			callees, _ := bp.e.resolve(&call.Call)
			if len(callees) == 0 {
				continue
			}
			// all callees must share the postcondition
			for k := 0; k < ex.Index; k++ {
				all := true
				bi := -1
				for _, g := range callees {
					pb, has := bp.post[g][k]
					if !has {
						all = false
						break
					}
					bi = pb
				}
				if !all || bi < 0 {
					continue
				}
				args := call.Call.Args
				if call.Call.IsInvoke() {
					bi-- // the receiver is not in Args
				}
				if bi < 0 || bi >= len(args) {
					continue
				}
				// extract #k of this call <= len(arg)
				var exk ssa.Value
				for _, ref := range *call.Referrers() {
					if e2, ok := ref.(*ssa.Extract); ok && e2.Index == k {
						exk = e2
					}
				}
				if exk == nil {
					continue
				}
				lf := env.lin(exk).add(env.lenOf(args[bi]), -1)
				out = append(out, linFact{lf: lf, why: "postcondition of " + calleeNameSSA(&call.Call)})
			}
		}
	}
	// predicate postconditions: a call p(x) that came out true, where p returns true only when len(param) >= K
	for _, ft := range facts {
		call, ok := ft.Atom.(*ssa.Call)
		if !ok || !ft.Holds || len(call.Call.Args) != 1 {
			continue
		}
		g := call.Call.StaticCallee()
		if g == nil {
			continue
		}
		if k := bp.predicateMinLen(g); k > 0 {
			lf := newLin()
			lf.c = k
			lf = lf.add(env.lenOfAny(call.Call.Args[0]), -1)
			out = append(out, linFact{lf: lf, why: fmt.Sprintf("%s() is true only for arguments of length >= %d", g.Name(), k)})
		}
	}
	// disequalities: a != b together with a <= b gives a <= b-1 (and symmetrically)
	for _, ft := range facts {
		b, ok := ft.Atom.(*ssa.BinOp)
		if !ok {
			continue
		}
		ne := (b.Op == token.NEQ && ft.Holds) || (b.Op == token.EQL && !ft.Holds)
		if !ne {
			continue
		}
		if bt, ok := b.X.Type().Underlying().(*types.Basic); !ok || bt.Info()&types.IsInteger == 0 {
			continue
		}
		x, y := env.lin(b.X), env.lin(b.Y)
		d := x.add(y, -1) // x - y
		if env.entailsLin(out, d) {
			s1 := x.add(y, -1)
			s1.c++
			out = append(out, linFact{lf: s1, why: "x <= y and x != y"})
		}
		d2 := y.add(x, -1)
		if env.entailsLin(out, d2) {
			s2 := y.add(x, -1)
			s2.c++
			out = append(out, linFact{lf: s2, why: "y <= x and x != y"})
		}
	}
	// stride facts: loop counter i (init 0, step s) with i < len(X) and len(Y) % s == 0, len(X) == len(Y)  =>  i + s <= len(X)
	for _, ft := range facts {
		b, ok := ft.Atom.(*ssa.BinOp)
		if !ok {
			continue
		}
		lt := (b.Op == token.LSS && ft.Holds) || (b.Op == token.GEQ && !ft.Holds)
		if !lt {
			continue
		}
		phi, ok := b.X.(*ssa.Phi)
		if !ok {
			continue
		}
		var step int64
		init0 := false
		for _, ed := range phi.Edges {
			if k, isK := constIntOf(ed); isK && k == 0 {
				init0 = true
			}
			if bo, isB := ed.(*ssa.BinOp); isB && bo.Op == token.ADD && bo.X == phi {
				if k, isK := constIntOf(bo.Y); isK {
					step = k
				}
			}
		}
		if !init0 || step < 2 {
			continue
		}
		lenX := env.lin(b.Y)
		for _, f2 := range facts {
			b2, ok := f2.Atom.(*ssa.BinOp)
			if !ok || !((b2.Op == token.EQL && f2.Holds) || (b2.Op == token.NEQ && !f2.Holds)) {
				continue
			}
			rem, ok := b2.X.(*ssa.BinOp)
			if !ok || rem.Op != token.REM {
				continue
			}
			if k0, isK := constIntOf(b2.Y); !isK || k0 != 0 {
				continue
			}
			m, isK := constIntOf(rem.Y)
			if !isK || m != step {
				continue
			}
			if env.lin(rem.X).String() != lenX.String() {
				continue
			}
			lf := env.lin(phi).add(lenX, -1)
			lf.c += step
			out = append(out, linFact{lf: lf, why: fmt.Sprintf("stride %d with len %% %d == 0", step, m)})
		}
	}
	return out
}

// prove establishes a site's bound; unexported functions may rely on a precondition proven at every call site.
func (bp *boundsProver) prove(s *boundSite) {
	f := s.Fn
	env := newLinEnv()
	facts := bp.factsAtPoint(f, s.Instr.Block(), nil, env)
	goal := s.goalOf(env)
	if env.entailsLin(facts, goal) {
		s.Proven, s.Why = true, "entailed by the dominating comparisons"
		return
	}
	// all-predecessors fallback (merge points after a switch on len(b))
	if bp.proveAtPreds(f, s, s.Instr.Block(), 0, map[*ssa.BasicBlock]bool{}) {
		s.Proven, s.Why = true, "entailed on every incoming path"
		return
	}
	// loop invariant: the goal, read over the loop-header phis it mentions, holds on entry and is preserved by every way round
	if bp.proveInductive(s) {
		s.Proven, s.Why = true, "inductive over the enclosing loop (holds on entry, preserved by every back edge)"
		return
	}
	// caller-established precondition: the goal mentions only parameters of an unexported function
	if bp.proveByCallers(s) {
		s.Proven, s.Why = true, "established by every caller"
		return
	}
	var fs []string
	for _, ft := range facts {
		fs = append(fs, ft.lf.String()+"<=0")
	}
	if len(fs) > 6 {
		fs = fs[:6]
	}
	s.Why = fmt.Sprintf("not entailed: need %s<=0; facts: %s", goal, strings.Join(fs, " ; "))
}

func (bp *boundsProver) proveAtPreds(f *ssa.Function, s *boundSite, blk *ssa.BasicBlock, depth int, seen map[*ssa.BasicBlock]bool) bool {
	if depth > 5 || len(blk.Preds) == 0 || seen[blk] {
		return false
	}
	seen[blk] = true
	defer delete(seen, blk)
	// the values of the goal must be defined before the merge: require their defining blocks to dominate blk's preds
	for _, p := range blk.Preds {
		env := newLinEnv()
		var extra []Fact
		if ef, ok := edgeFact(p, blk); ok {
			extra = append(extra, ef)
		}
		facts := bp.factsAtPoint(f, p, extra, env)
		if s.Upper != nil {
			if in, ok := s.Upper.(ssa.Instruction); ok && !in.Block().Dominates(p) {
				return false
			}
		}
		if s.Low != nil {
			if in, ok := s.Low.(ssa.Instruction); ok && !in.Block().Dominates(p) {
				return false
			}
		}
		if in, ok := s.Buf.(ssa.Instruction); ok && !in.Block().Dominates(p) {
			return false
		}
		goal := s.goalOf(env)
		if env.entailsLin(facts, goal) {
			continue
		}
		if !bp.proveAtPreds(f, s, p, depth+1, seen) {
			return false
		}
	}
	return true
}

func (bp *boundsProver) proveByCallers(s *boundSite) bool {
	f := s.Fn
	if f.Object() != nil && f.Object().Exported() && f.Signature.Recv() == nil {
		return false
	}
	if f.Signature.Recv() != nil && f.Object() != nil && f.Object().Exported() {
		return false
	}
	if bp.inPre[f] {
		return false
	}
	// buffer and upper must be parameters
	bufIdx, upIdx, lowIdx := -1, -1, -1
	for i, p := range f.Params {
		if p == s.Buf {
			bufIdx = i
		}
		if s.Upper != nil && p == s.Upper {
			upIdx = i
		}
		if s.Low != nil && p == s.Low {
			lowIdx = i
		}
	}
	if bufIdx < 0 || (s.Upper != nil && upIdx < 0) || (s.Low != nil && lowIdx < 0) {
		return false
	}
	calls := bp.callers[f]
	if len(calls) == 0 {
		return false
	}
	bp.inPre[f] = true
	defer delete(bp.inPre, f)
	for _, ci := range calls {
		cc := ci.Common()
		args := cc.Args
		shift := 0
		if cc.IsInvoke() {
			shift = 1
		}
		get := func(i int) ssa.Value {
			j := i - shift
			if j < 0 || j >= len(args) {
				return nil
			}
			return args[j]
		}
		b := get(bufIdx)
		if b == nil {
			return false
		}
		site := &boundSite{Fn: ci.Parent(), Instr: ci.(ssa.Instruction), Buf: b, UpperK: s.UpperK, Kind: s.Kind}
		if s.Upper != nil {
			u := get(upIdx)
			if u == nil {
				return false
			}
			base, k := offsetOf(u)
			site.Upper = base
			site.UpperK += k
		}
		if s.Kind == "slice-order" {
			site.LowK = s.LowK
			if s.Low != nil {
				l := get(lowIdx)
				if l == nil {
					return false
				}
				base, k := offsetOf(l)
				site.Low = base
				site.LowK += k
			}
		}
		bp.prove(site)
		if !site.Proven {
			return false
		}
	}
	return true
}

// proveInductive: when the goal mentions phis of one loop header H (which dominates the site), show the goal as an
// invariant of H: on every edge into H the goal with each phi replaced by its incoming value is entailed by the
// facts at that predecessor, for back edges together with the goal itself (the induction hypothesis).
func (bp *boundsProver) proveInductive(s *boundSite) bool {
	var phis []*ssa.Phi
	seen := map[ssa.Value]bool{}
	var walk func(v ssa.Value, d int)
	walk = func(v ssa.Value, d int) {
		if v == nil || seen[v] || d > 8 {
			return
		}
		seen[v] = true
		switch t := v.(type) {
		case *ssa.Phi:
			phis = append(phis, t)
		case *ssa.BinOp:
			walk(t.X, d+1)
			walk(t.Y, d+1)
		case *ssa.Convert:
			walk(t.X, d+1)
		}
	}
	walk(s.Low, 0)
	walk(s.Upper, 0)
	if len(phis) == 0 {
		return false
	}
	h := phis[0].Block()
	for _, p := range phis {
		if p.Block() != h {
			return false
		}
	}
	if !(h == s.Instr.Block() || h.Dominates(s.Instr.Block())) {
		return false
	}
	if in, ok := s.Buf.(ssa.Instruction); ok && s.Kind != "slice-order" && !in.Block().Dominates(h) {
		return false
	}
	f := s.Fn
	for i, pred := range h.Preds {
		env := newLinEnv()
		var extra []Fact
		if ef, ok := edgeFact(pred, h); ok {
			extra = append(extra, ef)
		}
		facts := bp.factsAtPoint(f, pred, extra, env)
		if h.Dominates(pred) {
			facts = append(facts, linFact{lf: s.goalOf(env), why: "induction hypothesis"})
		}
		env.subst = map[ssa.Value]ssa.Value{}
		for _, p := range phis {
			env.subst[p] = p.Edges[i]
		}
		goal := s.goalOf(env)
		env.subst = nil
		if !env.entailsLin(facts, goal) {
			return false
		}
	}
	return true
}

// lenOfAny: len of a slice or string value.
func (e *linEnv) lenOfAny(v ssa.Value) *linExpr {
	if _, isSlice := v.Type().Underlying().(*types.Slice); isSlice {
		return e.lenOf(v)
	}
	// a string slice s[lo:hi]: hi - lo
	if sl, ok := v.(*ssa.Slice); ok {
		var hi *linExpr
		if sl.High != nil {
			hi = e.lin(sl.High)
		} else {
			hi = e.lenOfAny(sl.X)
		}
		if sl.Low != nil {
			return hi.add(e.lin(sl.Low), -1)
		}
		return hi
	}
	return e.lenAtom(v)
}

// predicateMinLen: for a one-parameter function returning bool, the largest K (up to 8) such that every return
// that can yield true is behind len(param) >= K. 0 when nothing is known.
func (bp *boundsProver) predicateMinLen(g *ssa.Function) int64 {
	if bp.predK == nil {
		bp.predK = map[*ssa.Function]int64{}
	}
	if k, ok := bp.predK[g]; ok {
		return k
	}
	bp.predK[g] = 0
	if len(g.Params) != 1 || g.Signature.Results().Len() != 1 || len(g.Blocks) == 0 {
		return 0
	}
	if b, ok := g.Signature.Results().At(0).Type().Underlying().(*types.Basic); !ok || b.Kind() != types.Bool {
		return 0
	}
	best := int64(8)
	n := 0
	for _, rp := range returnPoints(g, 0) {
		v := rp.Results[0]
		extra := append([]Fact{}, rp.EdgeFacts...)
		if bv, isB := constBool(v); isB {
			if !bv {
				continue
			}
		} else {
			atom, pol := condAtom(v)
			extra = append(extra, Fact{Atom: atom, Holds: pol})
		}
		n++
		env := newLinEnv()
		facts := bp.factsAtPoint(g, rp.Block, extra, env)
		k := int64(0)
		for try := int64(8); try >= 1; try-- {
			goal := newLin()
			goal.c = try
			goal = goal.add(env.lenOfAny(g.Params[0]), -1)
			if env.entailsLin(facts, goal) {
				k = try
				break
			}
		}
		if k < best {
			best = k
		}
	}
	if n == 0 {
		best = 0
	}
	bp.predK[g] = best
	return best
}
