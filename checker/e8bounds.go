package main

// E8b — affine guard coverage: for every index / slice / fixed-width access on a byte buffer, the upper end of the
// access is entailed to be <= len(buffer) by the branch outcomes that dominate the access, read as linear
// inequalities over SSA terms and combined by a bounded Farkas-style search (sums of at most four facts plus
// non-negativity of lengths and unsigned values). Interprocedural facts: success postconditions of decoding helpers
// (returned offset <= len(buffer)) and preconditions established by every caller of an unexported function.

import (
	"fmt"
	"go/constant"
	"go/token"
	"go/types"
	"os"
	"sort"
	"strings"

	"golang.org/x/tools/go/ssa"
)

// ---- linear forms ----

type linExpr struct {
	c int64
	t map[string]int64 // atom key -> coefficient
}

func newLin() *linExpr { return &linExpr{t: map[string]int64{}} }
func (l *linExpr) add(o *linExpr, k int64) *linExpr {
	r := newLin()
	r.c = l.c + k*o.c
	for a, v := range l.t {
		r.t[a] = v
	}
	for a, v := range o.t {
		r.t[a] += k * v
		if r.t[a] == 0 {
			delete(r.t, a)
		}
	}
	return r
}
func (l *linExpr) String() string {
	var ks []string
	for a := range l.t {
		ks = append(ks, a)
	}
	sort.Strings(ks)
	var parts []string
	for _, a := range ks {
		parts = append(parts, fmt.Sprintf("%+d*%s", l.t[a], a))
	}
	parts = append(parts, fmt.Sprintf("%+d", l.c))
	return strings.Join(parts, "")
}

type linEnv struct {
	names  map[ssa.Value]string // stable pretty atom names
	nonneg map[string]bool
	depth  int
	// subst: while set, a value found here is linearised as its replacement (one level; used to push a goal
	// over loop-header phis through one incoming edge)
	subst map[ssa.Value]ssa.Value
	cells map[string]string // memory-cell epoch key -> atom name
	// condDefs: results of unsigned arithmetic. The atom equals its linear form only when the form is shown to stay
	// inside the type's range (no wrap-around) from the facts at hand; until then it is an opaque value of its type.
	condDefs  []condDef
	maxOf     map[string]int64 // atoms of narrow unsigned type: their largest value
	resolving bool
	// defFacts: facts that hold by the definition of an atom (q = x / k for x >= 0: k*q <= x <= k*q + k-1)
	defFacts []linFact
	defSeen  map[string]bool
}

type condDef struct {
	name string
	form *linExpr
	max  int64 // 0: only the lower bound is checked (64-bit and 32-bit additions are taken not to overflow, as for int)
}

func newLinEnv() *linEnv { return &linEnv{names: map[ssa.Value]string{}, nonneg: map[string]bool{}} }

// nameOf gives the atom name of a value. Two loads of the same memory cell with no store to it in between
// (same epoch, see cellEpoch) share one name: go/ssa keeps struct-typed locals such as the parser's current token in
// memory, and every l.token is a load of its own.
func (e *linEnv) nameOf(v ssa.Value) string {
	if n, ok := e.names[v]; ok {
		return n
	}
	if key, ok := cellEpoch(v); ok {
		if n, seen := e.cells[key]; seen {
			e.names[v] = n
			return n
		}
		n := fmt.Sprintf("%s~%d", exprKeyPretty(v), len(e.names))
		e.names[v] = n
		if e.cells == nil {
			e.cells = map[string]string{}
		}
		e.cells[key] = n
		return n
	}
	n := fmt.Sprintf("%s~%d", exprKeyPretty(v), len(e.names))
	e.names[v] = n
	return n
}

func (e *linEnv) atom(v ssa.Value) *linExpr {
	n := e.nameOf(v)
	if isNonNeg(v) {
		e.nonneg[n] = true
	}
	if w, signed := intWidth(v.Type()); !signed && w <= 16 {
		if _, isInt := v.Type().Underlying().(*types.Basic); isInt {
			if e.maxOf == nil {
				e.maxOf = map[string]int64{}
			}
			e.maxOf[n] = int64(1)<<uint(w) - 1
		}
	}
	r := newLin()
	r.t[n] = 1
	return r
}

// sameLenAs: callees whose result has the length of their first argument.
var sameLenCallees = map[string]bool{"cloneSlice": true}

// lenOf gives the linear form of len(buf).
func (e *linEnv) lenOf(buf ssa.Value) *linExpr {
	e.depth++
	defer func() { e.depth-- }()
	if e.depth > 12 {
		return e.lenAtom(buf)
	}
	switch t := buf.(type) {
	case *ssa.Slice:
		if _, isStr := t.X.Type().Underlying().(*types.Basic); isStr {
			return e.lenOfAny(buf)
		}
		var hi *linExpr
		if t.High != nil {
			hi = e.lin(t.High)
		} else if p, ok := t.X.Type().Underlying().(*types.Pointer); ok {
			if arr, ok := p.Elem().Underlying().(*types.Array); ok {
				hi = newLin()
				hi.c = arr.Len()
			}
		} else {
			hi = e.lenOf(t.X)
		}
		if hi == nil {
			break
		}
		res := hi
		if t.Low != nil {
			res = hi.add(e.lin(t.Low), -1)
		}
		if e.subst == nil && t.High != nil {
			// wherever the length of x[lo:hi] is spoken of, the slice expression has been evaluated: hi - lo >= 0 (its
			// own bounds are obligations of their own)
			nf := linFact{lf: newLin().add(res, -1), why: "length of a slice expression"}
			dup := false
			for _, d := range e.defFacts {
				if d.why == nf.why && d.lf.String() == nf.lf.String() {
					dup = true
				}
			}
			if !dup {
				e.defFacts = append(e.defFacts, nf)
			}
		}
		return res
	case *ssa.MakeSlice:
		return e.lin(t.Len)
	case *ssa.Call:
		if f := t.Call.StaticCallee(); f != nil {
			name := f.Name()
			if o := f.Origin(); o != nil {
				name = o.Name()
			}
			if sameLenCallees[name] && len(t.Call.Args) == 1 {
				return e.lenOf(t.Call.Args[0])
			}
		}
		// append(a, b...): len(a) + len(b)
		if calleeNameSSA(&t.Call) == "builtin.append" && len(t.Call.Args) == 2 {
			if _, isSl := t.Call.Args[1].Type().Underlying().(*types.Slice); isSl {
				return e.lenOf(t.Call.Args[0]).add(e.lenOf(t.Call.Args[1]), 1)
			}
		}
	case *ssa.Convert:
		// []byte(string): same length
		if bt, ok := t.X.Type().Underlying().(*types.Basic); ok && bt.Info()&types.IsString != 0 {
			return e.lenAtom(t.X)
		}
	}
	return e.lenAtom(buf)
}

func (e *linEnv) lenAtom(buf ssa.Value) *linExpr {
	if e.subst != nil {
		if r, ok := e.subst[buf]; ok {
			saved := e.subst
			e.subst = nil
			res := e.lenOfAny(r)
			e.subst = saved
			return res
		}
	}
	if k, ok := buf.(*ssa.Const); ok && k.Value != nil && k.Value.Kind() == constant.String {
		r := newLin()
		r.c = int64(len(constant.StringVal(k.Value)))
		return r
	}
	n := e.nameOf(buf)
	if false {
		e.names[buf] = n
	}
	k := "len(" + n + ")"
	e.nonneg[k] = true
	r := newLin()
	r.t[k] = 1
	return r
}

// lin linearises an integer SSA value.
func (e *linEnv) lin(v ssa.Value) *linExpr {
	e.depth++
	defer func() { e.depth-- }()
	if e.depth > 24 {
		return e.atom(v)
	}
	if e.subst != nil {
		if r, ok := e.subst[v]; ok {
			saved := e.subst
			e.subst = nil
			res := e.lin(r)
			e.subst = saved
			return res
		}
	}
	switch t := v.(type) {
	case *ssa.Const:
		if k, ok := constIntOf(t); ok {
			r := newLin()
			r.c = k
			return r
		}
	case *ssa.BinOp:
		if os.Getenv("DEBUGUNS") != "" {
			if bt, ok := t.Type().Underlying().(*types.Basic); ok && bt.Info()&types.IsUnsigned != 0 && (t.Op == token.ADD || t.Op == token.SUB || t.Op == token.MUL) {
				fmt.Fprintf(os.Stderr, "UNS %s %s %s in %s\n", bt.Name(), t.Op, exprKeyPretty(t), t.Parent().Name())
			}
		}
		var form *linExpr
		switch t.Op {
		case token.ADD:
			form = e.lin(t.X).add(e.lin(t.Y), 1)
		case token.SUB:
			form = e.lin(t.X).add(e.lin(t.Y), -1)
		case token.MUL:
			if k, ok := constIntOf(t.Y); ok {
				form = newLin().add(e.lin(t.X), k)
			} else if k, ok := constIntOf(t.X); ok {
				form = newLin().add(e.lin(t.Y), k)
			}
		}
		if t.Op == token.QUO && form == nil {
			if k, ok := constIntOf(t.Y); ok && k > 1 && isNonNeg(t.X) {
				x := e.lin(t.X)
				q := e.atom(v)
				var name string
				for n := range q.t {
					name = n
				}
				e.nonneg[name] = true
				if e.defSeen == nil {
					e.defSeen = map[string]bool{}
				}
				if !e.defSeen[name] {
					e.defSeen[name] = true
					lo := newLin().add(q, k).add(x, -1) // k*q - x <= 0
					hi := x.add(q, -k)                  // x - k*q - (k-1) <= 0
					hi.c -= k - 1
					e.defFacts = append(e.defFacts, linFact{lf: lo, why: "q = x/k"}, linFact{lf: hi, why: "q = x/k"})
				}
				return q
			}
		}
		if form != nil {
			w, signed := intWidth(t.Type())
			if signed {
				return form
			}
			// unsigned: subtraction may wrap below zero at any width, addition and multiplication above the type's
			// range at widths of 8 and 16 bits
			if t.Op != token.SUB && w > 16 {
				return form
			}
			a := e.atom(v)
			var name string
			for n := range a.t {
				name = n
			}
			known := false
			for _, d := range e.condDefs {
				if d.name == name {
					known = true
				}
			}
			if !known {
				d := condDef{name: name, form: form}
				if w <= 16 {
					d.max = int64(1)<<uint(w) - 1
				}
				e.condDefs = append(e.condDefs, d)
			}
			return a
		}
	case *ssa.Convert:
		// integer -> integer conversions that cannot lose value: widening, or unsigned -> wider signed
		sb, ok1 := t.X.Type().Underlying().(*types.Basic)
		db, ok2 := t.Type().Underlying().(*types.Basic)
		if ok1 && ok2 && sb.Info()&types.IsInteger != 0 && db.Info()&types.IsInteger != 0 {
			sw, _ := intWidth(t.X.Type())
			dw, _ := intWidth(t.Type())
			if dw >= sw {
				r := e.lin(t.X)
				return r
			}
		}
	case *ssa.Call:
		if calleeNameSSA(&t.Call) == "builtin.len" && len(t.Call.Args) == 1 {
			if _, isSlice := t.Call.Args[0].Type().Underlying().(*types.Slice); isSlice {
				return e.lenOf(t.Call.Args[0])
			}
			return e.lenOfAny(t.Call.Args[0])
		}
	case *ssa.Extract:
		// the count a reader returns: 0 <= n <= len(p) (the contract of io.Reader, which the readers of this
		// package pass on from net.Conn / io.ReadFull)
		if call, ok := t.Tuple.(*ssa.Call); ok && t.Index == 0 && readerContract[calleeNameSSA(&call.Call)] {
			var buf ssa.Value
			for _, a := range call.Call.Args {
				if st, isSl := a.Type().Underlying().(*types.Slice); isSl {
					if bt, isB := st.Elem().Underlying().(*types.Basic); isB && bt.Kind() == types.Uint8 {
						buf = a
					}
				}
			}
			if buf != nil {
				q := e.atom(v)
				var name string
				for n := range q.t {
					name = n
				}
				e.nonneg[name] = true
				if e.defSeen == nil {
					e.defSeen = map[string]bool{}
				}
				if !e.defSeen[name] {
					e.defSeen[name] = true
					hi := newLin().add(q, 1).add(e.lenOf(buf), -1) // n - len(p) <= 0
					e.defFacts = append(e.defFacts, linFact{lf: hi, why: "n <= len(p) (io.Reader)"})
				}
				return q
			}
		}
	case *ssa.UnOp:
		// a load in a memory version started by a store to the same cell reads the stored value
		if _, named := e.names[v]; !named {
			if bt, ok := t.Type().Underlying().(*types.Basic); ok && bt.Info()&types.IsInteger != 0 {
				if key, ok := cellEpoch(t); ok {
					if _, base, path, _ := cellOf(t); base != nil {
						if val, ok := forwardedStore(key, base, path); ok {
							return e.lin(val)
						}
					}
				}
			}
		}
	}
	return e.atom(v)
}

// readerContract: functions whose first result n satisfies 0 <= n <= len(p) for their byte-slice argument p.
var readerContract = map[string]bool{
	"(Conn).Read": true, "(net.Conn).Read": true, "(io.Reader).Read": true, "io.ReadFull": true, "io.ReadAtLeast": true,
	"(bufio.Reader).Read": true, "(net.PacketConn).ReadFrom": true, "ReadFromSessionUDP": true, "(net.UDPConn).Read": true,
}

// ---- facts ----

type linFact struct {
	lf  *linExpr // lf <= 0 (constant folded into lf.c)
	why string
}

func (e *linEnv) factsFrom(f Fact) []linFact {
	if extra := e.lexContractFact(f); len(extra) > 0 {
		return append(extra, e.factsFrom0(f)...)
	}
	return e.factsFrom0(f)
}

func (e *linEnv) factsFrom0(f Fact) []linFact {
	b, ok := f.Atom.(*ssa.BinOp)
	if !ok {
		return nil
	}
	if bt, ok := b.X.Type().Underlying().(*types.Basic); ok && bt.Info()&types.IsString != 0 {
		// s == "" / s != "": a statement about len(s)
		var sv ssa.Value
		if k, isK := b.Y.(*ssa.Const); isK && k.Value != nil && k.Value.Kind() == constant.String && constant.StringVal(k.Value) == "" {
			sv = b.X
		} else if k, isK := b.X.(*ssa.Const); isK && k.Value != nil && k.Value.Kind() == constant.String && constant.StringVal(k.Value) == "" {
			sv = b.Y
		}
		if sv == nil || (b.Op != token.EQL && b.Op != token.NEQ) {
			return nil
		}
		empty := (b.Op == token.EQL) == f.Holds
		l := e.lenOfAny(sv)
		if empty {
			return []linFact{{lf: l, why: "s == \"\""}} // len(s) <= 0
		}
		r := newLin().add(l, -1)
		r.c++ // 1 - len(s) <= 0
		return []linFact{{lf: r, why: "s != \"\""}}
	}
	if bt, ok := b.X.Type().Underlying().(*types.Basic); !ok || bt.Info()&types.IsInteger == 0 {
		return nil
	}
	x, y := e.lin(b.X), e.lin(b.Y)
	op, holds := b.Op, f.Holds
	le := func(a, bb *linExpr, strict bool) linFact {
		r := a.add(bb, -1) // a - b <= 0
		if strict {
			r.c++ // a - b + 1 <= 0
		}
		return linFact{lf: r, why: fmt.Sprintf("%v=%v", f.Atom, f.Holds)}
	}
	switch {
	case op == token.LSS && holds, op == token.GEQ && !holds:
		return []linFact{le(x, y, true)}
	case op == token.LEQ && holds, op == token.GTR && !holds:
		return []linFact{le(x, y, false)}
	case op == token.GTR && holds, op == token.LEQ && !holds:
		return []linFact{le(y, x, true)}
	case op == token.GEQ && holds, op == token.LSS && !holds:
		return []linFact{le(y, x, false)}
	case op == token.EQL && holds, op == token.NEQ && !holds:
		return []linFact{le(x, y, false), le(y, x, false)}
	}
	return nil
}

// entailsLin: do the facts (each lf <= 0) together with non-negativity of the env's nonneg atoms imply goal <= 0 ?
// Bounded search: goal = sum of at most 4 facts (coefficient 1 or 2) + a non-positive combination of nonneg atoms + a constant <= 0.
func (e *linEnv) entailsLin(facts []linFact, goal *linExpr) bool {
	if e.resolving || (len(e.condDefs) == 0 && len(e.maxOf) == 0 && len(e.defFacts) == 0) {
		return e.entailsLin0(facts, goal)
	}
	// type ranges, then the unsigned results whose linear form provably does not wrap (inner results first)
	facts = append(append([]linFact{}, facts...), e.defFacts...)
	var ranged []string
	for n := range e.maxOf {
		ranged = append(ranged, n)
	}
	sort.Strings(ranged)
	for _, n := range ranged {
		lf := newLin()
		lf.t[n] = 1
		lf.c = -e.maxOf[n]
		facts = append(facts, linFact{lf: lf, why: "range of the type"})
	}
	e.resolving = true
	for _, d := range e.condDefs {
		lower := newLin().add(d.form, -1)
		if !e.entailsLin0(facts, lower) {
			continue
		}
		if d.max > 0 {
			upper := newLin().add(d.form, 1)
			upper.c -= d.max
			if !e.entailsLin0(facts, upper) {
				continue
			}
		}
		at := newLin()
		at.t[d.name] = 1
		facts = append(facts, linFact{lf: at.add(d.form, -1), why: "no wrap-around"}, linFact{lf: newLin().add(d.form, 1).add(at, -1), why: "no wrap-around"})
	}
	e.resolving = false
	return e.entailsLin0(facts, goal)
}

// contradictory: two facts whose sum says that a positive constant plus non-negative terms is <= 0.
func (e *linEnv) contradictory(facts []linFact) bool {
	for i := range facts {
		for j := i; j < len(facts); j++ {
			sum := facts[i].lf
			if j != i {
				sum = sum.add(facts[j].lf, 1)
			}
			if sum.c <= 0 {
				continue
			}
			bad := false
			for a, v := range sum.t {
				if v < 0 || !e.nonneg[a] {
					bad = true
				}
			}
			if !bad {
				return true
			}
		}
	}
	return false
}

func (e *linEnv) entailsLin0(facts []linFact, goal *linExpr) bool {
	residualOK := func(r *linExpr) bool {
		// r = goal - sum(facts); need r <= 0 given atoms >= 0: all coefficients <= 0 on nonneg atoms, none on others, const <= 0
		if r.c > 0 {
			return false
		}
		for a, v := range r.t {
			if v > 0 || !e.nonneg[a] {
				return false
			}
		}
		return true
	}
	if residualOK(goal) {
		return true
	}
	// keep the facts that can matter: those connected to the goal through shared atoms
	if len(facts) > 14 {
		rel := map[string]bool{}
		for a := range goal.t {
			rel[a] = true
		}
		var picked []linFact
		used := make([]bool, len(facts))
		for round := 0; round < 3; round++ {
			for i, f := range facts {
				if used[i] {
					continue
				}
				hit := false
				for a := range f.lf.t {
					if rel[a] {
						hit = true
					}
				}
				if hit {
					used[i] = true
					picked = append(picked, f)
				}
			}
			for _, f := range picked {
				for a := range f.lf.t {
					rel[a] = true
				}
			}
		}
		facts = picked
	}
	n := len(facts)
	if n > 18 {
		n = 18
	}
	maxDepth := 4
	visited := map[string]int{}
	budget := 20000
	var rec func(start int, r *linExpr, depth int) bool
	rec = func(start int, r *linExpr, depth int) bool {
		if residualOK(r) {
			return true
		}
		if depth == maxDepth || budget <= 0 {
			return false
		}
		budget--
		key := r.String()
		if d, seen := visited[key]; seen && d <= depth {
			return false
		}
		visited[key] = depth
		for i := 0; i < n; i++ {
			// useful only if the fact shares an atom with the residual's positive / non-nonneg part
			useful := false
			var scale int64
			for a, v := range facts[i].lf.t {
				if rv, ok := r.t[a]; ok && (rv > 0 && v > 0 || rv < 0 && v < 0) {
					useful = true
					if k := rv / v; k >= 2 && k*v == rv && (scale == 0 || k < scale) {
						scale = k
					}
				}
			}
			if !useful {
				continue
			}
			// the multiple of the fact that cancels a shared atom outright (4*b against b <= 31)
			if scale >= 2 && rec(i, r.add(facts[i].lf, -scale), depth+1) {
				return true
			}
			if rec(i, r.add(facts[i].lf, -1), depth+1) {
				return true
			}
		}
		return false
	}
	if rec(0, goal, 0) {
		return true
	}
	// rational combinations with denominator 2: prove 2*goal (twice as many facts may be needed)
	maxDepth = 7
	visited = map[string]int{}
	budget = 40000
	return rec(0, newLin().add(goal, 2), 0)
}

func isNonNeg(v ssa.Value) bool {
	if b, ok := v.Type().Underlying().(*types.Basic); ok && b.Info()&types.IsUnsigned != 0 {
		return true
	}
	switch t := v.(type) {
	case *ssa.Phi:
		return phiNonNeg(t) || coNonNeg(t, map[ssa.Value]bool{})
	case *ssa.Const:
		k, ok := constIntOf(t)
		return ok && k >= 0
	case *ssa.Convert:
		if b, ok := t.X.Type().Underlying().(*types.Basic); ok && b.Info()&types.IsUnsigned != 0 {
			return true
		}
		return isNonNeg(t.X)
	case *ssa.Call:
		n := calleeNameSSA(&t.Call)
		return n == "builtin.len" || n == "builtin.cap" || n == "builtin.copy"
	case *ssa.UnOp:
		if t.Op == token.MUL && fieldNonNeg(t) {
			return true
		}
	case *ssa.Parameter:
		return paramNonNeg(t)
	case *ssa.BinOp:
		if t.Op == token.ADD || t.Op == token.MUL {
			return isNonNeg(t.X) && isNonNeg(t.Y)
		}
		if t.Op == token.QUO || t.Op == token.SHR || t.Op == token.AND || t.Op == token.REM {
			return isNonNeg(t.X)
		}
	}
	if b, ok := v.Type().Underlying().(*types.Basic); ok && b.Info()&types.IsUnsigned != 0 {
		return true
	}
	return false
}

// assumedMinLen: preconditions len(param) >= k that a rule states for its entry points.
var assumedMinLen = map[*ssa.Parameter]int64{}

// ---- field invariants ----

// fieldNonNeg: the load reads an unexported integer field of a module struct that only ever receives non-negative
// values: every store to the field anywhere in the module stores a value that is shown non-negative at that point,
// assuming (induction over the execution) that every earlier load of the field was. Values of the struct type are
// otherwise only zero-initialised or copied whole, which preserves the invariant; the field's address is never
// taken. (Overflow of int is outside the model, as everywhere in this prover.)
var fieldInv = map[*types.Var]int{} // 1 holds (or assumed while being shown), 2 does not
var fieldInvProver *boundsProver

func fieldNonNeg(ld *ssa.UnOp) bool {
	fa, ok := ld.X.(*ssa.FieldAddr)
	if !ok {
		return false
	}
	v := fieldVarOf(fa)
	if v == nil || v.Exported() {
		return false
	}
	if bt, ok := v.Type().Underlying().(*types.Basic); !ok || bt.Info()&types.IsInteger == 0 {
		return false
	}
	switch fieldInv[v] {
	case 1:
		return true
	case 2:
		return false
	}
	bp, m := fieldInvProver, theModOracle
	if bp == nil || m == nil || m.addrTaken[v] {
		fieldInv[v] = 2
		return false
	}
	fieldInv[v] = 1
	holds := true
	for _, f := range m.fns {
		if !holds {
			break
		}
		for _, b := range f.Blocks {
			for _, in := range b.Instrs {
				st, isSt := in.(*ssa.Store)
				if !isSt {
					continue
				}
				sfa, isFA := st.Addr.(*ssa.FieldAddr)
				if !isFA || fieldVarOf(sfa) != v {
					continue
				}
				if isNonNeg(st.Val) {
					continue
				}
				env := newLinEnv()
				saved := bp.goalValues
				bp.goalValues = []ssa.Value{st.Val}
				facts := bp.factsAtPoint(f, b, nil, env)
				bp.goalValues = saved
				goal := newLin().add(env.lin(st.Val), -1)
				if !env.entailsLin(facts, goal) {
					holds = false
				}
			}
		}
	}
	if !holds {
		fieldInv[v] = 2
	}
	return holds
}

// paramNonNeg: an integer parameter of an unexported function to which every call site in the module passes a
// non-negative value (a constant, a length ...).
var paramNN = map[*ssa.Parameter]int{}

func paramNonNeg(p *ssa.Parameter) bool {
	switch paramNN[p] {
	case 1:
		return true
	case 2:
		return false
	}
	bp := fieldInvProver
	f := p.Parent()
	paramNN[p] = 2
	if bp == nil || f == nil || (f.Object() != nil && f.Object().Exported()) {
		return false
	}
	idx := -1
	for i, q := range f.Params {
		if q == p {
			idx = i
		}
	}
	calls := bp.callers[f]
	if idx < 0 || len(calls) == 0 {
		return false
	}
	for _, ci := range calls {
		cc := ci.Common()
		if cc.IsInvoke() || cc.StaticCallee() != f || idx >= len(cc.Args) || !isNonNeg(cc.Args[idx]) {
			return false
		}
	}
	paramNN[p] = 1
	return true
}

// ---- sites ----

type boundSite struct {
	Fn     *ssa.Function
	Instr  ssa.Instruction
	Buf    ssa.Value
	Upper  ssa.Value // the value that must be <= len(Buf); nil for constant uppers
	UpperK int64     // plus this constant
	Kind   string    // "index" | "slice-high" | "slice-low" | "bigendian" | "slice-order"
	// slice-order: Low + LowK <= Upper + UpperK (Buf plays no part); Upper == nil && HighIsLen: Low + LowK <= len(Buf)
	Low    ssa.Value
	LowK   int64
	Proven bool
	Why    string
}

func exprKeyPretty(v ssa.Value) string {
	switch t := v.(type) {
	case *ssa.BinOp:
		return "(" + exprKeyPretty(t.X) + t.Op.String() + exprKeyPretty(t.Y) + ")"
	case *ssa.Convert:
		return exprKeyPretty(t.X)
	case *ssa.Const:
		if t.Value != nil {
			return t.Value.ExactString()
		}
	case *ssa.Call:
		if calleeNameSSA(&t.Call) == "builtin.len" {
			return "len(" + exprKeyPretty(t.Call.Args[0]) + ")"
		}
		return calleeNameSSA(&t.Call) + "()"
	case *ssa.Phi:
		if t.Comment != "" {
			return t.Comment
		}
	case *ssa.Parameter:
		return t.Name()
	case *ssa.Extract:
		return exprKeyPretty(t.Tuple) + "#" + fmt.Sprint(t.Index)
	case *ssa.UnOp:
		return "*" + exprKeyPretty(t.X)
	case *ssa.IndexAddr:
		return exprKeyPretty(t.X) + "[" + exprKeyPretty(t.Index) + "]"
	case *ssa.FieldAddr:
		return exprKeyPretty(t.X) + ".f" + fmt.Sprint(t.Field)
	case *ssa.Slice:
		lo, hi := "", ""
		if t.Low != nil {
			lo = exprKeyPretty(t.Low)
		}
		if t.High != nil {
			hi = exprKeyPretty(t.High)
		}
		return exprKeyPretty(t.X) + "[" + lo + ":" + hi + "]"
	}
	return v.Name()
}

func (s *boundSite) describe() string {
	up := ""
	if s.Upper != nil {
		up = exprKeyPretty(s.Upper)
	}
	if s.Kind == "index-low" {
		return fmt.Sprintf("index-low 0 <= %s%+d in %s", up, s.UpperK, exprKeyPretty(s.Buf))
	}
	if s.Kind == "slice-order" {
		lo := ""
		if s.Low != nil {
			lo = exprKeyPretty(s.Low)
		}
		return fmt.Sprintf("slice-order %s%+d <= %s%+d in %s", lo, s.LowK, up, s.UpperK, exprKeyPretty(s.Buf))
	}
	return fmt.Sprintf("%s %s%+d <= len(%s)", s.Kind, up, s.UpperK, exprKeyPretty(s.Buf))
}

// goalOf builds the linear goal (<= 0) of a site.
func (s *boundSite) goalOf(env *linEnv) *linExpr {
	goal := newLin()
	if s.Kind == "slice-order" || s.Kind == "index-low" {
		goal.c = s.LowK - s.UpperK
		if s.Low != nil {
			goal = goal.add(env.lin(s.Low), 1)
		}
		if s.Upper != nil {
			goal = goal.add(env.lin(s.Upper), -1)
		}
		return goal
	}
	goal.c = s.UpperK
	if s.Upper != nil {
		goal = goal.add(env.lin(s.Upper), 1)
	}
	return goal.add(env.lenOf(s.Buf), -1)
}

// withAllSlices: list index and slice expressions on slices of every element type, not only []byte.
var withAllSlices = false

// withStrings: also list index and slice expressions on strings (set by the callers that want them).
var withStrings = false

// boundSites lists the accesses on []byte buffers (and, with withStrings, strings) in fn.
func boundSites(fn *ssa.Function) []*boundSite {
	var out []*boundSite
	isBytes := func(t types.Type) bool {
		sl, ok := t.Underlying().(*types.Slice)
		if !ok {
			return false
		}
		if withAllSlices {
			return true
		}
		b, ok := sl.Elem().Underlying().(*types.Basic)
		return ok && b.Kind() == types.Uint8
	}
	isString := func(t types.Type) bool {
		b, ok := t.Underlying().(*types.Basic)
		return ok && b.Info()&types.IsString != 0
	}
	allInstrs(fn, func(in ssa.Instruction) {
		switch t := in.(type) {
		case *ssa.Lookup:
			// s[i] on a string (older go/ssa)
			if !withStrings || !isString(t.X.Type()) {
				return
			}
			base, k := offsetOf(t.Index)
			out = append(out, &boundSite{Fn: fn, Instr: in, Buf: t.X, Upper: base, UpperK: k + 1, Kind: "index"})
			return
		case *ssa.Index:
			// s[i] on a string
			if !withStrings || !isString(t.X.Type()) {
				return
			}
			base, k := offsetOf(t.Index)
			out = append(out, &boundSite{Fn: fn, Instr: in, Buf: t.X, Upper: base, UpperK: k + 1, Kind: "index"})
			return
		case *ssa.IndexAddr:
			if !isBytes(t.X.Type()) {
				return
			}
			base, k := offsetOf(t.Index)
			out = append(out, &boundSite{Fn: fn, Instr: in, Buf: t.X, Upper: base, UpperK: k + 1, Kind: "index"})
		case *ssa.Slice:
			if !isBytes(t.X.Type()) && !(withStrings && isString(t.X.Type())) {
				return
			}
			if t.High != nil {
				base, k := offsetOf(t.High)
				out = append(out, &boundSite{Fn: fn, Instr: in, Buf: t.X, Upper: base, UpperK: k, Kind: "slice-high"})
				if t.Low != nil {
					// b[lo:hi] also needs lo <= hi
					lb, lk := offsetOf(t.Low)
					if !(lb == nil && lk == 0) {
						out = append(out, &boundSite{Fn: fn, Instr: in, Buf: t.X, Upper: base, UpperK: k, Low: lb, LowK: lk, Kind: "slice-order"})
					}
				}
			} else if t.Low != nil {
				// buf[lo:] needs lo <= len(buf); when the result only feeds a fixed-width big-endian access that access is the site
				onlyBE := true
				for _, ref := range *t.Referrers() {
					if call, ok := ref.(*ssa.Call); !ok || !strings.HasPrefix(calleeNameSSA(&call.Call), "(binary.bigEndian).") {
						onlyBE = false
					}
				}
				if onlyBE && len(*t.Referrers()) > 0 {
					return
				}
				base, k := offsetOf(t.Low)
				out = append(out, &boundSite{Fn: fn, Instr: in, Buf: t.X, Upper: base, UpperK: k, Kind: "slice-low"})
			}
		case *ssa.Call:
			name := calleeNameSSA(&t.Call)
			n := int64(0)
			switch name {
			case "(binary.bigEndian).Uint16", "(binary.bigEndian).PutUint16":
				n = 2
			case "(binary.bigEndian).Uint32", "(binary.bigEndian).PutUint32":
				n = 4
			case "(binary.bigEndian).Uint64", "(binary.bigEndian).PutUint64":
				n = 8
			}
			if n == 0 {
				return
			}
			arg := t.Call.Args[1]
			if sl, ok := arg.(*ssa.Slice); ok && sl.High == nil && sl.Low != nil && isBytes(sl.X.Type()) {
				base, k := offsetOf(sl.Low)
				out = append(out, &boundSite{Fn: fn, Instr: in, Buf: sl.X, Upper: base, UpperK: k + n, Kind: "bigendian"})
			} else {
				out = append(out, &boundSite{Fn: fn, Instr: in, Buf: arg, Upper: nil, UpperK: n, Kind: "bigendian"})
			}
		}
	})
	// lower bounds: an index or a slice bound that is not non-negative by construction (len(x)-1, i-2, ...)
	var lows []*boundSite
	for _, st := range out {
		var idx ssa.Value
		switch t := st.Instr.(type) {
		case *ssa.IndexAddr:
			idx = t.Index
		case *ssa.Index:
			idx = t.Index
		case *ssa.Lookup:
			idx = t.Index
		case *ssa.Slice:
			if st.Kind == "slice-high" && t.Low != nil {
				idx = t.Low // lo >= 0; hi >= lo is the slice-order site
			} else if st.Kind == "slice-low" {
				idx = t.Low
			} else if st.Kind == "slice-high" && t.Low == nil {
				idx = t.High
			}
		}
		// offsets handed in by the caller are taken to be non-negative; what can go below zero on hostile input is
		// an explicit subtraction (len(x)-1, i-2, end-off ...)
		if idx == nil || coNonNeg(idx, map[ssa.Value]bool{}) || !hasSub(idx, 0) {
			continue
		}
		base, k := offsetOf(idx)
		lows = append(lows, &boundSite{Fn: fn, Instr: st.Instr, Buf: st.Buf, Upper: base, UpperK: k, Kind: "index-low"})
	}
	return append(out, lows...)
}

// boundsProver carries the interprocedural facts.
type boundsProver struct {
	c    *Ctx
	e    *aliasEngine
	post map[*ssa.Function]map[int]int // function -> result index of an offset -> index of the buffer parameter; success implies ret <= len(param)
	// cpost: the same, but only for calls whose int arguments listed in pre are themselves <= len(buffer argument)
	// (a helper that hands its offset parameter back when it has nothing to do)
	cpost    map[*ssa.Function]map[int]condPost
	hyp      map[*ssa.Function][]int // while a conditional postcondition is being shown: parameters assumed <= len(buffer)
	hypBuf   map[*ssa.Function]int
	condBusy map[*ssa.Call]bool
	callers  map[*ssa.Function][]ssa.CallInstruction
	inPre    map[*ssa.Function]bool
	predK    map[*ssa.Function]int64
	boolP    map[*ssa.Function]int // 0 unknown, 1 proven, 2 not proven / in progress
	// goalValues: the values of the goal currently being proven (for facts about calls that occur only in the goal)
	goalValues []ssa.Value
}

type condPost struct {
	buf int
	pre []int
}

func newBoundsProver(c *Ctx, e *aliasEngine, scope map[*ssa.Function]bool) *boundsProver {
	if theModOracle == nil || theModOracle.prog != c.Prog {
		theModOracle = newModOracle(c)
	}
	fieldInv = map[*types.Var]int{}
	paramNN = map[*ssa.Parameter]int{}
	bp := &boundsProver{c: c, e: e, post: map[*ssa.Function]map[int]int{}, cpost: map[*ssa.Function]map[int]condPost{}, hyp: map[*ssa.Function][]int{}, hypBuf: map[*ssa.Function]int{}, condBusy: map[*ssa.Call]bool{}, callers: map[*ssa.Function][]ssa.CallInstruction{}, inPre: map[*ssa.Function]bool{}}
	fieldInvProver = bp
	for _, f := range e.fns {
		allInstrs(f, func(in ssa.Instruction) {
			ci, ok := in.(ssa.CallInstruction)
			if !ok {
				return
			}
			callees, _ := e.resolve(ci.Common())
			for _, g := range callees {
				bp.callers[g] = append(bp.callers[g], ci)
			}
		})
	}
	// postconditions, to a fixed point (start from nothing, add what is proven)
	var fns []*ssa.Function
	for f := range scope {
		fns = append(fns, f)
	}
	sort.Slice(fns, func(i, j int) bool { return fnDisplay(fns[i]) < fnDisplay(fns[j]) })
	for iter := 0; iter < 6; iter++ {
		changed := false
		for _, f := range fns {
			if bp.computePost(f) {
				changed = true
			}
		}
		if !changed {
			break
		}
	}
	theLexContract = nil
	theLexContract = buildLexContract(c, bp)
	return bp
}

func bytesParamIndex(f *ssa.Function) int {
	for i, p := range f.Params {
		if sl, ok := p.Type().Underlying().(*types.Slice); ok {
			if b, ok := sl.Elem().Underlying().(*types.Basic); ok && b.Kind() == types.Uint8 {
				return i
			}
		}
	}
	return -1
}

// computePost: for each int result k of f (with an error last result): on every success return, result_k <= len(buffer param).
func (bp *boundsProver) computePost(f *ssa.Function) bool {
	res := f.Signature.Results()
	if res.Len() < 2 || !types.Identical(res.At(res.Len()-1).Type(), types.Universe.Lookup("error").Type()) {
		return false
	}
	bi := bytesParamIndex(f)
	if bi < 0 {
		return false
	}
	changed := false
	errIdx := res.Len() - 1
	for k := 0; k < res.Len()-1; k++ {
		if b, ok := res.At(k).Type().Underlying().(*types.Basic); !ok || b.Kind() != types.Int {
			continue
		}
		if _, done := bp.post[f][k]; done {
			continue
		}
		ok := true
		n := 0
		for _, rp := range returnPoints(f, errIdx) {
			if isErrorValue(f, rp.Block, rp.Results[errIdx], rp.EdgeFacts...) {
				continue
			}
			n++
			if !bp.boundedByLen(f, rp.Block, rp.EdgeFacts, rp.Results[k], f.Params[bi], map[*ssa.Phi]bool{}, 0) {
				ok = false
				break
			}
		}
		if ok && n > 0 {
			if bp.post[f] == nil {
				bp.post[f] = map[int]int{}
			}
			bp.post[f][k] = bi
			if bp.cpost[f] != nil {
				delete(bp.cpost[f], k)
			}
			changed = true
			continue
		}
		if _, done := bp.cpost[f][k]; done || n == 0 {
			continue
		}
		// conditionally: with the int parameters assumed to be no larger than the buffer
		var pre []int
		for j, p := range f.Params {
			if b, isB := p.Type().Underlying().(*types.Basic); isB && b.Kind() == types.Int {
				pre = append(pre, j)
			}
		}
		if len(pre) == 0 {
			continue
		}
		bp.hyp[f], bp.hypBuf[f] = pre, bi
		ok = true
		if os.Getenv("BPDEBUG") != "" {
			fmt.Fprintf(os.Stderr, "try-cpost %s #%d pre=%v\n", fnDisplay(f), k, pre)
		}
		for _, rp := range returnPoints(f, errIdx) {
			if isErrorValue(f, rp.Block, rp.Results[errIdx], rp.EdgeFacts...) {
				continue
			}
			if !bp.boundedByLen(f, rp.Block, rp.EdgeFacts, rp.Results[k], f.Params[bi], map[*ssa.Phi]bool{}, 0) {
				ok = false
				break
			}
		}
		delete(bp.hyp, f)
		delete(bp.hypBuf, f)
		if ok {
			if bp.cpost[f] == nil {
				bp.cpost[f] = map[int]condPost{}
			}
			bp.cpost[f][k] = condPost{buf: bi, pre: pre}
			if os.Getenv("BPDEBUG") != "" {
				fmt.Fprintf(os.Stderr, "cpost %s #%d pre=%v\n", fnDisplay(f), k, pre)
			}
			changed = true
		}
	}
	return changed
}

// boundedByLen: v <= len(buf) at the end of blk. Direct entailment from the facts there; otherwise, for a phi, the
// same claim for every incoming value at the end of its predecessor, with the claim for the phi itself as induction
// hypothesis (a phi that is being shown may be assumed on the way round the loop: the hypothesis enters as a fact).
func (bp *boundsProver) boundedByLen(f *ssa.Function, blk *ssa.BasicBlock, extra []Fact, v, buf ssa.Value, assumed map[*ssa.Phi]bool, depth int) bool {
	env := newLinEnv()
	facts := bp.factsAtPoint(f, blk, extra, env)
	var hyps []*ssa.Phi
	for p := range assumed {
		hyps = append(hyps, p)
	}
	sort.Slice(hyps, func(i, j int) bool { return hyps[i].Pos() < hyps[j].Pos() })
	for _, p := range hyps {
		// the hypothesis about p holds wherever p's block dominates
		if p.Block() == blk || p.Block().Dominates(blk) {
			facts = append(facts, linFact{lf: env.lin(p).add(env.lenOf(buf), -1), why: "induction hypothesis"})
		}
	}
	goal := env.lin(v).add(env.lenOf(buf), -1)
	if env.entailsLin(facts, goal) {
		return true
	}
	phi, ok := v.(*ssa.Phi)
	if !ok || depth > 3 {
		return false
	}
	if assumed[phi] {
		return false // already a hypothesis: it was not enough here
	}
	assumed[phi] = true
	defer delete(assumed, phi)
	for i, e := range phi.Edges {
		if e == ssa.Value(phi) {
			continue
		}
		pred := phi.Block().Preds[i]
		var ex []Fact
		if ef, ok := edgeFact(pred, phi.Block()); ok {
			ex = append(ex, ef)
		}
		if ep, isPhi := e.(*ssa.Phi); isPhi && assumed[ep] {
			continue
		}
		if !bp.boundedByLen(f, pred, ex, e, buf, assumed, depth+1) {
			return false
		}
	}
	return true
}

// factsAtPoint gathers the linear facts valid at a block: dominating branch outcomes, postconditions of successful
// helper calls, stride facts.
func (bp *boundsProver) factsAtPoint(f *ssa.Function, blk *ssa.BasicBlock, extra []Fact, env *linEnv) []linFact {
	var out []linFact
	// stated preconditions of an entry point (the property's own hypothesis, e.g. "input of at least header size")
	for _, p := range f.Params {
		if k, ok := assumedMinLen[p]; ok {
			lf := newLin().add(env.lenOfAny(p), -1)
			lf.c = k
			out = append(out, linFact{lf: lf, why: "precondition of the entry point"})
		}
	}
	if pre, has := bp.hyp[f]; has {
		for _, j := range pre {
			out = append(out, linFact{lf: env.lin(f.Params[j]).add(env.lenOf(f.Params[bp.hypBuf[f]]), -1), why: "hypothesis of the conditional postcondition"})
		}
	}
	facts := append(factsAt(f, blk), extra...)
	for _, ft := range facts {
		out = append(out, env.factsFrom(ft)...)
	}
	type condCand struct {
		call *ssa.Call
		k    int
		cp   condPost
		done bool
	}
	var cands []*condCand
	// postconditions: for a call t = H(..., buf, ...) with err result compared == nil on this path
	for _, ft := range facts {
		b, ok := ft.Atom.(*ssa.BinOp)
		if !ok || (b.Op != token.EQL && b.Op != token.NEQ) || !isNilConst(b.Y) {
			continue
		}
		isNil := ft.Holds
		if b.Op == token.NEQ {
			isNil = !isNil
		}
		if !isNil {
			continue
		}
		for _, src := range phiLeaves(b.X) {
			ex, ok := src.(*ssa.Extract)
			if !ok {
				continue
			}
			call, ok := ex.Tuple.(*ssa.Call)
			if !ok {
				continue
			}
			callees, _ := bp.e.resolve(&call.Call)
			if len(callees) == 0 {
				continue
			}
			// all callees must share the postcondition
			for k := 0; k < ex.Index; k++ {
				all := true
				bi := -1
				for _, g := range callees {
					pb, has := bp.post[g][k]
					if !has {
						all = false
						break
					}
					bi = pb
				}
				if !all {
					// every callee has the postcondition, some of them only conditionally: the union of the preconditions
					okAll := true
					cbuf := -1
					preSet := map[int]bool{}
					var missing []string
					for _, g := range callees {
						if pb, has := bp.post[g][k]; has {
							if cbuf >= 0 && cbuf != pb {
								okAll = false
							}
							cbuf = pb
							continue
						}
						cp, has := bp.cpost[g][k]
						if !has || (cbuf >= 0 && cbuf != cp.buf) {
							okAll = false
							missing = append(missing, fnDisplay(g))
							continue
						}
						cbuf = cp.buf
						for _, j := range cp.pre {
							preSet[j] = true
						}
					}
					if os.Getenv("BPDEBUG") != "" && len(missing) > 0 && len(callees) > 1 {
						fmt.Fprintf(os.Stderr, "no-post %s #%d: %v\n", calleeNameSSA(&call.Call), k, missing)
					}
					if okAll && cbuf >= 0 {
						cp := condPost{buf: cbuf}
						for j := range preSet {
							cp.pre = append(cp.pre, j)
						}
						sort.Ints(cp.pre)
						if call.Call.IsInvoke() {
							// the receiver is not among the arguments
							cp.buf--
							for i := range cp.pre {
								cp.pre[i]--
							}
						}
						valid := cp.buf >= 0
						for _, j := range cp.pre {
							if j < 0 {
								valid = false
							}
						}
						if valid {
							cands = append(cands, &condCand{call: call, k: k, cp: cp})
						}
					}
				}
				if !all || bi < 0 {
					continue
				}
				args := call.Call.Args
				if call.Call.IsInvoke() {
					bi-- // the receiver is not in Args
				}
				if bi < 0 || bi >= len(args) {
					continue
				}
				// extract #k of this call <= len(arg)
				var exk ssa.Value
				for _, ref := range *call.Referrers() {
					if e2, ok := ref.(*ssa.Extract); ok && e2.Index == k {
						exk = e2
					}
				}
				if exk == nil {
					continue
				}
				lf := env.lin(exk).add(env.lenOf(args[bi]), -1)
				out = append(out, linFact{lf: lf, why: "postcondition of " + calleeNameSSA(&call.Call)})
			}
		}
	}
	// conditional postconditions: usable where the arguments named in the precondition are known to fit the buffer
	for round := 0; round < 4 && len(cands) > 0; round++ {
		progress := false
		for _, cd := range cands {
			if cd.done {
				continue
			}
			args := cd.call.Call.Args
			if cd.cp.buf >= len(args) {
				continue
			}
			okPre := true
			for _, j := range cd.cp.pre {
				if j >= len(args) {
					okPre = false
					break
				}
				if env.entailsLin(out, env.lin(args[j]).add(env.lenOf(args[cd.cp.buf]), -1)) {
					continue
				}
				// at the call itself, inductively over the phis the argument is made of
				if os.Getenv("BPDEBUG") != "" {
					fmt.Fprintf(os.Stderr, "cand %s arg %d busy=%v\n", calleeNameSSA(&cd.call.Call), j, bp.condBusy[cd.call])
				}
				if bp.condBusy[cd.call] {
					okPre = false
					break
				}
				bp.condBusy[cd.call] = true
				proven := bp.boundedByLen(f, cd.call.Block(), nil, args[j], args[cd.cp.buf], map[*ssa.Phi]bool{}, 0)
				delete(bp.condBusy, cd.call)
				if !proven {
					okPre = false
					break
				}
			}
			if !okPre {
				continue
			}
			for _, ref := range *cd.call.Referrers() {
				if e2, ok := ref.(*ssa.Extract); ok && e2.Index == cd.k {
					out = append(out, linFact{lf: env.lin(e2).add(env.lenOf(args[cd.cp.buf]), -1), why: "conditional postcondition of " + calleeNameSSA(&cd.call.Call)})
				}
			}
			cd.done = true
			progress = true
		}
		if !progress {
			break
		}
	}
	// standard-library results (unconditional): an index into s is in [-1, len(s)-1]; Cut's parts are no longer than s
	seenCalls := map[*ssa.Call]bool{}
	var addCallFacts func(v ssa.Value, depth int)
	addCallFacts = func(v ssa.Value, depth int) {
		if v == nil || depth > 6 {
			return
		}
		switch t := v.(type) {
		case *ssa.BinOp:
			addCallFacts(t.X, depth+1)
			addCallFacts(t.Y, depth+1)
		case *ssa.Convert:
			addCallFacts(t.X, depth+1)
		case *ssa.Phi:
			for _, e := range t.Edges {
				if _, isPhi := e.(*ssa.Phi); !isPhi {
					addCallFacts(e, depth+1)
				}
			}
		case *ssa.Extract:
			addCallFacts(t.Tuple, depth+1)
		case *ssa.Call:
			if seenCalls[t] {
				return
			}
			seenCalls[t] = true
			switch calleeNameSSA(&t.Call) {
			case "strings.IndexByte", "strings.Index", "strings.IndexRune", "strings.IndexAny", "strings.LastIndex", "strings.LastIndexByte", "bytes.IndexByte", "bytes.Index":
				r := env.lin(t)
				lo := newLin().add(r, -1)
				lo.c-- // -1 - r <= 0
				hi := r.add(env.lenOfAny(t.Call.Args[0]), -1)
				hi.c++ // r + 1 - len(s) <= 0
				out = append(out, linFact{lf: lo, why: "index >= -1"}, linFact{lf: hi, why: "index < len"})
			case "builtin.min", "builtin.max":
				// min(a, b, ...) is no larger than any argument, max(...) no smaller
				if b, isB := t.Type().Underlying().(*types.Basic); isB && b.Info()&types.IsInteger != 0 {
					for _, a := range t.Call.Args {
						addCallFacts(a, depth+1)
						var lf *linExpr
						if calleeNameSSA(&t.Call) == "builtin.min" {
							lf = env.lin(t).add(env.lin(a), -1)
						} else {
							lf = env.lin(a).add(env.lin(t), -1)
						}
						out = append(out, linFact{lf: lf, why: "min / max of its arguments"})
					}
				}
			case "fmt.Sprintf":
				// the format's fixed widths give a minimum length
				if k, ok := t.Call.Args[0].(*ssa.Const); ok && k.Value != nil && k.Value.Kind() == constant.String {
					if m, okf := fmtMinLen(constant.StringVal(k.Value)); okf && m > 0 {
						lf := newLin().add(env.lenOfAny(t), -1)
						lf.c = m
						out = append(out, linFact{lf: lf, why: "minimum length of the format"})
					}
				}
			case "(encoding/base64.Encoding).Decode", "(base64.Encoding).Decode", "(encoding/base32.Encoding).Decode", "(base32.Encoding).Decode", "encoding/hex.Decode", "hex.Decode":
				// n, err := enc.Decode(dst, src): n octets were written into dst, so n <= len(dst)
				for _, ref := range *t.Referrers() {
					if ex, ok := ref.(*ssa.Extract); ok && ex.Index == 0 {
						args := t.Call.Args
						dst := args[len(args)-2]
						lf := env.lin(ex).add(env.lenOf(dst), -1)
						out = append(out, linFact{lf: lf, why: "Decode writes n <= len(dst) octets"})
					}
				}
			default:
				// (int, bool) helpers of the module with a proven bound on the first result
				if g := t.Call.StaticCallee(); g != nil && len(t.Call.Args) >= 1 {
					if bp.boolPost(g) {
						for _, ref := range *t.Referrers() {
							if ex, ok := ref.(*ssa.Extract); ok && ex.Index == 0 {
								up := env.lin(ex).add(env.lenOfAny(t.Call.Args[0]), -1)
								lo := newLin().add(env.lin(ex), -1)
								lo.c--
								out = append(out, linFact{lf: up, why: g.Name() + " returns at most len(arg)"}, linFact{lf: lo, why: g.Name() + " returns at least -1"})
							}
						}
					}
				}
			}
		}
	}
	bp.callFactRoots(f, blk, addCallFacts)
	// successful conversions and prefix tests: for each dominating fact
	for _, ft := range facts {
		// err == nil of strconv.Atoi / ParseUint / ParseInt(s, ...): s is not empty
		if b, ok := ft.Atom.(*ssa.BinOp); ok && (b.Op == token.EQL || b.Op == token.NEQ) && isNilConst(b.Y) {
			isNil := (b.Op == token.EQL) == ft.Holds
			if isNil {
				for _, src := range phiLeaves(b.X) {
					if ex, ok := src.(*ssa.Extract); ok {
						if call, ok := ex.Tuple.(*ssa.Call); ok {
							switch calleeNameSSA(&call.Call) {
							case "strconv.Atoi", "strconv.ParseUint", "strconv.ParseInt", "strconv.ParseFloat":
								lf := newLin().add(env.lenOfAny(call.Call.Args[0]), -1)
								lf.c++
								out = append(out, linFact{lf: lf, why: "a successfully parsed number is not the empty string"})
							}
						}
					}
				}
			}
		}
		// strings.HasPrefix / HasSuffix(s, p) came out true: len(s) >= len(p)
		if call, ok := ft.Atom.(*ssa.Call); ok && ft.Holds {
			switch calleeNameSSA(&call.Call) {
			case "strings.HasPrefix", "strings.HasSuffix", "bytes.HasPrefix":
				lf := env.lenOfAny(call.Call.Args[1]).add(env.lenOfAny(call.Call.Args[0]), -1)
				out = append(out, linFact{lf: lf, why: "HasPrefix"})
			}
		}
	}
	// lock-step counters: two phis of one loop header that both advance by a constant on every way round keep a fixed
	// linear relation: k2*(p1 - c1) = k1*(p2 - c2)
	{
		var counters []*ssa.Phi
		seenPhi := map[*ssa.Phi]bool{}
		var findPhis func(v ssa.Value, d int)
		findPhis = func(v ssa.Value, d int) {
			if v == nil || d > 6 {
				return
			}
			switch t := v.(type) {
			case *ssa.Phi:
				if !seenPhi[t] {
					seenPhi[t] = true
					counters = append(counters, t)
				}
			case *ssa.BinOp:
				findPhis(t.X, d+1)
				findPhis(t.Y, d+1)
			case *ssa.Convert:
				findPhis(t.X, d+1)
			}
		}
		for _, v := range bp.goalValues {
			findPhis(v, 0)
		}
		// the other counters of the same loop headers
		for _, p := range append([]*ssa.Phi{}, counters...) {
			for _, in := range p.Block().Instrs {
				q, ok := in.(*ssa.Phi)
				if !ok {
					break
				}
				if bt, ok := q.Type().Underlying().(*types.Basic); ok && bt.Info()&types.IsInteger != 0 && !seenPhi[q] {
					seenPhi[q] = true
					counters = append(counters, q)
				}
			}
		}
		// two counters that advance by the same loop-invariant value on the same way round keep their distance:
		// p1 - p2 = init1 - init2 (for i := n, p := 0; ...; p, i = p+n, i+n)
		symStep := func(p *ssa.Phi) (init, stepV ssa.Value, back int, ok bool) {
			if len(p.Edges) != 2 {
				return nil, nil, 0, false
			}
			for bi := 0; bi < 2; bi++ {
				b, isB := p.Edges[bi].(*ssa.BinOp)
				if !isB || b.Op != token.ADD || b.X != ssa.Value(p) {
					continue
				}
				// the step is defined outside the loop: a parameter, a constant, or a value whose block dominates the header
				okStep := false
				switch sv := b.Y.(type) {
				case *ssa.Parameter, *ssa.Const:
					okStep = true
				case ssa.Instruction:
					okStep = sv.Block() != p.Block() && sv.Block().Dominates(p.Block())
				}
				other := p.Edges[1-bi]
				if !okStep || other == ssa.Value(p) {
					continue
				}
				if oi, isIn := other.(ssa.Instruction); isIn && !(oi.Block() != p.Block() && oi.Block().Dominates(p.Block())) {
					continue
				}
				return other, b.Y, bi, true
			}
			return nil, nil, 0, false
		}
		for i := 0; i < len(counters); i++ {
			for j := i + 1; j < len(counters); j++ {
				p1, p2 := counters[i], counters[j]
				if p1.Block() != p2.Block() {
					continue
				}
				i1, s1, b1, ok1 := symStep(p1)
				i2, s2, b2, ok2 := symStep(p2)
				if !ok1 || !ok2 || s1 != s2 || b1 != b2 {
					continue
				}
				ad1, _ := p1.Edges[b1].(*ssa.BinOp)
				ad2, _ := p2.Edges[b2].(*ssa.BinOp)
				if ad1 == nil || ad2 == nil || ad1.Block() != ad2.Block() {
					continue
				}
				lf := env.lin(p1).add(env.lin(p2), -1).add(env.lin(i1), -1).add(env.lin(i2), 1)
				out = append(out, linFact{lf: lf, why: "counters in step"}, linFact{lf: newLin().add(lf, -1), why: "counters in step"})
			}
		}
		step := func(p *ssa.Phi) (init, k int64, ok bool) {
			haveInit, haveStep := false, false
			for _, e := range p.Edges {
				if c, isK := constIntOf(e); isK {
					if haveInit && c != init {
						return 0, 0, false
					}
					init, haveInit = c, true
					continue
				}
				b, isB := e.(*ssa.BinOp)
				if !isB || b.Op != token.ADD || b.X != ssa.Value(p) {
					return 0, 0, false
				}
				c, isK := constIntOf(b.Y)
				if !isK || (haveStep && c != k) {
					return 0, 0, false
				}
				k, haveStep = c, true
			}
			return init, k, haveInit && haveStep
		}
		for i := 0; i < len(counters); i++ {
			for j := i + 1; j < len(counters); j++ {
				p1, p2 := counters[i], counters[j]
				if p1.Block() != p2.Block() {
					continue
				}
				c1, k1, ok1 := step(p1)
				c2, k2, ok2 := step(p2)
				if !ok1 || !ok2 || k1 == 0 || k2 == 0 {
					continue
				}
				// the two increments must happen on the same ways round: the defining additions are in the same block
				sameRound := true
				for ei := range p1.Edges {
					_, isK1 := constIntOf(p1.Edges[ei])
					_, isK2 := constIntOf(p2.Edges[ei])
					if isK1 != isK2 {
						sameRound = false
					}
				}
				if !sameRound {
					continue
				}
				// k2*p1 - k1*p2 - (k2*c1 - k1*c2) = 0
				lf := newLin().add(env.lin(p1), k2).add(env.lin(p2), -k1)
				lf.c -= k2*c1 - k1*c2
				neg := newLin().add(lf, -1)
				out = append(out, linFact{lf: lf, why: "lock-step counters"}, linFact{lf: neg, why: "lock-step counters"})
			}
		}
	}
	// predicate postconditions: a call p(x) that came out true, where p returns true only when len(param) >= K
	for _, ft := range facts {
		call, ok := ft.Atom.(*ssa.Call)
		if !ok || !ft.Holds || len(call.Call.Args) != 1 {
			continue
		}
		g := call.Call.StaticCallee()
		if g == nil {
			continue
		}
		if k := bp.predicateMinLen(g); k > 0 {
			lf := newLin().add(env.lenOfAny(call.Call.Args[0]), -1)
			lf.c += k
			out = append(out, linFact{lf: lf, why: fmt.Sprintf("%s() is true only for arguments of length >= %d", g.Name(), k)})
		}
	}
	// disequalities: a != b together with a <= b gives a <= b-1 (and symmetrically)
	for _, ft := range facts {
		b, ok := ft.Atom.(*ssa.BinOp)
		if !ok {
			continue
		}
		ne := (b.Op == token.NEQ && ft.Holds) || (b.Op == token.EQL && !ft.Holds)
		if !ne {
			continue
		}
		if bt, ok := b.X.Type().Underlying().(*types.Basic); !ok || bt.Info()&types.IsInteger == 0 {
			continue
		}
		x, y := env.lin(b.X), env.lin(b.Y)
		d := x.add(y, -1) // x - y
		if env.entailsLin(out, d) {
			s1 := x.add(y, -1)
			s1.c++
			out = append(out, linFact{lf: s1, why: "x <= y and x != y"})
		}
		d2 := y.add(x, -1)
		if env.entailsLin(out, d2) {
			s2 := y.add(x, -1)
			s2.c++
			out = append(out, linFact{lf: s2, why: "y <= x and x != y"})
		}
	}
	// stride facts: loop counter i (init 0, step s) with i < len(X) and len(Y) % s == 0, len(X) == len(Y)  =>  i + s <= len(X)
	for _, ft := range facts {
		b, ok := ft.Atom.(*ssa.BinOp)
		if !ok {
			continue
		}
		lt := (b.Op == token.LSS && ft.Holds) || (b.Op == token.GEQ && !ft.Holds)
		if !lt {
			continue
		}
		phi, ok := b.X.(*ssa.Phi)
		if !ok {
			continue
		}
		var step int64
		init0 := false
		for _, ed := range phi.Edges {
			if k, isK := constIntOf(ed); isK && k == 0 {
				init0 = true
			}
			if bo, isB := ed.(*ssa.BinOp); isB && bo.Op == token.ADD && bo.X == phi {
				if k, isK := constIntOf(bo.Y); isK {
					step = k
				}
			}
		}
		if !init0 || step < 2 {
			continue
		}
		lenX := env.lin(b.Y)
		for _, f2 := range facts {
			b2, ok := f2.Atom.(*ssa.BinOp)
			if !ok || !((b2.Op == token.EQL && f2.Holds) || (b2.Op == token.NEQ && !f2.Holds)) {
				continue
			}
			rem, ok := b2.X.(*ssa.BinOp)
			if !ok || rem.Op != token.REM {
				continue
			}
			if k0, isK := constIntOf(b2.Y); !isK || k0 != 0 {
				continue
			}
			m, isK := constIntOf(rem.Y)
			if !isK || m != step {
				continue
			}
			if env.lin(rem.X).String() != lenX.String() {
				continue
			}
			lf := env.lin(phi).add(lenX, -1)
			lf.c += step
			out = append(out, linFact{lf: lf, why: fmt.Sprintf("stride %d with len %% %d == 0", step, m)})
		}
	}
	return out
}

// prove establishes a site's bound; unexported functions may rely on a precondition proven at every call site.
func (bp *boundsProver) prove(s *boundSite) {
	f := s.Fn
	saved := bp.goalValues
	bp.goalValues = []ssa.Value{s.Low, s.Upper}
	if sl, ok := s.Buf.(*ssa.Slice); ok {
		bp.goalValues = append(bp.goalValues, sl.Low, sl.High)
	}
	if _, isCall := s.Buf.(*ssa.Call); isCall {
		bp.goalValues = append(bp.goalValues, s.Buf)
	}
	defer func() { bp.goalValues = saved }()
	env := newLinEnv()
	facts := bp.factsAtPoint(f, s.Instr.Block(), nil, env)
	goal := s.goalOf(env)
	if env.entailsLin(facts, goal) {
		s.Proven, s.Why = true, "entailed by the dominating comparisons"
		return
	}
	// all-predecessors fallback (merge points after a switch on len(b))
	if bp.proveAtPreds(f, s, s.Instr.Block(), 0, map[*ssa.BasicBlock]bool{}) {
		s.Proven, s.Why = true, "entailed on every incoming path"
		return
	}
	// loop invariant: the goal, read over the loop-header phis it mentions, holds on entry and is preserved by every way round
	if bp.proveInductive(s) {
		s.Proven, s.Why = true, "inductive over the enclosing loop (holds on entry, preserved by every back edge)"
		return
	}
	// caller-established precondition: the goal mentions only parameters of an unexported function
	if bp.proveByCallers(s) || bp.proveByCallersSubst(s) {
		s.Proven, s.Why = true, "established by every caller"
		return
	}
	var fs []string
	for _, ft := range facts {
		fs = append(fs, ft.lf.String()+"<=0")
	}
	if len(fs) > 6 {
		fs = fs[:6]
	}
	s.Why = fmt.Sprintf("not entailed: need %s<=0; facts: %s", goal, strings.Join(fs, " ; "))
}

func (bp *boundsProver) proveAtPreds(f *ssa.Function, s *boundSite, blk *ssa.BasicBlock, depth int, seen map[*ssa.BasicBlock]bool) bool {
	return bp.proveAtPredsSubst(f, s, blk, depth, seen, nil, nil)
}

// proveAtPredsSubst: the goal on every incoming path of blk. A value of the goal that is a phi of blk (or was
// replaced by one further down) is read as the value it receives on the edge taken; cur maps the goal's own values to
// what they stand for at the current block.
// carry: branch outcomes of the edges already walked back over (from blk down to the access); they speak of SSA
// values, which do not change along one path, so they hold on the whole path and make some of the incoming paths
// infeasible (an atom known both true and false).
func (bp *boundsProver) proveAtPredsSubst(f *ssa.Function, s *boundSite, blk *ssa.BasicBlock, depth int, seen map[*ssa.BasicBlock]bool, cur map[ssa.Value]ssa.Value, carry []Fact) bool {
	if depth > 5 || len(blk.Preds) == 0 || seen[blk] {
		return false
	}
	seen[blk] = true
	defer delete(seen, blk)
	now := func(v ssa.Value) ssa.Value {
		if r, ok := cur[v]; ok {
			return r
		}
		return v
	}
	for pi, p := range blk.Preds {
		env := newLinEnv()
		var extra []Fact
		carryNext := carry
		if ef, ok := edgeFact(p, blk); ok {
			extra = append(extra, ef)
			if phiFree(ef.Atom) && sameInstance(ef.Atom, p, seen) {
				carryNext = append(append([]Fact{}, carry...), ef)
			}
		}
		extra = append(extra, carry...)
		if contradictory(append(factsAt(f, p), extra...)) {
			continue // no execution comes this way and goes on to the access
		}
		next := map[ssa.Value]ssa.Value{}
		for k, v := range cur {
			next[k] = v
		}
		okDefs := true
		for _, gv := range []ssa.Value{s.Upper, s.Low, s.Buf} {
			if gv == nil {
				continue
			}
			v := now(gv)
			if phi, isPhi := v.(*ssa.Phi); isPhi && phi.Block() == blk {
				v = phi.Edges[pi]
				next[gv] = v
			}
			// the value must be defined before the merge
			if in, ok := v.(ssa.Instruction); ok && !(in.Block() == p || in.Block().Dominates(p)) {
				okDefs = false
			}
			// a value that is an expression over a phi of blk is not followed
			if _, isPhi := v.(*ssa.Phi); !isPhi {
				for o := range sliceOf(v) {
					if ph, ok := o.(*ssa.Phi); ok && ph.Block() == blk && o != v {
						okDefs = false
					}
				}
			}
		}
		if !okDefs {
			return false
		}
		saved := bp.goalValues
		for _, v := range next {
			bp.goalValues = append(bp.goalValues, v)
		}
		facts := bp.factsAtPoint(f, p, extra, env)
		bp.goalValues = saved
		env.subst = next
		goal := s.goalOf(env)
		env.subst = nil
		if env.entailsLin(facts, goal) {
			continue
		}
		if !bp.proveAtPredsSubst(f, s, p, depth+1, seen, next, carryNext) {
			return false
		}
	}
	return true
}

func (bp *boundsProver) proveByCallers(s *boundSite) bool {
	f := s.Fn
	if f.Object() != nil && f.Object().Exported() && f.Signature.Recv() == nil {
		return false
	}
	if f.Signature.Recv() != nil && f.Object() != nil && f.Object().Exported() {
		return false
	}
	if bp.inPre[f] {
		return false
	}
	// buffer and upper must be parameters
	bufIdx, upIdx, lowIdx := -1, -1, -1
	for i, p := range f.Params {
		if p == s.Buf {
			bufIdx = i
		}
		if s.Upper != nil && p == s.Upper {
			upIdx = i
		}
		if s.Low != nil && p == s.Low {
			lowIdx = i
		}
	}
	if bufIdx < 0 || (s.Upper != nil && upIdx < 0) || (s.Low != nil && lowIdx < 0) {
		return false
	}
	calls := bp.callers[f]
	if len(calls) == 0 {
		return false
	}
	bp.inPre[f] = true
	defer delete(bp.inPre, f)
	for _, ci := range calls {
		cc := ci.Common()
		args := cc.Args
		shift := 0
		if cc.IsInvoke() {
			shift = 1
		}
		get := func(i int) ssa.Value {
			j := i - shift
			if j < 0 || j >= len(args) {
				return nil
			}
			return args[j]
		}
		b := get(bufIdx)
		if b == nil {
			return false
		}
		site := &boundSite{Fn: ci.Parent(), Instr: ci.(ssa.Instruction), Buf: b, UpperK: s.UpperK, Kind: s.Kind}
		if s.Upper != nil {
			u := get(upIdx)
			if u == nil {
				return false
			}
			base, k := offsetOf(u)
			site.Upper = base
			site.UpperK += k
		}
		if s.Kind == "slice-order" || s.Kind == "index-low" {
			site.LowK = s.LowK
			if s.Low != nil {
				l := get(lowIdx)
				if l == nil {
					return false
				}
				base, k := offsetOf(l)
				site.Low = base
				site.LowK += k
			}
		}
		bp.prove(site)
		if !site.Proven {
			return false
		}
	}
	return true
}

// proveInductive: when the goal mentions phis of one loop header H (which dominates the site), show the goal as an
// invariant of H: on every edge into H the goal with each phi replaced by its incoming value is entailed by the
// facts at that predecessor, for back edges together with the goal itself (the induction hypothesis).
func (bp *boundsProver) proveInductive(s *boundSite) bool {
	var phis []*ssa.Phi
	seen := map[ssa.Value]bool{}
	var walk func(v ssa.Value, d int)
	walk = func(v ssa.Value, d int) {
		if v == nil || seen[v] || d > 8 {
			return
		}
		seen[v] = true
		switch t := v.(type) {
		case *ssa.Phi:
			phis = append(phis, t)
		case *ssa.BinOp:
			walk(t.X, d+1)
			walk(t.Y, d+1)
		case *ssa.Convert:
			walk(t.X, d+1)
		}
	}
	walk(s.Low, 0)
	walk(s.Upper, 0)
	if len(phis) == 0 {
		return false
	}
	h := phis[0].Block()
	for _, p := range phis {
		if p.Block() != h {
			return false
		}
	}
	if !(h == s.Instr.Block() || h.Dominates(s.Instr.Block())) {
		return false
	}
	if in, ok := s.Buf.(ssa.Instruction); ok && s.Kind != "slice-order" && !in.Block().Dominates(h) {
		// a load of a memory cell that is not written anywhere from the loop header to the load denotes one value
		// for the whole loop
		key, isCell := cellEpoch(s.Buf)
		if !isCell || !strings.HasSuffix(key, "@"+cellVersionAt(s.Buf, h)) {
			return false
		}
	}
	f := s.Fn
	for i, pred := range h.Preds {
		env := newLinEnv()
		var extra []Fact
		if ef, ok := edgeFact(pred, h); ok {
			extra = append(extra, ef)
		}
		facts := bp.factsAtPoint(f, pred, extra, env)
		if h.Dominates(pred) {
			facts = append(facts, linFact{lf: s.goalOf(env), why: "induction hypothesis"})
		}
		env.subst = map[ssa.Value]ssa.Value{}
		for _, p := range phis {
			env.subst[p] = p.Edges[i]
		}
		goal := s.goalOf(env)
		env.subst = nil
		if !env.entailsLin(facts, goal) {
			if os.Getenv("BPDEBUG") != "" {
				var fs []string
				for _, ft := range facts {
					fs = append(fs, ft.lf.String()+"<=0")
				}
				fmt.Fprintf(os.Stderr, "BPDEBUG inductive %s: edge %d->%d fails: need %s<=0; facts %v\n", s.Fn.Name(), pred.Index, h.Index, goal, fs)
			}
			return false
		}
	}
	return true
}

// lenOfAny: len of a slice or string value.
func (e *linEnv) lenOfAny(v ssa.Value) *linExpr {
	if e.subst != nil {
		if r, ok := e.subst[v]; ok {
			saved := e.subst
			e.subst = nil
			res := e.lenOfAny(r)
			e.subst = saved
			return res
		}
	}
	if _, isSlice := v.Type().Underlying().(*types.Slice); isSlice {
		return e.lenOf(v)
	}
	// a string slice s[lo:hi]: hi - lo
	if sl, ok := v.(*ssa.Slice); ok {
		var hi *linExpr
		if sl.High != nil {
			hi = e.lin(sl.High)
		} else {
			hi = e.lenOfAny(sl.X)
		}
		if sl.Low != nil {
			return hi.add(e.lin(sl.Low), -1)
		}
		return hi
	}
	return e.lenAtom(v)
}

// predicateMinLen: for a one-parameter function returning bool, the largest K (up to 8) such that every return
// that can yield true is behind len(param) >= K. 0 when nothing is known.
func (bp *boundsProver) predicateMinLen(g *ssa.Function) int64 {
	if bp.predK == nil {
		bp.predK = map[*ssa.Function]int64{}
	}
	if k, ok := bp.predK[g]; ok {
		return k
	}
	bp.predK[g] = 0
	if len(g.Params) != 1 || g.Signature.Results().Len() != 1 || len(g.Blocks) == 0 {
		return 0
	}
	if b, ok := g.Signature.Results().At(0).Type().Underlying().(*types.Basic); !ok || b.Kind() != types.Bool {
		return 0
	}
	best := int64(8)
	n := 0
	for _, rp := range returnPoints(g, 0) {
		v := rp.Results[0]
		extra := append([]Fact{}, rp.EdgeFacts...)
		if bv, isB := constBool(v); isB {
			if !bv {
				continue
			}
		} else {
			atom, pol := condAtom(v)
			extra = append(extra, Fact{Atom: atom, Holds: pol})
		}
		n++
		env := newLinEnv()
		facts := bp.factsAtPoint(g, rp.Block, extra, env)
		k := int64(0)
		for try := int64(8); try >= 1; try-- {
			goal := newLin().add(env.lenOfAny(g.Params[0]), -1)
			goal.c += try
			if env.entailsLin(facts, goal) {
				k = try
				break
			}
		}
		if k < best {
			best = k
		}
	}
	if n == 0 {
		best = 0
	}
	bp.predK[g] = best
	return best
}

// cellEpoch: for a load of a local memory cell (an Alloc or a field of one) or of a field of a pointer parameter,
// a key that is equal for two loads exactly when no instruction that may write the cell lies between the point the key
// names and either load: the latest store to the cell in the load's block (or a chain of single predecessors), else
// the entry of the first block with several predecessors on the way back.
// cellOf decomposes a load into (base, field path): base is a non-escaping local Alloc, or a pointer Parameter with
// at least one field selected.
func cellOf(v ssa.Value) (ld *ssa.UnOp, base ssa.Value, path string, ok bool) {
	ld, isLd := v.(*ssa.UnOp)
	if !isLd || ld.Op != token.MUL {
		return nil, nil, "", false
	}
	addr := ld.X
	for depth := 0; depth < 4; depth++ {
		switch t := addr.(type) {
		case *ssa.FieldAddr:
			path = fmt.Sprintf(".%d%s", t.Field, path)
			addr = t.X
			continue
		case *ssa.Alloc:
			if t.Heap {
				return nil, nil, "", false
			}
			base = t
		case *ssa.Parameter:
			if path == "" {
				return nil, nil, "", false
			}
			base = t
		}
		break
	}
	if base == nil {
		return nil, nil, "", false
	}
	return ld, base, path, true
}

func cellEpoch(v ssa.Value) (string, bool) {
	ld, base, path, ok := cellOf(v)
	if !ok {
		return "", false
	}
	return cellKeyAt(ld.Parent(), base, path, ld.Block(), instrIndex(ld)), true
}

// cellKeyAt: the memory version of cell (base, path) just before instruction idx of block blk in fn.
func cellKeyAt(fn *ssa.Function, base ssa.Value, path string, blk *ssa.BasicBlock, idx int) string {
	_, isParam := base.(*ssa.Parameter)
	var fields []*types.Var
	if isParam {
		fields = pathFields(base, path)
	}
	mayWrite := func(in ssa.Instruction) bool {
		switch t := in.(type) {
		case *ssa.Store:
			a := t.Addr
			spath := ""
			for d := 0; d < 4; d++ {
				if a == base {
					// a store to the cell itself, to the field that is loaded, or to a struct containing / contained in it
					return spath == "" || path == "" || strings.HasPrefix(path, spath) || strings.HasPrefix(spath, path)
				}
				if fa, ok := a.(*ssa.FieldAddr); ok {
					spath = fmt.Sprintf(".%d%s", fa.Field, spath)
					a = fa.X
					continue
				}
				break
			}
			return false
		case ssa.CallInstruction:
			cn := calleeNameSSA(t.Common())
			if strings.HasPrefix(cn, "builtin.") || strings.HasPrefix(cn, "strings.") || strings.HasPrefix(cn, "strconv.") {
				return false
			}
			if isParam {
				// the callee may reach the pointed-to object: ask the type-based may-write oracle
				if theModOracle != nil && !theModOracle.callMayWrite(fn, t.Common(), fields) {
					return false
				}
				return true
			}
			// a local cell: only when its address is handed over
			for _, a := range t.Common().Args {
				x := a
				for d := 0; d < 4; d++ {
					if x == base {
						return true
					}
					if fa, ok := x.(*ssa.FieldAddr); ok {
						x = fa.X
						continue
					}
					break
				}
			}
			return false
		}
		return false
	}
	// memory versions of the cell (a per-cell memory SSA): every may-write instruction starts a new version; a block
	// whose predecessors end in different versions starts a version of its own (a memory phi). Two loads in the same
	// version read the same value.
	ck := fmt.Sprintf("%p/%p%s", fn, base, path)
	inV, ok2 := versionCache[ck]
	if !ok2 {
		inV = map[*ssa.BasicBlock]string{}
		outV := map[*ssa.BasicBlock]string{}
		if len(fn.Blocks) > 0 {
			inV[fn.Blocks[0]] = "entry"
		}
		for iter := 0; iter < 4*len(fn.Blocks)+8; iter++ {
			changed := false
			for _, b := range fn.Blocks {
				v := inV[b]
				if b != fn.Blocks[0] {
					v = ""
					same := true
					for _, p := range b.Preds {
						ov, known := outV[p]
						if !known {
							continue // not yet computed (back edge): optimistic
						}
						if v == "" {
							v = ov
						} else if v != ov {
							same = false
						}
					}
					if v == "" {
						continue // no predecessor computed yet
					}
					if !same {
						v = fmt.Sprintf("phi@%p", b)
					}
				}
				if inV[b] != v {
					inV[b] = v
					changed = true
				}
				o := v
				for _, x := range b.Instrs {
					if mayWrite(x) {
						o = fmt.Sprintf("def@%p", x)
						defInstrs[fmt.Sprintf("%p", x)] = x
					}
				}
				if outV[b] != o {
					outV[b] = o
					changed = true
				}
			}
			if !changed {
				break
			}
		}
		versionCache[ck] = inV
		versionOut[ck] = outV
	}
	for i := idx - 1; i >= 0; i-- {
		if mayWrite(blk.Instrs[i]) {
			defInstrs[fmt.Sprintf("%p", blk.Instrs[i])] = blk.Instrs[i]
			return fmt.Sprintf("%p%s@def@%p", base, path, blk.Instrs[i])
		}
	}
	return fmt.Sprintf("%p%s@%s", base, path, inV[blk])
}

var versionCache = map[string]map[*ssa.BasicBlock]string{}

// versionOut: the memory version of a cell at the end of each block (same keys as versionCache).
var versionOut = map[string]map[*ssa.BasicBlock]string{}

// versionDefs resolves a memory version of cell (fn, base, path) to the instructions that may have written the value
// it denotes (memory phis are followed through the predecessors); ok is false when the value may also be the one the
// cell had on entry to the function, or the version is unknown.
func versionDefs(fn *ssa.Function, base ssa.Value, path string, ver string) (defs []ssa.Instruction, ok bool) {
	ck := fmt.Sprintf("%p/%p%s", fn, base, path)
	outV, known := versionOut[ck]
	if !known {
		return nil, false
	}
	seen := map[string]bool{}
	ok = true
	var walk func(v string)
	walk = func(v string) {
		if seen[v] || !ok {
			return
		}
		seen[v] = true
		switch {
		case strings.HasPrefix(v, "def@"):
			in, found := defInstrs[v[4:]]
			if !found {
				ok = false
				return
			}
			defs = append(defs, in)
		case strings.HasPrefix(v, "phi@"):
			var blk *ssa.BasicBlock
			for _, b := range fn.Blocks {
				if fmt.Sprintf("phi@%p", b) == v {
					blk = b
				}
			}
			if blk == nil {
				ok = false
				return
			}
			for _, p := range blk.Preds {
				ov, has := outV[p]
				if !has {
					ok = false
					return
				}
				walk(ov)
			}
		default:
			ok = false
		}
	}
	walk(ver)
	return defs, ok
}

// defInstrs: the instruction that starts a memory version named def@<ptr>.
var defInstrs = map[string]ssa.Instruction{}

// forwardedStore: when the memory version of cell (base, path) named by key was started by a store to exactly that
// cell, the value stored (every load in that version reads it).
func forwardedStore(key string, base ssa.Value, path string) (ssa.Value, bool) {
	i := strings.LastIndex(key, "@def@")
	if i < 0 {
		return nil, false
	}
	st, ok := defInstrs[key[i+5:]].(*ssa.Store)
	if !ok {
		return nil, false
	}
	a := st.Addr
	spath := ""
	for d := 0; d < 4; d++ {
		if a == base {
			return st.Val, spath == path
		}
		if fa, ok := a.(*ssa.FieldAddr); ok {
			spath = fmt.Sprintf(".%d%s", fa.Field, spath)
			a = fa.X
			continue
		}
		break
	}
	return nil, false
}

// callFactRoots feeds the values that the facts and the current goal mention to visit (so that unconditional facts
// about calls among them can be added).
func (bp *boundsProver) callFactRoots(f *ssa.Function, blk *ssa.BasicBlock, visit func(ssa.Value, int)) {
	for _, ft := range factsAt(f, blk) {
		if b, ok := ft.Atom.(*ssa.BinOp); ok {
			visit(b.X, 0)
			visit(b.Y, 0)
		}
	}
	for _, v := range bp.goalValues {
		visit(v, 0)
	}
}

// boolPost: g has the shape func(s string|[]byte, ...) (int, bool) and every return satisfies -1 <= result0 <= len(s).
func (bp *boundsProver) boolPost(g *ssa.Function) bool {
	if bp.boolP == nil {
		bp.boolP = map[*ssa.Function]int{}
	}
	switch bp.boolP[g] {
	case 1:
		return true
	case 2:
		return false
	}
	bp.boolP[g] = 2
	res := g.Signature.Results()
	if len(g.Blocks) == 0 || len(g.Params) == 0 || res.Len() != 2 {
		return false
	}
	if b, ok := res.At(0).Type().Underlying().(*types.Basic); !ok || b.Kind() != types.Int {
		return false
	}
	if b, ok := res.At(1).Type().Underlying().(*types.Basic); !ok || b.Kind() != types.Bool {
		return false
	}
	switch t := g.Params[0].Type().Underlying().(type) {
	case *types.Basic:
		if t.Info()&types.IsString == 0 {
			return false
		}
	case *types.Slice:
	default:
		return false
	}
	n := 0
	for _, rb := range g.Blocks {
		ret, ok := rb.Instrs[len(rb.Instrs)-1].(*ssa.Return)
		if !ok {
			continue
		}
		n++
		r0 := unspill(rb, ret)[0]
		env := newLinEnv()
		saved := bp.goalValues
		bp.goalValues = []ssa.Value{r0}
		facts := bp.factsAtPoint(g, rb, nil, env)
		bp.goalValues = saved
		up := env.lin(r0).add(env.lenOfAny(g.Params[0]), -1)
		lo := newLin().add(env.lin(r0), -1)
		lo.c--
		okUp := env.entailsLin(facts, up)
		okLo := env.entailsLin(facts, lo)
		if !(okUp && okLo) {
			// a returned loop counter: prove the bound as an invariant of its loop
			site := &boundSite{Fn: g, Instr: ret, Buf: g.Params[0], Upper: r0, UpperK: 0, Kind: "slice-low"}
			if !okUp && !bp.proveInductive(site) {
				if os.Getenv("DEBUG_BOOLPOST") != "" {
					fmt.Fprintf(os.Stderr, "boolPost %s: upper bound of %s not proven at %v\n", g.Name(), exprKeyPretty(r0), g.Prog.Fset.Position(ret.Pos()))
				}
				return false
			}
			if !okLo {
				lower := &boundSite{Fn: g, Instr: ret, Buf: g.Params[0], Upper: r0, UpperK: 0, Low: nil, LowK: -1, Kind: "slice-order"}
				if !bp.proveInductive(lower) {
					if os.Getenv("DEBUG_BOOLPOST") != "" {
						fmt.Fprintf(os.Stderr, "boolPost %s: lower bound of %s not proven at %v\n", g.Name(), exprKeyPretty(r0), g.Prog.Fset.Position(ret.Pos()))
					}
					return false
				}
			}
		}
	}
	if n == 0 {
		return false
	}
	bp.boolP[g] = 1
	return true
}

// phiNonNeg: a loop counter that starts at a non-negative constant and only grows by non-negative constants.
func phiNonNeg(phi *ssa.Phi) bool {
	for _, e := range phi.Edges {
		if k, ok := constIntOf(e); ok {
			if k < 0 {
				return false
			}
			continue
		}
		b, ok := e.(*ssa.BinOp)
		if !ok || b.Op != token.ADD || b.X != ssa.Value(phi) {
			return false
		}
		if k, ok := constIntOf(b.Y); !ok || k < 0 {
			return false
		}
	}
	return true
}

// coNonNeg: v is non-negative because every definition it can take is: constants >= 0, unsigned values, lengths, sums
// and products of such, and phis all of whose incoming values are (assuming the phi itself on cycles). Overflow ignored.
func coNonNeg(v ssa.Value, assumed map[ssa.Value]bool) bool {
	if assumed[v] {
		return true
	}
	if b, ok := v.Type().Underlying().(*types.Basic); ok && b.Info()&types.IsUnsigned != 0 {
		return true
	}
	switch t := v.(type) {
	case *ssa.Const:
		k, ok := constIntOf(t)
		return ok && k >= 0
	case *ssa.Phi:
		assumed[t] = true
		for _, e := range t.Edges {
			if !coNonNeg(e, assumed) {
				return false
			}
		}
		return true
	case *ssa.BinOp:
		if t.Op == token.ADD || t.Op == token.MUL {
			return coNonNeg(t.X, assumed) && coNonNeg(t.Y, assumed)
		}
		if t.Op == token.QUO || t.Op == token.SHR || t.Op == token.REM || t.Op == token.AND {
			return coNonNeg(t.X, assumed)
		}
	case *ssa.Convert:
		return coNonNeg(t.X, assumed)
	case *ssa.Call:
		n := calleeNameSSA(&t.Call)
		return n == "builtin.len" || n == "builtin.cap" || n == "builtin.copy"
	}
	return false
}

// cellVersionAt: the memory version of the cell loaded by ld at the entry of block b ("" when unknown).
func cellVersionAt(ld ssa.Value, b *ssa.BasicBlock) string {
	if _, ok := cellEpoch(ld); !ok {
		return "?"
	}
	u := ld.(*ssa.UnOp)
	var base ssa.Value
	path := ""
	addr := u.X
	for depth := 0; depth < 4; depth++ {
		if fa, ok := addr.(*ssa.FieldAddr); ok {
			path = fmt.Sprintf(".%d%s", fa.Field, path)
			addr = fa.X
			continue
		}
		base = addr
		break
	}
	ck := fmt.Sprintf("%p/%p%s", u.Parent(), base, path)
	if inV, ok := versionCache[ck]; ok {
		if v, ok := inV[b]; ok {
			return v
		}
	}
	return "?"
}

func hasSub(v ssa.Value, d int) bool {
	if d > 6 {
		return false
	}
	// a value of an unsigned type is not negative whatever was subtracted inside it (it wraps): converted to int it is
	// within [0, max of the type]
	if b, ok := v.Type().Underlying().(*types.Basic); ok && b.Info()&types.IsUnsigned != 0 && b.Kind() != types.Uint && b.Kind() != types.Uint32 && b.Kind() != types.Uint64 && b.Kind() != types.Uintptr {
		return false
	}
	switch t := v.(type) {
	case *ssa.BinOp:
		if t.Op == token.SUB {
			return true
		}
		return hasSub(t.X, d+1) || hasSub(t.Y, d+1)
	case *ssa.Convert:
		return hasSub(t.X, d+1)
	case *ssa.Phi:
		for _, e := range t.Edges {
			if _, isPhi := e.(*ssa.Phi); !isPhi && hasSub(e, d+1) {
				return true
			}
		}
	}
	return false
}

// proveByCallersSubst: the goal of a site in an unexported function, read over the function's parameters, is shown
// at every call site with the arguments in place of the parameters (and no other value of the callee in the goal).
func (bp *boundsProver) proveByCallersSubst(s *boundSite) bool {
	f := s.Fn
	if os.Getenv("DEBUGCALLERS") != "" {
		fmt.Fprintf(os.Stderr, "callers-subst %s %s: enter inPre=%v\n", f.Name(), s.Kind, bp.inPre[f])
	}
	if f.Object() != nil && f.Object().Exported() {
		return false
	}
	if bp.inPre[f] {
		return false
	}
	// every leaf value of the goal is a parameter or a constant
	okLeaves := true
	var entryLoads []*ssa.UnOp
	var walk func(v ssa.Value, d int)
	walk = func(v ssa.Value, d int) {
		if v == nil || d > 8 {
			return
		}
		switch t := v.(type) {
		case *ssa.Parameter, *ssa.Const:
		case *ssa.BinOp:
			walk(t.X, d+1)
			walk(t.Y, d+1)
		case *ssa.Convert:
			walk(t.X, d+1)
		case *ssa.Call:
			if calleeNameSSA(&t.Call) == "builtin.len" {
				walk(t.Call.Args[0], d+1)
			} else {
				okLeaves = false
			}
		case *ssa.UnOp:
			// a field of a pointer parameter, read before the callee writes it: the caller's value at the call
			if key, ok := cellEpoch(t); ok && strings.HasSuffix(key, "@entry") {
				if _, base, _, _ := cellOf(t); base != nil {
					if _, isP := base.(*ssa.Parameter); isP {
						entryLoads = append(entryLoads, t)
						return
					}
				}
			}
			okLeaves = false
		default:
			okLeaves = false
		}
	}
	walk(s.Low, 0)
	walk(s.Upper, 0)
	if s.Kind != "slice-order" && s.Kind != "index-low" {
		walk(s.Buf, 0)
	}
	if !okLeaves {
		if os.Getenv("DEBUGCALLERS") != "" {
			fmt.Fprintf(os.Stderr, "callers-subst %s %s: leaves not parameters\n", f.Name(), s.Kind)
		}
		return false
	}
	calls := bp.callers[f]
	dbg := os.Getenv("DEBUGCALLERS") != ""
	if len(calls) == 0 {
		if dbg {
			fmt.Fprintf(os.Stderr, "callers-subst %s %s: no callers\n", f.Name(), s.Kind)
		}
		return false
	}
	bp.inPre[f] = true
	defer delete(bp.inPre, f)
	for _, ci := range calls {
		cc := ci.Common()
		if cc.IsInvoke() || cc.StaticCallee() != f {
			if dbg {
				fmt.Fprintf(os.Stderr, "callers-subst %s %s: dynamic call in %s\n", f.Name(), s.Kind, ci.Parent().Name())
			}
			return false
		}
		g := ci.Parent()
		env := newLinEnv()
		saved := bp.goalValues
		bp.goalValues = append([]ssa.Value{}, cc.Args...)
		facts := bp.factsAtPoint(g, ci.(ssa.Instruction).Block(), nil, env)
		bp.goalValues = saved
		env.subst = map[ssa.Value]ssa.Value{}
		for i, p := range f.Params {
			if i < len(cc.Args) {
				env.subst[p] = cc.Args[i]
			}
		}
		// fields of pointer parameters read at the callee's entry are the caller's cells at the call
		okCells := true
		for _, ld := range entryLoads {
			_, base, path, _ := cellOf(ld)
			pi := -1
			for i, p := range f.Params {
				if p == base {
					pi = i
				}
			}
			if pi < 0 || pi >= len(cc.Args) {
				okCells = false
				break
			}
			cbase := cc.Args[pi]
			switch cb := cbase.(type) {
			case *ssa.Parameter:
			case *ssa.Alloc:
				if cb.Heap {
					okCells = false
				}
			default:
				okCells = false
			}
			if !okCells {
				break
			}
			in := ci.(ssa.Instruction)
			key := cellKeyAt(g, cbase, path, in.Block(), instrIndex(in))
			if env.cells == nil {
				env.cells = map[string]string{}
			}
			if bt, isB := ld.Type().Underlying().(*types.Basic); isB && bt.Info()&types.IsInteger != 0 {
				if val, fw := forwardedStore(key, cbase, path); fw {
					env.subst[ld] = val
					continue
				}
			}
			name, seen := env.cells[key]
			if !seen {
				name = fmt.Sprintf("%s~%d", exprKeyPretty(ld), len(env.names)+len(env.cells))
				env.cells[key] = name
			}
			env.names[ld] = name
		}
		if !okCells {
			if dbg {
				fmt.Fprintf(os.Stderr, "callers-subst %s %s: cell base not a parameter/local in %s\n", f.Name(), s.Kind, g.Name())
			}
			return false
		}
		goal := s.goalOf(env)
		// what the callee itself knows on the way to the site, read over the caller's values
		bp.goalValues = []ssa.Value{s.Low, s.Upper}
		calleeFacts := bp.factsAtPoint(f, s.Instr.Block(), nil, env)
		bp.goalValues = saved
		env.subst = nil
		holds := func(fs []linFact) bool {
			all := append(append([]linFact{}, fs...), calleeFacts...)
			if env.entailsLin(all, goal) {
				return true
			}
			// the site is not reached on this path: two of the facts contradict one another
			return env.contradictory(all)
		}
		if holds(facts) {
			continue
		}
		// a call below merge points (the body of `case a || b:`, the join after an inner if): every path into it on its own
		cb := ci.(ssa.Instruction).Block()
		var holdsAt func(blk *ssa.BasicBlock, extra []Fact, depth int, onPath map[*ssa.BasicBlock]bool) bool
		holdsAt = func(blk *ssa.BasicBlock, extra []Fact, depth int, onPath map[*ssa.BasicBlock]bool) bool {
			if contradictory(append(factsAt(g, blk), extra...)) {
				return true // a branch outcome is needed both ways: no execution takes this path to the call
			}
			bp.goalValues = append([]ssa.Value{}, cc.Args...)
			pf := bp.factsAtPoint(g, blk, extra, env)
			bp.goalValues = saved
			if holds(pf) {
				return true
			}
			if dbg {
				var fs []string
				for _, f := range append(append([]linFact{}, pf...), calleeFacts...) {
					fs = append(fs, f.lf.String())
				}
				fmt.Fprintf(os.Stderr, "  holdsAt %s block %d depth %d: facts %s | defs %v\n", g.Name(), blk.Index, depth, strings.Join(fs, " ; "), len(env.condDefs))
			}
			if depth >= 4 || len(blk.Preds) == 0 || onPath[blk] {
				return false
			}
			for _, in := range blk.Instrs {
				if _, isPhi := in.(*ssa.Phi); isPhi {
					return false
				}
			}
			onPath[blk] = true
			defer delete(onPath, blk)
			d := depth
			if len(blk.Preds) > 1 {
				d++
			}
			for _, pred := range blk.Preds {
				ex := append([]Fact{}, extra...)
				if ef, ok := edgeFact(pred, blk); ok && sameInstance(ef.Atom, pred, onPath) {
					ex = append(ex, ef)
				}
				if !holdsAt(pred, ex, d, onPath) {
					return false
				}
			}
			return true
		}
		if len(cb.Preds) > 0 && holdsAt(cb, nil, 0, map[*ssa.BasicBlock]bool{}) {
			continue
		}
		if dbg {
			var fs []string
			for _, f := range facts {
				fs = append(fs, f.lf.String())
			}
			fmt.Fprintf(os.Stderr, "callers-subst %s %s at %s: need %s; facts %s\n", f.Name(), s.Kind, g.Name(), goal.String(), strings.Join(fs, " ; "))
		}
		return false
	}
	return true
}

// phiFree: the value does not depend on a phi (so it means the same thing at every point of a path).
func phiFree(v ssa.Value) bool {
	for o := range sliceOf(v) {
		if _, isPhi := o.(*ssa.Phi); isPhi {
			return false
		}
	}
	return true
}

// contradictory: some atom is recorded with both outcomes.
func contradictory(fs []Fact) bool {
	seen := map[ssa.Value]bool{}
	for _, f := range fs {
		if h, ok := seen[f.Atom]; ok && h != f.Holds {
			return true
		}
		seen[f.Atom] = f.Holds
	}
	return false
}

// sameInstance: the atom tested at the end of block pred is computed from values none of which is defined in a
// block of the path walked back so far (other than pred itself): going round a loop, such a value would be the one of
// an earlier iteration, and a branch outcome about it says nothing about the value the later edges tested.
func sameInstance(atom ssa.Value, pred *ssa.BasicBlock, onPath map[*ssa.BasicBlock]bool) bool {
	for o := range sliceOf(atom) {
		if in, ok := o.(ssa.Instruction); ok && in.Block() != nil && in.Block() != pred && onPath[in.Block()] {
			return false
		}
	}
	return true
}
