package main

// Rules added after the twelfth round of independent breaking changes (second part).

import (
	"fmt"
	"go/constant"
	"go/token"
	"go/types"
	"strings"

	"golang.org/x/tools/go/ssa"
)

func stripConv(v ssa.Value) ssa.Value {
	for {
		switch t := v.(type) {
		case *ssa.Convert:
			v = t.X
		case *ssa.ChangeType:
			v = t.X
		default:
			return v
		}
	}
}

// algorithmComparedAsIs: the algorithm pre-check of RRSIG.Verify compares the two algorithm numbers themselves: no
// number is replaced by another before the comparison (two algorithm numbers that share a signature scheme are still
// two algorithms: RFC 4034 s.5.2 requires the key's algorithm to be the RRSIG's).
func algorithmComparedAsIs(c *Ctx, r *Report, rule, fname, recv string) {
	r.rule(rule, 1, fname+" compares the RRSIG's algorithm number with the key's, both as they are in the records")
	fn := c.ssaFunc(fname)
	if fn == nil {
		r.cerr(rule, fname, "function not found")
		return
	}
	r.fn(fname)
	isSigAlg := readsField(recv, "Algorithm")
	isKeyAlg := func(v ssa.Value) bool {
		return readsField("DNSKEY", "Algorithm")(v) || readsField("KEY", "Algorithm")(v)
	}
	n := 0
	var bad []string
	allInstrs(fn, func(in ssa.Instruction) {
		bin, ok := in.(*ssa.BinOp)
		if !ok || (bin.Op != token.EQL && bin.Op != token.NEQ) {
			return
		}
		sx, sy := sliceOf(bin.X), sliceOf(bin.Y)
		if !(anyIn(sx, isSigAlg) && anyIn(sy, isKeyAlg) || anyIn(sx, isKeyAlg) && anyIn(sy, isSigAlg)) {
			return
		}
		n++
		for _, op := range []ssa.Value{bin.X, bin.Y} {
			for _, l := range phiLeaves(stripConv(op)) {
				l = stripConv(l)
				if u, isLoad := l.(*ssa.UnOp); isLoad && u.Op == token.MUL && (isSigAlg(u.X) || isKeyAlg(u.X)) {
					continue
				}
				if f, isField := l.(*ssa.Field); isField && (isSigAlg(f) || isKeyAlg(f)) {
					continue
				}
				bad = append(bad, fmt.Sprintf("%s: one side can be %s", c.pos(bin.Pos()), describeValue(l)))
			}
		}
	})
	r.check(n > 0 && len(bad) == 0, rule, fname, c.pos(fn.Pos()), fmt.Sprintf("%d comparison(s) of the two fields themselves", n), "%s: a signature is accepted with a key published for another algorithm number", strings.Join(uniqStrings(bad), "; "))
}

// canonicalOnlyListed: rawSignatureData lower-cases RDATA names only of the types RFC 4034 s.6.2 (as amended by RFC
// 6840 s.5.1) lists: for every other type the RDATA is signed as it is.
func canonicalOnlyListed(c *Ctx, r *Report, rule string) {
	r.rule(rule, 1, "rawSignatureData stores a lower-cased name only into the header or into a record of an RFC 4034 s.6.2 type")
	fn := c.ssaFunc("rawSignatureData")
	if fn == nil {
		r.cerr(rule, "rawSignatureData", "function not found")
		return
	}
	r.fn("rawSignatureData")
	listed := map[string]bool{"RR_Header": true}
	for _, t := range rfc4034LowercaseTypes {
		listed[t] = true
	}
	n := 0
	var bad []string
	for _, f := range localCallees(c, fn, 1) {
		if f != fn && f.Parent() == nil {
			continue // closures of rawSignatureData only; other callees have their own contracts
		}
		allInstrs(f, func(in ssa.Instruction) {
			st, ok := in.(*ssa.Store)
			if !ok {
				return
			}
			fa, ok := st.Addr.(*ssa.FieldAddr)
			if !ok {
				return
			}
			lowered := false
			for v := range sliceOf(st.Val) {
				if cl, isCall := v.(*ssa.Call); isCall {
					switch calleeNameSSA(&cl.Call) {
					case "CanonicalName", "strings.ToLower", "asciiLower":
						lowered = true
					}
				}
			}
			if !lowered {
				return
			}
			outer := fa.X
			for {
				in, isFA := outer.(*ssa.FieldAddr)
				if !isFA {
					break
				}
				outer = in.X // through the embedded struct (SIG embeds RRSIG, NXT embeds NSEC) to the record itself
			}
			nt := derefNamed(outer.Type())
			if nt == nil {
				return
			}
			n++
			if !listed[nt.Obj().Name()] {
				bad = append(bad, fmt.Sprintf("%s: a lower-cased name is stored into %s.%s", c.pos(st.Pos()), nt.Obj().Name(), fieldNameOf(fa)))
			}
		})
	}
	r.check(n >= 21 && len(bad) == 0, rule, "rawSignatureData", c.pos(fn.Pos()), fmt.Sprintf("%d stores, all into listed types", n), "%s: the type is not in the list of RFC 4034 s.6.2 / RFC 6840 s.5.1, its RDATA is signed as sent; signatures made by other implementations over a record with a capital in that name are refused, and a signature over the lower-cased RDATA is accepted for it", strings.Join(uniqStrings(bad), "; "))
}

// noOverlappingScratch: two slices cut from one local array never share room they can grow into: where a function
// cuts a local array into several slices at different offsets, every slice but the last is cut with a capacity limit
// (three-index form) that ends where the next begins. Without it append on the first writes over the second.
func noOverlappingScratch(c *Ctx, r *Report, rule string, names []string) {
	r.rule(rule, len(names), "the label helpers cut no local array into slices that can grow into one another")
	for _, name := range names {
		fn := c.ssaFunc(name)
		if fn == nil {
			r.cerr(rule, name, "function not found")
			continue
		}
		r.fn(name)
		var bad []string
		for _, f := range localCallees(c, fn, 0) {
			byArr := map[*ssa.Alloc][]*ssa.Slice{}
			allInstrs(f, func(in ssa.Instruction) {
				sl, ok := in.(*ssa.Slice)
				if !ok {
					return
				}
				al, ok := sl.X.(*ssa.Alloc)
				if !ok {
					return
				}
				if _, isArr := al.Type().Underlying().(*types.Pointer).Elem().Underlying().(*types.Array); !isArr {
					return
				}
				byArr[al] = append(byArr[al], sl)
			})
			for al, sls := range byArr {
				if len(sls) < 2 {
					continue
				}
				low := func(s *ssa.Slice) (int64, bool) {
					if s.Low == nil {
						return 0, true
					}
					return constIntOf(s.Low)
				}
				for i, a := range sls {
					for j, b := range sls {
						if i == j {
							continue
						}
						la, oka := low(a)
						lb, okb := low(b)
						if !oka || !okb {
							bad = append(bad, fmt.Sprintf("%s and %s cut the same array at offsets that are not constants", c.pos(a.Pos()), c.pos(b.Pos())))
							continue
						}
						if la >= lb {
							continue
						}
						// a starts below b: its capacity must end at or below b's start
						if a.Max == nil {
							bad = append(bad, fmt.Sprintf("the slice cut at %s (from %d, no capacity limit) can grow into the slice cut at %s (from %d) of the same array (%s)", c.pos(a.Pos()), la, c.pos(b.Pos()), lb, c.pos(al.Pos())))
						} else if mx, ok := constIntOf(a.Max); !ok || mx > lb {
							bad = append(bad, fmt.Sprintf("the slice cut at %s has room beyond offset %d, where the slice cut at %s begins", c.pos(a.Pos()), lb, c.pos(b.Pos())))
						}
					}
				}
			}
		}
		r.check(len(bad) == 0, rule, name, c.pos(fn.Pos()), "no two slices of one local array overlap in capacity", "%s: with enough labels in the first name the offsets of the second are overwritten, and the count of shared labels is that of other names", strings.Join(uniqStrings(bad), "; "))
	}
}

// namesNotComparedAsStrings: dnsutil.TrimDomainName never decides anything by comparing its two names (or parts of
// them) as strings: names are compared label-wise and without regard to ASCII case by the helpers of package dns.
func namesNotComparedAsStrings(c *Ctx, r *Report, rule string) {
	r.rule(rule, 1, "dnsutil.TrimDomainName compares a name with another name only through the label helpers of package dns")
	fn := c.ssaFuncIn("dnsutil", "TrimDomainName")
	if fn == nil {
		r.cerr(rule, "TrimDomainName", "function not found")
		return
	}
	r.fn(fnDisplay(fn))
	var bad []string
	for _, f := range localCallees(c, fn, 2) {
		allInstrs(f, func(in ssa.Instruction) {
			bin, ok := in.(*ssa.BinOp)
			if !ok {
				return
			}
			switch bin.Op {
			case token.EQL, token.NEQ, token.LSS, token.GTR, token.LEQ, token.GEQ:
			default:
				return
			}
			bx, okx := bin.X.Type().Underlying().(*types.Basic)
			if !okx || bx.Info()&types.IsString == 0 {
				return
			}
			if _, isK := bin.X.(*ssa.Const); isK {
				return
			}
			if _, isK := bin.Y.(*ssa.Const); isK {
				return
			}
			bad = append(bad, fmt.Sprintf("%s: %s", c.pos(bin.Pos()), bin.String()))
		})
		for _, ci := range callsIn(f, "strings.HasSuffix", "strings.HasPrefix", "strings.EqualFold", "strings.TrimSuffix", "strings.Compare") {
			args := ci.Common().Args
			if len(args) == 2 {
				if _, isK := args[1].(*ssa.Const); !isK {
					bad = append(bad, fmt.Sprintf("%s: %s on two names", c.pos(ci.Pos()), calleeNameSSA(ci.Common())))
				}
			}
		}
	}
	r.check(len(bad) == 0, rule, "TrimDomainName", c.pos(fn.Pos()), "no string comparison of two names", "%s: names that are the same name in another ASCII case (or another escaping) are taken for different ones, and the labels to cut are counted wrongly", strings.Join(uniqStrings(bad), "; "))
}

// digitShortcutTestsWhatItPrints: where the $GENERATE reader hands out a digit computed as '0' + v, the test that
// makes this a single digit is a test of that same v.
func digitShortcutTestsWhatItPrints(c *Ctx, r *Report, rule string) {
	r.rule(rule, 1, "the $GENERATE reader emits a computed digit only for a value it has tested to be a single digit")
	fn := c.ssaFunc("generateReader.ReadByte")
	if fn == nil {
		r.cerr(rule, "generateReader.ReadByte", "function not found")
		return
	}
	r.fn("generateReader.ReadByte")
	var bad []string
	sites := 0
	for _, f := range localCallees(c, fn, 2) {
		if f != fn && (f.Signature.Recv() == nil || derefNamed(f.Signature.Recv().Type()) == nil || derefNamed(f.Signature.Recv().Type()).Obj().Name() != "generateReader") {
			continue
		}
		for _, rp := range returnPoints(f, 0) {
			v := stripConv(rp.Results[0])
			add, ok := v.(*ssa.BinOp)
			if !ok || add.Op != token.ADD {
				continue
			}
			x, y := add.X, add.Y
			if _, isK := x.(*ssa.Const); !isK {
				x, y = y, x
			}
			k, isK := x.(*ssa.Const)
			if !isK || k.Value == nil || k.Value.Kind() != constant.Int {
				continue
			}
			if kv, _ := constant.Int64Val(k.Value); kv != '0' {
				continue
			}
			sites++
			val := stripConv(y)
			// a fact on the way: val < 10 (or val <= 9)
			tested := false
			for _, ft := range rp.factsOf(f) {
				b, ok := ft.Atom.(*ssa.BinOp)
				if !ok {
					continue
				}
				for _, op := range []ssa.Value{b.X, b.Y} {
					if sameExpr(stripConv(op), val) {
						tested = true
					}
				}
			}
			if !tested {
				bad = append(bad, fmt.Sprintf("%s returns '0' + %s, and no test on the way is a test of that value", c.pos(rp.Pos), describeValue(val)))
			}
		}
	}
	r.check(len(bad) == 0, rule, "generateReader.ReadByte", c.pos(fn.Pos()), fmt.Sprintf("%d computed digit(s), each tested", sites), "%s: for a value of two digits the octet handed out is one beyond '9' (':' ';' '<' ...), so the generated name or RDATA is not the decimal number the template asks for", strings.Join(bad, "; "))
}
