package main

// Rules added after the twelfth round of independent breaking changes (second part).

import (
	"fmt"
	"go/constant"
	"go/token"
	"go/types"
	"strings"

	"golang.org/x/tools/go/ssa"
)

func stripConv(v ssa.Value) ssa.Value {
	for {
		switch t := v.(type) {
		case *ssa.Convert:
			v = t.X
		case *ssa.ChangeType:
			v = t.X
		default:
			return v
		}
	}
}

// algorithmComparedAsIs: the algorithm pre-check of RRSIG.Verify compares the two algorithm numbers themselves: no
// number is replaced by another before the comparison (two algorithm numbers that share a signature scheme are still
// two algorithms: RFC 4034 s.5.2 requires the key's algorithm to be the RRSIG's).
func algorithmComparedAsIs(c *Ctx, r *Report, rule, fname, recv string) {
	r.rule(rule, 1, fname+" compares the RRSIG's algorithm number with the key's, both as they are in the records")
	fn := c.ssaFunc(fname)
	if fn == nil {
		r.cerr(rule, fname, "function not found")
		return
	}
	r.fn(fname)
	isSigAlg := readsField(recv, "Algorithm")
	isKeyAlg := func(v ssa.Value) bool {
		return readsField("DNSKEY", "Algorithm")(v) || readsField("KEY", "Algorithm")(v)
	}
	n := 0
	var bad []string
	allInstrs(fn, func(in ssa.Instruction) {
		bin, ok := in.(*ssa.BinOp)
		if !ok || (bin.Op != token.EQL && bin.Op != token.NEQ) {
			return
		}
		sx, sy := sliceOf(bin.X), sliceOf(bin.Y)
		if !(anyIn(sx, isSigAlg) && anyIn(sy, isKeyAlg) || anyIn(sx, isKeyAlg) && anyIn(sy, isSigAlg)) {
			return
		}
		n++
		for _, op := range []ssa.Value{bin.X, bin.Y} {
			for _, l := range phiLeaves(stripConv(op)) {
				l = stripConv(l)
				if u, isLoad := l.(*ssa.UnOp); isLoad && u.Op == token.MUL && (isSigAlg(u.X) || isKeyAlg(u.X)) {
					continue
				}
				if f, isField := l.(*ssa.Field); isField && (isSigAlg(f) || isKeyAlg(f)) {
					continue
				}
				bad = append(bad, fmt.Sprintf("%s: one side can be %s", c.pos(bin.Pos()), describeValue(l)))
			}
		}
	})
	r.check(n > 0 && len(bad) == 0, rule, fname, c.pos(fn.Pos()), fmt.Sprintf("%d comparison(s) of the two fields themselves", n), "%s: a signature is accepted with a key published for another algorithm number", strings.Join(uniqStrings(bad), "; "))
}

// canonicalOnlyListed: rawSignatureData lower-cases RDATA names only of the types RFC 4034 s.6.2 (as amended by RFC
// 6840 s.5.1) lists: for every other type the RDATA is signed as it is.
func canonicalOnlyListed(c *Ctx, r *Report, rule string) {
	r.rule(rule, 1, "rawSignatureData stores a lower-cased name only into the header or into a record of an RFC 4034 s.6.2 type")
	fn := c.ssaFunc("rawSignatureData")
	if fn == nil {
		r.cerr(rule, "rawSignatureData", "function not found")
		return
	}
	r.fn("rawSignatureData")
	listed := map[string]bool{"RR_Header": true}
	for _, t := range rfc4034LowercaseTypes {
		listed[t] = true
	}
	n := 0
	var bad []string
	for _, f := range localCallees(c, fn, 1) {
		if f != fn && f.Parent() == nil {
			continue // closures of rawSignatureData only; other callees have their own contracts
		}
		allInstrs(f, func(in ssa.Instruction) {
			st, ok := in.(*ssa.Store)
			if !ok {
				return
			}
			fa, ok := st.Addr.(*ssa.FieldAddr)
			if !ok {
				return
			}
			lowered := false
			for v := range sliceOf(st.Val) {
				if cl, isCall := v.(*ssa.Call); isCall {
					switch calleeNameSSA(&cl.Call) {
					case "CanonicalName", "strings.ToLower", "asciiLower":
						lowered = true
					}
				}
			}
			if !lowered {
				return
			}
			outer := fa.X
			for {
				in, isFA := outer.(*ssa.FieldAddr)
				if !isFA {
					break
				}
				outer = in.X // through the embedded struct (SIG embeds RRSIG, NXT embeds NSEC) to the record itself
			}
			nt := derefNamed(outer.Type())
			if nt == nil {
				return
			}
			n++
			if !listed[nt.Obj().Name()] {
				bad = append(bad, fmt.Sprintf("%s: a lower-cased name is stored into %s.%s", c.pos(st.Pos()), nt.Obj().Name(), fieldNameOf(fa)))
			}
		})
	}
	// a helper that lower-cases through pointers it is given (`*p = CanonicalName(*p)`): every field whose address is
	// handed to it is a store of a lower-cased name into that field
	lowersThroughPointers := func(g *ssa.Function) bool {
		found := false
		allInstrs(g, func(in ssa.Instruction) {
			st, ok := in.(*ssa.Store)
			if !ok {
				return
			}
			if _, isFA := st.Addr.(*ssa.FieldAddr); isFA {
				return
			}
			fromParam := false
			for v := range sliceOf(st.Addr) {
				if _, isP := v.(*ssa.Parameter); isP {
					fromParam = true
				}
			}
			if !fromParam {
				return
			}
			for v := range sliceOf(st.Val) {
				if cl, isCall := v.(*ssa.Call); isCall && calleeNameSSA(&cl.Call) == "CanonicalName" {
					found = true
				}
			}
		})
		return found
	}
	allInstrs(fn, func(in ssa.Instruction) {
		call, ok := in.(*ssa.Call)
		if !ok {
			return
		}
		g := call.Call.StaticCallee()
		if g == nil || g.Pkg != fn.Pkg || len(g.Blocks) == 0 || !lowersThroughPointers(g) {
			return
		}
		for _, a := range call.Call.Args {
			for v := range sliceOf(a) {
				fa, isFA := v.(*ssa.FieldAddr)
				if !isFA {
					continue
				}
				if bt, isB := fa.Type().Underlying().(*types.Pointer).Elem().Underlying().(*types.Basic); !isB || bt.Info()&types.IsString == 0 {
					continue
				}
				outer := fa.X
				for {
					inner, isInner := outer.(*ssa.FieldAddr)
					if !isInner {
						break
					}
					outer = inner.X
				}
				nt := derefNamed(outer.Type())
				if nt == nil {
					continue
				}
				n++
				if !listed[nt.Obj().Name()] {
					bad = append(bad, fmt.Sprintf("%s: a lower-cased name is stored into %s.%s (through %s)", c.pos(call.Pos()), nt.Obj().Name(), fieldNameOf(fa), g.Name()))
				}
			}
		}
	})
	r.check(n >= 21 && len(bad) == 0, rule, "rawSignatureData", c.pos(fn.Pos()), fmt.Sprintf("%d stores, all into listed types", n), "%s: the type is not in the list of RFC 4034 s.6.2 / RFC 6840 s.5.1, its RDATA is signed as sent; signatures made by other implementations over a record with a capital in that name are refused, and a signature over the lower-cased RDATA is accepted for it", strings.Join(uniqStrings(bad), "; "))
}

// noOverlappingScratch: two slices cut from one local array never share room they can grow into: where a function
// cuts a local array into several slices at different offsets, every slice but the last is cut with a capacity limit
// (three-index form) that ends where the next begins. Without it append on the first writes over the second.
func noOverlappingScratch(c *Ctx, r *Report, rule string, names []string) {
	r.rule(rule, len(names), "the label helpers cut no local array into slices that can grow into one another")
	for _, name := range names {
		fn := c.ssaFunc(name)
		if fn == nil {
			r.cerr(rule, name, "function not found")
			continue
		}
		r.fn(name)
		var bad []string
		for _, f := range localCallees(c, fn, 0) {
			byArr := map[*ssa.Alloc][]*ssa.Slice{}
			allInstrs(f, func(in ssa.Instruction) {
				sl, ok := in.(*ssa.Slice)
				if !ok {
					return
				}
				al, ok := sl.X.(*ssa.Alloc)
				if !ok {
					return
				}
				if _, isArr := al.Type().Underlying().(*types.Pointer).Elem().Underlying().(*types.Array); !isArr {
					return
				}
				byArr[al] = append(byArr[al], sl)
			})
			for al, sls := range byArr {
				if len(sls) < 2 {
					continue
				}
				low := func(s *ssa.Slice) (int64, bool) {
					if s.Low == nil {
						return 0, true
					}
					return constIntOf(s.Low)
				}
				for i, a := range sls {
					for j, b := range sls {
						if i == j {
							continue
						}
						la, oka := low(a)
						lb, okb := low(b)
						if !oka || !okb {
							bad = append(bad, fmt.Sprintf("%s and %s cut the same array at offsets that are not constants", c.pos(a.Pos()), c.pos(b.Pos())))
							continue
						}
						if la >= lb {
							continue
						}
						// a starts below b: its capacity must end at or below b's start
						if a.Max == nil {
							bad = append(bad, fmt.Sprintf("the slice cut at %s (from %d, no capacity limit) can grow into the slice cut at %s (from %d) of the same array (%s)", c.pos(a.Pos()), la, c.pos(b.Pos()), lb, c.pos(al.Pos())))
						} else if mx, ok := constIntOf(a.Max); !ok || mx > lb {
							bad = append(bad, fmt.Sprintf("the slice cut at %s has room beyond offset %d, where the slice cut at %s begins", c.pos(a.Pos()), lb, c.pos(b.Pos())))
						}
					}
				}
			}
		}
		r.check(len(bad) == 0, rule, name, c.pos(fn.Pos()), "no two slices of one local array overlap in capacity", "%s: with enough labels in the first name the offsets of the second are overwritten, and the count of shared labels is that of other names", strings.Join(uniqStrings(bad), "; "))
	}
}

// namesNotComparedAsStrings: dnsutil.TrimDomainName never decides anything by comparing its two names (or parts of
// them) as strings: names are compared label-wise and without regard to ASCII case by the helpers of package dns.
func namesNotComparedAsStrings(c *Ctx, r *Report, rule string) {
	r.rule(rule, 1, "dnsutil.TrimDomainName compares a name with another name only through the label helpers of package dns")
	fn := c.ssaFuncIn("dnsutil", "TrimDomainName")
	if fn == nil {
		r.cerr(rule, "TrimDomainName", "function not found")
		return
	}
	r.fn(fnDisplay(fn))
	var bad []string
	for _, f := range localCallees(c, fn, 2) {
		allInstrs(f, func(in ssa.Instruction) {
			bin, ok := in.(*ssa.BinOp)
			if !ok {
				return
			}
			switch bin.Op {
			case token.EQL, token.NEQ, token.LSS, token.GTR, token.LEQ, token.GEQ:
			default:
				return
			}
			bx, okx := bin.X.Type().Underlying().(*types.Basic)
			if !okx || bx.Info()&types.IsString == 0 {
				return
			}
			if _, isK := bin.X.(*ssa.Const); isK {
				return
			}
			if _, isK := bin.Y.(*ssa.Const); isK {
				return
			}
			bad = append(bad, fmt.Sprintf("%s: %s", c.pos(bin.Pos()), bin.String()))
		})
		for _, ci := range callsIn(f, "strings.HasSuffix", "strings.HasPrefix", "strings.EqualFold", "strings.TrimSuffix", "strings.Compare") {
			args := ci.Common().Args
			if len(args) == 2 {
				if _, isK := args[1].(*ssa.Const); !isK {
					bad = append(bad, fmt.Sprintf("%s: %s on two names", c.pos(ci.Pos()), calleeNameSSA(ci.Common())))
				}
			}
		}
	}
	r.check(len(bad) == 0, rule, "TrimDomainName", c.pos(fn.Pos()), "no string comparison of two names", "%s: names that are the same name in another ASCII case (or another escaping) are taken for different ones, and the labels to cut are counted wrongly", strings.Join(uniqStrings(bad), "; "))
}

// digitShortcutTestsWhatItPrints: where the $GENERATE reader hands out a digit computed as '0' + v, the test that
// makes this a single digit is a test of that same v.
func digitShortcutTestsWhatItPrints(c *Ctx, r *Report, rule string) {
	r.rule(rule, 1, "the $GENERATE reader emits a computed digit only for a value it has tested to be a single digit")
	fn := c.ssaFunc("generateReader.ReadByte")
	if fn == nil {
		r.cerr(rule, "generateReader.ReadByte", "function not found")
		return
	}
	r.fn("generateReader.ReadByte")
	var bad []string
	sites := 0
	for _, f := range localCallees(c, fn, 2) {
		if f != fn && (f.Signature.Recv() == nil || derefNamed(f.Signature.Recv().Type()) == nil || derefNamed(f.Signature.Recv().Type()).Obj().Name() != "generateReader") {
			continue
		}
		for _, rp := range returnPoints(f, 0) {
			v := stripConv(rp.Results[0])
			add, ok := v.(*ssa.BinOp)
			if !ok || add.Op != token.ADD {
				continue
			}
			x, y := add.X, add.Y
			if _, isK := x.(*ssa.Const); !isK {
				x, y = y, x
			}
			k, isK := x.(*ssa.Const)
			if !isK || k.Value == nil || k.Value.Kind() != constant.Int {
				continue
			}
			if kv, _ := constant.Int64Val(k.Value); kv != '0' {
				continue
			}
			sites++
			val := stripConv(y)
			// a fact on the way: val < 10 (or val <= 9)
			tested := false
			for _, ft := range rp.factsOf(f) {
				b, ok := ft.Atom.(*ssa.BinOp)
				if !ok {
					continue
				}
				for _, op := range []ssa.Value{b.X, b.Y} {
					if sameExpr(stripConv(op), val) {
						tested = true
					}
				}
			}
			if !tested {
				bad = append(bad, fmt.Sprintf("%s returns '0' + %s, and no test on the way is a test of that value", c.pos(rp.Pos), describeValue(val)))
			}
		}
	}
	r.check(len(bad) == 0, rule, "generateReader.ReadByte", c.pos(fn.Pos()), fmt.Sprintf("%d computed digit(s), each tested", sites), "%s: for a value of two digits the octet handed out is one beyond '9' (':' ';' '<' ...), so the generated name or RDATA is not the decimal number the template asks for", strings.Join(bad, "; "))
}

// specialOctetsPrintable: every octet isDomainNameLabelSpecial calls special is a printable ASCII character: the
// printers ask "special?" before "printable?", so an octet outside 0x20..0x7e that is called special is printed as a
// backslash and the raw octet instead of \DDD. Decided by walking the function for each of the 256 octet values.
func specialOctetsPrintable(c *Ctx, r *Report, rule string) {
	r.rule(rule, 1, "every octet isDomainNameLabelSpecial calls special is printable ASCII (walked for all 256 values)")
	fn := c.ssaFunc("isDomainNameLabelSpecial")
	if fn == nil || len(fn.Params) != 1 {
		r.cerr(rule, "isDomainNameLabelSpecial", "function not found")
		return
	}
	r.fn("isDomainNameLabelSpecial")
	x := &scalarExec{pkg: fn.Pkg}
	var bad, und []string
	n := 0
	for v := 0; v < 256; v++ {
		res := x.run(fn, fn.Blocks[0], 0, map[ssa.Value]int64{fn.Params[0]: int64(v)}, 0)
		if !res.Returned || len(res.Results) != 1 || !res.Decided[0] {
			und = append(und, fmt.Sprintf("0x%02x", v))
			continue
		}
		if res.Results[0] == 1 {
			n++
			if v < 0x20 || v > 0x7e {
				bad = append(bad, fmt.Sprintf("0x%02x", v))
			}
		}
	}
	if len(und) > 0 {
		r.undecided(rule, "isDomainNameLabelSpecial", c.pos(fn.Pos()), "the walk does not decide the octets %s", strings.Join(und, " "))
		return
	}
	r.check(n > 0 && len(bad) == 0, rule, "isDomainNameLabelSpecial", c.pos(fn.Pos()), fmt.Sprintf("%d special octets, all printable", n), "the octets %s are called special: UnpackDomainName and sprintName print them as a backslash followed by the raw octet, not as \\DDD - the presentation form is no longer printable ASCII", strings.Join(bad, " "))
}

// optionBodyWhole: no EDNS0 option decoder cuts octets off the end of the option body: a slice of the body (or of a
// slice of it) never has an upper bound of the form len(...) - k. The length of an option is OPTION-LENGTH; what is in
// it is the option (a trailing NUL of EDE's EXTRA-TEXT, RFC 8914 s.2, is part of what was sent and is sent again).
func optionBodyWhole(c *Ctx, r *Report, rule string) {
	r.rule(rule, 14, "no EDNS0 option decoder drops octets from the end of the option body")
	for _, nt := range c.implementers("EDNS0") {
		name := nt.Obj().Name() + ".unpack"
		fn := c.ssaFunc(name)
		if fn == nil || len(fn.Params) < 2 {
			continue
		}
		r.fn(name)
		body := fn.Params[1]
		var bad []string
		for _, f := range localCallees(c, fn, 0) {
			allInstrs(f, func(in ssa.Instruction) {
				sl, ok := in.(*ssa.Slice)
				if !ok || sl.High == nil || !sliceOf(sl.X)[body] {
					return
				}
				hi, ok := stripConv(sl.High).(*ssa.BinOp)
				if !ok || hi.Op != token.SUB {
					return
				}
				k, isK := constIntOf(hi.Y)
				if !isK || k <= 0 {
					return
				}
				isLen := false
				for v := range sliceOf(hi.X) {
					if cl, isCall := v.(*ssa.Call); isCall && calleeNameSSA(&cl.Call) == "builtin.len" && sliceOf(cl.Call.Args[0])[body] {
						isLen = true
					}
				}
				if isLen {
					bad = append(bad, fmt.Sprintf("%s: the body is cut %d octet(s) short of its end", c.pos(sl.Pos()), k))
				}
			})
		}
		r.check(len(bad) == 0, rule, name, c.pos(fn.Pos()), "the body is read to its end", "%s: an option whose last octet(s) have the value tested for comes back shorter than it was sent (unpack then pack does not reproduce the message)", strings.Join(bad, "; "))
	}
}

// packSizeRefusalExact: where packBufferWithCompressionMap refuses a message because of a length it computed, the
// refusal implies that the message is longer than MaxMsgSize octets: a message of exactly 65535 octets is packed.
func packSizeRefusalExact(c *Ctx, r *Report, rule string) {
	r.rule(rule, 1, "Pack refuses by size only messages longer than MaxMsgSize")
	fn := c.ssaFunc("Msg.packBufferWithCompressionMap")
	if fn == nil {
		r.cerr(rule, "Msg.packBufferWithCompressionMap", "function not found")
		return
	}
	r.fn("Msg.packBufferWithCompressionMap")
	maxSize, okM := c.constInt("MaxMsgSize")
	if !okM {
		r.cerr(rule, "MaxMsgSize", "constant not found")
		return
	}
	isLenCall := func(v ssa.Value) bool {
		cl, ok := v.(*ssa.Call)
		if !ok {
			return false
		}
		switch calleeNameSSA(&cl.Call) {
		case "msgLenWithCompressionMap", "(Msg).Len":
			return true
		}
		return false
	}
	// v = L + d for a length call L
	var linear func(v ssa.Value) (int64, bool)
	linear = func(v ssa.Value) (int64, bool) {
		v = stripConv(v)
		if isLenCall(v) {
			return 0, true
		}
		if b, ok := v.(*ssa.BinOp); ok && (b.Op == token.ADD || b.Op == token.SUB) {
			if k, isK := constIntOf(b.Y); isK {
				if d, ok := linear(b.X); ok {
					if b.Op == token.SUB {
						k = -k
					}
					return d + k, true
				}
			}
			if k, isK := constIntOf(b.X); isK && b.Op == token.ADD {
				if d, ok := linear(b.Y); ok {
					return d + k, true
				}
			}
		}
		return 0, false
	}
	errorOnly := func(b *ssa.BasicBlock) bool {
		// every return reachable from b without leaving through a join carries a non-nil error
		if len(b.Preds) != 1 {
			return false
		}
		ok, _ := mustPass(fn, b, -1, func(in ssa.Instruction) bool { return false })
		if ok {
			return false
		}
		allErr := true
		for x := range reach(b, nil, nil) {
			if ret, isRet := x.Instrs[len(x.Instrs)-1].(*ssa.Return); isRet {
				res := unspill(x, ret)
				if len(res) < 2 || isNilConst(res[len(res)-1]) {
					allErr = false
				}
				if _, isPhi := res[len(res)-1].(*ssa.Phi); isPhi {
					allErr = false
				}
			}
		}
		return allErr
	}
	var bad []string
	n := 0
	for _, b := range fn.Blocks {
		iff, ok := b.Instrs[len(b.Instrs)-1].(*ssa.If)
		if !ok {
			continue
		}
		bin, ok := iff.Cond.(*ssa.BinOp)
		if !ok {
			continue
		}
		x, y, op := bin.X, bin.Y, bin.Op
		if _, isK := constIntOf(x); isK {
			x, y = y, x
			switch op {
			case token.LSS:
				op = token.GTR
			case token.GTR:
				op = token.LSS
			case token.LEQ:
				op = token.GEQ
			case token.GEQ:
				op = token.LEQ
			}
		}
		k, isK := constIntOf(y)
		d, isLin := linear(x)
		if !isK || !isLin {
			continue
		}
		// smallest L for which the true edge is taken (upper tests) / the false edge is taken (lower tests)
		var refusedFrom int64
		var edge *ssa.BasicBlock
		switch op {
		case token.GTR: // L+d > k: true edge for L >= k-d+1
			refusedFrom, edge = k-d+1, b.Succs[0]
		case token.GEQ:
			refusedFrom, edge = k-d, b.Succs[0]
		case token.LEQ: // L+d <= k false for L >= k-d+1
			refusedFrom, edge = k-d+1, b.Succs[1]
		case token.LSS:
			refusedFrom, edge = k-d, b.Succs[1]
		default:
			continue
		}
		if !errorOnly(edge) {
			continue
		}
		n++
		if refusedFrom <= maxSize {
			bad = append(bad, fmt.Sprintf("%s: messages of %d octets and more are refused", c.pos(bin.Pos()), refusedFrom))
		}
	}
	r.check(len(bad) == 0, rule, "Msg.packBufferWithCompressionMap", c.pos(fn.Pos()), fmt.Sprintf("%d size refusal(s), none at or below MaxMsgSize", n), "%s, but a message of MaxMsgSize (%d) octets is a message that can be sent: Pack fails with an error for a message whose wire form exists", strings.Join(bad, "; "), maxSize)
}

// signKeptInSplitNumber: where a printer formats a signed number as quotient and remainder of a division by a
// constant, it has looked at the sign of the number itself: -50 / 100 is 0, and "0.50" has lost the sign.
func signKeptInSplitNumber(c *Ctx, r *Report, rule string) {
	r.rule(rule, 1, "no String method prints a signed number as quotient and remainder without a test of its sign")
	n := 0
	var bad []string
	for _, fn := range c.allFuncs() {
		if fn.Name() != "String" && fn.Name() != "cmToM" {
			continue
		}
		n++
		for _, f := range localCallees(c, fn, 0) {
			var quos, rems []*ssa.BinOp
			allInstrs(f, func(in ssa.Instruction) {
				b, ok := in.(*ssa.BinOp)
				if !ok || (b.Op != token.QUO && b.Op != token.REM) {
					return
				}
				bt, ok := b.X.Type().Underlying().(*types.Basic)
				if !ok || bt.Info()&types.IsInteger == 0 || bt.Info()&types.IsUnsigned != 0 {
					return
				}
				if _, isK := constIntOf(b.Y); !isK {
					return
				}
				// a conversion of an unsigned value that is not moved afterwards is not negative
				if cv, isCv := b.X.(*ssa.Convert); isCv {
					if ut, ok := cv.X.Type().Underlying().(*types.Basic); ok && ut.Info()&types.IsUnsigned != 0 {
						return
					}
				}
				if b.Op == token.QUO {
					quos = append(quos, b)
				} else {
					rems = append(rems, b)
				}
			})
			for _, q := range quos {
				for _, m := range rems {
					if !sameExpr(q.X, m.X) {
						continue
					}
					// both reach one formatting call?
					together := false
					allInstrs(f, func(in ssa.Instruction) {
						cl, ok := in.(*ssa.Call)
						if !ok {
							return
						}
						nm := calleeNameSSA(&cl.Call)
						if !strings.HasPrefix(nm, "fmt.") {
							return
						}
						hasQ, hasM := false, false
						for _, a := range cl.Call.Args {
							s := sliceOf(a)
							hasQ = hasQ || s[q]
							hasM = hasM || s[m]
						}
						together = together || hasQ && hasM
					})
					if !together {
						continue
					}
					signTested := false
					allInstrs(f, func(in ssa.Instruction) {
						b, ok := in.(*ssa.BinOp)
						if !ok {
							return
						}
						switch b.Op {
						case token.LSS, token.GTR, token.LEQ, token.GEQ:
						default:
							return
						}
						if k, isK := constIntOf(b.Y); isK && k == 0 && sameExpr(b.X, q.X) {
							signTested = true
						}
						if k, isK := constIntOf(b.X); isK && k == 0 && sameExpr(b.Y, q.X) {
							signTested = true
						}
					})
					if !signTested {
						bad = append(bad, fmt.Sprintf("%s: %s / and %% by a constant are formatted together (%s) and the sign of the number is never looked at", c.pos(q.Pos()), describeValue(q.X), fnDisplay(fn)))
					}
				}
			}
		}
	}
	r.check(n > 0 && len(bad) == 0, rule, "String methods", "", fmt.Sprintf("%d functions looked at", n), "%s: for a value between -k and 0 the quotient is 0 and the text has no minus sign, so the record read back from its text has another value (LOC altitudes just below the reference spheroid)", strings.Join(uniqStrings(bad), "; "))
}

// directiveArgsNotKeywords (F77): once the zone lexer has recognised the first token of a line as a directive, it
// looks for no type or class keyword until the end of the line. Anchored at the store that makes the first token an
// owner (the directive classes replace that value afterwards, by a switch, a table, whatever): from there every way
// out of Next passes `zl.rrtype = l.value != zOwner`, or `zl.rrtype = true` on the not-an-owner side of a test of
// l.value against zOwner (rrtype is the flag that ends the keyword search; the end of the line resets it).
func directiveArgsNotKeywords(c *Ctx, r *Report, rule string) {
	r.rule(rule, 1, "zlexer.Next ends the keyword search for the rest of the line when the line starts with a directive")
	fn := c.ssaFunc("zlexer.Next")
	if fn == nil {
		r.cerr(rule, "zlexer.Next", "function not found")
		return
	}
	r.fn("zlexer.Next")
	ow, okO := c.constInt("zOwner")
	if !okO {
		r.cerr(rule, "zOwner", "constant not found")
		return
	}
	isValueLoad := func(v ssa.Value) bool { return anyIn(sliceOf(v), readsField("lex", "value")) }
	// cmpOwner: v is `l.value != zOwner` (neq=true) or `l.value == zOwner` (neq=false)
	cmpOwner := func(v ssa.Value) (neq bool, ok bool) {
		cmp, isCmp := v.(*ssa.BinOp)
		if !isCmp || (cmp.Op != token.NEQ && cmp.Op != token.EQL) {
			return false, false
		}
		kx, isKx := constIntOf(cmp.X)
		ky, isKy := constIntOf(cmp.Y)
		if isKy && ky == ow && isValueLoad(cmp.X) || isKx && kx == ow && isValueLoad(cmp.Y) {
			return cmp.Op == token.NEQ, true
		}
		return false, false
	}
	n := 0
	var bad []string
	for _, st := range storesToField(fn, "lex", "value") {
		if k, isK := constIntOf(st.Val); !isK || k != ow {
			continue
		}
		n++
		type state struct {
			b         *ssa.BasicBlock
			directive bool // known to be on the not-an-owner side
		}
		seen := map[state]bool{}
		var walk func(b *ssa.BasicBlock, from int, directive bool)
		walk = func(b *ssa.BasicBlock, from int, directive bool) {
			for i := from; i < len(b.Instrs); i++ {
				switch t := b.Instrs[i].(type) {
				case *ssa.Store:
					if readsField("zlexer", "rrtype")(t.Addr) {
						if neq, ok := cmpOwner(t.Val); ok && neq {
							return
						}
						if bv, isB := constBool(t.Val); isB && bv && directive {
							return
						}
					}
				case *ssa.Return:
					bad = append(bad, c.pos(t.Pos()))
					return
				case *ssa.If:
					if neq, ok := cmpOwner(t.Cond); ok {
						dirEdge, ownEdge := b.Succs[0], b.Succs[1]
						if !neq {
							dirEdge, ownEdge = ownEdge, dirEdge
						}
						_ = ownEdge // an owner, not a directive: nothing to require on this side
						if !seen[state{dirEdge, true}] {
							seen[state{dirEdge, true}] = true
							walk(dirEdge, 0, true)
						}
						return
					}
				}
			}
			for _, sx := range b.Succs {
				if !seen[state{sx, directive}] {
					seen[state{sx, directive}] = true
					walk(sx, 0, directive)
				}
			}
		}
		walk(st.Block(), instrIndex(st)+1, false)
	}
	r.check(n > 0 && len(bad) == 0, rule, "zlexer.Next", c.pos(fn.Pos()), "keyword search ended behind a directive", "Next can return at %s with a directive as the first token of the line and the keyword search still on: the arguments of the directive are looked up as type and class keywords, and a name that is or starts like a keyword ($ORIGIN mx, $ORIGIN types.example.org. ; c, $INCLUDE types.db sub, $GENERATE 1-2 type$ ...) is refused", strings.Join(uniqStrings(bad), ", "))
}

// typeSpellingsAgree (F78): wherever zlexer.Next looks a token up as a type mnemonic, the TYPEnnn spelling is tried
// on the miss: the arm that ends a token at a blank and the arm that ends it at the end of the line classify alike.
func typeSpellingsAgree(c *Ctx, r *Report, rule string) {
	r.rule(rule, 2, "every mnemonic lookup of a type in zlexer.Next is followed, on its miss, by the TYPEnnn reader")
	fn := c.ssaFunc("zlexer.Next")
	if fn == nil {
		r.cerr(rule, "zlexer.Next", "function not found")
		return
	}
	r.fn("zlexer.Next")
	n := 0
	allInstrs(fn, func(in ssa.Instruction) {
		lk, ok := in.(*ssa.Lookup)
		if !ok || !lk.CommaOk || !anyIn(sliceOf(lk.X), isGlobal("StringToType")) {
			return
		}
		n++
		construct := fmt.Sprintf("zlexer.Next:lookup#%d", n)
		// the block that tests ok
		var missEdge *ssa.BasicBlock
		for _, ref := range *lk.Referrers() {
			ex, isEx := ref.(*ssa.Extract)
			if !isEx || ex.Index != 1 || ex.Referrers() == nil {
				continue
			}
			for _, r2 := range *ex.Referrers() {
				if iff, isIf := r2.(*ssa.If); isIf {
					missEdge = iff.Block().Succs[1]
				}
			}
		}
		if missEdge == nil {
			r.undecided(rule, construct, c.pos(lk.Pos()), "the test of the lookup's ok result was not found")
			return
		}
		found := false
		for b := range reach(missEdge, nil, nil) {
			if len(b.Preds) > 1 && !missEdge.Dominates(b) {
				continue
			}
			for _, x := range b.Instrs {
				if cl, isCall := x.(*ssa.Call); isCall && calleeNameSSA(&cl.Call) == "typeToInt" {
					found = true
				}
			}
		}
		r.check(found, rule, construct, c.pos(lk.Pos()), "typeToInt tried on the miss", "the type lookup at %s gives up on a miss without trying the TYPEnnn spelling: a type written TYPEnnn is refused in this position where its mnemonic is accepted (a record without RDATA: 'example. 3600 IN TYPE1')", c.pos(lk.Pos()))
	})
	if n == 0 {
		r.cerr(rule, "zlexer.Next", "no lookup in StringToType found")
	}
}

// subParserInheritsFS (F79): every parser a ZoneParser makes for text it reads on the caller's behalf ($INCLUDE files,
// $GENERATE output) is given the caller's include file system before it is used: from each NewZoneParser call in a
// ZoneParser method every way out passes SetIncludeFS with the receiver's fsys (or a store of it into the field).
func subParserInheritsFS(c *Ctx, r *Report, rule string) {
	r.rule(rule, 2, "every sub-parser of a ZoneParser is handed the include file system of its parent")
	n := 0
	isFsys := readsField("ZoneParser", "fsys")
	for _, fn := range c.allFuncs() {
		if fn.Signature.Recv() == nil || derefNamed(fn.Signature.Recv().Type()) == nil || derefNamed(fn.Signature.Recv().Type()).Obj().Name() != "ZoneParser" {
			continue
		}
		for i, ci := range callsIn(fn, "NewZoneParser") {
			call, ok := ci.(*ssa.Call)
			if !ok {
				continue
			}
			n++
			construct := fmt.Sprintf("%s:sub-parser#%d", fnDisplay(fn), i+1)
			r.fn(fnDisplay(fn))
			okPass, at := mustPass(fn, call.Block(), instrIndex(call), func(in ssa.Instruction) bool {
				switch t := in.(type) {
				case *ssa.Call:
					if calleeNameSSA(&t.Call) == "(ZoneParser).SetIncludeFS" && len(t.Call.Args) == 2 {
						return anyIn(sliceOf(t.Call.Args[1]), isFsys)
					}
				case *ssa.Store:
					return isFsys(t.Addr) && anyIn(sliceOf(t.Val), isFsys)
				}
				return false
			})
			where := ""
			if at != nil && len(at.Instrs) > 0 {
				where = c.pos(at.Instrs[len(at.Instrs)-1].Pos())
			}
			r.check(okPass, rule, construct, c.pos(call.Pos()), "SetIncludeFS(zp.fsys) on every way out", "the parser made at %s can be used (the function returns at %s) without the include file system of its parent: an $INCLUDE met by it is opened with os.Open, outside the fs.FS the caller confined the parser to with SetIncludeFS", c.pos(call.Pos()), where)
		}
	}
	if n == 0 {
		r.cerr(rule, "NewZoneParser", "no sub-parser construction found in a ZoneParser method")
	}
}

// trimNeverEmpty (F80): where dnsutil.TrimDomainName returns its first argument without its last octet, the argument
// is known not to be "." (the root under the root origin is the apex, "@": AddOrigin("@", ".") is ".", and the function
// documents that it never returns the empty string).
func trimNeverEmpty(c *Ctx, r *Report, rule string) {
	r.rule(rule, 1, "dnsutil.TrimDomainName cuts the final dot off its argument only where the argument is not the root")
	fn := c.ssaFuncIn("dnsutil", "TrimDomainName")
	if fn == nil || len(fn.Params) < 2 {
		r.cerr(rule, "TrimDomainName", "function not found")
		return
	}
	r.fn(fnDisplay(fn))
	s := fn.Params[0]
	notRoot := Guard{Name: `s != "."`, Op: "eq", A: isValue(s), B: func(v ssa.Value) bool {
		k, ok := v.(*ssa.Const)
		return ok && k.Value != nil && k.Value.Kind() == constant.String && constant.StringVal(k.Value) == "."
	}, Holds: false}
	n := 0
	var bad []string
	for _, rp := range returnPoints(fn, 0) {
		sl, ok := rp.Results[0].(*ssa.Slice)
		if !ok || sl.X != ssa.Value(s) || sl.High == nil {
			continue
		}
		hi, ok := sl.High.(*ssa.BinOp)
		if !ok || hi.Op != token.SUB {
			continue
		}
		if k, isK := constIntOf(hi.Y); !isK || k != 1 {
			continue
		}
		if cl, isCall := hi.X.(*ssa.Call); !isCall || calleeNameSSA(&cl.Call) != "builtin.len" || cl.Call.Args[0] != ssa.Value(s) {
			continue
		}
		n++
		if miss := guardsMissingFacts(fn, rp.factsOf(fn), []Guard{notRoot}); len(miss) > 0 {
			bad = append(bad, c.pos(rp.Pos))
		}
	}
	r.check(n > 0 && len(bad) == 0, rule, "TrimDomainName", c.pos(fn.Pos()), fmt.Sprintf("%d return(s) of s[:len(s)-1], each with s != \".\"", n), "the return at %s hands out s without its last octet where s can be \".\": TrimDomainName(\".\", \".\") is the empty string, not \"@\" - AddOrigin and TrimDomainName are not inverse for the apex under the root origin", strings.Join(bad, ", "))
}

// foldNotEscapeConditioned (F81): the arm of normalizedString that lower-cases a letter of the owner name is taken
// for every letter, escaped or not: no boolean carried round the loop (the escape flag) is among the tests that lead
// to the store of the folded octet. IsDuplicate's name comparison folds every letter; the key Dedup groups by must too.
func foldNotEscapeConditioned(c *Ctx, r *Report, rule string) {
	r.rule(rule, 1, "normalizedString lower-cases a letter of the owner name whether or not a backslash precedes it")
	fn := c.ssaFunc("normalizedString")
	if fn == nil {
		r.cerr(rule, "normalizedString", "function not found")
		return
	}
	r.fn("normalizedString")
	n := 0
	var bad []string
	allInstrs(fn, func(in ssa.Instruction) {
		st, ok := in.(*ssa.Store)
		if !ok {
			return
		}
		if _, isIdx := st.Addr.(*ssa.IndexAddr); !isIdx {
			return
		}
		add, ok := stripConv(st.Val).(*ssa.BinOp)
		if !ok || (add.Op != token.ADD && add.Op != token.OR) {
			return
		}
		k, isK := constIntOf(add.Y)
		if !isK || k != 32 {
			return
		}
		n++
		for _, f := range factsAt(fn, st.Block()) {
			for v := range sliceOf(f.Atom) {
				if phi, isPhi := v.(*ssa.Phi); isPhi {
					if bt, okb := phi.Type().Underlying().(*types.Basic); okb && bt.Kind() == types.Bool {
						bad = append(bad, fmt.Sprintf("%s: the fold is under a test of a flag carried round the loop (%s)", c.pos(st.Pos()), describeValue(f.Atom)))
					}
				}
			}
		}
	})
	r.check(n > 0 && len(bad) == 0, rule, "normalizedString", c.pos(fn.Pos()), fmt.Sprintf("%d fold store(s), none under the escape flag", n), "%s: a letter written behind a backslash keeps its case in the key, so two records that IsDuplicate calls duplicates (its name comparison folds every letter) get different keys and Dedup keeps both", strings.Join(uniqStrings(bad), "; "))
}

// dedupLeavesScratchEmpty (F82): every return of Dedup leaves the map it was lent empty: the return that hands back
// the list as it came (nothing was a duplicate) is preceded by clear(m), the other one by the pass that removes a key
// for every record kept. The map is scratch space the caller may hand to the next call.
func dedupLeavesScratchEmpty(c *Ctx, r *Report, rule string) {
	r.rule(rule, 1, "the return of Dedup that hands the list back unchanged empties the scratch map first")
	fn := c.ssaFunc("Dedup")
	if fn == nil || len(fn.Params) < 2 {
		r.cerr(rule, "Dedup", "function not found")
		return
	}
	r.fn("Dedup")
	rrs := fn.Params[0]
	n := 0
	var bad []string
	for _, b := range fn.Blocks {
		ret, ok := b.Instrs[len(b.Instrs)-1].(*ssa.Return)
		if !ok || len(ret.Results) != 1 || ret.Results[0] != ssa.Value(rrs) {
			continue
		}
		n++
		cleared := false
		for x := b; x != nil; x = x.Idom() {
			for _, in := range x.Instrs {
				if cl, isCall := in.(*ssa.Call); isCall && calleeNameSSA(&cl.Call) == "builtin.clear" && isMapType(cl.Call.Args[0]) {
					cleared = true
				}
			}
			if len(x.Preds) != 1 {
				break // only the straight line into the return counts
			}
		}
		if !cleared {
			bad = append(bad, c.pos(ret.Pos()))
		}
	}
	r.check(n > 0 && len(bad) == 0, rule, "Dedup", c.pos(fn.Pos()), fmt.Sprintf("%d return(s) of the unchanged list, each behind clear(m)", n), "Dedup returns the list unchanged at %s and leaves the keys of its records in the caller's map: the next call with the same map takes them for records of its own list, keeps duplicates and lowers the TTL of a record of the earlier list", strings.Join(bad, ", "))
}
