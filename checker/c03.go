package main

import (
	"fmt"
	"go/ast"
	"go/token"
	"go/types"
	"sort"
	"strings"

	"golang.org/x/tools/go/ssa"
)

func init() { register("C03", true, false, checkC03) }

const c03Explanation = `Decided statically: (R1) limit agreement: each of the three functions that judge or convert a name (UnpackDomainName, IsDomainName, packDomainName) contains a loop-carried accumulator updated by +/-(1 + label length) and compared with a constant on a rejecting edge; after normalisation the largest accepted sum of (label length + 1) is 254 in all three (wire length 255 including the root octet), and the largest accepted label length is 63 in all three; (R2) sibling agreement of the two text-side functions (packDomainName and its 'logical copy' IsDomainName): both reject a leading dot of a longer name and adjacent dots, and both account an escape sequence of k extra characters as k (\c) or 3 (\DDD) in step with the skip; (R3) escaping is closed over the parser's special characters: every octet the unpacker (and sprintName) emits unescaped - the printable range minus isDomainNameLabelSpecial - is ordinary to the zone lexer and is neither '.' nor '@'; both printers use the same classifier and range; (R4) names that are not fully qualified are refused by the packer before anything is written: every write into the message is on the IsFqdn(s) edge; Fqdn returns s when IsFqdn and s+"." otherwise. NOT decided: octet-for-octet round trip for all 256 values in all positions, escape/length interaction beyond the sibling pairing: value-level string arithmetic.`

type limitInfo struct {
	fn       string
	maxSum   int64
	okSum    bool
	maxLabel int64
	okLabel  bool
	posSum   token.Pos
	posLabel token.Pos
	detail   string
	acc      *ssa.Phi   // the loop-carried accumulator of (label length + 1)
	accUpd   *ssa.BinOp // its update
}

// nameLimits extracts the accepted maxima of a name-walking function.
func nameLimits(c *Ctx, fn *ssa.Function, kind string) limitInfo {
	li := limitInfo{fn: fnDisplay(fn)}
	// label length value L
	var L ssa.Value
	if kind == "wire" {
		// L = x where the dispatch is on x & 0xC0
		allInstrs(fn, func(in ssa.Instruction) {
			b, ok := in.(*ssa.BinOp)
			if !ok || b.Op != token.AND {
				return
			}
			if k, isK := constIntOf(b.Y); isK && k == 0xC0 {
				L = b.X
				// the literal-label branch compares (x & 0xC0) with 0
				for _, ref := range *b.Referrers() {
					if cmp, ok := ref.(*ssa.BinOp); ok && cmp.Op == token.EQL {
						if k0, isK0 := constIntOf(cmp.Y); isK0 && k0 == 0 {
							li.maxLabel, li.okLabel, li.posLabel = 0x3F, true, cmp.Pos()
						}
					}
				}
			}
		})
	} else {
		// L = value compared with a constant near 64 on a rejecting edge
		allInstrs(fn, func(in ssa.Instruction) {
			ifi, ok := in.(*ssa.If)
			if !ok {
				return
			}
			atom, _ := condAtom(ifi.Cond)
			b, ok := atom.(*ssa.BinOp)
			if !ok {
				return
			}
			k, isK := constIntOf(b.Y)
			if !isK || k < 60 || k > 70 {
				return
			}
			sub, ok := b.X.(*ssa.BinOp)
			if !ok || sub.Op != token.SUB {
				return
			}
			L = b.X
			// accepted interval on the non-rejecting edge: the edge that does not lead straight to a failure return
			for s := 0; s < 2; s++ {
				succ := ifi.Block().Succs[s]
				if isFailureBlock(succ) {
					continue
				}
				f, _ := edgeFact(ifi.Block(), succ)
				_, hi, _, hasHi := intervalFromFact(f, isValue(L))
				if hasHi {
					li.maxLabel, li.okLabel, li.posLabel = hi, true, ifi.Pos()
				}
			}
		})
	}
	if L == nil {
		li.detail = "no label-length value found"
		return li
	}
	// accumulator threshold
	allInstrs(fn, func(in ssa.Instruction) {
		ifi, ok := in.(*ssa.If)
		if !ok {
			return
		}
		atom, _ := condAtom(ifi.Cond)
		cmp, ok := atom.(*ssa.BinOp)
		if !ok {
			return
		}
		v, kv := cmp.X, cmp.Y
		if _, isK := constIntOf(kv); !isK {
			v, kv = cmp.Y, cmp.X
			if _, isK2 := constIntOf(kv); !isK2 {
				return
			}
		}
		upd, ok := v.(*ssa.BinOp)
		if !ok || (upd.Op != token.ADD && upd.Op != token.SUB) {
			return
		}
		acc, ok := upd.X.(*ssa.Phi)
		if !ok {
			return
		}
		ts := sliceOf(upd.Y)
		if !ts[L] || !anyIn(ts, isConstInt(1)) {
			return
		}
		// initial value of the accumulator
		var s0 int64
		found := false
		for _, e := range acc.Edges {
			if k, isK := constIntOf(e); isK {
				s0, found = k, true
			}
		}
		if !found {
			return
		}
		for s := 0; s < 2; s++ {
			succ := ifi.Block().Succs[s]
			if isFailureBlock(succ) {
				continue
			}
			f, _ := edgeFact(ifi.Block(), succ)
			lo, hi, hasLo, hasHi := intervalFromFact(f, isValue(v))
			if upd.Op == token.ADD && hasHi {
				li.maxSum, li.okSum, li.posSum = hi-s0, true, ifi.Pos()
				li.acc, li.accUpd = acc, upd
			}
			if upd.Op == token.SUB && hasLo {
				li.maxSum, li.okSum, li.posSum = s0-lo, true, ifi.Pos()
				li.acc, li.accUpd = acc, upd
			}
		}
	})
	return li
}

// isFailureBlock: the block returns an error / false without further branching.
func isFailureBlock(b *ssa.BasicBlock) bool {
	for hops := 0; hops < 3; hops++ {
		last := b.Instrs[len(b.Instrs)-1]
		switch t := last.(type) {
		case *ssa.Return:
			res := unspill(b, t)
			lastRes := res[len(res)-1]
			if bv, ok := constBool(lastRes); ok {
				return !bv
			}
			return !isNilConst(lastRes)
		case *ssa.Jump:
			b = b.Succs[0]
		default:
			return false
		}
	}
	return false
}

// intervalFromFact derives the interval of X allowed by one fact (comparison of X with a constant).
func intervalFromFact(f Fact, isX vpred) (lo, hi int64, hasLo, hasHi bool) {
	bin, ok := f.Atom.(*ssa.BinOp)
	if !ok {
		return
	}
	x, y, op := bin.X, bin.Y, bin.Op
	k, isK := constIntOf(y)
	if !isK {
		k, isK = constIntOf(x)
		if !isK {
			return
		}
		x = y
		switch op {
		case token.LSS:
			op = token.GTR
		case token.GTR:
			op = token.LSS
		case token.LEQ:
			op = token.GEQ
		case token.GEQ:
			op = token.LEQ
		}
	}
	if !isX(x) {
		return
	}
	holds := f.Holds
	switch op {
	case token.LSS:
		if holds {
			hi, hasHi = k-1, true
		} else {
			lo, hasLo = k, true
		}
	case token.LEQ:
		if holds {
			hi, hasHi = k, true
		} else {
			lo, hasLo = k+1, true
		}
	case token.GTR:
		if holds {
			lo, hasLo = k+1, true
		} else {
			hi, hasHi = k, true
		}
	case token.GEQ:
		if holds {
			lo, hasLo = k, true
		} else {
			hi, hasHi = k-1, true
		}
	}
	return
}

func checkC03(c *Ctx, r *Report) {
	r.Explanation = c03Explanation
	r.Trusted = []string{"go/ssa translation", "RFC 1035 s.2.3.4 limits (63, 255)"}
	dddReadersAgree(c, r, "C03.R3.ddd-readers-agree", "a name that holds a \\DDD above 255 behind an octet the printer has to escape prints as text that packs to other octets than the name itself")
	appendOriginWhole(c, r, "C03.R4.append-origin-whole")
	borrow(c, r, func(c *Ctx, r *Report) { generateEscapesKept(c, r, "C06.R4.generate-escapes-kept") }, "C06.R4.generate-escapes-kept", "C03.R3.generate-escapes-kept", 1, "the $GENERATE template reader hands an escaped backslash to the zone lexer as two octets", nil, "a name written `x\\\\.$` in a template loses its escape: the label separator behind it is swallowed and the generated owner has other labels than the text says")
	r.rule("C03.R1.total-limit", 3, "the largest accepted sum of (label length + 1) is 254 in UnpackDomainName, IsDomainName and packDomainName")
	r.rule("C03.R1.label-limit", 3, "the largest accepted label length is 63 in all three")
	for _, spec := range []struct{ name, kind string }{{"UnpackDomainName", "wire"}, {"IsDomainName", "text"}, {"packDomainName", "text"}} {
		fn := c.ssaFunc(spec.name)
		if fn == nil {
			r.cerr("C03.R1.total-limit", spec.name, "function not found")
			continue
		}
		r.fn(spec.name)
		li := nameLimits(c, fn, spec.kind)
		if !li.okSum {
			r.fail("C03.R1.total-limit", spec.name, c.pos(fn.Pos()), "%s enforces no limit on the total length of a name (no accumulator of label length + 1 is compared with a constant on a rejecting edge): names longer than 255 wire octets are accepted, which UnpackDomainName rejects", spec.name)
		} else {
			r.check(li.maxSum == 254, "C03.R1.total-limit", spec.name, c.pos(li.posSum), "sum(label+1) <= 254", "%s accepts names whose labels (each +1) sum up to %d, i.e. %d wire octets with the root; RFC 1035 allows 255 (sum <= 254)", spec.name, li.maxSum, li.maxSum+1)
		}
		if !li.okLabel {
			r.fail("C03.R1.label-limit", spec.name, c.pos(fn.Pos()), "%s enforces no label length limit (%s)", spec.name, li.detail)
		} else {
			r.check(li.maxLabel == 63, "C03.R1.label-limit", spec.name, c.pos(li.posLabel), "label <= 63", "%s accepts labels of up to %d octets; the length octet has room for 63", spec.name, li.maxLabel)
		}
	}
	c03EarlyExits(c, r)
	if v, ok := c.constInt("maxDomainNameWireOctets"); !ok || v != 255 {
		r.fail("C03.R1.total-limit", "maxDomainNameWireOctets", "", "maxDomainNameWireOctets = %d", v)
	}
	c03R2(c, r)
	c03R3(c, r)
	c03R4(c, r)
	c03SuffixIndex(c, r, "C03.R1.suffix-index")
	namesEscaped(c, r, "C03.R3.names-escaped", "the text form of the name is not the escaped form the parser and IsDomainName work on: text and wire forms of that field do not correspond")
	c03NameBuffers(c, r, "C03.R1.name-buffers")
	borrow(c, r, c04R3, "C04.R3.pointer-source", "C03.R1.pointer-written", 1, "the compression pointer is written exactly when a pointer target was found (pointer != -1, offset 0 included)", nil, "a name whose suffix was first written at offset 0 of the buffer loses that suffix: it packs as the labels before it followed by the root")
	fqdnTrailingRun(c, r, "C03.R4.fqdn-trailing-run")
	dddDigits(c, r, "C03.R2.ddd-digits")
	withNames := typesWithNames(c)
	borrowClause(c, r, c01R1, "C01.R1.pack-seq", "C03.R3.name-pack-errors", 28, "the pack method of every type with a domain name returns the name packer's error", func(k string) bool { return withNames[k] }, func(d string) bool {
		return strings.Contains(d, "error result") || strings.Contains(d, "not called") || strings.Contains(d, "not found")
	}, "a name that is not fully qualified, has an empty or over-long label or is over 255 octets is emitted in this record type instead of being refused")
	r.rule("C03.R4.label-scan", 2, "the backward scan over the backslashes before a dot can reach index 0")
	backslashScanReachesZero(c, r, "C03.R4.label-scan", []string{"NextLabel", "PrevLabel"}, "the label splitting of the text form disagrees with the wire labels for names that start with a backslash: label counts, RRSIG.Labels and the compression search of Len() are off by one label")
	absoluteValidated(c, r, "C03.R1.absolute-validated", "the zone parser emits names over the 255-octet limit that PackDomainName and IsDomainName refuse")
	originQualified(c, r, "C03.R4.origin-qualified", "with an origin written without the root dot every relative owner, every relative RDATA name and `@` come back not fully qualified, and Pack refuses the records the parser returned")
	absoluteResultGuarded(c, r, "C03.R1.absolute-guarded", "a name that IsDomainName refuses (empty label, 64-octet label, over 255 octets, dangling backslash) is accepted in that field and silently stored as the empty name")
	borrowClause(c, r, c01R1, "C01.R1.unpack-seq", "C03.R3.name-unpack-errors", 28, "the unpack method of every type with a domain name returns the name unpacker's error", func(k string) bool { return withNames[k] }, func(d string) bool {
		return strings.Contains(d, "error result") || strings.Contains(d, "not called") || strings.Contains(d, "not found")
	}, "a name over 255 octets, a reserved label type, an overrunning label or a pointer loop in that field unpacks without an error, as an empty name")
	borrow(c, r, c06R1, "C06.R1.absolute-names", "C03.R4.absolute-names", 30, "every name field a parse method sets ends up as toAbsoluteName(token, origin) on the success paths", nil, "a relative name in that field comes back not fully qualified and the packer refuses it")
	escapeFlagSet(c, r, "C03.R2.escape-flag-set")
	pointerLimitAdmitsOwnOutput(c, r, "C03.R1.pointer-limit")
	lexerKeepsEscaped(c, r, "C03.R3.lexer-keeps-escaped")
	round12(c, r, "C03")
}

func c03R2(c *Ctx, r *Report) {
	r.rule("C03.R2.sibling-rejects", 2, "packDomainName and IsDomainName both reject a leading dot and adjacent dots")
	r.rule("C03.R2.escape-accounting", 2, "escape sequences are accounted as 1 (\\c) or 3 (\\DDD) in step with the skip")
	for _, name := range []string{"packDomainName", "IsDomainName"} {
		fn := c.ssaFunc(name)
		if fn == nil {
			continue
		}
		var problems []string
		leading, double := false, false
		dotFlag, escBlock := dotFlagPhi(fn)
		idx := len(fn.Signature.Results().At(fn.Signature.Results().Len()-1).Name()) * 0
		_ = idx
		last := fn.Signature.Results().Len() - 1
		for _, rp := range returnPoints(fn, last) {
			v := rp.Results[last]
			fail := false
			if b, ok := constBool(v); ok {
				fail = !b
			} else {
				fail = !isNilConst(v)
			}
			if !fail {
				continue
			}
			// the refusal may be shared by several tests (`a || b`): each way into it is looked at on its own
			factSets := [][]Fact{rp.factsOf(fn)}
			if len(rp.Block.Preds) > 1 {
				for _, p := range rp.Block.Preds {
					factSets = append(factSets, factsOnEdge(fn, p, rp.Block))
				}
			}
			for _, facts := range factSets {
				for _, f := range facts {
					// i == 0
					if b, ok := f.Atom.(*ssa.BinOp); ok && b.Op == token.EQL && f.Holds {
						if k, isK := constIntOf(b.Y); isK && k == 0 {
							if _, isPhi := b.X.(*ssa.Phi); isPhi {
								// together with len(s) > 1
								for _, f2 := range facts {
									if matchGuard(f2, Guard{Op: "lt", A: isConstInt(1), B: callsFunc("builtin.len"), Holds: true}) {
										leading = true
									}
								}
							}
						}
					}
					// wasDot
					if phi, ok := f.Atom.(*ssa.Phi); ok && f.Holds && dotFlag[phi] {
						double = true
					}
				}
			}
		}
		if !leading {
			problems = append(problems, "a leading dot of a longer name is not rejected")
		}
		if !double {
			problems = append(problems, "two adjacent dots (an empty label) are not rejected")
		}
		// an escape sequence is label content: it clears the "previous character was a dot" flag on every
		// way through the backslash case (both escape forms), otherwise a label made of escapes only
		// (a.\@.b.) is taken for an empty label by one sibling and accepted by the other
		if len(dotFlag) > 0 && escBlock != nil {
			for flag := range dotFlag {
				for i, e := range flag.Edges {
					pred := flag.Block().Preds[i]
					if !(pred == escBlock || escBlock.Dominates(pred)) {
						continue
					}
					if ep, isPhi := e.(*ssa.Phi); isPhi && dotFlag[ep] && ep != flag && escBlock.Dominates(ep.Block()) {
						continue // a merge inside the escape case; its own edges are checked
					}
					if b, ok := constBool(e); !ok || b {
						problems = append(problems, fmt.Sprintf("%s: a way through the escape case leaves the previous-character-was-a-dot flag as it was: a label consisting of escapes only is reported as empty", c.pos(firstPos(pred))))
					}
				}
			}
		} else {
			problems = append(problems, "no previous-character-was-a-dot flag / escape case recognised")
		}
		r.check(len(problems) == 0, "C03.R2.sibling-rejects", name, c.pos(fn.Pos()), "leading dot, adjacent dots", "%s", strings.Join(problems, "; "))
	}
	// escape accounting (AST): in each function, in the branch guarded by isDDD(...) and its else, the two counters move together
	for _, spec := range []struct {
		fn   string
		a, b string // the two counters that must move in step
	}{{"IsDomainName", "i", "begin"}, {"packDomainName", "ls", "compOff"}} {
		fd := c.decl(spec.fn)
		if fd == nil {
			r.cerr("C03.R2.escape-accounting", spec.fn, "function not found")
			continue
		}
		var problems []string
		found := 0
		isDDDTest := func(st ast.Stmt) *ast.IfStmt {
			ifs, ok := st.(*ast.IfStmt)
			if !ok {
				return nil
			}
			call, ok := ast.Unparen(ifs.Cond).(*ast.CallExpr)
			if !ok || c.calleeName(call) != "isDDD" {
				return nil
			}
			return ifs
		}
		// the statement list the test stands in is walked once for either outcome, with the constants the locals
		// hold (skip := 1; if isDDD(..) { skip = 3 }; i += skip; begin += skip counts like the two-armed form)
		var walkList func(list []ast.Stmt, ddd bool, env, deltas map[string]int64)
		walkList = func(list []ast.Stmt, ddd bool, env, deltas map[string]int64) {
			val := func(e ast.Expr) (int64, bool) {
				if k, isK := c.exprConst(e); isK {
					return k, true
				}
				k, has := env[identName(e)]
				return k, has && identName(e) != ""
			}
			for _, s := range list {
				if ifs := isDDDTest(s); ifs != nil {
					if ddd {
						walkList(ifs.Body.List, ddd, env, deltas)
					} else if e, ok := ifs.Else.(*ast.BlockStmt); ok {
						walkList(e.List, ddd, env, deltas)
					}
					continue
				}
				switch st := s.(type) {
				case *ast.AssignStmt:
					if len(st.Lhs) != 1 || len(st.Rhs) != 1 || identName(st.Lhs[0]) == "" {
						continue
					}
					name := identName(st.Lhs[0])
					k, isK := val(st.Rhs[0])
					switch st.Tok {
					case token.DEFINE, token.ASSIGN:
						if isK {
							env[name] = k
						} else {
							delete(env, name)
						}
					case token.ADD_ASSIGN:
						if isK {
							deltas[name] += k
						}
					case token.SUB_ASSIGN:
						if isK {
							deltas[name] -= k
						}
					}
				case *ast.IncDecStmt:
					if st.Tok == token.INC {
						deltas[identName(st.X)]++
					} else {
						deltas[identName(st.X)]--
					}
				}
			}
		}
		var lists [][]ast.Stmt
		ast.Inspect(fd.Body, func(n ast.Node) bool {
			var list []ast.Stmt
			switch t := n.(type) {
			case *ast.BlockStmt:
				list = t.List
			case *ast.CaseClause:
				list = t.Body
			}
			for _, st := range list {
				if isDDDTest(st) != nil {
					lists = append(lists, list)
					found++
				}
			}
			return true
		})
		for _, list := range lists {
			for bi, ddd := range []bool{true, false} {
				deltas := map[string]int64{}
				walkList(list, ddd, map[string]int64{}, deltas)
				want := int64(3)
				if bi == 1 {
					want = 1
				}
				da, db := deltas[spec.a], deltas[spec.b]
				if da < 0 {
					da = -da
				}
				if db < 0 {
					db = -db
				}
				if da != want || db != want {
					form := `\DDD`
					if bi == 1 {
						form = `\c`
					}
					pos := "-"
					if len(list) > 0 {
						pos = c.pos(list[0].Pos())
					}
					problems = append(problems, fmt.Sprintf("%s: for the %s form %s moves by %d and %s by %d; both must move by %d (the escape's extra characters are not part of the label)", pos, form, spec.a, da, spec.b, db, want))
				}
			}
		}
		if found != 1 {
			problems = append(problems, fmt.Sprintf("%d isDDD branches", found))
		}
		r.check(len(problems) == 0, "C03.R2.escape-accounting", spec.fn, c.pos(fd.Pos()), "(3,3) and (1,1)", "%s", strings.Join(problems, "; "))
	}
}

// caseBytes collects the constant byte labels of the switch statements of fd whose tag is the identifier tagName.
func (c *Ctx) caseBytes(fd *ast.FuncDecl, tagName string) map[byte]bool {
	out := map[byte]bool{}
	ast.Inspect(fd.Body, func(n ast.Node) bool {
		sw, ok := n.(*ast.SwitchStmt)
		if !ok || sw.Tag == nil || identName(sw.Tag) != tagName {
			return true
		}
		for _, cl := range sw.Body.List {
			for _, e := range cl.(*ast.CaseClause).List {
				if k, ok := c.exprConst(e); ok && k >= 0 && k < 256 {
					out[byte(k)] = true
				}
			}
		}
		return false
	})
	return out
}

func c03R3(c *Ctx, r *Report) {
	r.rule("C03.R3.escape-closure", 3, "what the name printers emit unescaped is ordinary to the zone lexer and is neither '.' nor '@'")
	sp := c.decl("isDomainNameLabelSpecial")
	lx := c.decl("zlexer.Next")
	if sp == nil || lx == nil {
		r.cerr("C03.R3.escape-closure", "anchors", "isDomainNameLabelSpecial / zlexer.Next not found")
		return
	}
	// the special octets: isDomainNameLabelSpecial walked for each of the 256 values (a switch, a table, a chain)
	special := map[byte]bool{}
	if spFn := c.ssaFunc("isDomainNameLabelSpecial"); spFn != nil && len(spFn.Params) == 1 {
		x := &scalarExec{pkg: spFn.Pkg}
		for v := 0; v < 256; v++ {
			res := x.run(spFn, spFn.Blocks[0], 0, map[ssa.Value]int64{spFn.Params[0]: int64(v)}, 0)
			if res.Returned && len(res.Results) == 1 && res.Decided[0] && res.Results[0] == 1 {
				special[byte(v)] = true
			}
		}
	}
	// the octets the lexer gives a meaning of their own: the cases of its largest switch over octet constants
	lexer := map[byte]bool{}
	ast.Inspect(lx.Body, func(n ast.Node) bool {
		sw, ok := n.(*ast.SwitchStmt)
		if !ok || sw.Tag == nil {
			return true
		}
		cur := map[byte]bool{}
		for _, cl := range sw.Body.List {
			for _, e := range cl.(*ast.CaseClause).List {
				if k, ok := c.exprConst(e); ok && k >= 0 && k < 256 {
					if tv, has := c.Info.Types[e]; has {
						if bt, isB := tv.Type.Underlying().(*types.Basic); isB && (bt.Kind() == types.Uint8 || bt.Kind() == types.UntypedRune || bt.Kind() == types.Int32) {
							cur[byte(k)] = true
						}
					}
				}
			}
		}
		if len(cur) > len(lexer) {
			lexer = cur
		}
		return true
	})
	if len(special) < 5 || len(lexer) < 6 {
		r.cerr("C03.R3.escape-closure", "tables", "could not extract the character classes (special=%d lexer=%d)", len(special), len(lexer))
		return
	}
	must := map[byte]bool{'.': true, '@': true}
	for b := range lexer {
		must[b] = true
	}
	for _, name := range []string{"UnpackDomainName", "sprintName"} {
		fd := c.decl(name)
		if fd == nil {
			r.cerr("C03.R3.escape-closure", name, "function not found")
			continue
		}
		r.fn(name)
		// the printable range, read off the order comparisons of an octet with constants in the printer and the
		// helpers it calls (whatever the spelling: b < ' ' || b > '~', !(b >= 0x20 && b <= 0x7e), a switch ...): each
		// comparison cuts the octet values in two at a point; the cuts must be 0x20 and 0x7f
		var lo, hi int64 = -1, -1
		usesSpecial, usesEscape := false, false
		cuts := map[int64]bool{}
		if fnS := c.ssaFunc(name); fnS != nil {
			known := map[string]bool{"isDomainNameLabelSpecial": true, "escapeByte": true, "nextByte": true, "isDDD": true, "dddToByte": true}
			seenF := map[*ssa.Function]bool{}
			var visit func(f *ssa.Function, depth int)
			visit = func(f *ssa.Function, depth int) {
				if f == nil || seenF[f] || depth > 2 || len(f.Blocks) == 0 {
					return
				}
				seenF[f] = true
				for _, sub := range withAnon(f) {
					allInstrs(sub, func(in ssa.Instruction) {
						switch t := in.(type) {
						case *ssa.BinOp:
							var k int64
							var other ssa.Value
							var op = t.Op
							if kv, ok := constIntOf(t.Y); ok {
								k, other = kv, t.X
							} else if kv, ok := constIntOf(t.X); ok {
								k, other = kv, t.Y
								switch op { // K op b  ==  b op' K
								case token.LSS:
									op = token.GTR
								case token.GTR:
									op = token.LSS
								case token.LEQ:
									op = token.GEQ
								case token.GEQ:
									op = token.LEQ
								}
							} else {
								return
							}
							if cv, ok := other.(*ssa.Convert); ok {
								other = cv.X
							}
							if b, ok := other.Type().Underlying().(*types.Basic); !ok || b.Kind() != types.Uint8 {
								return
							}
							switch op {
							case token.LSS, token.GEQ:
								cuts[k] = true
							case token.LEQ, token.GTR:
								cuts[k+1] = true
							}
						case ssa.CallInstruction:
							cn := calleeNameSSA(t.Common())
							if cn == "isDomainNameLabelSpecial" {
								usesSpecial = true
							}
							if cn == "escapeByte" {
								usesEscape = true
							}
							if g := t.Common().StaticCallee(); g != nil && g.Pkg == f.Pkg && !known[cn] {
								visit(g, depth+1)
							}
						}
					})
				}
			}
			visit(fnS, 0)
		}
		if len(cuts) == 2 {
			var cs []int64
			for k := range cuts {
				cs = append(cs, k)
			}
			sort.Slice(cs, func(i, j int) bool { return cs[i] < cs[j] })
			lo, hi = cs[0], cs[1]-1
		} else if len(cuts) > 0 {
			var cs []string
			for k := range cuts {
				cs = append(cs, fmt.Sprintf("%#x", k))
			}
			sort.Strings(cs)
			r.check(false, "C03.R3.escape-closure", name, c.pos(fd.Pos()), "", "octets are compared with constants at the cut points %s; the printable range [0x20,0x7e] has the two cut points 0x20 and 0x7f", strings.Join(cs, ", "))
			continue
		}
		var problems []string
		if !usesSpecial || !usesEscape || lo < 0 {
			problems = append(problems, fmt.Sprintf("does not classify octets through isDomainNameLabelSpecial (%v), a printable range test (%v) and escapeByte (%v)", usesSpecial, lo >= 0, usesEscape))
		} else {
			var bad []string
			var ms []int
			for b := range must {
				ms = append(ms, int(b))
			}
			sort.Ints(ms)
			for _, bi := range ms {
				b := byte(bi)
				emittedRaw := int64(b) >= lo && int64(b) <= hi && !special[b]
				if emittedRaw {
					bad = append(bad, fmt.Sprintf("%q", rune(b)))
				}
			}
			if len(bad) > 0 {
				problems = append(problems, fmt.Sprintf("the octets %s are emitted unescaped although the zone lexer / name syntax treats them specially: the printed name would not read back as the same octets", strings.Join(bad, ", ")))
			}
			if lo != 0x20 || hi != 0x7e {
				problems = append(problems, fmt.Sprintf("printable range is [%#x,%#x], want [0x20,0x7e]", lo, hi))
			}
		}
		r.check(len(problems) == 0, "C03.R3.escape-closure", name, c.pos(fd.Pos()), fmt.Sprintf("%d special octets, %d lexer-structural octets covered", len(special), len(lexer)), "%s", strings.Join(problems, "; "))
	}
	// escapeByte emits \DDD with three decimal digits: table check of its two tables is value-level; here: it exists and is used
	r.check(c.decl("escapeByte") != nil, "C03.R3.escape-closure", "escapeByte", "", "present", "escapeByte not found")
}

func c03R4(c *Ctx, r *Report) {
	r.rule("C03.R4.fqdn-gate", 2, "packDomainName writes nothing unless IsFqdn(s); Fqdn = s | s+\".\"")
	fn := c.ssaFunc("packDomainName")
	if fn == nil {
		r.cerr("C03.R4.fqdn-gate", "packDomainName", "function not found")
		return
	}
	s, msg := paramOf(fn, "s"), paramOf(fn, "msg")
	g := Guard{Name: "IsFqdn(s)", Op: "call", A: func(v ssa.Value) bool {
		call, ok := v.(*ssa.Call)
		return ok && calleeNameSSA(&call.Call) == "IsFqdn" && call.Call.Args[0] == s
	}, Holds: true}
	var problems []string
	n := 0
	check := func(in ssa.Instruction) {
		n++
		if miss := guardsMissing(fn, in.Block(), []Guard{g}); len(miss) > 0 {
			problems = append(problems, fmt.Sprintf("%s: the message is written although the name was not established to be fully qualified by IsFqdn (a name ending in an escaped dot would be packed as garbage)", c.pos(in.Pos())))
		}
	}
	for _, a := range byteAccesses(fn) {
		if a.Write && a.Buf == msg {
			check(a.Instr)
		}
	}
	for _, cp := range callsIn(fn, "builtin.copy") {
		if sl, ok := cp.Common().Args[0].(*ssa.Slice); ok && sl.X == msg {
			check(cp.(ssa.Instruction))
		}
	}
	// also every success return with an advanced offset
	if n < 3 {
		problems = append(problems, fmt.Sprintf("only %d writes into msg seen", n))
	}
	r.check(len(problems) == 0, "C03.R4.fqdn-gate", "packDomainName", c.pos(fn.Pos()), fmt.Sprintf("%d writes behind IsFqdn(s)", n), "%s", strings.Join(uniqStrings(problems), "; "))
	if fq := c.ssaFunc("Fqdn"); fq == nil {
		r.cerr("C03.R4.fqdn-gate", "Fqdn", "function not found")
	} else {
		var ps []string
		for _, rp := range returnPoints(fq, 0) {
			v := rp.Results[0]
			facts := rp.factsOf(fq)
			isFq := false
			for _, f := range facts {
				if call, ok := f.Atom.(*ssa.Call); ok && calleeNameSSA(&call.Call) == "IsFqdn" && f.Holds {
					isFq = true
				}
			}
			if v == fq.Params[0] {
				if !isFq {
					ps = append(ps, "s is returned unchanged without IsFqdn(s)")
				}
			} else if b, ok := v.(*ssa.BinOp); ok && b.Op == token.ADD && b.X == fq.Params[0] {
				if cst, ok := b.Y.(*ssa.Const); !ok || cst.Value.ExactString() != `"."` {
					ps = append(ps, "something other than \".\" is appended")
				}
				if isFq {
					ps = append(ps, "a dot is appended to an already fully qualified name")
				}
			} else {
				ps = append(ps, fmt.Sprintf("returns %v", v))
			}
		}
		r.check(len(ps) == 0, "C03.R4.fqdn-gate", "Fqdn", c.pos(fq.Pos()), "s | s+\".\"", "%s", strings.Join(ps, "; "))
	}
}

// naturalLoop returns the blocks of the natural loop(s) headed by h.
func naturalLoop(h *ssa.BasicBlock) map[*ssa.BasicBlock]bool {
	in := map[*ssa.BasicBlock]bool{h: true}
	var stack []*ssa.BasicBlock
	for _, p := range h.Preds {
		if h.Dominates(p) && !in[p] {
			in[p] = true
			stack = append(stack, p)
		}
	}
	for len(stack) > 0 {
		b := stack[len(stack)-1]
		stack = stack[:len(stack)-1]
		for _, p := range b.Preds {
			if !in[p] {
				in[p] = true
				stack = append(stack, p)
			}
		}
	}
	return in
}

// c03EarlyExits: a text-side name walker that leaves its label loop before the end of the name without
// rejecting it (the compression-pointer exit of packDomainName) has not added the remaining labels to its
// running length; such an exit must be behind a total-length test that measures the remainder.
func c03EarlyExits(c *Ctx, r *Report) {
	r.rule("C03.R1.early-exit", 2, "every accepting way out of the label loop other than its own end-of-name condition is behind a total-length test that measures the unscanned remainder")
	for _, name := range []string{"IsDomainName", "packDomainName"} {
		fn := c.ssaFunc(name)
		if fn == nil {
			r.cerr("C03.R1.early-exit", name, "function not found")
			continue
		}
		li := nameLimits(c, fn, "text")
		if li.acc == nil {
			// reported by C03.R1.total-limit
			r.ok("C03.R1.early-exit", name, c.pos(fn.Pos()), "no accumulator (see C03.R1.total-limit)")
			continue
		}
		h := li.acc.Block()
		loop := naturalLoop(h)
		var problems []string
		exits, covered := 0, 0
		for b := range loop {
			for _, s := range b.Succs {
				if loop[s] || isFailureBlock(s) {
					continue
				}
				if b == h {
					continue // the loop's own condition: the whole name was scanned
				}
				exits++
				// tests made on the way out (one branch rejects) belong to the exit
				for hops := 0; hops < 4; hops++ {
					if _, isIf := s.Instrs[len(s.Instrs)-1].(*ssa.If); !isIf {
						break
					}
					f0, f1 := isFailureBlock(s.Succs[0]), isFailureBlock(s.Succs[1])
					if f0 == f1 {
						break
					}
					if f0 {
						s = s.Succs[1]
					} else {
						s = s.Succs[0]
					}
				}
				facts := factsAt(fn, s)
				ok, rawLen := false, false
				for _, f := range facts {
					bin, isBin := f.Atom.(*ssa.BinOp)
					if !isBin {
						continue
					}
					for _, v := range []ssa.Value{bin.X, bin.Y} {
						if _, isK := constIntOf(v); isK {
							continue
						}
						_, hi, _, hasHi := intervalFromFact(f, isValue(v))
						if !hasHi || hi < 254 || hi > 255 {
							continue
						}
						sl := sliceOf(v)
						if !(sl[li.acc] || sl[li.accUpd]) {
							continue
						}
						// the remainder is measured in wire octets (escape-aware), not in presentation characters
						if anyIn(sl, callsFunc("domainNameLen", "escapedNameLen")) {
							ok = true
						} else if anyIn(sl, callsFunc("builtin.len")) {
							rawLen = true
						}
					}
				}
				if ok {
					covered++
				} else if rawLen {
					problems = append(problems, fmt.Sprintf("%s: the total-length test on this way out measures the unscanned remainder in presentation characters (len), not in wire octets: every escape in it is counted as 2 or 4 octets, so a legal name close to 255 octets is refused when - and only when - it is compressed", c.pos(b.Instrs[len(b.Instrs)-1].Pos())))
				} else {
					problems = append(problems, fmt.Sprintf("%s: the label loop is left for %s without rejecting the name and without a total-length test that includes the labels not scanned yet: a name longer than 255 wire octets is accepted on this way out", c.pos(b.Instrs[len(b.Instrs)-1].Pos()), c.pos(firstPos(s))))
				}
			}
		}
		sort.Strings(problems)
		r.check(len(problems) == 0, "C03.R1.early-exit", name, c.pos(fn.Pos()), fmt.Sprintf("%d early accepting exit(s), %d covered", exits, covered), "%s", strings.Join(problems, "; "))
	}
}

func firstPos(b *ssa.BasicBlock) token.Pos {
	for _, in := range b.Instrs {
		if in.Pos().IsValid() {
			return in.Pos()
		}
	}
	return token.NoPos
}

// dotFlagPhi finds the loop-carried boolean that is set to true in the '.' case of the character switch
// (wasDot) and the block of the backslash case.
func dotFlagPhi(fn *ssa.Function) (map[*ssa.Phi]bool, *ssa.BasicBlock) {
	var dotBlock, escBlock *ssa.BasicBlock
	allInstrs(fn, func(in ssa.Instruction) {
		ifi, ok := in.(*ssa.If)
		if !ok {
			return
		}
		cmp, ok := ifi.Cond.(*ssa.BinOp)
		if !ok || cmp.Op != token.EQL {
			return
		}
		k, isK := constIntOf(cmp.Y)
		if !isK {
			return
		}
		if _, isCall := cmp.X.(*ssa.Call); isCall {
			return
		}
		switch k {
		case '.':
			if dotBlock == nil {
				dotBlock = ifi.Block().Succs[0]
			}
		case '\\':
			if escBlock == nil {
				escBlock = ifi.Block().Succs[0]
			}
		}
	})
	family := map[*ssa.Phi]bool{}
	if dotBlock == nil {
		return family, escBlock
	}
	isBool := func(v ssa.Value) bool {
		b, ok := v.Type().Underlying().(*types.Basic)
		return ok && b.Kind() == types.Bool
	}
	allInstrs(fn, func(in ssa.Instruction) {
		phi, ok := in.(*ssa.Phi)
		if !ok || !isBool(phi) {
			return
		}
		for i, e := range phi.Edges {
			pred := phi.Block().Preds[i]
			if bv, isB := constBool(e); isB && bv && (pred == dotBlock || dotBlock.Dominates(pred)) {
				family[phi] = true
			}
		}
	})
	for changed := true; changed; {
		changed = false
		allInstrs(fn, func(in ssa.Instruction) {
			phi, ok := in.(*ssa.Phi)
			if !ok || !isBool(phi) {
				return
			}
			for _, e := range phi.Edges {
				if ep, isPhi := e.(*ssa.Phi); isPhi {
					if family[ep] && !family[phi] {
						family[phi], changed = true, true
					}
					if family[phi] && !family[ep] {
						family[ep], changed = true, true
					}
				}
			}
		})
	}
	return family, escBlock
}
