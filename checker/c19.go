package main

import (
	"fmt"
	"go/token"
	"strings"

	"golang.org/x/tools/go/ssa"
)

func init() { register("C19", true, false, checkC19) }

const c19Explanation = `C19 quantifies over the values the label helpers return for every name; that equality is arithmetic on a runtime string and is not decided. What is decided are structural necessary conditions of it, each of which a realistic slip breaks: (R1) the escape-parity scan of NextLabel and PrevLabel: the backward scan over the backslashes in front of a dot starts at the octet directly before the dot, steps down by one, enters its body for every index down to 0, and the dot is skipped exactly when the number of backslashes is odd - the test on the scan's end position is evaluated in the parity domain for both parities of the dot's index and of the run length; (R2) the derived helpers are built on that scan and on nothing else: Split and CountLabel walk the name by feeding NextLabel's result back into NextLabel from offset 0 (one index / one count per step, ending on its end flag), CompareDomainName compares label texts only through equal(), and IsSubDomain is CompareDomainName(parent, child) == CountLabel(parent); (R3) equal() folds exactly A-Z, both operands alike, octet by octet; (R4) Fqdn returns s or s+".", behind IsFqdn; IsFqdn tests the parity of the backslash run directly before the final dot; CanonicalName is the octet-wise A-Z fold of Fqdn(s). NOT decided: that Split's offsets, SplitDomainName's slices, PrevLabel's counting and CompareDomainName's paired index walk are right for every arrangement of dots and escapes; dnsutil.AddOrigin / TrimDomainName.`

func checkC19(c *Ctx, r *Report) {
	r.Explanation = c19Explanation
	r.Trusted = []string{"go/ssa translation"}
	c19Scan(c, r)
	c19Positions(c, r)
	c19Derived(c, r)
	splitRootOnly(c, r, "C19.R2.split-root-only")
	noOctetShortcut(c, r, "C19.R2.no-octet-shortcut")
	scanExitsOnly(c, r, "C19.R1.scan-exits", []string{"NextLabel", "PrevLabel"}, "CountLabel, Split, CompareDomainName and IsSubDomain lose or invent a label boundary")
	r.rule("C19.R3.equal-fold", 1, "equal() folds exactly A-Z, both operands alike, before comparing octets")
	foldRule(c, r, "C19.R3.equal-fold")
	// R4
	borrow(c, r, c03R4, "C03.R4.fqdn-gate", "C19.R4.fqdn", 1, "Fqdn returns its argument when IsFqdn, and the argument plus a dot otherwise", func(k string) bool { return k == "Fqdn" }, "making a name fully qualified changes more than appending the root")
	fqdnTrailingRun(c, r, "C19.R4.fqdn-trailing-run")
	r.rule("C19.R4.canonical-fold", 1, "CanonicalName lower-cases exactly A-Z, octet by octet, and nothing else")
	foldRangeRule(c, r, "C19.R4.canonical-fold", "CanonicalName", "the canonical form of a name differs from the name in more than the case of its ASCII letters (or leaves a capital in place)")
	c19Canonical(c, r)
	prevStep(c, r, "C19.R1.prev-step")
	addOriginGate(c, r, "C19.R4.addorigin-gate")
	r.rule("C19.R4.splitdomainname-gate", 1, "SplitDomainName decides whether the final dot is the root label with IsFqdn(s)")
	fqdnDecidedByIsFqdn(c, r, "C19.R4.splitdomainname-gate", c.ssaFunc("SplitDomainName"), "SplitDomainName", "a fully qualified name whose last label ends in an escaped backslash keeps the root dot in that label: the labels disagree with IsFqdn / Fqdn and with the wire labels")
	noCaseChange(c, r, "C19.R4.trim-keeps-case")
	symmetricTests(c, r, "C19.R2.symmetric-tests", []string{"CompareDomainName", "equal"})
	dotRemovedBehindIsFqdn(c, r, "C19.R4.dot-removed-behind-isfqdn")
	trimEmptyOrigin(c, r, "C19.R6.trim-empty-origin")
	round12(c, r, "C19")
	round13(c, r, "C19")
}

// c19Scan: R1.
func c19Scan(c *Ctx, r *Report) {
	r.rule("C19.R1.label-scan", 2, "the backward scan over the backslashes before a dot can reach index 0")
	backslashScanReachesZero(c, r, "C19.R1.label-scan", []string{"NextLabel", "PrevLabel"}, "the label boundary after a name's leading backslashes is missed: label count, split offsets and next/previous-label stepping disagree with the wire labels")
	r.rule("C19.R1.scan-start", 2, "the scan starts at the octet directly before the dot")
	r.rule("C19.R1.parity", 2, "a dot is skipped exactly when an odd number of backslashes precedes it")
	for _, fname := range []string{"NextLabel", "PrevLabel"} {
		fn := c.ssaFunc(fname)
		if fn == nil {
			r.cerr("C19.R1.parity", fname, "function not found")
			continue
		}
		r.fn(fname)
		// the scan counter: a phi stepping down by one inside a loop that tests s[j] == '\\'
		var scan *ssa.Phi
		allInstrs(fn, func(in ssa.Instruction) {
			phi, ok := in.(*ssa.Phi)
			if !ok {
				return
			}
			down := false
			for _, e := range phi.Edges {
				if b, ok := e.(*ssa.BinOp); ok && b.X == ssa.Value(phi) {
					if k, isK := constIntOf(b.Y); isK && ((b.Op == token.SUB && k == 1) || (b.Op == token.ADD && k == -1)) {
						down = true
					}
				}
			}
			if !down {
				return
			}
			for _, b := range fn.Blocks {
				if !phi.Block().Dominates(b) {
					continue
				}
				for _, x := range b.Instrs {
					if bin, ok := x.(*ssa.BinOp); ok && (bin.Op == token.EQL || bin.Op == token.NEQ) {
						if k, isK := constIntOf(bin.Y); isK && k == '\\' && anyIn(sliceOf(bin.X), isValue(phi)) {
							scan = phi
						}
					}
				}
			}
		})
		if scan == nil {
			// the forward form: a run counter carried along the walk
			if found, problems := forwardRunCounter(c, fn); found {
				r.check(forwardParityOK(fn), "C19.R1.parity", fname, c.pos(fn.Pos()), "a boundary only for an even run", "a label boundary is reported for a dot without the run of backslashes in front of it being known to be even: escaped dots are taken for label separators (or the other way round)")
				r.check(len(problems) == 0, "C19.R1.scan-start", fname, c.pos(fn.Pos()), "forward scan: run counter +1 on a backslash, 0 on every other octet", "the counter of backslashes in front of the current octet is wrong on some way round the loop (%s): after an escaped dot the next dot or backslash is judged with the stale count, so the parity flips and label boundaries are lost or invented", strings.Join(problems, "; "))
				continue
			}
			r.undecided("C19.R1.scan-start", fname, c.pos(fn.Pos()), "no backward scan over backslashes found")
			continue
		}
		// scan start: the edge from outside the loop is dot-1
		var dot ssa.Value
		startOK := false
		for i, e := range scan.Edges {
			if scan.Block().Dominates(scan.Block().Preds[i]) {
				continue
			}
			if b, ok := e.(*ssa.BinOp); ok && b.Op == token.SUB {
				if k, isK := constIntOf(b.Y); isK && k == 1 {
					dot, startOK = b.X, true
				}
			}
			if b, ok := e.(*ssa.BinOp); ok && b.Op == token.ADD {
				if k, isK := constIntOf(b.Y); isK && k == -1 {
					dot, startOK = b.X, true
				}
			}
		}
		// the dot index must be the index of the character that was compared with '.'
		dotIsDot := false
		if dot != nil {
			for _, f := range factsAt(fn, scan.Block()) {
				bin, ok := f.Atom.(*ssa.BinOp)
				if !ok {
					continue
				}
				if k, isK := constIntOf(bin.Y); isK && k == '.' && anyIn(sliceOf(bin.X), isValue(dot)) && ((bin.Op == token.EQL && f.Holds) || (bin.Op == token.NEQ && !f.Holds)) {
					dotIsDot = true
				}
			}
		}
		r.check(startOK && dotIsDot, "C19.R1.scan-start", fname, c.pos(scan.Pos()), "j := i-1 at a dot", "the scan over the backslashes does not start at the octet directly before the dot (start recognised: %v, at a position that holds a dot: %v): the run that decides whether the dot is escaped is mis-measured by one", startOK, dotIsDot)
		if dot == nil {
			continue
		}
		// a counter of the run kept beside the scan index: 0 on entry, +1 on every way round (its parity is the run's)
		var counter *ssa.Phi
		for _, in := range scan.Block().Instrs {
			p, ok := in.(*ssa.Phi)
			if !ok {
				break
			}
			if p == scan {
				continue
			}
			isCounter := true
			for i, e := range p.Edges {
				if scan.Block().Dominates(scan.Block().Preds[i]) {
					b, ok := e.(*ssa.BinOp)
					k, isK := int64(0), false
					if ok {
						k, isK = constIntOf(b.Y)
					}
					if !ok || b.Op != token.ADD || b.X != ssa.Value(p) || !isK || k != 1 {
						isCounter = false
					}
				} else if k, isK := constIntOf(e); !isK || k != 0 {
					isCounter = false
				}
			}
			if isCounter {
				counter = p
			}
		}
		// parity: the If that follows the scan, on an expression over (scan, dot) % 2 compared with 0
		var test *ssa.BinOp
		allInstrs(fn, func(in ssa.Instruction) {
			bin, ok := in.(*ssa.BinOp)
			if !ok || (bin.Op != token.EQL && bin.Op != token.NEQ) {
				return
			}
			if !anyIn(sliceOf(bin.X), isValue(scan)) && !(counter != nil && anyIn(sliceOf(bin.X), isValue(counter))) {
				return
			}
			if anyIn(sliceOf(bin.X), func(v ssa.Value) bool {
				b, ok := v.(*ssa.BinOp)
				return ok && (b.Op == token.REM || b.Op == token.AND)
			}) {
				test = bin
			}
		})
		if test == nil {
			r.undecided("C19.R1.parity", fname, c.pos(fn.Pos()), "no parity test on the scan's end position found")
			continue
		}
		k0, isK := constIntOf(test.Y)
		// a count of turns is never negative: its parity may be compared with 1 as well
		countOnly := counter != nil && !anyIn(sliceOf(test.X), isValue(scan)) && !anyIn(sliceOf(test.X), isValue(dot))
		if isK && k0 == 1 && countOnly {
			// fine
		} else if !isK || k0 != 0 {
			r.undecided("C19.R1.parity", fname, c.pos(test.Pos()), "the parity is compared with %v: `x %% 2 == 1` is false for negative x in Go, so only comparisons with 0 are evaluated in the parity domain", test.Y)
			continue
		}
		// which edge of the If skips the dot (goes on scanning) and which accepts it (returns / counts)?
		var iff *ssa.If
		for _, ref := range *test.Referrers() {
			if x, ok := ref.(*ssa.If); ok {
				iff = x
			}
		}
		if iff == nil {
			r.undecided("C19.R1.parity", fname, c.pos(test.Pos()), "the parity test does not decide a branch")
			continue
		}
		// evaluate in Z/2: parity(dot) = pd, run length parity = pk, scan = dot - 1 - k
		var par func(v ssa.Value, pd, pk int) (int, bool)
		par = func(v ssa.Value, pd, pk int) (int, bool) {
			switch {
			case v == ssa.Value(scan):
				return ((pd-1-pk)%2 + 2) % 2, true
			case v == dot:
				return pd, true
			case counter != nil && v == ssa.Value(counter):
				return pk, true
			}
			switch t := v.(type) {
			case *ssa.Const:
				if k, ok := constIntOf(t); ok {
					return int(((k % 2) + 2) % 2), true
				}
			case *ssa.BinOp:
				x, okx := par(t.X, pd, pk)
				y, oky := par(t.Y, pd, pk)
				switch t.Op {
				case token.ADD, token.SUB:
					if okx && oky {
						return (x + y) % 2, true
					}
				case token.REM:
					if k, isK := constIntOf(t.Y); isK && k == 2 && okx {
						return x, true
					}
				case token.AND:
					if k, isK := constIntOf(t.Y); isK && k == 1 && okx {
						return x, true
					}
				case token.MUL:
					if okx && oky {
						return (x * y) % 2, true
					}
				}
			case *ssa.Convert:
				return par(t.X, pd, pk)
			}
			return 0, false
		}
		// the accepting edge: the one from which a Return or a store/append of the position is reached without going
		// back to the outer loop header... decided structurally: the successor that does not lead straight back to the
		// enclosing scan (the `continue`) is the accepting one. The skipping successor's first instruction block jumps to
		// the outer loop's increment.
		good := true
		var detail []string
		for pd := 0; pd < 2; pd++ {
			for pk := 0; pk < 2; pk++ {
				x, ok := par(test.X, pd, pk)
				if !ok {
					good = false
					detail = append(detail, "not evaluable")
					continue
				}
				holds := (int64(x) == k0) == (test.Op == token.EQL)
				// holds -> Succs[0]. Escaped (pk odd) must go to the skipping successor.
				taken := iff.Block().Succs[1]
				if holds {
					taken = iff.Block().Succs[0]
				}
				skips := !c19Accepts(taken)
				if skips != (pk == 1) {
					good = false
					detail = append(detail, fmt.Sprintf("dot at %s index, %s run: %s", map[int]string{0: "an even", 1: "an odd"}[pd], map[int]string{0: "even", 1: "odd"}[pk], map[bool]string{true: "skipped", false: "taken as a label boundary"}[skips]))
				}
			}
		}
		r.check(good, "C19.R1.parity", fname, c.pos(test.Pos()), "skipped iff the run is odd", "the escape-parity test is wrong (%s): an escaped dot is taken for a label boundary or a real one is skipped, so the helpers disagree with the wire labels for names with escaped dots or backslashes", strings.Join(uniqStrings(detail), "; "))
	}
}

// c19Accepts: the successor of the parity test that treats the dot as a label boundary: within a few straight-line
// blocks it returns, or decrements / tests the label counter; the skipping successor jumps back to the loop latch.
func c19Accepts(b *ssa.BasicBlock) bool {
	seen := map[*ssa.BasicBlock]bool{}
	for d := 0; d < 3 && b != nil && !seen[b]; d++ {
		seen[b] = true
		for _, in := range b.Instrs {
			switch t := in.(type) {
			case *ssa.Return:
				return true
			case *ssa.BinOp:
				// n-- (PrevLabel counts the boundary)
				if k, isK := constIntOf(t.Y); isK && k == 1 && t.Op == token.SUB {
					if _, isPhi := t.X.(*ssa.Phi); isPhi {
						// the loop index itself is also decremented on the skipping path; only a counter that is later
						// compared with 0 in this block counts
						for _, ref := range *t.Referrers() {
							if cmp, ok := ref.(*ssa.BinOp); ok && cmp.Op == token.EQL {
								return true
							}
						}
					}
				}
			}
		}
		if len(b.Succs) != 1 {
			return false
		}
		b = b.Succs[0]
	}
	return false
}

// c19Derived: R2.
func c19Derived(c *Ctx, r *Report) {
	r.rule("C19.R2.walk", 2, "Split and CountLabel walk the name from offset 0 by feeding NextLabel's result back into NextLabel, one step per label, until its end flag")
	next := c.ssaFunc("NextLabel")
	for _, fname := range []string{"Split", "CountLabel"} {
		fn := c.ssaFunc(fname)
		if fn == nil || next == nil {
			r.cerr("C19.R2.walk", fname, "function not found")
			continue
		}
		r.fn(fname)
		var ps []string
		calls := callsInFn(fn, next)
		// one step in the loop; a three-clause loop makes the first step in front of it (for off, end :=
		// NextLabel(s, 0); !end; off, end = NextLabel(s, off)): then that step starts at 0 and the step in the loop
		// goes on from where the step before it ended
		inCycle := func(b *ssa.BasicBlock) bool {
			for _, sx := range b.Succs {
				if reach(sx, nil, nil)[b] {
					return true
				}
			}
			return false
		}
		isStep := map[ssa.Value]bool{}
		nLoop, zeroFeeds := 0, 0
		for _, ci := range calls {
			isStep[ci.(*ssa.Call)] = true
			if inCycle(ci.(*ssa.Call).Block()) {
				nLoop++
			}
		}
		if nLoop != 1 || len(calls) > 2 {
			ps = append(ps, fmt.Sprintf("%d calls of NextLabel (%d in the loop), want one in the loop (and at most a first step in front of it)", len(calls), nLoop))
		}
		for _, ci := range calls {
			call := ci.(*ssa.Call)
			off := call.Call.Args[1]
			if k, isK := constIntOf(off); isK && k == 0 && !inCycle(call.Block()) {
				zeroFeeds++ // the first step, made once
			} else if phi, ok := off.(*ssa.Phi); !ok {
				ps = append(ps, "the offset handed to NextLabel is not the loop-carried offset")
				continue
			} else {
				fedBack := false
				for _, e := range phi.Edges {
					if k, isK := constIntOf(e); isK && k == 0 {
						zeroFeeds++
						continue
					}
					if ex, ok := e.(*ssa.Extract); ok && isStep[ex.Tuple] && ex.Index == 0 {
						if ex.Tuple == ssa.Value(call) {
							fedBack = true
						}
						continue
					}
					ps = append(ps, "the offset handed to NextLabel is neither 0 nor the offset the step before returned")
				}
				if !fedBack {
					ps = append(ps, "the offset NextLabel returns is not what the next step starts from")
				}
			}
			// the end flag decides the return
			endUsed := false
			for _, ref := range *call.Referrers() {
				if ex, ok := ref.(*ssa.Extract); ok && ex.Index == 1 {
					// directly, or carried to the loop condition (for end := false; !end; ...)
					for _, b := range fn.Blocks {
						if ifi, isIf := b.Instrs[len(b.Instrs)-1].(*ssa.If); isIf && sliceOf(ifi.Cond)[ex] {
							endUsed = true
						}
					}
				}
			}
			if !endUsed {
				ps = append(ps, "the end flag of NextLabel does not end the walk")
			}
			if call.Call.Args[0] != ssa.Value(fn.Params[0]) {
				ps = append(ps, "NextLabel is not given the name itself")
			}
		}
		if zeroFeeds != 1 {
			ps = append(ps, "the walk does not start at offset 0")
		}
		r.check(len(ps) == 0, "C19.R2.walk", fname, c.pos(fn.Pos()), "NextLabel from 0, fed back", "%s: %s no longer visits exactly the label starts NextLabel finds", strings.Join(ps, "; "), fname)
	}
	r.rule("C19.R2.compare", 2, "CompareDomainName compares label texts through equal() only; IsSubDomain is CompareDomainName(parent, child) == CountLabel(parent)")
	if fn := c.ssaFunc("CompareDomainName"); fn != nil {
		r.fn("CompareDomainName")
		var ps []string
		nEq := 0
		allInstrs(fn, func(in ssa.Instruction) {
			switch t := in.(type) {
			case *ssa.Call:
				if calleeNameSSA(&t.Call) == "equal" {
					nEq++
				}
			case *ssa.BinOp:
				// a direct comparison of two non-constant strings bypasses the case folding
				if t.Op == token.EQL || t.Op == token.NEQ {
					_, kx := t.X.(*ssa.Const)
					_, ky := t.Y.(*ssa.Const)
					if isStringValue(t.X) && !kx && !ky {
						ps = append(ps, fmt.Sprintf("%s: labels compared with %s instead of equal()", c.pos(t.Pos()), t.Op))
					}
				}
			}
		})
		if nEq == 0 {
			ps = append(ps, "no call of equal()")
		}
		r.check(len(ps) == 0, "C19.R2.compare", "CompareDomainName", c.pos(fn.Pos()), fmt.Sprintf("%d equal() comparisons", nEq), "%s: the common-suffix count is no longer ASCII-case-insensitive", strings.Join(ps, "; "))
	} else {
		r.cerr("C19.R2.compare", "CompareDomainName", "function not found")
	}
	if fn := c.ssaFunc("IsSubDomain"); fn != nil {
		r.fn("IsSubDomain")
		okShape := false
		allInstrs(fn, func(in ssa.Instruction) {
			bin, ok := in.(*ssa.BinOp)
			if !ok || bin.Op != token.EQL {
				return
			}
			cx, okx := bin.X.(*ssa.Call)
			cy, oky := bin.Y.(*ssa.Call)
			if !okx || !oky {
				return
			}
			if calleeNameSSA(&cx.Call) == "CountLabel" {
				cx, cy = cy, cx
			}
			if calleeNameSSA(&cx.Call) == "CompareDomainName" && calleeNameSSA(&cy.Call) == "CountLabel" {
				parent, child := ssa.Value(fn.Params[0]), ssa.Value(fn.Params[1])
				sameTwo := (cx.Call.Args[0] == parent && cx.Call.Args[1] == child) || (cx.Call.Args[0] == child && cx.Call.Args[1] == parent)
				if sameTwo && cy.Call.Args[0] == parent {
					okShape = true
				}
			}
		})
		// ... and nothing else decides: every return hands out that comparison
		allInstrs(fn, func(in ssa.Instruction) {
			ret, ok := in.(*ssa.Return)
			if !ok || len(ret.Results) != 1 {
				return
			}
			bin, isB := ret.Results[0].(*ssa.BinOp)
			if !isB || bin.Op != token.EQL {
				okShape = false
			}
		})
		r.check(okShape, "C19.R2.compare", "IsSubDomain", c.pos(fn.Pos()), "common labels == labels of the parent", "IsSubDomain is not `CompareDomainName(parent, child) == CountLabel(parent)`: the sub-domain test no longer says that every label of the parent is a trailing label of the child")
	} else {
		r.cerr("C19.R2.compare", "IsSubDomain", "function not found")
	}
}

func isStringValue(v ssa.Value) bool {
	return strings.HasSuffix(v.Type().Underlying().String(), "string")
}

// c19Canonical: CanonicalName is the fold of Fqdn(s): nothing else is applied to the name.
func c19Canonical(c *Ctx, r *Report) {
	r.rule("C19.R4.canonical-shape", 1, "CanonicalName(s) is asciiLower(Fqdn(s))")
	fn := c.ssaFunc("CanonicalName")
	if fn == nil {
		r.cerr("C19.R4.canonical-shape", "CanonicalName", "function not found")
		return
	}
	r.fn("CanonicalName")
	ok := false
	for _, b := range fn.Blocks {
		ret, isRet := b.Instrs[len(b.Instrs)-1].(*ssa.Return)
		if !isRet || len(ret.Results) != 1 {
			continue
		}
		outer, isCall := ret.Results[0].(*ssa.Call)
		if !isCall || len(outer.Call.Args) != 1 {
			continue
		}
		inner, isCall := outer.Call.Args[0].(*ssa.Call)
		if !isCall {
			continue
		}
		if calleeNameSSA(&inner.Call) == "Fqdn" && inner.Call.Args[0] == ssa.Value(fn.Params[0]) && outer.Call.StaticCallee() != nil && outer.Call.StaticCallee().Pkg == fn.Pkg {
			ok = true
		}
	}
	r.check(ok, "C19.R4.canonical-shape", "CanonicalName", c.pos(fn.Pos()), "fold(Fqdn(s))", "CanonicalName is no longer a module-internal case fold applied to Fqdn(s): the canonical form may differ from the name in more than the root label and the case of ASCII letters")
}

// c19Positions: what the scans hand out. NextLabel looks at every position but the last (a dot there ends the name,
// it does not start a label) and returns the position after an unescaped dot; PrevLabel returns the position after
// the n-th unescaped dot from the right.
func c19Positions(c *Ctx, r *Report) {
	r.rule("C19.R1.accept-position", 2, "NextLabel / PrevLabel return the position directly after the unescaped dot they stop at")
	r.rule("C19.R1.scan-range", 1, "NextLabel examines the positions offset .. len(s)-2 (the last octet never starts a label)")
	for _, fname := range []string{"NextLabel", "PrevLabel"} {
		fn := c.ssaFunc(fname)
		if fn == nil {
			r.cerr("C19.R1.accept-position", fname, "function not found")
			continue
		}
		// the dot position: a value v with a dominating fact s[v] == '.'
		isDotPos := func(blk *ssa.BasicBlock, v ssa.Value) bool {
			for _, f := range factsAt(fn, blk) {
				bin, ok := f.Atom.(*ssa.BinOp)
				if !ok {
					continue
				}
				if k, isK := constIntOf(bin.Y); isK && k == '.' && ((bin.Op == token.EQL && f.Holds) || (bin.Op == token.NEQ && !f.Holds)) {
					var idx ssa.Value
					switch t := bin.X.(type) {
					case *ssa.Index:
						idx = t.Index
					case *ssa.Lookup:
						idx = t.Index
					}
					if idx == v {
						return true
					}
				}
			}
			return false
		}
		n := 0
		var bad []string
		for _, b := range fn.Blocks {
			ret, ok := b.Instrs[len(b.Instrs)-1].(*ssa.Return)
			if !ok || len(ret.Results) != 2 {
				continue
			}
			if v, isB := constBool(ret.Results[1]); !isB || v {
				continue
			}
			// only the returns made at a dot (PrevLabel's `n == 0` shortcut returns len(s))
			add, isAdd := ret.Results[0].(*ssa.BinOp)
			atDot := false
			for _, f := range factsAt(fn, b) {
				if bin, ok := f.Atom.(*ssa.BinOp); ok {
					if k, isK := constIntOf(bin.Y); isK && k == '.' {
						atDot = true
					}
				}
			}
			if !atDot {
				continue
			}
			n++
			okPos := false
			if isAdd && add.Op == token.ADD {
				if k, isK := constIntOf(add.Y); isK && k == 1 && isDotPos(b, add.X) {
					okPos = true
				}
			}
			if !okPos {
				bad = append(bad, fmt.Sprintf("%s returns %s", c.pos(ret.Pos()), describeValue(ret.Results[0])))
			}
		}
		if n == 0 {
			r.undecided("C19.R1.accept-position", fname, c.pos(fn.Pos()), "no return at an unescaped dot found")
		} else {
			r.check(len(bad) == 0, "C19.R1.accept-position", fname, c.pos(fn.Pos()), "dot + 1", "%s, not the position after the dot: every label start the helper reports is off, and so are the split offsets and labels derived from it", strings.Join(bad, "; "))
		}
	}
	// scan range of NextLabel
	fn := c.ssaFunc("NextLabel")
	if fn == nil {
		return
	}
	s := fn.Params[0]
	found := false
	for _, b := range fn.Blocks {
		iff, ok := b.Instrs[len(b.Instrs)-1].(*ssa.If)
		if !ok {
			continue
		}
		bin, ok := iff.Cond.(*ssa.BinOp)
		if !ok || bin.Op != token.LSS {
			continue
		}
		phi, isPhi := bin.X.(*ssa.Phi)
		if !isPhi || phi.Block() != b {
			continue
		}
		// the counter starts at the offset parameter and steps up by one
		fromOffset := false
		for _, e := range phi.Edges {
			if e == ssa.Value(fn.Params[1]) {
				fromOffset = true
			}
		}
		if !fromOffset {
			continue
		}
		found = true
		env := newLinEnv()
		want := env.lenOfAny(s)
		want.c--
		got := env.lin(bin.Y)
		r.check(got.String() == want.String(), "C19.R1.scan-range", "NextLabel", c.pos(iff.Pos()), "i < len(s)-1", "the scan runs while i < %s instead of i < len(s)-1: a trailing dot is taken for the start of another label (or the last label boundary is not looked at), so Split and CountLabel report one label too many or too few for fully qualified names", describeValue(bin.Y))
	}
	if !found {
		r.undecided("C19.R1.scan-range", "NextLabel", c.pos(fn.Pos()), "the loop over the positions from offset upwards was not found")
	}
}
