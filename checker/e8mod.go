package main

import (
	"go/token"
	"go/types"

	"golang.org/x/tools/go/ssa"
	"golang.org/x/tools/go/ssa/ssautil"
)

// Type-based may-write oracle for struct fields, used by the memory versions of the bounds prover.
//
// In Go (without unsafe or reflection, neither of which package dns applies to its parser and lexer state) the field
// f of a struct type T changes only through
//   (a) a store whose address is derived from a FieldAddr of (T, f) by further field / array-element selection,
//   (b) a store of a whole value of a type that contains T by value,
//   (c) a store through a pointer that was obtained from &x.f and then escaped as a value ("address taken").
// A call may write the cell x.f when its callee, or anything that callee may call, contains such a store. Callees
// outside the module are assumed to write the field only when an argument can carry a module type to them (an
// interface whose dynamic value is not a plain buffer / basic value, a func value, a pointer to a module struct), in
// which case they may call back into the module.

type modOracle struct {
	prog      *ssa.Program
	pkg       *ssa.Package
	fns       []*ssa.Function
	direct    map[*ssa.Function]map[*types.Var]bool
	anyWrite  map[*ssa.Function]bool // contains a call the oracle cannot follow
	callees   map[*ssa.Function][]*ssa.Function
	addrTaken map[*types.Var]bool
	byMethod  map[string][]*ssa.Function
	summary   map[*ssa.Function]*modSummary
}

type modSummary struct {
	all    bool
	fields map[*types.Var]bool
}

var theModOracle *modOracle

func newModOracle(c *Ctx) *modOracle {
	m := &modOracle{prog: c.Prog, pkg: c.SSA, direct: map[*ssa.Function]map[*types.Var]bool{}, anyWrite: map[*ssa.Function]bool{},
		callees: map[*ssa.Function][]*ssa.Function{}, addrTaken: map[*types.Var]bool{}, byMethod: map[string][]*ssa.Function{},
		summary: map[*ssa.Function]*modSummary{}}
	for f := range ssautil.AllFunctions(c.Prog) {
		if f.Pkg != c.SSA || len(f.Blocks) == 0 {
			continue
		}
		m.fns = append(m.fns, f)
		if f.Signature.Recv() != nil {
			m.byMethod[f.Name()] = append(m.byMethod[f.Name()], f)
		}
	}
	for _, f := range m.fns {
		m.scan(f)
	}
	return m
}

func fieldVarOf(fa *ssa.FieldAddr) *types.Var {
	pt, ok := fa.X.Type().Underlying().(*types.Pointer)
	if !ok {
		return nil
	}
	st, ok := pt.Elem().Underlying().(*types.Struct)
	if !ok || fa.Field >= st.NumFields() {
		return nil
	}
	return st.Field(fa.Field)
}

// fieldsByValue adds every field of the structs contained by value in t.
func fieldsByValue(t types.Type, out map[*types.Var]bool, depth int) {
	if depth > 6 {
		return
	}
	switch u := t.Underlying().(type) {
	case *types.Struct:
		for i := 0; i < u.NumFields(); i++ {
			out[u.Field(i)] = true
			fieldsByValue(u.Field(i).Type(), out, depth+1)
		}
	case *types.Array:
		fieldsByValue(u.Elem(), out, depth+1)
	}
}

func (m *modOracle) scan(f *ssa.Function) {
	d := map[*types.Var]bool{}
	m.direct[f] = d
	for _, b := range f.Blocks {
		for _, in := range b.Instrs {
			switch t := in.(type) {
			case *ssa.Store:
				// (a) the chain of selections under the address
				a := t.Addr
				for depth := 0; depth < 8; depth++ {
					switch x := a.(type) {
					case *ssa.FieldAddr:
						if v := fieldVarOf(x); v != nil {
							d[v] = true
						}
						a = x.X
						continue
					case *ssa.IndexAddr:
						if _, isArr := x.X.Type().Underlying().(*types.Pointer); isArr {
							a = x.X
							continue
						}
					}
					break
				}
				// (b) a whole struct / array of structs
				fieldsByValue(t.Val.Type(), d, 0)
			case *ssa.FieldAddr:
				// (c) address taken: any use other than load, store-through, or a further selection
				v := fieldVarOf(t)
				if v == nil {
					continue
				}
				for _, ref := range *t.Referrers() {
					switch r := ref.(type) {
					case *ssa.UnOp:
					case *ssa.FieldAddr:
					case *ssa.IndexAddr:
					case *ssa.Store:
						if r.Val == ssa.Value(t) && !storedForReadingOnly(r) {
							m.addrTaken[v] = true
						}
					case *ssa.DebugRef:
					case ssa.CallInstruction:
						// &x.f passed as the receiver / an argument of a call: the callee writes through the pointer.
						// Methods of the field's own type change the field's contents (handled as a write of the field by
						// this function), but the pointer does not outlive the call for the value-semantics buffers in
						// use here; to stay sound the field is marked address-taken unless the callee is a static method
						// on the field's own type outside the module (bytes.Buffer, strings.Builder, sync.Mutex...).
						cc := r.Common()
						if sc := cc.StaticCallee(); sc != nil && sc.Pkg != m.pkg && sc.Signature.Recv() != nil && len(cc.Args) > 0 && cc.Args[0] == ssa.Value(t) {
							d[v] = true
						} else {
							m.addrTaken[v] = true
							d[v] = true
						}
					default:
						m.addrTaken[v] = true
					}
				}
			case ssa.CallInstruction:
				cs, any := m.scanCall(t.Common())
				m.callees[f] = append(m.callees[f], cs...)
				if any {
					m.anyWrite[f] = true
				}
			}
		}
	}
	for _, a := range f.AnonFuncs {
		// closures created here may be run by anything this function calls: fold them in
		m.callees[f] = append(m.callees[f], a)
	}
}

// carriesModule: a value of this static type (with this SSA value, when known) may give code outside the module a
// way to call or write into module state.
func (m *modOracle) carriesModule(v ssa.Value, t types.Type, depth int) bool {
	if depth > 5 {
		return true
	}
	switch u := t.Underlying().(type) {
	case *types.Basic:
		return false
	case *types.Slice:
		return m.carriesModule(nil, u.Elem(), depth+1)
	case *types.Array:
		return m.carriesModule(nil, u.Elem(), depth+1)
	case *types.Pointer:
		if n, ok := u.Elem().(*types.Named); ok && n.Obj().Pkg() != nil && n.Obj().Pkg() != m.pkg.Pkg {
			// a pointer to a type of another package (bytes.Buffer, big.Int ...): its methods cannot name module types,
			// unless it stores interfaces / funcs
			return m.carriesModule(nil, u.Elem(), depth+1)
		}
		return true
	case *types.Struct:
		for i := 0; i < u.NumFields(); i++ {
			if m.carriesModule(nil, u.Field(i).Type(), depth+1) {
				return true
			}
		}
		return false
	case *types.Interface:
		if mi, ok := v.(*ssa.MakeInterface); ok {
			return m.carriesModule(mi.X, mi.X.Type(), depth+1)
		}
		if k, ok := v.(*ssa.Const); ok && k.Value == nil {
			return false
		}
		return true
	case *types.Map:
		return m.carriesModule(nil, u.Key(), depth+1) || m.carriesModule(nil, u.Elem(), depth+1)
	}
	return true // funcs, chans, type parameters
}

// scanCall: the module functions a call may enter, and whether it may run code the oracle cannot follow.
func (m *modOracle) scanCall(cc *ssa.CallCommon) (callees []*ssa.Function, any bool) {
	if cc.IsInvoke() {
		// every module method of that name whose receiver implements the interface
		it, _ := cc.Value.Type().Underlying().(*types.Interface)
		for _, g := range m.byMethod[cc.Method.Name()] {
			rt := g.Signature.Recv().Type()
			if it == nil || types.Implements(rt, it) || types.Implements(types.NewPointer(rt), it) {
				callees = append(callees, g)
			}
		}
		// an implementation outside the module (bufio.Reader, net.Conn ...) writes module fields only by calling back
		// into module values it was given; those are reached through their own interfaces, whose module
		// implementations of the same method name are included above. Anything else about it is opaque: treat an
		// interface declared by the module itself with no module implementation as unknown.
		if len(callees) == 0 {
			if n, ok := cc.Value.Type().(*types.Named); ok && n.Obj().Pkg() == m.pkg.Pkg {
				any = true
			}
		}
		return
	}
	if _, ok := cc.Value.(*ssa.Builtin); ok {
		return
	}
	if g := cc.StaticCallee(); g != nil {
		inModule := g.Pkg == m.pkg || (g.Origin() != nil && g.Origin().Pkg == m.pkg) || (g.Parent() != nil && g.Parent().Pkg == m.pkg)
		if inModule {
			return []*ssa.Function{g}, false
		}
		// outside the module: writes module fields only by calling back through what it is given
		for _, a := range cc.Args {
			if m.carriesModule(a, a.Type(), 0) {
				return nil, true
			}
		}
		return
	}
	if mc, ok := cc.Value.(*ssa.MakeClosure); ok {
		if g, ok := mc.Fn.(*ssa.Function); ok {
			return []*ssa.Function{g}, false
		}
	}
	return nil, true // a func value
}

func (m *modOracle) summaryOf(f *ssa.Function) *modSummary {
	if s, ok := m.summary[f]; ok {
		return s
	}
	s := &modSummary{fields: map[*types.Var]bool{}}
	seen := map[*ssa.Function]bool{}
	var walk func(g *ssa.Function)
	walk = func(g *ssa.Function) {
		if seen[g] || s.all {
			return
		}
		seen[g] = true
		d, known := m.direct[g]
		if !known {
			if len(g.Blocks) == 0 {
				s.all = true
				return
			}
			m.scan(g) // instantiations and wrappers created on demand
			d = m.direct[g]
		}
		if m.anyWrite[g] {
			s.all = true
			return
		}
		for v := range d {
			s.fields[v] = true
		}
		for _, h := range m.callees[g] {
			walk(h)
		}
	}
	walk(f)
	m.summary[f] = s
	return s
}

// callMayWrite: may this call change one of the fields (the selections along the path of a cell)?
func (m *modOracle) callMayWrite(caller *ssa.Function, cc *ssa.CallCommon, fields []*types.Var) bool {
	for _, v := range fields {
		if v == nil || m.addrTaken[v] {
			return true
		}
	}
	cs, any := m.scanCall(cc)
	if any {
		return true
	}
	for _, g := range cs {
		s := m.summaryOf(g)
		if s.all {
			return true
		}
		for _, v := range fields {
			if s.fields[v] {
				return true
			}
		}
	}
	return false
}

// pathFields: the field variables selected along path (".i.j") from a pointer to struct type.
func pathFields(base ssa.Value, path string) []*types.Var {
	t := base.Type()
	if p, ok := t.Underlying().(*types.Pointer); ok {
		t = p.Elem()
	}
	var out []*types.Var
	i := 0
	for i < len(path) {
		if path[i] != '.' {
			return append(out, nil)
		}
		j := i + 1
		n := 0
		for j < len(path) && path[j] != '.' {
			n = n*10 + int(path[j]-'0')
			j++
		}
		st, ok := t.Underlying().(*types.Struct)
		if !ok || n >= st.NumFields() {
			return append(out, nil)
		}
		out = append(out, st.Field(n))
		t = st.Field(n).Type()
		i = j
	}
	return out
}

// storedForReadingOnly: the pointer is put into an element of a local array / slice literal (a table of the record's
// sections, say) that nothing but this function sees, and every pointer taken out of that table again is only read
// through. Such a pointer is never written through and never leaves the function: the field is not "address taken".
func storedForReadingOnly(st *ssa.Store) bool {
	ia, ok := st.Addr.(*ssa.IndexAddr)
	if !ok {
		return false
	}
	al, ok := ia.X.(*ssa.Alloc)
	if !ok {
		return false
	}
	return containerReadOnly(al, 0)
}

func containerReadOnly(v ssa.Value, depth int) bool {
	if depth > 6 || v.Referrers() == nil {
		return false
	}
	for _, ref := range *v.Referrers() {
		switch r := ref.(type) {
		case *ssa.DebugRef:
		case *ssa.IndexAddr:
			if r.X != v {
				return false
			}
			for _, rr := range *r.Referrers() {
				switch e := rr.(type) {
				case *ssa.DebugRef:
				case *ssa.Store:
					if e.Addr != ssa.Value(r) {
						return false
					}
				case *ssa.UnOp:
					if e.Op != token.MUL || !pointerOnlyRead(e, depth+1) {
						return false
					}
				default:
					return false
				}
			}
		case *ssa.Slice:
			if r.X != v || !containerReadOnly(r, depth+1) {
				return false
			}
		case *ssa.Call:
			if n := calleeNameSSA(&r.Call); n != "builtin.len" && n != "builtin.cap" {
				return false
			}
		case *ssa.Range:
		case *ssa.UnOp:
			// the whole array loaded (ranging over an array literal): its elements, taken out by index
			if r.Op != token.MUL || r.Referrers() == nil {
				return false
			}
			for _, rr := range *r.Referrers() {
				switch e := rr.(type) {
				case *ssa.DebugRef:
				case *ssa.Index:
					if !pointerOnlyRead(e, depth+1) {
						return false
					}
				default:
					return false
				}
			}
		default:
			return false
		}
	}
	return true
}

func pointerOnlyRead(p ssa.Value, depth int) bool {
	if _, isPtr := p.Type().Underlying().(*types.Pointer); !isPtr {
		return true
	}
	if depth > 6 || p.Referrers() == nil {
		return false
	}
	for _, ref := range *p.Referrers() {
		switch r := ref.(type) {
		case *ssa.DebugRef:
		case *ssa.UnOp:
			if r.Op != token.MUL {
				return false
			}
		case *ssa.BinOp:
			if r.Op != token.EQL && r.Op != token.NEQ {
				return false
			}
		case *ssa.Phi:
			if !pointerOnlyRead(r, depth+1) {
				return false
			}
		default:
			return false
		}
	}
	return true
}
