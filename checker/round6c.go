package main

import (
	"fmt"
	"go/constant"
	"go/token"
	"go/types"
	"sort"
	"strings"

	"golang.org/x/tools/go/ssa"
)

// Rules added after the sixth round of independent breaking changes (part 3).

// listenerNotLeaked: a listener / packet connection that ListenAndServe opened is either installed in the server
// (and served) or closed: no error return is reachable from a successful listen call without a Close on it.
func listenerNotLeaked(c *Ctx, r *Report, rule string) {
	fn := c.ssaFunc("Server.ListenAndServe")
	if fn == nil {
		r.cerr(rule, "Server.ListenAndServe", "function not found")
		return
	}
	r.fn("Server.ListenAndServe")
	n := 0
	for _, ci := range callsIn(fn, "listenTCP", "listenUDP") {
		call, ok := ci.(*ssa.Call)
		if !ok {
			continue
		}
		n++
		var lst, errV ssa.Value
		for _, ref := range *call.Referrers() {
			if ex, ok := ref.(*ssa.Extract); ok {
				if ex.Index == 0 {
					lst = ex
				} else {
					errV = ex
				}
			}
		}
		// success edge
		var start *ssa.BasicBlock
		for _, b := range fn.Blocks {
			iff, ok := b.Instrs[len(b.Instrs)-1].(*ssa.If)
			if !ok {
				continue
			}
			bin, ok := iff.Cond.(*ssa.BinOp)
			if !ok || bin.X != errV {
				continue
			}
			if bin.Op == token.NEQ {
				start = b.Succs[1]
			} else if bin.Op == token.EQL {
				start = b.Succs[0]
			}
		}
		construct := fmt.Sprintf("ListenAndServe:%s#%d", calleeNameSSA(&call.Call), n)
		if lst == nil || start == nil {
			r.undecided(rule, construct, c.pos(call.Pos()), "the listener value or the success edge was not found")
			continue
		}
		derived := func(v ssa.Value) bool {
			for o := range sliceOf(v) {
				if o == lst {
					return true
				}
			}
			return false
		}
		takes := func(in ssa.Instruction) bool {
			switch t := in.(type) {
			case *ssa.Store:
				// installed in the server
				if fa, ok := t.Addr.(*ssa.FieldAddr); ok && (fieldNameOf(fa) == "Listener" || fieldNameOf(fa) == "PacketConn") {
					return true
				}
			case *ssa.Call:
				if t.Call.IsInvoke() && t.Call.Method.Name() == "Close" && derived(t.Call.Value) {
					return true
				}
				if strings.HasSuffix(calleeNameSSA(&t.Call), ").Close") && len(t.Call.Args) > 0 && derived(t.Call.Args[0]) {
					return true
				}
			}
			return false
		}
		var bad []string
		seen := map[*ssa.BasicBlock]bool{}
		stack := []*ssa.BasicBlock{start}
		for len(stack) > 0 {
			b := stack[len(stack)-1]
			stack = stack[:len(stack)-1]
			if seen[b] {
				continue
			}
			seen[b] = true
			hit := false
			for _, in := range b.Instrs {
				if takes(in) {
					hit = true
					break
				}
				if ret, ok := in.(*ssa.Return); ok {
					bad = append(bad, c.pos(ret.Pos()))
				}
			}
			if !hit {
				stack = append(stack, b.Succs...)
			}
		}
		sort.Strings(bad)
		r.check(len(bad) == 0, rule, construct, c.pos(call.Pos()), "installed or closed", "the return at %s leaves the socket that was just opened neither installed in the server nor closed: a refused start keeps the port bound, and a retry fails with 'address already in use'", strings.Join(bad, ", "))
	}
	if n == 0 {
		r.undecided(rule, "Server.ListenAndServe", c.pos(fn.Pos()), "no listen call found")
	}
}

// envelopeBuffer: an envelope of a transfer may be as large as a DNS message can be, whatever the transport's usual
// receive size: every buffer that Transfer.ReadMsg (or a function of the package it calls) allocates and hands to a
// read has MaxMsgSize octets, or exactly the length the two-octet prefix announced.
func envelopeBuffer(c *Ctx, r *Report, rule string) {
	fn := c.ssaFunc("Transfer.ReadMsg")
	max, okK := c.constInt("MaxMsgSize")
	if fn == nil || !okK {
		r.cerr(rule, "Transfer.ReadMsg", "function or MaxMsgSize not found")
		return
	}
	r.fn("Transfer.ReadMsg")
	var fns []*ssa.Function
	seen := map[*ssa.Function]bool{}
	var collect func(f *ssa.Function, depth int)
	collect = func(f *ssa.Function, depth int) {
		if f == nil || seen[f] || depth > 2 || len(f.Blocks) == 0 || f.Pkg != fn.Pkg {
			return
		}
		seen[f] = true
		fns = append(fns, f)
		allInstrs(f, func(in ssa.Instruction) {
			if ci, ok := in.(ssa.CallInstruction); ok {
				name := calleeNameSSA(ci.Common())
				// only the readers: what is done with the message afterwards allocates for other purposes
				if strings.Contains(name, "Read") {
					collect(ci.Common().StaticCallee(), depth+1)
				}
			}
		})
	}
	collect(fn, 0)
	isRead := func(name string) bool {
		return name == "(Conn).Read" || name == "io.ReadFull" || name == "(net.Conn).Read" || name == "io.ReadAtLeast" || name == "(io.Reader).Read"
	}
	n := 0
	var bad []string
	for _, f := range fns {
		allInstrs(f, func(in ssa.Instruction) {
			call, ok := in.(*ssa.Call)
			if !ok || !isRead(calleeNameSSA(&call.Call)) {
				return
			}
			for _, a := range call.Call.Args {
				if _, isSl := a.Type().Underlying().(*types.Slice); !isSl {
					continue
				}
				for o := range sliceOf(a) {
					var ln ssa.Value
					var constLen int64 = -1
					switch t := o.(type) {
					case *ssa.MakeSlice:
						ln = t.Len
						if k, isK := constIntOf(t.Len); isK {
							constLen = k
						}
					case *ssa.Alloc:
						if at, isArr := t.Type().(*types.Pointer).Elem().Underlying().(*types.Array); isArr {
							if bt, ok := at.Elem().Underlying().(*types.Basic); ok && bt.Kind() == types.Uint8 {
								constLen = at.Len()
							} else {
								continue
							}
						} else {
							continue
						}
					default:
						continue
					}
					if constLen == 2 {
						// the two-octet length prefix read by hand (io.ReadFull + binary.BigEndian.Uint16): not an envelope
						isPrefix := false
						allInstrs(f, func(x ssa.Instruction) {
							if c2, ok := x.(*ssa.Call); ok && strings.HasSuffix(calleeNameSSA(&c2.Call), "bigEndian).Uint16") && len(c2.Call.Args) > 0 {
								if sliceOf(c2.Call.Args[len(c2.Call.Args)-1])[o] {
									isPrefix = true
								}
							}
						})
						if isPrefix {
							continue
						}
					}
					n++
					if constLen >= max {
						continue
					}
					if constLen < 0 && ln != nil {
						// the announced length: a 16-bit value widened
						from16 := anyIn(sliceOf(ln), func(v ssa.Value) bool {
							bt, ok := v.Type().Underlying().(*types.Basic)
							return ok && bt.Kind() == types.Uint16
						})
						onlyWidened := true
						if cv, isCv := ln.(*ssa.Convert); isCv {
							if bt, ok := cv.X.Type().Underlying().(*types.Basic); !ok || bt.Kind() != types.Uint16 {
								onlyWidened = false
							}
						} else {
							onlyWidened = false
						}
						if from16 && onlyWidened {
							continue
						}
					}
					what := fmt.Sprintf("%d octets", constLen)
					if constLen < 0 {
						what = describeValue(ln) + " octets"
					}
					bad = append(bad, fmt.Sprintf("%s reads into a buffer of %s allocated at %s", c.pos(call.Pos()), what, c.pos(o.(ssa.Instruction).Pos())))
				}
			}
		})
	}
	sort.Strings(bad)
	r.check(n > 0 && len(bad) == 0, rule, "Transfer.ReadMsg:buffer", c.pos(fn.Pos()), fmt.Sprintf("%d receive buffers, each MaxMsgSize (%d) or the announced length", n, max), "an envelope is read into a buffer smaller than a DNS message can be (%s): a valid envelope larger than the transport's default receive size (an IXFR answer over UDP above 512 octets) is cut and the transfer fails", strings.Join(uniqStrings(bad), "; "))
}

// perEnvelopeDeadline: the read deadline of a transfer is re-armed for every envelope (ReadTimeout bounds the wait for
// one envelope, not the whole transfer): the SetReadDeadline call sits inside the receive loop of inAxfr and of inIxfr.
func perEnvelopeDeadline(c *Ctx, r *Report, rule string) {
	for _, name := range []string{"Transfer.inAxfr", "Transfer.inIxfr"} {
		var fn *ssa.Function
		for _, f := range c.allFuncs() {
			if fnDisplay(f) == name {
				fn = f
			}
		}
		if fn == nil {
			r.cerr(rule, name, "function not found")
			continue
		}
		r.fn(name)
		n, inLoop := 0, 0
		deadlineNames := []string{"(Transfer).SetReadDeadline", "(*Transfer).SetReadDeadline", "(Conn).SetReadDeadline", "(net.Conn).SetReadDeadline"}
		armsDeadline := func(g *ssa.Function) bool {
			// on every path: the call dominates all returns
			if g == nil || len(g.Blocks) == 0 {
				return false
			}
			for _, ci := range callsIn(g, deadlineNames...) {
				all := true
				for _, b := range g.Blocks {
					if _, isRet := b.Instrs[len(b.Instrs)-1].(*ssa.Return); isRet && !(ci.(ssa.Instruction).Block() == b || ci.(ssa.Instruction).Block().Dominates(b)) {
						all = false
					}
				}
				if all {
					return true
				}
			}
			return false
		}
		for _, sub := range withAnon(fn) {
			allInstrs(sub, func(in ssa.Instruction) {
				ci, ok := in.(ssa.CallInstruction)
				if !ok {
					return
				}
				name := calleeNameSSA(ci.Common())
				direct := false
				for _, d := range deadlineNames {
					if name == d {
						direct = true
					}
				}
				// a reader of the package that arms the deadline itself on every path counts as the call
				if !direct && !(ci.Common().StaticCallee() != nil && ci.Common().StaticCallee().Pkg == fn.Pkg && armsDeadline(ci.Common().StaticCallee())) {
					return
				}
				n++
				blk := in.Block()
				for s := range reach(blk, nil, nil) {
					for _, p := range s.Succs {
						if p == blk {
							inLoop++
						}
					}
				}
			})
		}
		r.check(n > 0 && inLoop > 0, rule, name, c.pos(fn.Pos()), "re-armed in the loop", "%s arms the read deadline outside its receive loop (%d calls, %d inside a loop): ReadTimeout then bounds the whole transfer, and a valid transfer whose envelopes are paced or slowly consumed is cut off with an i/o timeout", name, n, inLoop)
	}
}

// envelopeIDCheck: every envelope's header ID is compared with the query's ID; the header ID itself (the MAC does
// not cover it), not a value taken from elsewhere in the envelope.
func envelopeIDCheck(c *Ctx, r *Report, rule string) {
	for _, name := range []string{"Transfer.inAxfr", "Transfer.inIxfr"} {
		var fn *ssa.Function
		for _, f := range c.allFuncs() {
			if fnDisplay(f) == name {
				fn = f
			}
		}
		if fn == nil {
			r.cerr(rule, name, "function not found")
			continue
		}
		r.fn(name)
		n, good := 0, 0
		var bad []string
		for _, sub := range withAnon(fn) {
			allInstrs(sub, func(in ssa.Instruction) {
				bin, ok := in.(*ssa.BinOp)
				if !ok || (bin.Op != token.NEQ && bin.Op != token.EQL) {
					return
				}
				isHdrID := func(v ssa.Value) bool {
					ld, ok := v.(*ssa.UnOp)
					if !ok {
						return false
					}
					fa, ok := ld.X.(*ssa.FieldAddr)
					return ok && fieldNameOf(fa) == "Id"
				}
				xi, yi := isHdrID(bin.X), isHdrID(bin.Y)
				if !xi && !yi {
					return
				}
				n++
				if xi && yi {
					good++
				} else {
					bad = append(bad, fmt.Sprintf("%s compares %s with %s", c.pos(bin.Pos()), describeValue(bin.X), describeValue(bin.Y)))
				}
			})
		}
		r.check(n > 0 && len(bad) == 0, rule, name, c.pos(fn.Pos()), fmt.Sprintf("%d header-ID comparisons", good), "the ID check does not compare the two header IDs (%s): an envelope whose header ID was changed on the wire, or that answers another query, is accepted as part of the transfer", strings.Join(bad, "; "))
	}
}

// freshHash: hashFromAlgorithm hands out a hash state of its own for every call (signers and verifiers run
// concurrently): the value returned comes from an allocation or a constructor call, never from a package-level variable.
func freshHash(c *Ctx, r *Report, rule string) {
	fn := c.ssaFunc("hashFromAlgorithm")
	if fn == nil {
		r.cerr(rule, "hashFromAlgorithm", "function not found")
		return
	}
	r.fn("hashFromAlgorithm")
	var bad []string
	n := 0
	for _, b := range fn.Blocks {
		ret, ok := b.Instrs[len(b.Instrs)-1].(*ssa.Return)
		if !ok || len(ret.Results) != 3 {
			continue
		}
		if k, isK := ret.Results[0].(*ssa.Const); isK && k.Value == nil {
			continue
		}
		n++
		for _, l := range phiLeaves(ret.Results[0]) {
			for {
				switch t := l.(type) {
				case *ssa.MakeInterface:
					l = t.X
					continue
				case *ssa.ChangeInterface:
					l = t.X
					continue
				case *ssa.ChangeType:
					l = t.X
					continue
				}
				break
			}
			switch t := l.(type) {
			case *ssa.Call:
				// a constructor call (crypto.Hash.New, sha1.New): its result is this call's own
			case *ssa.UnOp:
				if al, isAlloc := t.X.(*ssa.Alloc); isAlloc {
					// a composite literal built here: every pointer stored into it is allocated here too
					for _, ref := range *al.Referrers() {
						fa, ok := ref.(*ssa.FieldAddr)
						if !ok {
							continue
						}
						for _, r2 := range *fa.Referrers() {
							if st, ok := r2.(*ssa.Store); ok && st.Addr == fa {
								if _, fresh := st.Val.(*ssa.Alloc); !fresh {
									if _, isCall := st.Val.(*ssa.Call); !isCall {
										bad = append(bad, fmt.Sprintf("%s returns a value holding %s, which is not allocated by this call", c.pos(ret.Pos()), describeValue(st.Val)))
									}
								}
							}
						}
					}
					continue
				}
				bad = append(bad, fmt.Sprintf("%s returns state read from %s", c.pos(ret.Pos()), describeValue(t.X)))
			case *ssa.Alloc:
				// &T{...} / new(T) built here (a state held by value behind a pointer): what is stored into it must be
				// this call's own as well
				for _, ref := range *t.Referrers() {
					fa, ok := ref.(*ssa.FieldAddr)
					if !ok {
						continue
					}
					for _, r2 := range *fa.Referrers() {
						if st, ok := r2.(*ssa.Store); ok && st.Addr == fa {
							_, fresh := st.Val.(*ssa.Alloc)
							_, isCall := st.Val.(*ssa.Call)
							_, isK := st.Val.(*ssa.Const)
							if !fresh && !isCall && !isK {
								bad = append(bad, fmt.Sprintf("%s returns a value holding %s, which is not allocated by this call", c.pos(ret.Pos()), describeValue(st.Val)))
							}
						}
					}
				}
			default:
				bad = append(bad, fmt.Sprintf("%s returns %s, which is not allocated by this call", c.pos(ret.Pos()), describeValue(l)))
			}
		}
	}
	if n == 0 {
		r.undecided(rule, "hashFromAlgorithm", c.pos(fn.Pos()), "no return of a hash found")
		return
	}
	r.check(len(bad) == 0, rule, "hashFromAlgorithm", c.pos(fn.Pos()), "a fresh hash per call", "%s: concurrent Sign / Verify calls share one hash state, mix their inputs and produce signatures that do not verify", strings.Join(uniqStrings(bad), "; "))
}

// sigOwnerRoot: SIG.Sign's fixed offsets (the RDLENGTH patch at len(message)+1+2+2+4) assume the SIG's owner is the
// root, one octet: the owner is set to "." unconditionally before the SIG is packed.
func sigOwnerRoot(c *Ctx, r *Report, rule string) {
	fn := c.ssaFunc("SIG.Sign")
	if fn == nil {
		r.cerr(rule, "SIG.Sign", "function not found")
		return
	}
	r.fn("SIG.Sign")
	var pack ssa.Instruction
	for _, ci := range callsIn(fn, "(Msg).PackBuffer", "PackRR") {
		if pack == nil {
			pack = ci.(ssa.Instruction)
		}
	}
	if pack == nil {
		r.undecided(rule, "SIG.Sign", c.pos(fn.Pos()), "no pack call found")
		return
	}
	isRootName := func(in ssa.Instruction) bool {
		st, ok := in.(*ssa.Store)
		if !ok {
			return false
		}
		fa, ok := st.Addr.(*ssa.FieldAddr)
		if !ok || fieldNameOf(fa) != "Name" {
			return false
		}
		k, ok := st.Val.(*ssa.Const)
		return ok && k.Value != nil && k.Value.ExactString() == `"."`
	}
	// every path from the entry to the pack call passes an unconditional store of "." (into rr.Hdr.Name or into the
	// header literal that is then stored whole)
	removed := map[*ssa.BasicBlock]bool{}
	allInstrs(fn, func(in ssa.Instruction) {
		if isRootName(in) {
			removed[in.Block()] = true
		}
	})
	okAll := len(removed) > 0 && (removed[fn.Blocks[0]] || !reach(fn.Blocks[0], nil, removed)[pack.Block()])
	r.check(okAll, rule, "SIG.Sign:owner", c.pos(fn.Pos()), `owner "." on every path`, "the SIG can be packed with an owner other than the root (the store of \".\" is conditional or missing): the fixed offsets Sign uses for the digest and for the RDLENGTH patch assume a one-octet owner, so the RDLENGTH lands inside the owner name and the message never verifies")
}

// ed25519KeyLength: an Ed25519 public key is exactly 32 octets; ed25519.Verify panics on any other length.
func ed25519KeyLength(c *Ctx, r *Report, rule string) {
	fn := c.ssaFunc("DNSKEY.publicKeyED25519")
	if fn == nil {
		r.cerr(rule, "DNSKEY.publicKeyED25519", "function not found")
		return
	}
	r.fn("DNSKEY.publicKeyED25519")
	var bad []string
	n := 0
	for _, b := range fn.Blocks {
		ret, ok := b.Instrs[len(b.Instrs)-1].(*ssa.Return)
		if !ok || len(ret.Results) != 1 {
			continue
		}
		if k, isK := ret.Results[0].(*ssa.Const); isK && k.Value == nil {
			continue
		}
		n++
		lo, hi := int64(-1), int64(1<<40)
		for _, f := range factsAt(fn, b) {
			bin, ok := f.Atom.(*ssa.BinOp)
			if !ok {
				continue
			}
			isLen := func(v ssa.Value) bool {
				call, ok := v.(*ssa.Call)
				return ok && calleeNameSSA(&call.Call) == "builtin.len"
			}
			l, h, hasL, hasH := intervalFromFact(f, isLen)
			if hasL && l > lo {
				lo = l
			}
			if hasH && h < hi {
				hi = h
			}
			if k, isK := constIntOf(bin.Y); isK && isLen(bin.X) && ((bin.Op == token.EQL && f.Holds) || (bin.Op == token.NEQ && !f.Holds)) {
				lo, hi = k, k
			}
		}
		if lo != 32 || hi != 32 {
			bad = append(bad, fmt.Sprintf("%s (length known to be %d..%d)", c.pos(ret.Pos()), lo, hi))
		}
	}
	if n == 0 {
		r.undecided(rule, "DNSKEY.publicKeyED25519", c.pos(fn.Pos()), "no return of a key found")
		return
	}
	r.check(len(bad) == 0, rule, "DNSKEY.publicKeyED25519", c.pos(fn.Pos()), "exactly 32 octets", "a key is returned at %s without its length being pinned to 32: for a KEY / DNSKEY with more key material ed25519.Verify panics (bad public key length) instead of the verification failing", strings.Join(bad, ", "))
}

// labelRoomExact: packDomainName refuses a label for lack of room only when it really does not fit: the rejecting
// comparison of off + 1 + labelLen with len(msg) is strict.
func labelRoomExact(c *Ctx, r *Report, rule, consequence string) {
	fn := c.ssaFunc("packDomainName")
	if fn == nil {
		r.cerr(rule, "packDomainName", "function not found")
		return
	}
	r.fn("packDomainName")
	msg := paramOf(fn, "msg")
	n := 0
	var bad []string
	allInstrs(fn, func(in ssa.Instruction) {
		bin, ok := in.(*ssa.BinOp)
		if !ok {
			return
		}
		switch bin.Op {
		case token.GTR, token.GEQ, token.LSS, token.LEQ:
		default:
			return
		}
		isLenMsg := func(v ssa.Value) bool {
			call, ok := v.(*ssa.Call)
			return ok && calleeNameSSA(&call.Call) == "builtin.len" && call.Call.Args[0] == msg
		}
		var other ssa.Value
		rejectWhenEqual := false
		switch {
		case isLenMsg(bin.Y):
			other = bin.X
			rejectWhenEqual = bin.Op == token.GEQ // x >= len rejects the exact fit (taking the true edge as the refusal)
		case isLenMsg(bin.X):
			other = bin.Y
			rejectWhenEqual = bin.Op == token.LEQ
		default:
			return
		}
		// only tests whose left side is an offset plus something (off+1, off+1+labelLen, off+2)
		if _, isB := other.(*ssa.BinOp); !isB {
			return
		}
		// the true edge returns ErrBuf
		var iff *ssa.If
		for _, ref := range *bin.Referrers() {
			if x, ok := ref.(*ssa.If); ok {
				iff = x
			}
		}
		if iff == nil {
			return
		}
		if _, isRet := iff.Block().Succs[0].Instrs[len(iff.Block().Succs[0].Instrs)-1].(*ssa.Return); !isRet {
			return
		}
		n++
		if rejectWhenEqual {
			bad = append(bad, fmt.Sprintf("%s: %v", c.pos(bin.Pos()), bin))
		}
	})
	if n == 0 {
		r.undecided(rule, "packDomainName", c.pos(fn.Pos()), "no room test against len(msg) found")
		return
	}
	r.check(len(bad) == 0, rule, "packDomainName:room", c.pos(fn.Pos()), fmt.Sprintf("%d strict room tests", n), "a room test refuses the exact fit (%s): %s", strings.Join(bad, "; "), consequence)
}

// copyKeepsType: a copy method returns a value of the receiver's own dynamic type.
func copyKeepsType(c *Ctx, r *Report, rule string) {
	r.rule(rule, 90, "every copy() method of a record, an EDNS0 option or an SVCB parameter returns a value of its receiver's type")
	n := 0
	var names []string
	for name := range c.decls {
		if strings.HasSuffix(name, ".copy") {
			names = append(names, name)
		}
	}
	sort.Strings(names)
	for _, name := range names {
		fn := c.ssaFunc(name)
		if fn == nil || fn.Signature.Recv() == nil || fn.Signature.Results().Len() != 1 {
			continue
		}
		if _, isIface := fn.Signature.Results().At(0).Type().Underlying().(*types.Interface); !isIface {
			continue
		}
		recvT := fn.Signature.Recv().Type()
		var bad []string
		m := 0
		for _, b := range fn.Blocks {
			ret, ok := b.Instrs[len(b.Instrs)-1].(*ssa.Return)
			if !ok || len(ret.Results) != 1 {
				continue
			}
			for _, l := range phiLeaves(ret.Results[0]) {
				if k, isK := l.(*ssa.Const); isK && k.IsNil() {
					m++
					bad = append(bad, fmt.Sprintf("%s returns nil: Msg.Copy replaces the entry by nil (the copy no longer packs) and IsDuplicate(r, Copy(r)) dereferences nil", c.pos(ret.Pos())))
					continue
				}
				mi, ok := l.(*ssa.MakeInterface)
				if !ok {
					continue
				}
				m++
				if !types.Identical(mi.X.Type(), recvT) {
					bad = append(bad, fmt.Sprintf("%s returns a %s", c.pos(ret.Pos()), typeStr(mi.X.Type())))
				}
			}
		}
		if m == 0 {
			continue
		}
		n++
		r.fn(name)
		r.check(len(bad) == 0, rule, name, c.pos(fn.Pos()), typeStr(recvT), "%s: the copy is a value of another type than the original, so a record is not a duplicate of its own copy, and the copy prints and packs as the other type", strings.Join(bad, "; "))
	}
	if n == 0 {
		r.undecided(rule, "copy methods", "", "no copy method returning an interface found")
	}
}

// sliceLengthsCompared: a generated isDuplicate compares the lengths of two list fields before it compares their
// elements (the element comparators walk the first list only).
func sliceLengthsCompared(c *Ctx, r *Report, rule string) {
	r.rule(rule, 10, "every generated isDuplicate compares len(r1.F) with len(r2.F) for each list field F")
	n := 0
	for _, T := range c.rrTypes() {
		fn := c.ssaFunc(T.Name + ".isDuplicate")
		if fn == nil {
			continue
		}
		if !strings.HasSuffix(c.Fset.Position(fn.Pos()).Filename, "zduplicate.go") {
			continue
		}
		for _, f := range T.Fields {
			if _, isSl := f.Type.Underlying().(*types.Slice); !isSl || f.Tag == "-" {
				continue
			}
			if bt, ok := f.Type.Underlying().(*types.Slice).Elem().Underlying().(*types.Basic); ok && bt.Kind() == types.Uint8 {
				continue // net.IP and other octet strings are compared whole
			}
			n++
			found := false
			allInstrs(fn, func(in ssa.Instruction) {
				// slices.Equal(r1.F, r2.F) compares the lengths first
				if call, isCall := in.(*ssa.Call); isCall && strings.HasPrefix(calleeNameSSA(&call.Call), "slices.Equal") && len(call.Call.Args) == 2 {
					isF := func(v ssa.Value) bool {
						return anyIn(sliceOf(v), func(x ssa.Value) bool {
							fa, ok := x.(*ssa.FieldAddr)
							return ok && fieldNameOf(fa) == f.Name
						})
					}
					if isF(call.Call.Args[0]) && isF(call.Call.Args[1]) {
						found = true
					}
					return
				}
				bin, ok := in.(*ssa.BinOp)
				if !ok || (bin.Op != token.NEQ && bin.Op != token.EQL) {
					return
				}
				isLenOf := func(v ssa.Value) bool {
					call, ok := v.(*ssa.Call)
					if !ok || calleeNameSSA(&call.Call) != "builtin.len" {
						return false
					}
					return anyIn(sliceOf(call.Call.Args[0]), func(x ssa.Value) bool {
						fa, ok := x.(*ssa.FieldAddr)
						return ok && fieldNameOf(fa) == f.Name
					})
				}
				if isLenOf(bin.X) && isLenOf(bin.Y) {
					found = true
				}
			})
			r.fn(T.Name + ".isDuplicate")
			r.check(found, rule, T.Name+"."+f.Name, c.pos(fn.Pos()), "lengths compared", "%s.isDuplicate does not compare the lengths of the two %s lists: a record whose list is a prefix of the other's is reported a duplicate of it (and not the other way round)", T.Name, f.Name)
		}
	}
	if n == 0 {
		r.undecided(rule, "isDuplicate", "", "no list field found")
	}
}

// dddDigits: isDDD says yes only when each of the three octets after the backslash is a digit, and dddToByte
// weighs them 100, 10, 1: the \DDD escape is unambiguous, `\12x` is not an escape.
func dddDigits(c *Ctx, r *Report, rule string) {
	r.rule(rule, 2, "isDDD requires a digit at each of the offsets 0, 1 and 2; dddToByte is 100*d0 + 10*d1 + d2")
	fn := c.ssaFunc("isDDD")
	if fn == nil {
		r.cerr(rule, "isDDD", "function not found")
	} else {
		r.fn("isDDD")
		s := fn.Params[0]
		indexOf := func(v ssa.Value) (int64, bool) {
			switch t := v.(type) {
			case *ssa.UnOp:
				if ia, ok := t.X.(*ssa.IndexAddr); ok && ia.X == ssa.Value(s) {
					return constIntOf(ia.Index)
				}
			case *ssa.Lookup:
				if t.X == ssa.Value(s) {
					return constIntOf(t.Index)
				}
			case *ssa.Index:
				if t.X == ssa.Value(s) {
					return constIntOf(t.Index)
				}
			}
			return 0, false
		}
		digitAt := func(v ssa.Value) (int64, bool) {
			call, ok := v.(*ssa.Call)
			if !ok || calleeNameSSA(&call.Call) != "isDigit" || len(call.Call.Args) != 1 {
				return 0, false
			}
			return indexOf(call.Call.Args[0])
		}
		var bad []string
		n := 0
		check := func(pos token.Pos, blk *ssa.BasicBlock, v ssa.Value) {
			if k, isK := v.(*ssa.Const); isK && k.Value != nil && k.Value.ExactString() == "false" {
				return
			}
			n++
			have := map[int64]bool{}
			if k, ok := digitAt(v); ok {
				have[k] = true
			}
			for _, f := range factsAt(fn, blk) {
				if k, ok := digitAt(f.Atom); ok && f.Holds {
					have[k] = true
				}
			}
			// the loop form: for i := 0; i < K; i++ { if !isDigit(s[i]) { return false } }: after the loop has run
			// to its end (i < K false) every offset below K has passed the test
			for _, f := range factsAt(fn, blk) {
				bin, ok := f.Atom.(*ssa.BinOp)
				if !ok || bin.Op != token.LSS || f.Holds {
					continue
				}
				K, isK := constIntOf(bin.Y)
				phi, isPhi := bin.X.(*ssa.Phi)
				if !isK || !isPhi || len(phi.Edges) != 2 {
					continue
				}
				var inc *ssa.BinOp
				zero := false
				for _, e := range phi.Edges {
					if k0, ok := constIntOf(e); ok && k0 == 0 {
						zero = true
					}
					if b2, ok := e.(*ssa.BinOp); ok && b2.Op == token.ADD && b2.X == ssa.Value(phi) {
						if k1, ok := constIntOf(b2.Y); ok && k1 == 1 {
							inc = b2
						}
					}
				}
				if !zero || inc == nil {
					continue
				}
				// the test of s[i] runs in every iteration and its failure returns false
				allInstrs(fn, func(in ssa.Instruction) {
					call, ok := in.(*ssa.Call)
					if !ok || calleeNameSSA(&call.Call) != "isDigit" || len(call.Call.Args) != 1 {
						return
					}
					idxIsPhi := false
					switch t := call.Call.Args[0].(type) {
					case *ssa.UnOp:
						if ia, ok := t.X.(*ssa.IndexAddr); ok && ia.X == ssa.Value(s) && ia.Index == ssa.Value(phi) {
							idxIsPhi = true
						}
					case *ssa.Lookup:
						idxIsPhi = t.X == ssa.Value(s) && t.Index == ssa.Value(phi)
					case *ssa.Index:
						idxIsPhi = t.X == ssa.Value(s) && t.Index == ssa.Value(phi)
					}
					if !idxIsPhi || !(call.Block() == inc.Block() || call.Block().Dominates(inc.Block())) {
						return
					}
					iff, ok := call.Block().Instrs[len(call.Block().Instrs)-1].(*ssa.If)
					if !ok {
						return
					}
					// which successor is taken when isDigit is false
					var failSucc *ssa.BasicBlock
					switch c2 := iff.Cond.(type) {
					case *ssa.Call:
						if c2 == call {
							failSucc = call.Block().Succs[1]
						}
					case *ssa.UnOp:
						if c2.Op == token.NOT && c2.X == ssa.Value(call) {
							failSucc = call.Block().Succs[0]
						}
					}
					if failSucc == nil {
						return
					}
					for len(failSucc.Instrs) == 1 && len(failSucc.Succs) == 1 {
						failSucc = failSucc.Succs[0]
					}
					okFail := false
					if ret, ok := failSucc.Instrs[len(failSucc.Instrs)-1].(*ssa.Return); ok && len(failSucc.Instrs) == 1 {
						if kb, isB := constBool(ret.Results[0]); isB && !kb {
							okFail = true
						}
						if ph, isPh := ret.Results[0].(*ssa.Phi); isPh {
							_ = ph
						}
					}
					// a shared return block with a phi: the edge from the failing test carries false
					if !okFail {
						if ret, ok := failSucc.Instrs[len(failSucc.Instrs)-1].(*ssa.Return); ok {
							if ph, isPh := ret.Results[0].(*ssa.Phi); isPh && ph.Block() == failSucc {
								for i, pr := range failSucc.Preds {
									if pr == call.Block() || (len(pr.Instrs) == 1 && len(pr.Preds) == 1 && pr.Preds[0] == call.Block()) {
										if kb, isB := constBool(ph.Edges[i]); isB && !kb {
											okFail = true
										}
									}
								}
							}
						}
					}
					if okFail {
						for k := int64(0); k < K; k++ {
							have[k] = true
						}
					}
				})
			}
			for _, k := range []int64{0, 1, 2} {
				if !have[k] {
					bad = append(bad, fmt.Sprintf("yes is possible without a digit at offset %d", k))
				}
			}
		}
		for _, b := range fn.Blocks {
			ret, ok := b.Instrs[len(b.Instrs)-1].(*ssa.Return)
			if !ok || len(ret.Results) != 1 {
				continue
			}
			if phi, isPhi := ret.Results[0].(*ssa.Phi); isPhi && phi.Block() == b {
				for i, e := range phi.Edges {
					check(ret.Pos(), b.Preds[i], e)
				}
			} else {
				check(ret.Pos(), b, ret.Results[0])
			}
		}
		r.check(n > 0 && len(bad) == 0, rule, "isDDD", c.pos(fn.Pos()), "digits at 0, 1, 2", "%s: a backslash followed by two digits and another character is taken for a \\DDD escape: the text form is ambiguous (`\\12x` and `\\012`-style escapes collide), names the packer accepts are refused by IsDomainName and the other way round", strings.Join(uniqStrings(bad), "; "))
	}
	fn = c.ssaFunc("dddToByte")
	if fn == nil {
		r.cerr(rule, "dddToByte", "function not found")
		return
	}
	r.fn("dddToByte")
	s := fn.Params[0]
	type lin struct {
		w    map[int64]int64
		k    int64
		okay bool
	}
	var eval func(v ssa.Value, depth int) lin
	eval = func(v ssa.Value, depth int) lin {
		if depth > 20 {
			return lin{}
		}
		if k, ok := constIntOf(v); ok {
			return lin{w: map[int64]int64{}, k: k, okay: true}
		}
		switch t := v.(type) {
		case *ssa.Convert:
			return eval(t.X, depth+1)
		case *ssa.ChangeType:
			return eval(t.X, depth+1)
		case *ssa.UnOp:
			if ia, ok := t.X.(*ssa.IndexAddr); ok && ia.X == ssa.Value(s) {
				if k, isK := constIntOf(ia.Index); isK {
					return lin{w: map[int64]int64{k: 1}, okay: true}
				}
			}
		case *ssa.Lookup:
			if k, isK := constIntOf(t.Index); isK && t.X == ssa.Value(s) {
				return lin{w: map[int64]int64{k: 1}, okay: true}
			}
		case *ssa.BinOp:
			a, b := eval(t.X, depth+1), eval(t.Y, depth+1)
			if !a.okay || !b.okay {
				return lin{}
			}
			out := lin{w: map[int64]int64{}, okay: true}
			switch t.Op {
			case token.ADD, token.SUB:
				sgn := int64(1)
				if t.Op == token.SUB {
					sgn = -1
				}
				for k, w := range a.w {
					out.w[k] += w
				}
				for k, w := range b.w {
					out.w[k] += sgn * w
				}
				out.k = a.k + sgn*b.k
				return out
			case token.MUL:
				if len(b.w) == 0 {
					a, b = b, a
				}
				if len(a.w) != 0 {
					return lin{}
				}
				for k, w := range b.w {
					out.w[k] = w * a.k
				}
				out.k = a.k * b.k
				return out
			}
		}
		return lin{}
	}
	okAll, n := true, 0
	detail := ""
	for _, b := range fn.Blocks {
		ret, ok := b.Instrs[len(b.Instrs)-1].(*ssa.Return)
		if !ok || len(ret.Results) != 1 {
			continue
		}
		n++
		l := eval(ret.Results[0], 0)
		if !l.okay {
			okAll, detail = false, "the returned value is not a linear form of the three octets"
			continue
		}
		if l.w[0] != 100 || l.w[1] != 10 || l.w[2] != 1 || len(l.w) != 3 || ((l.k+48*111)%256+256)%256 != 0 {
			okAll, detail = false, fmt.Sprintf("the returned value is %d*s[0] + %d*s[1] + %d*s[2] %+d", l.w[0], l.w[1], l.w[2], l.k)
		}
	}
	r.check(n > 0 && okAll, rule, "dddToByte", c.pos(fn.Pos()), "100*d0 + 10*d1 + d2", "%s: a \\DDD escape does not decode to the octet its digits name, so the text escapeByte prints does not pack back to the octets it was printed from", detail)
}

// typeHasName: the RR types with a domain name among their wire fields.
func typesWithNames(c *Ctx) map[string]bool {
	out := map[string]bool{}
	for _, t := range c.rrTypes() {
		kinds, _, err := wireKinds(t.Fields)
		if err != nil {
			continue
		}
		for _, k := range kinds {
			if k == "N" || k == "C" || k == "N*" {
				out[t.Name] = true
			}
		}
	}
	return out
}

// separatorCount: a String method without loops emits the same number of literal separators (blanks and tabs
// in its string constants and format strings) on every path: the zone parser reads a record's fields by position,
// and a separator that is there for one value of a field and missing for another shifts every later token.
var separatorExempt = map[string]string{
	"L32.String": "the path with fewer separators is the one for a nil Locator32, which neither the unpacker (it always stores four octets) nor the parser (it refuses a missing locator) produces; the address and its separator are left out together",
}

func separatorCount(c *Ctx, r *Report, rule string) {
	r.rule(rule, 40, "a loop-free String method emits the same number of literal separators on every path")
	n := 0
	for _, T := range c.rrTypes() {
		fn := c.ssaFunc(T.Name + ".String")
		if fn == nil {
			continue
		}
		type iv struct{ lo, hi int }
		memo := map[ssa.Value]iv{}
		onStack := map[ssa.Value]bool{}
		loop := false
		blanks := func(s string) int { return strings.Count(s, " ") + strings.Count(s, "\t") }
		var eval func(v ssa.Value) iv
		eval = func(v ssa.Value) iv {
			if x, ok := memo[v]; ok {
				return x
			}
			if onStack[v] {
				loop = true
				return iv{}
			}
			onStack[v] = true
			defer delete(onStack, v)
			var out iv
			switch t := v.(type) {
			case *ssa.Const:
				if t.Value != nil && t.Value.Kind() == constant.String {
					k := blanks(constant.StringVal(t.Value))
					out = iv{k, k}
				}
			case *ssa.BinOp:
				if t.Op == token.ADD {
					a, b := eval(t.X), eval(t.Y)
					out = iv{a.lo + b.lo, a.hi + b.hi}
				}
			case *ssa.Phi:
				first := true
				for _, e := range t.Edges {
					x := eval(e)
					if first {
						out, first = x, false
						continue
					}
					if x.lo < out.lo {
						out.lo = x.lo
					}
					if x.hi > out.hi {
						out.hi = x.hi
					}
				}
			case *ssa.Call:
				if calleeNameSSA(&t.Call) == "fmt.Sprintf" && len(t.Call.Args) > 0 {
					out = eval(t.Call.Args[0])
				}
			}
			memo[v] = out
			return out
		}
		// string builders and loops: no verdict
		usesBuilder := false
		allInstrs(fn, func(in ssa.Instruction) {
			if call, ok := in.(*ssa.Call); ok && strings.Contains(calleeNameSSA(&call.Call), "Builder") {
				usesBuilder = true
			}
		})
		var bad []string
		total := iv{-1, -1}
		for _, b := range fn.Blocks {
			ret, ok := b.Instrs[len(b.Instrs)-1].(*ssa.Return)
			if !ok || len(ret.Results) != 1 {
				continue
			}
			x := eval(ret.Results[0])
			if total.lo < 0 {
				total = x
			} else {
				if x.lo < total.lo {
					total.lo = x.lo
				}
				if x.hi > total.hi {
					total.hi = x.hi
				}
			}
		}
		if loop || usesBuilder || total.lo < 0 {
			continue
		}
		n++
		r.fn(T.Name + ".String")
		construct := T.Name + ".String"
		if why, ok := separatorExempt[construct]; ok {
			r.ok(rule, construct, c.pos(fn.Pos()), "exempt: "+why)
			continue
		}
		if total.lo != total.hi {
			bad = append(bad, fmt.Sprintf("%d on one path, %d on another", total.lo, total.hi))
		}
		r.check(len(bad) == 0, rule, construct, c.pos(fn.Pos()), fmt.Sprintf("%d separators", total.lo), "%s.String emits a different number of separators depending on the record's values (%s): the parser, which reads the fields by position, takes the next token (or the next line of the zone) for the field whose separator is missing", T.Name, strings.Join(bad, "; "))
	}
	if n == 0 {
		r.undecided(rule, "String methods", "", "no loop-free String method found")
	}
}

// tablesInStep: the mnemonic table the printer uses and the one the parser uses are changed together: a function
// that inserts into / deletes from one of a pair does the same to the other in the same block.
func tablesInStep(c *Ctx, r *Report, rule string) {
	r.rule(rule, 2, "every function that inserts into or deletes from TypeToString (ClassToString) does the same to StringToType (StringToClass), and conversely")
	pairs := map[string]string{"TypeToString": "StringToType", "StringToType": "TypeToString", "ClassToString": "StringToClass", "StringToClass": "ClassToString"}
	n := 0
	for _, fn := range c.allFuncs() {
		if fn.Synthetic != "" {
			continue
		}
		ops := map[string]map[*ssa.BasicBlock]bool{} // "update TypeToString" -> blocks
		var inserts []*ssa.MapUpdate
		tableOf := func(v ssa.Value) string {
			ld, ok := v.(*ssa.UnOp)
			if !ok {
				return ""
			}
			g, ok := ld.X.(*ssa.Global)
			if !ok {
				return ""
			}
			if _, ok := pairs[g.Name()]; ok {
				return g.Name()
			}
			return ""
		}
		add := func(op, table string, b *ssa.BasicBlock) {
			k := op + " " + table
			if ops[k] == nil {
				ops[k] = map[*ssa.BasicBlock]bool{}
			}
			ops[k][b] = true
		}
		allInstrs(fn, func(in ssa.Instruction) {
			switch t := in.(type) {
			case *ssa.MapUpdate:
				if tb := tableOf(t.Map); tb != "" {
					add("insert", tb, t.Block())
					inserts = append(inserts, t)
				}
			case *ssa.Call:
				if calleeNameSSA(&t.Call) == "builtin.delete" {
					if tb := tableOf(t.Call.Args[0]); tb != "" {
						add("delete", tb, t.Block())
					}
				}
			}
		})
		if len(ops) == 0 {
			continue
		}
		var keys []string
		for k := range ops {
			keys = append(keys, k)
		}
		sort.Strings(keys)
		for _, k := range keys {
			op, table, _ := strings.Cut(k, " ")
			n++
			r.fn(fnDisplay(fn))
			other := op + " " + pairs[table]
			var bad []string
			for b := range ops[k] {
				if !ops[other][b] {
					bad = append(bad, fmt.Sprintf("block %d", b.Index))
				}
			}
			sort.Strings(bad)
			r.check(len(bad) == 0, rule, fnDisplay(fn)+":"+k, c.pos(fn.Pos()), "mirrored in "+pairs[table], "%s does a %s on %s that is not mirrored on %s: after it the printer's and the parser's mnemonic tables disagree, and bitmaps and type-covered fields print a mnemonic the parser refuses (or the parser accepts one the printer never writes)", fnDisplay(fn), op, table, pairs[table])
		}
	}
	if n == 0 {
		r.undecided(rule, "tables", "", "no function changes the mnemonic tables")
	}
}

// tablesMirrored: where a function enters a pair into TypeToString and into StringToType, the mnemonic that is the
// value of the one is the key of the other and the code likewise (the same SSA values): the printer's spelling is
// the parser's.
func tablesMirrored(c *Ctx, r *Report, rule string) {
	r.rule(rule, 1, "a pair entered into TypeToString / StringToType (ClassToString / StringToClass) uses the same mnemonic value and the same code value in both")
	pairs := map[string]string{"TypeToString": "StringToType", "ClassToString": "StringToClass"}
	tableOf := func(v ssa.Value) string {
		ld, ok := v.(*ssa.UnOp)
		if !ok {
			return ""
		}
		g, ok := ld.X.(*ssa.Global)
		if !ok {
			return ""
		}
		return g.Name()
	}
	n := 0
	for _, fn := range c.allFuncs() {
		if fn.Synthetic != "" {
			continue
		}
		var ups []*ssa.MapUpdate
		allInstrs(fn, func(in ssa.Instruction) {
			if mu, ok := in.(*ssa.MapUpdate); ok {
				ups = append(ups, mu)
			}
		})
		for _, a := range ups {
			rev, ok := pairs[tableOf(a.Map)]
			if !ok {
				continue
			}
			for _, b := range ups {
				if tableOf(b.Map) != rev || b.Block() != a.Block() {
					continue
				}
				n++
				r.fn(fnDisplay(fn))
				var bad []string
				if a.Value != b.Key {
					bad = append(bad, fmt.Sprintf("%s[code] = %s but %s[%s] = code", tableOf(a.Map), describeValue(a.Value), rev, describeValue(b.Key)))
				}
				if a.Key != b.Value {
					bad = append(bad, fmt.Sprintf("the code stored in %s is %s, the key of %s is %s", rev, describeValue(b.Value), tableOf(a.Map), describeValue(a.Key)))
				}
				r.check(len(bad) == 0, rule, fnDisplay(fn)+":"+tableOf(a.Map), c.pos(a.Pos()), "same mnemonic, same code", "%s: the mnemonic the printer writes is not the one the parser looks up, so a record of that type (and every bitmap or type-covered field naming it) prints text the parser refuses", strings.Join(bad, "; "))
			}
		}
	}
	if n == 0 {
		r.undecided(rule, "tables", "", "no function enters a pair into both tables")
	}
}
