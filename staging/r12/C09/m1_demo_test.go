package dns

import (
	"fmt"
	"testing"
)

// A reply that is larger than 64 KiB (a big SRV set, as for a headless service
// with many endpoints) truncated for TCP, i.e. to MaxMsgSize: the packed
// message must fit into the 16 bit length prefix, records must have been
// dropped and TC must be set.
func TestSeededC09m1(t *testing.T) {
	reply := new(Msg)
	reply.SetQuestion("big.service.example.org.", TypeSRV)
	reply.Response = true
	for i := 0; i < 1500; i++ {
		reply.Answer = append(reply.Answer, &SRV{
			Hdr:    RR_Header{Name: "big.service.example.org.", Rrtype: TypeSRV, Class: ClassINET, Ttl: 30},
			Port:   8080,
			Target: fmt.Sprintf("endpoint-%04d.big.service.namespace.cluster.example.org.", i),
		})
	}
	n := len(reply.Answer)

	reply.Compress = true
	if l := reply.Len(); l <= MaxMsgSize {
		t.Fatalf("test is broken: the reply is only %d octets when compressed", l)
	}

	reply.Truncate(MaxMsgSize)

	buf, err := reply.Pack()
	if err != nil {
		t.Fatalf("Pack after Truncate(%d): %v", MaxMsgSize, err)
	}
	if len(buf) > MaxMsgSize {
		t.Errorf("packed length after Truncate(%d) is %d", MaxMsgSize, len(buf))
	}
	if len(reply.Answer) >= n {
		t.Errorf("no answer was dropped: %d of %d kept", len(reply.Answer), n)
	}
	if !reply.Truncated {
		t.Errorf("TC is not set although the reply did not fit")
	}

	// One octet below the limit must behave the same way.
	again := reply.Copy()
	again.Truncate(MaxMsgSize - 1)
	buf, err = again.Pack()
	if err != nil {
		t.Fatal(err)
	}
	if len(buf) > MaxMsgSize-1 {
		t.Errorf("packed length after Truncate(%d) is %d", MaxMsgSize-1, len(buf))
	}
}
