package dns

import "testing"

// The OPT record of a reply carries the responder's own payload size (here
// 1232), the size handed to Truncate is the requestor's (4096 over UDP,
// MaxMsgSize over TCP). A reply that fits in the latter must be left alone,
// and when it has to be cut it must be cut at the requested size.
func TestSeededC09m3(t *testing.T) {
	build := func() *Msg {
		reply := new(Msg)
		reply.SetQuestion("www.example.org.", TypeA)
		reply.Response = true
		for i := 0; i < 150; i++ {
			reply.Answer = append(reply.Answer, &A{
				Hdr: RR_Header{Name: "www.example.org.", Rrtype: TypeA, Class: ClassINET, Ttl: 60},
				A:   []byte{192, 0, 2, byte(i)},
			})
		}
		reply.Ns = append(reply.Ns, &NS{
			Hdr: RR_Header{Name: "example.org.", Rrtype: TypeNS, Class: ClassINET, Ttl: 60},
			Ns:  "ns1.example.org.",
		})
		reply.SetEdns0(1232, true) // what this server is prepared to receive
		return reply
	}

	full := build()
	full.Compress = true
	fullLen := full.Len() // 150 * 16 octets and a bit: between 1232 and 4096
	if fullLen <= 1232 || fullLen >= 4096 {
		t.Fatalf("test is broken: compressed length %d", fullLen)
	}

	for _, size := range []int{4096, fullLen, MaxMsgSize} {
		reply := build()
		reply.Truncate(size)
		if len(reply.Answer) != 150 || len(reply.Ns) != 1 || len(reply.Extra) != 1 {
			t.Errorf("Truncate(%d) of a reply of %d octets kept %d/150 answers, %d/1 authority, %d/1 additional records",
				size, fullLen, len(reply.Answer), len(reply.Ns), len(reply.Extra))
		}
		if reply.Truncated {
			t.Errorf("Truncate(%d) of a reply of %d octets set TC", size, fullLen)
		}
		if reply.IsEdns0() == nil {
			t.Errorf("Truncate(%d): OPT record lost", size)
		}
	}

	// A real cut: the first record that was dropped must not have fitted.
	const size = 2000
	reply := build()
	reply.Truncate(size)
	buf, err := reply.Pack()
	if err != nil {
		t.Fatal(err)
	}
	if len(buf) > size {
		t.Errorf("Truncate(%d): packed length %d", size, len(buf))
	}
	if !reply.Truncated || reply.IsEdns0() == nil {
		t.Errorf("Truncate(%d): TC=%v, OPT=%v", size, reply.Truncated, reply.IsEdns0())
	}
	kept := len(reply.Answer)
	if kept >= 150 {
		t.Fatalf("test is broken: nothing dropped at %d", size)
	}
	more := build()
	more.Answer = more.Answer[:kept+1]
	more.Ns = nil
	more.Compress = true
	buf, err = more.Pack()
	if err != nil {
		t.Fatal(err)
	}
	if len(buf) <= size {
		t.Errorf("Truncate(%d) kept %d answers, but %d answers pack into %d octets: the first dropped record would have fitted",
			size, kept, kept+1, len(buf))
	}
}
