package dns

import (
	"fmt"
	"testing"
)

// ISDN records without a subaddress (the <sa> field is optional in RFC 1183,
// and this is what both the zone parser and Unpack produce for them).
func TestSeededC09m2(t *testing.T) {
	for _, size := range []int{512, 700, 1232} {
		reply := new(Msg)
		reply.SetQuestion("isdn.example.org.", TypeISDN)
		reply.Response = true
		for i := 0; i < 120; i++ {
			rr, err := NewRR(fmt.Sprintf("isdn.example.org. 300 IN ISDN 15086202800%04d", i))
			if err != nil {
				t.Fatal(err)
			}
			reply.Answer = append(reply.Answer, rr)
		}
		reply.SetEdns0(uint16(size), false)
		n := len(reply.Answer)

		reply.Truncate(size)

		if len(reply.Answer) == 0 || len(reply.Answer) >= n {
			t.Fatalf("test is broken: %d of %d answers kept for size %d", len(reply.Answer), n, size)
		}
		if !reply.Truncated {
			t.Errorf("size %d: TC not set", size)
		}
		if reply.IsEdns0() == nil {
			t.Errorf("size %d: OPT record lost", size)
		}
		buf, err := reply.Pack()
		if err != nil {
			t.Errorf("size %d: Pack after Truncate: %v", size, err)
			continue
		}
		if len(buf) > size {
			t.Errorf("size %d: packed length after Truncate is %d (%d answers kept)", size, len(buf), len(reply.Answer))
		}
	}
}
