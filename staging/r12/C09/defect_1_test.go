package dns

import (
	"encoding/base64"
	"testing"
)

// Unchanged tree: the len() of every record with a base64 field uses
// base64.StdEncoding.DecodedLen, which counts the padding as data. An ECDSA
// P-256 signature (64 octets, base64 ends in "==") is measured 2 octets too
// long, a 2048 bit RSA key (260 octets, one "=") 1 octet too long. Truncate
// therefore drops records from a reply that fits exactly (or with up to 2 octets
// per such record to spare), and sets TC.
func TestSeededC09defect1(t *testing.T) {
	sig := make([]byte, 64)
	for i := range sig {
		sig[i] = byte(i*7 + 1)
	}
	b64 := base64.StdEncoding.EncodeToString(sig) // 88 characters, "==" at the end

	build := func() *Msg {
		reply := new(Msg)
		reply.SetQuestion("www.example.org.", TypeA)
		reply.Response = true
		for i := 0; i < 24; i++ {
			reply.Answer = append(reply.Answer, &A{
				Hdr: RR_Header{Name: "www.example.org.", Rrtype: TypeA, Class: ClassINET, Ttl: 300},
				A:   []byte{192, 0, 2, byte(i + 1)},
			})
		}
		reply.Answer = append(reply.Answer, &RRSIG{
			Hdr:         RR_Header{Name: "www.example.org.", Rrtype: TypeRRSIG, Class: ClassINET, Ttl: 300},
			TypeCovered: TypeA, Algorithm: ECDSAP256SHA256, Labels: 3, OrigTtl: 300,
			Expiration: 1767225600, Inception: 1764547200, KeyTag: 12345,
			SignerName: "example.org.", Signature: b64,
		})
		reply.SetEdns0(1232, true)
		return reply
	}

	packed := func(m *Msg) int {
		c := m.Copy()
		c.Compress = true
		buf, err := c.Pack()
		if err != nil {
			t.Fatal(err)
		}
		return len(buf)
	}

	p := packed(build())
	if p <= MinMsgSize {
		t.Fatalf("test is broken: packed length %d", p)
	}

	for _, size := range []int{p + 1, p} { // what really goes on the wire fits in both
		reply := build()
		reply.Truncate(size)
		buf, err := reply.Pack()
		if err != nil {
			t.Fatal(err)
		}
		if len(reply.Answer) != 25 || reply.Truncated {
			t.Errorf("the reply packs into %d octets, Truncate(%d) kept %d of 25 answers, TC=%v (packed length now %d)",
				p, size, len(reply.Answer), reply.Truncated, len(buf))
		}
	}
}
