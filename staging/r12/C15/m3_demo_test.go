package dns

import (
	"net"
	"testing"
	"time"
)

// A TSIG signed AXFR that the server hands to Transfer.Out in more than one
// envelope: every envelope has to carry exactly one TSIG, chained on the one
// before, so that the receiving side verifies all of them and gets the zone
// exactly as it was sent, whatever the split.
func TestSeededC15m3(t *testing.T) {
	secret := map[string]string{"axfr.": "so6ZGir4GPAqINNh9U5c3A=="}
	soa := &SOA{Hdr: RR_Header{Name: "example.org.", Rrtype: TypeSOA, Class: ClassINET, Ttl: 3600},
		Ns: "ns.example.org.", Mbox: "root.example.org.", Serial: 7, Refresh: 1, Retry: 1, Expire: 1, Minttl: 1}
	a := func(name, ip string) RR {
		return &A{Hdr: RR_Header{Name: name, Rrtype: TypeA, Class: ClassINET, Ttl: 3600}, A: net.ParseIP(ip)}
	}
	zone := []RR{soa, a("a.example.org.", "10.0.0.1"), a("b.example.org.", "10.0.0.2"), a("c.example.org.", "10.0.0.3"), soa}

	// all compositions of the five records into envelopes: bit i of split set
	// means "start a new envelope before record i+1".
	for split := 0; split < 1<<(len(zone)-1); split++ {
		var envelopes [][]RR
		cur := []RR{zone[0]}
		for i := 1; i < len(zone); i++ {
			if split&(1<<(i-1)) != 0 {
				envelopes = append(envelopes, cur)
				cur = nil
			}
			cur = append(cur, zone[i])
		}
		envelopes = append(envelopes, cur)

		l, err := net.Listen("tcp", "127.0.0.1:0")
		if err != nil {
			t.Fatal(err)
		}
		started := make(chan struct{})
		srv := &Server{
			Listener:          l,
			TsigSecret:        secret,
			NotifyStartedFunc: func() { close(started) },
			Handler: HandlerFunc(func(w ResponseWriter, req *Msg) {
				if w.TsigStatus() != nil {
					t.Errorf("split %05b: the request did not verify: %v", split, w.TsigStatus())
				}
				ch := make(chan *Envelope)
				errc := make(chan error, 1)
				go func() { errc <- new(Transfer).Out(w, req, ch) }()
			send:
				for _, rrs := range envelopes {
					select {
					case ch <- &Envelope{RR: rrs}:
					case err := <-errc:
						// Out gave up (the client hung up): stop feeding it
						errc <- err
						break send
					}
				}
				close(ch)
				<-errc
				w.Close()
			}),
		}
		go srv.ActivateAndServe()
		<-started

		tr := &Transfer{TsigSecret: secret, ReadTimeout: 2 * time.Second}
		q := new(Msg).SetAxfr("example.org.")
		q.SetTsig("axfr.", HmacSHA256, 300, time.Now().Unix())
		ch, err := tr.In(q, l.Addr().String())
		if err != nil {
			t.Fatalf("split %05b: %v", split, err)
		}
		var got []RR
		for e := range ch {
			if e.Error != nil {
				t.Errorf("split %05b (%d envelopes): transfer reported an error: %v", split, len(envelopes), e.Error)
				continue
			}
			got = append(got, e.RR...)
		}
		if len(got) != len(zone) {
			t.Errorf("split %05b (%d envelopes): got %d records, want %d", split, len(envelopes), len(got), len(zone))
		} else {
			for i := range got {
				if got[i].String() != zone[i].String() {
					t.Errorf("split %05b: record %d: got %v, want %v", split, i, got[i], zone[i])
				}
			}
		}
		srv.Shutdown()
	}
}
