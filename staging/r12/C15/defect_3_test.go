package dns

import (
	"net"
	"testing"
	"time"
)

// Octets of a signed envelope that can be changed on the way without the receiver
// noticing: the CLASS of the TSIG RR (RFC 8945, 4.2: "MUST be ANY"; the digest is
// computed over the constant ANY, not over what was received, and nothing compares
// the two) and anything that follows the TSIG RR inside the length-prefixed frame
// (RFC 8945, 5.2: the TSIG is the last record of the message; neither Msg.Unpack nor
// stripTsig looks at what comes after it). Either envelope is "altered" and neither
// yields an error.
func TestDefectC15d3(t *testing.T) {
	const key = "c2VjcmV0LW9mLXRoZS10cmFuc2Zlcg=="
	soa := &SOA{Hdr: RR_Header{Name: "example.org.", Rrtype: TypeSOA, Class: ClassINET, Ttl: 3600},
		Ns: "ns.example.org.", Mbox: "root.example.org.", Serial: 7, Refresh: 1, Retry: 1, Expire: 1, Minttl: 1}
	a := &A{Hdr: RR_Header{Name: "www.example.org.", Rrtype: TypeA, Class: ClassINET, Ttl: 3600}, A: net.ParseIP("192.0.2.1")}
	envelopes := [][]RR{{soa, a}, {a}, {soa}}

	// alter is applied to the wire form of envelope number 1 (the middle one) and,
	// for good measure, to envelope 0 as well.
	run := func(name string, alter func(out []byte) []byte) {
		l, err := net.Listen("tcp", "127.0.0.1:0")
		if err != nil {
			t.Fatal(err)
		}
		defer l.Close()
		done := make(chan struct{})
		go func() {
			defer close(done)
			c, err := l.Accept()
			if err != nil {
				return
			}
			defer c.Close()
			c.SetDeadline(time.Now().Add(10 * time.Second))
			co := &Conn{Conn: c}
			p, err := co.ReadMsgHeader(nil)
			if err != nil {
				return
			}
			q := new(Msg)
			if err := q.Unpack(p); err != nil || q.IsTsig() == nil {
				return
			}
			mac := q.IsTsig().MAC
			for i, rrs := range envelopes {
				r := new(Msg)
				r.SetReply(q)
				r.Authoritative = true
				r.Answer = rrs
				r.SetTsig("transfer.", HmacSHA256, 300, time.Now().Unix())
				var out []byte
				out, mac, err = TsigGenerate(r, key, mac, i > 0)
				if err != nil {
					t.Error(err)
					return
				}
				if i < 2 {
					out = alter(out)
				}
				if _, err := co.Write(out); err != nil {
					return
				}
			}
			buf := make([]byte, 1)
			c.Read(buf)
		}()

		tr := &Transfer{TsigSecret: map[string]string{"transfer.": key}, ReadTimeout: time.Second}
		q := new(Msg).SetAxfr("example.org.")
		q.SetTsig("transfer.", HmacSHA256, 300, time.Now().Unix())
		ch, err := tr.In(q, l.Addr().String())
		if err != nil {
			t.Fatal(err)
		}
		nerr, nrr := 0, 0
		for e := range ch {
			if e.Error != nil {
				nerr++
				continue
			}
			nrr += len(e.RR)
		}
		<-done
		if nerr == 0 {
			t.Errorf("%s: altered envelopes, yet the transfer was reported complete and error-free (%d records)", name, nrr)
		}
	}

	// sanity: an alteration inside the signed part is noticed
	run0 := t.Failed()
	run("flip a bit of the answer section (control, must be noticed)", func(out []byte) []byte {
		out[len(out)/3] ^= 1
		return out
	})
	if t.Failed() != run0 {
		t.Fatal("control failed")
	}

	run("TSIG CLASS changed from ANY to IN", func(out []byte) []byte {
		cp := append([]byte(nil), out...)
		stripped, _, err := stripTsig(cp)
		if err != nil {
			t.Fatal(err)
		}
		off := len(stripped) + len("\x08transfer\x00") + 2 // owner name, TYPE
		if out[off] != 0 || out[off+1] != byte(ClassANY) {
			t.Fatalf("no CLASS ANY at offset %d", off)
		}
		out[off+1] = byte(ClassINET)
		return out
	})

	run("octets appended after the TSIG RR", func(out []byte) []byte {
		return append(out, "these octets are not part of any record"...)
	})
}
