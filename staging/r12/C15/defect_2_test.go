package dns

import (
	"net"
	"testing"
	"time"
)

// The transfer request is signed with the key "transfer.". Whoever answers does
// not know that key, but knows another key the client also has in its TsigSecret
// map ("other.", say the key the client shares with a different primary). The
// answer is signed with "other." and chained on the request MAC, which travels in
// the clear. An answer to a signed request has to be signed with the key (and
// algorithm) of the request; an envelope signed with any other key is wrongly keyed
// and the transfer must not be reported complete and error-free.
func TestDefectC15d2(t *testing.T) {
	const (
		transferKey = "c2VjcmV0LW9mLXRoZS10cmFuc2Zlcg=="
		otherKey    = "YW5vdGhlci1zZWNyZXQtYWx0b2dldGhlcg=="
	)
	soa := &SOA{Hdr: RR_Header{Name: "example.org.", Rrtype: TypeSOA, Class: ClassINET, Ttl: 3600},
		Ns: "ns.example.org.", Mbox: "root.example.org.", Serial: 7, Refresh: 1, Retry: 1, Expire: 1, Minttl: 1}
	forged := &A{Hdr: RR_Header{Name: "www.example.org.", Rrtype: TypeA, Class: ClassINET, Ttl: 3600}, A: net.ParseIP("192.0.2.66")}
	envelopes := [][]RR{{soa, forged}, {forged}, {soa}}

	l, err := net.Listen("tcp", "127.0.0.1:0")
	if err != nil {
		t.Fatal(err)
	}
	defer l.Close()
	done := make(chan struct{})
	go func() {
		defer close(done)
		c, err := l.Accept()
		if err != nil {
			return
		}
		defer c.Close()
		c.SetDeadline(time.Now().Add(10 * time.Second))
		co := &Conn{Conn: c}
		// the answering side holds "other." only; it does not verify the request
		p, err := co.ReadMsgHeader(nil)
		if err != nil {
			return
		}
		q := new(Msg)
		if err := q.Unpack(p); err != nil || q.IsTsig() == nil {
			return
		}
		mac := q.IsTsig().MAC
		for i, rrs := range envelopes {
			r := new(Msg)
			r.SetReply(q)
			r.Authoritative = true
			r.Answer = rrs
			r.SetTsig("other.", HmacSHA256, 300, time.Now().Unix())
			var out []byte
			out, mac, err = TsigGenerate(r, otherKey, mac, i > 0)
			if err != nil {
				t.Error(err)
				return
			}
			if _, err := co.Write(out); err != nil {
				return
			}
		}
		buf := make([]byte, 1)
		c.Read(buf)
	}()

	tr := &Transfer{
		TsigSecret:  map[string]string{"transfer.": transferKey, "other.": otherKey},
		ReadTimeout: time.Second,
	}
	q := new(Msg).SetAxfr("example.org.")
	q.SetTsig("transfer.", HmacSHA256, 300, time.Now().Unix())
	ch, err := tr.In(q, l.Addr().String())
	if err != nil {
		t.Fatal(err)
	}
	var got []RR
	var errs []error
	for e := range ch {
		if e.Error != nil {
			errs = append(errs, e.Error)
			continue
		}
		got = append(got, e.RR...)
	}
	<-done
	if len(errs) == 0 {
		t.Errorf("a transfer asked for with key \"transfer.\" and answered with key \"other.\" was reported complete and error-free, %d records accepted: %v", len(got), got)
	}
}
