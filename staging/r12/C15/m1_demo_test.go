package dns

import (
	"net"
	"testing"
	"time"
)

// An IXFR that starts from serial 0 is still an IXFR: the answer may be the
// single SOA ("you are up to date", the server is at serial 0 as well) or a
// run of difference sequences that starts at version 0. Both have to be read
// with the RFC 1995 state machine.
func TestSeededC15m1(t *testing.T) {
	soa := func(serial uint32) RR {
		return &SOA{Hdr: RR_Header{Name: "example.org.", Rrtype: TypeSOA, Class: ClassINET, Ttl: 3600},
			Ns: "ns.example.org.", Mbox: "root.example.org.", Serial: serial, Refresh: 1, Retry: 1, Expire: 1, Minttl: 1}
	}
	a := func(name, ip string) RR {
		return &A{Hdr: RR_Header{Name: name, Rrtype: TypeA, Class: ClassINET, Ttl: 3600}, A: net.ParseIP(ip)}
	}

	// serve answers the one query that arrives on a fresh listener with the given
	// envelopes and then keeps the connection open until the client closes it.
	serve := func(envelopes [][]RR) (addr string, done chan struct{}) {
		l, err := net.Listen("tcp", "127.0.0.1:0")
		if err != nil {
			t.Fatal(err)
		}
		done = make(chan struct{})
		go func() {
			defer close(done)
			defer l.Close()
			c, err := l.Accept()
			if err != nil {
				return
			}
			defer c.Close()
			co := &Conn{Conn: c}
			c.SetDeadline(time.Now().Add(10 * time.Second))
			q, err := co.ReadMsg()
			if err != nil {
				return
			}
			for _, rrs := range envelopes {
				r := new(Msg)
				r.SetReply(q)
				r.Authoritative = true
				r.Answer = rrs
				if err := co.WriteMsg(r); err != nil {
					return
				}
			}
			// wait for the client to hang up
			buf := make([]byte, 1)
			c.Read(buf)
		}()
		return l.Addr().String(), done
	}

	run := func(name string, envelopes [][]RR) {
		addr, done := serve(envelopes)
		tr := &Transfer{ReadTimeout: 500 * time.Millisecond}
		q := new(Msg)
		q.SetIxfr("example.org.", 0, "ns.example.org.", "root.example.org.")
		ch, err := tr.In(q, addr)
		if err != nil {
			t.Fatalf("%s: %v", name, err)
		}
		var got []RR
		for e := range ch {
			if e.Error != nil {
				t.Errorf("%s: transfer reported an error: %v", name, e.Error)
			}
			got = append(got, e.RR...)
		}
		var want []RR
		for _, rrs := range envelopes {
			want = append(want, rrs...)
		}
		if len(got) != len(want) {
			t.Errorf("%s: got %d records, want %d", name, len(got), len(want))
		} else {
			for i := range got {
				if got[i].String() != want[i].String() {
					t.Errorf("%s: record %d: got %v, want %v", name, i, got[i], want[i])
				}
			}
		}
		<-done
	}

	// 1. the server is at serial 0 too: one SOA, nothing else follows.
	run("up to date", [][]RR{{soa(0)}})

	// 2. two difference sequences 0 -> 1 -> 2, one record per envelope.
	run("incremental", [][]RR{
		{soa(2)},
		{soa(0)}, {soa(1)}, {a("a.example.org.", "10.0.0.1")},
		{soa(1)}, {a("a.example.org.", "10.0.0.1")}, {soa(2)}, {a("b.example.org.", "10.0.0.2")},
		{soa(2)},
	})
}
