package dns

import (
	"net"
	"testing"
	"time"
)

// Serial numbers wrap (RFC 1982): a secondary at serial 4294967295 is one version
// behind a primary at serial 1 (or 0), not ahead of it. The primary answers its IXFR
// with the differences, here split into several envelopes. The transfer has to run to
// the closing SOA; only the single-SOA answer means "up to date" (RFC 1995, section 4).
func TestDefectC15d1(t *testing.T) {
	soa := func(serial uint32) RR {
		return &SOA{Hdr: RR_Header{Name: "example.org.", Rrtype: TypeSOA, Class: ClassINET, Ttl: 3600},
			Ns: "ns.example.org.", Mbox: "root.example.org.", Serial: serial, Refresh: 1, Retry: 1, Expire: 1, Minttl: 1}
	}
	a := func(name, ip string) RR {
		return &A{Hdr: RR_Header{Name: name, Rrtype: TypeA, Class: ClassINET, Ttl: 3600}, A: net.ParseIP(ip)}
	}

	// serve answers the one query that arrives on a fresh listener with the given
	// envelopes and then keeps the connection open until the client closes it.
	serve := func(envelopes [][]RR) (addr string, done chan struct{}) {
		l, err := net.Listen("tcp", "127.0.0.1:0")
		if err != nil {
			t.Fatal(err)
		}
		done = make(chan struct{})
		go func() {
			defer close(done)
			defer l.Close()
			c, err := l.Accept()
			if err != nil {
				return
			}
			defer c.Close()
			co := &Conn{Conn: c}
			c.SetDeadline(time.Now().Add(10 * time.Second))
			q, err := co.ReadMsg()
			if err != nil {
				return
			}
			for _, rrs := range envelopes {
				r := new(Msg)
				r.SetReply(q)
				r.Authoritative = true
				r.Answer = rrs
				if err := co.WriteMsg(r); err != nil {
					return
				}
			}
			// wait for the client to hang up
			buf := make([]byte, 1)
			c.Read(buf)
		}()
		return l.Addr().String(), done
	}

	run := func(name string, have uint32, envelopes [][]RR) {
		addr, done := serve(envelopes)
		tr := &Transfer{ReadTimeout: 500 * time.Millisecond}
		q := new(Msg)
		q.SetIxfr("example.org.", have, "ns.example.org.", "root.example.org.")
		ch, err := tr.In(q, addr)
		if err != nil {
			t.Fatalf("%s: %v", name, err)
		}
		var got []RR
		for e := range ch {
			if e.Error != nil {
				t.Errorf("%s: transfer reported an error: %v", name, e.Error)
			}
			got = append(got, e.RR...)
		}
		var want []RR
		for _, rrs := range envelopes {
			want = append(want, rrs...)
		}
		if len(got) != len(want) {
			t.Errorf("%s: got %d records, want %d", name, len(got), len(want))
		} else {
			for i := range got {
				if got[i].String() != want[i].String() {
					t.Errorf("%s: record %d: got %v, want %v", name, i, got[i], want[i])
				}
			}
		}
		<-done
	}

	// 4294967295 -> 1 across the wrap, one difference sequence, three envelopes.
	run("wrapped", 4294967295, [][]RR{
		{soa(1)},
		{soa(4294967295), a("a.example.org.", "10.0.0.1"), soa(1), a("b.example.org.", "10.0.0.2")},
		{soa(1)},
	})

	// The same with plain numbers, for comparison (this one is fine): 5 -> 6.
	run("plain", 5, [][]RR{
		{soa(6)},
		{soa(5), a("a.example.org.", "10.0.0.1"), soa(6), a("b.example.org.", "10.0.0.2")},
		{soa(6)},
	})
}
