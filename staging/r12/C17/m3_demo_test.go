package dns

import (
	"crypto"
	"crypto/rsa"
	"testing"
	"time"
)

// A generated key -- of any size Generate accepts -- signs, and the signature
// verifies against the DNSKEY that Generate filled in; the same holds for the
// private key after a trip through the BIND private-key text.
func TestSeededC17m3(t *testing.T) {
	for _, tc := range []struct {
		alg  uint8
		bits int
	}{
		{RSASHA256, 1024},
		{RSASHA256, 1026},
		{RSASHA1, 1028},
		{RSASHA1NSEC3SHA1, 1031},
		{RSASHA512, 1100},
		{RSASHA256, 2047},
	} {
		key := &DNSKEY{
			Hdr:       RR_Header{Name: "example.", Rrtype: TypeDNSKEY, Class: ClassINET, Ttl: 3600},
			Flags:     256,
			Protocol:  3,
			Algorithm: tc.alg,
		}
		priv, err := key.Generate(tc.bits)
		if err != nil {
			t.Errorf("alg %d, %d bits: Generate: %v", tc.alg, tc.bits, err)
			continue
		}
		if n := priv.(*rsa.PrivateKey).N.BitLen(); n != tc.bits {
			t.Logf("alg %d: asked for %d bits, modulus has %d", tc.alg, tc.bits, n)
		}
		reread, err := key.NewPrivateKey(key.PrivateKeyString(priv))
		if err != nil {
			t.Errorf("alg %d, %d bits: re-reading the exported key: %v", tc.alg, tc.bits, err)
			continue
		}

		rrset := []RR{
			&A{Hdr: RR_Header{Name: "www.example.", Rrtype: TypeA, Class: ClassINET, Ttl: 300}, A: []byte{192, 0, 2, 1}},
			&A{Hdr: RR_Header{Name: "www.example.", Rrtype: TypeA, Class: ClassINET, Ttl: 300}, A: []byte{192, 0, 2, 2}},
		}
		now := time.Now().UTC()
		for who, signer := range map[string]crypto.PrivateKey{"generated": priv, "re-read": reread} {
			sig := &RRSIG{
				Algorithm:  tc.alg,
				KeyTag:     key.KeyTag(),
				SignerName: "example.",
				Inception:  uint32(now.Add(-time.Hour).Unix()),
				Expiration: uint32(now.Add(time.Hour).Unix()),
			}
			if sig.KeyTag == 0 {
				continue // Sign refuses key tag 0 (1 key in 65536); not what this test is about
			}
			if err := sig.Sign(signer.(crypto.Signer), rrset); err != nil {
				t.Errorf("alg %d, %d bits, %s key: Sign: %v", tc.alg, tc.bits, who, err)
				continue
			}
			if err := sig.Verify(key, rrset); err != nil {
				t.Errorf("alg %d, %d bits, %s key: signature does not verify against the generated DNSKEY: %v", tc.alg, tc.bits, who, err)
			}
			if !sig.ValidityPeriod(now) {
				t.Errorf("alg %d, %d bits: signature not valid now", tc.alg, tc.bits)
			}
		}
	}
}
