package dns

import "testing"

// Unchanged tree: an NSEC3 record of the root zone (owner name "<hash>.") never
// matches and never covers anything, because Cover and Match want an owner name
// of at least two labels; every name lies inside the root zone.
func TestSeededC17defect2(t *testing.T) {
	h := HashName("a.", SHA1, 0, "")
	if h == "" {
		t.Fatal("no hash")
	}
	match := &NSEC3{Hdr: RR_Header{Name: h + ".", Rrtype: TypeNSEC3, Class: ClassINET}, Hash: SHA1, HashLength: 20,
		NextDomain: "VVVVVVVVVVVVVVVVVVVVVVVVVVVVVVVV"}
	if !match.Match("a.") {
		t.Errorf("%s does not match a. although its owner hash is the hash of a.", match.Hdr.Name)
	}
	cover := &NSEC3{Hdr: RR_Header{Name: "00000000000000000000000000000000.", Rrtype: TypeNSEC3, Class: ClassINET}, Hash: SHA1, HashLength: 20,
		NextDomain: "VVVVVVVVVVVVVVVVVVVVVVVVVVVVVVVV"}
	if !cover.Cover("a.") {
		t.Errorf("0000.. -> VVVV.. in the root zone does not cover a. (hash %s)", h)
	}
}
