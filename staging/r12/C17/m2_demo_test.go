package dns

import (
	"crypto/sha1"
	"encoding/base32"
	"encoding/hex"
	"strings"
	"testing"
)

// RFC 5155, section 5, transcribed: IH(salt, x, 0) = H(x || salt),
// IH(salt, x, k) = H(IH(salt, x, k-1) || salt), over the lower-cased wire name.
func seededC17m2Hash(t *testing.T, name string, iter uint16, salt string) string {
	t.Helper()
	wire := make([]byte, 255)
	off, err := PackDomainName(strings.ToLower(name), wire, 0, nil, false)
	if err != nil {
		t.Fatal(err)
	}
	s, err := hex.DecodeString(salt)
	if err != nil {
		t.Fatal(err)
	}
	h := sha1.Sum(append(wire[:off:off], s...))
	for k := 0; k < int(iter); k++ {
		h = sha1.Sum(append(h[:], s...))
	}
	return base32.HexEncoding.WithPadding(base32.NoPadding).EncodeToString(h[:])
}

// seededC17m2Shift returns h with its last base32hex digit moved by d (no wrap for the digits used here).
func seededC17m2Shift(h string, up bool) string {
	const alphabet = "0123456789ABCDEFGHIJKLMNOPQRSTUV"
	b := []byte(h)
	for i := len(b) - 1; i >= 0; i-- {
		p := strings.IndexByte(alphabet, b[i])
		if up && p < 31 {
			b[i] = alphabet[p+1]
			return string(b)
		}
		if !up && p > 0 {
			b[i] = alphabet[p-1]
			return string(b)
		}
	}
	panic("no room")
}

// For every iteration count 0..65535: a record whose owner hash is the name's
// hash matches the name (and does not cover it); a record whose interval
// strictly contains the name's hash covers it (and does not match it).
func TestSeededC17m2(t *testing.T) {
	const salt = "AABBCCDD"
	for _, iter := range []uint16{0, 1, 10, 150, 500, 2500, 2501, 5000, 10000, 65535} {
		for _, name := range []string{"example.org.", "a.Example.ORG.", "*.b.example.org."} {
			want := seededC17m2Hash(t, name, iter, salt)
			if got := HashName(name, SHA1, iter, salt); got != want {
				t.Errorf("HashName(%q, iter %d) = %s, RFC 5155 gives %s", name, iter, got, want)
				continue
			}
			below, above := seededC17m2Shift(want, false), seededC17m2Shift(want, true)

			match := &NSEC3{
				Hdr:  RR_Header{Name: strings.ToLower(want) + ".example.org.", Rrtype: TypeNSEC3, Class: ClassINET},
				Hash: SHA1, Iterations: iter, SaltLength: 4, Salt: salt, HashLength: 20, NextDomain: above,
			}
			if !match.Match(name) {
				t.Errorf("iter %d: %s does not match %q although the owner hash is the name's hash", iter, match.Hdr.Name, name)
			}
			if match.Cover(name) {
				t.Errorf("iter %d: %s covers %q although it matches it", iter, match.Hdr.Name, name)
			}

			cover := &NSEC3{
				Hdr:  RR_Header{Name: below + ".example.org.", Rrtype: TypeNSEC3, Class: ClassINET},
				Hash: SHA1, Iterations: iter, SaltLength: 4, Salt: salt, HashLength: 20, NextDomain: above,
			}
			if !cover.Cover(name) {
				t.Errorf("iter %d: %s .. %s does not cover %q (hash %s)", iter, below, above, name, want)
			}
			if cover.Match(name) {
				t.Errorf("iter %d: %s matches %q (hash %s)", iter, cover.Hdr.Name, name, want)
			}

			// last record of the chain, the name's hash lies beyond it
			wrap := &NSEC3{
				Hdr:  RR_Header{Name: below + ".example.org.", Rrtype: TypeNSEC3, Class: ClassINET},
				Hash: SHA1, Iterations: iter, SaltLength: 4, Salt: salt, HashLength: 20, NextDomain: "00000000000000000000000000000000",
			}
			if below > wrap.NextDomain && !wrap.Cover(name) {
				t.Errorf("iter %d: wrapping %s .. %s does not cover %q (hash %s)", iter, below, wrap.NextDomain, name, want)
			}
		}
	}
}
