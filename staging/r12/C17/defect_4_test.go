package dns

import (
	"crypto/ed25519"
	"testing"
)

// Unchanged tree: RRSIG.Sign refuses to sign when the key tag is 0 ("KeyTag
// not filled in"), but 0 is a legitimate key tag (1 key in 65536), so such a
// key cannot sign although Verify would accept its signatures.
func TestSeededC17defect4(t *testing.T) {
	seed := make([]byte, ed25519.SeedSize)
	for s := 0; s < 256; s++ {
		seed[0] = byte(s)
		priv := ed25519.NewKeyFromSeed(seed)
		key := &DNSKEY{Hdr: RR_Header{Name: "example.", Rrtype: TypeDNSKEY, Class: ClassINET, Ttl: 3600}, Protocol: 3, Algorithm: ED25519}
		key.setPublicKeyED25519(priv.Public().(ed25519.PublicKey))
		// the flags are part of the tag: walk the flag values that keep the Zone Key bit
		for f := 0; f < 1<<16; f++ {
			if f&ZONE == 0 {
				continue
			}
			key.Flags = uint16(f)
			if key.KeyTag() != 0 {
				continue
			}
			sig := &RRSIG{KeyTag: key.KeyTag(), SignerName: "example.", Algorithm: ED25519, Inception: 1, Expiration: 2}
			if err := sig.Sign(priv, []RR{key}); err != nil {
				t.Fatalf("key with flags %d and key tag 0 cannot sign: %v", f, err)
			}
			if err := sig.Verify(key, []RR{key}); err != nil {
				t.Fatalf("signature of key with tag 0 does not verify: %v", err)
			}
			return
		}
	}
	t.Skip("no key with tag 0 found")
}
