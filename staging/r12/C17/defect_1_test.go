package dns

import "testing"

// Unchanged tree: a letter written as a \DDD escape is not case-folded, so the
// NSEC3 hash and the DS digest depend on the case of that letter, although on
// the wire it is the same octet as the plain letter.
func TestSeededC17defect1(t *testing.T) {
	plain := HashName("a.example.", SHA1, 1, "AABB")
	if got := HashName("\\097.example.", SHA1, 1, "AABB"); got != plain {
		t.Errorf(`HashName(\097.example.) = %s, HashName(a.example.) = %s`, got, plain)
	}
	if got := HashName("\\065.example.", SHA1, 1, "AABB"); got != plain { // \065 is 'A'
		t.Errorf(`HashName(\065.example.) = %s, want %s: upper case letter not folded`, got, plain)
	}

	key := &DNSKEY{Hdr: RR_Header{Class: ClassINET, Rrtype: TypeDNSKEY}, Flags: 257, Protocol: 3, Algorithm: ED25519,
		PublicKey: "l02Woi0iS8Aa25FQkUd9RMzZHJpBoRQwAQEX1SxZJA4="}
	key.Hdr.Name = "a.example."
	want := key.ToDS(SHA256).Digest
	key.Hdr.Name = "\\065.example."
	if got := key.ToDS(SHA256).Digest; got != want {
		t.Errorf(`DS digest for owner \065.example. is %s, for a.example. %s`, got, want)
	}
}
