package dns

import "testing"

// Unchanged tree: KeyTag packs the key into a DefaultMsgSize (4096) octet
// buffer, so a public key of more than 4092 octets gets key tag 0 and no DS at
// all, although RFC 4034 Appendix B / section 5.1.4 are defined for any length
// and such a DNSKEY packs and unpacks fine (RDATA may be up to 65535 octets).
func TestSeededC17defect3(t *testing.T) {
	for _, n := range []int{4092, 4093, 5000} {
		pub := make([]byte, n)
		for i := range pub {
			pub[i] = byte(i*31 + 7)
		}
		k := &DNSKEY{Hdr: RR_Header{Name: "example.", Rrtype: TypeDNSKEY, Class: ClassINET}, Flags: 256, Protocol: 3, Algorithm: PRIVATEDNS,
			PublicKey: toBase64(pub)}
		var ac uint32
		for i, b := range append([]byte{1, 0, 3, PRIVATEDNS}, pub...) {
			if i&1 != 0 {
				ac += uint32(b)
			} else {
				ac += uint32(b) << 8
			}
		}
		ac += ac >> 16 & 0xFFFF
		if got := k.KeyTag(); got != uint16(ac) {
			t.Errorf("key of %d octets: KeyTag() = %d, RFC 4034 Appendix B gives %d", n, got, uint16(ac))
		}
		if k.ToDS(SHA256) == nil {
			t.Errorf("key of %d octets: no DS", n)
		}
		buf := make([]byte, Len(k))
		if _, err := PackRR(k, buf, 0, nil, false); err != nil {
			t.Errorf("key of %d octets does not even pack: %v", n, err)
		}
	}
}
