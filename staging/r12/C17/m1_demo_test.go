package dns

import (
	"testing"
	"time"
)

// An RRSIG's inception and expiration, read from the YYYYMMDDHHmmSS form, are the
// seconds since the epoch of that UTC date, and the validity period contains t
// exactly when inception <= t <= expiration. Checked against the time package
// for dates spread over the whole 32 bit range, with emphasis on the turn of
// each century.
func TestSeededC17m1(t *testing.T) {
	dates := []time.Time{
		time.Date(1970, 1, 1, 0, 0, 0, 0, time.UTC),
		time.Date(1972, 2, 29, 12, 0, 0, 0, time.UTC),
		time.Date(1999, 12, 31, 23, 59, 59, 0, time.UTC),
		time.Date(2000, 2, 29, 0, 0, 0, 0, time.UTC),
		time.Date(2000, 3, 1, 0, 0, 0, 0, time.UTC),
		time.Date(2024, 2, 29, 23, 59, 59, 0, time.UTC),
		time.Date(2038, 1, 19, 3, 14, 7, 0, time.UTC),
		time.Date(2038, 1, 19, 3, 14, 8, 0, time.UTC),
		time.Date(2099, 12, 31, 23, 59, 59, 0, time.UTC),
		time.Date(2100, 2, 28, 23, 59, 59, 0, time.UTC),
		time.Date(2100, 3, 1, 0, 0, 0, 0, time.UTC),
		time.Date(2100, 12, 31, 0, 0, 0, 0, time.UTC),
		time.Date(2101, 1, 1, 0, 0, 0, 0, time.UTC),
		time.Date(2104, 2, 29, 6, 0, 0, 0, time.UTC),
		time.Date(2105, 12, 31, 23, 59, 59, 0, time.UTC),
		time.Date(2106, 2, 7, 6, 28, 15, 0, time.UTC),
	}
	for _, d := range dates {
		s := d.Format("20060102150405")
		got, err := StringToTime(s)
		if err != nil {
			t.Errorf("StringToTime(%s): %v", s, err)
			continue
		}
		if want := uint32(d.Unix()); got != want {
			t.Errorf("StringToTime(%s) = %d, want %d (off by %d s)", s, got, want, int64(got)-int64(want))
		}
	}

	// The same through a signature read from text: valid exactly from its inception on.
	rr, err := NewRR("example. 3600 IN RRSIG A 8 1 3600 21000401000000 21000301000000 12345 example. AAAA")
	if err != nil {
		t.Fatal(err)
	}
	sig := rr.(*RRSIG)
	inception := time.Date(2100, 3, 1, 0, 0, 0, 0, time.UTC)
	expiration := time.Date(2100, 4, 1, 0, 0, 0, 0, time.UTC)
	if sig.Inception != uint32(inception.Unix()) || sig.Expiration != uint32(expiration.Unix()) {
		t.Errorf("RRSIG read from text: inception %d expiration %d, want %d %d", sig.Inception, sig.Expiration, inception.Unix(), expiration.Unix())
	}
	for _, c := range []struct {
		at   time.Time
		want bool
	}{
		{inception.Add(-time.Second), false},
		{inception, true},
		{inception.Add(time.Hour), true},
		{expiration, true},
		{expiration.Add(time.Second), false},
		{expiration.Add(12 * time.Hour), false},
	} {
		if got := sig.ValidityPeriod(c.at); got != c.want {
			t.Errorf("ValidityPeriod(%s) = %t, want %t (signature valid %s .. %s)", c.at.Format(time.RFC3339), got, c.want, inception.Format(time.RFC3339), expiration.Format(time.RFC3339))
		}
	}
}
