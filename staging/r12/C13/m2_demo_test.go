package dns

import (
	"context"
	"net"
	"testing"
	"time"
)

// Two runs of the same Server. The Shutdown of the first run gives up (its context
// expires while a handler is still busy), the server is started again, and only then
// the handler of the first run returns. The second run must be unaffected by that:
// its Shutdown succeeds and waits for the handler of the second run.
func TestSeededC13m2(t *testing.T) {
	release1 := make(chan struct{}) // lets the handler of the first run return
	release2 := make(chan struct{}) // lets the handler of the second run return
	entered := make(chan string, 2)
	done2 := make(chan struct{})

	handler := HandlerFunc(func(w ResponseWriter, r *Msg) {
		name := r.Question[0].Name
		entered <- name
		switch name {
		case "one.example.":
			<-release1
		case "two.example.":
			<-release2
			defer close(done2)
		}
		m := new(Msg)
		m.SetReply(r)
		w.WriteMsg(m)
	})

	ask := func(addr, name string) net.Conn {
		c, err := net.Dial("udp", addr)
		if err != nil {
			t.Fatal(err)
		}
		q := new(Msg)
		q.SetQuestion(name, TypeA)
		b, _ := q.Pack()
		if _, err := c.Write(b); err != nil {
			t.Fatal(err)
		}
		select {
		case got := <-entered:
			if got != name {
				t.Fatalf("handler entered for %s, want %s", got, name)
			}
		case <-time.After(5 * time.Second):
			t.Fatalf("handler for %s never entered", name)
		}
		return c
	}

	start := func(srv *Server) chan error {
		pc, err := net.ListenPacket("udp", "127.0.0.1:0")
		if err != nil {
			t.Fatal(err)
		}
		started := make(chan struct{})
		srv.PacketConn = pc
		srv.NotifyStartedFunc = func() { close(started) }
		fin := make(chan error, 1)
		go func() { fin <- srv.ActivateAndServe() }()
		select {
		case <-started:
		case <-time.After(5 * time.Second):
			t.Fatal("server did not start")
		}
		return fin
	}

	srv := &Server{Handler: handler, ReadTimeout: time.Hour}

	// First run: one request in flight, Shutdown gives up after 100ms.
	fin1 := start(srv)
	c1 := ask(srv.PacketConn.LocalAddr().String(), "one.example.")
	defer c1.Close()
	ctx, cancel := context.WithTimeout(context.Background(), 100*time.Millisecond)
	err := srv.ShutdownContext(ctx)
	cancel()
	if err != context.DeadlineExceeded {
		t.Fatalf("first ShutdownContext: got %v, want %v", err, context.DeadlineExceeded)
	}

	// Second run of the same server, one request in flight.
	fin2 := start(srv)
	c2 := ask(srv.PacketConn.LocalAddr().String(), "two.example.")
	defer c2.Close()

	// Now the handler of the first run returns, and the first serve call with it.
	close(release1)
	select {
	case err := <-fin1:
		if err != nil {
			t.Errorf("first ActivateAndServe returned %v, want nil", err)
		}
	case <-time.After(5 * time.Second):
		t.Fatal("first ActivateAndServe did not return")
	}

	// The second run is still running: nobody has shut it down.
	select {
	case err := <-fin2:
		t.Fatalf("second ActivateAndServe returned (%v) although Shutdown was not called", err)
	case <-time.After(200 * time.Millisecond):
	}

	sd := make(chan error, 1)
	go func() { sd <- srv.Shutdown() }()

	// Shutdown has to wait for the handler of the second run.
	select {
	case err := <-sd:
		t.Fatalf("Shutdown of the second run returned (%v) while its handler was still running", err)
	case <-time.After(300 * time.Millisecond):
	}
	close(release2)
	select {
	case err := <-sd:
		if err != nil {
			t.Errorf("Shutdown of the second run: %v", err)
		}
	case <-time.After(5 * time.Second):
		t.Fatal("Shutdown of the second run did not return")
	}
	select {
	case <-done2:
	default:
		t.Error("Shutdown returned before the handler of the second run")
	}
	select {
	case err := <-fin2:
		if err != nil {
			t.Errorf("second ActivateAndServe returned %v, want nil", err)
		}
	case <-time.After(5 * time.Second):
		t.Fatal("second ActivateAndServe did not return after Shutdown")
	}
}
