package dns

import (
	"context"
	"net"
	"os"
	"sync"
	"testing"
	"time"
)

// seededC13d1Conn is a generic net.PacketConn on which nothing ever arrives. A read
// blocks until the read deadline is moved into the past (as ShutdownContext does) AND
// the test lets the woken reader run (wake): the delay between the two stands for the
// time the scheduler may take to run the reader again.
type seededC13d1Conn struct {
	mu       sync.Mutex
	closed   bool
	unblock  chan struct{} // closed when the deadline is moved into the past
	once     sync.Once
	wake     chan struct{} // closed by the test: the reader gets to run
	blocking chan struct{} // closed when the first read blocks
	bonce    sync.Once
}

func newSeededC13d1Conn() *seededC13d1Conn {
	return &seededC13d1Conn{unblock: make(chan struct{}), wake: make(chan struct{}), blocking: make(chan struct{})}
}

func (c *seededC13d1Conn) ReadFrom(b []byte) (int, net.Addr, error) {
	c.bonce.Do(func() { close(c.blocking) })
	<-c.unblock
	<-c.wake
	c.mu.Lock()
	closed := c.closed
	c.mu.Unlock()
	if closed {
		return 0, nil, net.ErrClosed
	}
	return 0, nil, os.ErrDeadlineExceeded
}
func (c *seededC13d1Conn) WriteTo(b []byte, a net.Addr) (int, error) { return len(b), nil }
func (c *seededC13d1Conn) Close() error {
	c.mu.Lock()
	c.closed = true
	c.mu.Unlock()
	c.once.Do(func() { close(c.unblock) })
	return nil
}
func (c *seededC13d1Conn) LocalAddr() net.Addr { return &net.UDPAddr{IP: net.IPv4(127, 0, 0, 1), Port: 53} }
func (c *seededC13d1Conn) SetDeadline(t time.Time) error {
	return c.SetReadDeadline(t)
}
func (c *seededC13d1Conn) SetReadDeadline(t time.Time) error {
	if !t.IsZero() && t.Before(time.Now()) {
		c.once.Do(func() { close(c.unblock) })
	}
	return nil
}
func (c *seededC13d1Conn) SetWriteDeadline(t time.Time) error { return nil }

// ShutdownContext with a context that is already done returns at once; the caller
// starts the server again before the read loop of the first run has been scheduled.
// That loop then finds srv.started == true (set by the second start), takes the
// shutdown for a spurious timeout, goes on reading from its closed socket and returns
// the error of that read: the first serve call returns an error instead of nil.
func TestSeededC13defect1(t *testing.T) {
	pc1 := newSeededC13d1Conn()
	started := make(chan struct{})
	srv := &Server{
		PacketConn:        pc1,
		Handler:           HandlerFunc(func(w ResponseWriter, r *Msg) {}),
		NotifyStartedFunc: func() { close(started) },
	}
	fin1 := make(chan error, 1)
	go func() { fin1 <- srv.ActivateAndServe() }()
	<-started
	<-pc1.blocking // the read loop of the first run is blocked in its read

	ctx, cancel := context.WithCancel(context.Background())
	cancel()
	if err := srv.ShutdownContext(ctx); err != context.Canceled {
		t.Fatalf("ShutdownContext: got %v, want %v", err, context.Canceled)
	}

	// Second start, on a new socket.
	pc2 := newSeededC13d1Conn()
	started2 := make(chan struct{})
	srv.PacketConn = pc2
	srv.NotifyStartedFunc = func() { close(started2) }
	fin2 := make(chan error, 1)
	go func() { fin2 <- srv.ActivateAndServe() }()
	<-started2

	// Only now the read loop of the first run gets to run.
	close(pc1.wake)

	select {
	case err := <-fin1:
		if err != nil {
			t.Errorf("first ActivateAndServe returned %v after ShutdownContext, want nil", err)
		}
	case <-time.After(5 * time.Second):
		t.Error("first ActivateAndServe did not return after ShutdownContext")
	}

	close(pc2.wake)
	if err := srv.Shutdown(); err != nil {
		t.Errorf("Shutdown of the second run: %v", err)
	}
	select {
	case err := <-fin2:
		if err != nil {
			t.Errorf("second ActivateAndServe returned %v, want nil", err)
		}
	case <-time.After(5 * time.Second):
		t.Error("second ActivateAndServe did not return")
	}
}
