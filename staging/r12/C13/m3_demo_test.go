package dns

import (
	"net"
	"testing"
	"time"
)

// Shutdown of a server whose read loop is busy re-arming its read deadline (a very
// short ReadTimeout on an idle socket, so that every read times out at once and the
// loop comes straight back) must return. Many short-lived servers are started and
// shut down so that Shutdown arrives at every point of the loop.
func TestSeededC13m3(t *testing.T) {
	const rounds = 3000

	var sink int
	for i := 0; i < rounds; i++ {
		pc, err := net.ListenPacket("udp", "127.0.0.1:0")
		if err != nil {
			t.Fatal(err)
		}
		started := make(chan struct{})
		srv := &Server{
			PacketConn:        pc,
			ReadTimeout:       time.Nanosecond,
			Handler:           HandlerFunc(func(w ResponseWriter, r *Msg) {}),
			NotifyStartedFunc: func() { close(started) },
		}
		fin := make(chan error, 1)
		go func() { fin <- srv.ActivateAndServe() }()
		<-started

		// Vary the phase between the read loop and Shutdown a little.
		for j := 0; j < (i*37)%1000; j++ {
			sink += j
		}

		sd := make(chan error, 1)
		go func() { sd <- srv.Shutdown() }()

		select {
		case err := <-sd:
			if err != nil {
				t.Fatalf("round %d: Shutdown: %v", i, err)
			}
		case <-time.After(20 * time.Second):
			t.Fatalf("round %d: Shutdown did not return", i)
		}
		select {
		case err := <-fin:
			if err != nil {
				t.Fatalf("round %d: ActivateAndServe returned %v, want nil", i, err)
			}
		case <-time.After(20 * time.Second):
			t.Fatalf("round %d: ActivateAndServe did not return after Shutdown", i)
		}
	}
	_ = sink
}
