package dns

import (
	"testing"
	"time"
)

// A query over TCP is being handled when Shutdown is called; the handler needs longer
// than the server's WriteTimeout to come up with its answer (it waits for a slow
// backend, say). Shutdown waits for the handler, and the reply the handler then writes
// must still reach the client.
func TestSeededC13m1(t *testing.T) {
	entered := make(chan struct{})
	release := make(chan struct{})
	werr := make(chan error, 1)

	handler := HandlerFunc(func(w ResponseWriter, r *Msg) {
		close(entered)
		<-release
		m := new(Msg)
		m.SetReply(r)
		werr <- w.WriteMsg(m)
	})

	s, addr, fin, err := RunLocalTCPServer("127.0.0.1:0", func(srv *Server) {
		srv.Handler = handler
		srv.ReadTimeout = time.Hour
		srv.WriteTimeout = 100 * time.Millisecond
	})
	if err != nil {
		t.Fatalf("unable to run test server: %v", err)
	}

	c := &Client{Net: "tcp"}
	conn, err := c.Dial(addr)
	if err != nil {
		t.Fatal(err)
	}
	defer conn.Close()
	q := new(Msg)
	q.SetQuestion("slow.example.", TypeA)
	if err := conn.WriteMsg(q); err != nil {
		t.Fatal(err)
	}
	select {
	case <-entered:
	case <-time.After(5 * time.Second):
		t.Fatal("handler never entered")
	}

	sd := make(chan error, 1)
	go func() { sd <- s.Shutdown() }()

	// The handler takes four times the write timeout to produce its answer.
	select {
	case err := <-sd:
		t.Fatalf("Shutdown returned (%v) while the handler was still running", err)
	case <-time.After(400 * time.Millisecond):
	}
	close(release)

	if err := <-werr; err != nil {
		t.Errorf("handler: WriteMsg: %v", err)
	}
	conn.SetReadDeadline(time.Now().Add(5 * time.Second))
	r, err := conn.ReadMsg()
	if err != nil {
		t.Errorf("the reply of the handler that was running at Shutdown was not delivered: %v", err)
	} else if r.Id != q.Id {
		t.Errorf("reply id %d, want %d", r.Id, q.Id)
	}

	select {
	case err := <-sd:
		if err != nil {
			t.Errorf("Shutdown: %v", err)
		}
	case <-time.After(5 * time.Second):
		t.Fatal("Shutdown did not return")
	}
	select {
	case err := <-fin:
		if err != nil {
			t.Errorf("ActivateAndServe returned %v, want nil", err)
		}
	case <-time.After(5 * time.Second):
		t.Fatal("ActivateAndServe did not return after Shutdown")
	}
}
