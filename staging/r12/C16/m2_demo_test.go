package dns

import (
	"strings"
	"testing"
)

// A message returned by Unpack shares no memory with the buffer it was unpacked from:
// whatever happens to the buffer afterwards (the server hands its UDP buffers back to a
// pool before the handler runs) must not show in the message.
func TestSeededC16m2(t *testing.T) {
	m := new(Msg)
	m.SetQuestion("txt.example.", TypeTXT)
	m.Response = true
	m.Answer = []RR{
		&TXT{Hdr: RR_Header{Name: "txt.example.", Rrtype: TypeTXT, Class: ClassINET, Ttl: 60},
			Txt: []string{"v=spf1 -all", "plain-text", `needs "escaping"`}},
		&HINFO{Hdr: RR_Header{Name: "txt.example.", Rrtype: TypeHINFO, Class: ClassINET, Ttl: 60},
			Cpu: "RFC8482", Os: "generic"},
	}
	buf, err := m.Pack()
	if err != nil {
		t.Fatal(err)
	}

	got := new(Msg)
	if err := got.Unpack(buf); err != nil {
		t.Fatal(err)
	}
	// strings.Clone gives copies that are certainly private.
	txt := got.Answer[0].(*TXT)
	wantTxt := make([]string, len(txt.Txt))
	for i, s := range txt.Txt {
		wantTxt[i] = strings.Clone(s)
	}
	hinfo := got.Answer[1].(*HINFO)
	wantCpu, wantOs := strings.Clone(hinfo.Cpu), strings.Clone(hinfo.Os)
	wantStr := strings.Clone(got.String())

	// The buffer is used for something else.
	for i := range buf {
		buf[i] = 'X'
	}

	for i, s := range txt.Txt {
		if s != wantTxt[i] {
			t.Errorf("TXT string %d changed with the buffer: %q, was %q", i, s, wantTxt[i])
		}
	}
	if hinfo.Cpu != wantCpu || hinfo.Os != wantOs {
		t.Errorf("HINFO changed with the buffer: %q %q, was %q %q", hinfo.Cpu, hinfo.Os, wantCpu, wantOs)
	}
	if s := got.String(); s != wantStr {
		t.Errorf("the message changed with the buffer:\n%s\nwas:\n%s", s, wantStr)
	}
}
