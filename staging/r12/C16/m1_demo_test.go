package dns

import (
	"strings"
	"testing"
)

// A copy of a record or message shares no mutable memory with the original: a write to
// an SVCB parameter of one must not be observable through the other.
func TestSeededC16m1(t *testing.T) {
	rr, err := NewRR(`svc.example. 300 IN HTTPS 1 . alpn="h2" key65400="abc" key65401="xyz"`)
	if err != nil {
		t.Fatal(err)
	}
	orig := rr.(*HTTPS)
	local := func(h *HTTPS, key SVCBKey) *SVCBLocal {
		for _, kv := range h.Value {
			if l, ok := kv.(*SVCBLocal); ok && l.KeyCode == key {
				return l
			}
		}
		t.Fatalf("no key%d in %s", key, h)
		return nil
	}

	// Copy of the record.
	cp := Copy(orig).(*HTTPS)
	local(cp, 65400).Data[0] = 'X'
	if got := string(local(orig, 65400).Data); got != "abc" {
		t.Errorf("write to key65400 of the copy shows in the original record: %q", got)
	}
	if got := orig.String(); got != rr.String() || !strings.Contains(got, `key65400="abc"`) {
		t.Errorf("original record now prints as %s", got)
	}

	// Copy of a message, written to on the side of the original.
	m := new(Msg)
	m.SetQuestion("svc.example.", TypeHTTPS)
	m.Response = true
	m.Answer = []RR{orig}
	mc := m.Copy()
	local(orig, 65401).Data[2] = '!'
	if got := string(local(mc.Answer[0].(*HTTPS), 65401).Data); got != "xyz" {
		t.Errorf("write to key65401 of the original shows in the copied message: %q", got)
	}
}
