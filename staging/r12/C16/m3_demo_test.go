package dns

import (
	"net"
	"reflect"
	"testing"
)

// Pack (and Len, String) are read-only: packing a message must leave the records in it
// as they were, whether or not the packing succeeds.
func TestSeededC16m3(t *testing.T) {
	mk := func() *APL {
		return &APL{
			Hdr: RR_Header{Name: "apl.example.", Rrtype: TypeAPL, Class: ClassINET, Ttl: 300},
			Prefixes: []APLPrefix{
				{Network: net.IPNet{IP: net.IP{10, 0, 0, 0}, Mask: net.CIDRMask(8, 32)}},
				// The address as net.ParseIP returns it: 16 octets, with an IPv4 mask.
				{Negation: true, Network: net.IPNet{IP: net.ParseIP("192.0.2.0"), Mask: net.CIDRMask(24, 32)}},
				{Network: net.IPNet{IP: net.ParseIP("2001:db8::"), Mask: net.CIDRMask(32, 128)}},
			},
		}
	}
	rr := mk()
	want := mk() // built independently, shares nothing with rr
	if !reflect.DeepEqual(rr, want) {
		t.Fatal("the two records differ before anything was done")
	}

	m := new(Msg)
	m.SetQuestion("apl.example.", TypeAPL)
	m.Response = true
	m.Answer = []RR{rr}

	_ = m.Len()
	if !reflect.DeepEqual(rr, want) {
		t.Fatalf("Msg.Len changed the record:\n got %#v\nwant %#v", rr.Prefixes, want.Prefixes)
	}
	_ = m.String()
	if !reflect.DeepEqual(rr, want) {
		t.Fatalf("Msg.String changed the record:\n got %#v\nwant %#v", rr.Prefixes, want.Prefixes)
	}
	_, _ = m.Pack() // refused or not, the record is the caller's
	if !reflect.DeepEqual(rr, want) {
		t.Fatalf("Msg.Pack changed the record: prefix 1 has an address of %d octets (%v), it had %d (%v)",
			len(rr.Prefixes[1].Network.IP), []byte(rr.Prefixes[1].Network.IP),
			len(want.Prefixes[1].Network.IP), []byte(want.Prefixes[1].Network.IP))
	}
}
