package dns

import "testing"

// Two TXT records from the wire, one holding the UTF-8 text "café" and the other
// "café au lait": different RDATA octets, so not duplicates - whichever is asked first.
func TestSeededC20m3(t *testing.T) {
	fromWire := func(txt string) RR {
		rr := &TXT{Hdr: RR_Header{Name: "menu.example.org.", Rrtype: TypeTXT, Class: ClassINET, Ttl: 300}, Txt: []string{txt}}
		buf := make([]byte, 512)
		off, err := PackRR(rr, buf, 0, nil, false)
		if err != nil {
			t.Fatalf("pack %q: %v", txt, err)
		}
		out, _, err := UnpackRR(buf[:off], 0)
		if err != nil {
			t.Fatalf("unpack %q: %v", txt, err)
		}
		return out
	}
	short := fromWire(`caf\195\169`)
	long := fromWire(`caf\195\169 au lait`)
	if l1, l2 := Len(short), Len(long); l1 == l2 {
		t.Fatalf("test set-up: both records are %d octets", l1)
	}

	d12, d21 := IsDuplicate(short, long), IsDuplicate(long, short)
	if d12 != d21 {
		t.Errorf("IsDuplicate is not symmetric: (short, long) = %v, (long, short) = %v", d12, d21)
	}
	if d12 || d21 {
		t.Errorf("%s and %s are reported as duplicates", short, long)
	}
	if !IsDuplicate(short, Copy(short)) || !IsDuplicate(long, Copy(long)) {
		t.Errorf("a record is not a duplicate of its copy")
	}
}
