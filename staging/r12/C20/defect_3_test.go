package dns

import "testing"

// The zone parser keeps a needless escape in an owner name (\W), and String prints it
// back. normalizedString does not lower-case a letter that follows a backslash, so two
// records whose text differs in the case of the owner name only are both kept by Dedup
// (IsDuplicate calls them duplicates).
func TestSeededC20Defect3(t *testing.T) {
	r1 := testRR(`\Www.example.org. 300 IN A 192.0.2.1`)
	r2 := testRR(`\www.example.org. 200 IN A 192.0.2.1`)
	if !IsDuplicate(r1, r2) {
		t.Fatalf("test set-up: IsDuplicate(%s, %s) = false", r1, r2)
	}
	out := Dedup([]RR{r1, r2}, nil)
	if len(out) != 1 {
		t.Fatalf("Dedup kept %d records: %v", len(out), out)
	}
	if out[0].Header().Ttl != 200 {
		t.Errorf("TTL %d, want 200", out[0].Header().Ttl)
	}
}
