package dns

import "testing"

// A record and the same record after a trip over the wire are the same record (type,
// class, owner octets and RDATA octets agree). IsDuplicate compares the presentation
// text of names and strings, so it says no as soon as the zone file spelled an octet
// differently from the unpacker (\065 for A, a raw UTF-8 octet for \195, \W for W).
func TestSeededC20Defect5(t *testing.T) {
	for _, s := range []string{
		`\065.example.org. 300 IN A 192.0.2.1`,
		"café.example.org. 300 IN A 192.0.2.1",
		`\Www.example.org. 300 IN A 192.0.2.1`,
		`example.org. 300 IN MX 10 \109ail.example.org.`,
		`example.org. 300 IN TXT "\097bc"`,
	} {
		r1 := testRR(s)
		buf := make([]byte, 512)
		off, err := PackRR(r1, buf, 0, nil, false)
		if err != nil {
			t.Fatalf("pack %q: %v", s, err)
		}
		r2, _, err := UnpackRR(buf[:off], 0)
		if err != nil {
			t.Fatalf("unpack %q: %v", s, err)
		}
		if !IsDuplicate(r1, r2) {
			t.Errorf("not duplicates: %s (parsed) / %s (unpacked)", r1, r2)
		}
	}
}
