package dns

import "testing"

type seededC20Private struct{ b []byte }

func (p *seededC20Private) String() string         { return string(p.b) }
func (p *seededC20Private) Parse(s []string) error { return nil }
func (p *seededC20Private) Pack(buf []byte) (int, error) {
	return copy(buf, p.b), nil
}
func (p *seededC20Private) Unpack(buf []byte) (int, error) {
	p.b = append([]byte(nil), buf...)
	return len(buf), nil
}
func (p *seededC20Private) Copy(dest PrivateRdata) error {
	dest.(*seededC20Private).b = append([]byte(nil), p.b...)
	return nil
}
func (p *seededC20Private) Len() int { return len(p.b) }

// IsDuplicate must hold between a record and itself / its copy, for every record type.
func TestSeededC20Defect1(t *testing.T) {
	opt := &OPT{Hdr: RR_Header{Name: ".", Rrtype: TypeOPT}}
	opt.SetUDPSize(1232)
	opt.Option = append(opt.Option, &EDNS0_NSID{Code: EDNS0NSID, Nsid: "6869"})
	if !IsDuplicate(opt, opt) {
		t.Errorf("OPT: IsDuplicate(r, r) = false")
	}
	if !IsDuplicate(opt, Copy(opt)) {
		t.Errorf("OPT: IsDuplicate(r, Copy(r)) = false")
	}

	const typ = 65281
	PrivateHandle("SEEDEDC20", typ, func() PrivateRdata { return new(seededC20Private) })
	defer PrivateHandleRemove(typ)
	p := &PrivateRR{Hdr: RR_Header{Name: "example.org.", Rrtype: typ, Class: ClassINET, Ttl: 10},
		Data: &seededC20Private{b: []byte("abc")}, generator: func() PrivateRdata { return new(seededC20Private) }}
	if !IsDuplicate(p, p) {
		t.Errorf("PrivateRR: IsDuplicate(r, r) = false")
	}
	if !IsDuplicate(p, Copy(p)) {
		t.Errorf("PrivateRR: IsDuplicate(r, Copy(r)) = false")
	}
}
