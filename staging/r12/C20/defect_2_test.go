package dns

import "testing"

// Dedup documents m as scratch space the caller may pass in (BenchmarkDedup re-uses one
// map for every call). A call that finds no duplicates returns early and leaves all its
// keys in m; the next call with the same map then mistakes the stale keys for records
// of its own list.
func TestSeededC20Defect2(t *testing.T) {
	m := make(map[string]RR)

	first := []RR{testRR("a.example. 300 IN A 192.0.2.1"), testRR("b.example. 300 IN A 192.0.2.2")}
	if out := Dedup(first, m); len(out) != 2 {
		t.Fatalf("first call: got %d records, want 2", len(out))
	}

	second := []RR{testRR("a.example. 300 IN A 192.0.2.1"), testRR("A.example. 100 IN A 192.0.2.1")}
	out := Dedup(second, m)
	if len(out) != 1 {
		t.Fatalf("second call with the same map: got %d records %v, want 1", len(out), out)
	}
	if out[0] != second[0] || out[0].Header().Ttl != 100 {
		t.Errorf("second call: got %v, want the first record with TTL 100", out[0])
	}
}
