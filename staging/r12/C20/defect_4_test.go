package dns

import (
	"bytes"
	"testing"
)

// For records obtained from the wire IsDuplicate must hold exactly when type, class,
// owner and RDATA octets agree. Two unpackers accept more than one encoding of the same
// value, so records with different RDATA octets compare as duplicates.
func TestSeededC20Defect4(t *testing.T) {
	hdr := func(typ uint16, rdata []byte) []byte {
		b := []byte{1, 'x', 0, byte(typ >> 8), byte(typ), 0, 1, 0, 0, 0, 60, byte(len(rdata) >> 8), byte(len(rdata))}
		return append(b, rdata...)
	}
	cases := []struct {
		name string
		typ  uint16
		rd1  []byte
		rd2  []byte
	}{
		{
			// NSEC type bitmap, window 0: one octet 0x40 (A) / two octets 0x40 0x00 (A, trailing zero octet)
			"NSEC bitmap with a trailing zero octet", TypeNSEC,
			[]byte{1, 'y', 0, 0, 1, 0x40},
			[]byte{1, 'y', 0, 0, 2, 0x40, 0x00},
		},
		{
			// SVCB 1 . mandatory=alpn,port alpn=h2 port=443 / the same with mandatory=port,alpn
			"SVCB mandatory list out of order", TypeSVCB,
			[]byte{0, 1, 0, 0, 0, 0, 4, 0, 1, 0, 3, 0, 1, 0, 3, 2, 'h', '2', 0, 3, 0, 2, 1, 0xbb},
			[]byte{0, 1, 0, 0, 0, 0, 4, 0, 3, 0, 1, 0, 1, 0, 3, 2, 'h', '2', 0, 3, 0, 2, 1, 0xbb},
		},
	}
	for _, c := range cases {
		r1, _, err := UnpackRR(hdr(c.typ, c.rd1), 0)
		if err != nil {
			t.Fatalf("%s: unpack 1: %v", c.name, err)
		}
		r2, _, err := UnpackRR(hdr(c.typ, c.rd2), 0)
		if err != nil {
			t.Fatalf("%s: unpack 2: %v", c.name, err)
		}
		if bytes.Equal(c.rd1, c.rd2) {
			t.Fatalf("%s: test set-up", c.name)
		}
		if IsDuplicate(r1, r2) {
			t.Errorf("%s: records with different RDATA octets are duplicates: %s / %s", c.name, r1, r2)
		}
	}
}
