package dns

import "testing"

// Two HIP records taken from the wire whose public keys are different octets
// (00 00 00 / 68 00 00 followed by the same tail) are not duplicates, although the
// base64 text of the keys ("AAAA..." / "aAAA...") differs in letter case only.
func TestSeededC20m1(t *testing.T) {
	fromWire := func(s string) RR {
		rr, err := NewRR(s)
		if err != nil {
			t.Fatalf("parse %q: %v", s, err)
		}
		buf := make([]byte, 512)
		off, err := PackRR(rr, buf, 0, nil, false)
		if err != nil {
			t.Fatalf("pack %q: %v", s, err)
		}
		out, _, err := UnpackRR(buf[:off], 0)
		if err != nil {
			t.Fatalf("unpack %q: %v", s, err)
		}
		return out
	}
	r1 := fromWire("www.example.com. 3600 IN HIP 2 200100107B1A74DF365639CC39F1D578 AAAAAwEAAbdx rvs.example.com.")
	r2 := fromWire("www.example.com. 3600 IN HIP 2 200100107B1A74DF365639CC39F1D578 aAAAAwEAAbdx rvs.example.com.")

	k1, k2 := r1.(*HIP).PublicKey, r2.(*HIP).PublicKey
	if k1 == k2 {
		t.Fatalf("test set-up: the two public keys are the same: %q", k1)
	}
	if IsDuplicate(r1, r2) || IsDuplicate(r2, r1) {
		t.Errorf("HIP records with different public keys (%q, %q) reported as duplicates", k1, k2)
	}

	// the hex fields are untouched by this: records with the same HIT stay duplicates
	r3 := fromWire("www.example.com. 300 IN HIP 2 200100107B1A74DF365639CC39F1D578 AAAAAwEAAbdx RVS.example.com.")
	if !IsDuplicate(r1, r3) {
		t.Errorf("%s and %s must be duplicates", r1, r3)
	}
}
