package dns

import "testing"

// Owner names and embedded names are compared octet by octet with only the ASCII
// letters folded. Names that hold other octets - UTF-8 text typed into a zone file, or
// a zone file in Latin-1 - are different names when those octets differ.
func TestSeededC20m2(t *testing.T) {
	pairs := [][2]string{
		// KELVIN SIGN (e2 84 aa) against the letter k
		{"K.example.org. 3600 IN A 192.0.2.1", "k.example.org. 3600 IN A 192.0.2.1"},
		// LATIN SMALL LETTER LONG S (c5 bf) against the letter s
		{"ſ.example.org. 3600 IN A 192.0.2.1", "S.example.org. 3600 IN A 192.0.2.1"},
		// É (c3 89) against é (c3 a9)
		{"cafÉ.example.org. 3600 IN A 192.0.2.1", "café.example.org. 3600 IN A 192.0.2.1"},
		// Latin-1: é (e9) against è (e8)
		{"caf\xe9.example.org. 3600 IN A 192.0.2.1", "caf\xe8.example.org. 3600 IN A 192.0.2.1"},
		// the same in an embedded name
		{"example.org. 3600 IN MX 10 cafÉ.example.org.", "example.org. 3600 IN MX 10 café.example.org."},
		{"example.org. 3600 IN NS K.example.org.", "example.org. 3600 IN NS K.example.org."},
	}
	for _, p := range pairs {
		r1, err := NewRR(p[0])
		if err != nil {
			t.Fatalf("parse %q: %v", p[0], err)
		}
		r2, err := NewRR(p[1])
		if err != nil {
			t.Fatalf("parse %q: %v", p[1], err)
		}
		// the two are different on the wire
		b1, b2 := make([]byte, 512), make([]byte, 512)
		o1, err1 := PackRR(r1, b1, 0, nil, false)
		o2, err2 := PackRR(r2, b2, 0, nil, false)
		if err1 != nil || err2 != nil {
			t.Fatalf("pack: %v, %v", err1, err2)
		}
		if string(b1[:o1]) == string(b2[:o2]) {
			t.Fatalf("test set-up: %q and %q are the same on the wire", p[0], p[1])
		}
		if IsDuplicate(r1, r2) || IsDuplicate(r2, r1) {
			t.Errorf("%s and %s are reported as duplicates", r1, r2)
		}
	}

	// ASCII case is still ignored
	r1, _ := NewRR("café.Example.ORG. 3600 IN MX 10 Mail.Example.org.")
	r2, _ := NewRR("CAFé.example.org. 60 IN MX 10 mail.example.ORG.")
	if !IsDuplicate(r1, r2) {
		t.Errorf("%s and %s must be duplicates", r1, r2)
	}
}
