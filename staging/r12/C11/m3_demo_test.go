package dns

import (
	"testing"
	"time"
)

// Two parties in one process use a key of the same name with different secrets
// (two primaries that both call their key "transfer.", or a key whose secret is
// replaced). A MAC made with one secret must not verify under the other, and what
// the map-backed provider signs has to be the HMAC under the secret its own map
// holds for the name.
func TestSeededC11m3(t *testing.T) {
	const (
		name    = "transfer.c11m3."
		secretA = "pRZgBrBvI4NAHZYhxmhs/Q=="
		secretB = "NoTCJU+DMqFWywaPyxSijrDEA/eC3nK0xi3AMEZuPVk="
	)
	provA := tsigSecretProvider(map[string]string{name: secretA})
	provB := tsigSecretProvider(map[string]string{name: secretB})
	now := time.Now().Unix()

	newMsg := func() *Msg {
		m := new(Msg)
		m.SetQuestion("example.org.", TypeSOA)
		m.Id = 4711
		m.SetTsig(name, HmacSHA256, 300, now)
		return m
	}

	// first use of the name: party A signs, party A verifies
	bufA, macA, err := TsigGenerateWithProvider(newMsg(), provA, "", false)
	if err != nil {
		t.Fatal(err)
	}
	if err := TsigVerifyWithProvider(append([]byte(nil), bufA...), provA, "", false); err != nil {
		t.Fatalf("A does not accept its own signature: %v", err)
	}

	// party B has another secret under that name: A's signature is not valid for B
	if err := TsigVerifyWithProvider(append([]byte(nil), bufA...), provB, "", false); err == nil {
		t.Errorf("a MAC made with secret A verifies with the provider that holds secret B for %s", name)
	}

	// what B signs is the HMAC under B's secret
	_, wantB, err := TsigGenerate(newMsg(), secretB, "", false)
	if err != nil {
		t.Fatal(err)
	}
	bufB, macB, err := TsigGenerateWithProvider(newMsg(), provB, "", false)
	if err != nil {
		t.Fatal(err)
	}
	if macB != wantB {
		t.Errorf("provider B signed with a secret that is not its own: MAC %s, HMAC under secret B is %s (MAC under secret A: %s)", macB, wantB, macA)
	}
	if err := TsigVerify(bufB, secretB, "", false); err != nil {
		t.Errorf("what provider B signed does not verify with secret B: %v", err)
	}
}
