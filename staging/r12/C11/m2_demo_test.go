package dns

import (
	"testing"
	"time"
)

// A forger who knows the name of a key but not its secret sends a response whose
// TSIG says "BADSIG" (or "BADKEY") in its error field and carries no MAC at all.
// There is no HMAC in it that could equal the RFC 8945 digest, so TsigVerify, the
// map-backed provider and the client connection all have to refuse it.
func TestSeededC11m2(t *testing.T) {
	const secret = "pRZgBrBvI4NAHZYhxmhs/Q=="
	now := uint64(time.Now().Unix())

	forge := func(tsigError uint16) []byte {
		r := new(Msg)
		r.SetQuestion("example.org.", TypeA)
		r.Response = true
		a, _ := NewRR("example.org. 3600 IN A 192.0.2.66")
		r.Answer = append(r.Answer, a)
		r.Extra = append(r.Extra, &TSIG{
			Hdr:        RR_Header{Name: "key.", Rrtype: TypeTSIG, Class: ClassANY, Ttl: 0},
			Algorithm:  HmacSHA256,
			TimeSigned: now,
			Fudge:      300,
			OrigId:     r.Id,
			Error:      tsigError,
		})
		buf, err := r.Pack() // no key is needed to make this message
		if err != nil {
			t.Fatal(err)
		}
		return buf
	}

	for _, e := range []uint16{RcodeBadSig, RcodeBadKey} {
		if err := TsigVerify(forge(e), secret, "", false); err == nil {
			t.Errorf("TSIG error %d: TsigVerify accepted a message without MAC", e)
		}
		if err := TsigVerify(forge(e), secret, "0123456789abcdef0123456789abcdef0123456789abcdef0123456789abcdef", false); err == nil {
			t.Errorf("TSIG error %d: TsigVerify accepted a message without MAC as response to a signed request", e)
		}
		p := tsigSecretProvider(map[string]string{"key.": secret})
		if err := TsigVerifyWithProvider(forge(e), p, "", true); err == nil {
			t.Errorf("TSIG error %d: TsigVerifyWithProvider (timers only) accepted a message without MAC", e)
		}
	}

	// a TSIG without MAC and without error is refused before and after
	if err := TsigVerify(forge(RcodeSuccess), secret, "", false); err == nil {
		t.Errorf("TsigVerify accepted a message without MAC")
	}
}
