package dns

import (
	"encoding/binary"
	"testing"
	"time"
)

// RFC 8945 4.3.3 puts the CLASS of the TSIG RR into the digest ("TSIG variables":
// NAME, CLASS, TTL, algorithm, time signed, fudge, error, other len, other data).
// tsigBuffer does not use the CLASS that was received (rr.Hdr.Class) but the
// constant ClassANY, so every alteration of the two CLASS octets of the TSIG RR
// in a signed message goes unnoticed, and TsigGenerate puts whatever class the
// stub has on the wire while signing "ANY".
func TestSeededC11defect1(t *testing.T) {
	const secret = "pRZgBrBvI4NAHZYhxmhs/Q=="
	m := new(Msg)
	m.SetQuestion("example.org.", TypeA)
	m.SetTsig("key.", HmacSHA256, 300, time.Now().Unix())
	buf, _, err := TsigGenerate(m, secret, "", false)
	if err != nil {
		t.Fatal(err)
	}
	// header, question, then the TSIG RR: owner "key." (5 octets), TYPE, CLASS
	_, off, err := unpackQuestion(buf, headerSize)
	if err != nil {
		t.Fatal(err)
	}
	classOff := off + 5 + 2
	if typ := binary.BigEndian.Uint16(buf[off+5:]); typ != TypeTSIG {
		t.Fatalf("type at %d is %d, test looks at the wrong place", off+5, typ)
	}
	if class := binary.BigEndian.Uint16(buf[classOff:]); class != ClassANY {
		t.Fatalf("class at %d is %d, test looks at the wrong place", classOff, class)
	}
	if err := TsigVerify(append([]byte(nil), buf...), secret, "", false); err != nil {
		t.Fatalf("unaltered message: %v", err)
	}
	for bit := 0; bit < 16; bit++ {
		alt := append([]byte(nil), buf...)
		alt[classOff+bit/8] ^= 1 << (bit % 8)
		class := binary.BigEndian.Uint16(alt[classOff:]) // TsigVerify overwrites the buffer
		if err := TsigVerify(alt, secret, "", false); err == nil {
			t.Errorf("TSIG CLASS altered from %d to %d: message still verifies", ClassANY, class)
		}
	}
}
