package dns

import (
	"testing"
	"time"
)

// The digest takes the key name (and the algorithm name) through CanonicalName,
// which lower-cases the letters of the presentation form but not a letter that
// is written as \DDD. The signer digests "\075ey." as the octets 'K' 'e' 'y'; on
// the wire the name is 'K' 'e' 'y' too, the verifier reads it back as "Key.",
// lower-cases it and digests 'k' 'e' 'y'. What TsigGenerate signed does not
// verify with TsigVerify under the same key.
func TestSeededC11defect3(t *testing.T) {
	const secret = "pRZgBrBvI4NAHZYhxmhs/Q=="
	for _, name := range []string{"Key.", `\075ey.`} {
		m := new(Msg)
		m.SetQuestion("example.org.", TypeA)
		m.SetTsig(name, HmacSHA256, 300, time.Now().Unix())
		buf, _, err := TsigGenerate(m, secret, "", false)
		if err != nil {
			t.Fatalf("%s: %v", name, err)
		}
		if err := TsigVerify(buf, secret, "", false); err != nil {
			t.Errorf("key name %s: generated message does not verify: %v", name, err)
		}
	}
}
