package dns

import (
	"encoding/binary"
	"io"
	"net"
	"testing"
	"time"
)

// Conn.WriteMsg hands Conn.tsigRequestMAC to TsigGenerate as request MAC, and
// sets it to the MAC of what it just signed. The first signed query on a
// connection is signed as a request (no request MAC in the digest, RFC 8945
// 5.3: "request MAC" is only part of the digest of a response); the second
// signed query on the same connection (ExchangeWithConn, TCP pipelining, a
// NOTIFY after an UPDATE, ...) is signed with the MAC of the first query as
// "request MAC" and no receiver can verify it: a server verifies requests with
// an empty request MAC (server.go: TsigVerifyWithProvider(m, provider, "", false)).
func TestSeededC11defect2(t *testing.T) {
	const secret = "pRZgBrBvI4NAHZYhxmhs/Q=="
	cli, srv := net.Pipe()
	defer cli.Close()
	defer srv.Close()
	cli.SetDeadline(time.Now().Add(5 * time.Second))
	srv.SetDeadline(time.Now().Add(5 * time.Second))
	co := &Conn{Conn: cli, TsigSecret: map[string]string{"key.": secret}}

	type result struct {
		raw []byte
		err error
	}
	got := make(chan result, 2)
	go func() {
		for i := 0; i < 2; i++ {
			var l uint16
			if err := binary.Read(srv, binary.BigEndian, &l); err != nil {
				got <- result{nil, err}
				return
			}
			p := make([]byte, l)
			_, err := io.ReadFull(srv, p)
			got <- result{p, err}
		}
	}()

	for i := 0; i < 2; i++ {
		q := new(Msg)
		q.SetQuestion("example.org.", TypeA)
		q.SetTsig("key.", HmacSHA256, 300, time.Now().Unix())
		if err := co.WriteMsg(q); err != nil {
			t.Fatalf("query %d: %v", i+1, err)
		}
		r := <-got
		if r.err != nil {
			t.Fatalf("query %d: %v", i+1, r.err)
		}
		// what the receiver of a request does
		if err := TsigVerify(r.raw, secret, "", false); err != nil {
			t.Errorf("signed query %d on the connection does not verify as a request: %v", i+1, err)
		}
	}
}
