package dns

import (
	"encoding/binary"
	"io"
	"net"
	"testing"
	"time"
)

// A client that signed its query gets a response with the TC bit set whose TSIG
// was made with a secret the client does not have (a forger who does not know
// the key). Conn.ReadMsg has to report the bad signature like for any other
// response; only a response that verifies may come back without error.
func TestSeededC11m1(t *testing.T) {
	const (
		goodSecret = "pRZgBrBvI4NAHZYhxmhs/Q=="
		badSecret  = "NoTCJU+DMqFWywaPyxSijrDEA/eC3nK0xi3AMEZuPVk="
	)

	for _, truncated := range []bool{false, true} {
		cli, srv := net.Pipe()
		co := &Conn{Conn: cli, TsigSecret: map[string]string{"key.": goodSecret}}
		cli.SetDeadline(time.Now().Add(5 * time.Second))
		srv.SetDeadline(time.Now().Add(5 * time.Second))

		q := new(Msg)
		q.SetQuestion("example.org.", TypeA)
		q.SetTsig("key.", HmacSHA256, 300, time.Now().Unix())

		done := make(chan error, 1)
		go func() {
			// the other end: read the query, answer with a TSIG made with another secret
			var l uint16
			if err := binary.Read(srv, binary.BigEndian, &l); err != nil {
				done <- err
				return
			}
			p := make([]byte, l)
			if _, err := io.ReadFull(srv, p); err != nil {
				done <- err
				return
			}
			req := new(Msg)
			if err := req.Unpack(p); err != nil {
				done <- err
				return
			}
			r := new(Msg)
			r.SetReply(req)
			r.Truncated = truncated
			a, _ := NewRR("example.org. 3600 IN A 192.0.2.66")
			r.Answer = append(r.Answer, a)
			r.SetTsig("key.", HmacSHA256, 300, time.Now().Unix())
			out, _, err := TsigGenerate(r, badSecret, req.IsTsig().MAC, false)
			if err != nil {
				done <- err
				return
			}
			buf := make([]byte, 2+len(out))
			binary.BigEndian.PutUint16(buf, uint16(len(out)))
			copy(buf[2:], out)
			_, err = srv.Write(buf)
			done <- err
		}()

		if err := co.WriteMsg(q); err != nil {
			t.Fatalf("truncated=%v: write: %v", truncated, err)
		}
		r, err := co.ReadMsg()
		if werr := <-done; werr != nil {
			t.Fatalf("truncated=%v: forger: %v", truncated, werr)
		}
		if r == nil || r.IsTsig() == nil {
			t.Fatalf("truncated=%v: no response with TSIG came back: %v", truncated, err)
		}
		if err == nil {
			t.Errorf("truncated=%v: response signed with a secret the client does not have came back without error", truncated)
		}
		cli.Close()
		srv.Close()
	}
}
