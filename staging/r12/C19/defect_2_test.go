package dns

import "testing"

// Unchanged tree: CanonicalName folds the presentation octets only, so an
// upper-case letter spelled as a \DDD escape stays upper-case on the wire.
func TestSeededC19defect2(t *testing.T) {
	b := make([]byte, 300)
	n, err := PackDomainName(CanonicalName(`\065\066.NL`), b, 0, nil, false)
	if err != nil {
		t.Fatal(err)
	}
	for _, c := range b[:n] {
		if c >= 'A' && c <= 'Z' {
			t.Errorf("wire form of CanonicalName(`\\065\\066.NL`) = %q still has the upper-case letter %q: % x", CanonicalName(`\065\066.NL`), c, b[:n])
		}
	}
}
