package dns

import (
	"reflect"
	"testing"
)

// Every name but the root has at least one label, starting at offset 0; the
// helpers derived from Split must agree with that for names of any length.
func TestSeededC19m2(t *testing.T) {
	for _, s := range []string{"a", "7", "a.", "ab", "a.b", `\.`} {
		want := []int{0}
		if s == "a.b" {
			want = []int{0, 2}
		}
		if got := Split(s); !reflect.DeepEqual(got, want) {
			t.Errorf("Split(%q) = %v, want %v", s, got, want)
		}
		if got, want := len(Split(s)), CountLabel(s); got != want {
			t.Errorf("len(Split(%q)) = %d, CountLabel = %d", s, got, want)
		}
	}
	if got := SplitDomainName("a"); !reflect.DeepEqual(got, []string{"a"}) {
		t.Errorf("SplitDomainName(%q) = %v, want [a]", "a", got)
	}
	func() {
		defer func() {
			if r := recover(); r != nil {
				t.Errorf("CompareDomainName/IsSubDomain on a one-octet name panicked: %v", r)
			}
		}()
		if got := CompareDomainName("a", "A"); got != 1 {
			t.Errorf("CompareDomainName(a, A) = %d, want 1", got)
		}
		if got := CompareDomainName("www.a", "a"); got != 1 {
			t.Errorf("CompareDomainName(www.a, a) = %d, want 1", got)
		}
		if !IsSubDomain("a", "www.a") {
			t.Errorf("www.a is below a")
		}
	}()
}
