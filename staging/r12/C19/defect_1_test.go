package dns

import (
	"bytes"
	"testing"
)

// Unchanged tree: CompareDomainName and IsSubDomain compare the presentation
// octets of the labels, so two spellings of the same wire labels (\DDD or \X
// escapes of ordinary octets) do not count as shared labels.
func TestSeededC19defect1(t *testing.T) {
	wire := func(s string) []byte {
		b := make([]byte, 300)
		n, err := PackDomainName(s, b, 0, nil, false)
		if err != nil {
			t.Fatalf("pack %q: %v", s, err)
		}
		return b[:n]
	}
	for _, p := range [][2]string{
		{`\097.nl.`, `a.nl.`},
		{`\a.nl.`, `a.nl.`},
		{`\065.nl.`, `a.nl.`}, // differs in ASCII case only on the wire
		{`a\046b.nl.`, `a\.b.nl.`},
	} {
		if p[0] != `\065.nl.` && !bytes.Equal(wire(p[0]), wire(p[1])) {
			t.Fatalf("%q and %q should have the same wire form", p[0], p[1])
		}
		if got := CompareDomainName(p[0], p[1]); got != 2 {
			t.Errorf("CompareDomainName(%q, %q) = %d, want 2 (same wire labels)", p[0], p[1], got)
		}
		if !IsSubDomain(p[0], "www."+p[1]) {
			t.Errorf("IsSubDomain(%q, %q) = false, want true", p[0], "www."+p[1])
		}
	}
}
