package dnsutil

import "testing"

// package dnsutil. Unchanged tree: with the root as origin the apex does not
// survive the round trip, and TrimDomainName returns "" although it promises
// never to.
func TestSeededC19defect3(t *testing.T) {
	full := AddOrigin("@", ".")
	if full != "." {
		t.Fatalf("AddOrigin(@, .) = %q", full)
	}
	if got := TrimDomainName(full, "."); got != "@" {
		t.Errorf("TrimDomainName(AddOrigin(%q, %q), %q) = %q, want %q", "@", ".", ".", got, "@")
	}
}
