package dnsutil

import "testing"

// package dnsutil.
//
// Names are compared ASCII-case-insensitively, so the origin itself is the
// apex ("@") however it is spelled, and AddOrigin gives a name equal to the
// one TrimDomainName started from.
func TestSeededC19m3(t *testing.T) {
	for _, tc := range []struct{ s, origin, want string }{
		{"example.com.", "example.com.", "@"},
		{"Example.COM.", "example.com.", "@"},
		{"example.com", "EXAMPLE.com.", "@"},
		{"example.com.", "Example.Com", "@"},
		{"a\\.B.c.", "A\\.b.C.", "@"},
		{"www.Example.COM.", "example.com.", "www"},
	} {
		func() {
			defer func() {
				if r := recover(); r != nil {
					t.Errorf("TrimDomainName(%q, %q) panicked: %v", tc.s, tc.origin, r)
				}
			}()
			got := TrimDomainName(tc.s, tc.origin)
			if got != tc.want {
				t.Errorf("TrimDomainName(%q, %q) = %q, want %q", tc.s, tc.origin, got, tc.want)
				return
			}
			// and back again: the same name up to ASCII case and the final dot
			back := AddOrigin(got, tc.origin)
			if TrimDomainName(back, tc.s) != "@" {
				t.Errorf("AddOrigin(%q, %q) = %q, which is not %q", got, tc.origin, back, tc.s)
			}
		}()
	}
}
