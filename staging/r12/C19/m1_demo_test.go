package dns

import "testing"

// The common-suffix count and the sub-domain test must equal the number of
// shared trailing labels whatever the number of labels of the two names.
func TestSeededC19m1(t *testing.T) {
	for _, tc := range []struct {
		s1, s2 string
		n      int
	}{
		// 8 labels: fine either way
		{"a.b.c.d.e.f.example.org.", "example.org.", 2},
		// 9 to 16 labels in the first name
		{"a.b.c.d.e.f.g.example.org.", "example.org.", 2},
		{"a.b.c.d.e.f.g.h.i.example.org.", "example.org.", 2},
		{"a.b.c.d.e.f.g.h.i.example.org.", "x.y.I.Example.ORG.", 3},
		{"1.0.0.127.a.b.c.d.e.f.g.h.in-addr.arpa.", "h.in-addr.arpa.", 3},
		{"a.b.c.d.e.f.g.h.i.j.k.l.m.n.o.p.", "x.n.o.p.", 3},
		// the other way round, and long names on both sides
		{"example.org.", "a.b.c.d.e.f.g.h.i.example.org.", 2},
		{"a.b.c.d.e.f.g.h.i.j.k.l.m.n.o.p.q.r.", "z.b.c.d.e.f.g.h.i.j.k.l.m.n.o.p.q.r.", 17},
	} {
		func() {
			defer func() {
				if r := recover(); r != nil {
					t.Errorf("CompareDomainName(%q, %q) panicked: %v", tc.s1, tc.s2, r)
				}
			}()
			if got := CompareDomainName(tc.s1, tc.s2); got != tc.n {
				t.Errorf("CompareDomainName(%q, %q) = %d, want %d", tc.s1, tc.s2, got, tc.n)
			}
		}()
	}
	func() {
		defer func() {
			if r := recover(); r != nil {
				t.Errorf("IsSubDomain panicked: %v", r)
			}
		}()
		if !IsSubDomain("example.org.", "a.b.c.d.e.f.g.h.i.example.org.") {
			t.Errorf("a.b.c.d.e.f.g.h.i.example.org. is below example.org.")
		}
		if !IsSubDomain("b.c.d.e.f.g.h.i.example.org.", "a.b.c.d.e.f.g.h.i.example.org.") {
			t.Errorf("a.b.c.d.e.f.g.h.i.example.org. is below b.c.d.e.f.g.h.i.example.org.")
		}
	}()
}
