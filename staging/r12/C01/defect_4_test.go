package dns

import (
	"bytes"
	"testing"
)

// Two EDNS0 options have an optional tail, and the structs say "absent" with the
// value 0, which is a value the tail can have as well:
//
//   - edns-tcp-keepalive (RFC 7828): OPTION-LENGTH 2 with TIMEOUT 0 is what a server
//     sends to have the client close the connection (Section 3.3.2/3.4); it comes back
//     out with OPTION-LENGTH 0, which is the form a client sends in a query.
//   - Update Lease (draft-sekar-dns-ul, option 2): LEASE and KEY-LEASE, eight octets,
//     with KEY-LEASE 0 comes back out as the four-octet form.
//
// Fails on the unchanged tree.
func TestSeededC01defect4(t *testing.T) {
	for _, tc := range []struct {
		name string
		opt  []byte
	}{
		{"tcp-keepalive, TIMEOUT 0", []byte{0, 11, 0, 2, 0, 0}},
		{"update lease, KEY-LEASE 0", []byte{0, 2, 0, 8, 0, 0, 0x0e, 0x10, 0, 0, 0, 0}},
	} {
		wire := []byte{0, 1, 0x80, 0, 0, 0, 0, 0, 0, 0, 0, 1,
			0, 0, 41, 0x04, 0xd0, 0, 0, 0, 0, 0, byte(len(tc.opt))}
		wire = append(wire, tc.opt...)

		m := new(Msg)
		if err := m.Unpack(wire); err != nil {
			t.Errorf("%s: Unpack: %v", tc.name, err)
			continue
		}
		out, err := m.Pack()
		if err != nil {
			t.Errorf("%s: Pack: %v", tc.name, err)
			continue
		}
		if !bytes.Equal(out, wire) {
			t.Errorf("%s: unpack and pack do not give the message back:\n got %x\nwant %x", tc.name, out, wire)
		}
	}
}
