package dns

import (
	"bytes"
	"testing"
)

// RFC 9660, Section 3.1: a client asks for the zone version with an empty ZONEVERSION
// option (OPTION-LENGTH 0); only the answer carries LABELCOUNT, TYPE and VERSION.
// (*EDNS0_ZONEVERSION).unpack wants two octets at least, so the query - the whole
// message - is refused, and there is no way to build such a query either: pack always
// writes the two octets. Fails on the unchanged tree.
func TestSeededC01defect3(t *testing.T) {
	wire := []byte{0, 1, 0x00, 0, 0, 1, 0, 0, 0, 0, 0, 1,
		7, 'e', 'x', 'a', 'm', 'p', 'l', 'e', 0, 0, 6, 0, 1, // example. IN SOA
		0, 0, 41, 0x04, 0xd0, 0, 0, 0, 0, 0, 4, // . OPT, RDLENGTH 4
		0, 19, 0, 0} // ZONEVERSION, OPTION-LENGTH 0

	m := new(Msg)
	if err := m.Unpack(wire); err != nil {
		t.Fatalf("Unpack of a query with an empty ZONEVERSION option: %v", err)
	}
	out, err := m.Pack()
	if err != nil {
		t.Fatalf("Pack: %v", err)
	}
	if !bytes.Equal(out, wire) {
		t.Errorf("unpack and pack do not give the message back:\n got %x\nwant %x", out, wire)
	}
}
