package dns

import (
	"bytes"
	"testing"
)

// RFC 9460, Section 7.3: the value of "ipv6hint" is a list of 16-octet IPv6 addresses;
// nothing excludes ::ffff:0:0/96 (an operator behind NAT64/SIIT may well publish one).
// (*SVCBIPv6Hint).unpack - and pack - take an address for which net.IP.To4 is not nil
// for "an IPv4 address" and fail, and with the one parameter the whole message does.
// Fails on the unchanged tree.
func TestSeededC01defect6(t *testing.T) {
	hint := []byte{0, 0, 0, 0, 0, 0, 0, 0, 0, 0, 0xff, 0xff, 192, 0, 2, 1}
	wire := []byte{0, 1, 0x84, 0, 0, 0, 0, 1, 0, 0, 0, 0,
		7, 'e', 'x', 'a', 'm', 'p', 'l', 'e', 0, 0, 65, 0, 1, 0, 0, 0x0e, 0x10,
		0, byte(2 + 1 + 4 + len(hint)),
		0, 1, 0, // priority 1, target .
		0, 6, 0, byte(len(hint))} // ipv6hint
	wire = append(wire, hint...)

	m := new(Msg)
	if err := m.Unpack(wire); err != nil {
		t.Fatalf("Unpack: %v", err)
	}
	out, err := m.Pack()
	if err != nil {
		t.Fatalf("Pack: %v", err)
	}
	if !bytes.Equal(out, wire) {
		t.Errorf("unpack and pack do not give the message back:\n got %x\nwant %x", out, wire)
	}
}
