package dns

import (
	"bytes"
	"testing"
)

// RFC 8914, Section 2: EXTRA-TEXT is OPTION-LENGTH - 2 octets of text, which "may be
// null terminated". Whatever octets the sender put there are the field: unpacking a
// response and packing it again must give the response back.
func TestSeededC01m2(t *testing.T) {
	text := []byte("signature expired\x00")
	wire := []byte{
		0xbe, 0xef, 0x81, 0x82, // id, QR RD RA, SERVFAIL
		0, 1, 0, 0, 0, 0, 0, 1, // one question, one additional record
		7, 'e', 'x', 'a', 'm', 'p', 'l', 'e', 0, 0, 1, 0, 1, // example. IN A
		0, 0, 41, 0x04, 0xd0, 0, 0, 0, 0, // . OPT, 1232 octets, no flags
		0, byte(4 + 2 + len(text)), // RDLENGTH
		0, 15, 0, byte(2 + len(text)), // EDE, OPTION-LENGTH
		0, 7, // INFO-CODE 7, Signature Expired
	}
	wire = append(wire, text...)

	m := new(Msg)
	if err := m.Unpack(wire); err != nil {
		t.Fatalf("Unpack: %v", err)
	}
	opt := m.IsEdns0()
	if opt == nil || len(opt.Option) != 1 {
		t.Fatalf("no OPT record with one option in %v", m)
	}
	ede, ok := opt.Option[0].(*EDNS0_EDE)
	if !ok {
		t.Fatalf("option is a %T", opt.Option[0])
	}
	if ede.InfoCode != ExtendedErrorCodeSignatureExpired {
		t.Errorf("INFO-CODE: got %d, want %d", ede.InfoCode, ExtendedErrorCodeSignatureExpired)
	}
	if ede.ExtraText != string(text) {
		t.Errorf("EXTRA-TEXT: got %q, want %q", ede.ExtraText, text)
	}

	out, err := m.Pack()
	if err != nil {
		t.Fatalf("Pack: %v", err)
	}
	if !bytes.Equal(out, wire) {
		t.Errorf("unpack and pack do not give the message back:\n got %x\nwant %x", out, wire)
	}

	// A text that is only the terminator is one octet of text as well.
	e := new(EDNS0_EDE)
	if err := e.unpack([]byte{0, 0, 0}); err != nil {
		t.Fatal(err)
	}
	if b, _ := e.pack(); !bytes.Equal(b, []byte{0, 0, 0}) {
		t.Errorf("option data 000000 came back as %x", b)
	}
}
