package dns

import "testing"

// A compressed message must unpack to the names it was built from, octet for octet:
// RFC 1035 compares names without regard to case, but it transmits them with their
// case, and so does Msg.Pack for every name it writes out in full.
func TestSeededC01m1(t *testing.T) {
	m := new(Msg)
	m.SetQuestion("example.COM.", TypeMX)
	m.Response = true
	m.Compress = true
	m.Answer = []RR{
		&MX{Hdr: RR_Header{Name: "example.COM.", Rrtype: TypeMX, Class: ClassINET, Ttl: 300}, Preference: 10, Mx: "Mail.Example.com."},
	}
	m.Extra = []RR{
		&A{Hdr: RR_Header{Name: "Mail.Example.com.", Rrtype: TypeA, Class: ClassINET, Ttl: 300}, A: []byte{192, 0, 2, 1}},
	}

	wire, err := m.Pack()
	if err != nil {
		t.Fatalf("Pack: %v", err)
	}
	if want := m.Len(); len(wire) != want {
		t.Errorf("Len() = %d, packed %d octets", want, len(wire))
	}

	var got Msg
	if err := got.Unpack(wire); err != nil {
		t.Fatalf("Unpack: %v", err)
	}
	if n := got.Question[0].Name; n != "example.COM." {
		t.Errorf("question name: got %q, want %q", n, "example.COM.")
	}
	if len(got.Answer) != 1 || len(got.Extra) != 1 {
		t.Fatalf("sections: got %d answer, %d extra", len(got.Answer), len(got.Extra))
	}
	if n := got.Answer[0].Header().Name; n != "example.COM." {
		t.Errorf("answer owner: got %q, want %q", n, "example.COM.")
	}
	if n := got.Answer[0].(*MX).Mx; n != "Mail.Example.com." {
		t.Errorf("MX exchange: got %q, want %q", n, "Mail.Example.com.")
	}
	if n := got.Extra[0].Header().Name; n != "Mail.Example.com." {
		t.Errorf("additional owner: got %q, want %q", n, "Mail.Example.com.")
	}

	// The same message without compression is the reference for every name.
	m.Compress = false
	plain, err := m.Pack()
	if err != nil {
		t.Fatalf("Pack (uncompressed): %v", err)
	}
	var ref Msg
	if err := ref.Unpack(plain); err != nil {
		t.Fatalf("Unpack (uncompressed): %v", err)
	}
	if a, b := got.Answer[0].String(), ref.Answer[0].String(); a != b {
		t.Errorf("compressed and uncompressed forms differ:\n%s\n%s", a, b)
	}
	if a, b := got.Extra[0].String(), ref.Extra[0].String(); a != b {
		t.Errorf("compressed and uncompressed forms differ:\n%s\n%s", a, b)
	}
}
