package dns

import (
	"bytes"
	"testing"
)

// RFC 1183, Section 3.2: the RDATA of ISDN is <ISDN-address> and, optionally, <sa>.
// (*ISDN).unpack takes the record without sub-address (it stops at the end of the
// RDATA), (*ISDN).pack always writes both <character-string>s, so the record comes
// back out one octet longer, with an empty sub-address that was not there.
// Fails on the unchanged tree.
func TestSeededC01defect5(t *testing.T) {
	wire := []byte{0, 1, 0x84, 0, 0, 0, 0, 1, 0, 0, 0, 0,
		7, 'e', 'x', 'a', 'm', 'p', 'l', 'e', 0, 0, 20, 0, 1, 0, 0, 0x0e, 0x10,
		0, 16, 15, '1', '5', '0', '8', '6', '2', '0', '2', '8', '0', '0', '3', '2', '1', '7'}

	m := new(Msg)
	if err := m.Unpack(wire); err != nil {
		t.Fatalf("Unpack: %v", err)
	}
	out, err := m.Pack()
	if err != nil {
		t.Fatalf("Pack: %v", err)
	}
	if !bytes.Equal(out, wire) {
		t.Errorf("unpack and pack do not give the message back:\n got %x\nwant %x", out, wire)
	}
}
