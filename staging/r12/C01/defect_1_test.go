package dns

import (
	"bytes"
	"testing"
)

// CAA.Value and URI.Target (struct tag "octet") are read from the wire as they are
// (unpackStringOctet) but written through packOctetString, which takes a backslash for
// the start of an escape. A value with a backslash in it loses that octet on the way
// back out. Fails on the unchanged tree.
func TestSeededC01defect1(t *testing.T) {
	for _, tc := range []struct {
		name  string
		rtype uint16
		rdata []byte
	}{
		{"CAA", TypeCAA, append([]byte{0, 5, 'i', 's', 's', 'u', 'e'}, `ca.example; account=a\b`...)},
		{"URI", TypeURI, append([]byte{0, 10, 0, 1}, `https://example.org/a\092b`...)},
	} {
		wire := []byte{0, 1, 0x84, 0, 0, 0, 0, 1, 0, 0, 0, 0,
			7, 'e', 'x', 'a', 'm', 'p', 'l', 'e', 0,
			byte(tc.rtype >> 8), byte(tc.rtype), 0, 1, 0, 0, 0x0e, 0x10,
			0, byte(len(tc.rdata))}
		wire = append(wire, tc.rdata...)

		m := new(Msg)
		if err := m.Unpack(wire); err != nil {
			t.Fatalf("%s: Unpack: %v", tc.name, err)
		}
		out, err := m.Pack()
		if err != nil {
			t.Fatalf("%s: Pack: %v", tc.name, err)
		}
		if !bytes.Equal(out, wire) {
			t.Errorf("%s: unpack and pack do not give the message back:\n got %x\nwant %x", tc.name, out, wire)
		}
	}
}
