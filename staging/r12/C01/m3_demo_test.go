package dns

import (
	"bytes"
	"strings"
	"testing"
)

// The largest message there is has 65535 octets: that is what the two-octet length
// prefix of DNS over TCP (RFC 1035, Section 4.2.2) can announce, and MaxMsgSize. A zone
// transfer envelope filled to the brim is such a message. It packs, it unpacks to the
// same records and it packs to the same octets again; one octet less does, too.
func TestSeededC01m3(t *testing.T) {
	build := func(size int) *Msg {
		m := new(Msg)
		m.Id = 0x1234
		m.Response = true
		m.Authoritative = true
		m.Question = []Question{{Name: "example.org.", Qtype: TypeAXFR, Qclass: ClassINET}}
		l := m.Len()
		for i := 0; ; i++ {
			rr := &TXT{
				Hdr: RR_Header{Name: "example.org.", Rrtype: TypeTXT, Class: ClassINET, Ttl: 3600},
				Txt: []string{strings.Repeat("x", 200), strings.Repeat("y", 100)},
			}
			if l+Len(rr)+40 > size {
				break
			}
			m.Answer = append(m.Answer, rr)
			l += Len(rr)
		}
		// One record of an unknown type takes the room that is left.
		fill := &RFC3597{Hdr: RR_Header{Name: "example.org.", Rrtype: 65280, Class: ClassINET, Ttl: 3600}}
		fill.Rdata = strings.Repeat("ab", size-l-Len(fill))
		m.Answer = append(m.Answer, fill)
		if got := m.Len(); got != size {
			t.Fatalf("built a message of %d octets, want %d", got, size)
		}
		return m
	}

	for _, size := range []int{MaxMsgSize - 1, MaxMsgSize} {
		m := build(size)
		wire, err := m.Pack()
		if err != nil {
			t.Errorf("%d octets: Pack: %v", size, err)
			continue
		}
		if len(wire) != size {
			t.Errorf("%d octets: Pack gave %d octets", size, len(wire))
		}
		var back Msg
		if err := back.Unpack(wire); err != nil {
			t.Errorf("%d octets: Unpack: %v", size, err)
			continue
		}
		if len(back.Answer) != len(m.Answer) {
			t.Errorf("%d octets: %d answers came back, want %d", size, len(back.Answer), len(m.Answer))
			continue
		}
		for i := range m.Answer {
			if a, b := back.Answer[i].String(), m.Answer[i].String(); a != b {
				t.Errorf("%d octets: answer %d: got %s, want %s", size, i, a, b)
				break
			}
		}
		again, err := back.Pack()
		if err != nil {
			t.Errorf("%d octets: Pack of the unpacked message: %v", size, err)
			continue
		}
		if !bytes.Equal(again, wire) {
			t.Errorf("%d octets: unpack and pack do not give the message back", size)
		}
	}
}
