package dns

import (
	"bytes"
	"testing"
)

// RFC 2136, Sections 2.4.1, 2.4.3 and 2.5.2: "RRset exists", "RRset does not exist"
// and "delete an RRset" are records of the type in question with RDLENGTH 0.
// UnpackRRWithHeader gives the typed record with all fields zero; the generated pack
// functions write every integer field whatever the record came from, so the record
// goes out with RDATA (MX: 2 octets, SRV: 6, SOA: 20, ...) - which is a different
// request: "delete the RR with this RDATA". Types that only have names, addresses or
// strings (A, AAAA, NS, TXT ...) are fine. Fails on the unchanged tree.
func TestSeededC01defect2(t *testing.T) {
	for _, rtype := range []uint16{TypeA, TypeNS, TypeMX, TypeSRV, TypeSOA, TypeDS, TypeDNSKEY, TypeNAPTR, TypeCAA, TypeSVCB, TypeLOC} {
		wire := []byte{0, 1, 0x28, 0, 0, 1, 0, 0, 0, 1, 0, 0,
			7, 'e', 'x', 'a', 'm', 'p', 'l', 'e', 0, 0, 6, 0, 1, // zone: example. IN SOA
			1, 'a', 7, 'e', 'x', 'a', 'm', 'p', 'l', 'e', 0, // a.example.
			byte(rtype >> 8), byte(rtype), 0, 255, 0, 0, 0, 0, // class ANY, TTL 0
			0, 0} // RDLENGTH 0

		m := new(Msg)
		if err := m.Unpack(wire); err != nil {
			t.Errorf("%s: Unpack: %v", TypeToString[rtype], err)
			continue
		}
		if l := Len(m.Ns[0]); l != 11+10 {
			t.Errorf("%s: Len() of the record without RDATA is %d, want %d", TypeToString[rtype], l, 11+10)
		}
		out, err := m.Pack()
		if err != nil {
			t.Errorf("%s: Pack: %v", TypeToString[rtype], err)
			continue
		}
		if !bytes.Equal(out, wire) {
			t.Errorf("%s: the record without RDATA was packed with RDLENGTH %d", TypeToString[rtype], len(out)-len(wire))
		}
	}
}
