package dns

import (
	"strings"
	"testing"
)

// Unchanged tree: a name the packer has just refused is accepted on the next
// call with the same compression map, and is written as a pointer into the
// octets the refused call left behind.
func TestSeededC03defect1(t *testing.T) {
	for _, bad := range []string{
		"a." + strings.Repeat("x", 64) + ".example.", // 64-octet label
		"a..example.", // empty label
	} {
		if _, ok := IsDomainName(bad); ok {
			t.Fatalf("IsDomainName accepts %q", bad)
		}
		msg := make([]byte, 512)
		comp := map[string]int{}
		if _, err := PackDomainName(bad, msg, 12, comp, true); err == nil {
			t.Fatalf("first PackDomainName(%q) succeeded", bad)
		}
		// the caller skips the record and goes on with the next one
		for _, name := range []string{bad, "www." + bad} {
			off, err := PackDomainName(name, msg, 100, comp, true)
			if err == nil {
				got, _, uerr := UnpackDomainName(msg, 100)
				t.Errorf("PackDomainName accepts %q after having refused it (off %d); it reads back as %q, %v", name, off, got, uerr)
			}
		}
	}
}
