package dns

import "testing"

// Every name of a message must come back from Pack/Unpack with the very
// octets it was given, also when an earlier name of the same message differs
// from it in the case of its letters only.
func TestSeededC03m1(t *testing.T) {
	// 1. PackDomainName / UnpackDomainName with a compression map
	buf := make([]byte, 128)
	comp := map[string]int{}
	off, err := PackDomainName("Example.ORG.", buf, 12, comp, true)
	if err != nil {
		t.Fatalf("pack first name: %v", err)
	}
	start := off
	if _, err = PackDomainName("www.example.org.", buf, off, comp, true); err != nil {
		t.Fatalf("pack second name: %v", err)
	}
	name, _, err := UnpackDomainName(buf, start)
	if err != nil {
		t.Fatalf("unpack second name: %v", err)
	}
	if name != "www.example.org." {
		t.Errorf("PackDomainName(%q) reads back as %q", "www.example.org.", name)
	}

	// 2. a whole message
	m := new(Msg)
	m.Compress = true
	m.SetQuestion("eXaMpLe.oRg.", TypeMX)
	m.Answer = []RR{
		&MX{Hdr: RR_Header{Name: "example.org.", Rrtype: TypeMX, Class: ClassINET, Ttl: 60}, Preference: 10, Mx: "Mail.Example.Org."},
		&MX{Hdr: RR_Header{Name: "example.org.", Rrtype: TypeMX, Class: ClassINET, Ttl: 60}, Preference: 20, Mx: "mail.example.org."},
	}
	wire, err := m.Pack()
	if err != nil {
		t.Fatalf("pack message: %v", err)
	}
	back := new(Msg)
	if err := back.Unpack(wire); err != nil {
		t.Fatalf("unpack message: %v", err)
	}
	if got := back.Question[0].Name; got != "eXaMpLe.oRg." {
		t.Errorf("question name read back as %q", got)
	}
	for i, rr := range back.Answer {
		want := m.Answer[i].(*MX)
		got := rr.(*MX)
		if got.Hdr.Name != want.Hdr.Name {
			t.Errorf("answer %d: owner %q read back as %q", i, want.Hdr.Name, got.Hdr.Name)
		}
		if got.Mx != want.Mx {
			t.Errorf("answer %d: exchanger %q read back as %q", i, want.Mx, got.Mx)
		}
	}
}
