package dns

import "testing"

// IsDomainName and PackDomainName must agree on every fully qualified name,
// whatever the spelling of its escapes: a backslash in front of a digit that
// does not start a full \DDD quotes that digit (RFC 1035, "\X").
func TestSeededC03m2(t *testing.T) {
	for _, tc := range []struct {
		name string
		wire string // "" when the name must be refused by both
	}{
		{`a\1b.example.`, "\x03a1b\x07example\x00"},
		{`\1.example.`, "\x011\x07example\x00"},
		{`\12.example.`, "\x0212\x07example\x00"},
		{`x\12y.example.`, "\x04x12y\x07example\x00"},
		{`a.b\9.`, "\x01a\x02b9\x00"},
		{`\1\2\3.`, "\x03123\x00"},
		{`\049.example.`, "\x011\x07example\x00"}, // the \DDD spelling of the same octet
		{`a\1b..example.`, ""},
	} {
		_, valid := IsDomainName(tc.name)
		buf := make([]byte, 300)
		off, err := PackDomainName(tc.name, buf, 0, nil, false)
		if valid != (err == nil) {
			t.Errorf("%q: IsDomainName says %v, PackDomainName says %v", tc.name, valid, err)
		}
		if (tc.wire != "") != valid {
			t.Errorf("%q: IsDomainName says %v, want %v", tc.name, valid, tc.wire != "")
		}
		if err == nil && string(buf[:off]) != tc.wire {
			t.Errorf("%q: packed as % x, want % x", tc.name, buf[:off], tc.wire)
		}
		if tc.wire != "" {
			// and the zone parser, which asks IsDomainName, takes what the packer takes
			if _, err := NewRR(tc.name + " 3600 IN NS ns.example."); err != nil {
				t.Errorf("%q as owner name: %v", tc.name, err)
			}
		}
	}
}
