package dns

import (
	"fmt"
	"strings"
	"testing"
)

// The presentation form of a label octet is fixed: a backslash in front of
// the special characters . space ' @ ; ( ) " \, \DDD for everything outside
// the printable ASCII range, the octet itself otherwise - for all 256 octet
// values, wherever they stand in the label, from the unpacker and from the
// printer alike.
func TestSeededC03m3(t *testing.T) {
	want := func(b byte) string {
		switch {
		case strings.IndexByte(`. '@;()"\`, b) >= 0:
			return `\` + string([]byte{b})
		case b < ' ' || b > '~':
			return fmt.Sprintf(`\%03d`, b)
		}
		return string([]byte{b})
	}
	for v := 0; v < 256; v++ {
		b := byte(v)
		for pos, label := range [][]byte{{b, 'x', 'y'}, {'x', b, 'y'}, {'x', 'y', b}} {
			wire := append(append([]byte{3}, label...), 7, 'e', 'x', 'a', 'm', 'p', 'l', 'e', 0)
			exp := ""
			for _, c := range label {
				exp += want(c)
			}
			exp += ".example."

			got, _, err := UnpackDomainName(wire, 0)
			if err != nil {
				t.Fatalf("octet %d at %d: %v", v, pos, err)
			}
			if got != exp {
				t.Errorf("octet %d at %d: UnpackDomainName gives %q, want %q", v, pos, got, exp)
			}
			// the printer, from the raw octets and from its own output
			raw := string(label) + ".example."
			if b == '.' || b == '\\' {
				raw = exp
			}
			if s := Name(raw).String(); s != exp {
				t.Errorf("octet %d at %d: Name(%q).String() gives %q, want %q", v, pos, raw, s, exp)
			}
			if s := Name(got).String(); s != exp {
				t.Errorf("octet %d at %d: Name(%q).String() gives %q, want %q", v, pos, got, s, exp)
			}
		}
	}
}
