package dns

import (
	"net"
	"runtime"
	"testing"
	"time"
)

// A handler may answer a UDP request after ServeDNS has returned (a forwarder that
// waits for its upstream in a goroutine does exactly this). The response writer it was
// given belongs to that one request: whatever the server does for other clients in
// the meantime, the late answer has to reach the client that asked.
func TestSeededC12m1(t *testing.T) {
	defer runtime.GOMAXPROCS(runtime.GOMAXPROCS(1))

	type pending struct {
		w ResponseWriter
		r *Msg
	}
	late := make(chan pending, 1)

	mux := NewServeMux()
	mux.HandleFunc("late.example.", func(w ResponseWriter, r *Msg) {
		// answered later, from the test
		late <- pending{w, r}
	})
	mux.HandleFunc("now.example.", func(w ResponseWriter, r *Msg) {
		m := new(Msg)
		m.SetReply(r)
		w.WriteMsg(m)
	})

	pc, err := net.ListenPacket("udp", "127.0.0.1:0")
	if err != nil {
		t.Fatal(err)
	}
	started := make(chan struct{})
	srv := &Server{PacketConn: pc, Handler: mux, NotifyStartedFunc: func() { close(started) }}
	done := make(chan error, 1)
	go func() { done <- srv.ActivateAndServe() }()
	<-started
	defer func() {
		srv.Shutdown()
		<-done
	}()
	addr := pc.LocalAddr().String()

	for i := 0; i < 50; i++ {
		// client A asks, its handler keeps the writer and returns
		a, err := Dial("udp", addr)
		if err != nil {
			t.Fatal(err)
		}
		qa := new(Msg)
		qa.SetQuestion("late.example.", TypeTXT)
		qa.Id = uint16(1000 + i)
		if err := a.WriteMsg(qa); err != nil {
			t.Fatal(err)
		}
		var p pending
		select {
		case p = <-late:
		case <-time.After(5 * time.Second):
			t.Fatal("handler of client A was not called")
		}
		// give serveUDPPacket of A the time to finish after its handler returned
		time.Sleep(2 * time.Millisecond)

		// client B is served completely in the meantime
		b, err := Dial("udp", addr)
		if err != nil {
			t.Fatal(err)
		}
		qb := new(Msg)
		qb.SetQuestion("now.example.", TypeA)
		qb.Id = uint16(2000 + i)
		if err := b.WriteMsg(qb); err != nil {
			t.Fatal(err)
		}
		b.SetReadDeadline(time.Now().Add(5 * time.Second))
		rb, err := b.ReadMsg()
		if err != nil {
			t.Fatalf("round %d: client B: %v", i, err)
		}
		if rb.Id != qb.Id || rb.Question[0].Name != "now.example." {
			t.Fatalf("round %d: client B got a reply that is not its own: id %d %v", i, rb.Id, rb.Question)
		}
		time.Sleep(2 * time.Millisecond)

		// now the handler of A answers
		ra := new(Msg)
		ra.SetReply(p.r)
		ra.Answer = []RR{&TXT{Hdr: RR_Header{Name: "late.example.", Rrtype: TypeTXT, Class: ClassINET}, Txt: []string{"for A"}}}
		if err := p.w.WriteMsg(ra); err != nil {
			t.Fatalf("round %d: late write: %v", i, err)
		}

		a.SetReadDeadline(time.Now().Add(time.Second))
		got, err := a.ReadMsg()
		if err != nil {
			// where did it go?
			b.SetReadDeadline(time.Now().Add(200 * time.Millisecond))
			if stray, err2 := b.ReadMsg(); err2 == nil {
				t.Fatalf("round %d: client A got no reply (%v); client B received id %d %v meant for A", i, err, stray.Id, stray.Question)
			}
			t.Fatalf("round %d: client A got no reply: %v", i, err)
		}
		if got.Id != qa.Id || len(got.Answer) != 1 || got.Question[0].Name != "late.example." {
			t.Fatalf("round %d: client A got a reply that is not its own: %v", i, got)
		}
		a.Close()
		b.Close()
	}
}
