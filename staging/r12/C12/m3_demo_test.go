package dns

import (
	"net"
	"strings"
	"testing"
	"time"
)

// An incremental zone transfer may be asked for over UDP (RFC 1995). The query advertises
// an EDNS0 buffer of 4096 octets and the handler writes one reply of about 760 octets:
// the client has to receive that reply whole, RR for RR.
func TestSeededC12m3(t *testing.T) {
	soa := func(serial uint32) RR {
		return &SOA{Hdr: RR_Header{Name: "example.org.", Rrtype: TypeSOA, Class: ClassINET, Ttl: 3600},
			Ns: "ns.example.org.", Mbox: "hostmaster.example.org.", Serial: serial,
			Refresh: 3600, Retry: 600, Expire: 86400, Minttl: 60}
	}
	txt := func(i int) RR {
		// 100 octets each: the fourth one ends at offset 512 of the reply
		return &TXT{Hdr: RR_Header{Name: "example.org.", Rrtype: TypeTXT, Class: ClassINET, Ttl: 3600},
			Txt: []string{string(rune('a'+i)) + strings.Repeat("x", 75)}}
	}
	// The server is at serial 7 and has no history: it answers with the whole zone.
	zone := []RR{soa(7), txt(0), txt(1), txt(2), txt(3), txt(4), soa(7)}

	mux := NewServeMux()
	mux.HandleFunc("example.org.", func(w ResponseWriter, r *Msg) {
		m := new(Msg)
		m.SetReply(r)
		m.Authoritative = true
		m.Answer = zone
		if err := w.WriteMsg(m); err != nil {
			t.Errorf("handler: %v", err)
		}
	})

	pc, err := net.ListenPacket("udp", "127.0.0.1:0")
	if err != nil {
		t.Fatal(err)
	}
	started := make(chan struct{})
	srv := &Server{PacketConn: pc, Handler: mux, NotifyStartedFunc: func() { close(started) }}
	done := make(chan error, 1)
	go func() { done <- srv.ActivateAndServe() }()
	<-started
	defer func() {
		srv.Shutdown()
		<-done
	}()
	addr := pc.LocalAddr().String()

	co, err := Dial("udp", addr)
	if err != nil {
		t.Fatal(err)
	}
	tr := &Transfer{Conn: co, ReadTimeout: time.Second}
	q := new(Msg)
	q.SetIxfr("example.org.", 3, "ns.example.org.", "hostmaster.example.org.")
	q.SetEdns0(4096, false)

	env, err := tr.In(q, addr)
	if err != nil {
		t.Fatal(err)
	}
	var got []RR
	for e := range env {
		if e.Error != nil {
			t.Fatalf("transfer failed after %d of %d RRs: %v", len(got), len(zone), e.Error)
		}
		got = append(got, e.RR...)
	}
	if len(got) != len(zone) {
		t.Fatalf("received %d RRs, the handler wrote %d", len(got), len(zone))
	}
	for i := range zone {
		if got[i].String() != zone[i].String() {
			t.Fatalf("RR %d: received %q, the handler wrote %q", i, got[i], zone[i])
		}
	}
}
