package dns

import (
	"net"
	"strings"
	"testing"
	"time"
)

// A client sends a dynamic update of 612 octets over UDP to a server with the default
// receive buffer of 512 octets. The kernel cuts the datagram to the buffer (and says so,
// MSG_TRUNC, which ReadFromSessionUDP drops). The cut happens to fall between two RRs,
// and a message that ends between two RRs unpacks without an error whatever the counts
// in its header promise: the handler is given an update with four RRs where the client
// sent five, and nothing tells it so.
func TestSeededC12defect2(t *testing.T) {
	txt := func(tag string, n int) RR {
		return &TXT{Hdr: RR_Header{Name: "example.org.", Rrtype: TypeTXT, Class: ClassINET, Ttl: 3600},
			Txt: []string{tag + strings.Repeat("x", n-1)}}
	}
	q := new(Msg)
	q.SetUpdate("example.org.")
	// 12 header + 17 zone + 3*100 + 183 = 512, then one more RR of 100 octets
	q.Insert([]RR{txt("a", 76), txt("b", 76), txt("c", 76), txt("d", 159), txt("e", 76)})
	wire, err := q.Pack()
	if err != nil {
		t.Fatal(err)
	}
	if len(wire) != 612 {
		t.Fatalf("test setup: update is %d octets, expected 612", len(wire))
	}

	seen := make(chan *Msg, 1)
	pc, err := net.ListenPacket("udp", "127.0.0.1:0")
	if err != nil {
		t.Fatal(err)
	}
	started := make(chan struct{})
	srv := &Server{PacketConn: pc, NotifyStartedFunc: func() { close(started) },
		// the default accept function answers every UPDATE with NOTIMP, a server that
		// supports dynamic updates has to bring its own
		MsgAcceptFunc: func(dh Header) MsgAcceptAction { return MsgAccept },
		Handler: HandlerFunc(func(w ResponseWriter, r *Msg) {
			seen <- r.Copy()
			m := new(Msg)
			m.SetReply(r)
			w.WriteMsg(m)
		})}
	done := make(chan error, 1)
	go func() { done <- srv.ActivateAndServe() }()
	<-started
	defer func() {
		srv.Shutdown()
		<-done
	}()

	c := &Client{Net: "udp", Timeout: 2 * time.Second}
	r, _, err := c.Exchange(q, pc.LocalAddr().String())

	select {
	case got := <-seen:
		if len(got.Ns) != len(q.Ns) {
			rc := -1
			if r != nil {
				rc = r.Rcode
			}
			t.Fatalf("the client sent an update with %d RRs, the handler was given one with %d RRs (exchange: rcode %d, err %v)",
				len(q.Ns), len(got.Ns), rc, err)
		}
	default:
		// refused before the handler (FORMERR, or no answer at all) is fine: the request was not mangled
	}
}
