package dns

import (
	"net"
	"testing"
	"time"
)

// A late, correctly signed reply to an earlier query that timed out arrives on the
// connection before the reply to the current query. It has another ID, so the datagram
// exchange should skip it and return the reply that follows. Instead the TSIG of the
// stale reply is verified against the MAC of the current query, fails, and the exchange
// is aborted with a signature error although the real reply is already on its way.
func TestSeededC12defect1(t *testing.T) {
	secret := map[string]string{"key.": "c2VjcmV0IHNlY3JldCBzZWNyZXQ="}
	release := make(chan struct{})
	oneWritten := make(chan struct{})

	reply := func(w ResponseWriter, r *Msg) {
		m := new(Msg)
		m.SetReply(r)
		if r.IsTsig() != nil && w.TsigStatus() == nil {
			m.SetTsig("key.", HmacSHA256, 300, time.Now().Unix())
		}
		if err := w.WriteMsg(m); err != nil {
			t.Errorf("handler: %v", err)
		}
	}
	mux := NewServeMux()
	mux.HandleFunc("one.example.", func(w ResponseWriter, r *Msg) {
		<-release // slower than the client is willing to wait
		reply(w, r)
		close(oneWritten)
	})
	mux.HandleFunc("two.example.", func(w ResponseWriter, r *Msg) {
		close(release)
		<-oneWritten // the stale reply goes out first
		reply(w, r)
	})

	pc, err := net.ListenPacket("udp", "127.0.0.1:0")
	if err != nil {
		t.Fatal(err)
	}
	started := make(chan struct{})
	srv := &Server{PacketConn: pc, Handler: mux, TsigSecret: secret, NotifyStartedFunc: func() { close(started) }}
	done := make(chan error, 1)
	go func() { done <- srv.ActivateAndServe() }()
	<-started
	defer func() {
		srv.Shutdown()
		<-done
	}()

	c := &Client{Net: "udp", TsigSecret: secret, Timeout: 300 * time.Millisecond}
	co, err := c.Dial(pc.LocalAddr().String())
	if err != nil {
		t.Fatal(err)
	}
	defer co.Close()

	q1 := new(Msg)
	q1.SetQuestion("one.example.", TypeA)
	q1.Id = 1111
	q1.SetTsig("key.", HmacSHA256, 300, time.Now().Unix())
	if _, _, err := c.ExchangeWithConn(q1, co); err == nil {
		t.Fatal("the first exchange was expected to time out")
	}

	c.Timeout = 5 * time.Second
	q2 := new(Msg)
	q2.SetQuestion("two.example.", TypeA)
	q2.Id = 2222
	q2.SetTsig("key.", HmacSHA256, 300, time.Now().Unix())
	r, _, err := c.ExchangeWithConn(q2, co)
	if err != nil {
		id := -1
		if r != nil {
			id = int(r.Id)
		}
		t.Fatalf("second exchange: %v (message returned has id %d, asked with id %d): the stale reply was not skipped", err, id, q2.Id)
	}
	if r.Id != q2.Id || r.Question[0].Name != "two.example." {
		t.Fatalf("second exchange returned a foreign reply: id %d %v", r.Id, r.Question)
	}
}
