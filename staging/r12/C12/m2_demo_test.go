package dns

import (
	"net"
	"runtime"
	"strings"
	"testing"
	"time"
)

// Two clients talk to one UDP server. The handler cannot build the (compressed) answer
// for the first one - a TXT string taken from its data is too long, WriteMsg returns an
// error and the handler falls back to SERVFAIL. That failure is the business of the first
// client only: the second client has to receive exactly the reply its handler wrote.
func TestSeededC12m2(t *testing.T) {
	defer runtime.GOMAXPROCS(runtime.GOMAXPROCS(1))

	mux := NewServeMux()
	mux.HandleFunc("failing.example.org.", func(w ResponseWriter, r *Msg) {
		m := new(Msg)
		m.SetReply(r)
		m.Compress = true
		m.Answer = []RR{
			&TXT{Hdr: RR_Header{Name: "failing.example.org.", Rrtype: TypeTXT, Class: ClassINET, Ttl: 60}, Txt: []string{"ok"}},
			&TXT{Hdr: RR_Header{Name: "failing.example.org.", Rrtype: TypeTXT, Class: ClassINET, Ttl: 60}, Txt: []string{strings.Repeat("x", 300)}},
		}
		if err := w.WriteMsg(m); err == nil {
			t.Error("the over-long TXT string was packed")
			return
		}
		f := new(Msg)
		f.SetRcode(r, RcodeServerFailure)
		w.WriteMsg(f)
	})
	mux.HandleFunc("www.example.org.", func(w ResponseWriter, r *Msg) {
		m := new(Msg)
		m.SetReply(r)
		m.Compress = true
		m.Answer = []RR{
			&CNAME{Hdr: RR_Header{Name: "www.example.org.", Rrtype: TypeCNAME, Class: ClassINET, Ttl: 60}, Target: "host.example.org."},
			&A{Hdr: RR_Header{Name: "host.example.org.", Rrtype: TypeA, Class: ClassINET, Ttl: 60}, A: net.IPv4(192, 0, 2, 1).To4()},
		}
		w.WriteMsg(m)
	})

	pc, err := net.ListenPacket("udp", "127.0.0.1:0")
	if err != nil {
		t.Fatal(err)
	}
	started := make(chan struct{})
	srv := &Server{PacketConn: pc, Handler: mux, NotifyStartedFunc: func() { close(started) }}
	done := make(chan error, 1)
	go func() { done <- srv.ActivateAndServe() }()
	<-started
	defer func() {
		srv.Shutdown()
		<-done
	}()
	addr := pc.LocalAddr().String()

	c := &Client{Net: "udp", Timeout: 5 * time.Second}
	for i := 0; i < 20; i++ {
		qa := new(Msg)
		qa.SetQuestion("failing.example.org.", TypeTXT)
		ra, _, err := c.Exchange(qa, addr)
		if err != nil {
			t.Fatalf("round %d: first client: %v", i, err)
		}
		if ra.Rcode != RcodeServerFailure {
			t.Fatalf("round %d: first client: rcode %d, expected SERVFAIL", i, ra.Rcode)
		}

		qb := new(Msg)
		qb.SetQuestion("www.example.org.", TypeA)
		rb, _, err := c.Exchange(qb, addr)
		if err != nil {
			t.Fatalf("round %d: second client did not get the reply its handler wrote: %v", i, err)
		}
		if len(rb.Question) != 1 || rb.Question[0].Name != "www.example.org." {
			t.Fatalf("round %d: second client: question %v", i, rb.Question)
		}
		if len(rb.Answer) != 2 {
			t.Fatalf("round %d: second client: %d answer RRs, expected 2:\n%v", i, len(rb.Answer), rb)
		}
		cn, ok1 := rb.Answer[0].(*CNAME)
		a, ok2 := rb.Answer[1].(*A)
		if !ok1 || !ok2 || cn.Hdr.Name != "www.example.org." || cn.Target != "host.example.org." ||
			a.Hdr.Name != "host.example.org." || !a.A.Equal(net.IPv4(192, 0, 2, 1)) {
			t.Fatalf("round %d: second client got a reply its handler did not write:\n%v", i, rb)
		}
	}
}
