package dns

import "testing"

// The APL unpacker accepts an address with bits set beyond the prefix length
// (1:192.168.1.5/24; RFC 3123 does not forbid it on the wire), String() prints the
// address as it is, and APL.parse refuses exactly that ("extra bits in APL address").
func TestSeededC05defect5(t *testing.T) {
	rdata := []byte{0, 1, 24, 4, 192, 168, 1, 5}
	wire := append([]byte{7, 'e', 'x', 'a', 'm', 'p', 'l', 'e', 0, 0, 42, 0, 1, 0, 0, 14, 16, 0, byte(len(rdata))}, rdata...)
	rr, _, err := UnpackRR(wire, 0)
	if err != nil {
		t.Fatal(err)
	}
	if _, err := NewRR(rr.String()); err != nil {
		t.Errorf("%q is not accepted: %v", rr.String(), err)
	}
}
