package dns

import (
	"bytes"
	"testing"
)

// X25.String prints the PSDN address, a character-string, without quotes. An address
// with a blank in it comes out as two tokens (refused as "garbage after rdata"), an
// empty address as no RDATA at all (read back as a record without RDATA: RDLENGTH 0
// instead of the single length octet).
func TestSeededC05defect3(t *testing.T) {
	for _, rdata := range [][]byte{{3, 'a', ' ', 'b'}, {0}, {3, 'a', ';', 'b'}} {
		wire := append([]byte{7, 'e', 'x', 'a', 'm', 'p', 'l', 'e', 0, 0, 19, 0, 1, 0, 0, 14, 16, 0, byte(len(rdata))}, rdata...)
		rr, _, err := UnpackRR(wire, 0)
		if err != nil {
			t.Fatal(err)
		}
		back, err := NewRR(rr.String())
		if err != nil {
			t.Errorf("%q is not accepted: %v", rr.String(), err)
			continue
		}
		buf := make([]byte, 512)
		n, err := PackRR(back, buf, 0, nil, false)
		if err != nil {
			t.Errorf("%q: pack: %v", rr.String(), err)
			continue
		}
		if !bytes.Equal(buf[:n], wire) {
			t.Errorf("%q reads back as %x, was %x", rr.String(), buf[:n], wire)
		}
	}
}
