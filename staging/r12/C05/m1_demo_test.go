package dns

import (
	"bytes"
	"testing"
)

// A CAA record taken from the wire whose property tag is not all lowercase
// ("Issue") must survive String() -> NewRR with octet-identical RDATA: the tag
// is part of the RDATA and is carried as written (RFC 8659 only says that it is
// compared case-insensitively).
func TestSeededC05m1(t *testing.T) {
	wire := []byte{
		7, 'e', 'x', 'a', 'm', 'p', 'l', 'e', 0, // owner
		0x01, 0x01, // TYPE CAA (257)
		0x00, 0x01, // CLASS IN
		0x00, 0x00, 0x0e, 0x10, // TTL 3600
		0x00, 0x12, // RDLENGTH 18
		0x00,                          // flags
		0x05, 'I', 's', 's', 'u', 'e', // tag length, tag
		'c', 'a', '.', 'e', 'x', 'a', 'm', 'p', 'l', 'e', '.', // value "ca.example."
	}
	wire[18] = byte(len(wire) - 19)
	rr, off, err := UnpackRR(wire, 0)
	if err != nil || off != len(wire) {
		t.Fatalf("unpack: %v (off %d of %d)", err, off, len(wire))
	}

	text := rr.String()
	back, err := NewRR(text)
	if err != nil {
		t.Fatalf("String() output %q is not accepted: %v", text, err)
	}
	buf := make([]byte, 512)
	n, err := PackRR(back, buf, 0, nil, false)
	if err != nil {
		t.Fatalf("pack: %v", err)
	}
	if !bytes.Equal(buf[:n], wire) {
		t.Errorf("%q reads back as %q\n wire before %x\n wire after  %x", text, back.String(), wire, buf[:n])
	}

}
