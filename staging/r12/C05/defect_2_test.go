package dns

import (
	"strings"
	"testing"
)

// The URI target is not a character-string: it is the rest of the RDATA and may be
// longer than 255 octets (RFC 7553, section 4.5). String() prints it as one quoted
// string, but URI.parse reads it with the TXT helper, which cuts every token into
// 255 octet pieces, and then insists on exactly one piece.
func TestSeededC05defect2(t *testing.T) {
	rr := &URI{
		Hdr:      RR_Header{Name: "_http._tcp.example.", Rrtype: TypeURI, Class: ClassINET, Ttl: 3600},
		Priority: 10,
		Weight:   1,
		Target:   "https://www.example/" + strings.Repeat("a", 300),
	}
	buf := make([]byte, 1024)
	if _, err := PackRR(rr, buf, 0, nil, false); err != nil {
		t.Fatalf("the record is fine on the wire: %v", err)
	}
	if _, err := NewRR(rr.String()); err != nil {
		t.Errorf("URI with a %d octet target: String() output is not accepted: %v", len(rr.Target), err)
	}
}
