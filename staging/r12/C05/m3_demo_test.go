package dns

import (
	"bytes"
	"testing"
	"time"
)

// An RRSIG that came from the wire must survive String() -> NewRR with identical
// RDATA on a host whose local time zone is not UTC. The zone parser reads the
// inception and expiration as UTC (RFC 4034, section 3.2), so String() has to
// print them as UTC, whatever time.Local is.
func TestSeededC05m3(t *testing.T) {
	saved := time.Local
	time.Local = time.FixedZone("UTC+5:30", 5*3600+30*60)
	defer func() { time.Local = saved }()

	rr := &RRSIG{
		Hdr:         RR_Header{Name: "example.", Rrtype: TypeRRSIG, Class: ClassINET, Ttl: 3600},
		TypeCovered: TypeSOA,
		Algorithm:   RSASHA256,
		Labels:      1,
		OrigTtl:     3600,
		Expiration:  1700000000, // 2023-11-14 22:13:20 UTC
		Inception:   1697408000, // 2023-10-15 22:13:20 UTC
		KeyTag:      12345,
		SignerName:  "example.",
		Signature:   "AQIDBA==",
	}
	if got, want := TimeToString(rr.Expiration), "20231114221320"; got != want {
		t.Errorf("TimeToString(%d) = %s, want %s (UTC)", rr.Expiration, got, want)
	}

	text := rr.String()
	back, err := NewRR(text)
	if err != nil {
		t.Fatalf("String() output %q is not accepted: %v", text, err)
	}
	b1 := make([]byte, 512)
	b2 := make([]byte, 512)
	n1, err1 := PackRR(rr, b1, 0, nil, false)
	n2, err2 := PackRR(back, b2, 0, nil, false)
	if err1 != nil || err2 != nil {
		t.Fatalf("pack: %v / %v", err1, err2)
	}
	if !bytes.Equal(b1[:n1], b2[:n2]) {
		sig := back.(*RRSIG)
		t.Errorf("%q reads back with expiration %d (was %d), inception %d (was %d)",
			text, sig.Expiration, rr.Expiration, sig.Inception, rr.Inception)
	}
}
