package dns

import (
	"bytes"
	"testing"
)

// A LOC record whose altitude lies between 0 and 1 metre below the reference
// spheroid (here -0.50m, i.e. 9999950 cm above the RFC 1876 base) must survive
// String() -> NewRR with identical RDATA.
func TestSeededC05m2(t *testing.T) {
	for _, altitude := range []uint32{10000000 - 50, 10000000 - 1, 10000000 - 99} {
		rr := &LOC{
			Hdr:       RR_Header{Name: "example.", Rrtype: TypeLOC, Class: ClassINET, Ttl: 3600},
			Version:   0,
			Size:      0x12,
			HorizPre:  0x16,
			VertPre:   0x13,
			Latitude:  LOC_EQUATOR + 52*LOC_DEGREES,
			Longitude: LOC_PRIMEMERIDIAN + 4*LOC_DEGREES,
			Altitude:  altitude,
		}
		text := rr.String()
		back, err := NewRR(text)
		if err != nil {
			t.Fatalf("String() output %q is not accepted: %v", text, err)
		}
		b1 := make([]byte, 512)
		b2 := make([]byte, 512)
		n1, err1 := PackRR(rr, b1, 0, nil, false)
		n2, err2 := PackRR(back, b2, 0, nil, false)
		if err1 != nil || err2 != nil {
			t.Fatalf("pack: %v / %v", err1, err2)
		}
		if !bytes.Equal(b1[:n1], b2[:n2]) {
			t.Errorf("altitude %d: %q reads back as altitude %d\n wire before %x\n wire after  %x",
				altitude, text, back.(*LOC).Altitude, b1[:n1], b2[:n2])
		}
	}
}
