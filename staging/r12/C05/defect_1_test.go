package dns

import "testing"

// Type code 0 is printed as "None" (TypeToString[TypeNone]) wherever a type is
// written inside RDATA, but no reader of a type accepts "None": the table lookup
// is done on the upper-cased token ("NONE"), and typeToInt wants TYPEnnn.
// A SIG(0) record (RFC 2931: type covered is 0) and an NSEC bitmap with bit 0
// therefore cannot be read back.
func TestSeededC05defect1(t *testing.T) {
	sig := &SIG{RRSIG{
		Hdr:         RR_Header{Name: ".", Rrtype: TypeSIG, Class: ClassANY, Ttl: 0},
		TypeCovered: 0,
		Algorithm:   ED25519,
		Expiration:  1700000300,
		Inception:   1700000000,
		KeyTag:      4711,
		SignerName:  "key.example.",
		Signature:   "AQIDBA==",
	}}
	if _, err := NewRR(sig.String()); err != nil {
		t.Errorf("SIG(0): %q is not accepted: %v", sig.String(), err)
	}

	nsec := &NSEC{
		Hdr:        RR_Header{Name: "example.", Rrtype: TypeNSEC, Class: ClassINET, Ttl: 3600},
		NextDomain: "a.example.",
		TypeBitMap: []uint16{0, TypeA},
	}
	if _, err := NewRR(nsec.String()); err != nil {
		t.Errorf("NSEC: %q is not accepted: %v", nsec.String(), err)
	}
}
