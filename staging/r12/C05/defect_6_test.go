package dns

import "testing"

// A record without RDATA (as used in dynamic updates) can be written with the type
// mnemonic as the last token of the line, but not with the TYPEnnn form of the same
// type: at a newline the tokeniser only looks the token up in StringToType and does
// not try typeToInt, so the parser never sees an RR type.
func TestSeededC05defect6(t *testing.T) {
	if _, err := NewRR("example. 3600 IN A"); err != nil {
		t.Fatalf("mnemonic: %v", err)
	}
	if _, err := NewRR("example. 3600 IN TYPE1"); err != nil {
		t.Errorf("TYPE1 instead of A: %v", err)
	}
	if _, err := NewRR("example. 3600 CLASS1 TYPE65280"); err != nil {
		t.Errorf("unknown type without RDATA: %v", err)
	}
}
