package dns

import (
	"bytes"
	"testing"
)

// NSEC3.parse sets HashLength to 20 whatever the length of the next hashed owner
// name in the text is. An NSEC3 from the wire with a hash of another length (here
// 4 octets; any future hash algorithm that is not SHA-1) prints fine and reads back
// with a length octet that no longer matches the hash that follows it.
func TestSeededC05defect4(t *testing.T) {
	rdata := []byte{1, 0, 0, 1, 0, 4, 1, 2, 3, 4, 0, 1, 0x40}
	wire := append([]byte{7, 'e', 'x', 'a', 'm', 'p', 'l', 'e', 0, 0, 50, 0, 1, 0, 0, 14, 16, 0, byte(len(rdata))}, rdata...)
	rr, _, err := UnpackRR(wire, 0)
	if err != nil {
		t.Fatal(err)
	}
	back, err := NewRR(rr.String())
	if err != nil {
		t.Fatalf("%q is not accepted: %v", rr.String(), err)
	}
	buf := make([]byte, 512)
	n, err := PackRR(back, buf, 0, nil, false)
	if err != nil {
		t.Fatal(err)
	}
	if !bytes.Equal(buf[:n], wire) {
		t.Errorf("%q reads back as\n %x, was\n %x", rr.String(), buf[:n], wire)
	}
}
