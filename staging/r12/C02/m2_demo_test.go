package dns

import (
	"testing"
	"time"
)

// Unpacking an SVCB/HTTPS record whose alpn value holds a zero-length alpn-id must
// return (with or without an error); it must not spin.
func TestSeededC02m2(t *testing.T) {
	alpn := []byte{2, 'h', '2', 0, 2, 'h', '3'} // "h2", "", "h3"
	rdata := []byte{0, 1, 0}                    // priority 1, target .
	rdata = append(rdata, 0, byte(SVCB_ALPN), 0, byte(len(alpn)))
	rdata = append(rdata, alpn...)

	msg := []byte{
		0, 1, 0x80, 0, // id, flags: response
		0, 0, 0, 1, 0, 0, 0, 0, // one answer
		1, 'a', 0, // owner a.
		byte(TypeHTTPS >> 8), byte(TypeHTTPS & 0xff), 0, 1, // type HTTPS, class IN
		0, 0, 0, 60, // ttl
		0, byte(len(rdata)),
	}
	msg = append(msg, rdata...)

	type result struct {
		m   *Msg
		err error
	}
	done := make(chan result, 1)
	go func() {
		m := new(Msg)
		err := m.Unpack(msg)
		done <- result{m, err}
	}()

	select {
	case r := <-done:
		if r.err == nil {
			// Whatever was accepted can be printed, measured and copied.
			_ = r.m.String()
			_ = r.m.Len()
			_ = r.m.Copy()
		}
	case <-time.After(10 * time.Second):
		t.Fatalf("Msg.Unpack did not return within 10s on a %d octet message (alpn value % x)", len(msg), alpn)
	}
}
