package dns

import "testing"

// A message whose OPT record carries a COOKIE option shorter than a client cookie is
// accepted by Unpack; whatever Unpack accepts must be printable (and measurable,
// copyable, re-packable) without panicking.
func TestSeededC02m3(t *testing.T) {
	for _, cookie := range [][]byte{
		{0xde, 0xad, 0xbe},                      // 3 octets: not even a client cookie
		{1, 2, 3, 4, 5, 6, 7},                   // one octet short
		{1, 2, 3, 4, 5, 6, 7, 8},                // client cookie only
		{1, 2, 3, 4, 5, 6, 7, 8, 9, 10, 11, 12}, // client cookie and a short server cookie
		{},                                      // empty option
	} {
		msg := []byte{
			0, 1, 0x80, 0, // id, flags: response
			0, 0, 0, 0, 0, 0, 0, 1, // one additional record
			0,                            // owner .
			0, byte(TypeOPT), 0x10, 0x00, // type OPT, UDP size 4096
			0, 0, 0, 0, // extended rcode, version, flags
			0, byte(4 + len(cookie)), // RDLENGTH
			0, byte(EDNS0COOKIE), 0, byte(len(cookie)),
		}
		msg = append(msg, cookie...)

		func() {
			defer func() {
				if r := recover(); r != nil {
					t.Errorf("cookie % x: panic after a successful Unpack: %v", cookie, r)
				}
			}()
			m := new(Msg)
			if err := m.Unpack(msg); err != nil {
				return // refusing the message is fine
			}
			_ = m.String()
			_ = m.Len()
			c := m.Copy()
			_ = c.String()
			if _, err := m.Pack(); err != nil {
				t.Logf("cookie % x: Pack: %v", cookie, err)
			}
		}()
	}
}
