package dns

import "testing"

// An address record whose RDLENGTH is not the size of the address must be refused
// (and must never make the unpacker read outside the record's RDATA).
func TestSeededC02m1(t *testing.T) {
	build := func(typ uint16, rdata []byte, tail []byte) []byte {
		msg := []byte{
			0, 1, 0x80, 0, // id, flags: response
			0, 0, 0, 1, 0, 0, 0, 0, // one answer
			1, 'a', 0, // owner a.
			byte(typ >> 8), byte(typ), 0, 1, // type, class IN
			0, 0, 0, 60, // ttl
			byte(len(rdata) >> 8), byte(len(rdata)),
		}
		msg = append(msg, rdata...)
		msg = append(msg, tail...)
		exact := make([]byte, len(msg)) // len == cap: nothing behind the message
		copy(exact, msg)
		return exact
	}

	cases := []struct {
		name  string
		typ   uint16
		rdata []byte
		tail  []byte
	}{
		{"A with 2 octets of RDATA, last in message", TypeA, []byte{10, 0}, nil},
		{"A with 3 octets of RDATA, bytes follow", TypeA, []byte{10, 0, 0}, []byte{1, 2, 3, 4, 5, 6, 7, 8}},
		{"A with 6 octets of RDATA", TypeA, []byte{10, 0, 0, 1, 0xde, 0xad}, nil},
		{"AAAA with 4 octets of RDATA, last in message", TypeAAAA, []byte{10, 0, 0, 1}, nil},
		{"AAAA with 20 octets of RDATA", TypeAAAA, make([]byte, 20), nil},
	}
	for _, tc := range cases {
		func() {
			defer func() {
				if r := recover(); r != nil {
					t.Errorf("%s: Unpack panicked: %v", tc.name, r)
				}
			}()
			buf := build(tc.typ, tc.rdata, tc.tail)
			m := new(Msg)
			if err := m.Unpack(buf); err == nil {
				t.Errorf("%s: Unpack accepted the message: %v", tc.name, m.Answer)
			}
			rr, off, err := UnpackRR(buf, 12)
			if err == nil {
				t.Errorf("%s: UnpackRR accepted the record: %v (next offset %d, RDATA ends at %d)",
					tc.name, rr, off, 12+13+len(tc.rdata))
			}
		}()
	}
}
