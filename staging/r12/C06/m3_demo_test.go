package dns

import (
	"strings"
	"testing"
)

// The same two records written with absolute names, and written relative to an
// origin set by $ORIGIN. The name of the origin must not matter: whatever
// follows "$ORIGIN " is a domain name, not a keyword.
func TestSeededC06m3(t *testing.T) {
	want := []string{
		"types.example.org.\t300\tIN\tNS\tns.types.example.org.",
		"ns.types.example.org.\t300\tIN\tA\t192.0.2.53",
	}

	zones := map[string]string{
		"absolute": "types.example.org. 300 IN NS ns.types.example.org.\n" +
			"ns.types.example.org. 300 IN A 192.0.2.53\n",
		"origin absolute": "$ORIGIN types.example.org.\n" +
			"@  300 IN NS ns\n" +
			"ns 300 IN A 192.0.2.53\n",
		"origin relative": "$ORIGIN example.org.\n" +
			"$ORIGIN types\n" +
			"@  300 IN NS ns\n" +
			"ns 300 IN A 192.0.2.53\n",
	}

	for name, zone := range zones {
		zp := NewZoneParser(strings.NewReader(zone), "", "")

		var got []string
		for rr, ok := zp.Next(); ok; rr, ok = zp.Next() {
			got = append(got, rr.String())
		}
		if err := zp.Err(); err != nil {
			t.Errorf("%s: parse error: %v", name, err)
			continue
		}
		if len(got) != len(want) {
			t.Errorf("%s: got %d records, want %d: %q", name, len(got), len(want), got)
			continue
		}
		for i := range want {
			if got[i] != want[i] {
				t.Errorf("%s: record %d is %q, want %q", name, i, got[i], want[i])
			}
		}
	}
}
