package dns

import (
	"strings"
	"testing"
)

// A comment may start right behind an item, without a blank in front of the
// semicolon. The lexer hands out the item in front of the ';' as a plain string
// without looking it up as class or type (as it does when a blank or a newline
// ends the item), so the line-shape state machine refuses the record.
func TestSeededDefect2CommentRightBehindKeyword(t *testing.T) {
	parse := func(zone string) ([]string, error) {
		var out []string
		zp := NewZoneParser(strings.NewReader(zone), "", "")
		for rr, ok := zp.Next(); ok; rr, ok = zp.Next() {
			out = append(out, rr.String())
		}
		return out, zp.Err()
	}

	const want = "example.\t300\tIN\tA\t192.0.2.1"
	for _, zone := range []string{
		"example. 300 ( IN ;class\n A ;type\n 192.0.2.1 )\n", // with a blank: fine
		"example. 300 ( IN;class\n A 192.0.2.1 )\n",
		"example. 300 IN ( A;type\n 192.0.2.1 )\n",
	} {
		got, err := parse(zone)
		if err != nil {
			t.Errorf("%q: parse error: %v", zone, err)
			continue
		}
		if len(got) != 1 || got[0] != want {
			t.Errorf("%q: got %q, want %q", zone, got, want)
		}
	}
}
