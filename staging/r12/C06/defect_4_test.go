package dns

import (
	"strings"
	"testing"
	"testing/fstest"
)

// $GENERATE may produce $INCLUDE lines ("$$INCLUDE", see TestGenerateRangeGuard).
// The sub-parser that reads the generated lines gets includeAllowed and the
// include depth of its parent, but not the fs.FS set with SetIncludeFS, so such
// an $INCLUDE goes to the operating system's file system instead.
func TestSeededDefect4GenerateIncludeIgnoresFS(t *testing.T) {
	fsys := fstest.MapFS{
		"c06-defect4-1.db": &fstest.MapFile{Data: []byte("a 300 IN A 192.0.2.1\n")},
		"c06-defect4-2.db": &fstest.MapFile{Data: []byte("b 300 IN A 192.0.2.2\n")},
	}
	want := []string{"a.example.\t300\tIN\tA\t192.0.2.1", "b.example.\t300\tIN\tA\t192.0.2.2"}

	for _, zone := range []string{
		"$ORIGIN example.\n$INCLUDE c06-defect4-1.db\n$INCLUDE c06-defect4-2.db\n", // control
		"$ORIGIN example.\n$GENERATE 1-2 $$INCLUDE c06-defect4-$.db\n",
	} {
		zp := NewZoneParser(strings.NewReader(zone), "", "")
		zp.SetIncludeAllowed(true)
		zp.SetIncludeFS(fsys)
		var got []string
		for rr, ok := zp.Next(); ok; rr, ok = zp.Next() {
			got = append(got, rr.String())
		}
		if err := zp.Err(); err != nil {
			t.Errorf("%q: parse error: %v", zone, err)
			continue
		}
		if strings.Join(got, "\n") != strings.Join(want, "\n") {
			t.Errorf("%q: got %q, want %q", zone, got, want)
		}
	}
}
