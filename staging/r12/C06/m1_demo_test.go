package dns

import (
	"strings"
	"testing"
)

// The same three records, written twice. The only difference between the two
// renderings is what follows the rdata of the second record: nothing, or a
// blank and a comment. Neither may change what the third line (owner, TTL and
// class omitted) denotes: owner "a.example.", the $TTL value, class IN.
func TestSeededC06m1(t *testing.T) {
	const plain = "$ORIGIN example.\n$TTL 1h\n" +
		"a      IN A 192.0.2.1\n" +
		"    60 IN A 192.0.2.2\n" +
		"       IN A 192.0.2.3\n"
	const commented = "$ORIGIN example.\n$TTL 1h\n" +
		"a      IN A 192.0.2.1 ; first\n" +
		"    60 IN A 192.0.2.2 ; short lived\n" +
		"       IN A 192.0.2.3\n"

	parse := func(zone string) []string {
		t.Helper()
		var out []string
		zp := NewZoneParser(strings.NewReader(zone), "", "")
		for rr, ok := zp.Next(); ok; rr, ok = zp.Next() {
			out = append(out, rr.String())
		}
		if err := zp.Err(); err != nil {
			t.Fatalf("parse error: %v", err)
		}
		return out
	}

	want := []string{
		"a.example.\t3600\tIN\tA\t192.0.2.1",
		"a.example.\t60\tIN\tA\t192.0.2.2",
		"a.example.\t3600\tIN\tA\t192.0.2.3",
	}
	for name, zone := range map[string]string{"plain": plain, "commented": commented} {
		got := parse(zone)
		if len(got) != len(want) {
			t.Fatalf("%s: got %d records, want %d: %q", name, len(got), len(want), got)
		}
		for i := range want {
			if got[i] != want[i] {
				t.Errorf("%s: record %d is %q, want %q", name, i, got[i], want[i])
			}
		}
	}
}
