package dns

import (
	"fmt"
	"strings"
	"testing"
)

// $GENERATE with an offset-only modifier: every ${offset} is the iterator
// value plus the offset, printed in decimal, whatever the number of digits of
// the iterator and of the sum.
func TestSeededC06m2(t *testing.T) {
	const zone = "$ORIGIN example.\n$TTL 300\n" +
		"$GENERATE 7-12 host${3} A 192.0.2.$\n"

	var want []string
	for i := 7; i <= 12; i++ {
		want = append(want, fmt.Sprintf("host%d.example.\t300\tIN\tA\t192.0.2.%d", i+3, i))
	}

	var got []string
	zp := NewZoneParser(strings.NewReader(zone), "", "")
	for rr, ok := zp.Next(); ok; rr, ok = zp.Next() {
		got = append(got, rr.String())
	}
	if err := zp.Err(); err != nil {
		t.Fatalf("parse error: %v (after %q)", err, got)
	}
	if len(got) != len(want) {
		t.Fatalf("got %d records, want %d: %q", len(got), len(want), got)
	}
	for i := range want {
		if got[i] != want[i] {
			t.Errorf("record %d is %q, want %q", i, got[i], want[i])
		}
	}
}
