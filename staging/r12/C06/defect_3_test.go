package dns

import (
	"strings"
	"testing"
	"testing/fstest"
)

// The lexer looks every item in front of the record type up as type or class,
// also the arguments of directives, which are domain names, file names or a
// $GENERATE left hand side. When a blank follows such an argument (trailing
// blank, comment, further argument) a name that starts with "type" or "class"
// is "unknown RR type" / "unknown class", and a relative origin that happens to
// be a mnemonic ("mx", "in") is "expecting $ORIGIN value, not this...". The
// same line without anything behind the argument parses.
func TestSeededDefect3DirectiveArgumentsAreNotKeywords(t *testing.T) {
	fsys := fstest.MapFS{
		"types.db": &fstest.MapFile{Data: []byte("www 300 IN A 192.0.2.1\n")},
	}
	parse := func(zone string) ([]string, error) {
		var out []string
		zp := NewZoneParser(strings.NewReader(zone), "", "")
		zp.SetIncludeAllowed(true)
		zp.SetIncludeFS(fsys)
		for rr, ok := zp.Next(); ok; rr, ok = zp.Next() {
			out = append(out, rr.String())
		}
		return out, zp.Err()
	}

	for _, tc := range []struct {
		zone string
		want []string
	}{
		// control: nothing behind the argument
		{"$ORIGIN classic.example.\nwww 300 IN A 192.0.2.1\n", []string{"www.classic.example.\t300\tIN\tA\t192.0.2.1"}},
		// a comment behind the argument
		{"$ORIGIN classic.example. ; the old zone\nwww 300 IN A 192.0.2.1\n", []string{"www.classic.example.\t300\tIN\tA\t192.0.2.1"}},
		{"$ORIGIN typewriter.example. ; qwerty\nwww 300 IN A 192.0.2.1\n", []string{"www.typewriter.example.\t300\tIN\tA\t192.0.2.1"}},
		// a relative origin that is a type mnemonic
		{"$ORIGIN example.\n$ORIGIN mx ; mail\nwww 300 IN A 192.0.2.1\n", []string{"www.mx.example.\t300\tIN\tA\t192.0.2.1"}},
		// $INCLUDE with an origin behind the file name
		{"$ORIGIN example.\n$INCLUDE types.db sub\n", []string{"www.sub.example.\t300\tIN\tA\t192.0.2.1"}},
		// $GENERATE left hand side
		{"$ORIGIN example.\n$GENERATE 1-2 classroom$ 300 A 192.0.2.$\n", []string{
			"classroom1.example.\t300\tIN\tA\t192.0.2.1", "classroom2.example.\t300\tIN\tA\t192.0.2.2"}},
		{"$ORIGIN example.\n$GENERATE 1-2 type$ 300 A 192.0.2.$\n", []string{
			"type1.example.\t300\tIN\tA\t192.0.2.1", "type2.example.\t300\tIN\tA\t192.0.2.2"}},
	} {
		got, err := parse(tc.zone)
		if err != nil {
			t.Errorf("%q: parse error: %v", tc.zone, err)
			continue
		}
		if strings.Join(got, "\n") != strings.Join(tc.want, "\n") {
			t.Errorf("%q: got %q, want %q", tc.zone, got, tc.want)
		}
	}
}
